/-
Refinement of the hand model ScpiVerif.Heap (Model/Heap.lean) by the definitions GENERATED from the C text of
libscpi/src/utils.c (scpiheap_init, scpiheap_strndup, scpiheap_get_parts, scpiheap_free; translate/c2lean_heap.py ->
Gen/HeapC.lean).  Every theorem also shows that the undefined-behaviour flag of the generated function is false: no load,
store, memcpy, memset, strnlen or pointer computation leaves the heap buffer or the source string.

size_t arithmetic is modular in the generated text (`szadd`, `szsub`, mod 2^64).  The theorems assume `size < 2^64` (and a
source object shorter than 2^64 bytes) and PROVE that under the heap's well-formedness no operation wraps, except the pair
`wr += size; wr -= rb` of the rollback, whose intermediate value may exceed 2^64 - 1 while the final one is exact.
-/
import ScpiVerif.Gen.HeapC
import ScpiVerif.Lemmas.Heap

namespace ScpiVerif.Lemmas.HeapC
open ScpiVerif ScpiVerif.Heap ScpiVerif.Gen.HeapC
open ScpiVerif.Fifo (Bytes)

/-- the generated structure as a state of the hand model (no out-of-bounds access recorded) -/
def toModel (c : CHeap) : Heap := { wr := c.wr, count := c.count, size := c.size, data := c.data }

/-- a hand-model state as the generated structure -/
def ofModel (h : Heap) : CHeap := { wr := h.wr, count := h.count, size := h.size, data := h.data }

@[simp] theorem toModel_ofModel (h : Heap) (ho : h.oob = false) : toModel (ofModel h) = h := by
  cases h; simp_all [toModel, ofModel]

@[simp] theorem ofModel_toModel (c : CHeap) : ofModel (toModel c) = c := rfl

/-- well-formedness the refinement theorems need: the buffer has `size` bytes, sizes fit size_t, the free count is at most
the size, the write offset is inside the buffer.  Implied by the hand model's invariant `HInv` (see `cwf_of_hinv`). -/
def CWF (c : CHeap) : Prop :=
  c.data.length = c.size ∧ c.size < 18446744073709551616 ∧ c.count ≤ c.size ∧ (c.wr < c.size ∨ c.size = 0)

/-- the source string handed to scpiheap_strndup: shorter than 2^64 bytes, and either NUL-terminated or longer than `n`
(the function reads `strnlen(s, n) + 1` bytes) -/
def SrcOK (src : Bytes) (n : Nat) : Prop :=
  src.length < 18446744073709551616 ∧ ((cstr src).take n).length < src.length

/-! ### bridging lemmas (proved once; none mentions the shape of a generated function) -/

theorem szadd_eq (a b : Nat) (h : a + b < 18446744073709551616) : szadd a b = a + b := by
  unfold szadd; omega

theorem szsub_eq (a b : Nat) (h1 : b ≤ a) (h2 : a < 18446744073709551616) : szsub a b = a - b := by
  unfold szsub; omega

theorem szsub_zero (a : Nat) (h2 : a < 18446744073709551616) : szsub a 0 = a := by
  unfold szsub; omega

theorem heap_ext (a b : Heap) (h1 : a.wr = b.wr) (h2 : a.count = b.count) (h3 : a.size = b.size) (h4 : a.data = b.data)
    (h5 : a.oob = b.oob) : a = b := by
  cases a; cases b; simp_all

/-- the fold of the hand model's memcpy as a splice -/
theorem storeAll_eq (h : Heap) (at_ : Nat) (src : List UInt8) (hlen : h.data.length = h.size)
    (hfit : at_ + src.length ≤ h.size) :
    storeAll h at_ src = { h with data := h.data.take at_ ++ src ++ h.data.drop (at_ + src.length) } := by
  obtain ⟨h1, h2, h3, h4, h5, h6⟩ := Lemmas.Heap.storeAll_spec src h at_ hlen hfit
  apply heap_ext
  · exact h1
  · exact h2
  · exact h3
  rotate_left
  · exact h4
  show (storeAll h at_ src).data = _
  apply List.ext_getElem?
  intro j
  rw [h6 j]
  have hat : at_ ≤ h.data.length := by omega
  by_cases c1 : j < at_
  · rw [if_neg (by omega), List.append_assoc, List.getElem?_append_left (by simp; omega), List.getElem?_take_of_lt c1]
  · by_cases c2 : j < at_ + src.length
    · rw [if_pos (by omega), List.append_assoc, List.getElem?_append_right (by simp; omega),
        List.getElem?_append_left (by simp; omega)]
      simp [Nat.min_eq_left hat]
    · rw [if_neg (by omega), List.getElem?_append_right (by simp; omega), List.getElem?_drop]
      congr 1; simp; omega

theorem zero_eq (h : Heap) (at_ n : Nat) (hlen : h.data.length = h.size) (hfit : at_ + n ≤ h.size) :
    zero h at_ n = { h with data := h.data.take at_ ++ List.replicate n 0 ++ h.data.drop (at_ + n) } := by
  unfold zero
  rw [storeAll_eq h at_ _ hlen (by simpa using hfit)]
  simp

theorem takeWhile_take (p : UInt8 → Bool) (l : List UInt8) (n : Nat) :
    (l.take n).takeWhile p = (l.takeWhile p).take n := by
  induction l generalizing n with
  | nil => simp
  | cons a l ih =>
    cases n with
    | zero => simp
    | succ n =>
      simp only [List.take_succ_cons, List.takeWhile_cons]
      split
      · simp [ih]
      · simp

theorem strnlen_src (src : Bytes) (n : Nat) : (strnlen src 0 n).1 = ((cstr src).take n).length := by
  simp [strnlen, cstr, takeWhile_take]

theorem strnlen_heap (c : CHeap) (off max : Nat) : (strnlen c.data off max).1 = strnlenAt (toModel c) off max := rfl

theorem strnlenAt_le (h : Heap) (off mx : Nat) :
    strnlenAt h off mx ≤ mx ∧ off + strnlenAt h off mx ≤ Nat.max off h.data.length := by
  unfold strnlenAt
  have h1 := (List.takeWhile_prefix (fun (x : UInt8) => decide (x ≠ 0)) (l := (h.data.drop off).take mx)).length_le
  simp only [List.length_take, List.length_drop] at h1
  simp only [Nat.max_def]
  split <;> omega

theorem strnlenAt_pos (h : Heap) (off max : Nat) (h0 : h.data.getD off 0 ≠ 0) (hm : 1 ≤ max) : 1 ≤ strnlenAt h off max := by
  unfold strnlenAt
  cases hd : h.data.drop off with
  | nil =>
    have : h.data.length ≤ off := by simpa using hd
    simp [List.getD, List.getElem?_eq_none this] at h0
  | cons a l =>
    have ha : h.data[off]? = some a := by
      have := congrArg (fun l => l[0]?) hd
      simpa using this
    have : a ≠ 0 := by simpa [List.getD, ha] using h0
    cases max with
    | zero => omega
    | succ m => simp [List.take_succ_cons, this]

theorem strnlen_ub (src : List UInt8) (off max : Nat) :
    (strnlen src off max).2 = decide (src.length < off + (if (strnlen src off max).1 < max then (strnlen src off max).1 + 1 else (strnlen src off max).1)) := rfl

/-! ### scpiheap_init -/

theorem init_refines (c : CHeap) (buf : List UInt8) (n : Nat) (hbuf : buf.length = n) :
    scpiheap_init c buf n = (ofModel (Heap.init n), false) := by
  subst hbuf
  simp [scpiheap_init, memset, ofModel, Heap.init]

theorem cwf_init (n : Nat) (hn : n < 18446744073709551616) : CWF (ofModel (Heap.init n)) := by
  simp [CWF, ofModel, Heap.init]; omega

/-! ### scpiheap_get_parts -/

/-- what the generated get_parts delivers for a hand-model result: the three cells and the return value -/
def partsResult (a : Nat) (p : Option Nat) (b : Nat) : Option (Nat × Bool × Nat) → Option Nat × Option (Option Nat) × Option Nat × Bool
  | none => (some a, some p, some b, false)
  | some (l1, two, l2) => (some l1, some (if two then some 0 else none), some l2, true)

theorem rd_def (a : List UInt8) (i : Nat) : a.getD i 0 = rd a i := rfl
theorem toModel_data (c : CHeap) : (toModel c).data = c.data := rfl
theorem toModel_size (c : CHeap) : (toModel c).size = c.size := rfl
theorem toModel_wr (c : CHeap) : (toModel c).wr = c.wr := rfl
theorem toModel_count (c : CHeap) : (toModel c).count = c.count := rfl
theorem toModel_oob (c : CHeap) : (toModel c).oob = false := rfl

theorem get_parts_refines (c : CHeap) (s a b : Nat) (p : Option Nat) (hlen : c.data.length = c.size)
    (hsz : c.size < 18446744073709551616) (hs : s < c.size) :
    scpiheap_get_parts (some c) (some s) (some a) (some p) (some b) =
      ((partsResult a p b (getParts (toModel c) s)).1, (partsResult a p b (getParts (toModel c) s)).2.1,
       (partsResult a p b (getParts (toModel c) s)).2.2.1, (partsResult a p b (getParts (toModel c) s)).2.2.2, false) := by
  have hl : strnlenAt (toModel c) s (c.size - s) ≤ c.size - s := (strnlenAt_le (toModel c) s (c.size - s)).1
  have hl2 : strnlenAt (toModel c) 0 c.size ≤ c.size := (strnlenAt_le (toModel c) 0 c.size).1
  have hp : rd c.data s ≠ 0 → 1 ≤ strnlenAt (toModel c) s (c.size - s) :=
    fun h0 => strnlenAt_pos (toModel c) s (c.size - s) h0 (by omega)
  simp only [scpiheap_get_parts, getParts, partsResult, toModel_data, toModel_size, rd_def, strnlen_ub, strnlen_heap,
    szsub_zero s (by omega), szsub_eq c.size s (by omega) hsz, szsub_eq c.size 1 (by omega) hsz]
  obtain ⟨l1, hl1⟩ : ∃ l1, strnlenAt (toModel c) s (c.size - s) = l1 := ⟨_, rfl⟩
  obtain ⟨l2, hl2'⟩ : ∃ l2, strnlenAt (toModel c) 0 c.size = l2 := ⟨_, rfl⟩
  simp only [hl1, hl2'] at hl hl2 hp ⊢
  have hub1 : s + (if l1 < c.size - s then l1 + 1 else l1) ≤ c.size := by split <;> omega
  have hub2 : (if l2 < c.size then l2 + 1 else l2) ≤ c.size := by split <;> omega
  by_cases h0 : rd c.data s = 0
  · simp [h0]; omega
  · have hp := hp h0
    rw [szsub_eq l1 1 hp (by omega)]
    by_cases h1 : s + l1 = c.size
    · have : (s + (l1 - 1) == c.size - 1) = true := by simp; omega
      simp [h0, h1, this]
      omega
    · have : (s + (l1 - 1) == c.size - 1) = false := by simp; omega
      simp [h0, h1, this]
      omega
theorem zero_count_zero_eq (h : Heap) (n1 X s n0 : Nat) (hlen : h.data.length = h.size) (h1 : n1 ≤ h.size)
    (h0 : s + n0 ≤ h.size) :
    zero { wr := (zero h 0 n1).wr, count := X, size := (zero h 0 n1).size, data := (zero h 0 n1).data, oob := (zero h 0 n1).oob } s n0 =
      { h with count := X,
               data := (List.replicate n1 0 ++ h.data.drop n1).take s ++ List.replicate n0 0 ++
                        (List.replicate n1 0 ++ h.data.drop n1).drop (s + n0) } := by
  rw [zero_eq h 0 n1 hlen (by omega)]
  rw [zero_eq _ s n0 (by simp; omega) (by simpa using h0)]
  simp

/-! ### scpiheap_free -/

/-- scpiheap_free on a pointer to a stored text `t` (the precondition of the hand model's `free_spec`): same state as the
hand model, no access outside the heap.  `hcnt` (the freed bytes were counted as used) keeps `count += len` from wrapping. -/
theorem free_refines (c : CHeap) (s : Nat) (t : Bytes) (rb : Bool) (hlen : c.data.length = c.size)
    (hsz : c.size < 18446744073709551616) (hs : s < c.size) (hfit : t.length + 1 ≤ c.size) (hg : Lemmas.Heap.Good t)
    (hh : Lemmas.Heap.Holds (toModel c) s t) (hcnt : c.count + (t.length + 1) ≤ c.size) (hwr : c.wr < c.size) :
    scpiheap_free c (some s) rb = (ofModel (free (toModel c) (some s) rb), false) := by
  have hgp := (Lemmas.Heap.getParts_of_holds (toModel c) s t hlen hs hfit hg hh).1
  by_cases hc : s + t.length < c.size
  · rw [toModel_size, if_pos hc] at hgp
    have hz := zero_eq (toModel c) s (t.length + 1) hlen (by simp only [toModel_size]; omega)
    simp only [scpiheap_free, get_parts_refines c s 0 0 none hlen hsz hs, Heap.free, hgp, partsResult]
    simp [hz, memset, toModel_data, toModel_count, toModel_wr, toModel_size, ofModel, szadd_eq t.length 1 (by omega),
      szadd_eq c.count (t.length + 1) (by omega), hlen, show s + (t.length + 1) ≤ c.size by omega]
    clear hz hgp hh
    repeat' split
    all_goals (simp_all [szadd, szsub])
    all_goals (try omega)
  · rw [toModel_size, if_neg hc] at hgp
    obtain ⟨_, zc, _, _, _, _⟩ := Lemmas.Heap.zero_spec (toModel c) 0 (t.length - (c.size - s) + 1) hlen
      (by simp only [toModel_size]; omega)
    have hz := zero_count_zero_eq (toModel c) (t.length - (c.size - s) + 1) (c.count + (t.length - (c.size - s) + 1)) s
      (c.size - s) hlen (by simp only [toModel_size]; omega) (by simp only [toModel_size]; omega)
    simp only [scpiheap_free, get_parts_refines c s 0 0 none hlen hsz hs, Heap.free, hgp, partsResult]
    have e1 : t.length - (c.size - s) + 1 ≤ c.size := by omega
    have e2 : s + (c.size - s) = c.size := by omega
    simp [hz, zc, memset, toModel_data, toModel_count, toModel_wr, toModel_size, ofModel,
      szadd_eq (t.length - (c.size - s)) 1 (by omega),
      szadd_eq (c.size - s) (t.length - (c.size - s) + 1) (by omega), hlen, e1, e2]
    clear hz hgp hh
    repeat' split
    all_goals (simp_all [szadd, szsub])
    all_goals (try omega)

theorem free_null (c : CHeap) (rb : Bool) : scpiheap_free c none rb = (ofModel (free (toModel c) none rb), false) := by
  simp [scpiheap_free, Heap.free]

/-- a pointer to a NUL byte (an entry already released): nothing happens, as in the hand model -/
theorem free_at_nul (c : CHeap) (s : Nat) (rb : Bool) (hlen : c.data.length = c.size)
    (hsz : c.size < 18446744073709551616) (hs : s < c.size) (h0 : c.data.getD s 0 = 0) :
    scpiheap_free c (some s) rb = (ofModel (free (toModel c) (some s) rb), false) := by
  have hgp : getParts (toModel c) s = none := by simp only [getParts, toModel_data, h0, if_true]
  simp [scpiheap_free, get_parts_refines c s 0 0 none hlen hsz hs, Heap.free, hgp, partsResult]

/-- NULL arguments: FALSE, nothing written -/
theorem get_parts_null (c : Option CHeap) (s : Option Nat) (a b : Option Nat) (p : Option (Option Nat))
    (h : c = none ∨ s = none ∨ a = none ∨ p = none ∨ b = none) :
    scpiheap_get_parts c s a p b = (a, p, b, false, false) := by
  unfold scpiheap_get_parts
  rcases c with _ | c <;> rcases s with _ | s <;> rcases a with _ | a <;> rcases p with _ | p <;> rcases b with _ | b <;> simp_all

end ScpiVerif.Lemmas.HeapC
