/-
Helper lemmas for C20 (circular string heap of utils.c and the error queue on top of it).
-/
import ScpiVerif.Model.Heap
import ScpiVerif.Lemmas.Fifo

namespace ScpiVerif.Lemmas.Heap
open ScpiVerif ScpiVerif.Heap
open ScpiVerif.Fifo (Bytes Fifo)
open ScpiVerif.Lemmas.Fifo (mod_wrap)

/-! ### store / storeAll / zero -/

theorem store_lt (h : Heap) (i : Nat) (b : UInt8) (hi : i < h.size) :
    store h i b = { h with data := h.data.set i b } := by
  simp [store, hi]

/-- the fold of `storeAll`, with the running index made explicit -/
def storeFrom (h : Heap) (at_ k : Nat) (src : List UInt8) : Heap :=
  (src.zipIdx k).foldl (fun h (b, i) => store h (at_ + i) b) h

theorem storeAll_eq_storeFrom (h : Heap) (at_ : Nat) (src : List UInt8) :
    storeAll h at_ src = storeFrom h at_ 0 src := rfl

theorem storeFrom_nil (h : Heap) (at_ k : Nat) : storeFrom h at_ k [] = h := rfl

theorem storeFrom_cons (h : Heap) (at_ k : Nat) (b : UInt8) (src : List UInt8) :
    storeFrom h at_ k (b :: src) = storeFrom (store h (at_ + k) b) at_ (k + 1) src := by
  simp [storeFrom, List.zipIdx_cons]

theorem storeFrom_spec (src : List UInt8) (h : Heap) (at_ k : Nat)
    (hlen : h.data.length = h.size) (hfit : at_ + k + src.length ≤ h.size) :
    (storeFrom h at_ k src).wr = h.wr ∧ (storeFrom h at_ k src).count = h.count ∧
    (storeFrom h at_ k src).size = h.size ∧ (storeFrom h at_ k src).oob = h.oob ∧
    (storeFrom h at_ k src).data.length = h.size ∧
    ∀ j, (storeFrom h at_ k src).data[j]? =
      if at_ + k ≤ j ∧ j < at_ + k + src.length then src[j - (at_ + k)]? else h.data[j]? := by
  induction src generalizing h k with
  | nil =>
    refine ⟨rfl, rfl, rfl, rfl, hlen, ?_⟩
    intro j
    have : ¬ (at_ + k ≤ j ∧ j < at_ + k + ([] : List UInt8).length) := by simp
    rw [if_neg this]; rfl
  | cons b src ih =>
    rw [storeFrom_cons]
    simp only [List.length_cons] at hfit
    have hlt : at_ + k < h.size := by omega
    rw [store_lt h _ b hlt]
    have := ih { h with data := h.data.set (at_ + k) b } (k + 1) (by simpa using hlen)
      (by simp only; omega)
    obtain ⟨h1, h2, h3, h4, h5, h6⟩ := this
    refine ⟨h1, h2, h3, h4, h5, ?_⟩
    intro j
    rw [h6 j]
    simp only [List.length_cons, List.getElem?_set]
    by_cases hj : j = at_ + k
    · subst hj
      have hj2 : ¬ (at_ + (k + 1) ≤ at_ + k ∧ at_ + k < at_ + (k + 1) + src.length) := by omega
      have hj3 : at_ + k ≤ at_ + k ∧ at_ + k < at_ + k + (src.length + 1) := by omega
      rw [if_neg hj2, if_pos hj3]
      simp [hlen, hlt]
    · by_cases hj2 : at_ + (k + 1) ≤ j ∧ j < at_ + (k + 1) + src.length
      · have hj3 : at_ + k ≤ j ∧ j < at_ + k + (src.length + 1) := by omega
        rw [if_pos hj2, if_pos hj3]
        have : j - (at_ + k) = (j - (at_ + (k + 1))) + 1 := by omega
        rw [this, List.getElem?_cons_succ]
      · have hj3 : ¬ (at_ + k ≤ j ∧ j < at_ + k + (src.length + 1)) := by omega
        rw [if_neg hj2, if_neg hj3]
        have : ¬ at_ + k = j := by omega
        simp [this]

theorem storeAll_spec (src : List UInt8) (h : Heap) (at_ : Nat)
    (hlen : h.data.length = h.size) (hfit : at_ + src.length ≤ h.size) :
    (storeAll h at_ src).wr = h.wr ∧ (storeAll h at_ src).count = h.count ∧
    (storeAll h at_ src).size = h.size ∧ (storeAll h at_ src).oob = h.oob ∧
    (storeAll h at_ src).data.length = h.size ∧
    ∀ j, (storeAll h at_ src).data[j]? =
      if at_ ≤ j ∧ j < at_ + src.length then src[j - at_]? else h.data[j]? := by
  have := storeFrom_spec src h at_ 0 hlen (by simpa using hfit)
  simp only [Nat.add_zero] at this
  exact this

theorem zero_spec (h : Heap) (at_ n : Nat)
    (hlen : h.data.length = h.size) (hfit : at_ + n ≤ h.size) :
    (zero h at_ n).wr = h.wr ∧ (zero h at_ n).count = h.count ∧
    (zero h at_ n).size = h.size ∧ (zero h at_ n).oob = h.oob ∧
    (zero h at_ n).data.length = h.size ∧
    ∀ j, (zero h at_ n).data[j]? = if at_ ≤ j ∧ j < at_ + n then some 0 else h.data[j]? := by
  have := storeAll_spec (List.replicate n 0) h at_ hlen (by simpa using hfit)
  obtain ⟨h1, h2, h3, h4, h5, h6⟩ := this
  refine ⟨h1, h2, h3, h4, h5, ?_⟩
  intro j
  have := h6 j
  unfold zero
  rw [this]
  simp only [List.length_replicate]
  split
  · rename_i hj
    rw [List.getElem?_replicate]
    simp; omega
  · rfl

end ScpiVerif.Lemmas.Heap
