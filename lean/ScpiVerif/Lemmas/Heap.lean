/-
Helper lemmas for C20 (circular string heap of utils.c and the error queue on top of it).
-/
import ScpiVerif.Model.Heap
import ScpiVerif.Lemmas.Fifo

/- Props/C20.lean opens only `ScpiVerif` and `ScpiVerif.Heap` and writes `Bytes` (which lives in
`ScpiVerif.Fifo`; Model/Heap.lean opens it locally).  Make the name visible there too. -/
namespace ScpiVerif.Heap
export ScpiVerif.Fifo (Bytes)
end ScpiVerif.Heap

namespace ScpiVerif.Lemmas.Heap
open ScpiVerif ScpiVerif.Heap
open ScpiVerif.Fifo (Bytes Fifo)
open ScpiVerif.Lemmas.Fifo (mod_wrap)

/-! ### store / storeAll / zero -/

theorem store_lt (h : Heap) (i : Nat) (b : UInt8) (hi : i < h.size) :
    store h i b = { h with data := h.data.set i b } := by
  simp [store, hi]

/-- the fold of `storeAll`, with the running index made explicit -/
def storeFrom (h : Heap) (at_ k : Nat) (src : List UInt8) : Heap :=
  (src.zipIdx k).foldl (fun h (b, i) => store h (at_ + i) b) h

theorem storeAll_eq_storeFrom (h : Heap) (at_ : Nat) (src : List UInt8) :
    storeAll h at_ src = storeFrom h at_ 0 src := rfl

theorem storeFrom_nil (h : Heap) (at_ k : Nat) : storeFrom h at_ k [] = h := rfl

theorem storeFrom_cons (h : Heap) (at_ k : Nat) (b : UInt8) (src : List UInt8) :
    storeFrom h at_ k (b :: src) = storeFrom (store h (at_ + k) b) at_ (k + 1) src := by
  simp [storeFrom, List.zipIdx_cons]

theorem storeFrom_spec (src : List UInt8) (h : Heap) (at_ k : Nat)
    (hlen : h.data.length = h.size) (hfit : at_ + k + src.length ≤ h.size) :
    (storeFrom h at_ k src).wr = h.wr ∧ (storeFrom h at_ k src).count = h.count ∧
    (storeFrom h at_ k src).size = h.size ∧ (storeFrom h at_ k src).oob = h.oob ∧
    (storeFrom h at_ k src).data.length = h.size ∧
    ∀ j, (storeFrom h at_ k src).data[j]? =
      if at_ + k ≤ j ∧ j < at_ + k + src.length then src[j - (at_ + k)]? else h.data[j]? := by
  induction src generalizing h k with
  | nil =>
    refine ⟨rfl, rfl, rfl, rfl, hlen, ?_⟩
    intro j
    have : ¬ (at_ + k ≤ j ∧ j < at_ + k + ([] : List UInt8).length) := by simp
    rw [if_neg this]; rfl
  | cons b src ih =>
    rw [storeFrom_cons]
    simp only [List.length_cons] at hfit
    have hlt : at_ + k < h.size := by omega
    rw [store_lt h _ b hlt]
    have := ih { h with data := h.data.set (at_ + k) b } (k + 1) (by simpa using hlen)
      (by simp only; omega)
    obtain ⟨h1, h2, h3, h4, h5, h6⟩ := this
    refine ⟨h1, h2, h3, h4, h5, ?_⟩
    intro j
    rw [h6 j]
    simp only [List.length_cons, List.getElem?_set]
    by_cases hj : j = at_ + k
    · subst hj
      have hj2 : ¬ (at_ + (k + 1) ≤ at_ + k ∧ at_ + k < at_ + (k + 1) + src.length) := by omega
      have hj3 : at_ + k ≤ at_ + k ∧ at_ + k < at_ + k + (src.length + 1) := by omega
      rw [if_neg hj2, if_pos hj3]
      simp [hlen, hlt]
    · by_cases hj2 : at_ + (k + 1) ≤ j ∧ j < at_ + (k + 1) + src.length
      · have hj3 : at_ + k ≤ j ∧ j < at_ + k + (src.length + 1) := by omega
        rw [if_pos hj2, if_pos hj3]
        have : j - (at_ + k) = (j - (at_ + (k + 1))) + 1 := by omega
        rw [this, List.getElem?_cons_succ]
      · have hj3 : ¬ (at_ + k ≤ j ∧ j < at_ + k + (src.length + 1)) := by omega
        rw [if_neg hj2, if_neg hj3]
        have : ¬ at_ + k = j := by omega
        simp [this]

theorem storeAll_spec (src : List UInt8) (h : Heap) (at_ : Nat)
    (hlen : h.data.length = h.size) (hfit : at_ + src.length ≤ h.size) :
    (storeAll h at_ src).wr = h.wr ∧ (storeAll h at_ src).count = h.count ∧
    (storeAll h at_ src).size = h.size ∧ (storeAll h at_ src).oob = h.oob ∧
    (storeAll h at_ src).data.length = h.size ∧
    ∀ j, (storeAll h at_ src).data[j]? =
      if at_ ≤ j ∧ j < at_ + src.length then src[j - at_]? else h.data[j]? := by
  have := storeFrom_spec src h at_ 0 hlen (by simpa using hfit)
  simp only [Nat.add_zero] at this
  exact this

theorem zero_spec (h : Heap) (at_ n : Nat)
    (hlen : h.data.length = h.size) (hfit : at_ + n ≤ h.size) :
    (zero h at_ n).wr = h.wr ∧ (zero h at_ n).count = h.count ∧
    (zero h at_ n).size = h.size ∧ (zero h at_ n).oob = h.oob ∧
    (zero h at_ n).data.length = h.size ∧
    ∀ j, (zero h at_ n).data[j]? = if at_ ≤ j ∧ j < at_ + n then some 0 else h.data[j]? := by
  have := storeAll_spec (List.replicate n 0) h at_ hlen (by simpa using hfit)
  obtain ⟨h1, h2, h3, h4, h5, h6⟩ := this
  refine ⟨h1, h2, h3, h4, h5, ?_⟩
  intro j
  have := h6 j
  unfold zero
  rw [this]
  simp only [List.length_replicate]
  split
  · rename_i hj
    rw [List.getElem?_replicate]
    simp; omega
  · rfl

/-! ### texts stored circularly; get_parts -/

def Good (t : Bytes) : Prop := t ≠ [] ∧ ∀ b ∈ t, b ≠ 0

/-- `t` followed by a NUL is stored at `off`, wrapping at `size` -/
def Holds (h : Heap) (off : Nat) (t : Bytes) : Prop :=
  ∀ k, k ≤ t.length → h.data[(off + k) % h.size]? = (t ++ [0])[k]?

theorem takeWhile_text (t rest : Bytes) (ht : ∀ b ∈ t, b ≠ 0) :
    (t ++ 0 :: rest).takeWhile (· ≠ 0) = t := by
  rw [List.takeWhile_append_of_pos (by simpa using ht)]; simp

theorem takeWhile_all (t : Bytes) (ht : ∀ b ∈ t, b ≠ 0) : t.takeWhile (· ≠ 0) = t := by
  induction t with
  | nil => rfl
  | cons a t ih =>
    have ha : a ≠ 0 := ht a (by simp)
    rw [List.takeWhile_cons_of_pos (by simpa using ha), ih (fun b hb => ht b (by simp [hb]))]

theorem slice_eq (l m : List UInt8) (a : Nat) (hm : ∀ k, k < m.length → l[a + k]? = m[k]?) :
    (l.drop a).take m.length = m := by
  apply List.ext_getElem?
  intro k
  rw [List.getElem?_take]
  split
  · rw [List.getElem?_drop]; exact hm k ‹_›
  · rw [eq_comm, List.getElem?_eq_none_iff]; omega

theorem getParts_of_holds (h : Heap) (off : Nat) (t : Bytes) (hlen : h.data.length = h.size)
    (hoff : off < h.size) (hfit : t.length + 1 ≤ h.size) (hg : Good t) (hh : Holds h off t) :
    getParts h off = some (if off + t.length < h.size then (t.length, false, 0)
       else (h.size - off, true, t.length - (h.size - off))) ∧ textAt h off = some t := by
  obtain ⟨hne, hnz⟩ := hg
  have h0 : h.data.getD off 0 ≠ 0 := by
    have := hh 0 (by omega)
    rw [Nat.add_zero, Nat.mod_eq_of_lt hoff] at this
    cases t with
    | nil => exact absurd rfl hne
    | cons a t' =>
      simp at this
      rw [List.getD_eq_getElem?_getD, this]
      simpa using hnz a (by simp)
  by_cases hc : off + t.length < h.size
  · have hd : (h.data.drop off).take (t ++ [0]).length = t ++ [0] := by
      apply slice_eq
      intro k hk
      simp at hk
      have := hh k (by omega)
      rwa [Nat.mod_eq_of_lt (by omega)] at this
    have hd2 : h.data.drop off = t ++ 0 :: (h.data.drop off).drop (t ++ [0]).length := by
      conv => lhs; rw [← List.take_append_drop (t ++ [0]).length (h.data.drop off), hd]
      simp
    have hl1 : strnlenAt h off (h.size - off) = t.length := by
      unfold strnlenAt
      rw [List.take_of_length_le (by simp [hlen]), hd2, takeWhile_text _ _ hnz]
    have hgp : getParts h off = some (t.length, false, 0) := by
      unfold getParts
      rw [if_neg h0]
      simp only [hl1]
      rw [if_neg (by omega)]
    refine ⟨by rw [hgp, if_pos hc], ?_⟩
    unfold textAt
    rw [hgp]
    simp only
    rw [hd2]
    simp
  · have hr : h.size - off ≤ t.length := by omega
    have hd1 : h.data.drop off = t.take (h.size - off) := by
      have := slice_eq h.data (t.take (h.size - off)) off (by
        intro k hk
        simp at hk
        have := hh k (by omega)
        rw [Nat.mod_eq_of_lt (by omega)] at this
        rw [this, List.getElem?_take_of_lt (by omega), List.getElem?_append_left (by omega)])
      rwa [List.take_of_length_le (by simp [hlen]; omega)] at this
    have hd : (h.data.drop 0).take (t.drop (h.size - off) ++ [0]).length = t.drop (h.size - off) ++ [0] := by
      apply slice_eq
      intro k hk
      simp at hk
      have := hh (h.size - off + k) (by omega)
      have e : (off + (h.size - off + k)) % h.size = k := by
        rw [show off + (h.size - off + k) = k + h.size by omega, Nat.add_mod_right, Nat.mod_eq_of_lt (by omega)]
      rw [e] at this
      rw [Nat.zero_add, this, ← List.getElem?_drop, List.drop_append_of_le_length hr]
    rw [List.drop_zero] at hd
    have hd2 : h.data = t.drop (h.size - off) ++ 0 :: h.data.drop (t.drop (h.size - off) ++ [0]).length := by
      conv => lhs; rw [← List.take_append_drop (t.drop (h.size - off) ++ [0]).length h.data, hd]
      simp
    have hnz1 : ∀ b ∈ t.take (h.size - off), b ≠ 0 := fun b hb => hnz b (List.mem_of_mem_take hb)
    have hnz2 : ∀ b ∈ t.drop (h.size - off), b ≠ 0 := fun b hb => hnz b (List.mem_of_mem_drop hb)
    have hl1 : strnlenAt h off (h.size - off) = h.size - off := by
      unfold strnlenAt
      rw [hd1, List.take_of_length_le (by simp; omega), takeWhile_all _ hnz1]
      simp; omega
    have hl2 : strnlenAt h 0 h.size = t.length - (h.size - off) := by
      unfold strnlenAt
      rw [List.drop_zero, List.take_of_length_le (by omega), hd2, takeWhile_text _ _ hnz2]
      simp
    have hgp : getParts h off = some (h.size - off, true, t.length - (h.size - off)) := by
      unfold getParts
      rw [if_neg h0]
      simp only [hl1, hl2]
      rw [if_pos (by omega)]
    refine ⟨by rw [hgp, if_neg hc], ?_⟩
    unfold textAt
    rw [hgp]
    simp only [if_true]
    rw [hd1, List.take_of_length_le (by simp; omega)]
    conv => lhs; rw [hd2]
    simp

/-! ### free -/

theorem free_spec (h : Heap) (off : Nat) (t : Bytes) (rb : Bool) (hlen : h.data.length = h.size)
    (hoff : off < h.size) (hfit : t.length + 1 ≤ h.size) (hg : Good t) (hh : Holds h off t) :
    (free h (some off) rb).size = h.size ∧ (free h (some off) rb).oob = h.oob ∧
    (free h (some off) rb).data.length = h.size ∧
    (free h (some off) rb).count = h.count + (t.length + 1) ∧
    (free h (some off) rb).wr =
      (if h.count + (t.length + 1) = h.size then 0
       else if rb then (if t.length + 1 > h.wr then h.wr + h.size - (t.length + 1) else h.wr - (t.length + 1))
       else h.wr) ∧
    ∀ k, k < h.size → (free h (some off) rb).data[(off + k) % h.size]? =
      if k < t.length + 1 then some 0 else h.data[(off + k) % h.size]? := by
  have hgp := (getParts_of_holds h off t hlen hoff hfit hg hh).1
  by_cases hc : off + t.length < h.size
  · rw [if_pos hc] at hgp
    obtain ⟨z1, z2, z3, z4, z5, z6⟩ := zero_spec h off (t.length + 1) hlen (by omega)
    simp only [free, hgp, Bool.false_eq_true, if_false]
    generalize zero h off (t.length + 1) = z at z1 z2 z3 z4 z5 z6 ⊢
    simp only [z1, z2, z3, Nat.add_zero]
    have hp : ∀ k, k < h.size → z.data[(off + k) % h.size]? =
        if k < t.length + 1 then some 0 else h.data[(off + k) % h.size]? := by
      intro k hk
      rw [z6, mod_wrap (show off + k < h.size + h.size by omega)]
      by_cases h1 : off + k < h.size
      · simp only [if_pos h1]
        by_cases h2 : k < t.length + 1
        · rw [if_pos h2, if_pos (by omega)]
        · rw [if_neg h2, if_neg (by omega)]
      · simp only [if_neg h1]
        rw [if_neg (by omega), if_neg (by omega)]
    by_cases he : h.count + (t.length + 1) = h.size
    · simp only [if_pos he]
      exact ⟨trivial, z4, z5, trivial, trivial, hp⟩
    · simp only [if_neg he]
      cases rb
      · simp only [Bool.false_eq_true, if_false]
        exact ⟨trivial, z4, z5, trivial, trivial, hp⟩
      · simp only [if_true]
        refine ⟨trivial, z4, z5, trivial, ?_, hp⟩
        split <;> omega
  · rw [if_neg hc] at hgp
    obtain ⟨z1, z2, z3, z4, z5, z6⟩ := zero_spec h 0 (t.length - (h.size - off) + 1) hlen (by omega)
    simp only [free, hgp, if_true]
    generalize zero h 0 (t.length - (h.size - off) + 1) = z at z1 z2 z3 z4 z5 z6 ⊢
    obtain ⟨y1, y2, y3, y4, y5, y6⟩ := zero_spec
      { wr := z.wr, count := z.count + (t.length - (h.size - off) + 1), size := z.size, data := z.data, oob := z.oob }
      off (h.size - off) (by simp only; omega) (by simp only; omega)
    generalize zero { wr := z.wr, count := z.count + (t.length - (h.size - off) + 1), size := z.size, data := z.data, oob := z.oob }
      off (h.size - off) = y at y1 y2 y3 y4 y5 y6 ⊢
    simp only at y1 y2 y3 y4 y5 y6
    simp only [y1, y2, y3, z1, z2, z3]
    have hp : ∀ k, k < h.size → y.data[(off + k) % h.size]? =
        if k < t.length + 1 then some 0 else h.data[(off + k) % h.size]? := by
      intro k hk
      rw [y6, z6, mod_wrap (show off + k < h.size + h.size by omega)]
      by_cases h1 : off + k < h.size
      · simp only [if_pos h1]
        rw [if_pos (by omega), if_pos (by omega)]
      · simp only [if_neg h1]
        rw [if_neg (by omega)]
        by_cases h2 : k < t.length + 1
        · rw [if_pos h2, if_pos (by omega)]
        · rw [if_neg h2, if_neg (by omega)]
    have e1 : h.count + (t.length - (h.size - off) + 1) + (h.size - off) = h.count + (t.length + 1) := by omega
    have e2 : h.size - off + (t.length - (h.size - off) + 1) = t.length + 1 := by omega
    simp only [e1, e2]
    by_cases he : h.count + (t.length + 1) = h.size
    · simp only [if_pos he]
      exact ⟨trivial, by rw [y4, z4], by rw [y5, z3], trivial, trivial, hp⟩
    · simp only [if_neg he]
      cases rb
      · simp only [Bool.false_eq_true, if_false]
        exact ⟨trivial, by rw [y4, z4], by rw [y5, z3], trivial, trivial, hp⟩
      · simp only [if_true]
        refine ⟨trivial, by rw [y4, z4], by rw [y5, z3], trivial, ?_, hp⟩
        split <;> omega

/-! ### strndup -/

theorem set_same (l : List UInt8) (i : Nat) (b : UInt8) (hb : l[i]? = some b) : l.set i b = l := by
  apply List.ext_getElem?
  intro j
  rw [List.getElem?_set]
  split
  · subst_vars; split
    · exact hb.symm
    · rw [eq_comm, List.getElem?_eq_none_iff]; omega
  · rfl

theorem store_same (h : Heap) (i : Nat) (b : UInt8) (hi : i < h.size) (hb : h.data[i]? = some b) :
    store h i b = h := by
  rw [store_lt h i b hi, set_same _ _ _ hb]

theorem strndup_ok (h : Heap) (s : Bytes) (n : Nat) (hlen : h.data.length = h.size) (hwr : h.wr < h.size)
    (h0 : h.data.getD h.wr 0 = 0) (hs : cstr s ≠ [])
    (hfit : ((cstr s).take n).length + 1 ≤ h.count) (hcnt : h.count ≤ h.size) :
    ∃ h', strndup h s n = (h', some h.wr) ∧ h'.size = h.size ∧ h'.oob = h.oob ∧ h'.data.length = h.size ∧
      h'.count = h.count - (((cstr s).take n).length + 1) ∧
      h'.wr = (h.wr + (((cstr s).take n).length + 1)) % h.size ∧
      ∀ k, k < h.size → h'.data[(h.wr + k) % h.size]? =
        if k < ((cstr s).take n).length + 1 then ((cstr s).take n ++ [0])[k]? else h.data[(h.wr + k) % h.size]? := by
  generalize ht : (cstr s).take n = t at hfit ⊢
  have e1 : ¬ h.size = 0 := by omega
  have e2 : ¬ (h.data.getD h.wr 0 ≠ 0) := fun hc => hc h0
  have e3 : ¬ ((cstr s).isEmpty = true) := by simpa using hs
  have e4 : ¬ (t.length + 1 > h.count) := by omega
  have hlast : (t ++ [0])[t.length]? = some 0 := by simp
  by_cases hw : t.length + 1 ≥ h.size - h.wr
  · simp only [strndup, if_neg e1, if_neg e2, if_neg e3, ht, if_neg e4, if_pos hw]
    obtain ⟨a1, a2, a3, a4, a5, a6⟩ := storeAll_spec (List.take (h.size - h.wr) (t ++ [0])) h h.wr hlen
      (by simp; omega)
    generalize storeAll h h.wr (List.take (h.size - h.wr) (t ++ [0])) = a at a1 a2 a3 a4 a5 a6 ⊢
    obtain ⟨b1, b2, b3, b4, b5, b6⟩ := storeAll_spec (List.drop (h.size - h.wr) (t ++ [0]))
      { wr := 0, count := a.count - (h.size - h.wr), size := a.size, data := a.data, oob := a.oob } 0
      (by simp only; omega) (by simp; omega)
    generalize storeAll { wr := 0, count := a.count - (h.size - h.wr), size := a.size, data := a.data, oob := a.oob } 0
      (List.drop (h.size - h.wr) (t ++ [0])) = b at b1 b2 b3 b4 b5 b6 ⊢
    simp only [List.length_take, List.length_drop, List.length_append, List.length_singleton,
      Nat.zero_add, Nat.zero_le, true_and, Nat.sub_zero] at a6 b1 b2 b3 b4 b5 b6
    simp only [b1, b2, b3, b4, a2, a3, a4, Nat.zero_add]
    have hst : (if t.length + 1 - (h.size - h.wr) > 0 then
          store { wr := t.length + 1 - (h.size - h.wr), count := h.count - (h.size - h.wr) - (t.length + 1 - (h.size - h.wr)), size := h.size, data := b.data, oob := h.oob } (t.length + 1 - (h.size - h.wr) - 1) 0
        else
          store { wr := t.length + 1 - (h.size - h.wr), count := h.count - (h.size - h.wr) - (t.length + 1 - (h.size - h.wr)), size := h.size, data := b.data, oob := h.oob } (h.size - 1) 0) =
        { wr := t.length + 1 - (h.size - h.wr), count := h.count - (h.size - h.wr) - (t.length + 1 - (h.size - h.wr)), size := h.size, data := b.data, oob := h.oob } := by
      split
      · apply store_same
        · simp only; omega
        · simp only
          rw [b6, if_pos (by omega), List.getElem?_drop, ← hlast]
          congr 1; omega
      · apply store_same
        · simp only; omega
        · simp only
          rw [b6, if_neg (by omega), a6, if_pos (by omega), List.getElem?_take, if_pos (by omega), ← hlast]
          congr 1; omega
    rw [hst]
    refine ⟨_, rfl, rfl, rfl, by simp only; omega, by simp only; omega, ?_, ?_⟩
    · simp only
      rw [mod_wrap (by omega), if_neg (by omega)]; omega
    · intro k hk
      simp only
      rw [mod_wrap (show h.wr + k < h.size + h.size by omega)]
      by_cases h1 : h.wr + k < h.size
      · simp only [if_pos h1]
        rw [b6, if_neg (by omega), a6, if_pos (by omega), List.getElem?_take, if_pos (by omega), if_pos (by omega)]
        congr 1; omega
      · simp only [if_neg h1]
        rw [b6]
        by_cases h2 : k < t.length + 1
        · rw [if_pos (by omega), if_pos h2, List.getElem?_drop]
          congr 1; omega
        · rw [if_neg (by omega), if_neg h2, a6, if_neg (by omega)]
  · simp only [strndup, if_neg e1, if_neg e2, if_neg e3, ht, if_neg e4, if_neg hw]
    obtain ⟨a1, a2, a3, a4, a5, a6⟩ := storeAll_spec (t ++ [0]) h h.wr hlen (by simp; omega)
    generalize storeAll h h.wr (t ++ [0]) = a at a1 a2 a3 a4 a5 a6 ⊢
    simp only [List.length_append, List.length_singleton] at a6
    simp only [a1, a2, a3, a4]
    rw [if_pos (by omega)]
    rw [store_same _ _ _ (by simp only; omega) (by
      simp only
      rw [a6, if_pos (by omega), ← hlast]
      congr 1; omega)]
    refine ⟨_, rfl, rfl, rfl, a5, rfl, ?_, ?_⟩
    · simp only
      rw [Nat.mod_eq_of_lt (by omega)]
    · intro k hk
      simp only
      rw [mod_wrap (show h.wr + k < h.size + h.size by omega)]
      by_cases h1 : h.wr + k < h.size
      · simp only [if_pos h1]
        rw [a6]
        by_cases h2 : k < t.length + 1
        · rw [if_pos (by omega), if_pos h2]
          congr 1; omega
        · rw [if_neg (by omega), if_neg h2]
      · simp only [if_neg h1]
        rw [a6, if_neg (by omega), if_neg (by omega)]

theorem strndup_cases (h : Heap) (s : Bytes) (n : Nat) :
    strndup h s n = (h, none) ∨
    (h.size ≠ 0 ∧ h.data.getD h.wr 0 = 0 ∧ cstr s ≠ [] ∧ ((cstr s).take n).length + 1 ≤ h.count) := by
  by_cases e1 : h.size = 0
  · left; simp [strndup, e1]
  by_cases e2 : h.data.getD h.wr 0 ≠ 0
  · left; simp only [strndup, if_neg e1, if_pos e2]
  by_cases e3 : (cstr s).isEmpty = true
  · left; simp only [strndup, if_neg e1, if_neg e2, if_pos e3]
  by_cases e4 : ((cstr s).take n).length + 1 > h.count
  · left; simp only [strndup, if_neg e1, if_neg e2, if_neg e3, if_pos e4]
  · right
    refine ⟨e1, ?_, ?_, by omega⟩
    · exact Classical.not_not.mp e2
    · simpa using e3

/-! ### heap invariant -/

/-- the stored form of the live texts, oldest first -/
def enc : List Bytes → Bytes
  | [] => []
  | t :: ts => t ++ 0 :: enc ts

theorem enc_append (a b : List Bytes) : enc (a ++ b) = enc a ++ enc b := by
  induction a with
  | nil => rfl
  | cons t a ih => simp [enc, ih]

theorem enc_single (t : Bytes) : enc [t] = t ++ [0] := rfl

/-- `st` is the offset of the oldest live text; the live texts follow each other from there, then
`count` free (zero) bytes up to `st` again -/
structure HInv (h : Heap) (st : Nat) (ts : List Bytes) : Prop where
  len : h.data.length = h.size
  oob : h.oob = false
  st_lt : st < h.size ∨ (h.size = 0 ∧ st = 0)
  wr_eq : h.wr = (st + (enc ts).length) % h.size
  cnt : h.count + (enc ts).length = h.size
  good : ∀ t ∈ ts, Good t
  dat : ∀ i, i < h.size → h.data[(st + i) % h.size]? = (enc ts ++ List.replicate h.count 0)[i]?
  empty : h.count = h.size → h.wr = 0

theorem hinv_init (n : Nat) : HInv (Heap.init n) 0 [] := by
  refine ⟨by simp [Heap.init], rfl, ?_, by simp [Heap.init, enc], by simp [Heap.init, enc], by simp, ?_, fun _ => rfl⟩
  · show 0 < n ∨ (n = 0 ∧ 0 = 0); omega
  · intro i hi
    simp only [Heap.init] at hi ⊢
    simp [enc, Nat.mod_eq_of_lt hi]

theorem circ_idx (st E k i n : Nat) (h : E + k = i ∨ E + k = i + n) :
    ((st + E) % n + k) % n = (st + i) % n := by
  rw [Nat.mod_add_mod]
  rcases h with h | h
  · rw [Nat.add_assoc, h]
  · rw [Nat.add_assoc, h, ← Nat.add_assoc, Nat.add_mod_right]

theorem hinv_wr_lt {h : Heap} {st : Nat} {ts : List Bytes} (hi : HInv h st ts) (hs : h.size ≠ 0) : h.wr < h.size := by
  rw [hi.wr_eq]; exact Nat.mod_lt _ (by omega)

theorem hinv_holds {h : Heap} {st : Nat} {ts1 ts2 : List Bytes} {t : Bytes} (hi : HInv h st (ts1 ++ t :: ts2)) :
    Holds h ((st + (enc ts1).length) % h.size) t ∧ (st + (enc ts1).length) % h.size < h.size ∧
    t.length + 1 ≤ h.size ∧ Good t := by
  have hc := hi.cnt
  rw [enc_append] at hc
  simp only [enc, List.length_append, List.length_cons] at hc
  refine ⟨?_, Nat.mod_lt _ (by omega), by omega, hi.good t (by simp)⟩
  intro k hk
  rw [circ_idx st _ k ((enc ts1).length + k) _ (Or.inl rfl), hi.dat _ (by omega), enc_append]
  simp only [enc]
  rw [List.append_assoc, List.getElem?_append_right (by omega)]
  rw [show (t ++ 0 :: enc ts2) ++ List.replicate h.count 0 = (t ++ [0]) ++ (enc ts2 ++ List.replicate h.count 0) by simp]
  rw [List.getElem?_append_left (by simp; omega)]
  congr 1; omega

theorem good_take (s : Bytes) (n : Nat) (hn : 1 ≤ n) (hs : cstr s ≠ []) : Good ((cstr s).take n) := by
  constructor
  · intro h
    cases hc : cstr s with
    | nil => exact hs hc
    | cons a l =>
      rw [hc] at h
      cases n with
      | zero => omega
      | succ n => simp at h
  · intro b hb
    have h1 := List.mem_of_mem_take hb
    unfold cstr at h1
    have := List.all_eq_true.mp (List.all_takeWhile (p := (· ≠ 0)) (l := s)) b h1
    simpa using this

theorem get2 (A : Bytes) (c i : Nat) :
    (A ++ List.replicate c 0)[i]? =
      if i < A.length then A[i]? else if i < A.length + c then some 0 else none := by
  rw [List.getElem?_append]
  split
  · rfl
  · rw [List.getElem?_replicate]
    split <;> split <;> first | rfl | omega

theorem get3 (A B : Bytes) (c i : Nat) :
    (A ++ (B ++ List.replicate c 0))[i]? =
      if i < A.length then A[i]? else if i < A.length + B.length then B[i - A.length]?
      else if i < A.length + B.length + c then some 0 else none := by
  rw [List.getElem?_append]
  by_cases h1 : i < A.length
  · simp only [if_pos h1]
  · simp only [if_neg h1]
    rw [get2]
    by_cases h2 : i - A.length < B.length
    · rw [if_pos h2, if_pos (show i < A.length + B.length by omega)]
    · rw [if_neg h2, if_neg (show ¬ i < A.length + B.length by omega)]
      by_cases h3 : i - A.length < B.length + c
      · rw [if_pos h3, if_pos (show i < A.length + B.length + c by omega)]
      · rw [if_neg h3, if_neg (show ¬ i < A.length + B.length + c by omega)]

theorem hinv_strndup {h : Heap} {st : Nat} {ts : List Bytes} (hi : HInv h st ts) (s : Bytes) (n : Nat)
    (hn : 1 ≤ n) :
    strndup h s n = (h, none) ∨
    ∃ h', strndup h s n = (h', some ((st + (enc ts).length) % h.size)) ∧ cstr s ≠ [] ∧ h'.size = h.size ∧
      HInv h' st (ts ++ [(cstr s).take n]) := by
  rcases strndup_cases h s n with hnone | ⟨e1, e2, e3, e4⟩
  · exact Or.inl hnone
  · right
    have hwr := hinv_wr_lt hi e1
    have hcnt := hi.cnt
    obtain ⟨h', heq, s1, s2, s3, s4, s5, s6⟩ := strndup_ok h s n hi.len hwr e2 e3 e4 (by omega)
    generalize ht : (cstr s).take n = t at *
    have hgood : Good t := ht ▸ good_take s n hn e3
    refine ⟨h', by rw [heq, hi.wr_eq], e3, s1, ?_⟩
    have hE : (enc (ts ++ [t])).length = (enc ts).length + (t.length + 1) := by
      rw [enc_append, enc_single]; simp
    refine ⟨by rw [s3, s1], by rw [s2, hi.oob], by rw [s1]; exact hi.st_lt, ?_, ?_, ?_, ?_, ?_⟩
    · rw [s5, s1, hE, hi.wr_eq, Nat.mod_add_mod, Nat.add_assoc]
    · rw [s4, s1, hE]; omega
    · intro t' ht'
      rcases List.mem_append.mp ht' with h1 | h1
      · exact hi.good t' h1
      · simp at h1; subst h1; exact hgood
    · intro i hi'
      rw [s1] at hi' ⊢
      rw [enc_append, enc_single, s4, List.append_assoc, get3]
      have hd := hi.dat i hi'
      rw [get2] at hd
      simp only [List.length_append, List.length_singleton]
      by_cases h1 : i < (enc ts).length
      · have e : (h.wr + (i + h.size - (enc ts).length)) % h.size = (st + i) % h.size := by
          rw [hi.wr_eq]; exact circ_idx _ _ _ _ _ (Or.inr (by omega))
        have := s6 (i + h.size - (enc ts).length) (by omega)
        rw [e, if_neg (by omega)] at this
        rw [this, hd, if_pos h1, if_pos h1]
      · have e : (h.wr + (i - (enc ts).length)) % h.size = (st + i) % h.size := by
          rw [hi.wr_eq]; exact circ_idx _ _ _ _ _ (Or.inl (by omega))
        have := s6 (i - (enc ts).length) (by omega)
        rw [e] at this
        rw [this, if_neg h1]
        by_cases h2 : i - (enc ts).length < t.length + 1
        · rw [if_pos h2, if_pos (by omega)]
        · rw [if_neg h2, if_neg (by omega), hd, if_neg h1, if_pos (by omega), if_pos (by omega)]
    · intro hc
      rw [s4, s1] at hc; omega

theorem zeros_anchor (h : Heap) (a : Nat) (ha : a < h.size)
    (hz : ∀ i, i < h.size → h.data[(a + i) % h.size]? = some 0) :
    ∀ j, j < h.size → h.data[j]? = some 0 := by
  intro j hj
  by_cases h1 : a ≤ j
  · have := hz (j - a) (by omega)
    rwa [show a + (j - a) = j by omega, Nat.mod_eq_of_lt hj] at this
  · have := hz (j + h.size - a) (by omega)
    rwa [show a + (j + h.size - a) = j + h.size by omega, Nat.add_mod_right, Nat.mod_eq_of_lt hj] at this

theorem enc_length_pos {ts : List Bytes} (h : ts ≠ []) : 1 ≤ (enc ts).length := by
  cases ts with
  | nil => exact absurd rfl h
  | cons t ts => simp [enc]; omega

/-- the heap is completely free: every anchor is as good as 0 -/
theorem hinv_empty (h : Heap) (a : Nat) (hlen : h.data.length = h.size) (hoob : h.oob = false)
    (ha : a < h.size) (hwr : h.wr = 0) (hcnt : h.count = h.size)
    (hz : ∀ i, i < h.size → h.data[(a + i) % h.size]? = some 0) : HInv h 0 [] := by
  refine ⟨hlen, hoob, Or.inl (by omega), by simp [enc, hwr], by simp [enc, hcnt], by simp, ?_, fun _ => hwr⟩
  intro i hi
  rw [Nat.zero_add, Nat.mod_eq_of_lt hi, zeros_anchor h a ha hz i hi, hcnt]
  simp [enc, hi]

theorem hinv_free_oldest {h : Heap} {st : Nat} {t : Bytes} {ts : List Bytes} (hi : HInv h st (t :: ts)) :
    ∃ st', HInv (free h (some st) false) st' ts ∧ (free h (some st) false).size = h.size ∧
      (ts = [] ∨ st' = (st + t.length + 1) % h.size) := by
  obtain ⟨hh, hoff, hfit, hg⟩ := hinv_holds (ts1 := []) hi
  have hst : st < h.size := by have := hi.st_lt; omega
  simp only [enc, List.length_nil, Nat.add_zero, Nat.mod_eq_of_lt hst] at hh
  obtain ⟨f1, f2, f3, f4, f5, f6⟩ := free_spec h st t false hi.len hst hfit hg hh
  have hcnt := hi.cnt
  simp only [enc, List.length_append, List.length_cons] at hcnt
  have hL : ∀ i, (enc (t :: ts) ++ List.replicate h.count 0)[i]? =
      if i < t.length + 1 then (t ++ [0])[i]? else if i < t.length + 1 + (enc ts).length then (enc ts)[i - (t.length + 1)]?
      else if i < t.length + 1 + (enc ts).length + h.count then some 0 else none := by
    intro i
    have := get3 (t ++ [0]) (enc ts) h.count i
    simp only [List.length_append, List.length_singleton] at this
    rw [← this]
    simp [enc]
  generalize free h (some st) false = h' at *
  by_cases hts : ts = []
  · subst hts
    have h0 : (enc ([] : List Bytes)).length = 0 := rfl
    refine ⟨0, ?_, f1, Or.inl rfl⟩
    refine hinv_empty h' st (by rw [f3, f1]) (by rw [f2, hi.oob]) (by rw [f1]; exact hst)
      (by rw [f5, if_pos (by omega)]) (by rw [f4, f1]; omega) ?_
    intro i hi'
    rw [f1] at hi' ⊢
    rw [f6 i hi']
    split
    · rfl
    · rw [hi.dat i hi', hL, if_neg (by omega), if_neg (by omega), if_pos (by omega)]
  · have hE := enc_length_pos hts
    refine ⟨(st + t.length + 1) % h.size, ?_, f1, Or.inr rfl⟩
    refine ⟨by rw [f3, f1], by rw [f2, hi.oob], by rw [f1]; exact Or.inl (Nat.mod_lt _ (by omega)), ?_,
      by rw [f4, f1]; omega, fun t' ht' => hi.good t' (by simp [ht']), ?_, ?_⟩
    · rw [f5, if_neg (by omega), f1, hi.wr_eq, Nat.mod_add_mod]
      simp only [enc, List.length_append, List.length_cons, Bool.false_eq_true, if_false]
      congr 1; omega
    · intro i hi'
      rw [f1] at hi' ⊢
      rw [f4, get2]
      by_cases h1 : t.length + 1 + i < h.size
      · rw [Nat.add_assoc st, circ_idx st (t.length + 1) i (t.length + 1 + i) _ (Or.inl rfl), f6 _ (by omega),
          if_neg (by omega), hi.dat _ (by omega), hL, if_neg (by omega)]
        by_cases h2 : i < (enc ts).length
        · rw [if_pos (by omega), if_pos h2]; congr 1; omega
        · rw [if_neg (by omega), if_neg h2, if_pos (by omega), if_pos (by omega)]
      · rw [Nat.add_assoc st, circ_idx st (t.length + 1) i (t.length + 1 + i - h.size) _ (Or.inr (by omega)),
          f6 _ (by omega), if_pos (by omega), if_neg (by omega), if_pos (by omega)]
    · intro hc
      rw [f4, f1] at hc; omega

theorem hinv_free_newest {h : Heap} {st : Nat} {t : Bytes} {ts : List Bytes} (hi : HInv h st (ts ++ [t])) :
    ∃ st', HInv (free h (some ((st + (enc ts).length) % h.size)) true) st' ts ∧
      (free h (some ((st + (enc ts).length) % h.size)) true).size = h.size ∧ (ts = [] ∨ st' = st) := by
  obtain ⟨hh, hoff, hfit, hg⟩ := hinv_holds (ts2 := []) hi
  have hst : st < h.size := by have := hi.st_lt; omega
  obtain ⟨f1, f2, f3, f4, f5, f6⟩ := free_spec h _ t true hi.len hoff hfit hg hh
  have hcnt := hi.cnt
  rw [enc_append, enc_single] at hcnt
  simp only [List.length_append, List.length_singleton] at hcnt
  have hL : ∀ i, (enc (ts ++ [t]) ++ List.replicate h.count 0)[i]? =
      if i < (enc ts).length then (enc ts)[i]? else if i < (enc ts).length + (t.length + 1) then (t ++ [0])[i - (enc ts).length]?
      else if i < (enc ts).length + (t.length + 1) + h.count then some 0 else none := by
    intro i
    have := get3 (enc ts) (t ++ [0]) h.count i
    simp only [List.length_append, List.length_singleton] at this
    rw [← this, enc_append, enc_single, List.append_assoc]
  have hwr := hi.wr_eq
  rw [enc_append, enc_single] at hwr
  simp only [List.length_append, List.length_singleton] at hwr
  generalize free h (some ((st + (enc ts).length) % h.size)) true = h' at *
  have hp : ∀ i, i < h.size → h'.data[(st + i) % h.size]? =
      if i < (enc ts).length then (enc ts)[i]? else some 0 := by
    intro i hi'
    by_cases h1 : i < (enc ts).length
    · have := f6 (i + h.size - (enc ts).length) (by omega)
      rw [circ_idx st _ _ i _ (Or.inr (by omega)), if_neg (by omega), hi.dat i hi', hL, if_pos h1] at this
      rw [this, if_pos h1]
    · have := f6 (i - (enc ts).length) (by omega)
      rw [circ_idx st _ _ i _ (Or.inl (by omega)), hi.dat i hi', hL, if_neg h1] at this
      rw [this, if_neg h1]
      by_cases h2 : i - (enc ts).length < t.length + 1
      · rw [if_pos h2]
      · rw [if_neg h2, if_neg (by omega), if_pos (by omega)]
  by_cases hts : ts = []
  · subst hts
    have h0 : (enc ([] : List Bytes)).length = 0 := rfl
    refine ⟨0, ?_, f1, Or.inl rfl⟩
    refine hinv_empty h' st (by rw [f3, f1]) (by rw [f2, hi.oob]) (by rw [f1]; exact hst)
      (by rw [f5, if_pos (by omega)]) (by rw [f4, f1]; omega) ?_
    intro i hi'
    rw [f1] at hi' ⊢
    rw [hp i hi', if_neg (by omega)]
  · have hE := enc_length_pos hts
    refine ⟨st, ?_, f1, Or.inr rfl⟩
    refine ⟨by rw [f3, f1], by rw [f2, hi.oob], by rw [f1]; exact Or.inl hst, ?_,
      by rw [f4, f1]; omega, fun t' ht' => hi.good t' (by simp [ht']), ?_, ?_⟩
    · rw [f5, if_neg (by omega), f1, if_pos rfl, hwr,
        mod_wrap (show st + ((enc ts).length + (t.length + 1)) < h.size + h.size by omega),
        mod_wrap (show st + (enc ts).length < h.size + h.size by omega)]
      split <;> split <;> split <;> omega
    · intro i hi'
      rw [f1] at hi' ⊢
      rw [hp i hi', f4, get2]
      by_cases h1 : i < (enc ts).length
      · rw [if_pos h1, if_pos h1]
      · rw [if_neg h1, if_neg h1, if_pos (by omega)]
    · intro hc
      rw [f4, f1] at hc; omega

/-! ### ghost queue: what each queue entry stores -/

/-- (code, stored text or nothing) per queue entry, oldest first -/
abbrev GQ := List (Int × Option Bytes)

def texts (g : GQ) : List Bytes := g.filterMap (·.2)

theorem texts_append (a b : GQ) : texts (a ++ b) = texts a ++ texts b := by simp [texts]

/-- the queue entries that `g` denotes when the oldest text starts at offset `p` -/
def layout (size : Nat) : Nat → GQ → List Entry
  | _, [] => []
  | p, (c, none) :: g => ⟨c, none⟩ :: layout size p g
  | p, (c, some t) :: g => ⟨c, some (p % size)⟩ :: layout size (p + t.length + 1) g

theorem layout_length (n p : Nat) (g : GQ) : (layout n p g).length = g.length := by
  induction g generalizing p with
  | nil => rfl
  | cons a g ih =>
    obtain ⟨c, o⟩ := a
    cases o <;> simp [layout, ih]

theorem layout_congr (n : Nat) (g : GQ) (p p' : Nat) (h : p % n = p' % n) : layout n p g = layout n p' g := by
  induction g generalizing p p' with
  | nil => rfl
  | cons a g ih =>
    obtain ⟨c, o⟩ := a
    cases o with
    | none => simp only [layout]; rw [ih p p' h]
    | some t =>
      simp only [layout]
      rw [h, ih (p + t.length + 1) (p' + t.length + 1) (by
        rw [Nat.add_assoc, Nat.add_assoc, Nat.add_mod, h, ← Nat.add_mod])]

theorem layout_mod (n p : Nat) (g : GQ) : layout n (p % n) g = layout n p g :=
  layout_congr n g _ _ (Nat.mod_mod _ _)

theorem layout_notexts (n : Nat) (g : GQ) (p p' : Nat) (h : texts g = []) : layout n p g = layout n p' g := by
  induction g with
  | nil => rfl
  | cons a g ih =>
    obtain ⟨c, o⟩ := a
    cases o with
    | none => simp only [layout]; rw [ih (by simpa [texts] using h)]
    | some t => simp [texts] at h

theorem layout_append (n : Nat) (g1 g2 : GQ) (p : Nat) :
    layout n p (g1 ++ g2) = layout n p g1 ++ layout n (p + (enc (texts g1)).length) g2 := by
  induction g1 generalizing p with
  | nil => simp [layout, texts, enc]
  | cons a g ih =>
    obtain ⟨c, o⟩ := a
    cases o with
    | none =>
      simp only [List.cons_append, layout, ih]
      simp [texts]
    | some t =>
      simp only [List.cons_append, layout, ih]
      have : p + t.length + 1 + (enc (texts g)).length = p + (enc (texts ((c, some t) :: g))).length := by
        simp [texts, enc]; omega
      rw [this]

/-- everything the proof tracks about a queue/heap pair -/
structure G (cap hs : Nat) (f : Fifo Entry) (h : Heap) (st : Nat) (g : GQ) : Prop where
  finv : Fifo.Inv f
  fsz : f.size = cap
  hsz : h.size = hs
  hinv : HInv h st (texts g)
  lay : Fifo.abs f = layout hs st g

theorem G.count {cap hs : Nat} {f : Fifo Entry} {h : Heap} {st : Nat} {g : GQ} (hg : G cap hs f h st g) :
    f.count = g.length := by
  rw [← Lemmas.Fifo.abs_length f hg.finv, hg.lay, layout_length]

theorem G.reanchor {cap hs : Nat} {f : Fifo Entry} {h h' : Heap} {st st' : Nat} {g : GQ} (hg : G cap hs f h st g)
    (hh : HInv h' st' (texts g)) (hs' : h'.size = hs) (hst : texts g = [] ∨ st' = st) : G cap hs f h' st' g := by
  refine ⟨hg.finv, hg.fsz, hs', hh, ?_⟩
  rw [hg.lay]
  rcases hst with h1 | h1
  · exact layout_notexts _ _ _ _ h1
  · rw [h1]

/-! ### push -/

def effLen (info : Option Bytes) (l : Nat) : Nat :=
  match info with
  | some s => if l = 0 then Fifo.strnlen s 255 else l
  | none => l

/-- the strndup call of SCPI_ErrorPushEx -/
def dup (h : Heap) (info : Option Bytes) (l : Nat) : Heap × Option Nat :=
  match info with
  | some s => strndup h s (effLen info l)
  | none => (h, none)

/-- the text that the push leaves in the heap, if any -/
def stored (h : Heap) (info : Option Bytes) (l : Nat) : Option Bytes :=
  match info with
  | some s => if (dup h info l).2.isSome then some ((cstr s).take (effLen info l)) else none
  | none => none

theorem push_eq (q : EQH) (c : Int) (info : Option Bytes) (l : Nat) :
    q.push c info l =
      if q.fifo.count = q.fifo.size then
        (⟨(Fifo.add (Fifo.removeLast q.fifo).1 ⟨Fifo.overflowCode, none⟩).1,
          free (free (dup q.heap info l).1 (dup q.heap info l).2 true)
            (match (Fifo.removeLast q.fifo).2 with
              | some e => e.info
              | none => (dup q.heap info l).2) true⟩, [c, Fifo.overflowCode])
      else (⟨(Fifo.add q.fifo ⟨c, (dup q.heap info l).2⟩).1, (dup q.heap info l).1⟩, [c]) := by
  cases info with
  | none =>
    by_cases hf : q.fifo.count = q.fifo.size <;>
      (simp [EQH.push, dup, Fifo.add, Fifo.isFull, hf]; try rfl)
  | some s =>
    by_cases hf : q.fifo.count = q.fifo.size <;>
      (simp [EQH.push, dup, effLen, Fifo.add, Fifo.isFull, hf]; try rfl)

theorem stored_weak (h : Heap) (info : Option Bytes) (l : Nat) :
    stored h info l = none ∨ stored h info l = Fifo.specText true info l true := by
  cases info with
  | none => exact Or.inl rfl
  | some s =>
    by_cases hd : (dup h (some s) l).2.isSome = true
    · right; simp [stored, hd, Fifo.specText, effLen, cstr]
    · left; simp [stored, hd]

theorem dup_spec {h : Heap} {st : Nat} {ts : List Bytes} (hi : HInv h st ts) (info : Option Bytes) (l : Nat) :
    (dup h info l = (h, none) ∧ stored h info l = none) ∨
    ∃ h' t, dup h info l = (h', some ((st + (enc ts).length) % h.size)) ∧ stored h info l = some t ∧
      h'.size = h.size ∧ HInv h' st (ts ++ [t]) := by
  cases info with
  | none => exact Or.inl ⟨rfl, rfl⟩
  | some s =>
    have hnone : strndup h s (effLen (some s) l) = (h, none) → 
        (dup h (some s) l = (h, none) ∧ stored h (some s) l = none) := by
      intro he
      have hd : dup h (some s) l = (h, none) := he
      exact ⟨hd, by simp [stored, hd]⟩
    by_cases hc : cstr s = []
    · left
      apply hnone
      rcases strndup_cases h s (effLen (some s) l) with h1 | ⟨_, _, h3, _⟩
      · exact h1
      · exact absurd hc h3
    · have hn : 1 ≤ effLen (some s) l := by
        simp only [effLen, Fifo.strnlen]
        have : 1 ≤ (cstr s).length := by
          cases hcs : cstr s with
          | nil => exact absurd hcs hc
          | cons a t => simp
        unfold cstr at this
        split <;> omega
      rcases hinv_strndup hi s (effLen (some s) l) hn with h1 | ⟨h', he, _, hsz, hi'⟩
      · exact Or.inl (hnone h1)
      · right
        have hd : dup h (some s) l = (h', some ((st + (enc ts).length) % h.size)) := he
        exact ⟨h', _, hd, by simp [stored, hd], hsz, hi'⟩

theorem free_none (h : Heap) (rb : Bool) : free h none rb = h := rfl

theorem texts_single_none (c : Int) : texts [(c, none)] = [] := rfl
theorem texts_single_some (c : Int) (t : Bytes) : texts [(c, some t)] = [t] := rfl

/-- the overflow path after the fresh text has been rolled back: drop the newest entry, free its
text with rollback, append the overflow marker -/
theorem overflow_tail {cap hs : Nat} {f : Fifo Entry} {h : Heap} {st : Nat} {g : GQ} (hg : G cap hs f h st g)
    (hcap : 1 ≤ cap) (hf : f.count = f.size) (ptr : Option Nat) :
    ∃ st', G cap hs (Fifo.add (Fifo.removeLast f).1 ⟨Fifo.overflowCode, none⟩).1
      (free h (match (Fifo.removeLast f).2 with | some e => e.info | none => ptr) true) st'
      (g.dropLast ++ [(Fifo.overflowCode, none)]) := by
  have hinv := hg.finv
  have hcnt := hg.count
  have hne : f.count ≠ 0 := by have := hg.fsz; omega
  obtain ⟨e, he, hab⟩ := Lemmas.Fifo.removeLast_some f hinv hne
  have hgne : g ≠ [] := by intro h0; rw [h0] at hcnt; simp at hcnt; omega
  have hgl := (List.dropLast_concat_getLast hgne).symm
  generalize g.dropLast = g0 at hgl ⊢
  generalize g.getLast hgne = a at hgl
  obtain ⟨c', o'⟩ := a
  have hlay := hg.lay
  rw [hgl, layout_append] at hlay
  have hfin : Fifo.Inv (Fifo.add (Fifo.removeLast f).1 ⟨Fifo.overflowCode, none⟩).1 :=
    Lemmas.Fifo.inv_add _ _ (Lemmas.Fifo.inv_removeLast _ hinv)
  have hfsz : (Fifo.add (Fifo.removeLast f).1 ⟨Fifo.overflowCode, none⟩).1.size = cap := by
    simpa using hg.fsz
  have habs := Lemmas.Fifo.abs_overflow f (⟨Fifo.overflowCode, none⟩ : Entry) hinv hf
  rw [he]
  simp only
  have hi := hg.hinv
  rw [hgl, texts_append] at hi
  cases o' with
  | none =>
    simp only [layout] at hlay
    have h1 : (Fifo.abs f).dropLast = layout hs st g0 := by rw [hlay]; simp
    have h2 : e = ⟨c', none⟩ := by
      rw [hlay] at hab; simp at hab; exact hab.symm
    rw [h2, free_none]
    refine ⟨st, hfin, hfsz, hg.hsz, ?_, ?_⟩
    · rw [texts_single_none] at hi
      rw [texts_append, texts_single_none]; exact hi
    · rw [habs, h1, layout_append]; rfl
  | some t =>
    simp only [layout] at hlay
    have h1 : (Fifo.abs f).dropLast = layout hs st g0 := by rw [hlay]; simp
    have h2 : e = ⟨c', some ((st + (enc (texts g0)).length) % hs)⟩ := by
      rw [hlay] at hab; simp at hab; exact hab.symm
    rw [h2]
    simp only
    rw [texts_single_some] at hi
    obtain ⟨st', hi', hsz', hst'⟩ := hinv_free_newest hi
    rw [hg.hsz] at hi' hsz'
    refine ⟨st', hfin, hfsz, hsz', ?_, ?_⟩
    · rw [texts_append, texts_single_none, List.append_nil]; exact hi'
    · rw [habs, h1, layout_append]
      have : layout hs st' g0 = layout hs st g0 := by
        rcases hst' with h3 | h3
        · exact layout_notexts _ _ _ _ h3
        · rw [h3]
      rw [this]; rfl

theorem g_push {cap hs : Nat} {q : EQH} {st : Nat} {g : GQ} (hg : G cap hs q.fifo q.heap st g) (hcap : 1 ≤ cap)
    (c : Int) (info : Option Bytes) (l : Nat) :
    ∃ st', G cap hs (q.push c info l).1.fifo (q.push c info l).1.heap st'
        (Fifo.specPush cap g (c, stored q.heap info l)) ∧
      (q.push c info l).2 = if g.length < cap then [c] else [c, Fifo.overflowCode] := by
  rw [push_eq]
  have hcnt := hg.count
  have hfsz := hg.fsz
  have hle := hg.finv.2.2.2.2.1
  by_cases hf : q.fifo.count = q.fifo.size
  · have hnl : ¬ g.length < cap := by omega
    simp only [if_pos hf, Fifo.specPush, if_neg hnl, and_true]
    rcases dup_spec hg.hinv info l with ⟨hd, _⟩ | ⟨h', t, hd, _, hsz, hi'⟩
    · rw [hd]
      simp only [free_none]
      exact overflow_tail hg hcap hf none
    · rw [hd]
      simp only
      obtain ⟨st1, hi1, hsz1, hst1⟩ := hinv_free_newest hi'
      rw [hsz] at hi1 hsz1
      have hg1 := G.reanchor hg hi1 (hsz1.trans hg.hsz) hst1
      exact overflow_tail hg1 hcap hf _
  · have hnl : g.length < cap := by omega
    simp only [if_neg hf, Fifo.specPush, if_pos hnl, and_true]
    have hfin := Lemmas.Fifo.inv_add q.fifo ⟨c, (dup q.heap info l).2⟩ hg.finv
    have hsz' : (Fifo.add q.fifo ⟨c, (dup q.heap info l).2⟩).1.size = cap := by simpa using hfsz
    have habs := Lemmas.Fifo.abs_add_notfull q.fifo ⟨c, (dup q.heap info l).2⟩ hg.finv hf
    rcases dup_spec hg.hinv info l with ⟨hd, hs0⟩ | ⟨h', t, hd, hs0, hsz, hi'⟩
    · rw [hd] at hfin hsz' habs ⊢
      rw [hs0]
      refine ⟨st, hfin, hsz', hg.hsz, ?_, ?_⟩
      · rw [texts_append, texts_single_none, List.append_nil]; exact hg.hinv
      · rw [habs, hg.lay, layout_append]; rfl
    · rw [hd] at hfin hsz' habs ⊢
      rw [hs0]
      refine ⟨st, hfin, hsz', hsz.trans hg.hsz, ?_, ?_⟩
      · rw [texts_append, texts_single_some]; exact hi'
      · rw [habs, hg.lay, layout_append, hg.hsz]; rfl

/-! ### pop, clear -/

theorem sysErrNext_eq (q : EQH) :
    q.sysErrNext = (⟨(Fifo.remove q.fifo).1, free q.heap ((Fifo.remove q.fifo).2.getD ⟨0, none⟩).info false⟩,
      ((Fifo.remove q.fifo).2.getD ⟨0, none⟩).code,
      match ((Fifo.remove q.fifo).2.getD ⟨0, none⟩).info with | some s => textAt q.heap s | none => none) := rfl

theorem clear_eq (q : EQH) :
    q.clear = ⟨Fifo.clear (EQH.clearLoop q.fifo.count q.fifo q.heap).1,
      (EQH.clearLoop q.fifo.count q.fifo q.heap).2⟩ := rfl

theorem g_pop {cap hs : Nat} {f : Fifo Entry} {h : Heap} {st : Nat} {g : GQ} (hg : G cap hs f h st g) :
    ∃ st', G cap hs (Fifo.remove f).1 (free h ((Fifo.remove f).2.getD ⟨0, none⟩).info false) st' g.tail ∧
      ((Fifo.remove f).2.getD ⟨0, none⟩).code = (g.head?.getD (0, none)).1 ∧
      (match ((Fifo.remove f).2.getD ⟨0, none⟩).info with | some s => textAt h s | none => none) =
        (g.head?.getD (0, none)).2 ∧
      ((Fifo.remove f).2 = none ↔ g = []) := by
  have hr := Lemmas.Fifo.abs_remove f hg.finv
  have hfin := Lemmas.Fifo.inv_remove f hg.finv
  have hfsz : (Fifo.remove f).1.size = cap := by simpa using hg.fsz
  rw [hg.lay] at hr
  obtain ⟨hr1, hr2⟩ := hr
  cases g with
  | nil =>
    simp only [layout, List.head?_nil, List.tail_nil] at hr1 hr2
    rw [hr1]
    refine ⟨st, ⟨hfin, hfsz, hg.hsz, hg.hinv, ?_⟩, rfl, rfl, by simp⟩
    rw [hr2]; rfl
  | cons a g' =>
    obtain ⟨c, o⟩ := a
    cases o with
    | none =>
      simp only [layout, List.head?_cons, List.tail_cons] at hr1 hr2
      rw [hr1]
      refine ⟨st, ⟨hfin, hfsz, hg.hsz, hg.hinv, hr2⟩, rfl, rfl, by simp⟩
    | some t =>
      simp only [layout, List.head?_cons, List.tail_cons] at hr1 hr2
      have hi : HInv h st (t :: texts g') := hg.hinv
      obtain ⟨hh, hoff, hfit, hgd⟩ := hinv_holds (ts1 := []) hi
      have hst : st < h.size := by have := hi.st_lt; omega
      have hmod : st % hs = st := by rw [← hg.hsz]; exact Nat.mod_eq_of_lt hst
      simp only [enc, List.length_nil, Nat.add_zero, Nat.mod_eq_of_lt hst] at hh
      rw [hmod] at hr1
      rw [hr1]
      obtain ⟨st', hi', hsz', hst'⟩ := hinv_free_oldest hi
      refine ⟨st', ⟨hfin, hfsz, hsz'.trans hg.hsz, hi', ?_⟩, rfl,
        (getParts_of_holds h st t hi.len hst hfit hgd hh).2, by simp⟩
      rw [hr2]
      rcases hst' with h1 | h1
      · exact layout_notexts _ _ _ _ h1
      · rw [h1, hg.hsz, layout_mod]; rfl

theorem g_clearLoop {cap hs : Nat} (n : Nat) (f : Fifo Entry) (h : Heap) (st : Nat) (g : GQ)
    (hg : G cap hs f h st g) (hn : g.length = n) :
    ∃ st', G cap hs (EQH.clearLoop n f h).1 (EQH.clearLoop n f h).2 st' [] := by
  induction n generalizing f h st g with
  | zero =>
    have : g = [] := List.eq_nil_of_length_eq_zero hn
    subst this
    exact ⟨st, hg⟩
  | succ n ih =>
    obtain ⟨st', hg', _, _, hiff⟩ := g_pop hg
    unfold EQH.clearLoop
    cases hr : Fifo.remove f with
    | mk f' o =>
      rw [hr] at hg' hiff
      cases o with
      | none =>
        have := hiff.mp rfl
        subst this
        simp at hn
      | some e =>
        simp only [Option.getD_some] at hg'
        exact ih f' _ st' g.tail hg' (by simp [hn])

theorem g_clear {cap hs : Nat} {q : EQH} {st : Nat} {g : GQ} (hg : G cap hs q.fifo q.heap st g) :
    ∃ st', G cap hs q.clear.fifo q.clear.heap st' [] := by
  rw [clear_eq]
  obtain ⟨st', hg'⟩ := g_clearLoop q.fifo.count q.fifo q.heap st g hg hg.count.symm
  refine ⟨st', Lemmas.Fifo.inv_clear _ hg'.finv, by simpa using hg'.fsz, hg'.hsz, hg'.hinv, ?_⟩
  simp only [Lemmas.Fifo.abs_clear]; rfl

/-! ### the ghost queue against the specification queue -/

/-- same code; the stored text is the specified one or absent -/
def W (a b : Int × Option Bytes) : Prop := a.1 = b.1 ∧ (a.2 = none ∨ a.2 = b.2)

def Rel : GQ → Fifo.SpecQ → Prop
  | [], [] => True
  | a :: g, b :: s => W a b ∧ Rel g s
  | _, _ => False

theorem rel_length {g : GQ} {s : Fifo.SpecQ} (h : Rel g s) : g.length = s.length := by
  induction g generalizing s with
  | nil => cases s with
    | nil => rfl
    | cons b s => exact h.elim
  | cons a g ih => cases s with
    | nil => exact h.elim
    | cons b s => simp [ih h.2]

theorem rel_concat {g : GQ} {s : Fifo.SpecQ} {a b : Int × Option Bytes} (h : Rel g s) (hw : W a b) :
    Rel (g ++ [a]) (s ++ [b]) := by
  induction g generalizing s with
  | nil => cases s with
    | nil => exact ⟨hw, trivial⟩
    | cons b s => exact h.elim
  | cons a' g ih => cases s with
    | nil => exact h.elim
    | cons b' s => exact ⟨h.1, ih h.2⟩

theorem rel_dropLast {g : GQ} {s : Fifo.SpecQ} (h : Rel g s) : Rel g.dropLast s.dropLast := by
  induction g generalizing s with
  | nil => cases s with
    | nil => exact trivial
    | cons b s => exact h.elim
  | cons a g ih => cases s with
    | nil => exact h.elim
    | cons b s =>
      obtain ⟨h1, h2⟩ := h
      cases g with
      | nil => cases s with
        | nil => exact trivial
        | cons b' s' => exact h2.elim
      | cons a' g' => cases s with
        | nil => exact h2.elim
        | cons b' s' =>
          rw [List.dropLast_cons_cons, List.dropLast_cons_cons]
          exact ⟨h1, ih h2⟩

theorem rel_tail {g : GQ} {s : Fifo.SpecQ} (h : Rel g s) : Rel g.tail s.tail := by
  cases g with
  | nil => cases s with
    | nil => exact trivial
    | cons b s => exact h.elim
  | cons a g => cases s with
    | nil => exact h.elim
    | cons b s => exact h.2

theorem rel_head {g : GQ} {s : Fifo.SpecQ} (h : Rel g s) :
    W (g.head?.getD (0, none)) (s.head?.getD (0, none)) := by
  cases g with
  | nil => cases s with
    | nil => exact ⟨rfl, Or.inl rfl⟩
    | cons b s => exact h.elim
  | cons a g => cases s with
    | nil => exact h.elim
    | cons b s => exact h.1

/-! ### simulation -/

def R (cap hs : Nat) (q : EQH) (sq : Fifo.SpecQ) : Prop := ∃ st g, G cap hs q.fifo q.heap st g ∧ Rel g sq

theorem step_sim (cap hs : Nat) (hcap : 1 ≤ cap) (q : EQH) (sq : Fifo.SpecQ) (op : Op) (h : R cap hs q sq) :
    R cap hs (EQH.step q op).1 (specStep cap sq op).1 ∧ obsOK (EQH.step q op).2 (specStep cap sq op).2 = true := by
  obtain ⟨st, g, hg, hrel⟩ := h
  have hlen := rel_length hrel
  cases op with
  | push c i l =>
    obtain ⟨st', hg', hcb⟩ := g_push hg hcap c i l
    simp only [EQH.step, specStep]
    refine ⟨⟨st', _, hg', ?_⟩, ?_⟩
    · unfold Fifo.specPush
      rw [hlen]
      split
      · exact rel_concat hrel ⟨rfl, stored_weak _ _ _⟩
      · exact rel_concat (rel_dropLast hrel) ⟨rfl, Or.inl rfl⟩
    · rw [hcb, hlen]
      simp [obsOK]
  | sysErr =>
    obtain ⟨st', hg', hc, ht, _⟩ := g_pop hg
    simp only [EQH.step, specStep, sysErrNext_eq, Fifo.specPop]
    refine ⟨⟨st', _, hg', rel_tail hrel⟩, ?_⟩
    obtain ⟨w1, w2⟩ := rel_head hrel
    simp only [obsOK, hc, ht, w1]
    rcases w2 with w2 | w2
    · simp [w2]
    · simp [w2]
  | clear =>
    obtain ⟨st', hg'⟩ := g_clear hg
    simp only [EQH.step, specStep]
    exact ⟨⟨st', [], hg', trivial⟩, by simp [obsOK]⟩
  | count =>
    simp only [EQH.step, specStep, EQH.count]
    refine ⟨⟨st, g, hg, hrel⟩, ?_⟩
    rw [hg.count, hlen]
    simp [obsOK]

theorem run_nil {σ : Type} (step : σ → Op → σ × Obs) (s : σ) : run step s [] = (s, []) := rfl
theorem run_cons {σ : Type} (step : σ → Op → σ × Obs) (s : σ) (op : Op) (ops : List Op) :
    run step s (op :: ops) =
      ((run step (step s op).1 ops).1, (step s op).2 :: (run step (step s op).1 ops).2) := rfl

theorem run_sim (cap hs : Nat) (hcap : 1 ≤ cap) (ops : List Op) (q : EQH) (sq : Fifo.SpecQ) (h : R cap hs q sq) :
    (run EQH.step q ops).2.length = (run (specStep cap) sq ops).2.length ∧
    (∀ p ∈ (run EQH.step q ops).2.zip (run (specStep cap) sq ops).2, obsOK p.1 p.2 = true) ∧
    R cap hs (run EQH.step q ops).1 (run (specStep cap) sq ops).1 := by
  induction ops generalizing q sq with
  | nil => exact ⟨rfl, by simp [run_nil], h⟩
  | cons op ops ih =>
    obtain ⟨h1, h2⟩ := step_sim cap hs hcap q sq op h
    obtain ⟨i1, i2, i3⟩ := ih _ _ h1
    simp only [run_cons]
    refine ⟨by simp [i1], ?_, i3⟩
    intro p hp
    simp only [List.zip_cons_cons, List.mem_cons] at hp
    rcases hp with rfl | hp
    · exact h2
    · exact i2 p hp

theorem R_init (cap hs : Nat) (hcap : 1 ≤ cap) : R cap hs (EQH.init cap hs) [] :=
  ⟨0, [], ⟨Lemmas.Fifo.inv_init cap _ hcap, rfl, rfl, hinv_init hs, by
    simp only [EQH.init, Lemmas.Fifo.abs_init]; rfl⟩, trivial⟩

theorem text_intact_or_absent (cap heapSize : Nat) (hcap : 1 ≤ cap) (ops : List Op)
    (_hwf : ∀ op ∈ ops, op.wf = true) :
    let impl := run EQH.step (EQH.init cap heapSize) ops
    let spec := run (specStep cap) [] ops
    impl.2.length = spec.2.length ∧
    (∀ p ∈ impl.2.zip spec.2, obsOK p.1 p.2 = true) ∧
    impl.1.heap.oob = false ∧ impl.1.heap.data.length = heapSize ∧ impl.1.heap.size = heapSize := by
  obtain ⟨h1, h2, st, g, hg, _⟩ := run_sim cap heapSize hcap ops _ _ (R_init cap heapSize hcap)
  exact ⟨h1, h2, hg.hinv.oob, by rw [hg.hinv.len, hg.hsz], hg.hsz⟩

theorem empty_means_reusable (cap heapSize : Nat) (hcap : 1 ≤ cap) (ops : List Op)
    (_hwf : ∀ op ∈ ops, op.wf = true) :
    let q := (run EQH.step (EQH.init cap heapSize) ops).1
    q.fifo.count = 0 → q.heap.count = heapSize ∧ q.heap.wr = 0 ∧ q.heap.data = List.replicate heapSize 0 := by
  obtain ⟨_, _, st, g, hg, _⟩ := run_sim cap heapSize hcap ops _ _ (R_init cap heapSize hcap)
  intro q hc
  have hg0 : g = [] := List.eq_nil_of_length_eq_zero (by rw [← hg.count]; exact hc)
  subst hg0
  have hi : HInv q.heap st [] := hg.hinv
  have hsz : q.heap.size = heapSize := hg.hsz
  have hcnt : q.heap.count = q.heap.size := by simpa [enc] using hi.cnt
  refine ⟨by rw [hcnt, hsz], hi.empty hcnt, ?_⟩
  apply List.ext_getElem?
  intro j
  rw [List.getElem?_replicate]
  by_cases hj : j < heapSize
  · rw [if_pos hj]
    have hst : st < q.heap.size := by have := hi.st_lt; omega
    apply zeros_anchor q.heap st hst _ j (by omega)
    intro i hi'
    rw [hi.dat i hi']
    simp [enc, hcnt, hi']
  · rw [if_neg hj, List.getElem?_eq_none_iff, hi.len]; omega

theorem fits_means_stored (cap heapSize : Nat) (hcap : 1 ≤ cap) (c : Int) (s : Bytes)
    (hs : s.all (· ≠ 0) = true) (hne : s ≠ []) (hfit : s.length < heapSize) (h255 : s.length ≤ 255) :
    (run EQH.step (EQH.init cap heapSize) [.push c (some s) 0, .sysErr]).2 =
      [.pushed [c], .popped c (some s)] := by
  have hnz : ∀ b ∈ s, b ≠ 0 := by simpa using hs
  have hcs : cstr s = s := takeWhile_all s hnz
  have hel : effLen (some s) 0 = s.length := by
    have : Fifo.strnlen s 255 = min (cstr s).length 255 := rfl
    simp only [effLen, if_true, this, hcs]; omega
  obtain ⟨st0, g0, hG0, _⟩ := R_init cap heapSize hcap
  have hg0 : g0 = [] := List.eq_nil_of_length_eq_zero (by rw [← hG0.count]; rfl)
  subst hg0
  obtain ⟨st', hg', hcb⟩ := g_push hG0 hcap c (some s) 0
  have hst : stored (EQH.init cap heapSize).heap (some s) 0 = some s := by
    obtain ⟨h', he, _⟩ := strndup_ok (Heap.init heapSize) s (effLen (some s) 0)
      (by simp [Heap.init]) (by simp only [Heap.init]; omega)
      (by simp only [Heap.init]; rw [List.getD_eq_getElem?_getD, List.getElem?_replicate]; split <;> rfl)
      (by rw [hcs]; exact hne) (by rw [hcs, hel]; simp [Heap.init]; omega) (by simp [Heap.init])
    have hd : dup (EQH.init cap heapSize).heap (some s) 0 = (h', some 0) := he
    simp [stored, hd, hcs, hel]
  rw [hst] at hg'
  have hsp : Fifo.specPush cap [] (c, some s) = [(c, some s)] := by
    simp [Fifo.specPush]; omega
  rw [hsp] at hg'
  obtain ⟨_, _, hc, ht, _⟩ := g_pop hg'
  simp only [run_cons, run_nil, EQH.step, sysErrNext_eq]
  rw [hcb, hc, ht]
  simp; omega

end ScpiVerif.Lemmas.Heap
