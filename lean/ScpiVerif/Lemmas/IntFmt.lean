/-
Helper lemmas for C14 (integer-to-text conversion), about the model in Model/IntFmt.lean.

Structure:
  * `tableOK`       Bool checker for the generated divisor tables (each entry is the top power
                    of its base below 2^w), discharged by `decide` on the concrete tables;
  * `pad b k n`     the k-digit, zero padded base-b text of n, with both a least-significant
                    (definition) and a most-significant (`pad_succ_msd`) unfolding;
  * `specDigits`    equals `pad b (k+1) n` when b^k ≤ n < b^(k+1);
  * `skipZeros`     finds that k;  `emit` writes `pad b (k+1) uval` truncated to the room left;
  * `toStr_spec`, `canon_ok`, `canon_len`  the statements used by Props/C14.lean.
-/
import ScpiVerif.Model.IntFmt

namespace ScpiVerif.Lemmas.IntFmt
open ScpiVerif.IntFmt

/-! ### checker for the divisor table -/

/-- `d` is a power `b^k` (k ≤ w) with `d < 2^w ≤ d*b` -/
def entryOK (w b d : Nat) : Bool :=
  (List.range (w+1)).any (fun k => b^k == d) && decide (d < 2^w) && decide (2^w ≤ d * b)

def tableOK (w : Nat) (t : DivTable) : Bool :=
  entryOK w 2 t.d2 && entryOK w 8 t.d8 && entryOK w 10 t.d10 && entryOK w 16 t.d16

theorem entryOK_spec {w b d : Nat} (h : entryOK w b d = true) :
    ∃ k, k ≤ w ∧ d = b^k ∧ b^k < 2^w ∧ 2^w ≤ b^(k+1) := by
  simp only [entryOK, Bool.and_eq_true, List.any_eq_true, List.mem_range, beq_iff_eq,
    decide_eq_true_eq] at h
  obtain ⟨⟨⟨k, hk, rfl⟩, h1⟩, h2⟩ := h
  exact ⟨k, by omega, rfl, h1, by rw [Nat.pow_succ]; exact h2⟩

theorem effBase_cases (base : Int) :
    effBase base = 2 ∨ effBase base = 8 ∨ effBase base = 10 ∨ effBase base = 16 := by
  unfold effBase; split
  · simp
  · split
    · simp
    · split <;> simp

theorem effBase_ge (base : Int) : 2 ≤ effBase base := by
  rcases effBase_cases base with h | h | h | h <;> omega

theorem effBase_le (base : Int) : effBase base ≤ 16 := by
  rcases effBase_cases base with h | h | h | h <;> omega

theorem switchBase_spec {w : Nat} {t : DivTable} (ht : tableOK w t = true) (base : Int) :
    ∃ k, k ≤ w ∧ switchBase t base = (effBase base, (effBase base)^k) ∧
      (effBase base)^k < 2^w ∧ 2^w ≤ (effBase base)^(k+1) := by
  simp only [tableOK, Bool.and_eq_true] at ht
  obtain ⟨⟨⟨h2, h8⟩, h10⟩, h16⟩ := ht
  unfold switchBase effBase
  split
  · obtain ⟨k, hk, e, a, c⟩ := entryOK_spec h2; exact ⟨k, hk, by rw [e], a, c⟩
  · split
    · obtain ⟨k, hk, e, a, c⟩ := entryOK_spec h8; exact ⟨k, hk, by rw [e], a, c⟩
    · split
      · obtain ⟨k, hk, e, a, c⟩ := entryOK_spec h16; exact ⟨k, hk, by rw [e], a, c⟩
      · obtain ⟨k, hk, e, a, c⟩ := entryOK_spec h10; exact ⟨k, hk, by rw [e], a, c⟩

/-! ### digit characters -/

theorem digitVal_digitChar : ∀ d, d < 16 → digitVal (digitChar d) = some d := by decide

theorem digitChar_ne_zero : ∀ d, d < 16 → d ≠ 0 → digitChar d ≠ '0' := by decide

theorem digitChar_zero : digitChar 0 = '0' := by decide

/-! ### zero padded digits -/

/-- the `k` least significant base-`b` digits of `n`, most significant first -/
def pad (b : Nat) : Nat → Nat → List Char
  | 0, _ => []
  | k+1, n => pad b k (n / b) ++ [digitChar (n % b)]

@[simp] theorem pad_length (b k n : Nat) : (pad b k n).length = k := by
  induction k generalizing n with
  | zero => rfl
  | succ k ih => simp [pad, ih]

/-- most-significant-digit-first unfolding -/
theorem pad_succ_msd (b k n : Nat) :
    pad b (k+1) n = digitChar (n / b^k % b) :: pad b k (n % b^k) := by
  induction k generalizing n with
  | zero => simp [pad]
  | succ k ih =>
    rw [pad, ih (n / b)]
    conv => rhs; rw [pad]
    have e1 : n / b / b^k = n / b^(k+1) := by
      rw [Nat.div_div_eq_div_mul, Nat.pow_succ, Nat.mul_comm]
    have e2 : n / b % b^k = n % b^(k+1) / b := by
      rw [Nat.pow_succ, Nat.mul_comm, Nat.mod_mul_right_div_self]
    have e3 : n % b^(k+1) % b = n % b := by
      apply Nat.mod_mod_of_dvd
      exact ⟨b^k, by rw [Nat.pow_succ, Nat.mul_comm]⟩
    rw [e1, e2, e3]; rfl

/-! ### `specDigits` is `pad` with the exact number of digits -/

theorem pow_le_of_succ {b k : Nat} (hb : 2 ≤ b) : b ≤ b^(k+1) := by
  have : 0 < b^k := Nat.pow_pos (by omega)
  rw [Nat.pow_succ]
  exact Nat.le_mul_of_pos_left b this

theorem specDigitsAux_eq {b : Nat} (hb : 2 ≤ b) (k : Nat) :
    ∀ n fuel acc, b^k ≤ n → n < b^(k+1) → n < fuel →
      specDigitsAux b fuel n acc = pad b (k+1) n ++ acc := by
  induction k with
  | zero =>
    intro n fuel acc h1 h2 h3
    obtain ⟨f, rfl⟩ : ∃ f, fuel = f+1 := ⟨fuel-1, by omega⟩
    have hn : n < b := by simpa using h2
    simp [specDigitsAux, pad, hn, Nat.mod_eq_of_lt hn]
  | succ k ih =>
    intro n fuel acc h1 h2 h3
    obtain ⟨f, rfl⟩ : ∃ f, fuel = f+1 := ⟨fuel-1, by omega⟩
    have hbn : b ≤ n := Nat.le_trans (pow_le_of_succ hb) h1
    have hc : ¬ (n < b ∨ b < 2) := by omega
    have hdl : n / b < n := Nat.div_lt_self (by omega) (by omega)
    have h1' : b^k ≤ n / b := by
      rw [Nat.le_div_iff_mul_le (by omega)]; rw [Nat.pow_succ] at h1; exact h1
    have h2' : n / b < b^(k+1) := by
      rw [Nat.div_lt_iff_lt_mul (by omega)]; rw [Nat.pow_succ] at h2; exact h2
    rw [specDigitsAux, if_neg hc, ih (n / b) f _ h1' h2' (by omega)]
    conv => rhs; rw [pad]
    simp

theorem specDigits_eq {b : Nat} (hb : 2 ≤ b) {k n : Nat} (h1 : b^k ≤ n) (h2 : n < b^(k+1)) :
    specDigits b n = pad b (k+1) n := by
  rw [specDigits, specDigitsAux_eq hb k n (n+1) [] h1 h2 (by omega)]; simp

theorem specDigits_zero (b : Nat) : specDigits b 0 = ['0'] := by
  have : (0 < b ∨ b < 2) := by omega
  simp [specDigits, specDigitsAux, this, digitChar_zero]

/-- every positive number sits between two consecutive powers -/
theorem exists_pow_bracket {b : Nat} (hb : 2 ≤ b) (n : Nat) (hn : 0 < n) :
    ∃ k, b^k ≤ n ∧ n < b^(k+1) := by
  induction n using Nat.strongRecOn with
  | _ n ih =>
    by_cases h : n < b
    · exact ⟨0, by rw [Nat.pow_zero]; exact hn, by simpa using h⟩
    · have hdl : n / b < n := Nat.div_lt_self (by omega) (by omega)
      have hpos : 0 < n / b := Nat.div_pos (by omega) (by omega)
      obtain ⟨k, a, c⟩ := ih (n / b) hdl hpos
      refine ⟨k+1, ?_, ?_⟩
      · rw [Nat.pow_succ]; exact (Nat.le_div_iff_mul_le (by omega)).1 a
      · rw [Nat.pow_succ]; exact (Nat.div_lt_iff_lt_mul (by omega)).1 c

/-! ### `skipZeros` -/

theorem skipZeros_spec {b : Nat} (hb : 2 ≤ b) {uval : Nat} (hu : 0 < uval) (k : Nat) :
    ∀ fuel, k < fuel → uval < b^(k+1) →
      ∃ j, j ≤ k ∧ skipZeros b uval fuel (b^k) = (b^j, false) ∧ b^j ≤ uval ∧ uval < b^(j+1) := by
  induction k with
  | zero =>
    intro fuel hf h
    obtain ⟨f, rfl⟩ : ∃ f, fuel = f+1 := ⟨fuel-1, by omega⟩
    refine ⟨0, Nat.le_refl _, ?_, by rw [Nat.pow_zero]; exact hu, h⟩
    have : uval ≠ 0 := by omega
    simp [skipZeros, this]
  | succ k ih =>
    intro fuel hf h
    obtain ⟨f, rfl⟩ : ∃ f, fuel = f+1 := ⟨fuel-1, by omega⟩
    have hx : 0 < b^(k+1) := Nat.pow_pos (by omega)
    have hx0 : b^(k+1) ≠ 0 := by omega
    by_cases hq : uval / b^(k+1) = 0
    · have hlt : uval < b^(k+1) := by
        rcases Nat.div_eq_zero_iff.1 hq with h0 | h0
        · omega
        · exact h0
      obtain ⟨j, hj, e, a, c⟩ := ih f (by omega) hlt
      refine ⟨j, by omega, ?_, a, c⟩
      have hdiv : b^(k+1) / b = b^k := by
        rw [Nat.pow_succ]; exact Nat.mul_div_cancel _ (by omega)
      rw [skipZeros, if_neg hx0, if_pos hq, hdiv, e]
    · refine ⟨k+1, Nat.le_refl _, ?_, ?_, h⟩
      · rw [skipZeros, if_neg hx0, if_neg hq]
      · apply Nat.le_of_not_lt
        intro hlt
        exact hq (Nat.div_eq_of_lt hlt)

/-! ### `emit` -/

theorem wrap_sub {M uval x : Nat} (hu : uval < M) :
    (uval + M - (uval / x * x) % M) % M = uval % x := by
  have h1 : uval / x * x ≤ uval := Nat.div_mul_le_self uval x
  have h2 : uval / x * x + uval % x = uval := by
    rw [Nat.mul_comm]; exact Nat.div_add_mod uval x
  have h3 : uval / x * x % M = uval / x * x := Nat.mod_eq_of_lt (by omega)
  rw [h3]
  have : uval + M - uval / x * x = M + uval % x := by omega
  rw [this, Nat.add_mod_left]
  exact Nat.mod_eq_of_lt (by omega)

theorem emit_spec {w b len : Nat} (hb : 2 ≤ b) (hb16 : b ≤ 16) (k : Nat) :
    ∀ fuel uval (o : Out), k < fuel → uval < b^(k+1) → uval < 2^w → o.pos ≤ len →
      emit w b len fuel uval (b^k) o =
        { chars := o.chars ++ (pad b (k+1) uval).take (len - o.pos),
          pos := min len (o.pos + (k+1)),
          ub := o.ub } := by
  induction k with
  | zero =>
    intro fuel uval o hf hu hw hp
    obtain ⟨f, rfl⟩ : ∃ f, fuel = f+1 := ⟨fuel-1, by omega⟩
    have hub : uval < b := by simpa using hu
    have hd : uval % 256 = uval := Nat.mod_eq_of_lt (by omega)
    have hd16 : uval < 16 := by omega
    have hxb : 1 / b = 0 := Nat.div_eq_of_lt (by omega)
    simp only [emit, Nat.pow_zero, Nat.div_one, hd, hd16, if_true, hxb, Nat.one_ne_zero,
      if_false, ne_eq, not_true_eq_false, false_and]
    simp only [pad, List.nil_append, Nat.mod_eq_of_lt hub]
    unfold addChar
    by_cases hpl : o.pos < len
    · have : len - o.pos = (len - o.pos - 1) + 1 := by omega
      rw [if_pos hpl, this, List.take_succ_cons]
      simp; omega
    · have : len - o.pos = 0 := by omega
      rw [if_neg hpl, this]
      cases o; simp at *; omega
  | succ k ih =>
    intro fuel uval o hf hu hw hp
    obtain ⟨f, rfl⟩ : ∃ f, fuel = f+1 := ⟨fuel-1, by omega⟩
    have hx : 0 < b^(k+1) := Nat.pow_pos (by omega)
    have hx0 : b^(k+1) ≠ 0 := by omega
    have hk : 0 < b^k := Nat.pow_pos (by omega)
    have hq : uval / b^(k+1) < b := by
      rw [Nat.div_lt_iff_lt_mul hx]
      have := hu; rw [Nat.pow_succ, Nat.mul_comm] at this; exact this
    have hd : uval / b^(k+1) % 256 = uval / b^(k+1) := Nat.mod_eq_of_lt (by omega)
    have hd16 : uval / b^(k+1) < 16 := by omega
    have hdiv : b^(k+1) / b = b^k := by
      rw [Nat.pow_succ]; exact Nat.mul_div_cancel _ (by omega)
    have hk0 : b^k ≠ 0 := by omega
    have hmod : uval % b^(k+1) < b^(k+1) := Nat.mod_lt _ hx
    have hmodw : uval % b^(k+1) < 2^w := Nat.lt_of_le_of_lt (Nat.mod_le _ _) hw
    have hqb : uval / b^(k+1) % b = uval / b^(k+1) := Nat.mod_eq_of_lt hq
    rw [emit, if_neg hx0]
    simp only [hd, hd16, if_true, hdiv, wrap_sub hw, ne_eq, hk0, not_false_eq_true, true_and]
    rw [pad_succ_msd, hqb]
    by_cases hpl : o.pos < len
    · have ha : addChar len o (digitChar (uval / b^(k+1))) =
          { chars := o.chars ++ [digitChar (uval / b^(k+1))], pos := o.pos + 1, ub := o.ub } := by
        unfold addChar; rw [if_pos hpl]
      rw [ha]
      have hl : len - o.pos = (len - (o.pos + 1)) + 1 := by omega
      rw [hl, List.take_succ_cons]
      by_cases hpl' : o.pos + 1 < len
      · rw [if_pos hpl', ih f _ _ (by omega) hmod hmodw (by simp; omega)]
        simp; omega
      · rw [if_neg hpl']
        have : len - (o.pos + 1) = 0 := by omega
        rw [this]; simp; omega
    · have ha : addChar len o (digitChar (uval / b^(k+1))) = o := by
        unfold addChar; rw [if_neg hpl]
      rw [ha, if_neg hpl]
      have : len - o.pos = 0 := by omega
      rw [this]
      cases o; simp at *; omega

/-! ### the whole function -/

theorem negCond_iff (w val : Nat) (base : Int) (sign : Bool) :
    (sign && decide (val ≥ 2^(w-1)) && decide (effBase base = 10)) = true ↔
      (sign = true ∧ val ≥ 2^(w-1) ∧ effBase base = 10) := by
  simp [and_assoc]

/-- after the `switch` and the optional '-': skip the leading zeros and emit the digits -/
theorem digits_core {w b len k : Nat} (hb : 2 ≤ b) (hb16 : b ≤ 16) (hk : k ≤ w)
    (hhi : 2^w ≤ b^(k+1)) {uval : Nat} (hu0 : 0 < uval) (hu : uval < 2^w)
    (o1 : Out) (hp : o1.pos ≤ len) :
    emit w b len (w+1) uval (skipZeros b uval (b^k + 1) (b^k)).1
        (if (skipZeros b uval (b^k + 1) (b^k)).2 then { o1 with ub := true } else o1) =
      { chars := o1.chars ++ (specDigits b uval).take (len - o1.pos),
        pos := min len (o1.pos + (specDigits b uval).length),
        ub := o1.ub } := by
  have hkf : k < b^k + 1 := Nat.lt_succ_of_lt (Nat.lt_pow_self (by omega))
  obtain ⟨j, hj, e, a, c⟩ :=
    skipZeros_spec hb hu0 k (b^k + 1) hkf (Nat.lt_of_lt_of_le hu hhi)
  rw [e]
  simp only [Bool.false_eq_true, if_false]
  rw [emit_spec hb hb16 j (w+1) uval o1 (by omega) c hu hp, specDigits_eq hb a c, pad_length]

theorem toStr_out (w : Nat) (t : DivTable) (ht : tableOK w t = true)
    (val len : Nat) (base : Int) (sign : Bool) (hv : val < 2^w) :
    (toStrBaseSign w t val len base sign).1 =
      { chars := (canon w val base sign).take len,
        pos := min len (canon w val base sign).length,
        ub := false } := by
  have hpw : 0 < 2^(w-1) := Nat.pow_pos (by omega)
  by_cases hv0 : val = 0
  · subst hv0
    have hn : ¬ (0 ≥ 2^(w-1)) := by omega
    simp only [toStrBaseSign, canon, if_true, hn, decide_false, Bool.and_false, Bool.false_and,
      Bool.false_eq_true, if_false, specDigits_zero, addChar]
    by_cases hl : 0 < len
    · obtain ⟨l, rfl⟩ : ∃ l, len = l+1 := ⟨len-1, by omega⟩
      simp
    · have : len = 0 := by omega
      subst this; simp
  · obtain ⟨k, hk, hsw, hlo, hhi⟩ := switchBase_spec ht base
    have hb := effBase_ge base
    have hb16 := effBase_le base
    simp only [toStrBaseSign, if_neg hv0, hsw, canon]
    by_cases hneg : (sign && decide (val ≥ 2^(w-1)) && decide (effBase base = 10)) = true
    · simp only [if_pos hneg]
      have hm : (2^w - val) % 2^w = 2^w - val := Nat.mod_eq_of_lt (by omega)
      rw [hm]
      by_cases hl : 0 < len
      · have ha : addChar len { chars := [], pos := 0, ub := false } '-' =
            { chars := ['-'], pos := 1, ub := false } := by
          unfold addChar; rw [if_pos hl]; rfl
        rw [ha, digits_core hb hb16 hk hhi (by omega) (by omega) _ (by simp; omega)]
        obtain ⟨l, rfl⟩ : ∃ l, len = l+1 := ⟨len-1, by omega⟩
        simp; omega
      · have ha : addChar len { chars := [], pos := 0, ub := false } '-' =
            { chars := [], pos := 0, ub := false } := by
          unfold addChar; rw [if_neg hl]
        rw [ha, digits_core hb hb16 hk hhi (by omega) (by omega) _ (by simp)]
        have : len = 0 := by omega
        subst this; simp
    · simp only [if_neg hneg]
      refine Eq.trans (digits_core hb hb16 hk hhi (by omega) hv ⟨[], 0, false⟩ (by simp)) ?_
      simp

/-- Main model theorem.  `_hw` is not needed by the proof (any width with a valid divisor table
works); it is kept so that the statement is only ever instantiated at the two C widths. -/
theorem toStr_spec (w : Nat) (t : DivTable) (_hw : w = 32 ∨ w = 64) (ht : tableOK w t = true)
    (val len : Nat) (base : Int) (sign : Bool) (hv : val < 2^w) :
    let r := toStrBaseSign w t val len base sign
    r.1.chars = (canon w val base sign).take len ∧
    r.1.pos = min len (canon w val base sign).length ∧
    r.1.ub = false ∧
    r.2 = decide (min len (canon w val base sign).length < len) := by
  intro r
  have h1 : r.1 = _ := toStr_out w t ht val len base sign hv
  have h2 : r.2 = decide (r.1.pos < len) := rfl
  rw [h2, h1]
  exact ⟨rfl, rfl, rfl, rfl⟩

/-! ### the canonical text is canonical -/

theorem foldlM_pad {b : Nat} (hb : 0 < b) (hb16 : b ≤ 16) (k : Nat) : ∀ n acc,
    (pad b k n).foldlM (fun acc c => match digitVal c with
      | some d => if d < b then some (acc * b + d) else none
      | none => none) acc = some (acc * b^k + n % b^k) := by
  induction k with
  | zero => intro n acc; simp [pad, Nat.mod_one]
  | succ k ih =>
    intro n acc
    have hlt : n % b < b := Nat.mod_lt _ (by omega)
    have hdv : digitVal (digitChar (n % b)) = some (n % b) := digitVal_digitChar _ (by omega)
    rw [pad, List.foldlM_append, ih]
    simp only [Option.bind_eq_bind, Option.bind_some, List.foldlM_cons, List.foldlM_nil, hdv, hlt,
      if_true, Option.pure_def]
    congr 1
    have e : n % b^(k+1) = n % b + b * (n / b % b^k) := by
      rw [Nat.pow_succ, Nat.mul_comm, Nat.mod_mul]
    rw [e, Nat.add_mul, Nat.mul_assoc, Nat.mul_comm (n / b % b^k) b, Nat.pow_succ]
    omega

theorem parseDigits_pad {b : Nat} (hb : 0 < b) (hb16 : b ≤ 16) (k n : Nat) :
    parseDigits b (pad b k n) = some (n % b^k) := by
  unfold parseDigits
  refine Eq.trans (foldlM_pad hb hb16 k n 0) ?_
  simp

theorem specDigits_shape {b : Nat} (hb : 2 ≤ b) (hb16 : b ≤ 16) (n : Nat) :
    specDigits b n ≠ [] ∧ ((specDigits b n).head? = some '0' → specDigits b n = ['0']) ∧
      parseDigits b (specDigits b n) = some n := by
  by_cases hn : n = 0
  · subst hn
    have e : ['0'] = pad b 1 0 := by simp [pad, digitChar_zero]
    rw [specDigits_zero]
    refine ⟨by simp, fun _ => rfl, ?_⟩
    rw [e, parseDigits_pad (by omega) hb16]; simp
  · obtain ⟨k, a, c⟩ := exists_pow_bracket hb n (by omega)
    have hx : 0 < b^k := Nat.pow_pos (by omega)
    have hq1 : 1 ≤ n / b^k := (Nat.le_div_iff_mul_le hx).2 (by simpa using a)
    have hq2 : n / b^k < b := by
      rw [Nat.div_lt_iff_lt_mul hx]
      have := c; rw [Nat.pow_succ, Nat.mul_comm] at this; exact this
    rw [specDigits_eq hb a c]
    refine ⟨?_, ?_, ?_⟩
    · intro h; have := congrArg List.length h; simp at this
    · rw [pad_succ_msd, Nat.mod_eq_of_lt hq2]
      intro h
      simp only [List.head?_cons, Option.some.injEq] at h
      exact absurd h (digitChar_ne_zero _ (by omega) (by omega))
    · rw [parseDigits_pad (by omega) hb16, Nat.mod_eq_of_lt c]

theorem canon_ok (w : Nat) (_hw : w = 32 ∨ w = 64) (val : Nat) (base : Int) (sign : Bool)
    (_hv : val < 2^w) : CanonOK w val base sign := by
  have hb := effBase_ge base
  have hb16 := effBase_le base
  constructor
  by_cases hneg : (sign && decide (val ≥ 2^(w-1)) && decide (effBase base = 10)) = true
  · obtain ⟨h1, h2, h3⟩ := specDigits_shape hb hb16 (2^w - val)
    refine ⟨specDigits (effBase base) (2^w - val), h1, h2, Or.inl ?_⟩
    obtain ⟨a, b, c⟩ := (negCond_iff w val base sign).1 hneg
    refine ⟨a, b, c, ?_, h3⟩
    simp only [canon, if_pos hneg]
  · obtain ⟨h1, h2, h3⟩ := specDigits_shape hb hb16 val
    refine ⟨specDigits (effBase base) val, h1, h2, Or.inr ?_⟩
    refine ⟨fun h => hneg ((negCond_iff w val base sign).2 h), ?_, h3⟩
    simp only [canon, if_neg hneg]

/-! ### length of the canonical text -/

theorem specDigits_length_le {b : Nat} (hb : 2 ≤ b) {n m : Nat} (h0 : 0 < n) (hn : n < 2^m) :
    (specDigits b n).length ≤ m := by
  obtain ⟨k, a, c⟩ := exists_pow_bracket hb n h0
  rw [specDigits_eq hb a c, pad_length]
  have h1 : 2^k ≤ b^k := Nat.pow_le_pow_left hb k
  have h2 : 2^k < 2^m := by omega
  have := (Nat.pow_lt_pow_iff_right (a := 2) (by omega)).1 h2
  omega

theorem specDigits_length_dec {n m : Nat} (h0 : 0 < n) (hn : n ≤ 2^m) :
    2 * (specDigits 10 n).length ≤ m + 2 := by
  obtain ⟨k, a, c⟩ := exists_pow_bracket (b := 10) (by omega) n h0
  rw [specDigits_eq (by omega) a c, pad_length]
  have h1 : 4^k ≤ 10^k := Nat.pow_le_pow_left (by omega) k
  have h2 : (2:Nat)^(2*k) = 4^k := by rw [Nat.pow_mul]
  have h3 : (2:Nat)^(2*k) ≤ 2^m := by omega
  have := (Nat.pow_le_pow_iff_right (a := 2) (by omega)).1 h3
  omega

/-- the text (sign included) never needs more than `w` characters -/
theorem canon_len (w : Nat) (hw : w = 32 ∨ w = 64) (val : Nat) (base : Int) (sign : Bool)
    (hv : val < 2^w) : (canon w val base sign).length ≤ w := by
  have hb := effBase_ge base
  by_cases hneg : (sign && decide (val ≥ 2^(w-1)) && decide (effBase base = 10)) = true
  · obtain ⟨_, h2, h3⟩ := (negCond_iff w val base sign).1 hneg
    simp only [canon, if_pos hneg, List.length_cons]
    rw [h3]
    have hp : 2^w = 2 * 2^(w-1) := by
      obtain ⟨v, rfl⟩ : ∃ v, w = v+1 := ⟨w-1, by omega⟩
      rw [Nat.pow_succ, Nat.mul_comm]; rfl
    have := specDigits_length_dec (n := 2^w - val) (m := w-1) (by omega) (by omega)
    omega
  · simp only [canon, if_neg hneg]
    by_cases hv0 : val = 0
    · subst hv0; rw [specDigits_zero]; simp; omega
    · have := specDigits_length_le hb (n := val) (m := w) (by omega) hv
      exact this

end ScpiVerif.Lemmas.IntFmt
