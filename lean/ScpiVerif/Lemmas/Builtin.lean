/-
Normal form of `Ctx.runBuiltin` (the library's own handlers, Model/Ctx.lean), shared by every development
that analyses `runOp` by cases:

* four handlers read one mandatory int32 and write it to an enable register (`paramReg`): they are
  `regFromParam`, i.e. `paramInt` followed by one `Regs.step … (.set reg v)`;
* every other handler touches only the status registers, the error queue and the output state, and appends
  at most one event (`.noError` / `.reset`); what it does is a function of (registers, queue) — `bRegs`, `bEq`,
  `bOut`, `bEvs` — and of nothing else in the context.
-/
import ScpiVerif.Model.Ctx
import ScpiVerif.Lemmas.Regs

set_option linter.unusedSimpArgs false
set_option linter.unusedVariables false

namespace ScpiVerif.Lemmas.Builtin
open ScpiVerif ScpiVerif.Ctx ScpiVerif.Result ScpiVerif.Lexer

/-- handlers that read a parameter: the register written, and whether a failed reader fails the handler -/
def paramReg : Builtin → Option (Nat × Bool)
  | .ese => some (Regs.ESE, true)
  | .sre => some (Regs.SRE, true)
  | .quesEnab => some (Regs.QUESE, false)
  | .operEnab => some (Regs.OPERE, false)
  | _ => none

/-- the status-register operation of a handler that reads no parameter -/
def regOp : Builtin → Option Regs.Op
  | .cls => some .cls
  | .esrQ => some .esrQ
  | .opc => some (.setBits Regs.ESR (Regs.bv Gen.ESR_OPC))
  | .errNextQ => some .errPop
  | .quesEvenQ => some .quesQ
  | .operEvenQ => some .operQ
  | .pres => some .preset
  | _ => none

def bRegs (r : Regs.St) (b : Builtin) : Regs.St :=
  match regOp b with
  | some op => Regs.step r op
  | none => r

def bEq (q : Fifo.EQ) : Builtin → Fifo.EQ
  | .cls => q.clear
  | .errNextQ => q.sysErrNext.1
  | _ => q

/-- SCPI_ResultInt32 of a non-negative value, on the output state -/
def outNat (n : Nat) (o : Out) : Out := resultIntBaseSign o 32 n 10 true

def outReg (r : Regs.St) (reg : Nat) (o : Out) : Out := outNat (Regs.get r reg).toNat o

def bOut (r : Regs.St) (q : Fifo.EQ) : Builtin → Out → Out
  | .eseQ => outReg r Regs.ESE
  | .esrQ => outReg r Regs.ESR
  | .idnQ fields => fun o => (List.range 4).foldl (fun o i => resultCharacters o (idnField fields i)) o
  | .opcQ => outNat 1
  | .sreQ => outReg r Regs.SRE
  | .stbQ => outReg r Regs.STB
  | .tstQ => outNat 0
  | .stubQ => outNat 0
  | .versQ => fun o => resultCharacters o (bytesOf Gen.STD_VERSION)
  | .errNextQ => fun o =>
    resultError o q.sysErrNext.2.code (errorTranslate q.sysErrNext.2.code) [q.sysErrNext.2.info.map (·.2)]
  | .errCountQ => outNat q.count
  | .quesCondQ => outReg r Regs.QUESC
  | .quesEvenQ => outReg r Regs.QUES
  | .quesEnabQ => outReg r Regs.QUESE
  | .operCondQ => outReg r Regs.OPERC
  | .operEvenQ => outReg r Regs.OPER
  | .operEnabQ => outReg r Regs.OPERE
  | _ => fun o => o

/-- the event of the "queue empty" callback -/
def cbEvs (b : Bool) : List Ev := if b then [Ev.noError] else []

/-- did the status-side operation report the "queue empty" callback -/
def fired (r : Regs.St) (op : Regs.Op) : Bool := decide ((Regs.step r op).errcb.length > r.errcb.length)

def bEvs (r : Regs.St) : Builtin → List Ev
  | .cls => cbEvs (fired r .cls)
  | .errNextQ => cbEvs (fired r .errPop)
  | .rst => [.reset]
  | _ => []

theorem noErrorCb_eq (c : Ctx) (r : Regs.St) :
    noErrorCb c r = { c with regs := r, events := c.events ++ cbEvs (decide (r.errcb.length > c.regs.errcb.length)) } := by
  unfold noErrorCb cbEvs
  by_cases h : r.errcb.length > c.regs.errcb.length <;> simp [h, emit]

/-- the handlers that read no parameter -/
theorem runBuiltin_pure (c : Ctx) (b : Builtin) (h : paramReg b = none) :
    runBuiltin c b = ({ c with regs := bRegs c.regs b, eq := bEq c.eq b, out := bOut c.regs c.eq b c.out,
                                events := c.events ++ bEvs c.regs b }, true) := by
  cases b
  case cls => simp only [runBuiltin, noErrorCb_eq, bRegs, regOp, bEq, bOut, bEvs, fired]
  case errNextQ => simp only [runBuiltin, noErrorCb_eq, bRegs, regOp, bEq, bOut, bEvs, fired]
  all_goals first
    | (cases h; done)
    | simp [runBuiltin, bRegs, regOp, bEq, bOut, bEvs, resultReg, resultNat32, regStep, outReg, outNat, emit]

/-- the handlers that read one parameter -/
theorem runBuiltin_param (c : Ctx) (b : Builtin) (reg : Nat) (strict : Bool) (h : paramReg b = some (reg, strict)) :
    runBuiltin c b = ((regFromParam c reg).1, (regFromParam c reg).2 || !strict) := by
  cases b <;> cases h <;> simp only [runBuiltin, Bool.not_true, Bool.or_false, Bool.not_false, Bool.or_true]

theorem regFromParam_eq (c : Ctx) (reg : Nat) :
    regFromParam c reg =
      (if (paramInt c 32 true true).2.1 = true
        then regStep (paramInt c 32 true true).1 (.set reg (Regs.bv (paramInt c 32 true true).2.2))
        else (paramInt c 32 true true).1, (paramInt c 32 true true).2.1) := by
  unfold regFromParam
  generalize paramInt c 32 true true = r
  obtain ⟨c1, ok, v⟩ := r
  cases ok <;> rfl

/-! ### the callback logs of the status side are never read -/

theorem regSetLoop_errcb : ∀ (fuel : Nat) (s : Regs.St) (n : Nat) (v : Regs.Reg),
    (Regs.regSetLoop fuel s n v).errcb = s.errcb := by
  intro fuel
  induction fuel with
  | zero => intro s n v; rfl
  | succ fuel ih =>
    intro s n v
    simp only [Regs.regSetLoop]
    repeat' split
    all_goals simp [ih, Regs.put]

theorem regSet_errcb (s : Regs.St) (n : Nat) (v : Regs.Reg) : (Regs.regSet s n v).errcb = s.errcb := by
  unfold Regs.regSet; split
  · rfl
  · exact regSetLoop_errcb _ _ _ _

theorem regSetLoop_qn : ∀ (fuel : Nat) (s : Regs.St) (n : Nat) (v : Regs.Reg),
    (Regs.regSetLoop fuel s n v).qn = s.qn := by
  intro fuel
  induction fuel with
  | zero => intro s n v; rfl
  | succ fuel ih =>
    intro s n v
    simp only [Regs.regSetLoop]
    repeat' split
    all_goals simp [ih, Regs.put]

theorem regSet_qn (s : Regs.St) (n : Nat) (v : Regs.Reg) : (Regs.regSet s n v).qn = s.qn := by
  unfold Regs.regSet; split
  · rfl
  · exact regSetLoop_qn _ _ _ _

theorem regSetLoop_cap : ∀ (fuel : Nat) (s : Regs.St) (n : Nat) (v : Regs.Reg),
    (Regs.regSetLoop fuel s n v).cap = s.cap := by
  intro fuel
  induction fuel with
  | zero => intro s n v; rfl
  | succ fuel ih =>
    intro s n v
    simp only [Regs.regSetLoop]
    repeat' split
    all_goals simp [ih, Regs.put]

theorem regSet_cap (s : Regs.St) (n : Nat) (v : Regs.Reg) : (Regs.regSet s n v).cap = s.cap := by
  unfold Regs.regSet; split
  · rfl
  · exact regSetLoop_cap _ _ _ _

theorem emitEmpty_qn (s : Regs.St) : (Regs.emitEmpty s).qn = s.qn := by
  unfold Regs.emitEmpty
  split
  · show (Regs.regClearBits s Regs.STB Regs.stbQMA).qn = s.qn
    unfold Regs.regClearBits; exact regSet_qn _ _ _
  · rfl

theorem emitEmpty_cap (s : Regs.St) : (Regs.emitEmpty s).cap = s.cap := by
  unfold Regs.emitEmpty
  split
  · show (Regs.regClearBits s Regs.STB Regs.stbQMA).cap = s.cap
    unfold Regs.regClearBits; exact regSet_cap _ _ _
  · rfl

/-- the "queue empty" callback of SCPI_ErrorEmitEmpty -/
def emptyFires (s : Regs.St) : Bool := decide (s.qn = 0 ∧ (Regs.get s Regs.STB &&& Regs.stbQMA) ≠ 0)

theorem emitEmpty_errcb (s : Regs.St) :
    (Regs.emitEmpty s).errcb = s.errcb ++ (if emptyFires s then [0] else []) := by
  unfold Regs.emitEmpty emptyFires
  by_cases h : s.qn = 0 ∧ (Regs.get s Regs.STB &&& Regs.stbQMA) ≠ 0
  · rw [if_pos h, decide_eq_true h]
    show (Regs.regClearBits s Regs.STB Regs.stbQMA).errcb ++ [0] = _
    unfold Regs.regClearBits
    rw [regSet_errcb]; rfl
  · rw [if_neg h, decide_eq_false h]; simp

theorem fired_errPop (r : Regs.St) : fired r .errPop = emptyFires { r with qn := r.qn - 1 } := by
  unfold fired
  simp only [Regs.step, Regs.errPop, emitEmpty_errcb]
  cases emptyFires { r with qn := r.qn - 1 } <;> simp

theorem fired_cls (r : Regs.St) : fired r .cls = emptyFires { r with qn := 0 } := by
  unfold fired
  show decide ((Regs.cls r).errcb.length > r.errcb.length) = _
  rw [Lemmas.Regs.cls_eq, regSet_errcb, regSet_errcb, regSet_errcb]
  simp only [Regs.errClear, emitEmpty_errcb]
  cases emptyFires { r with qn := 0 } <;> simp

end ScpiVerif.Lemmas.Builtin
