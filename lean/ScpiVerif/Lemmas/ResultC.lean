/-
Refinement of the hand-written model of the response framing functions (Model/Result.lean: writeData, writeSep,
writeDelimiter, writeNewLine, resultCharacters) by the definitions that translate/c2lean_parser.py GENERATES from
libscpi/src/parser.c on every run (Gen/ResultC.lean: writeData, flushData, writeDelimiter, writeNewLine, writeSemicolon,
SCPI_ResultCharacters).

The generated code knows nothing about the ghost fields of `Result.Out` (gCur, gItems, gUnits, gPartial) nor about
arbRemaining / pushed, which these functions do not touch: the refinement is stated on the non-ghost projection
`view = (output_count, first_output, written, flushes)`.

The proofs do not depend on the shape of the generated text: all generated functions, the callbacks, the hand model and
the two views are unfolded, every `if` is split, the leaves are closed by `simp` / `omega`.
-/
import ScpiVerif.Gen.ResultC
import ScpiVerif.Model.Result

namespace ScpiVerif.Lemmas.ResultC
open ScpiVerif ScpiVerif.Gen.ResultC
open ScpiVerif.Lexer (Bytes)

variable {ρ : Type}

/-- what both sides can see -/
abbrev View := Int × Bool × Bytes × Nat

def cview (c : CCtx ρ) : View := (c.output_count, c.first_output, c.written, c.flushes)
def oview (o : Result.Out) : View := (o.outputCount, o.firstOutput, o.written, o.flushes)

/-- the application provides the callback table with `write` and `flush` (what the harness does and the hand model assumes) -/
def IfaceOK (c : CCtx ρ) : Prop :=
  c.interface_nonnull = true ∧ c.interface_write_nonnull = true ∧ c.interface_flush_nonnull = true

/-- the C range of `output_count` below its maximum: one more `++` is defined -/
def CountOK (c : CCtx ρ) : Prop := -9223372036854775808 ≤ c.output_count ∧ c.output_count < 9223372036854775807

theorem line_ending_literal : ([13, 10, 0] : List UInt8).take (cstrlen [13, 10, 0]).toNat = Result.bytesOf Gen.LINE_ENDING := by decide +kernel

/-- a CHECK only ever touches the flag `ub` -/
theorem chk_eq (c : CCtx ρ) (ok : Bool) : c.chk ok = { c with ub := c.ub || !ok } := by
  cases ok <;> cases c <;> simp [CCtx.chk]

/-- unfold everything generated and the hand model -/
macro "r_unfold" : tactic => `(tactic|
  simp only [SCPI_ResultCharacters, writeNewLine, writeSemicolon, writeDelimiter, flushData, writeData, cb_write, cb_flush, chk_eq,
    Result.resultCharacters, Result.bump, Result.writeNewLine, Result.writeDelimiter, Result.writeSep, Result.writeData,
    cview, oview, IfaceOK, CountOK, wrapU64, SCPI_RES_OK, Prod.mk.injEq] at *)

macro "r_close" : tactic => `(tactic| (
  repeat' (split <;> try simp_all <;> try omega)
  all_goals (try simp_all)
  all_goals (try omega)))

/-! ### writeData -/

/-- with a non-NULL pointer to at least `len` bytes: the hand model's `writeSep` / `writeData` of those bytes; nothing else
changes; no undefined behaviour is added; the return value is `len` -/
theorem writeData_refines (c : CCtx ρ) (o : Result.Out) (d : Bytes) (len : Int) (hv : cview c = oview o) (hi : IfaceOK c)
    (h0 : 0 ≤ len) (h1 : len ≤ d.length) :
    cview (writeData c (some d) len).1 = oview (Result.writeData o (d.take len.toNat)) ∧
    cview (writeData c (some d) len).1 = oview (Result.writeSep o (d.take len.toNat)) ∧
    (writeData c (some d) len).1.ub = c.ub ∧ (writeData c (some d) len).2 = len := by
  obtain ⟨i1, i2, i3⟩ := hi
  have hz : len = 0 → d.take len.toNat = [] := by intro h; subst h; simp
  r_unfold
  by_cases hl : len > 0
  · simp_all
  · have : len = 0 := by omega
    simp_all

/-- a NULL pointer or a zero length writes nothing at all -/
theorem writeData_nothing (c : CCtx ρ) (p : Option (List UInt8)) (len : Int) (h : p = none ∨ len ≤ 0) :
    writeData c p len = (c, 0) := by
  r_unfold
  rcases h with h | h
  · subst h; simp
  · have : ¬ (len > 0) := by omega
    simp [this]

/-! ### writeDelimiter -/

theorem writeDelimiter_refines (c : CCtx ρ) (o : Result.Out) (hv : cview c = oview o) (hi : IfaceOK c) :
    cview (writeDelimiter c).1 = oview (Result.writeDelimiter o) ∧ (writeDelimiter c).1.ub = c.ub := by
  obtain ⟨i1, i2, i3⟩ := hi
  r_unfold
  obtain ⟨h1, h2, h3, h4⟩ := hv
  r_close

/-- the per-call facts the framing theorem rests on, about the generated function alone -/
theorem writeDelimiter_cases (c : CCtx ρ) (hi : IfaceOK c) :
    (0 < c.output_count → (writeDelimiter c).1.written = c.written ++ [44] ∧ (writeDelimiter c).1.output_count = c.output_count) ∧
    (c.output_count < 0 → (writeDelimiter c).1.written = c.written ++ [59] ∧ (writeDelimiter c).1.output_count = 0) ∧
    (c.output_count = 0 → (writeDelimiter c).1.written = c.written ∧ (writeDelimiter c).1.output_count = 0) ∧
    (writeDelimiter c).1.flushes = c.flushes ∧ (writeDelimiter c).1.first_output = c.first_output ∧
    (writeDelimiter c).1.ub = c.ub ∧
    (writeDelimiter c).2 = (if c.output_count = 0 then 0 else 1) := by
  obtain ⟨i1, i2, i3⟩ := hi
  r_unfold
  r_close

/-! ### writeNewLine, flushData, writeSemicolon -/

theorem writeNewLine_refines (c : CCtx ρ) (o : Result.Out) (hv : cview c = oview o) (hi : IfaceOK c) :
    cview (writeNewLine c).1 = oview (Result.writeNewLine o) ∧ (writeNewLine c).1.ub = c.ub := by
  obtain ⟨i1, i2, i3⟩ := hi
  have hle := line_ending_literal
  have hlen : (cstrlen [13, 10, 0]) = 2 := by decide
  r_unfold
  obtain ⟨h1, h2, h3, h4⟩ := hv
  simp only [Option.getD_some] at *
  simp only [hlen] at hle ⊢
  r_close

theorem writeNewLine_cases (c : CCtx ρ) (hi : IfaceOK c) :
    (c.first_output = false → (writeNewLine c).1.written = c.written ++ Result.bytesOf Gen.LINE_ENDING ∧
      (writeNewLine c).1.flushes = c.flushes + 1) ∧
    (c.first_output = true → (writeNewLine c).1.written = c.written ∧ (writeNewLine c).1.flushes = c.flushes) ∧
    (writeNewLine c).1.output_count = c.output_count ∧ (writeNewLine c).1.first_output = c.first_output ∧
    (writeNewLine c).1.ub = c.ub := by
  obtain ⟨i1, i2, i3⟩ := hi
  have hle := line_ending_literal
  have hlen : (cstrlen [13, 10, 0]) = 2 := by decide
  r_unfold
  simp only [Option.getD_some] at *
  simp only [hlen] at hle ⊢
  r_close

/-- without a flush callback (or without a callback table) flushData does nothing and reports success -/
theorem flushData_absent (c : CCtx ρ) (h : c.interface_nonnull = false ∨ c.interface_flush_nonnull = false) :
    flushData c = (c, SCPI_RES_OK) := by
  r_unfold
  rcases h with h | h <;> simp [h]

theorem flushData_present (c : CCtx ρ) (hi : IfaceOK c) :
    (flushData c).1.flushes = c.flushes + 1 ∧ (flushData c).1.written = c.written ∧ (flushData c).1.ub = c.ub ∧
    (flushData c).2 = SCPI_RES_OK := by
  obtain ⟨i1, i2, i3⟩ := hi
  r_unfold
  r_close

/-- writeSemicolon (the separator inside the error string of SCPI_ResultError): ';' iff output_count > 0 -/
theorem writeSemicolon_cases (c : CCtx ρ) (hi : IfaceOK c) :
    (writeSemicolon c).1.written = (if 0 < c.output_count then c.written ++ [59] else c.written) ∧
    (writeSemicolon c).1.output_count = c.output_count ∧ (writeSemicolon c).1.flushes = c.flushes ∧
    (writeSemicolon c).1.ub = c.ub := by
  obtain ⟨i1, i2, i3⟩ := hi
  r_unfold
  r_close

/-! ### SCPI_ResultCharacters -/

theorem resultCharacters_refines (c : CCtx ρ) (o : Result.Out) (d : Bytes) (len : Int) (hv : cview c = oview o) (hi : IfaceOK c)
    (hc : CountOK c) (h0 : 0 ≤ len) (h1 : len ≤ d.length) :
    cview (SCPI_ResultCharacters c (some d) len).1 = oview (Result.resultCharacters o (d.take len.toNat)) ∧
    (SCPI_ResultCharacters c (some d) len).1.ub = c.ub := by
  obtain ⟨i1, i2, i3⟩ := hi
  have hz : len = 0 → d.take len.toNat = [] := by intro h; subst h; simp
  r_unfold
  obtain ⟨h1, h2, h3, h4⟩ := hv
  by_cases hl : len > 0
  · r_close
  · have : len = 0 := by omega
    subst this
    r_close

/-- a NULL data pointer: only the delimiter is written, the item is counted -/
theorem resultCharacters_null (c : CCtx ρ) (o : Result.Out) (len : Int) (hv : cview c = oview o) (hi : IfaceOK c) (hc : CountOK c) :
    cview (SCPI_ResultCharacters c none len).1 = oview (Result.resultCharacters o []) ∧
    (SCPI_ResultCharacters c none len).1.ub = c.ub := by
  obtain ⟨i1, i2, i3⟩ := hi
  r_unfold
  obtain ⟨h1, h2, h3, h4⟩ := hv
  r_close

/-- the one undefined case: `output_count++` at the maximum of its type -/
theorem resultCharacters_overflow (c : CCtx ρ) (p : Option (List UInt8)) (len : Int) (h : c.output_count = 9223372036854775807) :
    (SCPI_ResultCharacters c p len).1.ub = true := by
  r_unfold
  r_close

end ScpiVerif.Lemmas.ResultC
