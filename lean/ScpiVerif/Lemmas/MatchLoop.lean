/-
The trailing loop of `matchCommand` ("verify all subsequent pattern parts are also optional") on a
rendered pattern (C03 proof, text level).
-/
import ScpiVerif.Lemmas.MatchKw
import ScpiVerif.Lemmas.MatchList

namespace ScpiVerif.Lemmas.Match
open ScpiVerif ScpiVerif.Match ScpiVerif.Spec.Pattern
open ScpiVerif.Lexer (Bytes isDigit isLower isUpper isAlpha)

theorem setNum_eq (st : MState) (hn : Bool) (i : Nat) (v : Int) :
    setNum st hn i v = { st with numbers := if hn then st.numbers.set i v else st.numbers } := by
  unfold setNum
  by_cases h : hn = true ∧ i < st.numbers.length
  · simp [h]
  · simp only [h, if_false]
    cases hn with
    | false => simp
    | true =>
      have : st.numbers.length ≤ i := by simpa using h
      simp [List.set_eq_of_length_le this]

/-- the check after an iteration that ended with `brackets == 0` -/
def tlX (p : Bytes) (hn : Bool) (d : Int) (fuel : Nat) (st : MState) : MState :=
  if st.pl > 0 ∧ rd p st.pp == 91 then trailingLoop p hn d fuel st else st

theorem trailingLoop_succ (p : Bytes) (hn : Bool) (d : Int) (fuel : Nat) (st : MState) (hpl : 0 < st.pl) :
    trailingLoop p hn d (fuel + 1) st =
      let sp := patternSeparatorPos p st.pp st.pl.toNat
      let st1 : MState := if sp > 0 ∧ rd p (st.pp + sp - 1) == 35 then
                  { (setNum st hn st.idx d) with idx := st.idx + 1 } else st
      let ch := rd p (st1.pp + sp)
      let st2 : MState := if ch == 91 then { st1 with brackets := st1.brackets + 1 }
                else if ch == 93 then { st1 with brackets := st1.brackets - 1 } else st1
      let st3 : MState := { st2 with pp := st2.pp + sp + 1, pl := st2.pl - (sp + 1) }
      if st3.brackets == 0 then tlX p hn d fuel st3 else trailingLoop p hn d fuel st3 := by
  have h1 : ¬ (st.pl == 0) = true := by simp; omega
  have h2 : ¬ st.pl < 0 := by omega
  rw [trailingLoop, if_neg h1, if_neg h2]; rfl

theorem trailingLoop_zero_pl (p : Bytes) (hn : Bool) (d : Int) (fuel : Nat) (st : MState) (hpl : st.pl = 0) :
    trailingLoop p hn d fuel st = st := by
  cases fuel <;> simp [trailingLoop, hpl]

/-- separator byte right at the pattern pointer -/
theorem psp_zero (p : Bytes) (pp : Nat) (n : Nat) (ch : UInt8) (t : Bytes) (h : p.drop pp = ch :: t)
    (hch : ch = 58 ∨ ch = 91 ∨ ch = 93) (hn : 0 < n) : patternSeparatorPos p pp n = 0 := by
  have := sepPos_drop p pp n [63, 58, 91, 93] [] (ch :: t) (by simpa using h) (by simp)
    (Or.inr ⟨by simpa using hn, by rcases hch with h | h | h <;> subst h <;> simp,
      by rcases hch with h | h | h <;> subst h <;> simp⟩)
  simpa [patternSeparatorPos] using this

theorem rd_head (p : Bytes) (pp : Nat) (ch : UInt8) (t : Bytes) (h : p.drop pp = ch :: t) : rd p pp = ch := by
  have := rd_off p pp _ h 0; simpa [rd] using this

theorem rd_head1 (p : Bytes) (pp : Nat) (ch : UInt8) (t : Bytes) (h : p.drop pp = ch :: t) :
    rd p (pp + 1) = t.headD 0 := by
  have := rd_off p pp _ h 1; rw [this, rd_cons_succ, rd_zero]

theorem drop_tail (p : Bytes) (pp : Nat) (ch : UInt8) (t : Bytes) (h : p.drop pp = ch :: t) :
    p.drop (pp + 1) = t := by
  have := drop_add_of_drop p pp [ch] t (by simpa using h); simpa using this

/-- one iteration on a '[' with brackets = 0 -/
theorem tl_open (p : Bytes) (hn : Bool) (d : Int) (fuel pp : Nat) (pl : Int) (cp cl : Nat) (nums : List Int)
    (idx : Nat) (oob : Bool) (t : Bytes) (h : p.drop pp = 91 :: t) (hpl : 0 < pl) :
    trailingLoop p hn d (fuel + 1) ⟨pp, pl, cp, cl, 0, nums, idx, oob⟩ =
      trailingLoop p hn d fuel ⟨pp + 1, pl - 1, cp, cl, 1, nums, idx, oob⟩ := by
  rw [trailingLoop_succ _ _ _ _ _ hpl]
  have hsp := psp_zero p pp pl.toNat 91 t h (by simp) (by omega)
  have hr := rd_head p pp 91 t h
  simp [hsp, hr]

/-- one iteration on a ':' inside brackets -/
theorem tl_colon_in (p : Bytes) (hn : Bool) (d : Int) (fuel pp : Nat) (pl : Int) (cp cl : Nat) (nums : List Int)
    (idx : Nat) (oob : Bool) (t : Bytes) (h : p.drop pp = 58 :: t) (hpl : 0 < pl) :
    trailingLoop p hn d (fuel + 1) ⟨pp, pl, cp, cl, 1, nums, idx, oob⟩ =
      trailingLoop p hn d fuel ⟨pp + 1, pl - 1, cp, cl, 1, nums, idx, oob⟩ := by
  rw [trailingLoop_succ _ _ _ _ _ hpl]
  have hsp := psp_zero p pp pl.toNat 58 t h (by simp) (by omega)
  have hr := rd_head p pp 58 t h
  simp [hsp, hr]

/-- one iteration on a ']' with brackets = 1 -/
theorem tl_close (p : Bytes) (hn : Bool) (d : Int) (fuel pp : Nat) (pl : Int) (cp cl : Nat) (nums : List Int)
    (idx : Nat) (oob : Bool) (t : Bytes) (h : p.drop pp = 93 :: t) (hpl : 0 < pl) :
    trailingLoop p hn d (fuel + 1) ⟨pp, pl, cp, cl, 1, nums, idx, oob⟩ =
      tlX p hn d fuel ⟨pp + 1, pl - 1, cp, cl, 0, nums, idx, oob⟩ := by
  rw [trailingLoop_succ _ _ _ _ _ hpl]
  have hsp := psp_zero p pp pl.toNat 93 t h (by simp) (by omega)
  have hr := rd_head p pp 93 t h
  simp [hsp, hr]

/-- one iteration on a ':' outside brackets followed by a keyword: the loop stops -/
theorem tl_colon_out (p : Bytes) (hn : Bool) (d : Int) (fuel pp : Nat) (pl : Int) (cp cl : Nat) (nums : List Int)
    (idx : Nat) (oob : Bool) (t : Bytes) (h : p.drop pp = 58 :: t) (hpl : 0 < pl) (ht : t.headD 0 ≠ 91) :
    trailingLoop p hn d (fuel + 1) ⟨pp, pl, cp, cl, 0, nums, idx, oob⟩ =
      ⟨pp + 1, pl - 1, cp, cl, 0, nums, idx, oob⟩ := by
  rw [trailingLoop_succ _ _ _ _ _ hpl]
  have hsp := psp_zero p pp pl.toNat 58 t h (by simp) (by omega)
  have hr := rd_head p pp 58 t h
  have hr1 := rd_head1 p pp 58 t h
  have ht' : ¬ (List.head? t).getD 0 = 91 := by simpa [List.headD_eq_head?_getD] using ht
  simp [hsp, hr, tlX, hr1, ht']

theorem keyText_clean {k : Kw} (hk : KwW k) :
    ∀ b ∈ keyText k, b ≠ 0 ∧ [63, 58, 91, 93].contains b = false := by
  intro b hb
  simp only [keyText, List.mem_append] at hb
  rcases hb with hb | hb
  · have := hk.long_all b hb
    exact ⟨this.1, this.2.2.2.2.2⟩
  · cases hnum : k.numeric <;> simp [hnum] at hb
    subst hb; simp

theorem keyText_pos {k : Kw} (hk : KwW k) : 0 < (keyText k).length := by
  have : 0 < k.long.length := List.length_pos_iff.mpr hk.ne
  simp [keyText]; omega

/-- the test "the keyword text ends with '#'" -/
theorem keyText_isNum {k : Kw} (hk : KwW k) (p : Bytes) (pp : Nat) (rest : Bytes)
    (h : p.drop pp = keyText k ++ rest) :
    (rd p (pp + (keyText k).length - 1) == 35) = k.numeric := by
  have hpos := keyText_pos hk
  have hi : (keyText k).length - 1 < (keyText k).length := by omega
  have h2 : pp + (keyText k).length - 1 = pp + ((keyText k).length - 1) := by omega
  rw [h2, rd_in p pp _ rest h _ hi]
  have hlne : 0 < k.long.length := List.length_pos_iff.mpr hk.ne
  cases hnum : k.numeric with
  | true =>
    have : (keyText k)[(keyText k).length - 1] = 35 := by
      simp [keyText, hnum]
    rw [this]; rfl
  | false =>
    have hkt : keyText k = k.long := by simp [keyText, hnum]
    have hmem : (keyText k)[(keyText k).length - 1] ∈ k.long := by
      have := List.getElem_mem hi
      exact hkt ▸ this
    have := (hk.long_nz _ hmem).2.2
    simpa using this

theorem psp_key {k : Kw} (hk : KwW k) (p : Bytes) (pp n : Nat) (rest : Bytes)
    (h : p.drop pp = keyText k ++ rest)
    (hlen : n = (keyText k).length ∨ ((keyText k).length < n ∧
      (rest.headD 0 = 58 ∨ rest.headD 0 = 91 ∨ rest.headD 0 = 93))) :
    patternSeparatorPos p pp n = (keyText k).length := by
  unfold patternSeparatorPos
  apply sepPos_drop p pp n _ (keyText k) rest h (keyText_clean hk)
  rcases hlen with h | ⟨h1, h2⟩
  · exact Or.inl h
  · refine Or.inr ⟨h1, ?_, ?_⟩ <;> rcases h2 with h | h | h <;> rw [h] <;> simp

/-- one iteration on `KEY]` with brackets = 1: a skipped numeric keyword gets the default -/
theorem tl_key {k : Kw} (hk : KwW k) (p : Bytes) (hn : Bool) (d : Int) (fuel pp : Nat) (pl : Int) (cp cl : Nat)
    (nums : List Int) (idx : Nat) (oob : Bool) (t : Bytes) (h : p.drop pp = keyText k ++ 93 :: t)
    (hpl : ((keyText k).length : Int) < pl) :
    trailingLoop p hn d (fuel + 1) ⟨pp, pl, cp, cl, 1, nums, idx, oob⟩ =
      tlX p hn d fuel ⟨pp + (keyText k).length + 1, pl - ((keyText k).length + 1), cp, cl, 0,
        if k.numeric then (if hn then nums.set idx d else nums) else nums,
        if k.numeric then idx + 1 else idx, oob⟩ := by
  have hpos := keyText_pos hk
  rw [trailingLoop_succ _ _ _ _ _ (by simp; omega)]
  have hsp := psp_key hk p pp pl.toNat (93 :: t) h (Or.inr ⟨by simp; omega, by simp⟩)
  have hnum := keyText_isNum hk p pp _ h
  have hch : rd p (pp + (keyText k).length) = 93 := by
    have := rd_after p pp _ _ h 0; simpa [rd] using this
  cases hk' : k.numeric <;> simp [hk'] at hnum <;> simp [hsp, hnum, hpos, hch, setNum_eq, hk']

theorem keyText_head {k : Kw} (hk : KwW k) (rest : Bytes) :
    (keyText k ++ rest).headD 0 ≠ 58 ∧ (keyText k ++ rest).headD 0 ≠ 91 ∧
    (keyText k ++ rest).headD 0 ≠ 93 ∧ (keyText k ++ rest).headD 0 ≠ 0 ∧ (keyText k ++ rest).headD 0 ≠ 63 := by
  have hpos := keyText_pos hk
  cases hkt : keyText k with
  | nil => simp [hkt] at hpos
  | cons c t =>
    have := keyText_clean hk c (by simp [hkt])
    refine ⟨?_, ?_, ?_, ?_, ?_⟩ <;> (intro hc; simp at hc; subst hc; simp at this)

theorem want_consNum (k : Kw) (n : Option Nat) (sol : List (Option Nat)) (d : Int) :
    want (consNum k n sol) d =
      if k.numeric then (match n with | some v => (v : Int) | none => d) :: want sol d else want sol d := by
  unfold consNum want; split <;> simp
  cases n <;> rfl

/-- from the start of the rendering of `ks`, outside brackets, after the `brackets == 0` check -/
theorem tl_rest (p qt : Bytes) (hn : Bool) (d : Int) :
    ∀ (ks : List Kw), (∀ k ∈ ks, KwW k) →
    ∀ (fuel pp : Nat) (pl : Int) (cp cl : Nat) (nums : List Int) (idx : Nat) (oob : Bool),
      p.drop pp = renderRest ks ++ qt → pl = ((renderRest ks).length : Int) →
      (renderRest ks).length ≤ fuel →
      (tlX p hn d fuel ⟨pp, pl, cp, cl, 0, nums, idx, oob⟩).oob = oob ∧
      ((tlX p hn d fuel ⟨pp, pl, cp, cl, 0, nums, idx, oob⟩).pl == 0) = (greedy ks []).isSome ∧
      ∀ sol, greedy ks [] = some sol →
        (tlX p hn d fuel ⟨pp, pl, cp, cl, 0, nums, idx, oob⟩).numbers =
          if hn then fill nums idx (want sol d) else nums := by
  intro ks
  induction ks with
  | nil =>
    intro _ fuel pp pl cp cl nums idx oob h hpl _
    simp only [renderRest, List.length_nil] at hpl
    subst hpl
    simp [tlX, greedy, want, fill]
  | cons k ks ih =>
    intro hks fuel pp pl cp cl nums idx oob h hpl hfuel
    have hk : KwW k := hks k (by simp)
    have hks' : ∀ k ∈ ks, KwW k := fun k' hk' => hks k' (by simp [hk'])
    have hpos := keyText_pos hk
    cases hopt : k.optional with
    | false =>
      have h' : p.drop pp = 58 :: (keyText k ++ renderRest ks ++ qt) := by
        rw [h]; simp [renderRest, item, hopt]
      have hr := rd_head p pp 58 _ h'
      have hplpos : 0 < pl := by
        rw [hpl]; simp [renderRest, item, hopt]; omega
      have hne : ¬ pl = 0 := by omega
      simp [tlX, hr, greedy, hopt, hne]
    | true =>
      have h' : p.drop pp = 91 :: 58 :: (keyText k ++ 93 :: (renderRest ks ++ qt)) := by
        rw [h]; simp [renderRest, item, hopt]
      have hlen : (renderRest (k :: ks)).length = (keyText k).length + 3 + (renderRest ks).length := by
        simp [renderRest, item, hopt]; omega
      have hr := rd_head p pp 91 _ h'
      have hplpos : 0 < pl := by rw [hpl, hlen]; omega
      obtain ⟨f, rfl⟩ : ∃ f, fuel = f + 3 := ⟨fuel - 3, by omega⟩
      have hX : tlX p hn d (f + 3) ⟨pp, pl, cp, cl, 0, nums, idx, oob⟩ =
          tlX p hn d f ⟨pp + 1 + 1 + (keyText k).length + 1, pl - 1 - 1 - ((keyText k).length + 1), cp, cl, 0,
            if k.numeric then (if hn then nums.set idx d else nums) else nums,
            if k.numeric then idx + 1 else idx, oob⟩ := by
        have h1 := drop_tail p pp _ _ h'
        have h2 := drop_tail p (pp + 1) _ _ h1
        have e0 : tlX p hn d (f + 3) ⟨pp, pl, cp, cl, 0, nums, idx, oob⟩ =
            trailingLoop p hn d (f + 3) ⟨pp, pl, cp, cl, 0, nums, idx, oob⟩ := by
          simp [tlX, hr, hplpos]
        rw [e0, tl_open p hn d (f + 2) pp pl cp cl nums idx oob _ h' hplpos,
          tl_colon_in p hn d (f + 1) (pp + 1) (pl - 1) cp cl nums idx oob _ h1 (by rw [hpl, hlen]; omega),
          tl_key hk p hn d f (pp + 1 + 1) (pl - 1 - 1) cp cl nums idx oob _ h2 (by rw [hpl, hlen]; omega)]
      rw [hX]
      have h3 : p.drop (pp + 1 + 1 + (keyText k).length + 1) = renderRest ks ++ qt := by
        have h1 := drop_tail p pp _ _ h'
        have h2 := drop_tail p (pp + 1) _ _ h1
        have h3 := drop_add_of_drop p (pp + 1 + 1) (keyText k) _ h2
        exact drop_tail p _ _ _ h3
      have := ih hks' f (pp + 1 + 1 + (keyText k).length + 1) (pl - 1 - 1 - ((keyText k).length + 1)) cp cl
        (if k.numeric then (if hn then nums.set idx d else nums) else nums)
        (if k.numeric then idx + 1 else idx) oob h3 (by rw [hpl, hlen]; omega) (by omega)
      refine ⟨this.1, ?_, ?_⟩
      · rw [this.2.1]; simp [greedy, hopt]
      · intro sol hsol
        simp only [greedy, hopt, if_true, Option.map_eq_some_iff] at hsol
        obtain ⟨sol', hs', rfl⟩ := hsol
        rw [this.2.2 sol' hs', want_consNum]
        cases hn <;> cases k.numeric <;> simp [fill]

/-- bytes written after keyword `k` before the next item -/
def closeB (k : Kw) : Bytes := if k.optional then [93] else []
/-- value of `brackets` while inside the item of keyword `k` -/
def brOf (k : Kw) : Int := if k.optional then 1 else 0

/-- the trailing loop entered right after the text of keyword `k` -/
theorem tl_after (p qt : Bytes) (hn : Bool) (d : Int) (k : Kw) (ks : List Kw) (hks : ∀ k ∈ ks, KwW k)
    (fuel pp : Nat) (pl : Int) (cp cl : Nat) (nums : List Int) (idx : Nat) (oob : Bool)
    (h : p.drop pp = closeB k ++ renderRest ks ++ qt)
    (hpl : pl = ((closeB k ++ renderRest ks).length : Int))
    (hfuel : (closeB k ++ renderRest ks).length ≤ fuel) :
    (trailingLoop p hn d fuel ⟨pp, pl, cp, cl, brOf k, nums, idx, oob⟩).oob = oob ∧
    ((trailingLoop p hn d fuel ⟨pp, pl, cp, cl, brOf k, nums, idx, oob⟩).pl == 0) = (greedy ks []).isSome ∧
    ∀ sol, greedy ks [] = some sol →
      (trailingLoop p hn d fuel ⟨pp, pl, cp, cl, brOf k, nums, idx, oob⟩).numbers =
        if hn then fill nums idx (want sol d) else nums := by
  cases hopt : k.optional with
  | true =>
    simp only [closeB, brOf, hopt, if_true] at h hpl hfuel ⊢
    have h' : p.drop pp = 93 :: (renderRest ks ++ qt) := by simpa using h
    obtain ⟨f, rfl⟩ : ∃ f, fuel = f + 1 := ⟨fuel - 1, by simp at hfuel; omega⟩
    rw [tl_close p hn d f pp pl cp cl nums idx oob _ h' (by rw [hpl]; simp <;> omega)]
    exact tl_rest p qt hn d ks hks f (pp + 1) (pl - 1) cp cl nums idx oob (drop_tail p pp _ _ h')
      (by rw [hpl]; simp) (by simp at hfuel; omega)
  | false =>
    simp only [closeB, brOf, hopt, Bool.false_eq_true, if_false, List.nil_append] at h hpl hfuel ⊢
    match ks, hks with
    | [], _ =>
      simp only [renderRest, List.length_nil] at hpl
      rw [trailingLoop_zero_pl _ _ _ _ _ (by simpa using hpl)]
      simp [greedy, want, fill, hpl]
    | k' :: ks', hks =>
      have hk' : KwW k' := hks k' (by simp)
      have hpos := keyText_pos hk'
      cases hopt' : k'.optional with
      | true =>
        have h' : p.drop pp = 91 :: 58 :: (keyText k' ++ 93 :: (renderRest ks' ++ qt)) := by
          rw [h]; simp [renderRest, item, hopt']
        have hr := rd_head p pp 91 _ h'
        have hplpos : 0 < pl := by rw [hpl]; simp [renderRest, item, hopt']; omega
        have e0 : trailingLoop p hn d fuel ⟨pp, pl, cp, cl, 0, nums, idx, oob⟩ =
            tlX p hn d fuel ⟨pp, pl, cp, cl, 0, nums, idx, oob⟩ := by
          simp [tlX, hr, hplpos]
        rw [e0]
        exact tl_rest p qt hn d (k' :: ks') hks fuel pp pl cp cl nums idx oob h hpl hfuel
      | false =>
        have h' : p.drop pp = 58 :: (keyText k' ++ (renderRest ks' ++ qt)) := by
          rw [h]; simp [renderRest, item, hopt']
        have hlen : (renderRest (k' :: ks')).length = (keyText k').length + 1 + (renderRest ks').length := by
          simp [renderRest, item, hopt']; omega
        obtain ⟨f, rfl⟩ : ∃ f, fuel = f + 1 := ⟨fuel - 1, by omega⟩
        rw [tl_colon_out p hn d f pp pl cp cl nums idx oob _ h' (by rw [hpl, hlen]; omega)
          (keyText_head hk' _).2.1]
        have : ¬ (pl - 1 = 0) := by rw [hpl, hlen]; omega
        simp [greedy, hopt', this]

end ScpiVerif.Lemmas.Match
