/-
The link between the program data of a unit and what SCPI_ParamInt32 delivers, for the simplest data there is: a
string of decimal digits.  Used by Props/Instrument.lean to state the `*ESE n` / `*ESE?` round trips on the bytes of
the program data instead of on the reader's result.

  digits_specData   the token specification (Spec/Tokens.lean, Spec/Unit.lean) reads a digit string as one DECIMAL item
  paramInt_digits   a unit whose program data is a digit string denoting v (|v| < 2^31), not followed by a further
                    digit in memory: SCPI_ParamInt32 succeeds with v and leaves no data behind
-/
import ScpiVerif.Lemmas.Instrument
import ScpiVerif.Lemmas.Regex
import ScpiVerif.Lemmas.Numeric

set_option linter.unusedSimpArgs false
set_option linter.unusedVariables false

namespace ScpiVerif.Lemmas.Instrument
open ScpiVerif ScpiVerif.Ctx ScpiVerif.Lexer ScpiVerif.Spec ScpiVerif.Props.Instrument

/-! ### a digit string under the token specification -/

theorem digit_classes_fin : ∀ n : Fin 256, isDigit (UInt8.ofNat n.val) = true →
    ((UInt8.ofNat n.val) == 35) = false ∧ isAlpha (UInt8.ofNat n.val) = false ∧ isWs (UInt8.ofNat n.val) = false := by
  decide +kernel

theorem digit_classes (d : UInt8) (h : isDigit d = true) : (d == 35) = false ∧ isAlpha d = false ∧ isWs d = false := by
  have := digit_classes_fin ⟨d.toNat, d.toNat_lt⟩
  simp only [UInt8.ofNat_toNat] at this
  exact this h

/-- a language whose words all start with a byte satisfying `p` has no prefix in a string starting otherwise -/
theorem longest_none_of_first (p : UInt8 → Bool) (b : Re) (d : UInt8) (rest : Bytes) (hp : p d = false) :
    (Re.seq (.chr p) b).longest (d :: rest) = none := by
  rw [Lemmas.Regex.longest_none]
  intro m _ hm
  obtain ⟨u, v, huv, hu, _⟩ := Lemmas.Regex.matches_seq.1 hm
  obtain ⟨x, hx, hpx⟩ := Lemmas.Regex.matches_chr.1 hu
  subst hx
  cases m with
  | zero => simp at huv
  | succ m =>
    simp only [List.take_succ_cons, List.cons_append, List.nil_append, List.cons.injEq] at huv
    rw [← huv.1] at hpx
    rw [hp] at hpx
    cases hpx

theorem matches_star_digits : ∀ l : Bytes, l.all isDigit = true → Matches (.star (.chr isDigit)) l := by
  intro l
  induction l with
  | nil => intro _; exact .starNil
  | cons b l ih =>
    intro h
    simp only [List.all_cons, Bool.and_eq_true] at h
    exact Matches.starCons (s := [b]) (Matches.chr isDigit b h.1) (ih h.2)

theorem matches_decimal_digits (d : UInt8) (l : Bytes) (hd : isDigit d = true) (hl : l.all isDigit = true) :
    Matches Spec.decimal (d :: l) := by
  have h1 : Matches Spec.digits (d :: l) :=
    Matches.seq (s := [d]) (Matches.chr isDigit d hd) (matches_star_digits l hl)
  have h2 : Matches Spec.mantissa (d :: l) := by
    have : Matches (Re.seq Spec.digits (Re.opt (Re.seq (Re.c 46) (Re.star (Re.chr isDigit))))) ((d :: l) ++ []) :=
      Matches.seq h1 (Matches.altL Matches.eps)
    rw [List.append_nil] at this
    exact Matches.seq (s := []) (Matches.altL Matches.eps) (Matches.altL this)
  have h3 : Matches Spec.decimal ((d :: l) ++ []) := Matches.seq h2 (Matches.altL Matches.eps)
  rw [List.append_nil] at h3
  exact h3

theorem decimal_longest_digits (d : UInt8) (l : Bytes) (hd : isDigit d = true) (hl : l.all isDigit = true) :
    Spec.decimal.longest (d :: l) = some (l.length + 1) := by
  rw [Lemmas.Regex.longest_is_longest]
  refine ⟨Nat.le_refl _, ?_, ?_⟩
  · rw [show (d :: l).take (l.length + 1) = d :: l from List.take_of_length_le (Nat.le_refl _)]
    exact matches_decimal_digits d l hd hl
  · intro m h1 h2
    simp only [List.length_cons] at h2
    omega

/-- the specification reads a digit string as one DECIMAL_NUMERIC_PROGRAM_DATA item covering all of it -/
theorem digits_specData (d : UInt8) (l : Bytes) (hd : isDigit d = true) (hl : l.all isDigit = true) :
    Spec.specData (d :: l) = .item (l.length + 1) .decimal 0 (l.length + 1) ∧ Spec.wsLen (d :: l) = 0 := by
  obtain ⟨c35, calpha, cws⟩ := digit_classes d hd
  have n1 : Spec.hexnum.longest (d :: l) = none := longest_none_of_first _ _ d l c35
  have n2 : Spec.octnum.longest (d :: l) = none := longest_none_of_first _ _ d l c35
  have n3 : Spec.binnum.longest (d :: l) = none := longest_none_of_first _ _ d l c35
  have n4 : Spec.mnemonic.longest (d :: l) = none := longest_none_of_first _ _ d l calpha
  have n5 : Spec.wsRe.longest (d :: l) = none := longest_none_of_first _ _ d l cws
  have n6 := decimal_longest_digits d l hd hl
  have hdrop : (d :: l).drop (l.length + 1) = [] := List.drop_of_length_le (Nat.le_refl _)
  have hws0 : Spec.wsLen ([] : Bytes) = 0 := by decide
  have hsuf : Spec.suffix.longest ([] : Bytes) = some 0 := by decide
  refine ⟨?_, ?_⟩
  · unfold Spec.specData
    simp only [Spec.specToken, n1, n2, n3, n4, n6, Option.orElse, hdrop, hws0, Nat.add_zero, hsuf,
      show l.length + 1 > 0 from Nat.succ_pos _, if_true, gt_iff_lt, Nat.lt_irrefl, if_false]
  · unfold Spec.wsLen
    simp only [Spec.specToken, n5, Option.map_none, Option.getD_none]

/-! ### SCPI_ParamInt32 on a digit string -/

/-- The program data of the unit is the digit string `ds` (nothing else, no white space), it denotes `v`, `v` fits
int32_t, and the byte behind the program data (message terminator, ';', NUL …) is not a further digit.  Then
SCPI_ParamInt32(context, &v, TRUE) succeeds with `v`, and no program data is left. -/
theorem paramInt_digits (c : Ctx) (ds : Bytes) (v : Int) (hne : ds ≠ []) (hdig : ds.all isDigit = true)
    (hv : Spec.Params.intLiteral ds = some v) (hr : -(2^31 : Int) ≤ v ∧ v < 2^31)
    (hcnt : c.inputCount = 0) (hpos : c.ppos = c.pbase) (hlen : c.plen = ds.length)
    (hwin : (c.buf.drop c.pbase).take c.plen = ds) (hw : c.pbase + c.plen ≤ c.buf.length)
    (hnext : ∀ b, (c.buf.drop (c.pbase + c.plen)).head? = some b → ¬ (48 ≤ b ∧ b ≤ 57)) :
    (paramInt c 32 true true).2.1 = true ∧ (paramInt c 32 true true).2.2 = v ∧
    ¬ (paramInt c 32 true true).1.ppos < (paramInt c 32 true true).1.pbase + (paramInt c 32 true true).1.plen := by
  obtain ⟨d, l, rfl⟩ : ∃ d l, ds = d :: l := by
    cases ds with
    | nil => exact absurd rfl hne
    | cons d l => exact ⟨d, l, rfl⟩
  simp only [List.all_cons, Bool.and_eq_true] at hdig
  obtain ⟨sd, sw⟩ := digits_specData d l hdig.1 hdig.2
  have hlen' : c.plen = l.length + 1 := by simpa using hlen
  have hat : ¬ atEnd c := by unfold atEnd; omega
  have key := Lemmas.Params.parameter_delivers_next_item c true hat hw (by omega)
  have hbuf : (parameter c true).1.buf = c.buf := (Lemmas.Bounds.core_proj (Lemmas.Bounds.core_parameter c true)).1
  have hfr := parameter_ok_frame c true
  dsimp only at key
  rw [hwin, hcnt, hpos, Nat.sub_self] at key
  have hdrop : (d :: l).drop (l.length + 1) = [] := List.drop_of_length_le (Nat.le_refl _)
  have hws0 : Spec.wsLen ([] : Bytes) = 0 := by decide
  simp only [ne_eq, not_true_eq_false, false_and, if_false, List.drop_zero, sw, Nat.add_zero, sd, hdrop, hws0,
    Nat.zero_add] at key
  unfold paramInt
  generalize parameter c true = x at key hbuf hfr ⊢
  obtain ⟨c1, ok, tok⟩ := x
  dsimp only at key hbuf hfr ⊢
  obtain ⟨kok, ktok, kppos, _⟩ := key
  subst kok
  obtain ⟨_, _, _, _, _, fpb, fpl⟩ := hfr rfl
  have hnum : isNumber tok false = true := by rw [ktok]; rfl
  have hstr : Prim.strtolTo 32 c1.buf tok.ptr 10 = (l.length + 1, v) := by
    rw [hbuf, ktok]
    have := Lemmas.Numeric.integer_exact_signed 32 (Or.inl rfl) c.buf c.pbase (d :: l) v hv
      (by rw [← hlen]; exact hwin) (by rw [← hlen]; exact hnext) hr
    simpa using this
  have hp2i : paramToInt c1 tok 32 true = (true, v) := by
    have hs' : Prim.strtolTo 32 c1.buf c.pbase 10 = (l.length + 1, v) := by rw [ktok] at hstr; exact hstr
    unfold paramToInt
    rw [ktok]
    simp only [↓reduceIte, hs']
    simp
  simp only [Bool.not_true, Bool.false_eq_true, if_false, hnum, if_true, hp2i]
  refine ⟨trivial, trivial, ?_⟩
  rw [kppos, fpb, fpl, hlen']
  omega

/-- the same for the context in which the library's handlers run: the unit loop has set the parameter window
(`ppos = pbase`), `processCommand` resets the parameter count -/
theorem unitStart_paramInt_digits (c : Ctx) (cmd : Cmd) (ds : Bytes) (v : Int) (hne : ds ≠ []) (hdig : ds.all isDigit = true)
    (hv : Spec.Params.intLiteral ds = some v) (hr : -(2^31 : Int) ≤ v ∧ v < 2^31)
    (hpos : c.ppos = c.pbase) (hlen : c.plen = ds.length)
    (hwin : (c.buf.drop c.pbase).take c.plen = ds) (hw : c.pbase + c.plen ≤ c.buf.length)
    (hnext : ∀ b, (c.buf.drop (c.pbase + c.plen)).head? = some b → ¬ (48 ≤ b ∧ b ≤ 57)) :
    ∃ cP, paramInt (unitStart c cmd) 32 true true = (cP, true, v) ∧ ¬ cP.ppos < cP.pbase + cP.plen := by
  have h := paramInt_digits (unitStart c cmd) ds v hne hdig hv hr rfl hpos hlen hwin hw hnext
  refine ⟨(paramInt (unitStart c cmd) 32 true true).1, ?_, h.2.2⟩
  have e : paramInt (unitStart c cmd) 32 true true =
      ((paramInt (unitStart c cmd) 32 true true).1, (paramInt (unitStart c cmd) 32 true true).2.1,
        (paramInt (unitStart c cmd) 32 true true).2.2) := rfl
  exact e.trans (by rw [h.1, h.2.1])

end ScpiVerif.Lemmas.Instrument
