/-
The run of `matchCommand` after the query check, on a rendered pattern and a header body
(C03 proof): the result is the list-level walker on the mnemonics the model sees.
-/
import ScpiVerif.Lemmas.MatchSpec

namespace ScpiVerif.Lemmas.Match
open ScpiVerif ScpiVerif.Match ScpiVerif.Spec.Pattern
open ScpiVerif.Lexer (Bytes isDigit isLower isUpper isAlpha)

/-- the header alphabet of the lexer: letters, digits, '_', ':', '?', '*' -/
def hdrAlpha (b : UInt8) : Bool := isKwChar b || b == 58 || b == 63 || b == 42

def HdrByte (b : UInt8) : Prop := b ≠ 0 ∧ (isDigit b = false → nonNumStart b = true)

theorem hdrByte_of_alpha (b : UInt8) (h : hdrAlpha b = true) : HdrByte b := by
  revert h
  apply forall_byte (fun b => hdrAlpha b = true → HdrByte b)
  unfold HdrByte
  set_option maxRecDepth 100000 in decide

/-- the main loop on the pieces of a header text `X` found at offset `cp0` -/
theorem run_pieces (pat : Bytes) (k : Kw) (ks : List Kw) (hkws : ∀ k' ∈ k :: ks, KwW k')
    (qt : Bytes) (hq : qt = [] ∨ qt = [63]) (pp0 : Nat) (hdrop : pat.drop pp0 = kwText k ks ++ qt)
    (pl : Int) (hpl : pl = ((kwText k ks).length : Int)) (hn : Bool) (d : Int) (nums : List Int)
    (hdr X ct : Bytes) (cp0 : Nat) (hX : hdr.drop cp0 = X ++ ct) (hct : ct = [] ∨ ct = [63])
    (hbytes : ∀ b ∈ X, HdrByte b) (fuel : Nat) (hfuel : ks.length < fuel)
    (hsmall : hn = true → ∀ sol, greedy (k :: ks) (splitColon X) = some sol → ∀ o ∈ sol, ∀ v, o = some v → v < 2^31) :
    Good hn d (mainLoop pat hdr hn d fuel ⟨pp0, pl, cp0, X.length, brOf k, nums, 0, false⟩)
      (k :: ks) (splitColon X) nums 0 false := by
  obtain ⟨m, ms, h1, h2, h3⟩ := splitColon_spec X
  have hmn : ∀ x ∈ m :: ms, MnOK x := by
    intro x hx b hb
    have hbX : b ∈ X := by rw [h2]; exact mem_hdr_of_mem_piece m ms x hx b hb
    have := hbytes b hbX
    refine ⟨this.1, ?_, this.2⟩
    intro h58; subst h58; exact h3 x hx hb
  rw [h1] at hsmall ⊢
  exact mainLoop_spec pat qt hdr ct hq hct hn d ks k fuel hfuel (hkws k (by simp))
    (fun k' hk' => hkws k' (by simp [hk'])) m ms hmn pp0 pl cp0 X.length nums 0 false hdrop hpl
    (by rw [hX, h2]) (by rw [h2]) hsmall

/-- the part of `matchCommand` after the query check and the pattern prelude -/
theorem model_run (pat : Bytes) (k : Kw) (ks : List Kw) (hkws : ∀ k' ∈ k :: ks, KwW k')
    (qt : Bytes) (hq : qt = [] ∨ qt = [63]) (pp0 : Nat) (hdrop : pat.drop pp0 = kwText k ks ++ qt)
    (pl : Int) (hpl : pl = ((kwText k ks).length : Int)) (hn : Bool) (d : Int) (nums : List Int)
    (hdr body ct : Bytes) (hhdr : hdr = body ++ ct) (hct : ct = [] ∨ ct = [63])
    (hbytes : ∀ b ∈ body, HdrByte b) (fuel : Nat) (hfuel : ks.length < fuel)
    (hsmall : hn = true → ∀ sol, modelGreedy (k :: ks) body = some sol → ∀ o ∈ sol, ∀ v, o = some v → v < 2^31) :
    ∃ E : Bool × List Int × Bool,
      runStage pat hdr hn d fuel nums false
        (cmdPrelude hdr ⟨pp0, pl, 0, body.length, brOf k, nums, 0, false⟩) = E ∧
      E.1 = (modelGreedy (k :: ks) body).isSome ∧ E.2.2 = false ∧
      ∀ sol, modelGreedy (k :: ks) body = some sol → E.2.1 = if hn then fill nums 0 (want sol d) else nums := by
  by_cases hstrip : body.headD 0 = 58 ∧ 2 ≤ body.length
  · -- ':' followed by something
    obtain ⟨b, rest, hb⟩ : ∃ b rest, body = 58 :: b :: rest := by
      match body, hstrip with
      | [], h => simp at h
      | [_], h => simp at h
      | a :: b :: rest, h => exact ⟨b, rest, by simp at h; rw [h]⟩
    by_cases hb42 : b = 42
    · subst hb42
      rw [cmdPrelude_star hdr body ct rest hhdr hb]
      refine ⟨_, rfl, ?_, rfl, ?_⟩
      · simp [modelGreedy, hb, runStage]
      · intro sol hsol; simp [modelGreedy, hb] at hsol
    · rw [cmdPrelude_strip hdr body ct rest b hhdr hb hb42]
      have hmg : modelGreedy (k :: ks) body = greedy (k :: ks) (splitColon (b :: rest)) := by
        simp [modelGreedy, hb, hb42]
      rw [hmg] at hsmall ⊢
      have hX : hdr.drop 1 = (b :: rest) ++ ct := by rw [hhdr, hb]; simp
      have hlen : body.length - 1 = (b :: rest).length := by rw [hb]; simp
      rw [hlen]
      have := run_pieces pat k ks hkws qt hq pp0 hdrop pl hpl hn d nums hdr (b :: rest) ct 1 hX hct
        (fun x hx => hbytes x (by rw [hb]; exact List.mem_cons_of_mem _ hx)) fuel hfuel hsmall
      exact ⟨_, rfl, this.1, this.2.1, this.2.2⟩
  · have hns : body = [] ∨ body = [58] ∨ body.headD 0 ≠ 58 := by
      by_cases h58 : body.headD 0 = 58
      · match body, h58, hstrip with
        | [], h, _ => simp at h
        | [a], h, _ => simp at h; subst h; simp
        | a :: b :: rest, h, hs => simp at h; subst h; simp at hs
      · exact Or.inr (Or.inr h58)
    rw [cmdPrelude_nostrip hdr body ct hhdr hct hns]
    have hmg : modelGreedy (k :: ks) body = greedy (k :: ks) (splitColon body) := by
      unfold modelGreedy; rw [if_neg hstrip]
    rw [hmg] at hsmall ⊢
    have hX : hdr.drop 0 = body ++ ct := by simp [hhdr]
    have := run_pieces pat k ks hkws qt hq pp0 hdrop pl hpl hn d nums hdr body ct 0 hX hct hbytes fuel hfuel hsmall
    exact ⟨_, rfl, this.1, this.2.1, this.2.2⟩

end ScpiVerif.Lemmas.Match
