/-
C08 helper lemmas, part 0: streams with quoted strings.  `QuotesLineLocal` (Spec/Chunking.lean: no word of the
string language that starts directly after a blank or a comma contains a line terminator) is closed under taking
factors, is implied by `NoQuotes`, is decidable, and makes the string token at a program-data position
prefix-stable: with a line terminator at index `i` of `s`, the string token of `s ++ y` and of `s` are the same
(`specToken_string_stable`, the replacement of `specToken_string_none` of the quote-free development).
-/
import ScpiVerif.Spec.Chunking
import ScpiVerif.Spec.Unit
import ScpiVerif.Lemmas.Regex
import ScpiVerif.Lemmas.Params

namespace ScpiVerif.Lemmas.Chunking
open ScpiVerif ScpiVerif.Lexer ScpiVerif.Spec ScpiVerif.Props.C08

/-! ## positions after a blank or a comma -/

theorem SepBefore.of_drop {s : Bytes} {k p : Nat} (h : SepBefore (s.drop k) p) : SepBefore s (k + p) := by
  obtain ⟨h0, b, hb, hs⟩ := h
  refine ⟨by omega, b, ?_, hs⟩
  rw [List.getElem?_drop] at hb
  rw [show k + p - 1 = k + (p - 1) by omega]
  exact hb

theorem SepBefore.of_take {s : Bytes} {m p : Nat} (h : SepBefore (s.take m) p) : SepBefore s p := by
  obtain ⟨h0, b, hb, hs⟩ := h
  refine ⟨h0, b, ?_, hs⟩
  rw [List.getElem?_take] at hb
  split at hb
  · exact hb
  · cases hb

theorem SepBefore.append {s : Bytes} {p : Nat} (h : SepBefore s p) (y : Bytes) : SepBefore (s ++ y) p := by
  obtain ⟨h0, b, hb, hs⟩ := h
  refine ⟨h0, b, ?_, hs⟩
  have hl : p - 1 < s.length := by
    apply Classical.byContradiction
    intro hn
    rw [List.getElem?_eq_none (by omega)] at hb
    cases hb
  rw [List.getElem?_append_left hl]
  exact hb

theorem SepBefore.of_get {s : Bytes} {j : Nat} {b : UInt8} (h : s[j]? = some b) (hb : isSep b = true) :
    SepBefore s (j + 1) :=
  ⟨Nat.succ_pos _, b, h, hb⟩

/-! ## `QuotesLineLocal` is closed under taking factors -/

theorem qll_drop {s : Bytes} (h : QuotesLineLocal s) (k : Nat) : QuotesLineLocal (s.drop k) := by
  intro p n q hq hp hacc
  rw [List.drop_drop] at hacc ⊢
  exact h (k + p) n q hq (SepBefore.of_drop hp) hacc

theorem take_drop_take (s : Bytes) (m p n : Nat) : ((s.take m).drop p).take n = (s.drop p).take (min n (m - p)) := by
  rw [List.drop_take, List.take_take]

theorem qll_take {s : Bytes} (h : QuotesLineLocal s) (m : Nat) : QuotesLineLocal (s.take m) := by
  intro p n q hq hp hacc
  rw [take_drop_take] at hacc ⊢
  exact h p _ q hq (SepBefore.of_take hp) hacc

theorem qll_left {s y : Bytes} (h : QuotesLineLocal (s ++ y)) : QuotesLineLocal s := by
  have := qll_take h s.length
  rwa [List.take_left'] at this
  rfl

theorem qll_right {s y : Bytes} (h : QuotesLineLocal (s ++ y)) : QuotesLineLocal y := by
  have := qll_drop h s.length
  rwa [List.drop_left'] at this
  rfl

/-! ## implied by `NoQuotes` -/

theorem seq_empty_accepts (r : Re) (u : Bytes) : (Re.seq .empty r).accepts u = false := by
  induction u with
  | nil => rfl
  | cons b t ih => exact ih

/-- a word of the string language starts with the quote -/
theorem quoted_accepts_head {q : UInt8} {u : Bytes} (h : (quoted q).accepts u = true) : u.head? = some q := by
  cases u with
  | nil => simp [quoted, Re.accepts, Re.nullable, Re.c] at h
  | cons b t =>
    by_cases hb : b = q
    · rw [hb]; rfl
    · exfalso
      have hbq : (b == q) = false := by simpa using hb
      have : (quoted q).accepts (b :: t) = (Re.seq .empty (Re.seq (Re.star (Re.alt (Re.chr (fun b => isAscii7 b && b != q)) (Re.seq (Re.c q) (Re.c q)))) (Re.c q))).accepts t := by
        simp [quoted, Re.accepts, Re.deriv, Re.c, Re.nullable, hbq]
      rw [this, seq_empty_accepts] at h
      cases h

theorem noQuotes_qll {s : Bytes} (h : NoQuotes s) : QuotesLineLocal s := by
  intro p n q hq _ hacc
  exfalso
  have hh := quoted_accepts_head hacc
  have hm : q ∈ (s.drop p).take n := by
    cases hu : (s.drop p).take n with
    | nil => rw [hu] at hh; cases hh
    | cons b t => rw [hu] at hh; simp at hh; rw [hh]; simp
  have hs : q ∈ s := List.mem_of_mem_drop (List.mem_of_mem_take hm)
  rcases hq with hq | hq
  · exact (h q hs).1 hq
  · exact (h q hs).2 hq

/-! ## decidable -/

theorem sepBeforeB_iff (s : Bytes) (p : Nat) : sepBeforeB s p = true ↔ SepBefore s p := by
  unfold sepBeforeB SepBefore
  rw [Bool.and_eq_true, decide_eq_true_iff]
  constructor
  · rintro ⟨h0, h1⟩
    refine ⟨h0, ?_⟩
    cases hb : s[p - 1]? with
    | none => rw [hb] at h1; cases h1
    | some b => rw [hb] at h1; exact ⟨b, rfl, h1⟩
  · rintro ⟨h0, b, hb, hs⟩
    refine ⟨h0, ?_⟩
    rw [hb]; exact hs

theorem quotesLineLocalB_iff (s : Bytes) : quotesLineLocalB s = true ↔ QuotesLineLocal s := by
  unfold quotesLineLocalB
  constructor
  · intro h p n q hq hp hacc
    rw [List.all_eq_true] at h
    have hpl : p < s.length + 1 := by
      obtain ⟨h0, b, hb, _⟩ := hp
      have : p - 1 < s.length := by
        apply Classical.byContradiction
        intro hn
        rw [List.getElem?_eq_none (by omega)] at hb
        cases hb
      omega
    have h1 := h p (List.mem_range.2 hpl)
    rw [Bool.or_eq_true] at h1
    rcases h1 with h1 | h1
    · rw [(sepBeforeB_iff s p).2 hp] at h1; cases h1
    · rw [List.all_eq_true] at h1
      -- `take n` beyond the length is `take length`
      have hn : (s.drop p).take n = (s.drop p).take (min n s.length) := by
        by_cases hle : n ≤ s.length
        · rw [Nat.min_eq_left hle]
        · rw [Nat.min_eq_right (by omega), List.take_of_length_le (by rw [List.length_drop]; omega),
            List.take_of_length_le (by rw [List.length_drop]; omega)]
      rw [hn] at hacc ⊢
      have h2 := h1 (min n s.length) (List.mem_range.2 (by omega))
      rw [List.all_eq_true] at h2
      have h3 := h2 q (by rcases hq with hq | hq <;> simp [hq])
      rw [Bool.or_eq_true] at h3
      rcases h3 with h3 | h3
      · rw [hacc] at h3; cases h3
      · rw [List.all_eq_true] at h3
        intro b hb
        have := h3 b hb
        simpa using this
  · intro h
    rw [List.all_eq_true]
    intro p _
    rw [Bool.or_eq_true]
    by_cases hp : sepBeforeB s p = true
    · right
      rw [List.all_eq_true]
      intro n _
      rw [List.all_eq_true]
      intro q hq
      rw [Bool.or_eq_true]
      by_cases hacc : (quoted q).accepts ((s.drop p).take n) = true
      · right
        rw [List.all_eq_true]
        intro b hb
        have := h p n q (by simpa using hq) ((sepBeforeB_iff s p).1 hp) hacc b hb
        simpa using this
      · left; simpa using hacc
    · left; simpa using hp

instance (s : Bytes) : Decidable (QuotesLineLocal s) := decidable_of_iff _ (quotesLineLocalB_iff s)

/-! ## the string token at a program-data position -/

/-- what `QuotesLineLocal` says about a position after a blank or a comma, seen from that position -/
def StrOK (w : Bytes) : Prop :=
  ∀ n q, (q = 34 ∨ q = 39) → (quoted q).accepts (w.take n) = true → ∀ b ∈ w.take n, b ≠ 10 ∧ b ≠ 13

theorem qll_strOK {s : Bytes} (h : QuotesLineLocal s) {p : Nat} (hp : SepBefore s p) : StrOK (s.drop p) :=
  fun n q hq hacc => h p n q hq hp hacc

theorem filter_range_cut (P : Nat → Bool) (m : Nat) : ∀ a, m ≤ a → (∀ n, m ≤ n → n < a → P n = false) →
    (List.range a).filter P = (List.range m).filter P := by
  intro a
  induction a with
  | zero => intro hm _; rw [Nat.le_zero.1 hm]
  | succ a ih =>
    intro hm hP
    by_cases he : m = a + 1
    · rw [he]
    · rw [List.range_succ, List.filter_append, ih (by omega) (fun n h1 h2 => hP n h1 (by omega))]
      have : [a].filter P = [] := by
        rw [List.filter_cons, hP a (by omega) (by omega)]
        rfl
      rw [this, List.append_nil]

theorem mem_take_idx {s : Bytes} {i m : Nat} {b : UInt8} (h : s[i]? = some b) (hm : i < m) : b ∈ s.take m := by
  rw [List.mem_iff_getElem?]
  exact ⟨i, by rw [List.getElem?_take, if_pos hm]; exact h⟩

/-- a line terminator at index `i` of `s`: the string token of `s ++ y` is the string token of `s` -/
theorem longestString_stable (q : UInt8) (hq : q = 34 ∨ q = 39) (s y : Bytes) (i : Nat)
    (hi : s[i]? = some 10 ∨ s[i]? = some 13) (h : StrOK (s ++ y)) :
    longestString q (s ++ y) = longestString q s := by
  have hil : i < s.length := by
    apply Classical.byContradiction
    intro hn
    rw [List.getElem?_eq_none (by omega)] at hi
    rcases hi with hi | hi <;> cases hi
  have hi' : (s ++ y)[i]? = some 10 ∨ (s ++ y)[i]? = some 13 := by
    rw [List.getElem?_append_left hil]; exact hi
  -- no word of the string language in `s ++ y` reaches over the line terminator
  have kill : ∀ n, i < n → (quoted q).accepts ((s ++ y).take n) = false := by
    intro n hn
    cases hacc : (quoted q).accepts ((s ++ y).take n) with
    | false => rfl
    | true =>
      exfalso
      rcases hi' with h10 | h13
      · exact (h n q hq hacc 10 (mem_take_idx h10 hn)).1 rfl
      · exact (h n q hq hacc 13 (mem_take_idx h13 hn)).2 rfl
  have e1 : (List.range ((s ++ y).length + 1)).filter (fun n => (quoted q).accepts ((s ++ y).take n) && (s ++ y)[n]? != some q) =
      (List.range (i + 1)).filter (fun n => (quoted q).accepts ((s ++ y).take n) && (s ++ y)[n]? != some q) := by
    apply filter_range_cut _ _ _ (by rw [List.length_append]; omega)
    intro n h1 _
    rw [kill n (by omega)]; rfl
  have e2 : (List.range (s.length + 1)).filter (fun n => (quoted q).accepts (s.take n) && s[n]? != some q) =
      (List.range (i + 1)).filter (fun n => (quoted q).accepts (s.take n) && s[n]? != some q) := by
    apply filter_range_cut _ _ _ (by omega)
    intro n h1 h2
    have := kill n (by omega)
    rw [List.take_append_of_le_length (by omega)] at this
    rw [this]; rfl
  have e3 : (List.range (i + 1)).filter (fun n => (quoted q).accepts ((s ++ y).take n) && (s ++ y)[n]? != some q) =
      (List.range (i + 1)).filter (fun n => (quoted q).accepts (s.take n) && s[n]? != some q) := by
    apply List.filter_congr
    intro n hn
    have hn' : n < i + 1 := List.mem_range.1 hn
    rw [List.take_append_of_le_length (by omega), List.getElem?_append_left (by omega)]
  unfold longestString
  simp only []
  rw [e1, e2, e3]

theorem specToken_string_stable (s y : Bytes) (i : Nat) (hi : s[i]? = some 10 ∨ s[i]? = some 13) (h : StrOK (s ++ y)) :
    specToken .string (s ++ y) = specToken .string s := by
  simp only [specToken, longestString_stable 34 (Or.inl rfl) s y i hi h, longestString_stable 39 (Or.inr rfl) s y i hi h]

/-! ## a run of blanks ends in a blank -/

theorem reAll_ws : Params.reAll (fun b => isWs b = true) wsRe := by
  simp only [wsRe, Re.plus, Params.reAll]
  exact ⟨fun b h => h, fun b h => h⟩

theorem wsLen_last {s : Bytes} (h : 0 < wsLen s) : ∃ b, s[wsLen s - 1]? = some b ∧ isSep b = true := by
  unfold wsLen at h ⊢
  cases ht : specToken .ws s with
  | none => rw [ht] at h; simp at h
  | some e =>
    rw [ht] at h
    simp only [Option.map_some, Option.getD_some] at h ⊢
    simp only [specToken] at ht
    cases hl : wsRe.longest s with
    | none => rw [hl] at ht; cases ht
    | some n =>
      rw [hl] at ht
      dsimp only at ht
      split at ht
      · cases ht
        dsimp only at h ⊢
        obtain ⟨h1, h2, _⟩ := (Regex.longest_is_longest wsRe s n).1 hl
        have hlt : n - 1 < s.length := by omega
        refine ⟨s[n - 1], List.getElem?_eq_getElem hlt, ?_⟩
        have hm : s[n - 1] ∈ s.take n := mem_take_idx (List.getElem?_eq_getElem hlt) (by omega)
        have := Params.matches_all h2 reAll_ws _ hm
        unfold isSep
        rw [this]; rfl
      · cases ht

end ScpiVerif.Lemmas.Chunking
