/-
Lemmas for C19 (numeric and channel lists): the expression walkers of Model/Expr.lean against the
list grammar of Spec/ExprList.lean.  Everything is stated over suffixes `win.drop pos`; the decimal
recogniser is used through its closed form `decimalTotal` (Lemmas/Lexer.lean).
-/
import ScpiVerif.Model.Expr
import ScpiVerif.Spec.ExprList
import ScpiVerif.Lemmas.Lexer

namespace ScpiVerif.Lemmas.ExprList
open ScpiVerif ScpiVerif.Lexer ScpiVerif.Expr ScpiVerif.Spec ScpiVerif.Spec.ExprList
open ScpiVerif.Lemmas.Lexer

/-- same as `Props.C19.tokText` -/
def tokText (body : Bytes) (t : Token) : Bytes := (body.drop t.ptr).take t.len.toNat
/-- same as `Props.C19.litInt32` -/
def litInt32 (t : Bytes) : Int := (Prim.strtolTo 32 t 0 10).2

/-- length of the decimal literal at the start of `s` (0: none) -/
abbrev D (s : Bytes) : Nat := decimalTotal s

/-! ## the decimal literal -/

theorem numLen_eq (s : Bytes) : numLen s = if 0 < D s then some (D s) else none := by
  unfold numLen
  have e : specToken .decimal s = plainSpec Spec.decimal .decimal s := rfl
  rw [e]
  by_cases hn : 0 < D s
  · rw [if_pos hn, plainSpec_some hn (decimal_total_mem hn) (fun m hm => decimal_total_max hm)]
    rfl
  · rw [if_neg hn, plainSpec_none (fun m hm hP => by have := decimal_total_max hP; unfold D at hn; omega)]
    rfl

theorem D_le (s : Bytes) : D s ≤ s.length := by
  by_cases hn : 0 < D s
  · exact PM_le (decimal_total_mem hn)
  · omega

/-- sign length -/
def sgn (s : Bytes) : Nat := if hd s isPlusMn = true then 1 else 0

/-- a literal contains its sign and the digits after it, and does not start with white space -/
theorem D_pos_facts {s : Bytes} (h : 0 < D s) :
    sgn s + tw isDigit (s.drop (sgn s)) ≤ D s ∧ hd s (fun b => isPlusMn b || isDigit b || b == 46) = true := by
  unfold D decimalTotal at h ⊢
  by_cases hn : (decimalMant s).2 ≠ 0
  · rw [if_pos hn] at h ⊢
    have h1 : sgn s + tw isDigit (s.drop (sgn s)) ≤ (decimalMant s).1 := by
      unfold decimalMant sgn
      generalize (if hd s isPlusMn = true then 1 else 0) = sg
      dsimp only
      split <;> simp only <;> omega
    refine ⟨by split <;> omega, ?_⟩
    unfold decimalMant at hn
    by_cases hs : hd s isPlusMn = true
    · exact hd_imp (p := isPlusMn) (by intro b hb; simp [hb]) hs
    · simp only [hs] at hn
      by_cases hd1 : 0 < tw isDigit s
      · exact hd_imp (p := isDigit) (by intro b hb; simp [hb]) (tw_pos_iff.1 hd1)
      · have hd0 : tw isDigit s = 0 := by omega
        simp only [Bool.false_eq_true, if_false, List.drop_zero, hd0, Nat.zero_add] at hn
        by_cases hdot : hd s (· == 46) = true
        · exact hd_imp (p := (· == 46)) (by intro b hb; simp at hb; simp [hb]) hdot
        · simp [hdot] at hn
  · rw [if_neg hn] at h; omega

/-! ## strtol on the token inside the window = strtol on the isolated text -/

def digVal (ds : Bytes) (acc : Nat) : Nat := ds.foldl (fun a b => a * 10 + (b.toNat - 48)) acc

theorem rd_drop (mem : Bytes) (i : Nat) : Prim.rd mem i = ((mem.drop i).head?).getD 0 := by
  unfold Prim.rd
  rw [List.head?_drop]
  simp [List.getD_eq_getElem?_getD]

theorem digitVal_digit {b : UInt8} (h : isDigit b = true) : Prim.digitVal b = some (b.toNat - 48) := by
  unfold isDigit at h
  unfold Prim.digitVal
  simp only [Bool.and_eq_true, decide_eq_true_eq] at h
  rw [if_pos h]

theorem digitVal_nondigit {b : UInt8} (h : isDigit b = false) :
    ∀ d, Prim.digitVal b = some d → ¬ d < 10 := by
  intro d hd
  unfold Prim.digitVal at hd
  unfold isDigit at h
  split at hd
  · rename_i h'; simp [h'.1, h'.2] at h
  · split at hd
    · cases hd; omega
    · split at hd
      · cases hd; omega
      · cases hd

theorem digitsOfBase_eq (mem : Bytes) (s : Bytes) : ∀ (f i acc : Nat), mem.drop i = s → tw isDigit s < f →
    Prim.digitsOfBase mem 10 f i acc = (i + tw isDigit s, digVal (s.takeWhile isDigit) acc) := by
  induction s with
  | nil =>
    intro f i acc hs hf
    cases f with
    | zero => simp at hf
    | succ f =>
      have : Prim.rd mem i = 0 := by rw [rd_drop, hs]; rfl
      unfold Prim.digitsOfBase
      rw [this]
      simp [Prim.digitVal, digVal]
  | cons b t ih =>
    intro f i acc hs hf
    have hrd : Prim.rd mem i = b := by rw [rd_drop, hs]; rfl
    have ht : mem.drop (i + 1) = t := by
      rw [drop_add, hs]; rfl
    cases f with
    | zero => omega
    | succ f =>
      unfold Prim.digitsOfBase
      rw [hrd, tw_cons, List.takeWhile_cons]
      by_cases hb : isDigit b = true
      · rw [tw_cons, if_pos hb] at hf
        rw [digitVal_digit hb, if_pos hb]
        have hlt : b.toNat - 48 < 10 := by
          unfold isDigit at hb
          simp only [Bool.and_eq_true, decide_eq_true_eq] at hb
          have := hb.2
          have : b.toNat ≤ 57 := by simpa using UInt8.le_iff_toNat_le.1 this
          omega
        simp only [hlt, if_true]
        rw [ih f (i + 1) _ ht (by omega)]
        simp only [hb, if_true, digVal, List.foldl_cons]
        refine Prod.ext ?_ rfl
        simp only; omega
      · have hb' : isDigit b = false := by simpa using hb
        rw [if_neg hb]
        simp only [hb', Bool.false_eq_true, if_false, digVal, List.foldl_nil, Nat.add_zero]
        cases hdv : Prim.digitVal b with
        | none => rfl
        | some d =>
          have := digitVal_nondigit hb' d hdv
          simp [this]

/-- the integer syntax read from a suffix that does not start with white space -/
def synL (s : Bytes) : Nat × Bool × Nat :=
  let ds := (s.drop (sgn s)).takeWhile isDigit
  if ds.length = 0 then (0, false, 0) else (sgn s + ds.length, hd s (· == 45), digVal ds 0)

theorem isSpace_false_of {b : UInt8} (h : (isPlusMn b || isDigit b || b == 46) = true) : Prim.isSpace b = false := by
  simp [isPlusMn, isDigit, Prim.isSpace] at *; grind

theorem strto_fin (off sg : Nat) (neg : Bool) (ds : Bytes) :
    (if (off + sg + ds.length == off + sg) = true then ((0 : Nat), false, (0 : Nat))
      else (off + sg + ds.length - off, neg, digVal ds 0)) =
    if ds.length = 0 then (0, false, 0) else (sg + ds.length, neg, digVal ds 0) := by
  by_cases hz : ds.length = 0
  · simp [hz]
  · have : (off + sg + ds.length == off + sg) = false := by
      rw [beq_eq_false_iff_ne]; omega
    simp only [this, Bool.false_eq_true, if_false, hz]
    refine Prod.ext ?_ rfl
    simp only; omega

theorem strtoSyntax_eq (mem : Bytes) (off : Nat) (h : hd (mem.drop off) (fun b => isPlusMn b || isDigit b || b == 46) = true) :
    Prim.strtoSyntax mem off 10 = synL (mem.drop off) := by
  obtain ⟨b, hb, hs⟩ := hd_cons_drop h
  have hrd : Prim.rd mem off = b := by rw [rd_drop, hs]; rfl
  have hsp : Prim.skipSpaces mem (mem.length - off + 1) off = off := by
    unfold Prim.skipSpaces
    rw [hrd, isSpace_false_of hb]; simp
  have hsign : (if Prim.rd mem off == 45 then (true, off + 1) else if Prim.rd mem off == 43 then (false, off + 1) else (false, off))
      = (hd (mem.drop off) (· == 45), off + sgn (mem.drop off)) := by
    rw [hrd, hs]
    unfold sgn isPlusMn
    simp only [hd_cons]
    by_cases h45 : (b == 45) = true
    · simp [h45]
    · have h45' : (b == 45) = false := by simpa using h45
      by_cases h43 : (b == 43) = true
      · simp [h45', h43]
      · have h43' : (b == 43) = false := by simpa using h43
        simp [h45', h43']
  have hlen : sgn (mem.drop off) ≤ 1 := by unfold sgn; split <;> omega
  have hdig := digitsOfBase_eq mem ((mem.drop off).drop (sgn (mem.drop off))) (mem.length - (off + sgn (mem.drop off)) + 2)
    (off + sgn (mem.drop off)) 0 (drop_add _ _ _) (by
      have := tw_le_length isDigit ((mem.drop off).drop (sgn (mem.drop off)))
      simp only [List.length_drop] at this; omega)
  unfold Prim.strtoSyntax synL
  simp only [hsp]
  rw [hsign]
  have h16 : ((10 : Nat) == 16) = false := by decide
  simp only [h16, Bool.false_eq_true, false_and, if_false]
  rw [hdig]
  simp only [tw]
  exact strto_fin _ _ _ _

theorem hd_take {s : Bytes} {n : Nat} (p : UInt8 → Bool) (h : 0 < n) : hd (s.take n) p = hd s p := by
  cases s with
  | nil => simp
  | cons b t =>
    cases n with
    | zero => omega
    | succ n => simp

theorem takeWhile_take {p : UInt8 → Bool} {l : Bytes} {m : Nat} (h : tw p l ≤ m) :
    (l.take m).takeWhile p = l.takeWhile p := by
  induction l generalizing m with
  | nil => simp
  | cons b t ih =>
    rw [tw_cons] at h
    by_cases hb : p b = true
    · rw [if_pos hb] at h
      cases m with
      | zero => omega
      | succ m =>
        rw [List.take_succ_cons, List.takeWhile_cons, List.takeWhile_cons]
        simp only [hb, if_true]
        rw [ih (by omega)]
    · cases m with
      | zero => simp [hb]
      | succ m => simp [hb]

theorem synL_take {s : Bytes} {n : Nat} (h0 : 0 < n) (h : sgn s + tw isDigit (s.drop (sgn s)) ≤ n) :
    synL (s.take n) = synL s := by
  have hsg : sgn (s.take n) = sgn s := by unfold sgn; rw [hd_take _ h0]
  unfold synL
  rw [hsg, hd_take _ h0, List.drop_take, takeWhile_take (by omega)]

/-- the value of a decimal token read inside the window is the value of its isolated text -/
theorem tok_value (win : Bytes) (pos : Nat) (h : 0 < D (win.drop pos)) :
    (Prim.strtolTo 32 win pos 10).2 = litInt32 ((win.drop pos).take (D (win.drop pos))) := by
  obtain ⟨h1, h2⟩ := D_pos_facts h
  have e1 := strtoSyntax_eq win pos h2
  have e2 := strtoSyntax_eq ((win.drop pos).take (D (win.drop pos))) 0 (by
    rw [List.drop_zero, hd_take _ h]; exact h2)
  rw [List.drop_zero, synL_take h h1] at e2
  unfold litInt32 Prim.strtolTo
  rw [e1, e2]

/-! ## closed forms of the recognisers and of one numeric entry -/

theorem lexOneChar_eq (buf : Bytes) (pos : Nat) (ch : UInt8) (ty : TokType) :
    lexOneChar buf pos ch ty =
      if hd (buf.drop pos) (· == ch) = true then (pos + 1, ⟨ty, pos, 1⟩, 1) else (pos, ⟨.unknown, pos, 0⟩, 0) := by
  unfold lexOneChar; rw [peekP_eq]; rfl

theorem head_beq_iff (s : Bytes) (ch : UInt8) : (s.head? == some ch) = hd s (· == ch) := by
  cases s with
  | nil => rfl
  | cons b t => simp

theorem numEntry_eq (s : Bytes) : numEntry s =
    if 0 < D s then
      if hd (s.drop (D s)) (· == 58) = true then
        if 0 < D (s.drop (D s + 1)) then
          some (⟨s.take (D s), some ((s.drop (D s + 1)).take (D (s.drop (D s + 1))))⟩, D s + 1 + D (s.drop (D s + 1)))
        else none
      else some (⟨s.take (D s), none⟩, D s)
    else none := by
  unfold numEntry
  rw [numLen_eq]
  by_cases h : 0 < D s
  · simp only [h, if_true, head_beq_iff, numLen_eq]
    by_cases hc : hd (s.drop (D s)) (· == 58) = true
    · simp only [hc, if_true]
      by_cases h2 : 0 < D (s.drop (D s + 1))
      · simp only [h2, if_true]
      · simp only [h2, if_false]
    · simp only [hc, Bool.false_eq_true, if_false]
  · simp only [h, if_false]

theorem numericRange_eq (win : Bytes) (pos : Nat) : numericRange win pos =
    if 0 < D (win.drop pos) then
      if hd (win.drop (pos + D (win.drop pos))) (· == 58) = true then
        if 0 < D (win.drop (pos + D (win.drop pos) + 1)) then
          (pos + D (win.drop pos) + 1 + D (win.drop (pos + D (win.drop pos) + 1)), .ok, some true,
            ⟨.decimal, pos, D (win.drop pos)⟩,
            ⟨.decimal, pos + D (win.drop pos) + 1, D (win.drop (pos + D (win.drop pos) + 1))⟩)
        else (pos + D (win.drop pos) + 1, .error, some true, ⟨.decimal, pos, D (win.drop pos)⟩,
            ⟨.unknown, pos + D (win.drop pos) + 1, 0⟩)
      else (pos + D (win.drop pos), .ok, some false, ⟨.decimal, pos, D (win.drop pos)⟩,
            ⟨.unknown, pos + D (win.drop pos), 0⟩)
    else (pos, .noMore, none, ⟨.unknown, pos, 0⟩, ⟨.unknown, 0, 0⟩) := by
  unfold numericRange lexColon
  simp only [decimal_lexDecimal_eq, lexOneChar_eq]
  by_cases h : 0 < D (win.drop pos)
  · have h' : ((D (win.drop pos) : Int) != 0) = true := by simp; omega
    simp only [h, h', if_true]
    by_cases hc : hd (win.drop (pos + D (win.drop pos))) (· == 58) = true
    · simp only [hc, if_true]
      by_cases h2 : 0 < D (win.drop (pos + D (win.drop pos) + 1))
      · have h2' : ((D (win.drop (pos + D (win.drop pos) + 1)) : Int) != 0) = true := by simp; omega
        simp [h2, h2']
      · have h2' : D (win.drop (pos + D (win.drop pos) + 1)) = 0 := by omega
        simp [h2']
    · simp [hc]
  · have h' : D (win.drop pos) = 0 := by omega
    simp [h']

/-- `tok` is the decimal token of the literal `text` somewhere in `win` -/
def IsNum (win : Bytes) (tok : Token) (text : Bytes) : Prop :=
  ∃ p, tok = ⟨.decimal, p, (D (win.drop p) : Int)⟩ ∧ 0 < D (win.drop p) ∧ (win.drop p).take (D (win.drop p)) = text

theorem IsNum.text {win : Bytes} {tok : Token} {text : Bytes} (h : IsNum win tok text) :
    tokText win tok = text ∧ tokInt32 win tok = litInt32 text := by
  obtain ⟨p, rfl, h0, rfl⟩ := h
  refine ⟨?_, ?_⟩
  · unfold tokText; simp
  · unfold tokInt32; exact tok_value win p h0

theorem numericRange_some {win : Bytes} {pos : Nat} {e : Spec.ExprList.NumEntry} {n : Nat}
    (h : numEntry (win.drop pos) = some (e, n)) :
    ∃ f t, numericRange win pos = (pos + n, .ok, some e.to_.isSome, f, t) ∧ IsNum win f e.from_ ∧
      (∀ t', e.to_ = some t' → IsNum win t t') ∧ 0 < n ∧ n ≤ (win.drop pos).length := by
  rw [numEntry_eq] at h
  rw [numericRange_eq]
  simp only [List.drop_drop, ← Nat.add_assoc] at h
  by_cases h1 : 0 < D (win.drop pos)
  · simp only [h1, if_true] at h ⊢
    by_cases hc : hd (win.drop (pos + D (win.drop pos))) (· == 58) = true
    · simp only [hc, if_true] at h ⊢
      by_cases h2 : 0 < D (win.drop (pos + D (win.drop pos) + 1))
      · simp only [h2, if_true] at h ⊢
        simp only [Option.some.injEq, Prod.mk.injEq] at h
        obtain ⟨rfl, rfl⟩ := h
        refine ⟨⟨.decimal, pos, D (win.drop pos)⟩,
          ⟨.decimal, pos + D (win.drop pos) + 1, D (win.drop (pos + D (win.drop pos) + 1))⟩,
          by simp only [Option.isSome_some, ← Nat.add_assoc], ⟨pos, rfl, h1, rfl⟩, ?_, by omega, ?_⟩
        · intro t' ht
          simp only [Option.some.injEq] at ht
          exact ⟨_, rfl, h2, ht⟩
        · have := D_le (win.drop (pos + D (win.drop pos) + 1))
          have := hd_drop_length (s := win) hc
          simp only [List.length_drop] at *
          omega
      · simp only [h2, if_false] at h
        cases h
    · simp only [hc, Bool.false_eq_true, if_false] at h ⊢
      simp only [Option.some.injEq, Prod.mk.injEq] at h
      obtain ⟨rfl, rfl⟩ := h
      refine ⟨_, _, rfl, ⟨pos, rfl, h1, rfl⟩, ?_, h1, D_le _⟩
      intro t' ht; cases ht
  · simp only [h1, if_false] at h
    cases h

theorem numericRange_none {win : Bytes} {pos : Nat} (h : numEntry (win.drop pos) = none) :
    (numericRange win pos).2.1 ≠ .ok := by
  rw [numEntry_eq] at h
  rw [numericRange_eq]
  simp only [List.drop_drop, ← Nat.add_assoc] at h
  by_cases h1 : 0 < D (win.drop pos)
  · simp only [h1, if_true] at h ⊢
    by_cases hc : hd (win.drop (pos + D (win.drop pos))) (· == 58) = true
    · simp only [hc, if_true] at h ⊢
      by_cases h2 : 0 < D (win.drop (pos + D (win.drop pos) + 1))
      · simp only [h2, if_true] at h
        cases h
      · simp only [h2, if_false]
        decide
    · simp only [hc, Bool.false_eq_true, if_false] at h
      cases h
  · simp only [h1, if_false]
    decide

/-! ## numeric lists -/

theorem numList_acc (fuel : Nat) (s : Bytes) (acc : List Spec.ExprList.NumEntry) :
    numList fuel s acc = (numList fuel s []).map (acc ++ ·) := by
  induction fuel generalizing s acc with
  | zero => rfl
  | succ fuel ih =>
    unfold numList
    cases numEntry s with
    | none => rfl
    | some en =>
      obtain ⟨e, n⟩ := en
      simp only
      split
      · simp
      · split
        · rw [ih _ (acc ++ [e]), ih _ ([] ++ [e])]
          simp [Option.map_map, Function.comp_def]
        · rfl

theorem lexComma_nil {win : Bytes} {p : Nat} (h : win.drop p = []) :
    lexComma win p = (p, ⟨.unknown, p, 0⟩, 0) ∧ iseos win p = true := by
  unfold lexComma
  rw [lexOneChar_eq, h, iseos_eq, h]
  simp

theorem lexComma_cons {win : Bytes} {p : Nat} (h : (win.drop p).head? = some 44) :
    lexComma win p = (p + 1, ⟨.comma, p, 1⟩, 1) := by
  unfold lexComma
  rw [lexOneChar_eq, if_pos (hd_eq_iff_head?.2 h)]

theorem numLoop_spec (win : Bytes) (index : Nat) : ∀ (fuel : Nat) (es : List Spec.ExprList.NumEntry)
    (pos i lf : Nat) (rng : Option Bool) (f t : Token),
    numList fuel (win.drop pos) [] = some es → i ≤ index → index - i + 1 ≤ lf →
    (∀ e, es[index - i]? = some e →
      (numLoop win index lf i pos rng f t).1 = .ok ∧ (numLoop win index lf i pos rng f t).2.1 = some e.to_.isSome ∧
      IsNum win (numLoop win index lf i pos rng f t).2.2.1 e.from_ ∧
      (∀ t', e.to_ = some t' → IsNum win (numLoop win index lf i pos rng f t).2.2.2 t')) ∧
    (es[index - i]? = none → (numLoop win index lf i pos rng f t).1 = .noMore) := by
  intro fuel
  induction fuel with
  | zero => intro es pos i lf rng f t h; simp [numList] at h
  | succ fuel ih =>
    intro es pos i lf rng f t h hi hlf
    unfold numList at h
    cases hne : numEntry (win.drop pos) with
    | none => rw [hne] at h; cases h
    | some en =>
      obtain ⟨e, n⟩ := en
      rw [hne] at h
      simp only [List.nil_append, List.drop_drop] at h
      obtain ⟨f', t', hnr, hf', ht', hn0, hnle⟩ := numericRange_some hne
      cases lf with
      | zero => omega
      | succ lf =>
        unfold numLoop
        rw [hnr]
        have hok : (Res.ok != Res.ok) = false := by decide
        simp only [hok, Bool.false_eq_true, if_false, Option.isSome_some, if_true]
        by_cases hidx : i = index
        · subst hidx
          have hes : ∃ tl, es = e :: tl := by
            split at h
            · exact ⟨[], by cases h; rfl⟩
            · split at h
              · rw [numList_acc] at h
                cases hh : numList fuel (win.drop (pos + n + 1)) [] with
                | none => rw [hh] at h; cases h
                | some tl => rw [hh] at h; cases h; exact ⟨tl, rfl⟩
              · cases h
          obtain ⟨tl, rfl⟩ := hes
          have hne' : (i != i) = false := by simp
          simp only [hne', Bool.false_eq_true, if_false, Nat.sub_self, List.getElem?_cons_zero]
          refine ⟨?_, by intro hc; cases hc⟩
          intro e' he'
          cases he'
          exact ⟨trivial, rfl, hf', ht'⟩
        · have hne' : (i != index) = true := by simp [hidx]
          simp only [hne', if_true]
          split at h
          · rename_i hemp
            have hnil : win.drop (pos + n) = [] := by simpa using hemp
            obtain ⟨hcm, heos⟩ := lexComma_nil hnil
            cases h
            rw [hcm]
            simp only [BEq.rfl, if_true, heos]
            have : index - i = (index - i - 1) + 1 := by omega
            rw [this]
            simp
          · split at h
            · rename_i hcomma
              have hcm := lexComma_cons (win := win) (p := pos + n) (by simpa using hcomma)
              rw [hcm]
              have h10 : ((1 : Int) == 0) = false := by decide
              simp only [h10, Bool.false_eq_true, if_false]
              rw [numList_acc] at h
              cases hh : numList fuel (win.drop (pos + n + 1)) [] with
              | none => rw [hh] at h; cases h
              | some tl =>
                rw [hh] at h
                cases h
                have hsub : index - i = (index - (i + 1)) + 1 := by omega
                rw [hsub]
                simp only [List.singleton_append, List.getElem?_cons_succ]
                exact ih tl (pos + n + 1) (i + 1) lf _ _ _ hh (by omega) (by omega)
            · cases h

theorem numericListEntry_eq (win : Bytes) (index : Nat) :
    numericListEntry win index =
      let r := numLoop win index (index + 2) 0 0 none ⟨.unknown, 0, 0⟩ ⟨.unknown, 0, 0⟩
      ⟨r.1, r.2.1, r.2.2.1, r.2.2.2, if r.1 == .error then [-170] else []⟩ := by
  unfold numericListEntry
  generalize numLoop win index (index + 2) 0 0 none ⟨.unknown, 0, 0⟩ ⟨.unknown, 0, 0⟩ = r
  obtain ⟨a, b, c, d⟩ := r
  rfl

theorem numeric_entry (body : Bytes) (l : List Spec.ExprList.NumEntry) (h : parseNumList body = some l) (i : Nat) :
    let r := numericListEntry body i
    match l[i]? with
    | some e =>
      r.res = .ok ∧ r.isRange = some e.to_.isSome ∧ tokText body r.from_ = e.from_ ∧ tokInt32 body r.from_ = litInt32 e.from_ ∧
      (∀ t, e.to_ = some t → tokText body r.to_ = t ∧ tokInt32 body r.to_ = litInt32 t) ∧ r.pushed = []
    | none => r.res = .noMore ∧ r.pushed = [] := by
  intro r
  unfold parseNumList at h
  have hs := numLoop_spec body i (body.length + 1) l 0 0 (i + 2) none ⟨.unknown, 0, 0⟩ ⟨.unknown, 0, 0⟩
    (by simpa using h) (Nat.zero_le _) (by omega)
  simp only [Nat.sub_zero] at hs
  have hr : r = _ := numericListEntry_eq body i
  rw [hr]
  generalize numLoop body i (i + 2) 0 0 none ⟨.unknown, 0, 0⟩ ⟨.unknown, 0, 0⟩ = q at hs
  cases hl : l[i]? with
  | some e =>
    obtain ⟨h1, h2, h3, h4⟩ := hs.1 e hl
    simp only [h1]
    refine ⟨trivial, h2, h3.text.1, h3.text.2, fun t ht => (h4 t ht).text, rfl⟩
  | none =>
    have h1 := hs.2 hl
    simp only [h1]
    exact ⟨trivial, rfl⟩

/-! ## OK only for a well-formed prefix -/

theorem numPrefix_acc (fuel : Nat) (s : Bytes) (acc : List Spec.ExprList.NumEntry) :
    numPrefix fuel s acc = acc ++ numPrefix fuel s [] := by
  induction fuel generalizing s acc with
  | zero => simp [numPrefix]
  | succ fuel ih =>
    unfold numPrefix
    cases numEntry s with
    | none => simp
    | some en =>
      obtain ⟨e, n⟩ := en
      simp only
      split
      · rw [ih _ (acc ++ [e]), ih _ ([] ++ [e])]
        simp
      · simp

theorem lexComma_fail {win : Bytes} {p : Nat} (h : ¬ (win.drop p).head? = some 44) :
    lexComma win p = (p, ⟨.unknown, p, 0⟩, 0) := by
  unfold lexComma
  rw [lexOneChar_eq, if_neg (fun hh => h (hd_eq_iff_head?.1 hh))]

theorem numLoop_ok (win : Bytes) (index : Nat) : ∀ (lf i pos : Nat) (rng : Option Bool) (f t : Token) (pf : Nat),
    (numLoop win index lf i pos rng f t).1 = .ok → i ≤ index → index - i + 1 ≤ lf →
    (win.drop pos).length + 1 ≤ pf →
    ∃ e, (numPrefix pf (win.drop pos) [])[index - i]? = some e ∧
      tokText win (numLoop win index lf i pos rng f t).2.2.1 = e.from_ := by
  intro lf
  induction lf with
  | zero => intro i pos rng f t pf _ _ hlf; omega
  | succ lf ih =>
    intro i pos rng f t pf h hi hlf hpf
    cases pf with
    | zero => omega
    | succ pf =>
    unfold numLoop at h ⊢
    unfold numPrefix
    cases hne : numEntry (win.drop pos) with
    | none =>
      exfalso
      have hno := numericRange_none hne
      generalize numericRange win pos = q at h hno
      obtain ⟨p, res, rng', f', t'⟩ := q
      have : (res != Res.ok) = true := by simpa using hno
      simp only [this, if_true] at h
      exact hno h
    | some en =>
      obtain ⟨e, n⟩ := en
      obtain ⟨f', t', hnr, hf', ht', hn0, hnle⟩ := numericRange_some hne
      rw [hnr] at h ⊢
      have hok : (Res.ok != Res.ok) = false := by decide
      simp only [hok, Bool.false_eq_true, if_false, Option.isSome_some, if_true, List.nil_append, List.drop_drop] at h ⊢
      by_cases hidx : i = index
      · subst hidx
        have hne' : (i != i) = false := by simp
        simp only [hne', Bool.false_eq_true, if_false, Nat.sub_self]
        refine ⟨e, ?_, hf'.text.1⟩
        split
        · rw [numPrefix_acc]; rfl
        · rfl
      · have hne' : (i != index) = true := by simp [hidx]
        simp only [hne', if_true] at h ⊢
        by_cases hcomma : (win.drop (pos + n)).head? = some 44
        · have hcm := lexComma_cons hcomma
          rw [hcm] at h ⊢
          have h10 : ((1 : Int) == 0) = false := by decide
          simp only [h10, Bool.false_eq_true, if_false] at h ⊢
          have hc' : ((win.drop (pos + n)).head? == some 44) = true := by simp [hcomma]
          simp only [hc', if_true]
          rw [numPrefix_acc]
          have hsub : index - i = (index - (i + 1)) + 1 := by omega
          rw [hsub]
          simp only [List.singleton_append, List.getElem?_cons_succ]
          simp only [List.length_drop] at hpf hnle ⊢
          exact ih (i + 1) (pos + n + 1) _ _ _ pf h (by omega) (by omega) (by simp only [List.length_drop]; omega)
        · exfalso
          rw [lexComma_fail hcomma] at h
          simp only [BEq.rfl, if_true] at h
          split at h <;> cases h

theorem numeric_ok_implies_prefix_wf (body : Bytes) (i : Nat) (h : (numericListEntry body i).res = .ok) :
    ∃ e, (numPrefix (body.length + 1) body [])[i]? = some e ∧ tokText body (numericListEntry body i).from_ = e.from_ := by
  rw [numericListEntry_eq] at h ⊢
  have := numLoop_ok body i (i + 2) 0 0 none ⟨.unknown, 0, 0⟩ ⟨.unknown, 0, 0⟩ (body.length + 1) h (Nat.zero_le _)
    (by omega) (by simp)
  simpa using this

/-! ## channel lists: one channel spec -/

theorem chanSpec_acc (fuel : Nat) (s : Bytes) (acc : List Bytes) (used : Nat) :
    chanSpec fuel s acc used = (chanSpec fuel s [] 0).map (fun r => (acc ++ r.1, used + r.2)) := by
  induction fuel generalizing s acc used with
  | zero => rfl
  | succ fuel ih =>
    unfold chanSpec
    cases numLen s with
    | none => rfl
    | some n =>
      simp only
      split
      · rw [ih _ (acc ++ [s.take n]), ih _ ([] ++ [s.take n])]
        simp only [Option.map_map]
        congr 1
        funext r
        simp [Nat.add_assoc]
      · simp

theorem lexSpecific_ok {win : Bytes} {p : Nat} {ch : UInt8} (h : hd (win.drop p) (· == ch) = true) :
    lexSpecific win p ch = (p + 1, ⟨.specificCharacter, p, 1⟩, 1) := by
  unfold lexSpecific; rw [lexOneChar_eq, if_pos h]

theorem lexSpecific_fail {win : Bytes} {p : Nat} {ch : UInt8} (h : ¬ hd (win.drop p) (· == ch) = true) :
    lexSpecific win p ch = (p, ⟨.unknown, p, 0⟩, 0) := by
  unfold lexSpecific; rw [lexOneChar_eq, if_neg h]

theorem channelSpec_spec (win : Bytes) (cap : Nat) : ∀ (fuel : Nat) (ns : List Bytes) (k pos cf i : Nat) (vals : List Int),
    chanSpec fuel (win.drop pos) [] 0 = some (ns, k) → ns.length ≤ cf →
    channelSpec win cap cf pos i vals =
      (pos + k, .ok, vals ++ (ns.take (cap - i)).map litInt32, some (i + ns.length)) := by
  intro fuel
  induction fuel with
  | zero => intro ns k pos cf i vals h; simp [chanSpec] at h
  | succ fuel ih =>
    intro ns k pos cf i vals h hcf
    unfold chanSpec at h
    rw [numLen_eq] at h
    by_cases hD : 0 < D (win.drop pos)
    · simp only [hD, if_true, head_beq_iff, List.nil_append, List.drop_drop, Nat.zero_add] at h
      have hval : tokInt32 win ⟨.decimal, pos, (D (win.drop pos) : Int)⟩ = litInt32 ((win.drop pos).take (D (win.drop pos))) :=
        tok_value win pos hD
      have hr : ((D (win.drop pos) : Int) != 0) = true := by simp; omega
      have hvals : ∀ (rest : List Bytes),
          (if i < cap then vals ++ [litInt32 ((win.drop pos).take (D (win.drop pos)))] else vals) ++
              (rest.take (cap - (i + 1))).map litInt32 =
            vals ++ ((((win.drop pos).take (D (win.drop pos))) :: rest).take (cap - i)).map litInt32 := by
        intro rest
        by_cases hic : i < cap
        · have : cap - i = (cap - (i + 1)) + 1 := by omega
          rw [if_pos hic, this]
          simp
        · have h1 : cap - i = 0 := by omega
          have h2 : cap - (i + 1) = 0 := by omega
          rw [if_neg hic, h1, h2]
          simp
      by_cases hb : hd (win.drop (pos + D (win.drop pos))) (· == 33) = true
      · simp only [hb, if_true] at h
        rw [chanSpec_acc] at h
        cases hh : chanSpec fuel (win.drop (pos + (D (win.drop pos) + 1))) [] 0 with
        | none => rw [hh] at h; cases h
        | some q =>
          obtain ⟨ns', k'⟩ := q
          rw [hh] at h
          simp only [Option.map_some, Option.some.injEq, Prod.mk.injEq] at h
          obtain ⟨rfl, rfl⟩ := h
          cases cf with
          | zero => simp at hcf
          | succ cf =>
            unfold channelSpec
            simp only [decimal_lexDecimal_eq, hD, if_true, hr]
            rw [lexSpecific_ok hb]
            have h10 : ((1 : Int) != 0) = true := by decide
            simp only [h10, if_true]
            rw [hval]
            rw [ih ns' k' (pos + D (win.drop pos) + 1) cf (i + 1) _ (by rw [Nat.add_assoc]; exact hh)
              (by simp at hcf; omega)]
            rw [hvals ns']
            refine Prod.ext (by simp only; omega) (Prod.ext rfl (Prod.ext rfl ?_))
            simp only [List.singleton_append, List.length_cons]
            congr 1; omega
      · simp only [hb, Bool.false_eq_true, if_false, Option.some.injEq, Prod.mk.injEq] at h
        obtain ⟨rfl, rfl⟩ := h
        cases cf with
        | zero => simp at hcf
        | succ cf =>
          unfold channelSpec
          simp only [decimal_lexDecimal_eq, hD, if_true, hr]
          rw [lexSpecific_fail hb]
          have h00 : ((0 : Int) != 0) = false := by decide
          simp only [h00, Bool.false_eq_true, if_false]
          rw [hval]
          have := hvals []
          simp only [List.take_nil, List.map_nil, List.append_nil] at this
          rw [this]
          rfl
    · simp only [hD, if_false] at h
      cases h

theorem chanSpec_len : ∀ (fuel : Nat) (s : Bytes) (ns : List Bytes) (k : Nat),
    chanSpec fuel s [] 0 = some (ns, k) → 0 < ns.length ∧ ns.length ≤ k ∧ k ≤ s.length := by
  intro fuel
  induction fuel with
  | zero => intro s ns k h; simp [chanSpec] at h
  | succ fuel ih =>
    intro s ns k h
    unfold chanSpec at h
    rw [numLen_eq] at h
    by_cases hD : 0 < D s
    · simp only [hD, if_true, head_beq_iff, List.nil_append, Nat.zero_add] at h
      have hle := D_le s
      by_cases hb : hd (s.drop (D s)) (· == 33) = true
      · simp only [hb, if_true] at h
        rw [chanSpec_acc] at h
        cases hh : chanSpec fuel (s.drop (D s + 1)) [] 0 with
        | none => rw [hh] at h; cases h
        | some q =>
          obtain ⟨ns', k'⟩ := q
          rw [hh] at h
          simp only [Option.map_some, Option.some.injEq, Prod.mk.injEq] at h
          obtain ⟨rfl, rfl⟩ := h
          obtain ⟨h1, h2, h3⟩ := ih _ _ _ hh
          have := hd_drop_length hb
          simp only [List.length_drop, List.singleton_append, List.length_cons] at *
          omega
      · simp only [hb, Bool.false_eq_true, if_false, Option.some.injEq, Prod.mk.injEq] at h
        obtain ⟨rfl, rfl⟩ := h
        simp; omega
    · simp only [hD, if_false] at h
      cases h

/-! ## one channel entry -/

theorem lexColon_ok {win : Bytes} {p : Nat} (h : hd (win.drop p) (· == 58) = true) :
    lexColon win p = (p + 1, ⟨.colon, p, 1⟩, 1) := by
  unfold lexColon; rw [lexOneChar_eq, if_pos h]

theorem lexColon_fail {win : Bytes} {p : Nat} (h : ¬ hd (win.drop p) (· == 58) = true) :
    lexColon win p = (p, ⟨.unknown, p, 0⟩, 0) := by
  unfold lexColon; rw [lexOneChar_eq, if_neg h]

theorem channelRange_spec {win : Bytes} {pos : Nat} (cap : Nat) {e : Spec.ExprList.ChanEntry} {n : Nat}
    (h : chanEntry (win.drop pos) = some (e, n)) :
    channelRange win pos cap = (pos + n, .ok, some e.to_.isSome, (e.from_.take cap).map litInt32,
        (match e.to_ with | some t => (t.take cap).map litInt32 | none => []), some e.from_.length) ∧
      0 < n ∧ n ≤ (win.drop pos).length := by
  unfold chanEntry at h
  cases h1 : chanSpec ((win.drop pos).length + 1) (win.drop pos) [] 0 with
  | none => rw [h1] at h; cases h
  | some q1 =>
    obtain ⟨fs, k⟩ := q1
    rw [h1] at h
    simp only [head_beq_iff, List.drop_drop] at h
    obtain ⟨l1, l2, l3⟩ := chanSpec_len _ _ _ _ h1
    have c1 := channelSpec_spec win cap _ fs k pos (win.length + 2) 0 [] h1 (by
      simp only [List.length_drop] at l3; omega)
    simp only [Nat.sub_zero, List.nil_append, Nat.zero_add] at c1
    unfold channelRange
    rw [c1]
    have hok : (Res.ok == Res.ok) = true := by decide
    simp only [hok, if_true]
    by_cases hc : hd (win.drop (pos + k)) (· == 58) = true
    · simp only [hc, if_true] at h
      cases h2 : chanSpec ((win.drop pos).length + 1) (win.drop (pos + (k + 1))) [] 0 with
      | none => rw [h2] at h; cases h
      | some q2 =>
        obtain ⟨ts, m⟩ := q2
        rw [h2] at h
        simp only at h
        by_cases hlen : (ts.length == fs.length) = true
        · simp only [hlen, if_true, Option.some.injEq, Prod.mk.injEq] at h
          obtain ⟨rfl, rfl⟩ := h
          obtain ⟨m1, m2, m3⟩ := chanSpec_len _ _ _ _ h2
          have c2 := channelSpec_spec win cap _ ts m (pos + k + 1) (win.length + 2) 0 []
            (by rw [Nat.add_assoc]; exact h2) (by simp only [List.length_drop] at m3; omega)
          simp only [Nat.sub_zero, List.nil_append, Nat.zero_add] at c2
          rw [lexColon_ok hc]
          have h10 : ((1 : Int) != 0) = true := by decide
          simp only [h10, if_true]
          rw [c2]
          have hlen' : ts.length = fs.length := by simpa using hlen
          have hne : (Res.ok != Res.ok) = false := by decide
          simp only [hne, Bool.false_eq_true, if_false, hlen', bne_self_eq_false, Option.isSome_some]
          refine ⟨?_, by omega, ?_⟩
          · refine Prod.ext (by simp only; omega) rfl
          · simp only [List.length_drop] at m3 l3 ⊢; omega
        · simp only [hlen, Bool.false_eq_true, if_false] at h
          cases h
    · simp only [hc, Bool.false_eq_true, if_false, Option.some.injEq, Prod.mk.injEq] at h
      obtain ⟨rfl, rfl⟩ := h
      rw [lexColon_fail hc]
      have h00 : ((0 : Int) != 0) = false := by decide
      simp only [h00, Bool.false_eq_true, if_false]
      exact ⟨rfl, by omega, l3⟩

/-! ## the channel entry loop -/

theorem chanList_acc (fuel : Nat) (s : Bytes) (acc : List Spec.ExprList.ChanEntry) :
    chanList fuel s acc = (chanList fuel s []).map (acc ++ ·) := by
  induction fuel generalizing s acc with
  | zero => rfl
  | succ fuel ih =>
    unfold chanList
    cases chanEntry s with
    | none => rfl
    | some en =>
      obtain ⟨e, n⟩ := en
      simp only
      split
      · simp
      · split
        · rw [ih _ (acc ++ [e]), ih _ ([] ++ [e])]
          simp [Option.map_map, Function.comp_def]
        · rfl

theorem chanLoop_spec (win : Bytes) (index cap : Nat) : ∀ (fuel : Nat) (es : List Spec.ExprList.ChanEntry)
    (pos i lf : Nat) (rng : Option Bool) (dims : Option Nat),
    chanList fuel (win.drop pos) [] = some es → i ≤ index → index - i + 1 ≤ lf →
    (∀ e, es[index - i]? = some e →
      (chanLoop win index cap lf i pos rng dims).2.1 = .ok ∧
      (chanLoop win index cap lf i pos rng dims).2.2.1 = some e.to_.isSome ∧
      (chanLoop win index cap lf i pos rng dims).2.2.2.1 = (e.from_.take cap).map litInt32 ∧
      (∀ t, e.to_ = some t → (chanLoop win index cap lf i pos rng dims).2.2.2.2.1 = (t.take cap).map litInt32) ∧
      (chanLoop win index cap lf i pos rng dims).2.2.2.2.2 = some e.from_.length) ∧
    (es[index - i]? = none → (chanLoop win index cap lf i pos rng dims).2.1 = .noMore ∧
      iseos win (chanLoop win index cap lf i pos rng dims).1 = true) := by
  intro fuel
  induction fuel with
  | zero => intro es pos i lf rng dims h; simp [chanList] at h
  | succ fuel ih =>
    intro es pos i lf rng dims h hi hlf
    unfold chanList at h
    cases hne : chanEntry (win.drop pos) with
    | none => rw [hne] at h; cases h
    | some en =>
      obtain ⟨e, n⟩ := en
      rw [hne] at h
      simp only [List.nil_append, List.drop_drop] at h
      cases lf with
      | zero => omega
      | succ lf =>
        unfold chanLoop
        obtain ⟨hcr, hn0, hnle⟩ := channelRange_spec (if i == index then cap else 0) hne
        rw [hcr]
        have hok : (Res.ok != Res.ok) = false := by decide
        simp only [hok, Bool.false_eq_true, if_false]
        by_cases hidx : i = index
        · subst hidx
          have hes : ∃ tl, es = e :: tl := by
            split at h
            · exact ⟨[], by cases h; rfl⟩
            · split at h
              · rw [chanList_acc] at h
                cases hh : chanList fuel (win.drop (pos + n + 1)) [] with
                | none => rw [hh] at h; cases h
                | some tl => rw [hh] at h; cases h; exact ⟨tl, rfl⟩
              · cases h
          obtain ⟨tl, rfl⟩ := hes
          have hne' : (i != i) = false := by simp
          simp only [hne', Bool.false_eq_true, if_false, Nat.sub_self, List.getElem?_cons_zero, BEq.rfl, if_true]
          refine ⟨?_, by intro hc; cases hc⟩
          intro e' he'
          cases he'
          refine ⟨trivial, rfl, rfl, ?_, rfl⟩
          intro t ht
          rw [ht]
        · have hne' : (i != index) = true := by simp [hidx]
          simp only [hne', if_true]
          split at h
          · rename_i hemp
            have hnil : win.drop (pos + n) = [] := by simpa using hemp
            obtain ⟨hcm, heos⟩ := lexComma_nil hnil
            cases h
            rw [hcm]
            simp only [BEq.rfl, if_true, heos]
            have : index - i = (index - i - 1) + 1 := by omega
            rw [this]
            simp
          · split at h
            · rename_i hcomma
              have hcm := lexComma_cons (win := win) (p := pos + n) (by simpa using hcomma)
              rw [hcm]
              have h10 : ((1 : Int) == 0) = false := by decide
              simp only [h10, Bool.false_eq_true, if_false]
              rw [chanList_acc] at h
              cases hh : chanList fuel (win.drop (pos + n + 1)) [] with
              | none => rw [hh] at h; cases h
              | some tl =>
                rw [hh] at h
                cases h
                have hsub : index - i = (index - (i + 1)) + 1 := by omega
                rw [hsub]
                simp only [List.singleton_append, List.getElem?_cons_succ]
                exact ih tl (pos + n + 1) (i + 1) lf _ _ hh (by omega) (by omega)
            · cases h

theorem channelListEntry_eq (win : Bytes) (index cap : Nat) :
    channelListEntry win index cap =
      if hd win (· == 64) = true then
        let r := chanLoop win index cap (index + 2) 0 1 none none
        if r.2.1 == .error then ⟨.error, r.2.2.1, r.2.2.2.1, r.2.2.2.2.1, r.2.2.2.2.2, [-170]⟩
        else if r.2.1 == .noMore then
          if !iseos win r.1 then ⟨.error, r.2.2.1, r.2.2.2.1, r.2.2.2.2.1, r.2.2.2.2.2, [-170]⟩
          else ⟨.noMore, r.2.2.1, r.2.2.2.1, r.2.2.2.2.1, r.2.2.2.2.2, []⟩
        else ⟨r.2.1, r.2.2.1, r.2.2.2.1, r.2.2.2.2.1, r.2.2.2.2.2, []⟩
      else ⟨.error, none, [], [], none, [-170]⟩ := by
  unfold channelListEntry lexSpecific
  rw [lexOneChar_eq, List.drop_zero]
  by_cases h : hd win (· == 64) = true
  · have h10 : ((1 : Int) == 0) = false := by decide
    simp only [h, if_true, h10, Bool.false_eq_true, if_false, Nat.zero_add]
  · rw [if_neg h, if_neg h]
    rfl

theorem channel_entry (body : Bytes) (l : List Spec.ExprList.ChanEntry) (h : parseChanList body = some l) (i cap : Nat) :
    let r := channelListEntry body i cap
    match l[i]? with
    | some e =>
      r.res = .ok ∧ r.isRange = some e.to_.isSome ∧ r.dims = some e.from_.length ∧
      r.from_ = (e.from_.take cap).map litInt32 ∧ (∀ t, e.to_ = some t → r.to_ = (t.take cap).map litInt32) ∧ r.pushed = []
    | none => r.res = .noMore ∧ r.pushed = [] := by
  intro r
  unfold parseChanList at h
  split at h
  · rename_i rest
    have hs := chanLoop_spec (64 :: rest) i cap (rest.length + 1) l 1 0 (i + 2) none none
      (by simpa using h) (Nat.zero_le _) (by omega)
    simp only [Nat.sub_zero] at hs
    have hr : r = _ := channelListEntry_eq (64 :: rest) i cap
    rw [hr]
    simp only [hd_cons, BEq.rfl, if_true]
    generalize chanLoop (64 :: rest) i cap (i + 2) 0 1 none none = q at hs
    cases hl : l[i]? with
    | some e =>
      obtain ⟨h1, h2, h3, h4, h5⟩ := hs.1 e hl
      have e1 : (Res.ok == Res.error) = false := by decide
      have e2 : (Res.ok == Res.noMore) = false := by decide
      simp only [h1, e1, e2, Bool.false_eq_true, if_false]
      exact ⟨trivial, h2, h5, h3, h4, trivial⟩
    | none =>
      obtain ⟨h1, h2⟩ := hs.2 hl
      have e1 : (Res.noMore == Res.error) = false := by decide
      simp only [h1, h2, e1, Bool.false_eq_true, if_false, BEq.rfl, if_true, Bool.not_true]
      exact ⟨trivial, trivial⟩
  · cases h

/-! ## nothing is stored beyond the capacity -/

theorem channelSpec_bound (win : Bytes) (cap : Nat) : ∀ (fuel pos i : Nat) (vals : List Int),
    vals.length ≤ i → vals.length ≤ cap → (channelSpec win cap fuel pos i vals).2.2.1.length ≤ cap := by
  intro fuel
  induction fuel with
  | zero => intro pos i vals _ h2; exact h2
  | succ fuel ih =>
    intro pos i vals h1 h2
    unfold channelSpec
    generalize lexDecimal win pos = q
    obtain ⟨p1, tok, r⟩ := q
    simp only
    split
    · generalize lexSpecific win p1 33 = q2
      obtain ⟨p2, tk2, rb⟩ := q2
      simp only
      have hlen : (if i < cap then vals ++ [tokInt32 win tok] else vals).length ≤ i + 1 ∧
          (if i < cap then vals ++ [tokInt32 win tok] else vals).length ≤ cap := by
        split
        · simp; omega
        · omega
      split
      · exact ih _ _ _ hlen.1 hlen.2
      · exact hlen.2
    · split <;> exact h2

theorem channelRange_bound (win : Bytes) (pos cap : Nat) :
    (channelRange win pos cap).2.2.2.1.length ≤ cap ∧ (channelRange win pos cap).2.2.2.2.1.length ≤ cap := by
  have key : ∀ p, (channelSpec win cap (win.length + 2) p 0 []).2.2.1.length ≤ cap :=
    fun p => channelSpec_bound win cap _ p 0 [] (Nat.le_refl _) (Nat.zero_le _)
  unfold channelRange
  have k1 := key pos
  generalize channelSpec win cap (win.length + 2) pos 0 [] = q1 at k1
  obtain ⟨p1, r1, vf, d1⟩ := q1
  simp only at k1 ⊢
  split
  · generalize lexColon win p1 = c
    obtain ⟨p2, ct, rc⟩ := c
    simp only
    split
    · have k2 := key p2
      generalize channelSpec win cap (win.length + 2) p2 0 [] = q2 at k2
      obtain ⟨p3, r2, vt, d2⟩ := q2
      simp only at k2 ⊢
      split
      · exact ⟨k1, k2⟩
      · split <;> exact ⟨k1, k2⟩
    · exact ⟨k1, Nat.zero_le _⟩
  · split <;> exact ⟨k1, Nat.zero_le _⟩

theorem chanLoop_bound (win : Bytes) (index cap : Nat) : ∀ (fuel i pos : Nat) (rng : Option Bool) (dims : Option Nat),
    (chanLoop win index cap fuel i pos rng dims).2.2.2.1.length ≤ cap ∧
    (chanLoop win index cap fuel i pos rng dims).2.2.2.2.1.length ≤ cap := by
  intro fuel
  induction fuel with
  | zero => intro i pos rng dims; exact ⟨Nat.zero_le _, Nat.zero_le _⟩
  | succ fuel ih =>
    intro i pos rng dims
    unfold chanLoop
    have hb := channelRange_bound win pos (if i == index then cap else 0)
    have hc : (if i == index then cap else 0) ≤ cap := by split <;> omega
    generalize channelRange win pos (if i == index then cap else 0) = q at hb
    obtain ⟨p, res, rng', vf, vt, d⟩ := q
    simp only at hb ⊢
    have hb' : vf.length ≤ cap ∧ vt.length ≤ cap := ⟨by omega, by omega⟩
    split
    · exact hb'
    · split
      · generalize lexComma win p = c
        obtain ⟨p2, ct, rc⟩ := c
        simp only
        split
        · exact hb'
        · exact ih _ _ _ _
      · exact hb'

theorem stores_bounded (body : Bytes) (i cap : Nat) :
    (channelListEntry body i cap).from_.length ≤ cap ∧ (channelListEntry body i cap).to_.length ≤ cap := by
  rw [channelListEntry_eq]
  have hb := chanLoop_bound body i cap (i + 2) 0 1 none none
  generalize chanLoop body i cap (i + 2) 0 1 none none = r at hb
  split
  · simp only
    split
    · exact hb
    · split
      · split <;> exact hb
      · exact hb
  · exact ⟨Nat.zero_le _, Nat.zero_le _⟩

theorem channel_error_pushes (body : Bytes) (i cap : Nat) :
    let r := channelListEntry body i cap
    (r.res = .error → r.pushed = [-170]) ∧ (r.res ≠ .error → r.pushed = []) := by
  intro r
  have hr : r = _ := channelListEntry_eq body i cap
  rw [hr]
  generalize chanLoop body i cap (i + 2) 0 1 none none = q
  split
  · simp only
    split
    · exact ⟨fun _ => rfl, fun h => absurd rfl h⟩
    · rename_i hne
      split
      · split
        · exact ⟨fun _ => rfl, fun h => absurd rfl h⟩
        · exact ⟨fun h => (by cases h), fun _ => rfl⟩
      · refine ⟨fun h => ?_, fun _ => rfl⟩
        simp only at h
        rw [h] at hne
        exact absurd rfl hne
  · exact ⟨fun _ => rfl, fun h => absurd rfl h⟩

end ScpiVerif.Lemmas.ExprList
