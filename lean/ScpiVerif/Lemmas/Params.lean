/-
C05: helper lemmas for ScpiVerif/Props/C05.lean — the parameter API of Model/Ctx.lean against the
table `Spec.Params.expect`.
-/
import ScpiVerif.Model.Readers
import ScpiVerif.Spec.Params
import ScpiVerif.Props.C13
import ScpiVerif.Lemmas.Builtin

set_option linter.unusedSimpArgs false
set_option linter.unusedVariables false

namespace ScpiVerif.Lemmas.Params
open ScpiVerif ScpiVerif.Ctx ScpiVerif.Lexer ScpiVerif.Spec.Params

/-! ### events only grow; what `pushError` appends -/

/-- the error codes `errorsSince` counts in a list of events -/
def errCodes (es : List Ev) : List Int :=
  es.filterMap countedCode

@[simp] theorem errCodes_nil : errCodes [] = [] := rfl
theorem errCodes_append (a b : List Ev) : errCodes (a ++ b) = errCodes a ++ errCodes b := by
  simp [errCodes, List.filterMap_append]

theorem errorsSince_of_append {c c' : Ctx} {es : List Ev} (h : c'.events = c.events ++ es) :
    errorsSince c c' = errCodes es := by
  simp [errorsSince, errCodes, h]

theorem errorsSince_self (c : Ctx) : errorsSince c c = [] := by
  simp [errorsSince]

theorem errorsSince_of_events_eq {c c' : Ctx} (h : c'.events = c.events) : errorsSince c c' = [] := by
  simp [errorsSince, h]

/-- the events `pushError` appends -/
def pushEvents (c : Ctx) (code : Int) (info : Option Bytes) (infoLen : Nat) : List Ev :=
  let e := Ev.error code (info.map (fun s => if infoLen = 0 then s.takeWhile (· ≠ 0) else (s.takeWhile (· ≠ 0)).take infoLen))
  if (c.eq.push c.withInfo code info infoLen true).2.length > 1 then [e, .error Fifo.overflowCode none] else [e]

theorem pushError_events (c : Ctx) (code : Int) (info : Option Bytes) (infoLen : Nat) :
    (pushError c code info infoLen).events = c.events ++ pushEvents c code info infoLen := by
  unfold pushError pushEvents
  simp only [emit]
  split <;> simp

theorem errCodes_pushEvents (c : Ctx) (code : Int) (info : Option Bytes) (infoLen : Nat) :
    errCodes (pushEvents c code info infoLen) = if code = Fifo.overflowCode then [] else [code] := by
  unfold pushEvents
  simp only []
  by_cases hc : code = Fifo.overflowCode <;> split <;>
    simp [errCodes, List.filterMap_cons, countedCode, hc]

theorem errCodes_pushEvents_ne (c : Ctx) (code : Int) (info : Option Bytes) (infoLen : Nat)
    (h : code ≠ Fifo.overflowCode) : errCodes (pushEvents c code info infoLen) = [code] := by
  rw [errCodes_pushEvents]; simp [h]

@[simp] theorem pushError_ppos (c : Ctx) (code : Int) (info : Option Bytes) (n : Nat) :
    (pushError c code info n).ppos = c.ppos := by
  unfold pushError; simp only [emit]; split <;> rfl
@[simp] theorem pushError_pbase (c : Ctx) (code : Int) (info : Option Bytes) (n : Nat) :
    (pushError c code info n).pbase = c.pbase := by
  unfold pushError; simp only [emit]; split <;> rfl
@[simp] theorem pushError_plen (c : Ctx) (code : Int) (info : Option Bytes) (n : Nat) :
    (pushError c code info n).plen = c.plen := by
  unfold pushError; simp only [emit]; split <;> rfl
@[simp] theorem pushError_buf (c : Ctx) (code : Int) (info : Option Bytes) (n : Nat) :
    (pushError c code info n).buf = c.buf := by
  unfold pushError; simp only [emit]; split <;> rfl
@[simp] theorem pushError_cmdError (c : Ctx) (code : Int) (info : Option Bytes) (n : Nat) :
    (pushError c code info n).cmdError = true := by
  unfold pushError; simp only [emit]; split <;> rfl
@[simp] theorem pushError_out (c : Ctx) (code : Int) (info : Option Bytes) (n : Nat) :
    (pushError c code info n).out = c.out := by
  unfold pushError; simp only [emit]; split <;> rfl
@[simp] theorem pushError_cur (c : Ctx) (code : Int) (info : Option Bytes) (n : Nat) :
    (pushError c code info n).cur = c.cur := by
  unfold pushError; simp only [emit]; split <;> rfl

theorem errorsSince_pushError (c0 c : Ctx) (code : Int) (info : Option Bytes) (n : Nat)
    (h : c.events = c0.events) (hc : code ≠ Fifo.overflowCode) :
    errorsSince c0 (pushError c code info n) = [code] := by
  rw [errorsSince_of_append (es := pushEvents c code info n) (by rw [pushError_events, h]),
    errCodes_pushEvents_ne _ _ _ _ hc]

/-! ### SCPI_Parameter in closed form -/

/-- the token types SCPI_Parameter delivers -/
def validType (t : TokType) : Bool :=
  match t with
  | .hexnum | .octnum | .binnum | .programMnemonic | .decimal | .decimalWithSuffix | .block
  | .singleQuote | .doubleQuote | .expression => true
  | _ => false

def inval : Token := ⟨.unknown, 0, 0⟩

/-- where the data element is looked for: after the comma, unless this is the first parameter -/
def pstart (c : Ctx) : Nat :=
  if c.inputCount != 0 then (lexComma (pwin c) (c.ppos - c.pbase)).1 else c.ppos - c.pbase

/-- the context after a data element was parsed -/
def pnext (c : Ctx) : Ctx :=
  { c with inputCount := c.inputCount + 1,
           ppos := c.pbase + (Parser.parseProgramData (pwin c) (pstart c)).1 }

def ptok (c : Ctx) : Token := (Parser.parseProgramData (pwin c) (pstart c)).2.1

theorem parameter_eq (c : Ctx) (mand : Bool) : parameter c mand =
    if c.ppos ≥ c.pbase + c.plen then
      (if mand then (pushError c (-109) none, false, inval) else (c, false, ⟨.programMnemonic, 0, 0⟩))
    else if c.inputCount != 0 ∧ (lexComma (pwin c) (c.ppos - c.pbase)).2.1.type != .comma then
      (pushError { c with ppos := c.pbase + (lexComma (pwin c) (c.ppos - c.pbase)).1 } (-103) none, false, inval)
    else if validType (ptok c).type then (pnext c, true, { ptok c with ptr := c.pbase + (ptok c).ptr })
    else (pushError (pnext c) (-151) none, false, inval) := by
  unfold parameter
  by_cases h1 : c.ppos ≥ c.pbase + c.plen
  · simp only [h1, if_true]; rfl
  · simp only [h1, if_false]
    by_cases h2 : (c.inputCount != 0) = true
    · simp only [h2, if_true, true_and]
      by_cases h3 : ((lexComma (pwin c) (c.ppos - c.pbase)).2.1.type != .comma) = true
      · simp only [h3, if_true]; rfl
      · simp only [h3, if_false]
        simp only [ptok, pnext, pstart, h2, if_true]
        cases hty : (Parser.parseProgramData (pwin c) (lexComma (pwin c) (c.ppos - c.pbase)).1).2.1.type <;>
          simp [validType, hty, inval]
    · simp only [h2, if_false, false_and]
      simp only [ptok, pnext, pstart, h2, if_false]
      cases hty : (Parser.parseProgramData (pwin c) (c.ppos - c.pbase)).2.1.type <;>
        simp [validType, hty, inval]

/-! ### what a reader does with a delivered token -/

/-- SCPI_ParamToChoice: `none` = found, else the error it pushes -/
def choiceVerdict (c : Ctx) (t : Token) (opts : List (Bytes × Int)) : Option Int :=
  if t.type == .programMnemonic then
    (if (opts.find? (fun o => matchName o.1 ((c.buf.drop t.ptr).take t.len.toNat))).isSome then none
     else some (-224))
  else some (-104)

/-- the unit text SCPI_ParamNumber cuts out of a decimal-with-suffix token -/
def unitTextOf (tokBytes : Bytes) : Bytes :=
  let st := (lexSuffix tokBytes (lexWhiteSpace tokBytes (lexDecimal tokBytes 0).1).1).2.1
  (tokBytes.drop st.ptr).take st.len.toNat

/-- the character-data token SCPI_ParamNumber re-lexes inside a mnemonic token -/
def specialTok (c : Ctx) (t : Token) : Token :=
  let tokBytes := (c.buf.drop t.ptr).take t.len.toNat
  let ct := (lexCharacterProgramData tokBytes (lexWhiteSpace tokBytes 0).1).2.1
  { ct with ptr := t.ptr + ct.ptr }

/-- the verdict of reader `r` on the delivered token `t`: `none` = success, else the error pushed -/
def verdict (r : Reader) (c : Ctx) (t : Token) : Option Int :=
  match r with
  | .int w s =>
    if isNumber t false then (if (paramToInt c t w s).1 then none else some (-104))
    else if isNumber t true then some (-138) else some (-104)
  | .float _ => if isNumber t false then none else if isNumber t true then some (-138) else some (-104)
  | .bool => if t.type == .decimal then none else choiceVerdict c t boolDef
  | .choice opts => choiceVerdict c t opts
  | .number =>
    match t.type with
    | .decimal | .hexnum | .octnum | .binnum => none
    | .decimalWithSuffix =>
      let unitText := unitTextOf ((c.buf.drop t.ptr).take t.len.toNat)
      let s := (unitText.takeWhile (fun b => Prim.isSpace b)).length
      if s == unitText.length then none
      else match translateUnit (unitText.drop s) with
        | some _ => none
        | none => some (-131)
    | .programMnemonic => choiceVerdict c (specialTok c t) specialDef
    | _ => some (-104)
  | .chars => none
  | .block => if t.type == .block then none else some (-104)
  | .text => match t.type with | .singleQuote | .doubleQuote => none | _ => some (-104)

/-- outcome of a reader from the verdict -/
def finish (c : Ctx) (v : Option Int) : Ctx × Bool :=
  match v with
  | none => (c, true)
  | some e => (pushError c e none, false)

theorem paramToChoice_eq (c : Ctx) (t : Token) (opts : List (Bytes × Int)) :
    ((paramToChoice c t opts).1, (paramToChoice c t opts).2.1) = finish c (choiceVerdict c t opts) := by
  unfold paramToChoice choiceVerdict finish
  by_cases h : (t.type == .programMnemonic) = true
  · simp only [h, if_true]
    cases hf : opts.find? (fun o => matchName o.1 ((c.buf.drop t.ptr).take t.len.toNat)) <;> simp
  · simp [h]

theorem number_suffix_aux (c1 : Ctx) (lit U : Bytes) :
    (((if ((U.takeWhile (fun b => Prim.isSpace b)).length == U.length) = true then
          (c1, Ev.pNumber true false 0 lit 0 1 1 10)
        else match translateUnit (U.drop (U.takeWhile (fun b => Prim.isSpace b)).length) with
          | some (u, a, b) => (c1, Ev.pNumber true false 0 lit u a b 10)
          | none => (pushError c1 (-131) none, Ev.pNumber false false 0 [] 0 1 1 10)) : Ctx × Ev).1,
      match ((if ((U.takeWhile (fun b => Prim.isSpace b)).length == U.length) = true then
          (c1, Ev.pNumber true false 0 lit 0 1 1 10)
        else match translateUnit (U.drop (U.takeWhile (fun b => Prim.isSpace b)).length) with
          | some (u, a, b) => (c1, Ev.pNumber true false 0 lit u a b 10)
          | none => (pushError c1 (-131) none, Ev.pNumber false false 0 [] 0 1 1 10)) : Ctx × Ev).2 with
      | .pNumber ok .. => ok
      | _ => false) =
    finish c1 (if ((U.takeWhile (fun b => Prim.isSpace b)).length == U.length) = true then none
      else match translateUnit (U.drop (U.takeWhile (fun b => Prim.isSpace b)).length) with
        | some _ => none
        | none => some (-131)) := by
  by_cases hs : ((U.takeWhile (fun b => Prim.isSpace b)).length == U.length) = true
  · simp only [hs, if_true, finish]
  · simp only [hs]
    cases hT : translateUnit (U.drop (U.takeWhile (fun b => Prim.isSpace b)).length) <;> simp [finish]

theorem runReader_eq (c : Ctx) (r : Reader) (mand : Bool) :
    runReader c r mand =
      if (parameter c mand).2.1 then finish (parameter c mand).1 (verdict r (parameter c mand).1 (parameter c mand).2.2)
      else ((parameter c mand).1, false) := by
  generalize hp : parameter c mand = p
  obtain ⟨c1, ok, t⟩ := p
  cases ok
  · cases r <;> simp [runReader, paramInt, paramFloat, paramBool, paramChoice, paramNumber, paramChars,
      paramBlock, paramText, hp]
  · cases r with
    | int w s =>
      simp only [runReader, paramInt, hp, verdict, finish]
      by_cases h1 : isNumber t false = true
      · simp only [h1]
        cases h2 : (paramToInt c1 t w s).1 <;> simp [h2]
      · by_cases h3 : isNumber t true = true <;> simp [h1, h3]
    | float d =>
      simp only [runReader, paramFloat, hp, verdict, finish]
      by_cases h1 : isNumber t false = true
      · simp only [h1]
        cases t.type <;> simp
      · by_cases h3 : isNumber t true = true <;> simp [h1, h3]
    | bool =>
      simp only [runReader, paramBool, hp, verdict]
      by_cases h1 : (t.type == .decimal) = true
      · simp [h1, finish]
      · have := paramToChoice_eq c1 t boolDef
        simp only [h1]
        simpa using this
    | choice opts =>
      simp only [runReader, paramChoice, hp, verdict]
      have := paramToChoice_eq c1 t opts
      simpa using this
    | number =>
      simp only [runReader, paramNumber, hp, verdict]
      cases hty : t.type
      case programMnemonic =>
        dsimp only
        rw [show choiceVerdict c1 (specialTok c1 t) specialDef = choiceVerdict c1 (specialTok c1 t) specialDef from rfl,
          ← paramToChoice_eq]
        rfl
      case decimalWithSuffix =>
        dsimp only [unitTextOf]
        simp only [Bool.not_true, Bool.false_eq_true, if_false, if_true]
        exact number_suffix_aux c1 _ _
      all_goals simp [finish]
    | chars =>
      simp only [runReader, paramChars, hp, verdict, finish]
      cases t.type <;> simp
    | block =>
      simp only [runReader, paramBlock, hp, verdict, finish]
      by_cases h1 : (t.type == .block) = true <;> simp [h1]
    | text =>
      simp only [runReader, paramText, hp, verdict, finish]
      cases t.type <;> simp

theorem choiceVerdict_codes {c : Ctx} {t : Token} {opts : List (Bytes × Int)} {e : Int}
    (h : choiceVerdict c t opts = some e) : e = -224 ∨ e = -104 := by
  unfold choiceVerdict at h
  split at h
  · split at h
    · cases h
    · left; exact (Option.some.inj h).symm
  · right; exact (Option.some.inj h).symm

theorem verdict_codes {r : Reader} {c : Ctx} {t : Token} {e : Int} (h : verdict r c t = some e) :
    e = -104 ∨ e = -138 ∨ e = -224 ∨ e = -131 := by
  cases r with
  | int w s =>
    simp only [verdict] at h
    repeat' split at h
    all_goals simp_all
    all_goals omega
  | float d =>
    simp only [verdict] at h
    repeat' split at h
    all_goals simp_all
    all_goals omega
  | bool =>
    simp only [verdict] at h
    split at h
    · cases h
    · rcases choiceVerdict_codes h with h | h <;> simp [h]
  | choice opts =>
    simp only [verdict] at h
    rcases choiceVerdict_codes h with h | h <;> simp [h]
  | number =>
    simp only [verdict] at h
    split at h
    case h_5 =>
      split at h
      · cases h
      · split at h
        · cases h
        · simp at h; omega
    case h_6 => rcases choiceVerdict_codes h with h | h <;> simp [h]
    case h_7 => simp at h; omega
    all_goals cases h
  | chars => simp [verdict] at h
  | block =>
    simp only [verdict] at h
    split at h
    · cases h
    · simp at h; omega
  | text =>
    simp only [verdict] at h
    split at h
    · cases h
    · cases h
    · simp at h; omega

theorem verdict_ne_overflow {r : Reader} {c : Ctx} {t : Token} {e : Int} (h : verdict r c t = some e) :
    e ≠ Fifo.overflowCode := by
  have := verdict_codes h
  simp only [Fifo.overflowCode]
  omega

/-- the four ways a reader can end -/
theorem runReader_cases (c : Ctx) (r : Reader) (mand : Bool) :
    (atEnd c ∧ mand = true ∧ runReader c r mand = (pushError c (-109) none, false)) ∨
    (atEnd c ∧ mand = false ∧ runReader c r mand = (c, false)) ∨
    (¬ atEnd c ∧ ∃ c0 e, (c0.events = c.events ∧ c0.cmdError = c.cmdError) ∧ (e = -103 ∨ e = -151) ∧
      runReader c r mand = (pushError c0 e none, false)) ∨
    (¬ atEnd c ∧ ∃ c0 t, (c0.events = c.events ∧ c0.cmdError = c.cmdError) ∧ parameter c mand = (c0, true, t) ∧
      runReader c r mand = finish c0 (verdict r c0 t)) := by
  rw [runReader_eq]
  rw [parameter_eq]
  by_cases h1 : c.ppos ≥ c.pbase + c.plen
  · simp only [h1, if_true]
    cases mand
    · right; left; exact ⟨h1, rfl, by simp⟩
    · left; exact ⟨h1, rfl, by simp⟩
  · simp only [h1, if_false]
    right; right
    split
    · left; exact ⟨h1, { c with ppos := c.pbase + (lexComma (pwin c) (c.ppos - c.pbase)).1 }, -103, ⟨rfl, rfl⟩, .inl rfl, by simp⟩
    · split
      · right; exact ⟨h1, pnext c, _, ⟨rfl, rfl⟩, rfl, by simp⟩
      · left; exact ⟨h1, pnext c, -151, ⟨rfl, rfl⟩, .inr rfl, by simp⟩

theorem errorsSince_finish {c c0 : Ctx} {r : Reader} {t : Token} (h : c0.events = c.events) :
    errorsSince c (finish c0 (verdict r c0 t)).1 = (match verdict r c0 t with | none => [] | some e => [e]) ∧
    ((finish c0 (verdict r c0 t)).2 = true ↔ verdict r c0 t = none) := by
  cases hv : verdict r c0 t with
  | none => simp [finish, errorsSince_of_events_eq h]
  | some e => simp [finish, errorsSince_pushError c c0 e none 0 h (verdict_ne_overflow hv)]

theorem missing_parameter (c : Ctx) (r : Reader) (mand : Bool) (h : atEnd c) :
    let (c', ok) := runReader c r mand
    ok = false ∧ errorsSince c c' = (if mand then [-109] else []) ∧ c'.ppos = c.ppos ∧ (mand = false → c' = c) := by
  rcases runReader_cases c r mand with ⟨_, hm, hr⟩ | ⟨_, hm, hr⟩ | ⟨hn, _⟩ | ⟨hn, _⟩
  · rw [hr]; subst hm
    simp [errorsSince_pushError c c (-109) none 0 rfl (by decide)]
  · rw [hr]; subst hm
    simp [errorsSince_self]
  · exact absurd h hn
  · exact absurd h hn

theorem reader_failure_has_error (c : Ctx) (r : Reader) (mand : Bool) :
    let (c', ok) := runReader c r mand
    ok = false → errorsSince c c' ≠ [] ∨ (mand = false ∧ atEnd c) := by
  rcases runReader_cases c r mand with ⟨_, hm, hr⟩ | ⟨ha, hm, hr⟩ | ⟨hn, c0, e, ⟨hev, _⟩, he, hr⟩ | ⟨hn, c0, t, ⟨hev, _⟩, _, hr⟩
  · rw [hr]; intro _; left
    simp [errorsSince_pushError c c (-109) none 0 rfl (by decide)]
  · rw [hr]; intro _; right; exact ⟨hm, ha⟩
  · rw [hr]; intro _; left
    have hne : e ≠ Fifo.overflowCode := by rcases he with rfl | rfl <;> decide
    simp [errorsSince_pushError c c0 e none 0 hev hne]
  · rw [hr]
    obtain ⟨h1, h2⟩ := errorsSince_finish (c := c) (r := r) (t := t) hev
    show (finish c0 (verdict r c0 t)).2 = false → errorsSince c (finish c0 (verdict r c0 t)).1 ≠ [] ∨ _
    intro hf; left
    rw [h1]
    cases hv : verdict r c0 t with
    | none => rw [h2.2 hv] at hf; cases hf
    | some e => simp

theorem reader_success_is_silent (c : Ctx) (r : Reader) (mand : Bool) :
    let (c', ok) := runReader c r mand
    ok = true → errorsSince c c' = [] := by
  rcases runReader_cases c r mand with ⟨_, hm, hr⟩ | ⟨ha, hm, hr⟩ | ⟨hn, c0, e, ⟨hev, _⟩, he, hr⟩ | ⟨hn, c0, t, ⟨hev, _⟩, _, hr⟩
  · rw [hr]; intro h; cases h
  · rw [hr]; intro h; cases h
  · rw [hr]; intro h; cases h
  · rw [hr]
    obtain ⟨h1, h2⟩ := errorsSince_finish (c := c) (r := r) (t := t) hev
    show (finish c0 (verdict r c0 t)).2 = true → errorsSince c (finish c0 (verdict r c0 t)).1 = []
    intro hf
    rw [h1, h2.1 hf]

/-! ### handler scripts only append events; `cmdError` records whether an error event was appended -/

def isErr : Ev → Bool
  | .error _ _ => true
  | _ => false

def hasErr (es : List Ev) : Bool := es.any isErr

theorem hasErr_append (a b : List Ev) : hasErr (a ++ b) = (hasErr a || hasErr b) := by
  simp [hasErr]

theorem errCodes_of_not_hasErr {es : List Ev} (h : hasErr es = false) : errCodes es = [] := by
  induction es with
  | nil => rfl
  | cons e es ih =>
    simp only [hasErr, List.any_cons, Bool.or_eq_false_iff] at h
    have := ih (by simpa [hasErr] using h.2)
    cases e <;> simp_all [errCodes, countedCode, isErr]

/-- one stage of a unit: events are appended, `cmdError` is raised exactly when an error event is
among them, and (when `q` holds: no explicit push of the overflow code) an error event means a counted code -/
def Step (q : Prop) (c c' : Ctx) : Prop :=
  ∃ es, c'.events = c.events ++ es ∧ c'.cmdError = (c.cmdError || hasErr es) ∧
    (q → hasErr es = true → errCodes es ≠ [])

theorem step_same {q : Prop} {c c' : Ctx} (h1 : c'.events = c.events) (h2 : c'.cmdError = c.cmdError) :
    Step q c c' := ⟨[], by simp [h1], by simp [h2, hasErr], by simp [hasErr]⟩

theorem step_refl {q : Prop} (c : Ctx) : Step q c c := step_same rfl rfl

theorem step_trans {q : Prop} {a b c : Ctx} (h1 : Step q a b) (h2 : Step q b c) : Step q a c := by
  obtain ⟨e1, h1a, h1b, h1c⟩ := h1
  obtain ⟨e2, h2a, h2b, h2c⟩ := h2
  refine ⟨e1 ++ e2, by rw [h2a, h1a, List.append_assoc], by rw [h2b, h1b, hasErr_append, Bool.or_assoc], ?_⟩
  intro hq hh
  rw [errCodes_append]
  rw [hasErr_append, Bool.or_eq_true] at hh
  rcases hh with hh | hh
  · have := h1c hq hh; intro h0; exact this (List.append_eq_nil_iff.1 h0).1
  · have := h2c hq hh; intro h0; exact this (List.append_eq_nil_iff.1 h0).2

theorem step_emit {q : Prop} (c : Ctx) (e : Ev) (he : isErr e = false) : Step q c (emit c e) :=
  ⟨[e], rfl, by simp [emit, hasErr, he], by simp [hasErr, he]⟩

theorem hasErr_pushEvents (c : Ctx) (code : Int) (info : Option Bytes) (n : Nat) :
    hasErr (pushEvents c code info n) = true := by
  unfold pushEvents; simp only []; split <;> simp [hasErr, isErr]

theorem step_pushError {q : Prop} (c : Ctx) (code : Int) (info : Option Bytes) (n : Nat)
    (h : q → code ≠ Fifo.overflowCode) : Step q c (pushError c code info n) :=
  ⟨pushEvents c code info n, pushError_events c code info n, by simp [hasErr_pushEvents],
    fun hq _ => by rw [errCodes_pushEvents_ne _ _ _ _ (h hq)]; simp⟩

theorem step_finish {q : Prop} {c c0 : Ctx} {r : Reader} {t : Token}
    (h : c0.events = c.events ∧ c0.cmdError = c.cmdError) : Step q c (finish c0 (verdict r c0 t)).1 := by
  cases hv : verdict r c0 t with
  | none => exact step_same h.1 h.2
  | some e => exact step_trans (step_same h.1 h.2) (step_pushError c0 e none 0 (fun _ => verdict_ne_overflow hv))

theorem step_runReader {q : Prop} (c : Ctx) (r : Reader) (mand : Bool) : Step q c (runReader c r mand).1 := by
  rcases runReader_cases c r mand with ⟨_, hm, hr⟩ | ⟨ha, hm, hr⟩ | ⟨hn, c0, e, hs, he, hr⟩ | ⟨hn, c0, t, hs, _, hr⟩
  · rw [hr]; exact step_pushError c _ none 0 (fun _ => by decide)
  · rw [hr]; exact step_refl c
  · rw [hr]
    exact step_trans (step_same hs.1 hs.2) (step_pushError c0 e none 0 (fun _ => by rcases he with rfl | rfl <;> decide))
  · rw [hr]; exact step_finish hs

theorem paramText_ctx (c : Ctx) (mand : Bool) (cap : Nat) : (paramText c mand cap).1 = (paramText c mand 16).1 := by
  unfold paramText
  generalize parameter c mand = p
  obtain ⟨c1, ok, t⟩ := p
  cases ok
  · rfl
  · simp only []
    cases t.type <;> rfl

theorem step_paramArrInt {q : Prop} (w : Nat) (s : Bool) (n : Nat) (c : Ctx) (m : Bool) (acc : List Int) :
    Step q c (paramArrInt.go w s n c m acc).1 := by
  induction n generalizing c m acc with
  | zero => exact step_refl c
  | succ n ih =>
    unfold paramArrInt.go
    have h1 : Step q c (paramInt c w s m).1 := step_runReader c (.int w s) m
    generalize paramInt c w s m = p at h1 ⊢
    obtain ⟨c1, ok, v⟩ := p
    cases ok
    · exact h1
    · exact step_trans h1 (ih c1 false (acc ++ [v]))

theorem paramNumber_isErr (c : Ctx) (m : Bool) : isErr (paramNumber c m).2 = false := by
  unfold paramNumber
  generalize parameter c m = p
  obtain ⟨c1, ok, t⟩ := p
  cases ok
  · rfl
  · simp only [Bool.not_true, Bool.false_eq_true, if_false]
    cases hty : t.type <;> dsimp only <;> try rfl
    split
    · rfl
    · split <;> rfl

/-- the events the library's own handlers append are never error events -/
theorem hasErr_bEvs (r : Regs.St) (b : Builtin) : hasErr (Lemmas.Builtin.bEvs r b) = false := by
  cases b <;> simp only [Lemmas.Builtin.bEvs, Lemmas.Builtin.cbEvs] <;> (try split) <;> rfl

theorem step_runBuiltin {q : Prop} (c : Ctx) (b : Builtin) : Step q c (runBuiltin c b).1 := by
  cases hp : Lemmas.Builtin.paramReg b with
  | none =>
    rw [Lemmas.Builtin.runBuiltin_pure c b hp]
    exact ⟨Lemmas.Builtin.bEvs c.regs b, rfl, by simp [hasErr_bEvs], by simp [hasErr_bEvs]⟩
  | some p =>
    obtain ⟨reg, strict⟩ := p
    rw [Lemmas.Builtin.runBuiltin_param c b reg strict hp, Lemmas.Builtin.regFromParam_eq]
    have h1 : Step q c (paramInt c 32 true true).1 := step_runReader c (.int 32 true) true
    dsimp only
    split
    · exact step_trans h1 (step_same rfl rfl)
    · exact h1

/-- the script does not push the overflow code itself -/
def NoOvf (s : List SOp) : Prop := ∀ info, SOp.ePush Fifo.overflowCode info ∉ s

theorem step_runOp {q : Prop} (h : HState) (op : SOp) (hq : q → ∀ info, op ≠ .ePush Fifo.overflowCode info) :
    Step q h.c (runOp h op).c := by
  unfold runOp
  by_cases hd : h.done = true
  · simp only [hd, if_true]; exact step_refl _
  · rw [if_neg hd]
    cases op with
    | pInt w s m =>
      simp only []
      have h1 : Step q h.c (paramInt h.c w s m).1 := step_runReader h.c (.int w s) m
      generalize paramInt h.c w s m = p at h1 ⊢
      obtain ⟨c1, ok, v⟩ := p
      simp only [apply_ite HState.c, ite_self]
      exact step_trans h1 (step_emit _ _ rfl)
    | pFloat d m =>
      simp only []
      have h1 : Step q h.c (paramFloat h.c d m).1 := step_runReader h.c (.float d) m
      generalize paramFloat h.c d m = p at h1 ⊢
      obtain ⟨c1, ok, v⟩ := p
      simp only [apply_ite HState.c, ite_self]
      exact step_trans h1 (step_emit _ _ rfl)
    | pBool m =>
      simp only []
      have h1 : Step q h.c (paramBool h.c m).1 := step_runReader h.c .bool m
      generalize paramBool h.c m = p at h1 ⊢
      obtain ⟨c1, ok, v⟩ := p
      simp only [apply_ite HState.c, ite_self]
      exact step_trans h1 (step_emit _ _ rfl)
    | pChoice m k =>
      simp only []
      have h1 : Step q h.c (paramChoice h.c m (h.c.choices.getD k [])).1 :=
        step_runReader h.c (.choice (h.c.choices.getD k [])) m
      generalize paramChoice h.c m (h.c.choices.getD k []) = p at h1 ⊢
      obtain ⟨c1, ok, v⟩ := p
      simp only [apply_ite HState.c, ite_self]
      exact step_trans h1 (step_emit _ _ rfl)
    | pNumber m =>
      simp only []
      have h1 : Step q h.c (paramNumber h.c m).1 := step_runReader h.c .number m
      have h2 := paramNumber_isErr h.c m
      generalize paramNumber h.c m = p at h1 h2 ⊢
      obtain ⟨c1, e⟩ := p
      simp only [apply_ite HState.c, ite_self]
      refine step_trans h1 (step_emit _ _ ?_)
      exact h2
    | pChars m =>
      simp only []
      have h1 : Step q h.c (paramChars h.c m).1 := step_runReader h.c .chars m
      generalize paramChars h.c m = p at h1 ⊢
      obtain ⟨c1, ok, v, w⟩ := p
      simp only [apply_ite HState.c, ite_self]
      exact step_trans h1 (step_emit _ _ rfl)
    | pBlock m =>
      simp only []
      have h1 : Step q h.c (paramBlock h.c m).1 := step_runReader h.c .block m
      generalize paramBlock h.c m = p at h1 ⊢
      obtain ⟨c1, ok, v, w⟩ := p
      simp only [apply_ite HState.c, ite_self]
      exact step_trans h1 (step_emit _ _ rfl)
    | pText m cap =>
      simp only []
      have h1 : Step q h.c (paramText h.c m cap).1 := by
        rw [paramText_ctx]; exact step_runReader h.c .text m
      generalize paramText h.c m cap = p at h1 ⊢
      obtain ⟨c1, ok, v, w⟩ := p
      simp only [apply_ite HState.c, ite_self]
      exact step_trans h1 (step_emit _ _ rfl)
    | pArrInt w s cap m =>
      simp only []
      have h1 : Step q h.c (paramArrInt h.c w s cap m).1 := step_paramArrInt w s cap h.c m []
      generalize paramArrInt h.c w s cap m = p at h1 ⊢
      obtain ⟨c1, ok, v⟩ := p
      simp only [apply_ite HState.c, ite_self]
      exact step_trans h1 (step_emit _ _ rfl)
    | rBlockData d =>
      dsimp only
      split
      · exact step_trans (step_same (c' := { h.c with out := Result.resultBlockData h.c.out d }) rfl rfl)
          (step_pushError _ (-310) none 0 (fun _ => by decide))
      · exact step_same rfl rfl
    | rArrBin sz es same =>
      dsimp only
      split
      · exact step_trans (step_same (c' := { h.c with out := Result.resultArrayBinary h.c.out es sz same }) rfl rfl)
          (step_pushError _ (-310) none 0 (fun _ => by decide))
      · exact step_same rfl rfl
    | ePush code info => exact step_pushError _ _ _ 0 (fun hq' hc => hq hq' info (by rw [hc]))
    | iTag => exact step_emit _ _ rfl
    | iIsCmd s => exact step_emit _ _ rfl
    | iMatch pat s => exact step_emit _ _ rfl
    | iNums n d =>
      simp only []
      split
      · exact step_emit _ _ rfl
      · exact step_refl _
    | builtin b =>
      dsimp only
      have h1 : Step q h.c (runBuiltin h.c b).1 := step_runBuiltin h.c b
      split
      · exact h1
      · exact h1
    | _ => exact step_same rfl rfl

theorem step_foldl {q : Prop} (s : List SOp) (h : HState) (hq : q → NoOvf s) :
    Step q h.c (s.foldl runOp h).c := by
  induction s generalizing h with
  | nil => exact step_refl _
  | cons op s ih =>
    simp only [List.foldl_cons]
    refine step_trans (step_runOp h op ?_) (ih _ ?_)
    · intro hq' info hop; exact hq hq' info (by simp [hop])
    · intro hq' info hm; exact hq hq' info (by simp [hm])

theorem step_runScript {q : Prop} (c : Ctx) (s : List SOp) (hq : q → NoOvf s) : Step q c (runScript c s).1 :=
  step_foldl s { c := c } hq
--BEGIN
/-- the output bookkeeping at the end of a unit -/
def outFix (c : Ctx) : Ctx :=
  let c := if c.out.outputCount > 0 then { c with out := { c.out with firstOutput := false } } else c
  { c with out := Result.endUnit c.out }

@[simp] theorem outFix_events (c : Ctx) : (outFix c).events = c.events := by unfold outFix; dsimp only; split <;> rfl
@[simp] theorem outFix_cmdError (c : Ctx) : (outFix c).cmdError = c.cmdError := by unfold outFix; dsimp only; split <;> rfl
@[simp] theorem outFix_ppos (c : Ctx) : (outFix c).ppos = c.ppos := by unfold outFix; dsimp only; split <;> rfl
@[simp] theorem outFix_pbase (c : Ctx) : (outFix c).pbase = c.pbase := by unfold outFix; dsimp only; split <;> rfl
@[simp] theorem outFix_plen (c : Ctx) : (outFix c).plen = c.plen := by unfold outFix; dsimp only; split <;> rfl

/-- processCommand after the handler has run -/
def afterHandler (c2 : Ctx) (ok : Bool) : Ctx × Bool :=
  let cA : Ctx := if !ok then (if !c2.cmdError then pushError c2 (-200) none else c2) else c2
  let result : Bool := if !ok then false else !c2.cmdError
  let c := outFix cA
  if c.ppos < c.pbase + c.plen ∧ !c.cmdError then (pushError c (-108) none, false) else (c, result)

theorem afterHandler_eq (rs : Ctx × Bool) :
    (let (c, result) : Ctx × Bool :=
        (let (c, ok) := rs
         if !ok then ((if !c.cmdError then pushError c (-200) none else c), false) else (c, !c.cmdError))
     let c := if c.out.outputCount > 0 then { c with out := { c.out with firstOutput := false } } else c
     let c := { c with out := Result.endUnit c.out }
     if c.ppos < c.pbase + c.plen ∧ !c.cmdError then (pushError c (-108) none, false) else (c, result)) =
    afterHandler rs.1 rs.2 := by
  obtain ⟨c2, ok⟩ := rs
  cases ok <;> rfl

theorem processCommand_eq (c : Ctx) (cmd : Cmd) (hc : c.cur = some cmd) :
    processCommand c =
      let c0 := { c with cmdError := false, inputCount := 0,
                         out := { c.out with outputCount := if c.out.firstOutput then 0 else -1, arbRemaining := 0 } }
      let c1 := emit c0 (.handler cmd.tag ((c0.buf.drop c0.rawOff).take c0.rawLen))
      afterHandler (runScript c1 cmd.script).1 (runScript c1 cmd.script).2 := by
  cases c
  simp only at hc
  subst hc
  exact afterHandler_eq (runScript (emit _ (Ev.handler cmd.tag _)) cmd.script)

theorem afterHandler_spec (c2 : Ctx) (ok : Bool) :
    ∃ es, (afterHandler c2 ok).1.events = c2.events ++ es ∧
      errCodes es = (if !ok ∧ c2.cmdError = false then [-200] else []) ++
        (if c2.ppos < c2.pbase + c2.plen ∧ (c2.cmdError = false ∧ ok) then [-108] else []) ∧
      ((afterHandler c2 ok).2 = true ↔ ok = true ∧ c2.cmdError = false ∧ ¬ c2.ppos < c2.pbase + c2.plen) := by
  unfold afterHandler
  cases ok
  · cases hce : c2.cmdError
    · refine ⟨pushEvents c2 (-200) none 0, ?_, ?_, ?_⟩
      · simp [pushError_events]
      · rw [errCodes_pushEvents_ne _ _ _ _ (by decide)]; simp
      · simp
    · refine ⟨[], ?_, ?_, ?_⟩
      · simp [hce]
      · simp
      · simp [hce]
  · by_cases hlt : c2.ppos < c2.pbase + c2.plen ∧ c2.cmdError = false
    · refine ⟨pushEvents (outFix c2) (-108) none 0, ?_, ?_, ?_⟩
      · simp [pushError_events, hlt]
      · rw [errCodes_pushEvents_ne _ _ _ _ (by decide)]; simp [hlt]
      · simp [hlt]
    · refine ⟨[], ?_, ?_, ?_⟩
      · simp [hlt]
      · simp [hlt]
      · simp [hlt]
        intro h0
        by_cases h1 : c2.ppos < c2.pbase + c2.plen
        · exact absurd ⟨h1, h0⟩ hlt
        · omega

theorem unit_accounting (c : Ctx) (cmd : Cmd) (hc : c.cur = some cmd) :
    let c0 := { c with cmdError := false, inputCount := 0,
                       out := { c.out with outputCount := if c.out.firstOutput then 0 else -1, arbRemaining := 0 } }
    let c1 := emit c0 (.handler cmd.tag ((c0.buf.drop c0.rawOff).take c0.rawLen))
    let (c2, ok) := runScript c1 cmd.script
    let (c', res) := processCommand c
    let own := errorsSince c1 c2
    errorsSince c c' = own ++ (if !ok ∧ c2.cmdError = false then [-200] else []) ++
      (if c2.ppos < c2.pbase + c2.plen ∧ (c2.cmdError = false ∧ ok) then [-108] else []) ∧
    ((∀ info, SOp.ePush Fifo.overflowCode info ∉ cmd.script) → (res = true ↔ errorsSince c c' = [] ∧ ok = true)) := by
  intro c0 c1
  have hst : Step (NoOvf cmd.script) c1 (runScript c1 cmd.script).1 := step_runScript c1 _ id
  have hc1 : c1.events = c.events ++ [.handler cmd.tag ((c0.buf.drop c0.rawOff).take c0.rawLen)] := rfl
  have hc1e : c1.cmdError = false := rfl
  have hpc : processCommand c = afterHandler (runScript c1 cmd.script).1 (runScript c1 cmd.script).2 :=
    processCommand_eq c cmd hc
  rw [hpc]
  generalize runScript c1 cmd.script = rs at hst ⊢
  obtain ⟨c2, ok⟩ := rs
  obtain ⟨es, he, hce, hq⟩ := hst
  simp only [hc1e, Bool.false_or] at hce
  obtain ⟨es2, he2, hcodes, hres⟩ := afterHandler_spec c2 ok
  dsimp only at he hce he2 hres ⊢
  have hown : errorsSince c1 c2 = errCodes es := errorsSince_of_append he
  have hall : errorsSince c (afterHandler c2 ok).1 = errCodes es ++ errCodes es2 := by
    rw [errorsSince_of_append (es := [Ev.handler cmd.tag ((c0.buf.drop c0.rawOff).take c0.rawLen)] ++ es ++ es2)
      (by rw [he2, he, hc1]; simp)]
    simp [errCodes_append, errCodes, countedCode, List.filterMap_cons, List.filterMap_append]
  generalize afterHandler c2 ok = r at hall hres ⊢
  obtain ⟨c', res⟩ := r
  dsimp only at hall hres ⊢
  refine ⟨by rw [hall, hown, hcodes, List.append_assoc], ?_⟩
  intro hno
  rw [hres, hall, hcodes]
  constructor
  · rintro ⟨h1, h2, h3⟩
    subst h1
    have : errCodes es = [] := errCodes_of_not_hasErr (by rw [← hce]; exact h2)
    simp [this, h2, h3]
  · rintro ⟨h1, h2⟩
    subst h2
    have h1' := List.append_eq_nil_iff.1 h1
    have hce2 : c2.cmdError = false := by
      cases hh : hasErr es with
      | false => rw [hce, hh]
      | true => exact absurd h1'.1 (hq hno hh)
    refine ⟨rfl, hce2, ?_⟩
    intro hlt
    have := h1'.2
    simp [hce2, hlt] at this


section DataItems
open ScpiVerif.Spec ScpiVerif.Lemmas.Lexer

/-! ### what a data item of the specification looks like, by type -/

theorem nondecimal_some_cases {s : Bytes} {e : Expect} (h : specToken .nondecimal s = some e) :
    ∃ pd : UInt8 → Bool, ((e.type = .hexnum ∧ pd = isXDigit) ∨ (e.type = .octnum ∧ pd = isQDigit) ∨
        (e.type = .binnum ∧ pd = isBDigit)) ∧
      e.payloadOff = 2 ∧ 0 < e.payloadLen ∧ e.consumed = 2 + e.payloadLen ∧ e.payloadLen = tw pd (s.drop 2) := by
  rw [specToken_nondecimal] at h
  simp only [longest_numRe, List.drop_drop] at h
  rcases pdata_orElse_some h with h | h
  · split at h
    · rename_i n hn
      split at hn
      · rename_i hc
        cases hn; cases h
        exact ⟨isXDigit, .inl ⟨rfl, rfl⟩, rfl, by have := hc.2.2; simp; omega, by simp, by simp⟩
      · cases hn
    · cases h
  · rcases pdata_orElse_some h with h | h
    · split at h
      · rename_i n hn
        split at hn
        · rename_i hc
          cases hn; cases h
          exact ⟨isQDigit, .inr (.inl ⟨rfl, rfl⟩), rfl, by have := hc.2.2; simp; omega, by simp, by simp⟩
        · cases hn
      · cases h
    · split at h
      · rename_i n hn
        split at hn
        · rename_i hc
          cases hn; cases h
          exact ⟨isBDigit, .inr (.inr ⟨rfl, rfl⟩), rfl, by have := hc.2.2; simp; omega, by simp, by simp⟩
        · cases hn
      · cases h

inductive ItemShape (s : Bytes) (n : Nat) (t : TokType) (po pl : Nat) : Prop where
  | nondecimal (pd : UInt8 → Bool)
      (ht : (t = .hexnum ∧ pd = isXDigit) ∨ (t = .octnum ∧ pd = isQDigit) ∨ (t = .binnum ∧ pd = isBDigit))
      (hpo : po = 2) (hpl : 0 < pl) (hn : n = 2 + pl) (htw : pl = tw pd (s.drop 2))
  | chr (ht : t = .programMnemonic) (hpo : po = 0) (hpl : pl = n)
      (hs : specToken .chr s = some ⟨n, .programMnemonic, 0, n⟩)
  | decimal (ht : t = .decimal) (hpo : po = 0) (hpl : pl = n)
      (hs : specToken .decimal s = some ⟨n, .decimal, 0, n⟩)
  | withSuffix (e sf : Nat) (ht : t = .decimalWithSuffix) (hpo : po = 0) (hpl : pl = n)
      (hs : specToken .decimal s = some ⟨e, .decimal, 0, e⟩)
      (hsf : specToken .suffix (s.drop (e + wsLen (s.drop e))) = some ⟨sf, .suffix, 0, sf⟩)
      (hn : n = e + wsLen (s.drop e) + sf)
  | other (ht : t = .singleQuote ∨ t = .doubleQuote ∨ t = .block ∨ t = .expression)

theorem specData_item_shape {s : Bytes} {n : Nat} {t : TokType} {po pl : Nat}
    (h : specData s = .item n t po pl) : ItemShape s n t po pl := by
  rw [pdata_specData_eq] at h
  unfold pdata_tok at h
  split at h
  · rename_i e he
    cases h
    obtain ⟨pd, h1, h2, h3, h4, h5⟩ := nondecimal_some_cases he
    exact .nondecimal pd h1 h2 h3 h4 h5
  · split at h
    · rename_i e he
      cases h
      have := pdata_chr_some he
      rw [this.2] at he
      rw [this.2]
      exact .chr rfl rfl rfl he
    · unfold pdata_sd3 at h
      split at h
      · rename_i e he
        have h0 := pdata_decimal_some he
        rw [h0.2] at he
        simp only [] at h
        split at h
        · rename_i sf hsf
          cases h
          have h1 := pdata_suffix_some hsf
          rw [h1.2] at hsf
          exact .withSuffix e.consumed sf.consumed rfl rfl rfl he hsf rfl
        · cases h
          exact .decimal rfl rfl rfl he
      · unfold pdata_tok at h
        split at h
        · rename_i e he
          cases h
          refine .other ?_
          simp only [specToken] at he
          split at he
          · cases he; exact .inr (.inl rfl)
          · split at he
            · cases he; exact .inl rfl
            · cases he
        · unfold pdata_sd5 at h
          split at h
          · cases h; exact .other (.inr (.inr (.inl rfl)))
          · cases h
          · unfold pdata_tok at h
            split at h
            · rename_i e he
              cases h
              rw [(pdata_expression_some he).2]
              exact .other (.inr (.inr (.inr rfl)))
            · cases h

theorem specData_item_valid {s : Bytes} {n : Nat} {t : TokType} {po pl : Nat}
    (h : Spec.specData s = .item n t po pl) : validType t = true := by
  cases specData_item_shape h with
  | nondecimal pd ht => rcases ht with ⟨rfl, _⟩ | ⟨rfl, _⟩ | ⟨rfl, _⟩ <;> rfl
  | chr ht => subst ht; rfl
  | decimal ht => subst ht; rfl
  | withSuffix e sf ht => subst ht; rfl
  | other ht => rcases ht with rfl | rfl | rfl | rfl <;> rfl

/-! ### SCPI_Parameter against the data specification -/

theorem pwin_length (c : Ctx) (hw : c.pbase + c.plen ≤ c.buf.length) : (pwin c).length = c.plen := by
  simp [pwin]; omega

theorem lexComma_eq (win : Bytes) (rel : Nat) :
    lexComma win rel = if win[rel]? = some 44 then (rel + 1, mkTok .comma rel 1, 1) else (rel, mkTok .unknown rel 0, 0) := by
  unfold lexComma lexOneChar peekP
  cases h : win[rel]? with
  | none => simp
  | some b => by_cases hb : b = 44 <;> simp [hb]

theorem pstart_le (c : Ctx) (h : ¬ atEnd c) (hw : c.pbase + c.plen ≤ c.buf.length) :
    pstart c ≤ (pwin c).length := by
  rw [pwin_length c hw]
  unfold pstart
  simp only [atEnd] at h
  split
  · rw [lexComma_eq]
    split
    · rename_i h44
      have : c.ppos - c.pbase < (pwin c).length := by
        rcases Nat.lt_or_ge (c.ppos - c.pbase) (pwin c).length with h1 | h1
        · exact h1
        · rw [List.getElem?_eq_none h1] at h44; cases h44
      rw [pwin_length c hw] at this
      simp only []; omega
    · simp only []; omega
  · omega

theorem parameter_delivers_next_item (c : Ctx) (mand : Bool) (h : ¬ atEnd c) (hw : c.pbase + c.plen ≤ c.buf.length)
    (hpos : c.pbase ≤ c.ppos) :
    let win := (c.buf.drop c.pbase).take c.plen
    let rel := c.ppos - c.pbase
    let (c', ok, tok) := parameter c mand
    if c.inputCount ≠ 0 ∧ win[rel]? ≠ some 44 then ok = false ∧ errorsSince c c' = [-103]
    else
      let start := if c.inputCount ≠ 0 then rel + 1 else rel
      let w0 := Spec.wsLen (win.drop start)
      match Spec.specData (win.drop (start + w0)) with
      | .item n t po pl =>
        ok = true ∧ tok = ⟨t, c.pbase + start + w0 + po, pl⟩ ∧
        c'.ppos = c.pbase + start + w0 + n + Spec.wsLen (win.drop (start + w0 + n)) ∧ errorsSince c c' = []
      | _ => ok = false ∧ errorsSince c c' = [-151] := by
  intro win rel
  have hle := pstart_le c h hw
  have hatend : ¬ c.ppos ≥ c.pbase + c.plen := h
  rw [parameter_eq, if_neg hatend]
  have hcm : ((lexComma (pwin c) (c.ppos - c.pbase)).2.1.type != .comma) = true ↔ win[rel]? ≠ some 44 := by
    rw [lexComma_eq]
    show _ ↔ (pwin c)[c.ppos - c.pbase]? ≠ some 44
    split <;> simp_all [mkTok]
  by_cases hcomma : c.inputCount ≠ 0 ∧ win[rel]? ≠ some 44
  · rw [if_pos (by simpa [hcm] using hcomma)]
    dsimp only
    rw [if_pos hcomma]
    exact ⟨rfl, errorsSince_pushError c _ (-103) none 0 rfl (by decide)⟩
  · rw [if_neg (by simpa [hcm] using hcomma)]
    have hstart : pstart c = (if c.inputCount ≠ 0 then rel + 1 else rel) := by
      unfold pstart
      by_cases hi : c.inputCount ≠ 0
      · have h44 : win[rel]? = some 44 := by
          by_cases h4 : win[rel]? = some 44
          · exact h4
          · exact absurd ⟨hi, h4⟩ hcomma
        have : (c.inputCount != 0) = true := by simpa using hi
        have h44' : (pwin c)[c.ppos - c.pbase]? = some 44 := h44
        rw [if_pos this, if_pos hi, lexComma_eq, if_pos h44']
      · have : ¬ (c.inputCount != 0) = true := by simpa using hi
        rw [if_neg this, if_neg hi]
    have hspec := Props.C13.programData_spec (pwin c) (pstart c) hle
    simp only [List.drop_drop] at hspec
    rw [hstart] at hspec
    have hptok : ptok c = (Parser.parseProgramData (pwin c) (if c.inputCount ≠ 0 then rel + 1 else rel)).2.1 := by
      unfold ptok; rw [hstart]
    have hpnext : (pnext c).ppos = c.pbase + (Parser.parseProgramData (pwin c) (if c.inputCount ≠ 0 then rel + 1 else rel)).1 := by
      unfold pnext; rw [hstart]
    have hwin : pwin c = win := rfl
    rw [hwin] at hspec hptok hpnext
    by_cases hv : validType (ptok c).type = true
    · rw [if_pos hv]
      dsimp only
      rw [if_neg hcomma]
      generalize (if c.inputCount ≠ 0 then rel + 1 else rel) = start at hspec hptok hpnext ⊢
      generalize Spec.wsLen (List.drop start win) = w0 at hspec ⊢
      generalize hsd : Spec.specData (List.drop (start + w0) win) = d at hspec ⊢
      cases d with
      | item n t po pl =>
        dsimp only at hspec ⊢
        obtain ⟨h1, _, h3, _⟩ := hspec
        refine ⟨rfl, ?_, ?_, errorsSince_of_events_eq rfl⟩
        · rw [hptok, h3]; simp only [Nat.add_assoc]
        · rw [hpnext, h1]; simp only [Nat.add_assoc]
      | swallow =>
        dsimp only at hspec
        rw [hptok, hspec.1] at hv; cases hv
      | none =>
        dsimp only at hspec
        rw [hptok, hspec.1] at hv; cases hv
    · rw [if_neg hv]
      dsimp only
      rw [if_neg hcomma]
      generalize (if c.inputCount ≠ 0 then rel + 1 else rel) = start at hspec hptok hpnext ⊢
      generalize Spec.wsLen (List.drop start win) = w0 at hspec ⊢
      generalize hsd : Spec.specData (List.drop (start + w0) win) = d at hspec ⊢
      cases d with
      | item n t po pl =>
        dsimp only at hspec
        obtain ⟨h1, _, h3, _⟩ := hspec
        rw [hptok, h3] at hv
        exact absurd (specData_item_valid hsd) hv
      | swallow => exact ⟨rfl, errorsSince_pushError c _ (-151) none 0 rfl (by decide)⟩
      | none => exact ⟨rfl, errorsSince_pushError c _ (-151) none 0 rfl (by decide)⟩

end DataItems

/-! ### strtol / strtoul convert something iff the first byte after the sign is a digit of the base -/
section Strto
open ScpiVerif.Prim


theorem rd_drop (mem : Bytes) (off k : Nat) : rd mem (off + k) = (mem.drop off).getD k 0 := by
  simp [rd, List.getD_eq_getElem?_getD, List.getElem?_drop]

theorem digitsOfBase_le (mem : Bytes) (base : Nat) :
    ∀ fuel i acc, i ≤ (digitsOfBase mem base fuel i acc).1 := by
  intro fuel
  induction fuel with
  | zero => intro i acc; simp [digitsOfBase]
  | succ f ih =>
    intro i acc
    simp only [digitsOfBase]
    split
    · split
      · rename_i d _ _
        have := ih (i+1) (acc*base+d); omega
      · simp
    · simp

theorem digitsOfBase_pos_iff (mem : Bytes) (base f i acc : Nat) :
    (digitsOfBase mem base (f+1) i acc).1 ≠ i ↔ ∃ d, digitVal (rd mem i) = some d ∧ d < base := by
  simp only [digitsOfBase]
  split
  · rename_i d hd
    split
    · rename_i hlt
      have := digitsOfBase_le mem base f (i+1) (acc*base+d)
      constructor
      · intro _; exact ⟨d, hd, hlt⟩
      · intro _; omega
    · rename_i hlt
      simp [hd]
      omega
  · rename_i hd
    simp [hd]

theorem hex_digit (b : UInt8) (h : isHexDigit b = true) : ∃ d, digitVal b = some d ∧ d < 16 := by
  simp only [isHexDigit, Bool.or_eq_true, Bool.and_eq_true, decide_eq_true_eq, UInt8.le_iff_toNat_le] at h
  simp only [digitVal, UInt8.le_iff_toNat_le]
  have h48 : (48 : UInt8).toNat = 48 := rfl
  have h57 : (57 : UInt8).toNat = 57 := rfl
  have h97 : (97 : UInt8).toNat = 97 := rfl
  have h102 : (102 : UInt8).toNat = 102 := rfl
  have h122 : (122 : UInt8).toNat = 122 := rfl
  have h65 : (65 : UInt8).toNat = 65 := rfl
  have h70 : (70 : UInt8).toNat = 70 := rfl
  have h90 : (90 : UInt8).toNat = 90 := rfl
  simp only [h48, h57, h97, h102, h122, h65, h70, h90] at h ⊢
  split
  · exact ⟨_, rfl, by omega⟩
  · split
    · exact ⟨_, rfl, by omega⟩
    · split
      · exact ⟨_, rfl, by omega⟩
      · omega

theorem strtoSyntax_fst (mem : Bytes) (off base i1 : Nat) (neg : Bool)
    (h0 : skipSpaces mem (mem.length - off + 1) off = off)
    (h1 : (if rd mem off == 45 then (true, off + 1) else if rd mem off == 43 then (false, off + 1) else (false, off)) = (neg, i1)) :
    (strtoSyntax mem off base).1 =
      if (digitsOfBase mem base (mem.length - (if base == 16 ∧ rd mem i1 == 48 ∧ (rd mem (i1 + 1) == 120 ∨ rd mem (i1 + 1) == 88) ∧
       isHexDigit (rd mem (i1 + 2)) then i1 + 2 else i1) + 2) (if base == 16 ∧ rd mem i1 == 48 ∧ (rd mem (i1 + 1) == 120 ∨ rd mem (i1 + 1) == 88) ∧
       isHexDigit (rd mem (i1 + 2)) then i1 + 2 else i1) 0).1 = (if base == 16 ∧ rd mem i1 == 48 ∧ (rd mem (i1 + 1) == 120 ∨ rd mem (i1 + 1) == 88) ∧
       isHexDigit (rd mem (i1 + 2)) then i1 + 2 else i1) then 0 else (digitsOfBase mem base (mem.length - (if base == 16 ∧ rd mem i1 == 48 ∧ (rd mem (i1 + 1) == 120 ∨ rd mem (i1 + 1) == 88) ∧
       isHexDigit (rd mem (i1 + 2)) then i1 + 2 else i1) + 2) (if base == 16 ∧ rd mem i1 == 48 ∧ (rd mem (i1 + 1) == 120 ∨ rd mem (i1 + 1) == 88) ∧
       isHexDigit (rd mem (i1 + 2)) then i1 + 2 else i1) 0).1 - off := by
  simp only [strtoSyntax, h0, h1]
  generalize (if base == 16 ∧ rd mem i1 == 48 ∧ (rd mem (i1 + 1) == 120 ∨ rd mem (i1 + 1) == 88) ∧
       isHexDigit (rd mem (i1 + 2)) then i1 + 2 else i1) = i2
  simp only [beq_iff_eq]
  split <;> rfl

theorem digitsOfBase_pos_iff' (mem : Bytes) (base f i acc : Nat) (hf : 0 < f) :
    (digitsOfBase mem base f i acc).1 ≠ i ↔ ∃ d, digitVal (rd mem i) = some d ∧ d < base := by
  obtain ⟨f', rfl⟩ : ∃ f', f = f' + 1 := ⟨f - 1, by omega⟩
  exact digitsOfBase_pos_iff mem base f' i acc

theorem strtoSyntax_core (mem : Bytes) (off base i1 : Nat) (neg : Bool) (x : UInt8)
    (h0 : skipSpaces mem (mem.length - off + 1) off = off)
    (h1 : (if rd mem off == 45 then (true, off + 1) else if rd mem off == 43 then (false, off + 1) else (false, off)) = (neg, i1))
    (hle : off ≤ i1) (hx : rd mem i1 = x) :
    0 < (strtoSyntax mem off base).1 ↔ ∃ d, digitVal x = some d ∧ d < base := by
  rw [strtoSyntax_fst mem off base i1 neg h0 h1]
  split
  · rename_i hc
    obtain ⟨hb, h48, _, hhex⟩ := hc
    have hb' : base = 16 := by simpa using hb
    have hx48 : x = 48 := by rw [← hx]; simpa using h48
    obtain ⟨d, hd, hd16⟩ := hex_digit _ hhex
    have hp := (digitsOfBase_pos_iff' mem base (mem.length - (i1 + 2) + 2) (i1 + 2) 0 (by omega)).2 ⟨d, hd, by omega⟩
    have hge := digitsOfBase_le mem base (mem.length - (i1 + 2) + 2) (i1 + 2) 0
    rw [if_neg hp]
    constructor
    · intro _
      refine ⟨0, ?_, by omega⟩
      subst hx48; rfl
    · intro _
      omega
  · have hp := digitsOfBase_pos_iff' mem base (mem.length - i1 + 2) i1 0 (by omega)
    have hge := digitsOfBase_le mem base (mem.length - i1 + 2) i1 0
    rw [hx] at hp
    rw [← hp]
    split
    · rename_i h; simp [h]
    · rename_i h
      simp only [h, ne_eq, not_false_eq_true, iff_true]
      omega

theorem skipSpaces_stop (mem : Bytes) (f i : Nat) (h : isSpace (rd mem i) = false) :
    skipSpaces mem (f + 1) i = i := by
  simp [skipSpaces, h]

theorem strtoSyntax_pos_iff (mem : Bytes) (off base : Nat) (sg rest : Bytes) (x : UInt8)
    (hmem : mem.drop off = sg ++ x :: rest) (hsg : sg = [] ∨ sg = [43] ∨ sg = [45])
    (hx : isSpace x = false ∧ x ≠ 43 ∧ x ≠ 45)
    (hb : base = 10 ∨ base = 8 ∨ base = 2 ∨ base = 16) :
    0 < (strtoSyntax mem off base).1 ↔ ∃ d, digitVal x = some d ∧ d < base := by
  obtain ⟨hsp, h43, h45⟩ := hx
  have r0 := rd_drop mem off 0
  have r1 := rd_drop mem off 1
  rw [hmem] at r0 r1
  rcases hsg with rfl | rfl | rfl
  · have r0 : rd mem off = x := by simpa using r0
    apply strtoSyntax_core mem off base off false x
    · exact skipSpaces_stop mem _ off (by rw [r0]; exact hsp)
    · simp [r0, h43, h45]
    · omega
    · exact r0
  · have r0 : rd mem off = 43 := by simpa using r0
    have r1 : rd mem (off + 1) = x := by simpa using r1
    apply strtoSyntax_core mem off base (off + 1) false x
    · exact skipSpaces_stop mem _ off (by rw [r0]; decide)
    · simp [r0]
    · omega
    · exact r1
  · have r0 : rd mem off = 45 := by simpa using r0
    have r1 : rd mem (off + 1) = x := by simpa using r1
    apply strtoSyntax_core mem off base (off + 1) true x
    · exact skipSpaces_stop mem _ off (by rw [r0]; decide)
    · simp [r0]
    · omega
    · exact r1

theorem strtolTo_fst (w : Nat) (mem : Bytes) (off base : Nat) :
    (strtolTo w mem off base).1 = (strtoSyntax mem off base).1 := by
  simp only [strtolTo]
  split
  · rename_i h; simp at h; simp [h]
  · rfl

theorem strtoulTo_fst (w : Nat) (mem : Bytes) (off base : Nat) :
    (strtoulTo w mem off base).1 = (strtoSyntax mem off base).1 := by
  simp only [strtoulTo]
  split
  · rename_i h; simp at h; simp [h]
  · rfl

theorem strtolTo_pos_iff (w : Nat) (mem : Bytes) (off base : Nat) (sg rest : Bytes) (x : UInt8)
    (hmem : mem.drop off = sg ++ x :: rest) (hsg : sg = [] ∨ sg = [43] ∨ sg = [45])
    (hx : isSpace x = false ∧ x ≠ 43 ∧ x ≠ 45)
    (hb : base = 10 ∨ base = 8 ∨ base = 2 ∨ base = 16) :
    0 < (strtolTo w mem off base).1 ↔ ∃ d, digitVal x = some d ∧ d < base := by
  rw [strtolTo_fst]; exact strtoSyntax_pos_iff mem off base sg rest x hmem hsg hx hb

theorem strtoulTo_pos_iff (w : Nat) (mem : Bytes) (off base : Nat) (sg rest : Bytes) (x : UInt8)
    (hmem : mem.drop off = sg ++ x :: rest) (hsg : sg = [] ∨ sg = [43] ∨ sg = [45])
    (hx : isSpace x = false ∧ x ≠ 43 ∧ x ≠ 45)
    (hb : base = 10 ∨ base = 8 ∨ base = 2 ∨ base = 16) :
    0 < (strtoulTo w mem off base).1 ↔ ∃ d, digitVal x = some d ∧ d < base := by
  rw [strtoulTo_fst]; exact strtoSyntax_pos_iff mem off base sg rest x hmem hsg hx hb

/-- for base 10 the condition is `isDigit x` -/
theorem digitVal_lt_10 (x : UInt8) : (∃ d, digitVal x = some d ∧ d < 10) ↔ isDigit x = true := by
  simp only [isDigit, Bool.and_eq_true, decide_eq_true_eq, digitVal]
  split
  · rename_i h
    simp only [h, and_self, iff_true]
    refine ⟨_, rfl, ?_⟩
    have := h.2
    rw [UInt8.le_iff_toNat_le] at this
    have h57 : (57 : UInt8).toNat = 57 := rfl
    omega
  · rename_i h
    simp only [h, iff_false]
    split
    · rintro ⟨d, hd, hlt⟩
      simp only [Option.some.injEq] at hd
      omega
    · split
      · rintro ⟨d, hd, hlt⟩
        simp only [Option.some.injEq] at hd
        omega
      · simp


end Strto


section TokenText
open ScpiVerif.Spec ScpiVerif.Lemmas.Lexer ScpiVerif.Lemmas.Regex

/-! ### the text of a delivered token -/

theorem plainSpec_PM {r : Re} {ty : TokType} {s : Bytes} {n : Nat} (h : plainSpec r ty s = some ⟨n, ty, 0, n⟩) :
    0 < n ∧ PM r s n ∧ ∀ m, PM r s m → m ≤ n := by
  unfold plainSpec at h
  split at h
  · rename_i k hk
    split at h
    · rename_i hpos
      cases h
      exact ⟨hpos, longest_some_PM hk⟩
    · cases h
  · cases h

theorem PM_take {r : Re} {s : Bytes} {n m : Nat} (hn : n ≤ s.length) :
    PM r (s.take n) m ↔ PM r s m ∧ m ≤ n := by
  unfold PM
  constructor
  · rintro ⟨h1, h2⟩
    have hm : m ≤ n := by simpa [Nat.min_eq_left hn] using h1
    rw [List.take_take, Nat.min_eq_left hm] at h2
    exact ⟨⟨by omega, h2⟩, hm⟩
  · rintro ⟨⟨h1, h2⟩, hm⟩
    refine ⟨by simp; omega, ?_⟩
    rw [List.take_take, Nat.min_eq_left hm]
    exact h2

/-- a plain token found in `s` is found, the same, in any prefix of `s` that contains it -/
theorem plainSpec_take {r : Re} {ty : TokType} {s : Bytes} {e n : Nat}
    (h : plainSpec r ty s = some ⟨e, ty, 0, e⟩) (hen : e ≤ n) (hn : n ≤ s.length) :
    plainSpec r ty (s.take n) = some ⟨e, ty, 0, e⟩ := by
  obtain ⟨h0, h1, h2⟩ := plainSpec_PM h
  exact plainSpec_some h0 ((PM_take hn).2 ⟨h1, hen⟩) (fun m hm => h2 m ((PM_take hn).1 hm).1)

/-- the whole of a plain token, taken alone, is that token -/
theorem plainSpec_self {r : Re} {ty : TokType} {s : Bytes} {n : Nat}
    (h : plainSpec r ty s = some ⟨n, ty, 0, n⟩) :
    plainSpec r ty (s.take n) = some ⟨n, ty, 0, n⟩ :=
  plainSpec_take h (Nat.le_refl _) (plainSpec_PM h).2.1.1

theorem tw_take (p : UInt8 → Bool) (s : Bytes) (k : Nat) : tw p (s.take k) = min (tw p s) k := by
  induction s generalizing k with
  | nil => simp
  | cons b s ih =>
    cases k with
    | zero => simp
    | succ k =>
      rw [List.take_succ_cons, tw_cons, tw_cons]
      split
      · rw [ih]; omega
      · simp

theorem dropWhile_eq_drop_tw (p : UInt8 → Bool) (s : Bytes) : s.dropWhile p = s.drop (tw p s) := by
  induction s with
  | nil => rfl
  | cons b s ih =>
    rw [List.dropWhile_cons, tw_cons]
    split
    · rw [ih, Nat.add_comm]; rfl
    · rfl

/-- all bytes of a word of the language satisfy `q` when every character class does -/
def reAll (q : UInt8 → Prop) : Re → Prop
  | .empty => True
  | .eps => True
  | .chr p => ∀ b, p b = true → q b
  | .seq a b => reAll q a ∧ reAll q b
  | .alt a b => reAll q a ∧ reAll q b
  | .star a => reAll q a

theorem matches_all {q : UInt8 → Prop} {r : Re} {u : Bytes} (h : Matches r u) (hr : reAll q r) :
    ∀ b ∈ u, q b := by
  induction h with
  | eps => intro b hb; cases hb
  | chr p b hp => intro x hx; rw [List.mem_singleton] at hx; rw [hx]; exact hr b hp
  | seq _ _ iha ihb =>
    intro x hx
    rcases List.mem_append.1 hx with hx | hx
    · exact iha hr.1 x hx
    · exact ihb hr.2 x hx
  | altL _ ih => exact ih hr.1
  | altR _ ih => exact ih hr.2
  | starNil => intro b hb; cases hb
  | starCons _ _ iha ihb =>
    intro x hx
    rcases List.mem_append.1 hx with hx | hx
    · exact iha hr x hx
    · exact ihb hr x hx

theorem isAlpha_ne0 : ∀ b : UInt8, isAlpha b = true → b ≠ 0 := by
  intro b h h0; subst h0; exact absurd h (by decide)
theorem isDigit_ne0 : ∀ b : UInt8, isDigit b = true → b ≠ 0 := by
  intro b h h0; subst h0; exact absurd h (by decide)

theorem mnemonic_noNul : reAll (· ≠ 0) mnemonic := by
  refine ⟨isAlpha_ne0, ?_⟩
  intro b h h0; subst h0; exact absurd h (by decide)

theorem suffix_noNul : reAll (· ≠ 0) Spec.suffix := by
  have h47 : ∀ b : UInt8, (b == 47) = true → b ≠ 0 := by intro b h h0; subst h0; exact absurd h (by decide)
  have h45 : ∀ b : UInt8, (b == 45) = true → b ≠ 0 := by intro b h h0; subst h0; exact absurd h (by decide)
  have hsd : ∀ b : UInt8, (b == 47 || b == 46) = true → b ≠ 0 := by intro b h h0; subst h0; exact absurd h (by decide)
  simp only [Spec.suffix, suffixTail, Re.opt, Re.plus, Re.c, reAll]
  exact ⟨⟨trivial, h47⟩, trivial, ⟨isAlpha_ne0, isAlpha_ne0⟩, ⟨⟨trivial, h45⟩, trivial, isDigit_ne0⟩,
    hsd, isAlpha_ne0, ⟨trivial, h45⟩, trivial, isDigit_ne0⟩

/-- a character-data token: not empty, starts with a letter, no NUL, and re-lexes to itself -/
theorem chr_token_facts {s : Bytes} {n : Nat} (h : specToken .chr s = some ⟨n, .programMnemonic, 0, n⟩) :
    n ≤ s.length ∧ 0 < n ∧ hd (s.take n) isAlpha = true ∧ (∀ b ∈ s.take n, b ≠ 0) ∧
    specToken .chr (s.take n) = some ⟨n, .programMnemonic, 0, n⟩ := by
  have h' : plainSpec mnemonic .programMnemonic s = some ⟨n, .programMnemonic, 0, n⟩ := h
  obtain ⟨h0, h1, h2⟩ := plainSpec_PM h'
  have hal := (PM_mnemonic.1 h1).1
  refine ⟨h1.1, h0, ?_, matches_all h1.2 mnemonic_noNul, plainSpec_self h'⟩
  obtain ⟨b, hb, hs⟩ := hd_cons_drop hal
  rw [hs]
  cases n with
  | zero => omega
  | succ n => simpa using hb

/-- a decimal token: optional sign, then a digit or the point -/
theorem decimal_token_head {s : Bytes} {n : Nat} (h : specToken .decimal s = some ⟨n, .decimal, 0, n⟩) :
    n ≤ s.length ∧ ∃ sg x rest, s.take n = sg ++ x :: rest ∧ (sg = [] ∨ sg = [43] ∨ sg = [45]) ∧
      (isDigit x = true ∨ x = 46) := by
  have h' : plainSpec Spec.decimal .decimal s = some ⟨n, .decimal, 0, n⟩ := h
  obtain ⟨h0, h1, h2⟩ := plainSpec_PM h'
  refine ⟨h1.1, ?_⟩
  have h3 := h1
  unfold Spec.decimal at h3
  rw [PM_seq] at h3
  obtain ⟨i, j, hn, hm, _⟩ := h3
  obtain ⟨j', hi, hcore⟩ := decimal_PM_mantissa.1 hm
  have hj' : 1 ≤ j' := by
    rw [decimal_PM_core rfl rfl] at hcore
    rcases hcore with h | h <;> omega
  have hhd := decimal_core_hd _ _ hcore
  obtain ⟨x, hx, hsx⟩ := hd_cons_drop hhd
  have hx' : isDigit x = true ∨ x = 46 := by
    simp only [Bool.or_eq_true, beq_iff_eq] at hx; exact hx
  by_cases hsg : hd s isPlusMn = true
  · rw [if_pos hsg] at hi hsx
    obtain ⟨b, hb, hsb⟩ := hd_cons_drop hsg
    have hb' : b = 43 ∨ b = 45 := by
      simp only [isPlusMn, Bool.or_eq_true, beq_iff_eq] at hb; exact hb
    refine ⟨[b], x, ((s.drop 1).drop 1).take (n - 2), ?_, by rcases hb' with rfl | rfl <;> simp, hx'⟩
    rw [hsb, hsx]
    have : n = (n - 2) + 1 + 1 := by omega
    rw [this]; simp
  · rw [if_neg hsg] at hi hsx
    refine ⟨[], x, (s.drop 1).take (n - 1), ?_, .inl rfl, hx'⟩
    simp only [List.drop_zero] at hsx
    rw [hsx]
    have : n = (n - 1) + 1 := by omega
    rw [this]; simp

end TokenText

/-! ### name matching and unit lookup against the specification -/


theorem toLower_eq_lower : Match.toLower = Spec.Pattern.lower := rfl

/-- a statement about all bytes checked on the 256 values -/
theorem forall_byte (P : UInt8 → Prop) (h : ∀ n : Fin 256, P (UInt8.ofNat n.val)) (b : UInt8) : P b := by
  have := h ⟨b.toNat, UInt8.toNat_lt b⟩
  simpa using this

theorem lower_ne_zero : ∀ b : UInt8, b ≠ 0 → Spec.Pattern.lower b ≠ 0 := by
  apply forall_byte (fun b => b ≠ 0 → Spec.Pattern.lower b ≠ 0)
  set_option maxRecDepth 100000 in decide

theorem lower_eq_zero_iff (b : UInt8) : Spec.Pattern.lower b = 0 ↔ b = 0 := by
  constructor
  · intro h
    apply Classical.byContradiction
    intro hb
    exact lower_ne_zero b hb h
  · intro h; subst h; decide

theorem matchRd_drop (a : Bytes) (i k : Nat) : Match.rd (a.drop i) k = Match.rd a (i + k) := by
  simp [Match.rd, List.getD, List.getElem?_drop]

/-- offsets can be moved into `drop` -/
theorem caseEq_drop (n : Nat) : ∀ (a b : Bytes) (i j : Nat),
    Match.caseEq a i b j n = Match.caseEq (a.drop i) 0 (b.drop j) 0 n := by
  induction n with
  | zero => intros; simp [Match.caseEq]
  | succ n ih =>
    intro a b i j
    simp only [Match.caseEq]
    rw [ih a b (i + 1) (j + 1), ih (a.drop i) (b.drop j) (0 + 1) (0 + 1)]
    simp [matchRd_drop, List.drop_drop, Nat.add_comm]

theorem caseEq_nil_left (n : Nat) (v : Bytes) (hv : ∀ x ∈ v, x ≠ 0) (hl : n ≤ v.length) :
    Match.caseEq [] 0 v 0 n = (n == 0) := by
  cases n with
  | zero => simp [Match.caseEq]
  | succ n =>
    cases v with
    | nil => simp at hl
    | cons y v =>
      have hy : y ≠ 0 := hv y (by simp)
      have := lower_ne_zero y hy
      simp [Match.caseEq, Match.rd, toLower_eq_lower]
      intro h
      have h0 : Spec.Pattern.lower 0 = 0 := by decide
      rw [h0] at h
      exact absurd h.symm this

/-- caseEq on whole lists = equality of lowered prefixes, if one of the two prefixes is NUL-free -/
theorem caseEq_take (n : Nat) : ∀ (u v : Bytes), n ≤ u.length → n ≤ v.length →
    ((∀ x ∈ u.take n, x ≠ 0) ∨ (∀ x ∈ v.take n, x ≠ 0)) →
    Match.caseEq u 0 v 0 n = ((u.take n).map Spec.Pattern.lower == (v.take n).map Spec.Pattern.lower) := by
  induction n with
  | zero => intros; simp [Match.caseEq]
  | succ n ih =>
    intro u v hu hv hz
    cases u with
    | nil => simp at hu
    | cons x u =>
      cases v with
      | nil => simp at hv
      | cons y v =>
        simp only [Match.caseEq]
        rw [caseEq_drop n (x :: u) (y :: v) (0 + 1) (0 + 1)]
        simp only [Nat.zero_add, List.drop_succ_cons, List.drop_zero, Match.rd, List.getD_cons_zero,
          toLower_eq_lower, List.take_succ_cons, List.map_cons]
        simp only [List.length_cons, Nat.add_le_add_iff_right] at hu hv
        have hz' : (∀ x ∈ u.take n, x ≠ 0) ∨ (∀ x ∈ v.take n, x ≠ 0) := by
          rcases hz with h | h
          · left; intro z hz; exact h z (by simp [List.take_succ_cons, hz])
          · right; intro z hz; exact h z (by simp [List.take_succ_cons, hz])
        rw [ih u v hu hv hz']
        by_cases hxy : Spec.Pattern.lower x = Spec.Pattern.lower y
        · have hx0 : Spec.Pattern.lower x ≠ 0 := by
            rcases hz with h | h
            · exact lower_ne_zero x (h x (by simp [List.take_succ_cons]))
            · rw [hxy]; exact lower_ne_zero y (h y (by simp [List.take_succ_cons]))
          simp [hxy, hx0]
          intro h; rw [hxy] at hx0; exact absurd h hx0
        · simp [hxy]

theorem ciEq_comm (a b : Bytes) : Spec.Pattern.ciEq a b = Spec.Pattern.ciEq b a := by
  simp only [Spec.Pattern.ciEq]; exact BEq.comm

theorem ciEq_length {a b : Bytes} (h : Spec.Pattern.ciEq a b = true) : a.length = b.length := by
  simp [Spec.Pattern.ciEq] at h
  have := congrArg List.length h
  simpa using this

/-- the general form: a prefix of `a` against the whole of `b` -/
theorem compareStr_take (a b : Bytes) (k : Nat) (hk : k ≤ a.length)
    (hz : (∀ x ∈ a, x ≠ 0) ∨ (∀ x ∈ b, x ≠ 0)) :
    Match.compareStr a 0 k b 0 b.length = Spec.Pattern.ciEq b (a.take k) := by
  unfold Match.compareStr
  by_cases hkb : k = b.length
  · subst hkb
    have hz' : (∀ x ∈ a.take b.length, x ≠ 0) ∨ (∀ x ∈ b.take b.length, x ≠ 0) := by
      rcases hz with h | h
      · left; intro x hx; exact h x (List.mem_of_mem_take hx)
      · right; intro x hx; exact h x (List.mem_of_mem_take hx)
    rw [caseEq_take b.length a b hk (Nat.le_refl _) hz']
    rw [ciEq_comm b]
    simp [Spec.Pattern.ciEq]
  · have : Spec.Pattern.ciEq b (a.take k) = false := by
      cases h : Spec.Pattern.ciEq b (a.take k) with
      | false => rfl
      | true =>
        have := ciEq_length h
        simp [List.length_take, Nat.min_eq_left hk] at this
        exact absurd this.symm hkb
    rw [this]
    simp [hkb]

/-- strncasecmp-style comparison of two whole byte strings = case-insensitive equality, when the first has no NUL -/
theorem compareStr_eq_ciEq (a b : Bytes) (ha : ∀ x ∈ a, x ≠ 0) :
    Match.compareStr a 0 a.length b 0 b.length = Spec.Pattern.ciEq a b := by
  rw [compareStr_take a b a.length (Nat.le_refl _) (Or.inl ha), List.take_length, ciEq_comm]

theorem shortPos_go (p : Bytes) (hp : ∀ x ∈ p, x ≠ 0) (fuel : Nat) : ∀ i, p.length ≤ fuel + i →
    Match.shortPos.go p 0 p.length fuel i = i + ((p.drop i).takeWhile (fun b => !isLower b)).length := by
  induction fuel with
  | zero =>
    intro i hi
    simp [Match.shortPos.go, List.drop_eq_nil_of_le (show p.length ≤ i by omega)]
  | succ fuel ih =>
    intro i hi
    simp only [Match.shortPos.go]
    by_cases hlt : i < p.length
    · have hrd : Match.rd p (0 + i) = p[i] := by simp [Match.rd, List.getD, hlt]
      have hne : p[i] ≠ 0 := hp _ (List.getElem_mem hlt)
      rw [hrd, List.drop_eq_getElem_cons hlt, List.takeWhile_cons]
      by_cases hlow : isLower p[i] = true
      · simp [hlt, hne, hlow]
      · simp [hlt, hne, hlow]
        rw [ih (i + 1) (by omega)]
        omega
    · simp [hlt, List.drop_eq_nil_of_le (show p.length ≤ i by omega)]

theorem shortPos_eq (p : Bytes) (hp : ∀ x ∈ p, x ≠ 0) :
    Match.shortPos p 0 p.length = (p.takeWhile (fun b => !isLower b)).length := by
  unfold Match.shortPos
  rw [shortPos_go p hp p.length 0 (by omega)]
  simp

theorem take_takeWhile_length (p : Bytes) (f : UInt8 → Bool) :
    p.take (p.takeWhile f).length = p.takeWhile f := by
  induction p with
  | nil => simp
  | cons x p ih =>
    by_cases h : f x = true
    · simp [List.takeWhile_cons, h, ih]
    · simp [List.takeWhile_cons, h]

theorem takeWhile_length_le (p : Bytes) (f : UInt8 → Bool) : (p.takeWhile f).length ≤ p.length := by
  induction p with
  | nil => simp
  | cons x p ih =>
    by_cases h : f x = true
    · simp [List.takeWhile_cons, h, ih]
    · simp [List.takeWhile_cons, h]

/-- SCPI_ParamToChoice's name test = the specification's, for an option name without NUL and '#'
and a text without NUL -/
theorem matchName_eq (name s : Bytes) (hname : ∀ b ∈ name, b ≠ 0 ∧ b ≠ 35) (hs : ∀ b ∈ s, b ≠ 0) :
    matchName name s = nameMatches name s := by
  have hn0 : ∀ b ∈ name, b ≠ 0 := fun b hb => (hname b hb).1
  have hlast : ¬ (name.length > 0 ∧ (Match.rd name (0 + name.length - 1) == 35) = true) := by
    intro ⟨hpos, h⟩
    have hlt : name.length - 1 < name.length := by omega
    have : Match.rd name (0 + name.length - 1) = name[name.length - 1] := by
      simp [Match.rd, List.getD, hlt]
    rw [this] at h
    have := (hname _ (List.getElem_mem hlt)).2
    simp at h
    exact this h
  unfold matchName Match.matchPattern nameMatches
  rw [if_neg hlast]
  simp only []
  rw [compareStr_take name s name.length (Nat.le_refl _) (Or.inr hs), List.take_length,
    shortPos_eq name hn0,
    compareStr_take name s _ (takeWhile_length_le name _) (Or.inr hs), take_takeWhile_length]

theorem translateUnit_go (s : Bytes) (hs : ∀ b ∈ s, b ≠ 0) (l : List (String × Nat × Nat × Nat)) :
    (translateUnit.go s l).isSome = l.any (fun u => Spec.Pattern.ciEq s u.1.toUTF8.toList) := by
  induction l with
  | nil => simp [translateUnit.go]
  | cons e rest ih =>
    obtain ⟨n, u, a, b⟩ := e
    simp only [translateUnit.go, List.any_cons]
    rw [compareStr_eq_ciEq s (Result.bytesOf n) hs]
    have : Result.bytesOf n = n.toUTF8.toList := rfl
    rw [this]
    cases h : Spec.Pattern.ciEq s n.toUTF8.toList with
    | true => simp
    | false => simp [ih]

/-- translateUnit finds a unit iff the specification knows it (text without NUL) -/
theorem translateUnit_isSome (s : Bytes) (hs : ∀ b ∈ s, b ≠ 0) : (translateUnit s).isSome = unitKnown s := by
  unfold translateUnit unitKnown
  exact translateUnit_go s hs Gen.unitsDef

theorem boolDef_names : ∀ o ∈ boolDef, ∀ b ∈ o.1, b ≠ 0 ∧ b ≠ 35 := by decide +kernel
theorem specialDef_names : ∀ o ∈ specialDef, ∀ b ∈ o.1, b ≠ 0 ∧ b ≠ 35 := by decide +kernel




section ByToken
open ScpiVerif.Spec ScpiVerif.Lemmas.Lexer ScpiVerif.Lemmas.Regex

/-! ### the integer readers convert something iff the literal starts with a digit of its base -/

def digitOK (base : Nat) (x : UInt8) : Bool :=
  match Prim.digitVal x with
  | some d => decide (d < base)
  | none => false

theorem digitOK_iff (base : Nat) (x : UInt8) : digitOK base x = true ↔ ∃ d, Prim.digitVal x = some d ∧ d < base := by
  unfold digitOK
  cases Prim.digitVal x <;> simp

theorem byte_decimal_start : ∀ x : UInt8, (isDigit x = true ∨ x = 46) →
    Prim.isSpace x = false ∧ x ≠ 43 ∧ x ≠ 45 := by
  apply forall_byte
  set_option maxRecDepth 100000 in decide

theorem byte_xdigit : ∀ x : UInt8, isXDigit x = true →
    Prim.isSpace x = false ∧ x ≠ 43 ∧ x ≠ 45 ∧ digitOK 16 x = true := by
  apply forall_byte
  set_option maxRecDepth 100000 in decide

theorem byte_qdigit : ∀ x : UInt8, isQDigit x = true →
    Prim.isSpace x = false ∧ x ≠ 43 ∧ x ≠ 45 ∧ digitOK 8 x = true := by
  apply forall_byte
  set_option maxRecDepth 100000 in decide

theorem byte_bdigit : ∀ x : UInt8, isBDigit x = true →
    Prim.isSpace x = false ∧ x ≠ 43 ∧ x ≠ 45 ∧ digitOK 2 x = true := by
  apply forall_byte
  set_option maxRecDepth 100000 in decide

theorem drop_of_take_cons {l u : Bytes} {k : Nat} {x : UInt8} (h : l.take k = x :: u) :
    l = x :: (u ++ l.drop k) := by
  have := List.take_append_drop k l
  rw [h] at this
  exact this.symm

theorem int_decimal_conv (c1 : Ctx) (tok : Token) (w : Nat) (sg : Bool) (sgn rest : Bytes) (x : UInt8)
    (ht : tok.type = .decimal) (hmem : c1.buf.drop tok.ptr = sgn ++ x :: rest)
    (hsgn : sgn = [] ∨ sgn = [43] ∨ sgn = [45]) (hx : isDigit x = true ∨ x = 46) :
    (paramToInt c1 tok w sg).1 = isDigit x := by
  have hx' := byte_decimal_start x hx
  have h1 := strtolTo_pos_iff w c1.buf tok.ptr 10 sgn rest x hmem hsgn hx' (.inl rfl)
  have h2 := strtoulTo_pos_iff w c1.buf tok.ptr 10 sgn rest x hmem hsgn hx' (.inl rfl)
  rw [digitVal_lt_10] at h1 h2
  unfold paramToInt
  rw [ht]
  cases sg
  · simp only [Bool.false_eq_true, if_false]
    rw [Bool.eq_iff_iff, decide_eq_true_iff]; exact h2
  · simp only [if_true]
    rw [Bool.eq_iff_iff, decide_eq_true_iff]; exact h1

theorem int_nondecimal_conv (c1 : Ctx) (tok : Token) (w : Nat) (sg : Bool) (rest : Bytes) (x : UInt8)
    (pd : UInt8 → Bool)
    (ht : (tok.type = .hexnum ∧ pd = isXDigit) ∨ (tok.type = .octnum ∧ pd = isQDigit) ∨ (tok.type = .binnum ∧ pd = isBDigit))
    (hmem : c1.buf.drop tok.ptr = x :: rest) (hx : pd x = true) :
    (paramToInt c1 tok w sg).1 = true := by
  unfold paramToInt
  rcases ht with ⟨ht, rfl⟩ | ⟨ht, rfl⟩ | ⟨ht, rfl⟩
  · obtain ⟨a, b, c, d⟩ := byte_xdigit x hx
    have := (strtoulTo_pos_iff w c1.buf tok.ptr 16 [] rest x hmem (.inl rfl) ⟨a, b, c⟩ (.inr (.inr (.inr rfl)))).2
      ((digitOK_iff _ _).1 d)
    rw [ht]; simpa using this
  · obtain ⟨a, b, c, d⟩ := byte_qdigit x hx
    have := (strtoulTo_pos_iff w c1.buf tok.ptr 8 [] rest x hmem (.inl rfl) ⟨a, b, c⟩ (.inr (.inl rfl))).2
      ((digitOK_iff _ _).1 d)
    rw [ht]; simpa using this
  · obtain ⟨a, b, c, d⟩ := byte_bdigit x hx
    have := (strtoulTo_pos_iff w c1.buf tok.ptr 2 [] rest x hmem (.inl rfl) ⟨a, b, c⟩ (.inr (.inr (.inl rfl)))).2
      ((digitOK_iff _ _).1 d)
    rw [ht]; simpa using this

/-! ### the verdict of every reader is the property's table -/

/-- `expect` written as a verdict -/
def outcomeOf (v : Option Int) : Outcome :=
  match v with
  | none => .ok
  | some e => .fail (some e)

theorem expect_int_decimal (w : Nat) (sg mand : Bool) (sgn rest : Bytes) (x : UInt8)
    (hsgn : sgn = [] ∨ sgn = [43] ∨ sgn = [45]) (h43 : x ≠ 43) (h45 : x ≠ 45) :
    expect (.int w sg) mand (some (.decimal, sgn ++ x :: rest)) =
      if isDigit x then .ok else .fail (some (-104)) := by
  rcases hsgn with rfl | rfl | rfl <;> cases hd : isDigit x <;> simp [expect, isNumeric, h43, h45, hd]

theorem find_isSome_eq_any {α : Type} (l : List α) (f : α → Bool) : (l.find? f).isSome = l.any f := by
  induction l with
  | nil => rfl
  | cons a l ih =>
    rw [List.find?_cons, List.any_cons]
    cases h : f a <;> simp [ih]

theorem any_congr_mem {α : Type} (l : List α) (f g : α → Bool) (h : ∀ a ∈ l, f a = g a) : l.any f = l.any g := by
  induction l with
  | nil => rfl
  | cons a l ih =>
    rw [List.any_cons, List.any_cons, h a (by simp), ih (fun b hb => h b (by simp [hb]))]

/-- SCPI_ParamToChoice on a character-data token against the specification's name test -/
theorem choice_agree (c1 : Ctx) (tok : Token) (opts : List (Bytes × Int)) (txt : Bytes)
    (ht : tok.type = .programMnemonic) (htx : (c1.buf.drop tok.ptr).take tok.len.toNat = txt)
    (hnul : ∀ b ∈ txt, b ≠ 0) (hnames : ∀ o ∈ opts, ∀ b ∈ o.1, b ≠ 0 ∧ b ≠ 35) :
    outcomeOf (choiceVerdict c1 tok opts) =
      if opts.any (fun o => nameMatches o.1 txt) then .ok else .fail (some (-224)) := by
  unfold choiceVerdict
  rw [ht, htx, find_isSome_eq_any,
    any_congr_mem opts _ (fun o => nameMatches o.1 txt) (fun o ho => matchName_eq o.1 txt (hnames o ho) hnul)]
  simp only [beq_self_eq_true, if_true]
  cases opts.any (fun o => nameMatches o.1 txt) <;> rfl

theorem boolDef_any (txt : Bytes) :
    boolDef.any (fun o => nameMatches o.1 txt) =
      (nameMatches "OFF".toUTF8.toList txt || nameMatches "ON".toUTF8.toList txt) := by
  simp [boolDef, Gen.boolDef, Result.bytesOf]

theorem specialDef_any (txt : Bytes) :
    specialDef.any (fun o => nameMatches o.1 txt) =
      Gen.specialNumbersDef.any (fun o => nameMatches o.1.toUTF8.toList txt) := by
  unfold specialDef
  rw [List.any_map]
  rfl

/-- SCPI_ParamNumber re-lexes a character-data token to itself -/
theorem specialTok_eq (c1 : Ctx) (tok : Token) (s : Bytes) (n : Nat)
    (hs : specToken .chr s = some ⟨n, .programMnemonic, 0, n⟩) (hlen : tok.len.toNat = n)
    (htx : (c1.buf.drop tok.ptr).take n = s.take n) :
    specialTok c1 tok = ⟨.programMnemonic, tok.ptr, n⟩ := by
  obtain ⟨_, h0, hal, _, hself⟩ := chr_token_facts hs
  unfold specialTok
  rw [hlen, htx]
  have hws : (lexWhiteSpace (s.take n) 0).1 = 0 := by
    rw [(pdata_ws (s.take n) 0 (Nat.zero_le _)).1, List.drop_zero, pdata_wsLen_eq_tw,
      tw_eq_zero_iff.2 (hd_disj (p := isAlpha) (q := isWs) (by
        intro b hb; revert b; apply forall_byte; set_option maxRecDepth 100000 in decide) hal)]
  dsimp only
  rw [hws]
  have hA := characterData_spec (s.take n) 0 (Nat.zero_le _)
  obtain ⟨_, _, h3, _⟩ := pdata_agrees_some hA (by rw [List.drop_zero]; exact hself)
  rw [h3]
  simp

theorem suffix_noSpace : reAll (fun b => Prim.isSpace b = false) Spec.suffix := by
  have hal : ∀ b : UInt8, isAlpha b = true → Prim.isSpace b = false := by
    apply forall_byte; set_option maxRecDepth 100000 in decide
  have hdg : ∀ b : UInt8, isDigit b = true → Prim.isSpace b = false := by
    apply forall_byte; set_option maxRecDepth 100000 in decide
  have h47 : ∀ b : UInt8, (b == 47) = true → Prim.isSpace b = false := by
    apply forall_byte; set_option maxRecDepth 100000 in decide
  have h45 : ∀ b : UInt8, (b == 45) = true → Prim.isSpace b = false := by
    apply forall_byte; set_option maxRecDepth 100000 in decide
  have hsd : ∀ b : UInt8, (b == 47 || b == 46) = true → Prim.isSpace b = false := by
    apply forall_byte; set_option maxRecDepth 100000 in decide
  simp only [Spec.suffix, suffixTail, Re.opt, Re.plus, Re.c, reAll]
  exact ⟨⟨trivial, h47⟩, trivial, ⟨hal, hal⟩, ⟨⟨trivial, h45⟩, trivial, hdg⟩,
    hsd, hal, ⟨trivial, h45⟩, trivial, hdg⟩

/-- the unit text SCPI_ParamNumber cuts out of a decimal-with-suffix token is the suffix, which is
also what the specification's `suffixOf` gives; it is not empty, has no NUL and does not start with white space -/
theorem unitText_facts {s : Bytes} {e sf n : Nat} (hsn : n ≤ s.length)
    (hs : specToken .decimal s = some ⟨e, .decimal, 0, e⟩)
    (hsf : specToken .suffix (s.drop (e + wsLen (s.drop e))) = some ⟨sf, .suffix, 0, sf⟩)
    (hn : n = e + wsLen (s.drop e) + sf) :
    ∃ U : Bytes, unitTextOf (s.take n) = U ∧ suffixOf (s.take n) = U ∧ 0 < U.length ∧
      (∀ b ∈ U, b ≠ 0) ∧ (U.takeWhile (fun b => Prim.isSpace b)).length = 0 := by
  have hs' : plainSpec Spec.decimal .decimal s = some ⟨e, .decimal, 0, e⟩ := hs
  have hsf' : plainSpec Spec.suffix .suffix (s.drop (e + wsLen (s.drop e))) = some ⟨sf, .suffix, 0, sf⟩ := hsf
  generalize hw : wsLen (s.drop e) = w at *
  have hlen : (s.take n).length = n := by simp [hsn]
  -- the number
  have hdec : specToken .decimal (s.take n) = some ⟨e, .decimal, 0, e⟩ := plainSpec_take hs' (by omega) hsn
  have h1 := (pdata_agrees_some (decimal_spec (s.take n) 0 (Nat.zero_le _)) (by rw [List.drop_zero]; exact hdec)).1
  simp only [Nat.zero_add] at h1
  -- the blanks
  have hwtx : wsLen ((s.take n).drop e) = w := by
    rw [pdata_wsLen_eq_tw, List.drop_take, tw_take, ← pdata_wsLen_eq_tw, hw]; omega
  have h2 := (pdata_ws (s.take n) e (by omega)).1
  rw [hwtx] at h2
  -- the suffix
  have hdrop : (s.take n).drop (e + w) = (s.drop (e + w)).take sf := by
    rw [List.drop_take]; congr 1; omega
  have hsuf : specToken .suffix ((s.take n).drop (e + w)) = some ⟨sf, .suffix, 0, sf⟩ := by
    rw [hdrop]; exact plainSpec_self hsf'
  have h3 := (pdata_agrees_some (suffix_spec (s.take n) (e + w) (by omega)) hsuf).2.2.1
  obtain ⟨hsf0, hPM, _⟩ := plainSpec_PM hsf'
  have hUlen : ((s.drop (e + w)).take sf).length = sf := by
    have := hPM.1; simp only [List.length_take]; omega
  refine ⟨(s.drop (e + w)).take sf, ?_, ?_, by omega, matches_all hPM.2 suffix_noNul, ?_⟩
  · unfold unitTextOf
    dsimp only
    rw [h1, h2, h3]
    dsimp only
    rw [Nat.add_zero, hdrop]
    simp [List.take_take]
  · unfold suffixOf
    rw [hdec]
    dsimp only
    rw [dropWhile_eq_drop_tw, ← pdata_wsLen_eq_tw, hwtx, List.drop_drop, hdrop]
  · have hns := matches_all hPM.2 suffix_noSpace
    generalize (s.drop (e + w)).take sf = U at hUlen hns
    cases U with
    | nil => rfl
    | cons b U =>
      have := hns b (by simp)
      simp [List.takeWhile_cons, this]

theorem verdict_expect (r : Reader) (mand : Bool) (c1 : Ctx) (tok : Token) (s : Bytes) (n po pl : Nat)
    (sh : ItemShape s n tok.type po pl) (hlen : tok.len = (pl : Int)) (hsn : n ≤ s.length)
    (htxt : po + pl ≤ n → (c1.buf.drop tok.ptr).take pl = (s.drop po).take pl)
    (hopts : ∀ opts, r = .choice opts → ∀ o ∈ opts, ∀ b ∈ o.1, b ≠ 0 ∧ b ≠ 35) :
    expect r mand (some (tok.type, (c1.buf.drop tok.ptr).take tok.len.toNat)) = outcomeOf (verdict r c1 tok) := by
  have hl : tok.len.toNat = pl := by rw [hlen]; simp
  rw [hl]
  cases sh with
  | other ht =>
    rcases ht with h | h | h | h <;> cases r <;>
      simp [expect, verdict, isNumber, isNumeric, choiceVerdict, h, outcomeOf]
  | nondecimal pd ht hpo hpl hn htw =>
    cases r with
    | int w sg =>
      have h1 := htxt (by omega)
      have hhd : hd (s.drop 2) pd = true := tw_pos_iff.1 (by omega)
      obtain ⟨x, hx, hsx⟩ := hd_cons_drop hhd
      rw [hpo, hsx] at h1
      obtain ⟨pl', rfl⟩ : ∃ k, pl = k + 1 := ⟨pl - 1, by omega⟩
      rw [List.take_succ_cons] at h1
      have hmem := drop_of_take_cons h1
      have hconv := int_nondecimal_conv c1 tok w sg _ x pd ht hmem hx
      rcases ht with ⟨h, _⟩ | ⟨h, _⟩ | ⟨h, _⟩ <;>
        simp [expect, verdict, isNumber, isNumeric, h, outcomeOf, hconv]
    | _ =>
      rcases ht with ⟨h, _⟩ | ⟨h, _⟩ | ⟨h, _⟩ <;>
        simp [expect, verdict, isNumber, isNumeric, choiceVerdict, h, outcomeOf]
  | chr ht hpo hpl hs =>
    cases r with
    | bool =>
      have h1 := htxt (by omega)
      rw [hpo, hpl, List.drop_zero] at h1
      obtain ⟨_, h0, hal, hnul, hself⟩ := chr_token_facts hs
      have hag := choice_agree c1 tok boolDef (s.take n) ht (by rw [hl, hpl]; exact h1) hnul boolDef_names
      rw [hpl, h1]
      simp only [verdict, ht]
      rw [if_neg (by decide), hag, boolDef_any]
      simp only [expect]
      cases nameMatches "OFF".toUTF8.toList (s.take n) <;> cases nameMatches "ON".toUTF8.toList (s.take n) <;> simp
    | choice opts =>
      have h1 := htxt (by omega)
      rw [hpo, hpl, List.drop_zero] at h1
      obtain ⟨_, h0, hal, hnul, hself⟩ := chr_token_facts hs
      have hag := choice_agree c1 tok opts (s.take n) ht (by rw [hl, hpl]; exact h1) hnul (hopts opts rfl)
      rw [hpl, h1]
      simp only [verdict]
      rw [hag]
      simp only [expect, ht]
      cases opts.any (fun o => nameMatches o.1 (s.take n)) <;> simp
    | number =>
      have h1 := htxt (by omega)
      rw [hpo, hpl, List.drop_zero] at h1
      obtain ⟨_, h0, hal, hnul, hself⟩ := chr_token_facts hs
      have hst := specialTok_eq c1 tok s n hs (by rw [hl, hpl]) h1
      have hag := choice_agree c1 (specialTok c1 tok) specialDef (s.take n) (by rw [hst])
        (by rw [hst]; simpa using h1) hnul specialDef_names
      rw [hpl, h1]
      simp only [verdict, ht]
      rw [hag, specialDef_any]
      simp only [expect, isNumeric]
      cases Gen.specialNumbersDef.any (fun o => nameMatches o.1.toUTF8.toList (s.take n)) <;> simp
    | _ => simp [expect, verdict, isNumber, isNumeric, choiceVerdict, ht, outcomeOf]
  | decimal ht hpo hpl hs =>
    cases r with
    | int w sg =>
      have h1 := htxt (by omega)
      obtain ⟨_, sgn, x, rest, h2, hsgn, hx⟩ := decimal_token_head hs
      rw [hpo, hpl, List.drop_zero, h2] at h1
      have hmem : c1.buf.drop tok.ptr = sgn ++ x :: (rest ++ (c1.buf.drop tok.ptr).drop n) := by
        have := List.take_append_drop n (c1.buf.drop tok.ptr)
        rw [h1] at this
        exact this.symm.trans (by rw [List.append_assoc]; rfl)
      have hconv := int_decimal_conv c1 tok w sg sgn _ x ht hmem hsgn hx
      have hb := byte_decimal_start x hx
      rw [hpl, h1]
      rw [ht, expect_int_decimal w sg mand sgn rest x hsgn hb.2.1 hb.2.2]
      simp only [verdict, isNumber, ht, outcomeOf, hconv]
      cases isDigit x <;> simp
    | _ => simp [expect, verdict, isNumber, isNumeric, choiceVerdict, ht, outcomeOf]
  | withSuffix e sf ht hpo hpl hs hsf hn =>
    cases r with
    | number =>
      have h1 := htxt (by omega)
      rw [hpo, hpl, List.drop_zero] at h1
      obtain ⟨U, hU1, hU2, hU3, hU4, hU5⟩ := unitText_facts hsn hs hsf hn
      have hT := translateUnit_isSome U hU4
      rw [hpl, h1]
      simp only [verdict, ht, hl, hpl, h1, hU1, hU5, List.drop_zero]
      simp only [expect, isNumeric, ht, hU2, ← hT]
      have hne : ((0 : Nat) == U.length) = false := by simp; omega
      rw [hne]
      cases translateUnit U <;> simp [outcomeOf]
    | _ => simp [expect, verdict, isNumber, isNumeric, choiceVerdict, ht, outcomeOf]

theorem peekP_oob {buf : Bytes} {pos : Nat} (h : buf.length ≤ pos) (p : UInt8 → Bool) : peekP buf pos p = false := by
  unfold peekP; rw [List.getElem?_eq_none h]
theorem skipMany_oob {buf : Bytes} {pos : Nat} (h : buf.length ≤ pos) (p : UInt8 → Bool) : skipMany buf pos p = pos := by
  unfold skipMany; rw [Nat.sub_eq_zero_of_le h]; rfl

/-- at or beyond the end of the input no data element is found -/
theorem parseProgramData_oob {buf : Bytes} {pos : Nat} (h : buf.length ≤ pos) :
    (Parser.parseProgramData buf pos).2.1.type = .unknown := by
  have hb : buf[pos + 1]? = none := List.getElem?_eq_none (by omega)
  simp [Parser.parseProgramData, lexWhiteSpace, skipWs, skipNumbers, skipAlpha, skipChr, skipOne, skipMany_oob h, peekP_oob h,
    lexNondecimal, lexCharacterProgramData, lexDecimal, skipMantisa, skipExponent, lexString, lexBlock, lexExpression,
    lexSuffix, mkTok, hb]

/-- a delivered token is an item of the data specification inside the parameter window -/
theorem parameter_true_item (c : Ctx) (mand : Bool) (c1 : Ctx) (tok : Token)
    (hp : parameter c mand = (c1, true, tok)) :
    c1 = pnext c ∧ ∃ q n po pl, specData ((pwin c).drop q) = .item n tok.type po pl ∧
      tok.ptr = c.pbase + (q + po) ∧ tok.len = (pl : Int) ∧ q + n ≤ (pwin c).length := by
  rw [parameter_eq] at hp
  by_cases h1 : c.ppos ≥ c.pbase + c.plen
  · rw [if_pos h1] at hp
    cases mand <;> simp at hp
  · rw [if_neg h1] at hp
    split at hp
    · simp at hp
    · split at hp
      · rename_i hv
        simp only [Prod.mk.injEq, true_and] at hp
        obtain ⟨hc1, htok⟩ := hp
        refine ⟨hc1.symm, ?_⟩
        have hle : pstart c ≤ (pwin c).length := by
          rcases Nat.le_total (pstart c) (pwin c).length with h | h
          · exact h
          · have h0 := parseProgramData_oob (buf := pwin c) (pos := pstart c) h
            have hpt0 : (ptok c).type = .unknown := h0
            rw [hpt0] at hv; cases hv
        have hspec := Props.C13.programData_spec (pwin c) (pstart c) hle
        simp only [List.drop_drop] at hspec
        have hpt : ptok c = (Parser.parseProgramData (pwin c) (pstart c)).2.1 := rfl
        generalize hsd : specData ((pwin c).drop (pstart c + wsLen ((pwin c).drop (pstart c)))) = d at hspec
        cases d with
        | item n t po pl =>
          dsimp only at hspec
          obtain ⟨_, _, h3, h4⟩ := hspec
          rw [← hpt] at h3
          refine ⟨pstart c + wsLen ((pwin c).drop (pstart c)), n, po, pl, ?_, ?_, ?_, by omega⟩
          · rw [← htok, h3]; exact hsd
          · rw [← htok, h3]
          · rw [← htok, h3]
        | swallow =>
          dsimp only at hspec
          rw [hpt, hspec.1] at hv; cases hv
        | none =>
          dsimp only at hspec
          rw [hpt, hspec.1] at hv; cases hv
      · simp at hp

theorem reader_by_token (c : Ctx) (r : Reader) (mand : Bool) (c1 : Ctx) (tok : Token)
    (hopts : ∀ opts, r = .choice opts → ∀ o ∈ opts, ∀ b ∈ o.1, b ≠ 0 ∧ b ≠ 35)
    (hp : parameter c mand = (c1, true, tok)) :
    let (c', ok) := runReader c r mand
    let txt := (c1.buf.drop tok.ptr).take tok.len.toNat
    match expect r mand (some (tok.type, txt)) with
    | .ok => ok = true ∧ errorsSince c c' = []
    | .fail (some e) => ok = false ∧ errorsSince c c' = [e]
    | .fail none => False := by
  obtain ⟨hc1, q, n, po, pl, hsd, hptr, hlen, hqn⟩ := parameter_true_item c mand c1 tok hp
  have hrr : runReader c r mand = finish c1 (verdict r c1 tok) := by
    rw [runReader_eq, hp]; rfl
  rw [hrr]
  have hbuf : c1.buf = c.buf := by rw [hc1]; rfl
  have htxt : po + pl ≤ n → (c1.buf.drop tok.ptr).take pl = (((pwin c).drop q).drop po).take pl := by
    intro hfit
    have hlen' : (pwin c).length ≤ c.plen := by simp [pwin]; omega
    rw [hbuf, hptr, List.drop_drop]
    unfold pwin
    rw [List.drop_take, List.take_take, List.drop_drop, Nat.min_eq_left (by omega)]
  have hve := verdict_expect r mand c1 tok ((pwin c).drop q) n po pl (specData_item_shape hsd) hlen
    (by simp; omega) htxt hopts
  obtain ⟨he1, he2⟩ := errorsSince_finish (c := c) (c0 := c1) (r := r) (t := tok) (by rw [hc1]; rfl)
  show match expect r mand (some (tok.type, (c1.buf.drop tok.ptr).take tok.len.toNat)) with
    | .ok => (finish c1 (verdict r c1 tok)).2 = true ∧ errorsSince c (finish c1 (verdict r c1 tok)).1 = []
    | .fail (some e) => (finish c1 (verdict r c1 tok)).2 = false ∧ errorsSince c (finish c1 (verdict r c1 tok)).1 = [e]
    | .fail none => False
  rw [hve, he1]
  cases hv : verdict r c1 tok with
  | none => exact ⟨rfl, rfl⟩
  | some e => exact ⟨rfl, rfl⟩

end ByToken

end ScpiVerif.Lemmas.Params
