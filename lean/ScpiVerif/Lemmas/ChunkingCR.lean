/-
C08 helper lemmas, part 6: what a user can observe (`UserObservable`: without the `parseMsg` markers of the
verification hook) does not depend on the partition of a quote-free stream at all — cuts directly after a
CR included.  When a chunk ends in the CR of a CR LF, the CR ends the message and the LF that arrives with
the next chunk is parsed as an empty message (no handler, no output, no error); fed whole, the message ends in
CR LF.  `parse_crlf` (ChunkingParse.lean) shows that the two parses do the same.
-/
import ScpiVerif.Lemmas.Chunking
import ScpiVerif.Lemmas.ChunkingParse

namespace ScpiVerif.Lemmas.Chunking
open ScpiVerif ScpiVerif.Ctx ScpiVerif.Lexer ScpiVerif.Props.C08
open ScpiVerif.Lemmas.ParseLocalAux (outReset)

/-! ## the relation between the two runs -/

/-- what `SCPI_Parse` resets first -/
def resetc (c : Ctx) : Ctx := { c with out := outReset c.out }

theorem parse_reset (c : Ctx) (base len : Nat) : parse (resetc c) base len = parse c base len := by
  rw [ParseLocalAux.parse_eq, ParseLocalAux.parse_eq]
  rfl

/-- equal up to buffer, position, event log and the per-message output bookkeeping -/
def PersU (c1 c2 : Ctx) : Prop := Pers (resetc c1) (resetc c2)

theorem Pers.symm {c1 c2 : Ctx} (h : Pers c1 c2) : Pers c2 c1 := by
  cases c1; cases c2
  simp only [Pers, Ctx.mk.injEq] at h ⊢
  simp_all

theorem PersU.of_pers {c1 c2 : Ctx} (h : Pers c1 c2) : PersU c1 c2 := by
  have := congrArg resetc h
  exact this

theorem PersU.upd {c1 c2 : Ctx} (h : PersU c1 c2) (b1 : Bytes) (p1 : Nat) (e1 : List Ev) (b2 : Bytes) (p2 : Nat) (e2 : List Ev) :
    PersU { c1 with buf := b1, position := p1, events := e1 } { c2 with buf := b2, position := p2, events := e2 } :=
  Pers.upd (c1 := resetc c1) (c2 := resetc c2) h b1 p1 e1 b2 p2 e2

theorem PersU.refl (c : Ctx) : PersU c c := Pers.refl _
theorem PersU.symm {c1 c2 : Ctx} (h : PersU c1 c2) : PersU c2 c1 := Pers.symm h
theorem PersU.trans {c1 c2 c3 : Ctx} (h1 : PersU c1 c2) (h2 : PersU c2 c3) : PersU c1 c3 := Pers.trans h1 h2

theorem PersU.resetl {c1 c2 : Ctx} (h : PersU c1 c2) : PersU (resetc c1) c2 := h

/-- the events a user sees -/
def uvis (es : List Ev) : List Ev :=
  es.filter (fun e => match e with | .input _ => false | .parseMsg _ => false | _ => true)

theorem uvis_append (a b : List Ev) : uvis (a ++ b) = uvis a ++ uvis b := by simp [uvis]
theorem uvis_input (a : List Ev) (r : Bool) : uvis (a ++ [.input r]) = uvis a := by simp [uvis]
theorem uvis_parseMsg (a : List Ev) (m : Bytes) (es : List Ev) : uvis (a ++ .parseMsg m :: es) = uvis a ++ uvis es := by
  simp [uvis]

structure QU (c1 c2 : Ctx) : Prop where
  pers : PersU c1 c2
  wf1 : WF c1
  wf2 : WF c2
  ev : uvis c1.events = uvis c2.events

def RU (c1 c2 : Ctx) : Prop := QU c1 c2 ∧ content c1 = content c2

theorem RU.refl {c : Ctx} (h : WF c) : RU c c := ⟨⟨PersU.refl c, h, h, rfl⟩, rfl⟩
theorem RU.symm {c1 c2 : Ctx} (h : RU c1 c2) : RU c2 c1 := ⟨⟨h.1.pers.symm, h.1.wf2, h.1.wf1, h.1.ev.symm⟩, h.2.symm⟩
theorem RU.trans {c1 c2 c3 : Ctx} (h1 : RU c1 c2) (h2 : RU c2 c3) : RU c1 c3 :=
  ⟨⟨h1.1.pers.trans h2.1.pers, h1.1.wf1, h2.1.wf2, h1.1.ev.trans h2.1.ev⟩, h1.2.trans h2.2⟩

theorem uobs_eq (c : Ctx) :
    UserObservable c = (uvis c.events, c.out.written, c.out.flushes, c.regs.regs, Fifo.EQ.abs c.eq, content c) := by
  unfold UserObservable uvis content
  rfl

theorem RU.obs {c1 c2 : Ctx} (h : RU c1 c2) : UserObservable c1 = UserObservable c2 := by
  obtain ⟨⟨hp, _, _, hev⟩, hc⟩ := h
  have h1 : c2.out.written = c1.out.written := congrArg (fun o => o.written) (Pers.out hp)
  have h2 : c2.out.flushes = c1.out.flushes := congrArg (fun o => o.flushes) (Pers.out hp)
  have h3 : c2.regs = c1.regs := show (resetc c2).regs = (resetc c1).regs from Pers.regs hp
  have h4 : c2.eq = c1.eq := show (resetc c2).eq = (resetc c1).eq from Pers.eq hp
  rw [uobs_eq, uobs_eq, hev, h1, h2, h3, h4, hc]

theorem RU.emit {c1 c2 : Ctx} (hq : QU c1 c2) (hc : content c1 = content c2) (r1 r2 : Bool) :
    RU (emit c1 (.input r1)) (emit c2 (.input r2)) := by
  refine ⟨⟨?_, Bounds.wf_emit _ hq.wf1, Bounds.wf_emit _ hq.wf2, ?_⟩, hc⟩
  · exact PersU.upd hq.pers c1.buf c1.position _ c2.buf c2.position _
  · show uvis (c1.events ++ [.input r1]) = uvis (c2.events ++ [.input r2])
    rw [uvis_input, uvis_input]; exact hq.ev

/-- every `Observable`-level result is a `UserObservable`-level result -/
theorem RU.of_R {c1 c2 : Ctx} (h : R c1 c2) : RU c1 c2 := by
  obtain ⟨⟨hp, w1, w2, hev⟩, hc⟩ := h
  refine ⟨⟨PersU.of_pers hp, w1, w2, ?_⟩, hc⟩
  have : ∀ es, uvis es = (vis es).filter (fun e => match e with | .parseMsg _ => false | _ => true) := by
    intro es
    unfold uvis vis
    rw [List.filter_filter]
    apply List.filter_congr
    intro e _
    cases e <;> rfl
  rw [this, this, hev]

/-! ## one message -/

theorem stepU_pers {c1 c2 : Ctx} {k1 k2 : Nat} (h : PersU (parse c1 0 k1).1 (parse c2 0 k2).1) :
    PersU (step c1 k1) (step c2 k2) := by
  unfold step
  simp only []
  generalize (parse c1 0 k1).1 = d1 at h ⊢
  generalize (parse c2 0 k2).1 = d2 at h ⊢
  exact PersU.upd h _ _ d1.events _ _ d2.events

theorem step_events (c : Ctx) (k : Nat) : (step c k).events = (parse c 0 k).1.events := by
  unfold step; rfl

theorem step_reset (c : Ctx) (k : Nat) : step (resetc c) k = step c k := by
  unfold step
  rw [parse_reset]

/-- both runs parse the same message bytes -/
theorem stepU_Q {c1 c2 : Ctx} (h : QU c1 c2) (k : Nat) (h1 : k ≤ c1.position) (h2 : k ≤ c2.position)
    (hm : c1.buf.take k = c2.buf.take k)
    (hl : (c1.buf.take k).getLast? = some 10 ∨ (c1.buf.take k).getLast? = some 13) : QU (step c1 k) (step c2 k) := by
  obtain ⟨hp, w1, w2, hev⟩ := h
  obtain ⟨a1, es, e1, e2⟩ := parse_local (resetc c1) (resetc c2) k hp w1.1 w2.1 (by have := w1.2.1; show k < c1.bufLen; omega) hm hl
  simp only [parse_reset] at a1 e1 e2
  refine ⟨?_, (step_content c1 k w1 h1).1, (step_content c2 k w2 h2).1, ?_⟩
  · have a2 : PersU (parse c1 0 k).1 (parse c2 0 k).1 := PersU.of_pers a1
    exact stepU_pers (c1 := c1) (c2 := c2) (k1 := k) (k2 := k) a2
  · rw [step_events, step_events, e1, e2]
    show uvis (c1.events ++ es) = uvis (c2.events ++ es)
    rw [uvis_append, uvis_append, hev]

/-- the first run holds `m ++ [CR]` (and whatever behind it), the second `m ++ [CR, LF]` -/
theorem stepU_crlf {cs cw : Ctx} (h : QU cs cw) (k g g' : Nat) (h1 : k ≤ cs.position) (h2 : k + 1 ≤ cw.position)
    (hm : cw.buf.take k = cs.buf.take k) (hlf : cw.buf[k]? = some 10) (hq : QuotesLineLocal (cw.buf.take (k + 1)))
    (hcr : (cw.buf.take k).getLast? = some 13) (hs : scanFrom g (cw.buf.take k) 0 = some (k, g')) :
    QU (step cs k) (step cw (k + 1)) := by
  obtain ⟨hp, w1, w2, hev⟩ := h
  obtain ⟨a1, es, e1, e2⟩ := parse_crlf (resetc cw) (resetc cs) k g g' hp.symm w2.1 w1.1
    (by have := w2.2.1; show k + 1 < cw.bufLen; omega) w2.2.2 hm hlf hq hcr hs
  simp only [parse_reset] at a1 e1 e2
  refine ⟨?_, (step_content cs k w1 h1).1, (step_content cw (k + 1) w2 h2).1, ?_⟩
  · have a2 : PersU (parse cs 0 k).1 (parse cw 0 (k + 1)).1 := PersU.of_pers a1.symm
    exact stepU_pers (c1 := cs) (c2 := cw) (k1 := k) (k2 := k + 1) a2
  · rw [step_events, step_events, e1, e2]
    show uvis (cs.events ++ _) = uvis (cw.events ++ _)
    rw [uvis_parseMsg, uvis_parseMsg, hev]

/-- a line feed alone is an empty message: parsing it only resets the per-message output bookkeeping -/
theorem parse_lf (c : Ctx) (h : c.buf.take 1 = [10]) : (parse c 0 1).1 = emit (resetc c) (.parseMsg [10]) := by
  rw [ParseLocalAux.parse_eq]
  simp only [List.drop_zero, h]
  rw [Bounds.parseLoop_succ, stepUnit_core]
  have hw : (((emit { c with out := outReset c.out } (Ev.parseMsg [10])).buf.drop 0).take 1) = [10] := by
    show (c.buf.drop 0).take 1 = [10]
    rw [List.drop_zero]; exact h
  rw [hw]
  obtain ⟨d1, d2, d3⟩ := detect_lf
  have hs : ∀ (x : Ctx), stepCore x 0 none true (Parser.detectUnit [10]) = (x, none, true) := by
    intro x
    unfold stepCore
    have d2' : (Parser.detectUnit [10]).header.type ≠ TokType.invalid := d2
    simp only [d1, beq_iff_eq, d2', if_false, Int.lt_irrefl, false_and]
  rw [hs, d3, if_neg (by omega)]
  rfl

theorem stepU_lf {c1 c2 : Ctx} (h : QU c1 c2) (h1 : 1 ≤ c1.position) (hb : c1.buf.take 1 = [10]) : QU (step c1 1) c2 := by
  obtain ⟨hp, w1, w2, hev⟩ := h
  refine ⟨?_, (step_content c1 1 w1 h1).1, w2, ?_⟩
  · unfold step
    rw [parse_lf c1 hb]
    exact PersU.upd (c1 := c1) (c2 := c2) hp _ _ _ c2.buf c2.position c2.events
  · rw [step_events, parse_lf c1 hb]
    show uvis (c1.events ++ [.parseMsg [10]]) = _
    rw [uvis_parseMsg, hev]; simp [uvis]

/-! ## the scan when more bytes arrive, in general -/

theorem scan_stable' (s y : Bytes) (k : Nat) (hq : QuotesLineLocal (s ++ y))
    (hx : k < s.length ∨ s.getLast? ≠ some 13 ∨ y.head? ≠ some 10) (hs : scan s = some k) : scan (s ++ y) = some k := by
  obtain ⟨f, hf⟩ := scan_exists ((s ++ y).length + 1) (by rw [List.length_append]; omega) hs
  obtain ⟨h1, h2⟩ := scanFrom_nl s _ _ _ _ hf
  have := scanFrom_stable s y hq k hx h1 h2 _ _ _ hf
  unfold scan
  rw [this]
  rfl

theorem scan_crlf (s y : Bytes) (hq : QuotesLineLocal (s ++ 10 :: y)) (h13 : s.getLast? = some 13)
    (hs : scan s = some s.length) : scan (s ++ 10 :: y) = some (s.length + 1) := by
  obtain ⟨f, hf⟩ := scan_exists ((s ++ 10 :: y).length + 1) (by rw [List.length_append]; omega) hs
  have := scanFrom_crlf s y hq h13 _ _ _ hf
  unfold scan
  rw [this]
  rfl

theorem scan_lf (y : Bytes) (hq : QuotesLineLocal (10 :: y)) : scan (10 :: y) = some 1 := by
  have h1 : scan [10] = some 1 := by decide
  exact scan_stable' [10] y 1 hq (Or.inr (Or.inl (by decide))) h1

theorem scanFrom_nil (f tot : Nat) : scanFrom f [] tot = none := by
  cases f with
  | zero => rfl
  | succ f =>
    rw [scanFrom_succ, List.drop_nil, detect_nil.1, detect_nil.2]
    rfl

/-! ## two runs on the same pending bytes, and on pending bytes of which one is a prefix of the other -/

theorem loopU_same : ∀ (n : Nat) (c1 c2 : Ctx) (f1 f2 : Nat) (r1 r2 : Bool),
    QU c1 c2 → content c1 = content c2 → (content c1).length ≤ n →
    (content c1).length < f1 → (content c1).length < f2 →
    QU (inputLoop f1 c1 0 r1).1 (inputLoop f2 c2 0 r2).1 ∧
    content (inputLoop f1 c1 0 r1).1 = content (inputLoop f2 c2 0 r2).1 := by
  intro n
  induction n using Nat.strongRecOn with
  | _ n ih =>
    intro c1 c2 f1 f2 r1 r2 hq hc hn hf1 hf2
    have hp1 := wf_pos_le hq.wf1
    have hp2 := wf_pos_le hq.wf2
    have hl1 := content_length c1 hp1
    have hl2 := content_length c2 hp2
    rw [inputLoop_scan f1 c1 0 r1 hp1, inputLoop_scan f2 c2 0 r2 hp2, ← hc]
    have e1 := scan_of_scanFrom f1 (content c1) hf1
    have e2 := scan_of_scanFrom f2 (content c1) hf2
    cases h1 : scanFrom f1 (content c1) 0 with
    | none =>
      rw [h1] at e1
      cases h2 : scanFrom f2 (content c1) 0 with
      | none => exact ⟨hq, hc⟩
      | some p => rw [h2, ← e1] at e2; cases e2
    | some p =>
      obtain ⟨k, g1⟩ := p
      rw [h1] at e1
      cases h2 : scanFrom f2 (content c1) 0 with
      | none => rw [h2, ← e1] at e2; cases e2
      | some p2 =>
        obtain ⟨k2, g2⟩ := p2
        rw [h2, ← e1] at e2
        simp only [Option.map_some, Option.some.injEq] at e2
        subst e2
        dsimp only
        obtain ⟨a1, a2, a3, a4⟩ := scanFrom_some _ _ _ _ _ h1
        obtain ⟨b1, b2, b3, b4⟩ := scanFrom_some _ _ _ _ _ h2
        have hk1 : k2 ≤ c1.position := by omega
        have hk2 : k2 ≤ c2.position := by rw [← hl2, ← hc]; exact a2
        have hsc : scan (content c1) = some k2 := by rw [← e1]; rfl
        have hm1 := content_take c1 k2 hk1
        have hm2 := content_take c2 k2 hk2
        have hQ := stepU_Q hq k2 hk1 hk2 (by rw [← hm1, ← hm2, hc]) (by rw [← hm1]; exact scan_last hsc)
        obtain ⟨_, s1, _, _⟩ := step_content c1 k2 hq.wf1 hk1
        obtain ⟨_, s2, _, _⟩ := step_content c2 k2 hq.wf2 hk2
        have hlen : (content (step c1 k2)).length = (content c1).length - k2 := by rw [s1, List.length_drop]
        exact ih ((content c1).length - k2) (by omega) _ _ g1 g2 true true hQ (by rw [s1, s2, hc])
          (by omega) (by omega) (by omega)

theorem QU.store_input {d1 d2 : Ctx} (h : QU d1 d2) (r0 : Bool) (y : Bytes) (hfit : d1.position + y.length + 1 ≤ d1.bufLen) :
    QU (store (emit d1 (.input r0)) y) d2 := by
  obtain ⟨t1, _, _⟩ := store_content (emit d1 (.input r0)) y (Bounds.wf_emit _ h.wf1) hfit
  refine ⟨?_, t1, h.wf2, ?_⟩
  · exact PersU.upd h.pers _ _ _ d2.buf d2.position d2.events
  · show uvis (d1.events ++ [.input r0]) = uvis d2.events
    rw [uvis_input]; exact h.ev

theorem loopU_split : ∀ (n : Nat) (c1 c2 : Ctx) (y : Bytes) (f1 f2 : Nat) (r1 r2 : Bool),
    QU c1 c2 → content c2 = content c1 ++ y → QuotesLineLocal (content c2) → (content c1).length ≤ n →
    (content c1).length < f1 → (content c1).length + y.length < f2 →
    c1.position + y.length + 1 ≤ c1.bufLen →
    ∀ (r0 r3 : Bool) (g : Nat), (inputLoop f1 c1 0 r1).1.position + y.length < g →
      QU (inputLoop g (store (emit (inputLoop f1 c1 0 r1).1 (.input r0)) y) 0 r3).1 (inputLoop f2 c2 0 r2).1 ∧
      content (inputLoop g (store (emit (inputLoop f1 c1 0 r1).1 (.input r0)) y) 0 r3).1 = content (inputLoop f2 c2 0 r2).1 := by
  intro n
  induction n using Nat.strongRecOn with
  | _ n ih =>
    intro c1 c2 y f1 f2 r1 r2 hq hc hg hn hf1 hf2 hfit r0 r3 g
    have hp1 := wf_pos_le hq.wf1
    have hp2 := wf_pos_le hq.wf2
    have hl1 := content_length c1 hp1
    have hl2 := content_length c2 hp2
    have hlen2 : (content c2).length = (content c1).length + y.length := by rw [hc, List.length_append]
    rw [inputLoop_scan f1 c1 0 r1 hp1]
    have e1 := scan_of_scanFrom f1 (content c1) hf1
    cases h1 : scanFrom f1 (content c1) 0 with
    | none =>
      dsimp only
      intro hg'
      obtain ⟨t1, t2, t3⟩ := store_content (emit c1 (.input r0)) y (Bounds.wf_emit _ hq.wf1) hfit
      have hq3 : QU (store (emit c1 (.input r0)) y) c2 := QU.store_input hq r0 y hfit
      have hc3 : content (store (emit c1 (.input r0)) y) = content c2 := by rw [t2, hc]; rfl
      have hl3 : (content (store (emit c1 (.input r0)) y)).length = (content c1).length + y.length := by
        rw [hc3, hlen2]
      exact loopU_same _ _ _ g f2 r3 r2 hq3 hc3 (Nat.le_refl _)
        (by rw [hl3, hl1]; exact hg') (by rw [hl3]; exact hf2)
    | some p =>
      obtain ⟨k, g1⟩ := p
      rw [h1] at e1
      dsimp only
      have hsc : scan (content c1) = some k := by rw [← e1]; rfl
      obtain ⟨a1, a2, a3, a4⟩ := scanFrom_some _ _ _ _ _ h1
      have hk1 : k ≤ c1.position := by omega
      have hm1 := content_take c1 k hk1
      obtain ⟨sw1, s1, s1p, s1b⟩ := step_content c1 k hq.wf1 hk1
      rw [inputLoop_scan f2 c2 0 r2 hp2]
      have e2 := scan_of_scanFrom f2 (content c2) (by omega)
      by_cases hx : k < (content c1).length ∨ (content c1).getLast? ≠ some 13 ∨ y.head? ≠ some 10
      · -- the message found in the pending bytes is the message found when `y` has arrived too
        have hsc2 : scan (content c2) = some k := by rw [hc]; exact scan_stable' _ _ _ (by rw [← hc]; exact hg) hx hsc
        cases h2 : scanFrom f2 (content c2) 0 with
        | none => rw [h2, hsc2] at e2; cases e2
        | some p2 =>
          obtain ⟨k2, g2⟩ := p2
          rw [h2, hsc2] at e2
          simp only [Option.map_some, Option.some.injEq] at e2
          subst e2
          dsimp only
          obtain ⟨b1, b2, b3, b4⟩ := scanFrom_some _ _ _ _ _ h2
          have hk2 : k2 ≤ c2.position := by omega
          have hm2 := content_take c2 k2 hk2
          have hpre : (content c2).take k2 = (content c1).take k2 := by
            rw [hc, List.take_append_of_le_length a2]
          have hQ := stepU_Q hq k2 hk1 hk2 (by rw [← hm1, ← hm2, hpre]) (by rw [← hm1]; exact scan_last hsc)
          obtain ⟨_, s2, _, _⟩ := step_content c2 k2 hq.wf2 hk2
          have hlen : (content (step c1 k2)).length = (content c1).length - k2 := by rw [s1, List.length_drop]
          have hc' : content (step c2 k2) = content (step c1 k2) ++ y := by
            rw [s1, s2, hc, List.drop_append_of_le_length a2]
          exact ih ((content c1).length - k2) (by omega) _ _ y g1 g2 true true hQ hc'
            (by rw [s2]; exact qll_drop hg _) (by omega) (by omega) (by omega) (by rw [s1p, s1b]; omega) r0 r3 g
      · -- the pending bytes are one message ending in CR, and `y` starts with the LF of that CR LF
        have hx1 : ¬ k < (content c1).length := fun h => hx (Or.inl h)
        have hx2 : (content c1).getLast? = some 13 := by
          apply Classical.byContradiction; intro h; exact hx (Or.inr (Or.inl h))
        have hx3 : y.head? = some 10 := by
          apply Classical.byContradiction; intro h; exact hx (Or.inr (Or.inr h))
        have hk : k = (content c1).length := by omega
        obtain ⟨y', rfl⟩ : ∃ y', y = 10 :: y' := by
          cases y with
          | nil => simp at hx3
          | cons b t => simp at hx3; exact ⟨t, by rw [hx3]⟩
        have hq2 : QuotesLineLocal (content c1 ++ 10 :: y') := by rw [← hc]; exact hg
        have hsc2 : scan (content c2) = some (k + 1) := by
          rw [hc, hk]; exact scan_crlf _ _ hq2 hx2 (by rw [← hk]; exact hsc)
        -- the first run: the message, then nothing pending
        have hnil : content (step c1 k) = [] := by rw [s1, hk]; simp
        rw [inputLoop_scan g1 (step c1 k) 0 true (wf_pos_le sw1), hnil, scanFrom_nil]
        dsimp only
        intro hg'
        have hpos0 : (step c1 k).position = 0 := by rw [s1p, hk, hl1]; omega
        obtain ⟨t1, t2, t3⟩ := store_content (emit (step c1 k) (.input r0)) (10 :: y') (Bounds.wf_emit _ sw1)
          (by show (step c1 k).position + _ + 1 ≤ (step c1 k).bufLen; rw [hpos0, s1b]; omega)
        have hc3 : content (store (emit (step c1 k) (.input r0)) (10 :: y')) = 10 :: y' := by
          rw [t2]; show content (step c1 k) ++ _ = _; rw [hnil]; rfl
        have hp3 := wf_pos_le t1
        rw [inputLoop_scan g _ 0 r3 hp3, hc3]
        have hq3 : QuotesLineLocal (10 :: y') := qll_right hq2
        have e3 := scan_of_scanFrom g (10 :: y') (by
          rw [hpos0] at hg'; simpa using hg')
        rw [scan_lf y' hq3] at e3
        cases h3 : scanFrom g (10 :: y') 0 with
        | none => rw [h3] at e3; cases e3
        | some p3 =>
          obtain ⟨k3, g3⟩ := p3
          rw [h3] at e3
          simp only [Option.map_some, Option.some.injEq] at e3
          subst e3
          dsimp only
          obtain ⟨d1, d2, d3, d4⟩ := scanFrom_some _ _ _ _ _ h3
          -- the second run: the message with its CR LF
          cases h2 : scanFrom f2 (content c2) 0 with
          | none => rw [h2, hsc2] at e2; cases e2
          | some p2 =>
            obtain ⟨k2, g2⟩ := p2
            rw [h2, hsc2] at e2
            simp only [Option.map_some, Option.some.injEq] at e2
            subst e2
            dsimp only
            obtain ⟨b1, b2, b3, b4⟩ := scanFrom_some _ _ _ _ _ h2
            have hk2 : k + 1 ≤ c2.position := by omega
            have hbk : c2.buf.take k = c1.buf.take k := by
              rw [← content_take c2 k (by omega), ← hm1, hc, List.take_append_of_le_length a2]
            have hbk1 : c2.buf.take (k + 1) = (content c1 ++ 10 :: y').take (k + 1) := by
              rw [← content_take c2 (k + 1) hk2, hc]
            have hlf : c2.buf[k]? = some 10 := by
              have := congrArg (fun l => l[k]?) hbk1
              simp only [List.getElem?_take, Nat.lt_succ_self, if_true] at this
              rw [this, List.getElem?_append_right (by omega), hk]
              simp
            have hck : c1.buf.take k = content c1 := by rw [← hm1, hk, List.take_length]
            have hQ := stepU_crlf hq k f1 g1 hk1 hk2 hbk hlf
              (by rw [hbk1]; exact qll_take hq2 _)
              (by rw [hbk, hck]; exact hx2) (by rw [hbk, hck]; exact h1)
            -- then the line feed alone in the first run
            have hQ3 : QU (store (emit (step c1 k) (.input r0)) (10 :: y')) (step c2 (k + 1)) :=
              QU.store_input hQ r0 (10 :: y') (by rw [hpos0, s1b]; omega)
            have hb1 : (store (emit (step c1 k) (.input r0)) (10 :: y')).buf.take 1 = [10] := by
              rw [← content_take _ 1 (by rw [t3]; simp only [List.length_cons]; omega), hc3]; rfl
            have hQ4 := stepU_lf hQ3 (by rw [t3]; simp only [List.length_cons]; omega) hb1
            obtain ⟨_, u1, _, _⟩ := step_content _ 1 t1 (show 1 ≤ (store (emit (step c1 k) (.input r0)) (10 :: y')).position by rw [t3]; simp only [List.length_cons]; omega)
            obtain ⟨_, u2, _, _⟩ := step_content c2 (k + 1) hq.wf2 hk2
            have hcc : content (step (store (emit (step c1 k) (.input r0)) (10 :: y')) 1) = content (step c2 (k + 1)) := by
              rw [u1, u2, hc3, hc, hk]
              simp
            have hly : (content (step (store (emit (step c1 k) (.input r0)) (10 :: y')) 1)).length = y'.length := by
              rw [u1, hc3]; simp
            rw [hpos0] at hg'
            simp only [List.length_cons] at d3 hf2 hg'
            exact loopU_same _ _ _ g3 g2 true true hQ4 hcc (Nat.le_refl _) (by rw [hly]; omega) (by rw [hly]; omega)

/-! ## one chunk against two, any partition against the whole stream -/

theorem inputU_split (c : Ctx) (h : WF c) (a b : Bytes)
    (ha : a ≠ []) (hb : b ≠ []) (hfit : Fits c (a.length + b.length)) (hg : QuotesLineLocal (content c ++ a ++ b)) :
    RU (input (input c a) b) (input c (a ++ b)) := by
  unfold Fits at hfit
  have hab : a ++ b ≠ [] := by
    intro he; exact ha (List.append_eq_nil_iff.1 he).1
  have hfa : c.position + a.length + 1 ≤ c.bufLen := by omega
  have hfab : c.position + (a ++ b).length + 1 ≤ c.bufLen := by rw [List.length_append]; omega
  obtain ⟨i1, i2, _, _, _⟩ := input_facts c a h ha hfa
  have hfb : (input c a).position + b.length + 1 ≤ (input c a).bufLen := by rw [i2]; omega
  rw [input_eq (input c a) b hb hfb, input_eq c (a ++ b) hab hfab]
  obtain ⟨t1, t2, t3⟩ := store_content c a h hfa
  obtain ⟨u1, u2, u3⟩ := store_content c (a ++ b) h hfab
  have hq : QU (store c a) (store c (a ++ b)) :=
    ⟨PersU.upd (PersU.refl c) _ _ c.events _ _ c.events, t1, u1, rfl⟩
  have hc : content (store c (a ++ b)) = content (store c a) ++ b := by rw [t2, u2, List.append_assoc]
  have hl1 : (content (store c a)).length = c.position + a.length := by
    rw [content_length _ (wf_pos_le t1), t3]
  have key := loopU_split _ (store c a) (store c (a ++ b)) b (c.position + a.length + 2)
    (c.position + (a ++ b).length + 2) true true hq hc (by rw [u2, ← List.append_assoc]; exact hg) (Nat.le_refl _)
    (by omega) (by rw [hl1, List.length_append]; omega) (by rw [t3, store_bufLen]; omega)
  rw [input_eq c a ha hfa] at i1 ⊢
  rw [emit_position]
  obtain ⟨k1, k2⟩ := key (inputLoop (c.position + a.length + 2) (store c a) 0 true).2 true
    ((inputLoop (c.position + a.length + 2) (store c a) 0 true).1.position + b.length + 2) (by omega)
  exact RU.emit k1 k2 _ _

theorem chunksU : ∀ (cs : List Bytes) (c : Ctx), WF c →
    cs ≠ [] → (∀ x ∈ cs, x ≠ []) → Fits c cs.flatten.length → QuotesLineLocal (content c ++ cs.flatten) →
    RU (cs.foldl input c) (input c cs.flatten) := by
  intro cs
  induction cs with
  | nil => intro c _ h; exact absurd rfl h
  | cons x rest ih =>
    intro c h _ hne hfit hg
    cases rest with
    | nil =>
      simp only [List.foldl_cons, List.foldl_nil, List.flatten_cons, List.flatten_nil, List.append_nil]
      exact RU.refl (Bounds.input_wf c x h)
    | cons y rest =>
      have hx : x ≠ [] := hne x (by simp)
      have hy : y ≠ [] := hne y (by simp)
      have hfl : (x :: y :: rest).flatten = x ++ (y :: rest).flatten := by simp
      have hrne : (y :: rest).flatten ≠ [] := by
        intro he
        rw [List.flatten_cons] at he
        exact hy (List.append_eq_nil_iff.1 he).1
      unfold Fits at hfit
      rw [hfl, List.length_append] at hfit
      obtain ⟨i1, i2, j, i4, i3⟩ := input_facts c x h hx (by omega)
      rw [List.foldl_cons]
      have hg' : QuotesLineLocal (content c ++ x ++ (y :: rest).flatten) := by
        rw [List.append_assoc, ← hfl]; exact hg
      have h1 := ih (input c x) (Bounds.input_wf c x h) (by simp) (fun z hz => hne z (by simp [hz]))
        (by unfold Fits; rw [i2]; omega)
        (by rw [i3, ← List.drop_append_of_le_length i4]
            exact qll_drop hg' _)
      have h2 := inputU_split c h x (y :: rest).flatten hx hrne (by unfold Fits; omega) hg'
      rw [hfl]
      exact h1.trans h2

/-- ANY two partitions of a stream in which no quoted string contains a line terminator: a user of the
library sees no difference -/
theorem chunking_invariant_quotes (c : Ctx) (h : WF c) (cs cs' : List Bytes)
    (hne : (∀ x ∈ cs, x ≠ []) ∧ (∀ x ∈ cs', x ≠ [])) (hs : cs.flatten = cs'.flatten) (hcs : cs ≠ [])
    (hfit : Fits c cs.flatten.length) (hq : QuotesLineLocal (c.buf.take c.position ++ cs.flatten)) :
    UserObservable (cs.foldl input c) = UserObservable (cs'.foldl input c) := by
  have hcs' := flatten_ne_nil_of hne.1 hs hcs
  have h1 := chunksU cs c h hcs hne.1 hfit hq
  have h2 := chunksU cs' c h hcs' hne.2 (by rw [← hs]; exact hfit) (by rw [← hs]; exact hq)
  rw [← hs] at h2
  exact (h1.trans h2.symm).obs

/-- ANY two partitions of a quote-free stream: a user of the library sees no difference -/
theorem chunking_invariant_noquote (c : Ctx) (h : WF c) (cs cs' : List Bytes)
    (hne : (∀ x ∈ cs, x ≠ []) ∧ (∀ x ∈ cs', x ≠ [])) (hs : cs.flatten = cs'.flatten) (hcs : cs ≠ [])
    (hfit : Fits c cs.flatten.length) (hq : NoQuotes (c.buf.take c.position ++ cs.flatten)) :
    UserObservable (cs.foldl input c) = UserObservable (cs'.foldl input c) :=
  chunking_invariant_quotes c h cs cs' hne hs hcs hfit (noQuotes_qll hq)

end ScpiVerif.Lemmas.Chunking
