/-
C08 helper lemmas, top level for streams with quoted strings: the `Observable` theorems (message boundaries
included) for streams in which no quoted string contains a line terminator (`QuotesLineLocal`), in partitions
that do not cut directly after a CR.  Assembled from the generic runs of ChunkingRuns.lean with
`good_quotes` (ChunkingScan.lean: the scan is prefix-stable on such streams) and `parse_local`
(ParseLocal.lean: SCPI_Parse of a message ending in LF or CR is local — no hypothesis on quotes).
The `UserObservable` theorems (any partition) are in ChunkingCR.lean (`inputU_split`, `chunking_invariant_quotes`).
-/
import ScpiVerif.Lemmas.Chunking
import ScpiVerif.Lemmas.ChunkingCR
import ScpiVerif.Lemmas.ParseLocal

namespace ScpiVerif.Lemmas.Chunking
open ScpiVerif ScpiVerif.Ctx ScpiVerif.Lexer ScpiVerif.Props.C08

theorem parseLocalOn_end : ParseLocalOn MsgEnd := parseLocalOn_of (fun _ h => h)

theorem input_split_cr_quotes (c : Ctx) (h : WF c) (a b : Bytes) (ha : a ≠ []) (hb : b ≠ [])
    (hfit : Fits c (a.length + b.length)) (hq : QuotesLineLocal (c.buf.take c.position ++ a ++ b))
    (hcut : a.getLast? ≠ some 13) :
    Observable (input (input c a) b) = Observable (input c (a ++ b)) :=
  (input_split_R parseLocalOn_end good_quotes c h a b ha hb hfit hq (good_quotes.app1 _ a ha hcut)).obs

theorem chunking_whole_cr_quotes (c : Ctx) (h : WF c) (cs : List Bytes) (hne : ∀ x ∈ cs, x ≠ [])
    (hcs : cs ≠ []) (hfit : Fits c cs.flatten.length) (hq : QuotesLineLocal (c.buf.take c.position ++ cs.flatten))
    (hcut : ∀ x ∈ cs, x.getLast? ≠ some 13) :
    Observable (cs.foldl input c) = Observable (input c cs.flatten) :=
  (chunks_R parseLocalOn_end good_quotes cs c h hcs hne hfit hq hcut).obs

/-- two partitions of the same stream, neither of which cuts directly after a CR -/
theorem chunking_invariant_cr_quotes (c : Ctx) (h : WF c) (cs cs' : List Bytes)
    (hne : (∀ x ∈ cs, x ≠ []) ∧ (∀ x ∈ cs', x ≠ [])) (hs : cs.flatten = cs'.flatten) (hcs : cs ≠ [])
    (hfit : Fits c cs.flatten.length) (hq : QuotesLineLocal (c.buf.take c.position ++ cs.flatten))
    (hcut : (∀ x ∈ cs, x.getLast? ≠ some 13) ∧ (∀ x ∈ cs', x.getLast? ≠ some 13)) :
    Observable (cs.foldl input c) = Observable (cs'.foldl input c) := by
  have hcs' := flatten_ne_nil_of hne.1 hs hcs
  rw [chunking_whole_cr_quotes c h cs hne.1 hcs hfit hq hcut.1,
    chunking_whole_cr_quotes c h cs' hne.2 hcs' (by rw [← hs]; exact hfit) (by rw [← hs]; exact hq) hcut.2, hs]

/-- in a stream without CR no chunk ends in a CR -/
theorem noCR_chunks {p : Bytes} {cs : List Bytes} (h : NoCR (p ++ cs.flatten)) : ∀ x ∈ cs, x.getLast? ≠ some 13 := by
  intro x hx h13
  exact h 13 (List.mem_append_right _ (List.mem_flatten.2 ⟨x, hx, List.mem_of_getLast? h13⟩)) rfl

end ScpiVerif.Lemmas.Chunking
