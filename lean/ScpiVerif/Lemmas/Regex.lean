/-
Correctness of the Brzozowski-derivative matcher of Spec/Tokens.lean against the declarative
semantics `Matches`: `nullable`, `deriv`, `isNone`, `accepts`, `longestAux` / `longest`.
-/
import ScpiVerif.Spec.Tokens

namespace ScpiVerif.Lemmas.Regex
open ScpiVerif ScpiVerif.Spec ScpiVerif.Spec.Re
open ScpiVerif.Lexer (Bytes)

/-! ### inversion of `Matches` -/

theorem matches_empty {u : Bytes} : ¬ Matches .empty u := by
  intro h; cases h

theorem matches_eps {u : Bytes} : Matches .eps u ↔ u = [] := by
  constructor
  · intro h; cases h; rfl
  · rintro rfl; exact .eps

theorem matches_chr {p : UInt8 → Bool} {u : Bytes} :
    Matches (.chr p) u ↔ ∃ b, u = [b] ∧ p b = true := by
  constructor
  · intro h; cases h with | chr _ b hb => exact ⟨b, rfl, hb⟩
  · rintro ⟨b, rfl, hb⟩; exact .chr p b hb

theorem matches_seq {a b : Re} {u : Bytes} :
    Matches (.seq a b) u ↔ ∃ s t, u = s ++ t ∧ Matches a s ∧ Matches b t := by
  constructor
  · intro h; cases h with | seq h1 h2 => exact ⟨_, _, rfl, h1, h2⟩
  · rintro ⟨s, t, rfl, h1, h2⟩; exact .seq h1 h2

theorem matches_alt {a b : Re} {u : Bytes} :
    Matches (.alt a b) u ↔ Matches a u ∨ Matches b u := by
  constructor
  · intro h
    cases h with
    | altL h => exact .inl h
    | altR h => exact .inr h
  · rintro (h | h)
    · exact .altL h
    · exact .altR h

/-- a non-empty word of `a*` starts with a non-empty word of `a` -/
theorem matches_star_cons {a : Re} {c : UInt8} {u : Bytes} (h : Matches (.star a) (c :: u)) :
    ∃ s t, u = s ++ t ∧ Matches a (c :: s) ∧ Matches (.star a) t := by
  generalize hr : Re.star a = r at h
  generalize hw : c :: u = w at h
  induction h with
  | eps => cases hr
  | chr => cases hr
  | seq => cases hr
  | altL => cases hr
  | altR => cases hr
  | starNil => cases hw
  | @starCons a' s t h1 h2 _ ih2 =>
    cases hr
    cases s with
    | nil => exact ih2 rfl (by simpa using hw)
    | cons d s' =>
      simp at hw
      obtain ⟨rfl, rfl⟩ := hw
      exact ⟨s', t, rfl, h1, h2⟩

theorem matches_star {a : Re} {u : Bytes} :
    Matches (.star a) u ↔ u = [] ∨ ∃ s t, u = s ++ t ∧ s ≠ [] ∧ Matches a s ∧ Matches (.star a) t := by
  constructor
  · intro h
    cases u with
    | nil => exact .inl rfl
    | cons c u =>
      obtain ⟨s, t, rfl, h1, h2⟩ := matches_star_cons h
      exact .inr ⟨c :: s, t, rfl, by simp, h1, h2⟩
  · rintro (rfl | ⟨s, t, rfl, _, h1, h2⟩)
    · exact .starNil
    · exact .starCons h1 h2

/-! ### nullable, deriv, isNone -/

theorem nullable_iff (r : Re) : r.nullable = true ↔ Matches r [] := by
  induction r with
  | empty => simp [nullable, matches_empty]
  | eps => simp [nullable, matches_eps]
  | chr p => simp [nullable, matches_chr]
  | seq a b iha ihb =>
    simp only [nullable, Bool.and_eq_true, iha, ihb, matches_seq]
    constructor
    · rintro ⟨h1, h2⟩; exact ⟨[], [], rfl, h1, h2⟩
    · rintro ⟨s, t, h, h1, h2⟩
      have : s = [] ∧ t = [] := by simpa using h.symm
      obtain ⟨rfl, rfl⟩ := this
      exact ⟨h1, h2⟩
  | alt a b iha ihb => simp [nullable, iha, ihb, matches_alt]
  | star a _ => simp [nullable]; exact .starNil

theorem deriv_iff (c : UInt8) (r : Re) (u : Bytes) : Matches (r.deriv c) u ↔ Matches r (c :: u) := by
  induction r generalizing u with
  | empty => simp [deriv, matches_empty]
  | eps => simp [deriv, matches_empty, matches_eps]
  | chr p =>
    simp only [deriv, matches_chr]
    by_cases hp : p c = true
    · rw [if_pos hp, matches_eps]
      constructor
      · rintro rfl; exact ⟨c, rfl, hp⟩
      · rintro ⟨b, h, _⟩
        have : c = b ∧ u = [] := by simpa using h
        exact this.2
    · rw [if_neg hp]
      constructor
      · intro h; exact absurd h matches_empty
      · rintro ⟨b, h, hb⟩
        have : c = b ∧ u = [] := by simpa using h
        exact absurd (this.1 ▸ hb) hp
  | seq a b iha ihb =>
    have key : Matches (.seq a b) (c :: u) ↔
        (∃ s t, u = s ++ t ∧ Matches a (c :: s) ∧ Matches b t) ∨ (Matches a [] ∧ Matches b (c :: u)) := by
      rw [matches_seq]
      constructor
      · rintro ⟨s, t, h, h1, h2⟩
        cases s with
        | nil => right; simp at h; subst h; exact ⟨h1, h2⟩
        | cons d s' =>
          simp at h
          obtain ⟨rfl, rfl⟩ := h
          exact .inl ⟨s', t, rfl, h1, h2⟩
      · rintro (⟨s, t, rfl, h1, h2⟩ | ⟨h1, h2⟩)
        · exact ⟨c :: s, t, rfl, h1, h2⟩
        · exact ⟨[], c :: u, rfl, h1, h2⟩
    rw [key]
    simp only [deriv]
    by_cases hn : a.nullable = true
    · rw [if_pos hn]
      simp only [matches_alt, matches_seq, iha, ihb]
      simp [← nullable_iff, hn]
    · rw [if_neg hn]
      simp only [matches_seq, iha]
      simp [← nullable_iff, hn]
  | alt a b iha ihb => simp [deriv, matches_alt, iha, ihb]
  | star a iha =>
    simp only [deriv, matches_seq, iha]
    constructor
    · rintro ⟨s, t, rfl, h1, h2⟩
      exact Matches.starCons (s := c :: s) h1 h2
    · intro h
      exact matches_star_cons h

theorem accepts_iff_matches (r : Re) (s : Bytes) : r.accepts s = true ↔ Matches r s := by
  induction s generalizing r with
  | nil => simp [accepts, nullable_iff]
  | cons b bs ih => simp [accepts, ih, deriv_iff]

/-- soundness of the early exit -/
theorem isNone_sound (r : Re) (u : Bytes) (h : r.isNone = true) : ¬ Matches r u := by
  induction r generalizing u with
  | empty => exact matches_empty
  | eps => simp [isNone] at h
  | chr p => simp [isNone] at h
  | seq a b iha ihb =>
    simp only [isNone, Bool.or_eq_true] at h
    rw [matches_seq]
    rintro ⟨s, t, _, h1, h2⟩
    rcases h with h | h
    · exact iha s h h1
    · exact ihb t h h2
  | alt a b iha ihb =>
    simp only [isNone, Bool.and_eq_true] at h
    rw [matches_alt]
    rintro (h1 | h1)
    · exact iha u h.1 h1
    · exact ihb u h.2 h1
  | star a _ => simp [isNone] at h

/-! ### the longest-prefix loop -/

theorem longestAux_spec (r : Re) (s : Bytes) (n : Nat) (best : Option Nat) :
    (∃ k, IsLongest (Matches r) s k ∧ longestAux r s n best = some (n + k)) ∨
    ((∀ m, m ≤ s.length → ¬ Matches r (s.take m)) ∧ longestAux r s n best = best) := by
  induction s generalizing r n best with
  | nil =>
    by_cases hn : r.nullable = true
    · left
      refine ⟨0, ⟨Nat.le_refl _, by simpa using (nullable_iff r).1 hn, ?_⟩, by simp [longestAux, hn]⟩
      intro m h1 h2; simp at h2; omega
    · right
      refine ⟨?_, by simp [longestAux, hn]⟩
      intro m _ hm
      simp at hm
      exact hn ((nullable_iff r).2 hm)
  | cons b bs ih =>
    have hsucc : ∀ m, Matches r ((b :: bs).take (m + 1)) ↔ Matches (r.deriv b) (bs.take m) := by
      intro m; simp [deriv_iff]
    by_cases hz : r.isNone = true
    · right
      have hno : ∀ u, ¬ Matches r u := fun u => isNone_sound r u hz
      refine ⟨fun m _ => hno _, ?_⟩
      have hn : r.nullable = false := by
        cases h : r.nullable with
        | false => rfl
        | true => exact absurd ((nullable_iff r).1 h) (hno _)
      simp [longestAux, hz, hn]
    · have hz' : r.isNone = false := by simpa using hz
      rcases ih (r.deriv b) (n + 1) (if r.nullable then some n else best) with
        ⟨k, ⟨hk1, hk2, hk3⟩, hres⟩ | ⟨hno, hres⟩
      · left
        refine ⟨k + 1, ⟨by simpa using hk1, (hsucc k).2 hk2, ?_⟩, ?_⟩
        · intro m hm1 hm2
          obtain ⟨m', rfl⟩ : ∃ m', m = m' + 1 := ⟨m - 1, by omega⟩
          rw [hsucc]
          exact hk3 m' (by omega) (by simpa using hm2)
        · simp only [longestAux, hz', Bool.false_eq_true, if_false, hres]
          congr 1; omega
      · by_cases hn : r.nullable = true
        · left
          refine ⟨0, ⟨by simp, by simpa using (nullable_iff r).1 hn, ?_⟩, ?_⟩
          · intro m hm1 hm2
            obtain ⟨m', rfl⟩ : ∃ m', m = m' + 1 := ⟨m - 1, by omega⟩
            rw [hsucc]
            exact hno m' (by simpa using hm2)
          · rw [if_pos hn] at hres
            simp only [longestAux, hz', Bool.false_eq_true, if_false, if_pos hn, hres]; rfl
        · right
          refine ⟨?_, ?_⟩
          · intro m hm
            cases m with
            | zero => simpa using fun h => hn ((nullable_iff r).2 h)
            | succ m' =>
              rw [hsucc]
              exact hno m' (by simpa using hm)
          · rw [if_neg hn] at hres
            simp only [longestAux, hz', Bool.false_eq_true, if_false, if_neg hn, hres]

/-- the longest matching prefix is unique -/
theorem isLongest_unique {L : Bytes → Prop} {s : Bytes} {n m : Nat}
    (hn : IsLongest L s n) (hm : IsLongest L s m) : n = m := by
  obtain ⟨a1, a2, a3⟩ := hn
  obtain ⟨b1, b2, b3⟩ := hm
  rcases Nat.lt_trichotomy n m with h | h | h
  · exact absurd b2 (a3 m h b1)
  · exact h
  · exact absurd a2 (b3 n h a1)

theorem longest_is_longest (r : Re) (s : Bytes) (n : Nat) :
    r.longest s = some n ↔ IsLongest (Matches r) s n := by
  unfold longest
  rcases longestAux_spec r s 0 none with ⟨k, hk, hres⟩ | ⟨hno, hres⟩
  · rw [hres]
    constructor
    · intro h
      have : k = n := by simpa using h
      exact this ▸ hk
    · intro h
      rw [isLongest_unique hk h]; simp
  · rw [hres]
    constructor
    · intro h; cases h
    · intro h; exact absurd h.2.1 (hno n h.1)

theorem longest_none (r : Re) (s : Bytes) :
    r.longest s = none ↔ ∀ m, m ≤ s.length → ¬ Matches r (s.take m) := by
  unfold longest
  rcases longestAux_spec r s 0 none with ⟨k, hk, hres⟩ | ⟨hno, hres⟩
  · rw [hres]
    constructor
    · intro h; cases h
    · intro h; exact absurd hk.2.1 (h k hk.1)
  · rw [hres]
    simpa using hno

end ScpiVerif.Lemmas.Regex
