/-
Shared definitions for the C03 proof (pattern matcher = pattern language).

* `greedy`      : the list-level walker (what `matchCommand` computes, without text)
* `keyText`, `item`, `renderRest`, `qtail` : how a parsed pattern is written
* `KwOK`        : what `parseKey` guarantees about a keyword
* `fill`        : the numbers[] bookkeeping
-/
import ScpiVerif.Model.Match
import ScpiVerif.Spec.Pattern

namespace ScpiVerif.Lemmas.Match
open ScpiVerif ScpiVerif.Match ScpiVerif.Spec.Pattern
open ScpiVerif.Lexer (Bytes isDigit isLower isUpper isAlpha)

/-- a numeric keyword contributes one entry to a reading -/
def consNum (k : Kw) (n : Option Nat) (sol : List (Option Nat)) : List (Option Nat) :=
  if k.numeric then n :: sol else sol

/-- the list-level walker: take the keyword if the mnemonic spells it, else skip it if optional -/
def greedy : List Kw → List Bytes → Option (List (Option Nat))
  | [], [] => some []
  | [], _ :: _ => none
  | k :: ks, [] => if k.optional then (greedy ks []).map (consNum k none) else none
  | k :: ks, m :: ms =>
    match kwMatch k m with
    | some n => (greedy ks ms).map (consNum k n)
    | none => if k.optional then (greedy ks (m :: ms)).map (consNum k none) else none

/-- KEY or KEY# -/
def keyText (k : Kw) : Bytes := k.long ++ (if k.numeric then [35] else [])

/-- ':'KEY or '[:'KEY']' -/
def item (k : Kw) : Bytes := if k.optional then [91, 58] ++ keyText k ++ [93] else 58 :: keyText k

def renderRest : List Kw → Bytes
  | [] => []
  | k :: ks => item k ++ renderRest ks

def qtail (q : Bool) : Bytes := if q then [63] else []

/-- what `parseKey` guarantees -/
structure KwOK (k : Kw) : Prop where
  ne : k.long ≠ []
  chars : k.long.all isKwChar = true
  upper : isUpper (k.long.headD 0) = true
  short_eq : k.short = k.long.takeWhile (fun b => !isLower b)

/-- the weaker facts the walker proof needs (also true of the `*NAME` keyword of a common
pattern written without lower-case letters) -/
structure KwW (k : Kw) : Prop where
  ne : k.long ≠ []
  chars : k.long.all (fun b => isKwChar b || b == 42) = true
  short_eq : k.short = k.long.takeWhile (fun b => !isLower b)

theorem KwOK.toW {k : Kw} (h : KwOK k) : KwW k :=
  ⟨h.ne, by
    have := h.chars
    simp only [List.all_eq_true] at this ⊢
    intro b hb; simp [this b hb], h.short_eq⟩

/-- numbers[] bookkeeping: write `ws` from index `idx` on (writes beyond the array are dropped) -/
def fill (nums : List Int) (idx : Nat) : List Int → List Int
  | [] => nums
  | w :: ws => fill (nums.set idx w) (idx + 1) ws

/-- the values a reading puts into numbers[] -/
def want (sol : List (Option Nat)) (dflt : Int) : List Int :=
  sol.map (fun o => match o with | some v => (v : Int) | none => dflt)

/-- a byte after which strtol converts nothing: no digit, white space or sign -/
def nonNumStart (c : UInt8) : Bool :=
  !isDigit c && c != 32 && !(9 ≤ c && c ≤ 13) && c != 45 && c != 43

end ScpiVerif.Lemmas.Match

