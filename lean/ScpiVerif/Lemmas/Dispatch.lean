/-
C02 helper lemmas, part 6 (main): one iteration of the unit loop of `SCPI_Parse` against the
statement's rule for that unit (`stepUnit_spec`), the loop against `expectDispatch` by induction over
the units of the message (`parseLoop_spec`), and the full dispatch theorem `dispatch_correct`.
-/
import ScpiVerif.Lemmas.DispatchEvents
import ScpiVerif.Lemmas.DispatchLookup

namespace ScpiVerif.Lemmas.Dispatch
open ScpiVerif ScpiVerif.Lexer ScpiVerif.Parser ScpiVerif.Ctx ScpiVerif.Match ScpiVerif.Spec ScpiVerif.Spec.Message
open ScpiVerif.Props.C02 ScpiVerif.Lemmas.Bounds
open ScpiVerif.Lemmas.Match (hdrAlpha)

/-- what the unit with effective header `eff` must do -/
def expectOf (pats : List Pattern.Pat) (eff : Bytes) : Message.Expect :=
  match dispatch pats eff with
  | some i => .run i eff
  | none => .undefined eff

theorem PrevOK_mono {buf : Bytes} {B lim lim' : Nat} {prev : Option (Nat × Nat)} {pe : Option Bytes}
    (h : PrevOK buf B lim prev pe) (hl : lim ≤ lim') : PrevOK buf B lim' prev pe := by
  match prev, pe, h with
  | none, none, _ => trivial
  | some (pp, pl), some e, ⟨p1, p2, p3, p4, p5⟩ => exact ⟨p1, by omega, p3, p4, p5⟩

theorem PrevOK_alpha {buf : Bytes} {B lim : Nat} {prev : Option (Nat × Nat)} {pe : Option Bytes}
    (h : PrevOK buf B lim prev pe) : ∀ e, pe = some e → ∀ b ∈ e, hdrAlpha b = true := by
  match prev, pe, h with
  | none, none, _ => intro e he; cases he
  | some (pp, pl), some e, ⟨p1, p2, p3, p4, p5⟩ => intro e' he; cases he; exact p5

theorem stepUnit_spec (cmds : List Cmd) (pats : List Pattern.Pat) (ht : TableOK cmds pats) (hs : NoScript113 cmds)
    (B L : Nat) (c : Ctx) (b l : Nat) (prev : Option (Nat × Nat)) (pe : Option Bytes) (res : Bool) (s : Bytes)
    (hcm : c.cmds = cmds) (hB : B ≤ b) (hsum : b + l = B + L) (hN : B + L ≤ c.buf.length)
    (hsuf : (c.buf.drop b).take l = s) (hprev : PrevOK c.buf B b prev pe)
    (hwf : (specUnit s).wellFormed = true) (hnp : 0 ≤ (specUnit s).nParams) :
    (stepUnit c b l prev res).1.cmds = cmds ∧
    (stepUnit c b l prev res).1.buf.length = c.buf.length ∧
    (stepUnit c b l prev res).1.buf.drop (b + (specUnit s).consumed) = c.buf.drop (b + (specUnit s).consumed) ∧
    ∃ es, (stepUnit c b l prev res).1.events = c.events ++ es ∧
      if (specUnit s).headerLen = 0 then
        dispatchTrace es = [] ∧
        PrevOK (stepUnit c b l prev res).1.buf B (b + (specUnit s).consumed) (stepUnit c b l prev res).2.1 pe
      else ∃ ev, dispatchTrace es = [ev] ∧
        realises cmds ((s.drop (specUnit s).headerOff).take (specUnit s).headerLen)
          (expectOf pats (effective pe ((s.drop (specUnit s).headerOff).take (specUnit s).headerLen))) ev ∧
        PrevOK (stepUnit c b l prev res).1.buf B (b + (specUnit s).consumed) (stepUnit c b l prev res).2.1
          (some (effective pe ((s.drop (specUnit s).headerOff).take (specUnit s).headerLen))) := by
  subst hcm
  obtain ⟨a1, a2, a3, a4, a5, a6, a7⟩ := unit_align s hwf hnp
  have hsl : s.length = l := by rw [← hsuf]; simp; omega
  unfold stepUnit
  dsimp only
  rw [hsuf, a4]
  simp only [Bool.false_eq_true, if_false]
  have hn103 : ¬ ((detectUnit s).header.len > 0 ∧ (detectUnit s).nParams < 0) := by omega
  rw [if_neg hn103]
  by_cases hl0 : (specUnit s).headerLen = 0
  · have : ¬ (detectUnit s).header.len > 0 := by rw [a5]; omega
    rw [if_neg this]
    refine ⟨rfl, rfl, rfl, [], by simp, ?_⟩
    rw [if_pos hl0]
    exact ⟨rfl, PrevOK_mono hprev (by omega)⟩
  · have hpos : 0 < (specUnit s).headerLen := by omega
    have : (detectUnit s).header.len > 0 := by rw [a5]; omega
    rw [if_pos this]
    obtain ⟨b1, b2, b3, b4⟩ := a7 hpos
    rw [b1, a5, a1]
    simp only [Int.toNat_natCast]
    rw [a1] at b2 a2
    have hci := compose_inv c.buf prev (b + (specUnit s).headerOff, (specUnit s).headerLen) B
      (by dsimp only; omega) (by dsimp only; omega) (by
        intro pp pl h
        subst h
        match pe, hprev with
        | some e, ⟨p1, p2, _, _, _⟩ => dsimp only; omega)
    have hcs := compose_spec c.buf prev pe (b + (specUnit s).headerOff, (specUnit s).headerLen) B
      (by dsimp only; omega) (by dsimp only; omega) (by dsimp only; omega)
      (PrevOK_mono hprev (by dsimp only; omega))
    generalize composeCompound c.buf prev (b + (specUnit s).headerOff, (specUnit s).headerLen) = cc at hci hcs ⊢
    obtain ⟨buf', ⟨o', n'⟩, okc⟩ := cc
    obtain ⟨k1, k2, k3, k4⟩ := hci
    obtain ⟨m1, m2⟩ := hcs
    dsimp only at k1 k2 k3 k4 m1 m2 ⊢
    have hhdr : (c.buf.drop (b + (specUnit s).headerOff)).take (specUnit s).headerLen =
        (s.drop (specUnit s).headerOff).take (specUnit s).headerLen := by
      have e0 : (s.drop (specUnit s).headerOff).take (specUnit s).headerLen =
          (((c.buf.drop b).take l).drop (specUnit s).headerOff).take (specUnit s).headerLen := by rw [hsuf]
      rw [e0, List.drop_take, List.take_take, List.drop_drop, Nat.min_eq_left (by omega)]
    rw [hhdr] at m1
    have hhl : ((s.drop (specUnit s).headerOff).take (specUnit s).headerLen).length = (specUnit s).headerLen := by
      simp; omega
    have halpha := effective_alpha pe _ (PrevOK_alpha hprev) b4
    have hefl := effective_length pe ((s.drop (specUnit s).headerOff).take (specUnit s).headerLen)
    have hn' : 1 ≤ n' := by
      have : ((buf'.drop o').take n').length ≤ n' := by simp; omega
      rw [m1] at this; omega
    have hlen' : o' + n' ≤ buf'.length := by rw [k2.1]; omega
    have hlk := lookup_spec c.cmds pats ht buf' o' n' _ m1 hn' hlen' halpha
    unfold findCommand
    dsimp only at hlk ⊢
    rcases hlk with ⟨h1, h2⟩ | ⟨i, cmd, h1, h2, h3⟩
    · rw [h1]
      dsimp only
      have hdrop : buf'.drop (b + (specUnit s).consumed) = c.buf.drop (b + (specUnit s).consumed) :=
        drop_eq_mono (by omega) k2.2.2
      have hT1 : (((buf'.drop b).take (specUnit s).consumed).drop (specUnit s).headerOff).take
          ((s.drop (specUnit s).headerOff).take (specUnit s).headerLen).length =
          (s.drop (specUnit s).headerOff).take (specUnit s).headerLen := by
        rw [hhl, List.drop_take, List.take_take, List.drop_drop, Nat.min_eq_left (by omega), k2.2.2, hhdr]
      have hT2 : ∀ x ∈ ((buf'.drop b).take (specUnit s).consumed).take
          ((specUnit s).headerOff + ((s.drop (specUnit s).headerOff).take (specUnit s).headerLen).length), x ≠ 0 := by
        rw [hhl, List.take_take, Nat.min_eq_left (by omega), List.take_add]
        intro x hx
        rcases List.mem_append.1 hx with hx | hx
        · refine m2 b (by omega) ?_ x (by simpa using hx)
          intro y hy
          apply b3 y
          have e0 : s.take (specUnit s).headerOff = ((c.buf.drop b).take l).take (specUnit s).headerOff := by rw [hsuf]
          rw [e0, List.take_take, Nat.min_eq_left (by omega)]
          simpa using hy
        · rw [List.drop_drop, k2.2.2, hhdr] at hx
          exact alpha_ne_zero x (b4 x hx)
      have hT3 : (specUnit s).headerOff + ((s.drop (specUnit s).headerOff).take (specUnit s).headerLen).length ≤
          ((buf'.drop b).take (specUnit s).consumed).length := by
        rw [hhl]; simp; omega
      have hne : (s.drop (specUnit s).headerOff).take (specUnit s).headerLen ≠ [] := by
        intro h0; rw [h0] at hhl; simp at hhl; omega
      obtain ⟨pre, post, htxt⟩ := text_contains _ _ _ hT1 hT3 hne hT2 (fun x hx => alpha_not_nl x (b4 x hx))
      generalize (buf'.drop b).take (specUnit s).consumed = txt at htxt ⊢
      obtain ⟨q1, es, q2, q3⟩ := pushError113_disp { c with buf := buf', oob := c.oob || !okc }
        (txt.take (txt.reverse.dropWhile (fun b => b == 13 || b == 10)).length)
        (txt.reverse.dropWhile (fun b => b == 13 || b == 10)).length
      refine ⟨q1, by rw [Bounds.pushError_buf]; exact k2.1, by rw [Bounds.pushError_buf]; exact hdrop,
        es, q2, ?_⟩
      rw [if_neg hl0]
      refine ⟨_, q3, ?_, ?_⟩
      · unfold expectOf
        rw [h2]
        exact ⟨pre, post, htxt⟩
      · rw [Bounds.pushError_buf]
        exact ⟨k3, by omega, m1, by omega, halpha⟩
    · rw [h1]
      dsimp only
      have hdrop : buf'.drop (b + (specUnit s).consumed) = c.buf.drop (b + (specUnit s).consumed) :=
        drop_eq_mono (by omega) k2.2.2
      have hmem : cmd ∈ c.cmds := List.mem_of_find?_eq_some h1
      obtain ⟨q1, es, q2, q3⟩ := processCommand_disp
        { c with buf := buf', oob := c.oob || !okc, pbase := b + (detectUnit s).data.ptr,
                 ppos := b + (detectUnit s).data.ptr, plen := (detectUnit s).data.len.toNat,
                 cur := some cmd, rawOff := o', rawLen := n' } cmd rfl (hs cmd hmem)
      dsimp only at q3
      refine ⟨q1, by rw [Bounds.processCommand_buf]; exact k2.1, by rw [Bounds.processCommand_buf]; exact hdrop,
        es, q2, ?_⟩
      rw [if_neg hl0]
      refine ⟨_, q3, ?_, ?_⟩
      · unfold expectOf
        rw [h2]
        exact ⟨⟨cmd, h3, rfl⟩, m1⟩
      · rw [Bounds.processCommand_buf]
        exact ⟨k3, by omega, m1, by omega, halpha⟩
/-! ### list-level bookkeeping -/

/-- `expectDispatch` without the accumulator -/
def expGo (pats : List Pattern.Pat) : List UnitInfo → Option Bytes → List Message.Expect
  | [], _ => []
  | u :: rest, prev =>
    if u.header.isEmpty then expGo pats rest prev
    else expectOf pats (effective prev u.header) :: expGo pats rest (some (effective prev u.header))

theorem go_eq (pats : List Pattern.Pat) : ∀ (us : List UnitInfo) (prev : Option Bytes) (acc : List Message.Expect),
    expectDispatch.go pats us prev acc = acc.reverse ++ expGo pats us prev := by
  intro us
  induction us with
  | nil => intro prev acc; simp [expectDispatch.go, expGo]
  | cons u rest ih =>
    intro prev acc
    unfold expectDispatch.go expGo
    split
    · exact ih prev acc
    · dsimp only
      unfold expectOf
      cases hd : dispatch pats (effective prev u.header) with
      | none => dsimp only; rw [ih]; simp
      | some i => dsimp only; rw [ih]; simp

theorem expectDispatch_eq (pats : List Pattern.Pat) (us : List UnitInfo) :
    expectDispatch pats us = expGo pats us none := by
  unfold expectDispatch
  rw [go_eq]; rfl

/-- event, unit and expectation lists run in parallel and every event realises its expectation -/
def Real (cmds : List Cmd) : List Ev → List UnitInfo → List Message.Expect → Prop
  | [], [], [] => True
  | e :: es, u :: us, w :: ws => realises cmds u.header w e ∧ Real cmds es us ws
  | _, _, _ => False

theorem real_index (cmds : List Cmd) : ∀ (got : List Ev) (us : List UnitInfo) (want : List Message.Expect),
    Real cmds got us want →
    got.length = want.length ∧ us.length = want.length ∧
    ∀ k (hk : k < want.length), ∃ e u, got[k]? = some e ∧ us[k]? = some u ∧ realises cmds u.header want[k] e := by
  intro got
  induction got with
  | nil =>
    intro us want h
    match us, want, h with
    | [], [], _ => exact ⟨rfl, rfl, fun k hk => absurd hk (by simp)⟩
  | cons e es ih =>
    intro us want h
    match us, want, h with
    | u :: us, w :: ws, ⟨h1, h2⟩ =>
      obtain ⟨i1, i2, i3⟩ := ih us ws h2
      refine ⟨by simp [i1], by simp [i2], ?_⟩
      intro k hk
      cases k with
      | zero => exact ⟨e, u, rfl, rfl, h1⟩
      | succ k =>
        obtain ⟨e', u', j1, j2, j3⟩ := i3 k (by simpa using hk)
        exact ⟨e', u', by simpa using j1, by simpa using j2, by simpa using j3⟩

theorem units_succ (g : Nat) (M : Bytes) (off : Nat) :
    units (g + 1) M off =
      ⟨off, (specUnit (M.drop off)).consumed, (specUnit (M.drop off)).wellFormed,
        ((M.drop off).drop (specUnit (M.drop off)).headerOff).take
          (if (specUnit (M.drop off)).wellFormed then (specUnit (M.drop off)).headerLen else 0),
        (specUnit (M.drop off)).headerType, (specUnit (M.drop off)).nParams⟩ ::
      (if (specUnit (M.drop off)).consumed = 0 ∨ off + (specUnit (M.drop off)).consumed ≥ M.length then []
       else units g M (off + (specUnit (M.drop off)).consumed)) := by
  rw [units]
  split <;> rfl
/-! ### the unit loop -/

theorem parseLoop_spec (cmds : List Cmd) (pats : List Pattern.Pat) (ht : TableOK cmds pats) (hs : NoScript113 cmds)
    (M : Bytes) (B L : Nat) (hML : M.length = L) :
    ∀ (fuel g : Nat) (c : Ctx) (b l : Nat) (prev : Option (Nat × Nat)) (pe : Option Bytes) (res : Bool),
      c.cmds = cmds → B ≤ b → b + l = B + L → B + L ≤ c.buf.length →
      (c.buf.drop b).take l = M.drop (b - B) → PrevOK c.buf B b prev pe →
      l + 1 ≤ fuel → l + 1 ≤ g →
      (∀ u ∈ units g M (b - B), u.wellFormed = true ∧ 0 ≤ u.nParams) →
      ∃ es, (parseLoop fuel c b l prev res).1.events = c.events ++ es ∧
        Real cmds (dispatchTrace es) ((units g M (b - B)).filter (fun u => !u.header.isEmpty))
          (expGo pats (units g M (b - B)) pe) := by
  intro fuel
  induction fuel with
  | zero => intro g c b l prev pe res _ _ _ _ _ _ hf; omega
  | succ fuel ih =>
    intro g c b l prev pe res hcm hB hsum hN hsuf hprev hf hg hwf
    obtain ⟨g', rfl⟩ : ∃ g', g = g' + 1 := ⟨g - 1, by omega⟩
    rw [units_succ] at hwf ⊢
    generalize hs0 : M.drop (b - B) = s at hsuf hwf ⊢
    have hsl : s.length = l := by rw [← hsuf]; simp; omega
    obtain ⟨w1, w2⟩ := hwf _ List.mem_cons_self
    dsimp only at w1 w2
    obtain ⟨t1, t2, t3, es1, t4, t5⟩ := stepUnit_spec cmds pats ht hs B L c b l prev pe res s hcm hB hsum hN hsuf hprev w1 w2
    obtain ⟨a1, a2, a3, -⟩ := unit_align s w1 w2
    rw [parseLoop_succ, hsuf, a1]
    rw [a1] at a2 a3
    generalize stepUnit c b l prev res = st at t1 t2 t3 t4 t5 ⊢
    obtain ⟨c1, prev1, res1⟩ := st
    dsimp only at t1 t2 t3 t4 t5 ⊢
    have hoff : (b - B) + l = M.length := by omega
    -- the rest of the loop, for whatever previous effective header the step leaves behind
    have key : ∀ pe', PrevOK c1.buf B (b + (specUnit s).consumed) prev1 pe' →
        ∃ es2, (if (specUnit s).consumed < l then
            parseLoop fuel c1 (b + (specUnit s).consumed) (l - (specUnit s).consumed) prev1 res1
          else (c1, res1)).1.events = c1.events ++ es2 ∧
          Real cmds (dispatchTrace es2)
            ((if (specUnit s).consumed = 0 ∨ b - B + (specUnit s).consumed ≥ M.length then []
              else units g' M (b - B + (specUnit s).consumed)).filter (fun u => !u.header.isEmpty))
            (expGo pats (if (specUnit s).consumed = 0 ∨ b - B + (specUnit s).consumed ≥ M.length then []
              else units g' M (b - B + (specUnit s).consumed)) pe') := by
      intro pe' hP
      by_cases hlt : (specUnit s).consumed < l
      · have hne : s ≠ [] := by intro h0; rw [h0] at hsl; simp at hsl; omega
        have h1 := a3 hne
        have hcond : ¬ ((specUnit s).consumed = 0 ∨ b - B + (specUnit s).consumed ≥ M.length) := by omega
        rw [if_pos hlt, if_neg hcond]
        have hidx : b + (specUnit s).consumed - B = b - B + (specUnit s).consumed := by omega
        have hsuf' : (c1.buf.drop (b + (specUnit s).consumed)).take (l - (specUnit s).consumed) =
            M.drop (b + (specUnit s).consumed - B) := by
          have e1 : M.drop (b - B + (specUnit s).consumed) = s.drop (specUnit s).consumed := by
            rw [← hs0, List.drop_drop]
          have e2 : (c.buf.drop (b + (specUnit s).consumed)).take (l - (specUnit s).consumed) =
              ((c.buf.drop b).take l).drop (specUnit s).consumed := by
            rw [List.drop_take, List.drop_drop]
          rw [t3, hidx, e1, e2, hsuf]
        have := ih g' c1 (b + (specUnit s).consumed) (l - (specUnit s).consumed) prev1 pe' res1 t1 (by omega)
          (by omega) (by rw [t2]; exact hN) hsuf' hP (by omega) (by omega)
          (by
            rw [hidx]
            intro u hu
            apply hwf u
            rw [if_neg hcond]
            exact List.mem_cons_of_mem _ hu)
        rw [hidx] at this
        exact this
      · have hcond : ((specUnit s).consumed = 0 ∨ b - B + (specUnit s).consumed ≥ M.length) := by omega
        rw [if_neg hlt, if_pos hcond]
        exact ⟨[], by simp, by simp [dispatchTrace, expGo, Real]⟩
    rw [w1]
    simp only [if_true]
    by_cases hl0 : (specUnit s).headerLen = 0
    · rw [if_pos hl0] at t5
      obtain ⟨t6, t7⟩ := t5
      obtain ⟨es2, e1, e2⟩ := key pe t7
      refine ⟨es1 ++ es2, by rw [e1, t4, List.append_assoc], ?_⟩
      rw [dispatchTrace_append, t6, List.nil_append]
      have hemp : ((s.drop (specUnit s).headerOff).take (specUnit s).headerLen).isEmpty = true := by
        rw [hl0]; simp
      rw [List.filter_cons]
      unfold expGo
      dsimp only
      rw [hemp]
      simp only [Bool.not_true, Bool.false_eq_true, if_false, if_true]
      exact e2
    · rw [if_neg hl0] at t5
      obtain ⟨ev, t6, t7, t8⟩ := t5
      obtain ⟨es2, e1, e2⟩ := key _ t8
      refine ⟨es1 ++ es2, by rw [e1, t4, List.append_assoc], ?_⟩
      rw [dispatchTrace_append, t6]
      have hemp : ((s.drop (specUnit s).headerOff).take (specUnit s).headerLen).isEmpty = false := by
        obtain ⟨-, -, -, -, -, -, a7⟩ := unit_align s w1 w2
        have := (a7 (by omega)).2.1
        cases hh : (s.drop (specUnit s).headerOff).take (specUnit s).headerLen with
        | nil =>
          have hlen : ((s.drop (specUnit s).headerOff).take (specUnit s).headerLen).length = (specUnit s).headerLen := by
            simp; omega
          rw [hh] at hlen; simp at hlen; omega
        | cons x xs => rfl
      rw [List.filter_cons]
      unfold expGo
      dsimp only
      rw [hemp]
      simp only [Bool.not_false, if_true, Bool.false_eq_true, if_false]
      exact ⟨t7, e2⟩
/-! ### SCPI_Parse -/

/-- the context `SCPI_Parse` enters its unit loop with -/
def parseStart (c : Ctx) (base len : Nat) : Ctx :=
  let c := { c with out := { c.out with outputCount := 0, firstOutput := true, gCur := [], gItems := [], gUnits := [], gPartial := false } }
  emit c (.parseMsg ((c.buf.drop base).take len))

theorem parse_events (c : Ctx) (base len : Nat) :
    (parse c base len).1.events = (parseLoop (len + 2) (parseStart c base len) base len none true).1.events := by
  unfold parse parseStart
  dsimp only

/-- C02, full statement -/
theorem dispatch_correct (c : Ctx) (base len : Nat) (pats : List Pattern.Pat)
    (hb : base + len ≤ c.buf.length) (ht : TableOK c.cmds pats) (hs : NoScript113 c.cmds)
    (hwf : ∀ u ∈ unitsOf ((c.buf.drop base).take len), u.wellFormed = true ∧ 0 ≤ u.nParams) :
    let msg := (c.buf.drop base).take len
    let us := (unitsOf msg).filter (fun u => !u.header.isEmpty)
    let want := expectDispatch pats (unitsOf msg)
    let got := dispatchTrace ((parse c base len).1.events.drop c.events.length)
    got.length = want.length ∧ us.length = want.length ∧
    ∀ k (hk : k < want.length), ∃ e u, got[k]? = some e ∧ us[k]? = some u ∧ realises c.cmds u.header want[k] e := by
  intro msg us want got
  have hml : msg.length = len := window_length c.buf base len hb
  have hu : unitsOf msg = units (len + 1) msg (base - base) := by
    unfold unitsOf; rw [hml, Nat.sub_self]
  have k3 : (parseStart c base len).events = c.events ++ [.parseMsg ((c.buf.drop base).take len)] := rfl
  have k4 := parse_events c base len
  obtain ⟨es, e1, e2⟩ := parseLoop_spec c.cmds pats ht hs msg base len hml (len + 2) (len + 1)
    (parseStart c base len) base len none none true rfl (Nat.le_refl _) rfl hb
    (by rw [Nat.sub_self]; rfl) trivial (by omega) (by omega) (by rw [← hu]; exact hwf)
  have hgot : got = dispatchTrace es := by
    show dispatchTrace ((parse c base len).1.events.drop c.events.length) = _
    rw [k4, e1, k3, List.append_assoc, List.drop_left, dispatchTrace_append]
    rfl
  have hw : want = expGo pats (unitsOf msg) none := expectDispatch_eq _ _
  rw [← hu] at e2
  rw [hgot, hw]
  exact real_index c.cmds _ _ _ e2

end ScpiVerif.Lemmas.Dispatch
