/-
C08 helper lemmas, top level: the zero-length (flush) call, and the chunking theorems for streams
without quote characters and CR, assembled from
  ChunkingDefs.lean  the scan of SCPI_Input as a function of the pending bytes; `ParseLocal`
  ChunkingLoop.lean  the loop of SCPI_Input = scan, parse, move the remainder, start again
  ChunkingRuns.lean  one chunk against two, any partition against the whole stream
  ChunkingScan.lean  prefix stability of the scan (specification side, blocks included)
-/
import ScpiVerif.Lemmas.ChunkingDefs
import ScpiVerif.Lemmas.ChunkingRuns
import ScpiVerif.Lemmas.ChunkingScan
import ScpiVerif.Lemmas.Params
import ScpiVerif.Lemmas.Bounds

namespace ScpiVerif.Lemmas.Chunking
open ScpiVerif ScpiVerif.Ctx ScpiVerif.Lexer ScpiVerif.Props.C08

/-! ## events are only ever appended -/

theorem processCommand_events (c : Ctx) (cmd : Cmd) (hc : c.cur = some cmd) :
    ∃ es, (processCommand c).1.events = c.events ++ es := by
  rw [Params.processCommand_eq c cmd hc]
  dsimp only
  generalize hc1 : emit _ (Ev.handler cmd.tag _) = c1
  obtain ⟨es1, he1, -, -⟩ := Params.step_runScript (q := False) c1 cmd.script (fun h => h.elim)
  obtain ⟨es2, he2, -, -⟩ := Params.afterHandler_spec (runScript c1 cmd.script).1 (runScript c1 cmd.script).2
  refine ⟨[.handler cmd.tag ((c.buf.drop c.rawOff).take c.rawLen)] ++ es1 ++ es2, ?_⟩
  rw [he2, he1, ← hc1]
  simp [emit]

theorem stepUnit_events (c : Ctx) (base len : Nat) (prev : Option (Nat × Nat)) (res : Bool) :
    ∃ es, (Bounds.stepUnit c base len prev res).1.events = c.events ++ es := by
  unfold Bounds.stepUnit
  dsimp only
  split
  · exact ⟨_, Params.pushError_events _ _ _ _⟩
  · split
    · exact ⟨_, Params.pushError_events _ _ _ _⟩
    · split
      · split
        · rename_i cmd _
          obtain ⟨es, he⟩ := processCommand_events
            { c with buf := (Match.composeCompound c.buf prev (base + (Parser.detectUnit ((c.buf.drop base).take len)).header.ptr,
                        (Parser.detectUnit ((c.buf.drop base).take len)).header.len.toNat)).1,
                     oob := c.oob || !(Match.composeCompound c.buf prev (base + (Parser.detectUnit ((c.buf.drop base).take len)).header.ptr,
                        (Parser.detectUnit ((c.buf.drop base).take len)).header.len.toNat)).2.2,
                     pbase := base + (Parser.detectUnit ((c.buf.drop base).take len)).data.ptr,
                     ppos := base + (Parser.detectUnit ((c.buf.drop base).take len)).data.ptr,
                     plen := (Parser.detectUnit ((c.buf.drop base).take len)).data.len.toNat,
                     cur := some cmd,
                     rawOff := (Match.composeCompound c.buf prev (base + (Parser.detectUnit ((c.buf.drop base).take len)).header.ptr,
                        (Parser.detectUnit ((c.buf.drop base).take len)).header.len.toNat)).2.1.1,
                     rawLen := (Match.composeCompound c.buf prev (base + (Parser.detectUnit ((c.buf.drop base).take len)).header.ptr,
                        (Parser.detectUnit ((c.buf.drop base).take len)).header.len.toNat)).2.1.2 } cmd rfl
          exact ⟨es, he⟩
        · exact ⟨_, Params.pushError_events _ _ _ _⟩
      · exact ⟨[], by simp⟩

theorem parseLoop_events : ∀ (fuel : Nat) (c : Ctx) (base len : Nat) (prev : Option (Nat × Nat)) (res : Bool),
    ∃ es, (parseLoop fuel c base len prev res).1.events = c.events ++ es := by
  intro fuel
  induction fuel with
  | zero => intro c base len prev res; exact ⟨[], by show c.events = c.events ++ []; rw [List.append_nil]⟩
  | succ fuel ih =>
    intro c base len prev res
    rw [Bounds.parseLoop_succ]
    obtain ⟨es1, h1⟩ := stepUnit_events c base len prev res
    split
    · obtain ⟨es2, h2⟩ := ih (Bounds.stepUnit c base len prev res).1
        (base + (Parser.detectUnit ((c.buf.drop base).take len)).consumed)
        (len - (Parser.detectUnit ((c.buf.drop base).take len)).consumed)
        (Bounds.stepUnit c base len prev res).2.1 (Bounds.stepUnit c base len prev res).2.2
      exact ⟨es1 ++ es2, by rw [h2, h1, List.append_assoc]⟩
    · exact ⟨es1, h1⟩

/-- `SCPI_Parse` appends to the event log, and the first thing it appends is the message it was given -/
theorem parse_events (c : Ctx) (base len : Nat) :
    ∃ es, (parse c base len).1.events = c.events ++ Ev.parseMsg ((c.buf.drop base).take len) :: es := by
  unfold parse
  dsimp only
  obtain ⟨es, he⟩ := parseLoop_events (len + 2)
    (emit { c with out := { c.out with outputCount := 0, firstOutput := true, gCur := [], gItems := [], gUnits := [], gPartial := false } }
      (.parseMsg ((c.buf.drop base).take len))) base len none true
  refine ⟨es, ?_⟩
  rw [he]
  simp [emit]

/-! ## the zero-length call -/

theorem take_set_self (b : Bytes) (n : Nat) (x : UInt8) : (b.set n x).take n = b.take n := by
  apply List.ext_getElem?
  intro i
  simp only [List.getElem?_take, List.getElem?_set]
  by_cases h : i < n
  · have : n ≠ i := by omega
    simp [h, this]
  · simp [h]

theorem flush_executes_pending (c : Ctx) (h : WF c) :
    let c' := input c []
    c'.position = 0 ∧
    (c'.events.drop c.events.length).head? = some (Ev.parseMsg (c.buf.take c.position)) ∧
    (∃ r, (c'.events.getLast? = some (Ev.input r))) := by
  have _ := h
  obtain ⟨es, he⟩ := parse_events { c with buf := c.buf.set c.position 0 } 0 c.position
  dsimp only at he
  rw [List.drop_zero, take_set_self] at he
  unfold input
  simp only [List.length_nil, beq_self_eq_true, if_true]
  refine ⟨rfl, ?_, ?_⟩
  · simp only [emit]
    rw [he]
    simp
  · refine ⟨(parse { c with buf := c.buf.set c.position 0 } 0 c.position).2, ?_⟩
    simp [emit]

/-! ## chunkings of a stream without quote characters and CR -/

theorem input_split_partial (hloc : ParseLocal) (c : Ctx) (h : WF c) (a b : Bytes) (ha : a ≠ []) (hb : b ≠ [])
    (hfit : Fits c (a.length + b.length)) (hq : NoQuotes (c.buf.take c.position ++ a ++ b))
    (hcr : NoCR (c.buf.take c.position ++ a ++ b)) :
    Observable (input (input c a) b) = Observable (input c (a ++ b)) :=
  (input_split_R hloc.on good_clean c h a b ha hb hfit ⟨hq, hcr⟩ trivial).obs

theorem chunking_invariant_partial (hloc : ParseLocal) (c : Ctx) (h : WF c) (cs : List Bytes) (hne : ∀ x ∈ cs, x ≠ [])
    (hcs : cs ≠ []) (hfit : Fits c cs.flatten.length) (hq : NoQuotes (c.buf.take c.position ++ cs.flatten))
    (hcr : NoCR (c.buf.take c.position ++ cs.flatten)) :
    Observable (cs.foldl input c) = Observable (input c cs.flatten) :=
  (chunks_R hloc.on good_clean cs c h hcs hne hfit ⟨hq, hcr⟩ (fun _ _ => trivial)).obs

theorem flatten_ne_nil_of {cs cs' : List Bytes} (hne : ∀ x ∈ cs, x ≠ []) (hs : cs.flatten = cs'.flatten) (hcs : cs ≠ []) :
    cs' ≠ [] := by
  intro h0
  subst h0
  cases cs with
  | nil => exact hcs rfl
  | cons x rest =>
    have hx := hne x (by simp)
    simp at hs
    exact hx hs.1

/-- two partitions of the same stream -/
theorem chunking_invariant_clean (hloc : ParseLocal) (c : Ctx) (h : WF c) (cs cs' : List Bytes)
    (hne : (∀ x ∈ cs, x ≠ []) ∧ (∀ x ∈ cs', x ≠ [])) (hs : cs.flatten = cs'.flatten) (hcs : cs ≠ [])
    (hfit : Fits c cs.flatten.length) (hq : NoQuotes (c.buf.take c.position ++ cs.flatten))
    (hcr : NoCR (c.buf.take c.position ++ cs.flatten)) :
    Observable (cs.foldl input c) = Observable (cs'.foldl input c) := by
  have hcs' := flatten_ne_nil_of hne.1 hs hcs
  rw [chunking_invariant_partial hloc c h cs hne.1 hcs hfit hq hcr,
    chunking_invariant_partial hloc c h cs' hne.2 hcs' (by rw [← hs]; exact hfit) (by rw [← hs]; exact hq)
      (by rw [← hs]; exact hcr), hs]

/-! ## chunkings of a stream without quote characters that are not cut directly after a CR -/

theorem input_split_cr (hloc : ParseLocalCR) (c : Ctx) (h : WF c) (a b : Bytes) (ha : a ≠ []) (hb : b ≠ [])
    (hfit : Fits c (a.length + b.length)) (hq : NoQuotes (c.buf.take c.position ++ a ++ b))
    (hcut : a.getLast? ≠ some 13) :
    Observable (input (input c a) b) = Observable (input c (a ++ b)) :=
  (input_split_R hloc.on good_cr c h a b ha hb hfit hq (good_cr.app1 _ a ha hcut)).obs

theorem chunking_invariant_cr (hloc : ParseLocalCR) (c : Ctx) (h : WF c) (cs : List Bytes) (hne : ∀ x ∈ cs, x ≠ [])
    (hcs : cs ≠ []) (hfit : Fits c cs.flatten.length) (hq : NoQuotes (c.buf.take c.position ++ cs.flatten))
    (hcut : ∀ x ∈ cs, x.getLast? ≠ some 13) :
    Observable (cs.foldl input c) = Observable (input c cs.flatten) :=
  (chunks_R hloc.on good_cr cs c h hcs hne hfit hq hcut).obs

/-- two partitions of the same stream, neither of which cuts directly after a CR -/
theorem chunking_invariant_cr2 (hloc : ParseLocalCR) (c : Ctx) (h : WF c) (cs cs' : List Bytes)
    (hne : (∀ x ∈ cs, x ≠ []) ∧ (∀ x ∈ cs', x ≠ [])) (hs : cs.flatten = cs'.flatten) (hcs : cs ≠ [])
    (hfit : Fits c cs.flatten.length) (hq : NoQuotes (c.buf.take c.position ++ cs.flatten))
    (hcut : (∀ x ∈ cs, x.getLast? ≠ some 13) ∧ (∀ x ∈ cs', x.getLast? ≠ some 13)) :
    Observable (cs.foldl input c) = Observable (cs'.foldl input c) := by
  have hcs' := flatten_ne_nil_of hne.1 hs hcs
  rw [chunking_invariant_cr hloc c h cs hne.1 hcs hfit hq hcut.1,
    chunking_invariant_cr hloc c h cs' hne.2 hcs' (by rw [← hs]; exact hfit) (by rw [← hs]; exact hq) hcut.2, hs]

end ScpiVerif.Lemmas.Chunking
