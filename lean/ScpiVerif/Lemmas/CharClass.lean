/-
Character classes: the model's predicates equal, for ALL 256 byte values, the tables the translator reads off the
compiled C predicates of the current source (Gen/Tables.lean, `cc_*`: lexer.c's file-static predicates with a plain-char
argument, the <ctype.h> functions with the unsigned argument the library passes).  Kernel-checked by evaluation of
both sides on every byte value: a one-character change of a class in lexer.c changes the regenerated table and breaks
the corresponding theorem here.
-/
import ScpiVerif.Gen.Tables
import ScpiVerif.Model.Lexer
import ScpiVerif.Model.Prim
import ScpiVerif.Model.Match

namespace ScpiVerif.Lemmas.CharClass
open ScpiVerif

/-- the C predicate, as tabulated by the translator -/
def inClass (table : Nat) (b : UInt8) : Bool := table.testBit b.toNat

theorem lift (p q : UInt8 → Bool) (h : ∀ n : Fin 256, p (UInt8.ofNat n.val) = q (UInt8.ofNat n.val)) (b : UInt8) : p b = q b := by
  have := h ⟨b.toNat, UInt8.toNat_lt b⟩
  simpa using this

theorem isws (b : UInt8) : inClass Gen.cc_isws b = Lexer.isWs b := lift (inClass Gen.cc_isws) Lexer.isWs (by decide +kernel) b
theorem isbdigit (b : UInt8) : inClass Gen.cc_isbdigit b = Lexer.isBDigit b := lift (inClass Gen.cc_isbdigit) Lexer.isBDigit (by decide +kernel) b
theorem isqdigit (b : UInt8) : inClass Gen.cc_isqdigit b = Lexer.isQDigit b := lift (inClass Gen.cc_isqdigit) Lexer.isQDigit (by decide +kernel) b
theorem isplusmn (b : UInt8) : inClass Gen.cc_isplusmn b = Lexer.isPlusMn b := lift (inClass Gen.cc_isplusmn) Lexer.isPlusMn (by decide +kernel) b
theorem isH (b : UInt8) : inClass Gen.cc_isH b = (b == 104 || b == 72) := lift (inClass Gen.cc_isH) (fun b => b == 104 || b == 72) (by decide +kernel) b
theorem isB (b : UInt8) : inClass Gen.cc_isB b = (b == 98 || b == 66) := lift (inClass Gen.cc_isB) (fun b => b == 98 || b == 66) (by decide +kernel) b
theorem isQ (b : UInt8) : inClass Gen.cc_isQ b = (b == 113 || b == 81) := lift (inClass Gen.cc_isQ) (fun b => b == 113 || b == 81) (by decide +kernel) b
theorem isE (b : UInt8) : inClass Gen.cc_isE b = Lexer.isE b := lift (inClass Gen.cc_isE) Lexer.isE (by decide +kernel) b
theorem isascii7bit (b : UInt8) : inClass Gen.cc_isascii7bit b = Lexer.isAscii7 b := lift (inClass Gen.cc_isascii7bit) Lexer.isAscii7 (by decide +kernel) b
theorem isNonzeroDigit (b : UInt8) : inClass Gen.cc_isNonzeroDigit b = (Lexer.isDigit b && b != 48) := lift (inClass Gen.cc_isNonzeroDigit) (fun b => Lexer.isDigit b && b != 48) (by decide +kernel) b
theorem isProgramExpression (b : UInt8) : inClass Gen.cc_isProgramExpression b = Lexer.isProgramExpression b := lift (inClass Gen.cc_isProgramExpression) Lexer.isProgramExpression (by decide +kernel) b
-- <ctype.h> in the "C" locale, as linked (trusted base made visible: the model's classes are glibc's)
theorem isdigit (b : UInt8) : inClass Gen.cc_isdigit b = Lexer.isDigit b := lift (inClass Gen.cc_isdigit) Lexer.isDigit (by decide +kernel) b
theorem isalpha (b : UInt8) : inClass Gen.cc_isalpha b = Lexer.isAlpha b := lift (inClass Gen.cc_isalpha) Lexer.isAlpha (by decide +kernel) b
theorem isalnum (b : UInt8) : inClass Gen.cc_isalnum b = Lexer.isAlnum b := lift (inClass Gen.cc_isalnum) Lexer.isAlnum (by decide +kernel) b
theorem isxdigit (b : UInt8) : inClass Gen.cc_isxdigit b = Lexer.isXDigit b := lift (inClass Gen.cc_isxdigit) Lexer.isXDigit (by decide +kernel) b
theorem isupper (b : UInt8) : inClass Gen.cc_isupper b = Lexer.isUpper b := lift (inClass Gen.cc_isupper) Lexer.isUpper (by decide +kernel) b
theorem islower (b : UInt8) : inClass Gen.cc_islower b = Lexer.isLower b := lift (inClass Gen.cc_islower) Lexer.isLower (by decide +kernel) b
theorem isspace (b : UInt8) : inClass Gen.cc_isspace b = Prim.isSpace b := lift (inClass Gen.cc_isspace) Prim.isSpace (by decide +kernel) b
theorem tolower (b : UInt8) : Gen.cm_tolower[b.toNat]? = some (Match.toLower b).toNat := by
  have h : ∀ n : Fin 256, Gen.cm_tolower[(UInt8.ofNat n.val).toNat]? = some (Match.toLower (UInt8.ofNat n.val)).toNat := by decide +kernel
  have := h ⟨b.toNat, UInt8.toNat_lt b⟩
  simpa using this

end ScpiVerif.Lemmas.CharClass
