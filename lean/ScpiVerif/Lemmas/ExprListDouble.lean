/-
Lemmas for C19, double-valued variant of the numeric list walker (SCPI_ExprNumericListEntryDouble):
the text the model hands to strtod for the tokens of entry i (`Expr.tokDoubleText`) against the numbers
the list grammar of Spec/ExprList.lean delimits.

Route: `Lemmas.ExprList.numLoop_spec` says that the tokens returned for entry i are the decimal tokens of
the entry's numbers (`IsNum`: position p, length `decimalTotal (body.drop p)`); at such a position the
token specification delimits exactly that number (`isNum_literal`), so C04's
`conversion_sees_literal_partial` applies.  Its hexadecimal-constant side condition (a literal "0" must not
be followed by x / X) is discharged from the list being well formed: every byte of a well-formed numeric
list is a byte of a decimal literal, ',' or ':' (`numList_chars`), none of which is x / X.
-/
import ScpiVerif.Model.Expr
import ScpiVerif.Spec.ExprList
import ScpiVerif.Spec.Float
import ScpiVerif.Lemmas.ExprList
import ScpiVerif.Lemmas.Numeric

namespace ScpiVerif.Lemmas.ExprListDouble
open ScpiVerif ScpiVerif.Lexer ScpiVerif.Expr ScpiVerif.Spec ScpiVerif.Spec.ExprList
open ScpiVerif.Lemmas.Lexer
open ScpiVerif.Lemmas.ExprList (D IsNum D_le D_pos_facts numEntry_eq numList_acc numLoop_spec numericListEntry_eq)

/-- same as `Props.C04.literalAt` -/
def literalAt (s : Bytes) : Option Bytes := (specToken .decimal s).map (fun e => s.take e.consumed)

/-- same as `Props.C19.noInnerWs`: no blank or tab in the text -/
def noInnerWs (t : Bytes) : Bool := t.all (fun b => b != 32 && b != 9)

/-! ## the bytes of a word of a regular expression -/

/-- every character class of `r` lies inside `q` -/
def charsIn (q : UInt8 → Bool) : Re → Prop
  | .chr p => ∀ b, p b = true → q b = true
  | .seq a b => charsIn q a ∧ charsIn q b
  | .alt a b => charsIn q a ∧ charsIn q b
  | .star a => charsIn q a
  | .eps => True
  | .empty => True

theorem matches_chars {q : UInt8 → Bool} {r : Re} {w : Bytes} (hm : Matches r w) :
    charsIn q r → ∀ b ∈ w, q b = true := by
  induction hm with
  | eps => intro _ b hb; cases hb
  | chr p b hp =>
    intro h x hx
    rw [List.mem_singleton] at hx
    subst hx
    exact h _ hp
  | seq _ _ ih1 ih2 =>
    intro h x hx
    rcases List.mem_append.1 hx with hx | hx
    · exact ih1 h.1 x hx
    · exact ih2 h.2 x hx
  | altL _ ih => intro h; exact ih h.1
  | altR _ ih => intro h; exact ih h.2
  | starNil => intro _ b hb; cases hb
  | starCons _ _ ih1 ih2 =>
    intro h x hx
    rcases List.mem_append.1 hx with hx | hx
    · exact ih1 h x hx
    · exact ih2 h x hx

/-- the bytes a decimal literal is made of: sign, digit, point, blank / tab, e / E -/
def numCh (b : UInt8) : Bool := isPlusMn b || isDigit b || b == 46 || isWs b || isE b

/-- the bytes a well-formed numeric list is made of: those of its numbers, ',' and ':' -/
def listCh (b : UInt8) : Bool := numCh b || b == 44 || b == 58

theorem decimal_chars : charsIn numCh Spec.decimal := by
  simp only [Spec.decimal, Spec.mantissa, Spec.exponent, Spec.digits, Re.opt, Re.plus, Re.c, charsIn, true_and]
  refine ⟨⟨?_, ⟨⟨?_, ?_⟩, ?_, ?_⟩, ?_, ?_, ?_⟩, ?_, ?_, ?_, ?_, ?_, ?_⟩ <;> intro b hb <;> simp [numCh, hb]

theorem listCh_no_x : ∀ b : UInt8, listCh b = true → b ≠ 120 ∧ b ≠ 88 := by
  apply Lemmas.Params.forall_byte
  decide +kernel

theorem numCh_listCh {b : UInt8} (h : numCh b = true) : listCh b = true := by
  simp [listCh, h]

/-- every byte of the literal the decimal recogniser delimits is a byte of a number -/
theorem literal_chars {s : Bytes} (h : 0 < D s) : ∀ b ∈ s.take (D s), numCh b = true :=
  matches_chars (decimal_total_mem h).2 decimal_chars

/-! ## the bytes of a well-formed numeric list -/

theorem numEntry_chars {s : Bytes} {e : Spec.ExprList.NumEntry} {n : Nat} (h : numEntry s = some (e, n)) :
    ∀ b ∈ s.take n, listCh b = true := by
  rw [numEntry_eq] at h
  by_cases h1 : 0 < D s
  · simp only [h1, if_true] at h
    by_cases hc : hd (s.drop (D s)) (· == 58) = true
    · simp only [hc, if_true] at h
      by_cases h2 : 0 < D (s.drop (D s + 1))
      · simp only [h2, if_true, Option.some.injEq, Prod.mk.injEq] at h
        obtain ⟨_, rfl⟩ := h
        intro b hb
        rw [List.take_add, List.take_add] at hb
        rcases List.mem_append.1 hb with hb | hb
        · rcases List.mem_append.1 hb with hb | hb
          · exact numCh_listCh (literal_chars h1 b hb)
          · rw [hd_eq_cons hc] at hb
            simp only [List.take_succ_cons, List.take_zero, List.mem_singleton] at hb
            subst hb; rfl
        · exact numCh_listCh (literal_chars h2 b hb)
      · simp only [h2, if_false] at h
        cases h
    · simp only [hc, Bool.false_eq_true, if_false, Option.some.injEq, Prod.mk.injEq] at h
      obtain ⟨_, rfl⟩ := h
      intro b hb
      exact numCh_listCh (literal_chars h1 b hb)
  · simp only [h1, if_false] at h
    cases h

theorem numList_chars : ∀ (fuel : Nat) (s : Bytes) (es : List Spec.ExprList.NumEntry),
    numList fuel s [] = some es → ∀ b ∈ s, listCh b = true := by
  intro fuel
  induction fuel with
  | zero => intro s es h; simp [numList] at h
  | succ fuel ih =>
    intro s es h b hb
    unfold numList at h
    cases hne : numEntry s with
    | none => rw [hne] at h; cases h
    | some en =>
      obtain ⟨e, n⟩ := en
      rw [hne] at h
      simp only [List.nil_append] at h
      rw [← List.take_append_drop n s] at hb
      rcases List.mem_append.1 hb with hb | hb
      · exact numEntry_chars hne b hb
      · split at h
        · rename_i hemp
          rw [List.isEmpty_iff.1 hemp] at hb
          cases hb
        · split at h
          · rename_i hcomma
            have hc : (s.drop n).head? = some 44 := by simpa using hcomma
            rw [hd_eq_cons (hd_eq_iff_head?.2 hc)] at hb
            rcases List.mem_cons.1 hb with rfl | hb
            · rfl
            · rw [numList_acc] at h
              cases hh : numList fuel ((s.drop n).drop 1) [] with
              | none => rw [hh] at h; cases h
              | some tl => exact ih _ tl hh b hb
          · cases h

/-- no byte of a well-formed numeric list is 'x' or 'X' -/
theorem body_no_x {body : Bytes} {l : List Spec.ExprList.NumEntry} (h : parseNumList body = some l) :
    ∀ b ∈ body, b ≠ 120 ∧ b ≠ 88 :=
  fun b hb => listCh_no_x b (numList_chars _ body l h b hb)

/-! ## one token -/

/-- at the position of a number's token the token specification delimits exactly that number -/
theorem isNum_literal {win : Bytes} {tok : Token} {text : Bytes} (h : IsNum win tok text) :
    literalAt (win.drop tok.ptr) = some text := by
  obtain ⟨p, rfl, h0, rfl⟩ := h
  unfold literalAt
  have e : specToken .decimal (win.drop p) = plainSpec Spec.decimal .decimal (win.drop p) := rfl
  rw [e, plainSpec_some h0 (decimal_total_mem h0) (fun m hm => decimal_total_max hm)]
  rfl

/-- a number of the list starts with a sign, a digit or the point: never with white space (the decimal recogniser does
not skip any, and neither does the list grammar allow it) -/
theorem isNum_head {win : Bytes} {tok : Token} {text : Bytes} (h : IsNum win tok text) :
    hd text (fun b => isPlusMn b || isDigit b || b == 46) = true := by
  obtain ⟨p, rfl, h0, rfl⟩ := h
  rw [Lemmas.ExprList.hd_take _ h0]
  exact (D_pos_facts h0).2

theorem noInnerWs_iff {t : Bytes} : noInnerWs t = true ↔ ∀ b ∈ t, b ≠ 32 ∧ b ≠ 9 := by
  simp [noInnerWs]

/-- the text handed to strtod for the token of a number without inner white space is that number, provided the
window contains no 'x' / 'X' (strtod's hexadecimal constants) -/
theorem isNum_double {win : Bytes} {tok : Token} {text : Bytes} (h : IsNum win tok text)
    (hx : ∀ b ∈ win, b ≠ 120 ∧ b ≠ 88) (hws : noInnerWs text = true) : tokDoubleText win tok = text := by
  have hlit := isNum_literal h
  obtain ⟨p, rfl, h0, rfl⟩ := h
  have hlen : ((win.drop p).take (D (win.drop p))).length = D (win.drop p) := by
    rw [List.length_take]; exact Nat.min_eq_left (D_le _)
  have hconv := Lemmas.Numeric.conversion_sees_literal_partial win p _ hlit (noInnerWs_iff.1 hws) (by
    intro _ b hb
    exact hx b (List.mem_of_mem_drop (List.mem_of_mem_head? hb)))
  unfold tokDoubleText
  simp only
  rw [hconv, hlen]

/-! ## entry i of a well-formed list -/

/-- the tokens SCPI_ExprNumericListEntry returns for entry i of a well-formed list are the decimal tokens of its numbers -/
theorem numeric_entry_isNum (body : Bytes) (l : List Spec.ExprList.NumEntry) (h : parseNumList body = some l) (i : Nat)
    (e : Spec.ExprList.NumEntry) (he : l[i]? = some e) :
    IsNum body (numericListEntry body i).from_ e.from_ ∧
    ∀ t, e.to_ = some t → IsNum body (numericListEntry body i).to_ t := by
  have h' := h
  unfold parseNumList at h'
  have hs := numLoop_spec body i (body.length + 1) l 0 0 (i + 2) none ⟨.unknown, 0, 0⟩ ⟨.unknown, 0, 0⟩
    (by simpa using h') (Nat.zero_le _) (by omega)
  simp only [Nat.sub_zero] at hs
  rw [numericListEntry_eq]
  obtain ⟨_, _, h3, h4⟩ := hs.1 e he
  exact ⟨h3, h4⟩

theorem numeric_entry_double (body : Bytes) (l : List Spec.ExprList.NumEntry) (h : parseNumList body = some l) (i : Nat)
    (e : Spec.ExprList.NumEntry) (he : l[i]? = some e) :
    let r := numericListEntry body i
    (literalAt (body.drop r.from_.ptr) = some e.from_ ∧ (Spec.Float.litValue e.from_).isSome = true ∧
      (noInnerWs e.from_ = true → tokDoubleText body r.from_ = e.from_)) ∧
    (∀ t, e.to_ = some t →
      literalAt (body.drop r.to_.ptr) = some t ∧ (Spec.Float.litValue t).isSome = true ∧
      (noInnerWs t = true → tokDoubleText body r.to_ = t)) := by
  intro r
  obtain ⟨hf, ht⟩ := numeric_entry_isNum body l h i e he
  have hx := body_no_x h
  refine ⟨⟨isNum_literal hf, Lemmas.Numeric.literal_has_value _ _ (isNum_literal hf), isNum_double hf hx⟩, ?_⟩
  intro t het
  have := ht t het
  exact ⟨isNum_literal this, Lemmas.Numeric.literal_has_value _ _ (isNum_literal this), isNum_double this hx⟩

theorem hd_exists {s : Bytes} {p : UInt8 → Bool} (h : hd s p = true) : ∃ b, s.head? = some b ∧ p b = true := by
  cases s with
  | nil => simp at h
  | cons b r => exact ⟨b, rfl, h⟩

/-- every number of a well-formed list starts with a sign, a digit or the point -/
theorem numeric_entry_head (body : Bytes) (l : List Spec.ExprList.NumEntry) (h : parseNumList body = some l) (i : Nat)
    (e : Spec.ExprList.NumEntry) (he : l[i]? = some e) :
    (∃ b, e.from_.head? = some b ∧ (isPlusMn b || isDigit b || b == 46) = true) ∧
    ∀ t, e.to_ = some t → ∃ b, t.head? = some b ∧ (isPlusMn b || isDigit b || b == 46) = true := by
  obtain ⟨hf, ht⟩ := numeric_entry_isNum body l h i e he
  exact ⟨hd_exists (isNum_head hf), fun t het => hd_exists (isNum_head (ht t het))⟩

end ScpiVerif.Lemmas.ExprListDouble
