/-
The main loop of `matchCommand` on a rendered pattern and a header split at ':' computes the
list-level walker `greedy` (C03 proof, text level).
-/
import ScpiVerif.Lemmas.MatchMainDefs

namespace ScpiVerif.Lemmas.Match
open ScpiVerif ScpiVerif.Match ScpiVerif.Spec.Pattern
open ScpiVerif.Lexer (Bytes isDigit isLower isUpper isAlpha)

/-- the window of the pattern at the start of keyword `k` -/
def kwText (k : Kw) (ks : List Kw) : Bytes := keyText k ++ closeB k ++ renderRest ks

/-- bytes between the text of `k` and the text of the next keyword `k'` -/
def sepBytes (k k' : Kw) : Bytes := closeB k ++ (if k'.optional then [91, 58] else [58])
def sepLen (k k' : Kw) : Nat := (sepBytes k k').length

theorem after_eq_sep (k k' : Kw) (ks' : List Kw) :
    closeB k ++ renderRest (k' :: ks') = sepBytes k k' ++ kwText k' ks' := by
  cases h : k'.optional <;> simp [renderRest, item, sepBytes, kwText, closeB, h]

theorem rd3 (p : Bytes) (pp : Nat) (t : Bytes) (h : p.drop pp = t) :
    rd p pp = rd t 0 ∧ rd p (pp + 1) = rd t 1 ∧ rd p (pp + 2) = rd t 2 :=
  ⟨by simpa using rd_off p pp t h 0, rd_off p pp t h 1, rd_off p pp t h 2⟩

theorem numStep_eval (hn : Bool) (d : Int) (isNum : Prop) [Decidable isNum] (num : Bool)
    (hnum : isNum ↔ num = true) (pp : Nat) (pl : Int) (cp cl : Nat) (br : Int) (nums : List Int) (idx : Nat)
    (oob : Bool) :
    numStep hn d isNum ⟨pp, pl, cp, cl, br, nums, idx, oob⟩ =
      (⟨pp, pl, cp, cl, br, if num then (if hn then nums.set idx d else nums) else nums,
        if num then idx + 1 else idx, oob⟩,
       if num = true ∧ hn = true ∧ idx < nums.length then some idx else none) := by
  unfold numStep
  cases num with
  | false => simp [hnum]
  | true =>
    simp only [hnum, if_true, setNum_eq]
    by_cases h : hn = true ∧ idx < nums.length
    · simp [h, h.1]
    · simp only [h, if_false]
      cases hn with
      | false => simp
      | true =>
        have : nums.length ≤ idx := by simpa using h
        simp [List.set_eq_of_length_le this, h]

theorem afterNoMatch_eval (p qt : Bytes) (hq : qt = [] ∨ qt = [63]) (rec : MState → Bool × MState)
    (k : Kw) (ks : List Kw) (hks : ∀ k ∈ ks, KwOK k)
    (pp : Nat) (pl : Int) (cp cl : Nat) (nums : List Int) (idx : Nat) (oob : Bool)
    (h : p.drop pp = closeB k ++ renderRest ks ++ qt)
    (hpl : pl = ((closeB k ++ renderRest ks).length : Int)) :
    afterNoMatch p rec ⟨pp, pl, cp, cl, brOf k, nums, idx, oob⟩ =
      match ks with
      | k' :: _ =>
        if k.optional then rec ⟨pp + sepLen k k', pl - sepLen k k', cp, cl, brOf k', nums, idx, oob⟩
        else (false, ⟨pp, pl, cp, cl, brOf k, nums, idx, oob⟩)
      | [] => (false, ⟨pp, pl, cp, cl, brOf k, nums, idx, oob⟩) := by
  obtain ⟨r0, r1, r2⟩ := rd3 p pp _ h
  unfold afterNoMatch
  simp only [r0, r1, r2]
  match ks, hks with
  | [], _ =>
    cases hopt : k.optional <;> rcases hq with rfl | rfl <;> simp [closeB, renderRest, hopt, rd]
  | k' :: ks', hks =>
    have hk' := hks k' (by simp)
    have hh := keyText_head hk' (93 :: (renderRest ks' ++ qt))
    have hh2 := keyText_head hk' (renderRest ks' ++ qt)
    cases hopt : k.optional <;> cases hopt' : k'.optional <;>
      simp [closeB, renderRest, item, hopt, hopt', rd, brOf, sepLen, sepBytes] at hpl ⊢
    · omega

theorem afterMatch_colon (p qt c : Bytes) (hq : qt = [] ∨ qt = [63]) (hn : Bool) (d : Int)
    (rec : MState → Bool × MState)
    (k : Kw) (ks : List Kw) (hks : ∀ k ∈ ks, KwOK k)
    (pp : Nat) (pl : Int) (cp cl : Nat) (nums : List Int) (idx : Nat) (oob : Bool)
    (h : p.drop pp = closeB k ++ renderRest ks ++ qt)
    (hpl : pl = ((closeB k ++ renderRest ks).length : Int))
    (hc0 : rd c cp = 58) (hcl : 0 < cl) :
    afterMatch p c hn d rec ⟨pp, pl, cp, cl, brOf k, nums, idx, oob⟩ =
      match ks with
      | k' :: _ => rec ⟨pp + sepLen k k', pl - sepLen k k', cp + 1, cl - 1, brOf k', nums, idx, oob⟩
      | [] => (false, ⟨pp, pl, cp, cl, brOf k, nums, idx, oob⟩) := by
  obtain ⟨r0, r1, r2⟩ := rd3 p pp _ h
  have hcl' : ¬ cl = 0 := by omega
  unfold afterMatch
  simp only [r0, r1, r2, hc0]
  match ks, hks with
  | [], _ =>
    cases hopt : k.optional <;> rcases hq with rfl | rfl <;>
      simp [closeB, renderRest, hopt, rd, hcl, hcl'] at hpl ⊢ <;> simp [hpl]
  | k' :: ks', hks =>
    have hk' := hks k' (by simp)
    have hpos := keyText_pos hk'
    cases hopt : k.optional <;> cases hopt' : k'.optional <;>
      simp [closeB, renderRest, item, hopt, hopt', rd, brOf, sepLen, sepBytes, hcl, hcl'] at hpl ⊢

theorem afterMatch_q (p c : Bytes) (hn : Bool) (d : Int) (rec : MState → Bool × MState)
    (pp : Nat) (pl : Int) (cp cl : Nat) (br : Int) (nums : List Int) (idx : Nat) (oob : Bool)
    (hc0 : rd c cp = 63) (hcl : 0 < cl) :
    afterMatch p c hn d rec ⟨pp, pl, cp, cl, br, nums, idx, oob⟩ =
      (false, ⟨pp, pl, cp, cl, br, nums, idx, oob⟩) := by
  have hcl' : ¬ cl = 0 := by omega
  unfold afterMatch
  simp only [hc0]
  by_cases h0 : pl = 0
  · simp [h0, hcl, hcl']
  · simp [h0, hcl, hcl']
    intros; simp_all

theorem afterMatch_end (p c : Bytes) (hn : Bool) (d : Int) (rec : MState → Bool × MState)
    (pp : Nat) (pl : Int) (cp : Nat) (br : Int) (nums : List Int) (idx : Nat) (oob : Bool) :
    afterMatch p c hn d rec ⟨pp, pl, cp, 0, br, nums, idx, oob⟩ =
      if pl = 0 then (true, ⟨pp, pl, cp, 0, br, nums, idx, oob⟩)
      else ((trailingLoop p hn d (p.length + 2) ⟨pp, pl, cp, 0, br, nums, idx, oob⟩).pl == 0,
            trailingLoop p hn d (p.length + 2) ⟨pp, pl, cp, 0, br, nums, idx, oob⟩) := by
  unfold afterMatch
  by_cases h0 : pl = 0 <;> simp [h0]

end ScpiVerif.Lemmas.Match
