/-
The main loop of `matchCommand` on a rendered pattern and a header split at ':' computes the
list-level walker `greedy` (C03 proof, text level).
-/
import ScpiVerif.Lemmas.MatchMainDefs

namespace ScpiVerif.Lemmas.Match
open ScpiVerif ScpiVerif.Match ScpiVerif.Spec.Pattern
open ScpiVerif.Lexer (Bytes isDigit isLower isUpper isAlpha)

/-- the window of the pattern at the start of keyword `k` -/
def kwText (k : Kw) (ks : List Kw) : Bytes := keyText k ++ closeB k ++ renderRest ks

/-- bytes between the text of `k` and the text of the next keyword `k'` -/
def sepBytes (k k' : Kw) : Bytes := closeB k ++ (if k'.optional then [91, 58] else [58])
def sepLen (k k' : Kw) : Nat := (sepBytes k k').length

theorem after_eq_sep (k k' : Kw) (ks' : List Kw) :
    closeB k ++ renderRest (k' :: ks') = sepBytes k k' ++ kwText k' ks' := by
  cases h : k'.optional <;> simp [renderRest, item, sepBytes, kwText, closeB, h]

theorem rd3 (p : Bytes) (pp : Nat) (t : Bytes) (h : p.drop pp = t) :
    rd p pp = rd t 0 ∧ rd p (pp + 1) = rd t 1 ∧ rd p (pp + 2) = rd t 2 :=
  ⟨by simpa using rd_off p pp t h 0, rd_off p pp t h 1, rd_off p pp t h 2⟩

theorem numStep_eval (hn : Bool) (d : Int) (isNum : Prop) [Decidable isNum] (num : Bool)
    (hnum : isNum ↔ num = true) (pp : Nat) (pl : Int) (cp cl : Nat) (br : Int) (nums : List Int) (idx : Nat)
    (oob : Bool) :
    numStep hn d isNum ⟨pp, pl, cp, cl, br, nums, idx, oob⟩ =
      (⟨pp, pl, cp, cl, br, if num then (if hn then nums.set idx d else nums) else nums,
        if num then idx + 1 else idx, oob⟩,
       if num = true ∧ hn = true ∧ idx < nums.length then some idx else none) := by
  unfold numStep
  cases num with
  | false => simp [hnum]
  | true =>
    simp only [hnum, if_true, setNum_eq]
    by_cases h : hn = true ∧ idx < nums.length
    · simp [h, h.1]
    · simp only [h, if_false]
      cases hn with
      | false => simp
      | true =>
        have : nums.length ≤ idx := by simpa using h
        simp [List.set_eq_of_length_le this, h]

theorem afterNoMatch_eval (p qt : Bytes) (hq : qt = [] ∨ qt = [63]) (rec : MState → Bool × MState)
    (k : Kw) (ks : List Kw) (hks : ∀ k ∈ ks, KwW k)
    (pp : Nat) (pl : Int) (cp cl : Nat) (nums : List Int) (idx : Nat) (oob : Bool)
    (h : p.drop pp = closeB k ++ renderRest ks ++ qt)
    (hpl : pl = ((closeB k ++ renderRest ks).length : Int)) :
    afterNoMatch p rec ⟨pp, pl, cp, cl, brOf k, nums, idx, oob⟩ =
      match ks with
      | k' :: _ =>
        if k.optional then rec ⟨pp + sepLen k k', pl - sepLen k k', cp, cl, brOf k', nums, idx, oob⟩
        else (false, ⟨pp, pl, cp, cl, brOf k, nums, idx, oob⟩)
      | [] => (false, ⟨pp, pl, cp, cl, brOf k, nums, idx, oob⟩) := by
  obtain ⟨r0, r1, r2⟩ := rd3 p pp _ h
  unfold afterNoMatch
  simp only [r0, r1, r2]
  match ks, hks with
  | [], _ =>
    cases hopt : k.optional <;> rcases hq with rfl | rfl <;> simp [closeB, renderRest, hopt, rd]
  | k' :: ks', hks =>
    have hk' := hks k' (by simp)
    have hh := keyText_head hk' (93 :: (renderRest ks' ++ qt))
    have hh2 := keyText_head hk' (renderRest ks' ++ qt)
    cases hopt : k.optional <;> cases hopt' : k'.optional <;>
      simp [closeB, renderRest, item, hopt, hopt', rd, brOf, sepLen, sepBytes] at hpl ⊢
    · omega

theorem afterMatch_colon (p qt c : Bytes) (hq : qt = [] ∨ qt = [63]) (hn : Bool) (d : Int)
    (rec : MState → Bool × MState)
    (k : Kw) (ks : List Kw) (hks : ∀ k ∈ ks, KwW k)
    (pp : Nat) (pl : Int) (cp cl : Nat) (nums : List Int) (idx : Nat) (oob : Bool)
    (h : p.drop pp = closeB k ++ renderRest ks ++ qt)
    (hpl : pl = ((closeB k ++ renderRest ks).length : Int))
    (hc0 : rd c cp = 58) (hcl : 0 < cl) :
    afterMatch p c hn d rec ⟨pp, pl, cp, cl, brOf k, nums, idx, oob⟩ =
      match ks with
      | k' :: _ => rec ⟨pp + sepLen k k', pl - sepLen k k', cp + 1, cl - 1, brOf k', nums, idx, oob⟩
      | [] => (false, ⟨pp, pl, cp, cl, brOf k, nums, idx, oob⟩) := by
  obtain ⟨r0, r1, r2⟩ := rd3 p pp _ h
  have hcl' : ¬ cl = 0 := by omega
  unfold afterMatch
  simp only [r0, r1, r2, hc0]
  match ks, hks with
  | [], _ =>
    cases hopt : k.optional <;> rcases hq with rfl | rfl <;>
      simp [closeB, renderRest, hopt, rd, hcl, hcl'] at hpl ⊢ <;> simp [hpl]
  | k' :: ks', hks =>
    have hk' := hks k' (by simp)
    have hpos := keyText_pos hk'
    cases hopt : k.optional <;> cases hopt' : k'.optional <;>
      simp [closeB, renderRest, item, hopt, hopt'] at hpl <;>
      (have hA : ¬ pl = 0 := by omega) <;> (have hB : 0 < pl := by omega) <;>
      (have hC : 1 < pl := by omega) <;>
      simp [closeB, renderRest, item, hopt, hopt', rd, brOf, sepLen, sepBytes, hcl, hcl', hA, hB, hC] <;>
      (try (intro hx; omega))

theorem afterMatch_q (p c : Bytes) (hn : Bool) (d : Int) (rec : MState → Bool × MState)
    (pp : Nat) (pl : Int) (cp cl : Nat) (br : Int) (nums : List Int) (idx : Nat) (oob : Bool)
    (hc0 : rd c cp = 63) (hcl : 0 < cl) :
    afterMatch p c hn d rec ⟨pp, pl, cp, cl, br, nums, idx, oob⟩ =
      (false, ⟨pp, pl, cp, cl, br, nums, idx, oob⟩) := by
  have hcl' : ¬ cl = 0 := by omega
  unfold afterMatch
  simp only [hc0]
  by_cases h0 : pl = 0
  · simp [h0, hcl, hcl']
  · simp [h0, hcl, hcl']
    have e : ∀ x : UInt8, ¬ (x = 63 ∧ x = 58) := by
      intro x ⟨h1, h2⟩; rw [h1] at h2; exact absurd h2 (by decide)
    rw [if_neg (fun hh => e _ ⟨hh.2.1, hh.2.2⟩), if_neg (fun hh => e _ ⟨hh.2.1, hh.2.2.2⟩),
      if_neg (fun hh => e _ ⟨hh.2.1, hh.2.2.2⟩), if_neg (fun hh => e _ ⟨hh.2.1, hh.2.2.2.2⟩)]

theorem afterMatch_end (p c : Bytes) (hn : Bool) (d : Int) (rec : MState → Bool × MState)
    (pp : Nat) (pl : Int) (cp : Nat) (br : Int) (nums : List Int) (idx : Nat) (oob : Bool) :
    afterMatch p c hn d rec ⟨pp, pl, cp, 0, br, nums, idx, oob⟩ =
      if pl = 0 then (true, ⟨pp, pl, cp, 0, br, nums, idx, oob⟩)
      else ((trailingLoop p hn d (p.length + 2) ⟨pp, pl, cp, 0, br, nums, idx, oob⟩).pl == 0,
            trailingLoop p hn d (p.length + 2) ⟨pp, pl, cp, 0, br, nums, idx, oob⟩) := by
  unfold afterMatch
  by_cases h0 : pl = 0 <;> simp [h0]

/-! ### header side -/

/-- the header text after the current mnemonic: ':' m for every further mnemonic -/
def hdrRest : List Bytes → Bytes
  | [] => []
  | m :: ms => 58 :: m ++ hdrRest ms

/-- bytes of a mnemonic: no NUL, no ':', nothing `strtol` would skip or take as a sign -/
def MnOK (m : Bytes) : Prop := ∀ b ∈ m, b ≠ 0 ∧ b ≠ 58 ∧ (isDigit b = false → nonNumStart b = true)

/-- what the walker is expected to return -/
def Good (hn : Bool) (d : Int) (r : Bool × MState) (kws : List Kw) (ms : List Bytes)
    (nums : List Int) (idx : Nat) (oob : Bool) : Prop :=
  r.1 = (greedy kws ms).isSome ∧ r.2.oob = oob ∧
  ∀ sol, greedy kws ms = some sol → r.2.numbers = if hn then fill nums idx (want sol d) else nums

/-- all suffixes of the reading fit an int32 -/
def Small (hn : Bool) (kws : List Kw) (ms : List Bytes) : Prop :=
  hn = true → ∀ sol, greedy kws ms = some sol → ∀ o ∈ sol, ∀ v, o = some v → v < 2^31

/-- the recursive call is good on every state at a keyword start -/
def RecOK (p qt c ct : Bytes) (hn : Bool) (d : Int) (rec : MState → Bool × MState) (ks : List Kw)
    (oob : Bool) : Prop :=
  ∀ k' ks' m' ms' pp' pl' cp' cl' nums' idx', ks = k' :: ks' → (∀ x ∈ m' :: ms', MnOK x) →
    p.drop pp' = kwText k' ks' ++ qt → pl' = ((kwText k' ks').length : Int) →
    c.drop cp' = m' ++ hdrRest ms' ++ ct → cl' = (m' ++ hdrRest ms').length →
    Small hn (k' :: ks') (m' :: ms') →
    Good hn d (rec ⟨pp', pl', cp', cl', brOf k', nums', idx', oob⟩) (k' :: ks') (m' :: ms') nums' idx' oob

theorem sep_next (p qt : Bytes) (k k' : Kw) (ks' : List Kw) (pp : Nat) (pl : Int)
    (h : p.drop pp = closeB k ++ renderRest (k' :: ks') ++ qt)
    (hpl : pl = ((closeB k ++ renderRest (k' :: ks')).length : Int)) :
    p.drop (pp + sepLen k k') = kwText k' ks' ++ qt ∧ pl - sepLen k k' = ((kwText k' ks').length : Int) := by
  rw [after_eq_sep] at h hpl
  constructor
  · exact drop_add_of_drop p pp (sepBytes k k') _ (by rw [h, List.append_assoc])
  · rw [hpl]; simp [sepLen]; omega

/-- the keyword did not match -/
theorem step_nomatch (p qt c ct : Bytes) (hq : qt = [] ∨ qt = [63]) (hn : Bool) (d : Int)
    (rec : MState → Bool × MState) (k : Kw) (ks : List Kw) (hks : ∀ k ∈ ks, KwW k)
    (m : Bytes) (ms : List Bytes) (hm : ∀ x ∈ m :: ms, MnOK x)
    (pp : Nat) (pl : Int) (cp cl : Nat) (nums : List Int) (idx : Nat) (oob : Bool)
    (h : p.drop pp = closeB k ++ renderRest ks ++ qt)
    (hpl : pl = ((closeB k ++ renderRest ks).length : Int))
    (hc : c.drop cp = m ++ hdrRest ms ++ ct) (hcl : cl = (m ++ hdrRest ms).length)
    (hkm : kwMatch k m = none) (hsmall : Small hn (k :: ks) (m :: ms))
    (hrec : RecOK p qt c ct hn d rec ks oob) :
    Good hn d (afterNoMatch p rec ⟨pp, pl, cp, cl, brOf k,
        if k.numeric then (if hn then nums.set idx d else nums) else nums,
        if k.numeric then idx + 1 else idx, oob⟩) (k :: ks) (m :: ms) nums idx oob := by
  rw [afterNoMatch_eval p qt hq rec k ks hks pp pl cp cl _ _ oob h hpl]
  match ks, hks, hrec with
  | [], _, _ =>
    simp only [Good, greedy, hkm]
    cases k.optional <;> simp [greedy]
  | k' :: ks', hks, hrec =>
    cases hopt : k.optional with
    | false => simp [Good, greedy, hkm, hopt]
    | true =>
      simp only [if_true]
      obtain ⟨h1, h2⟩ := sep_next p qt k k' ks' pp pl h hpl
      have hg : greedy (k :: k' :: ks') (m :: ms) = (greedy (k' :: ks') (m :: ms)).map (consNum k none) := by
        simp [greedy, hkm, hopt]
      have hsm' : Small hn (k' :: ks') (m :: ms) := by
        intro hhn sol' hs' o ho v hv
        apply hsmall hhn (consNum k none sol') (by rw [hg, hs']; rfl) o _ v hv
        unfold consNum; split <;> simp [ho]
      have := hrec k' ks' m ms (pp + sepLen k k') (pl - sepLen k k') cp cl
        (if k.numeric then (if hn then nums.set idx d else nums) else nums)
        (if k.numeric then idx + 1 else idx) rfl hm h1 h2 hc hcl hsm'
      obtain ⟨g1, g2, g3⟩ := this
      refine ⟨?_, g2, ?_⟩
      · rw [g1, hg]; simp
      · intro sol hsol
        rw [hg] at hsol
        simp only [Option.map_eq_some_iff] at hsol
        obtain ⟨sol', hs', rfl⟩ := hsol
        rw [g3 sol' hs', want_consNum]
        cases hn <;> cases k.numeric <;> simp [fill]

/-- the value a matched keyword puts into numbers[] -/
def wantOne (n : Option Nat) (d : Int) : Int := match n with | some v => (v : Int) | none => d

theorem fill_step (hn : Bool) (nums : List Int) (idx : Nat) (d : Int) (k : Kw) (n' : Option Nat)
    (sol' : List (Option Nat)) :
    (if hn then fill (if hn then (if k.numeric then nums.set idx (wantOne n' d) else nums) else nums)
        (if k.numeric then idx + 1 else idx) (want sol' d)
     else (if hn then (if k.numeric then nums.set idx (wantOne n' d) else nums) else nums)) =
    if hn then fill nums idx (want (consNum k n' sol') d) else nums := by
  rw [want_consNum]
  cases hn <;> cases k.numeric <;> simp [fill, wantOne] <;> cases n' <;> rfl

theorem renderRest_eq_nil (ks : List Kw) (h : renderRest ks = []) : ks = [] := by
  cases ks with
  | nil => rfl
  | cons k ks => cases hopt : k.optional <;> simp [renderRest, item, hopt] at h

/-- the keyword matched a whole mnemonic -/
theorem step_match (p qt c ct : Bytes) (hq : qt = [] ∨ qt = [63]) (hn : Bool) (d : Int)
    (rec : MState → Bool × MState) (k : Kw) (ks : List Kw) (hks : ∀ k ∈ ks, KwW k)
    (m : Bytes) (ms : List Bytes) (hm : ∀ x ∈ m :: ms, MnOK x)
    (pp : Nat) (pl : Int) (cp cl : Nat) (nums numsX : List Int) (idx : Nat) (oob : Bool)
    (h : p.drop pp = closeB k ++ renderRest ks ++ qt)
    (hpl : pl = ((closeB k ++ renderRest ks).length : Int))
    (hc : c.drop cp = hdrRest ms ++ ct) (hcl : cl = (hdrRest ms).length)
    (n' : Option Nat) (hkm : kwMatch k m = some n')
    (hX : (hn = true → ∀ v, n' = some v → v < 2^31) →
      numsX = if hn then (if k.numeric then nums.set idx (wantOne n' d) else nums) else nums)
    (hsmall : Small hn (k :: ks) (m :: ms))
    (hrec : RecOK p qt c ct hn d rec ks oob) :
    Good hn d (afterMatch p c hn d rec ⟨pp, pl, cp, cl, brOf k, numsX,
        if k.numeric then idx + 1 else idx, oob⟩) (k :: ks) (m :: ms) nums idx oob := by
  have hg : greedy (k :: ks) (m :: ms) = (greedy ks ms).map (consNum k n') := by
    simp [greedy, hkm]
  -- the numbers clause, once the tail is known
  have hnum : ∀ (r : MState) sol', greedy ks ms = some sol' →
      r.numbers = (if hn then fill numsX (if k.numeric then idx + 1 else idx) (want sol' d) else numsX) →
      r.numbers = if hn then fill nums idx (want (consNum k n' sol') d) else nums := by
    intro r sol' hs' hr
    have hsm : hn = true → ∀ v, n' = some v → v < 2^31 := by
      intro hhn v hv
      cases hknum : k.numeric with
      | false => subst hv; exact absurd hkm (kwMatch_nonnumeric k m v hknum)
      | true =>
        apply hsmall hhn (consNum k n' sol') (by rw [hg, hs']; rfl) n' _ v hv
        simp [consNum, hknum]
    rw [hr, hX hsm, fill_step]
  have hsm' : Small hn ks ms := by
    intro hhn sol' hs' o ho v hv
    apply hsmall hhn (consNum k n' sol') (by rw [hg, hs']; rfl) o _ v hv
    unfold consNum; split <;> simp [ho]
  match ms, hm, hc, hcl, hg, hnum, hsm' with
  | [], _, hc, hcl, hg, hnum, _ =>
    simp only [hdrRest, List.length_nil] at hcl
    subst hcl
    have hfuel : (closeB k ++ renderRest ks).length ≤ p.length + 2 := by
      have := congrArg List.length h
      simp at this ⊢; omega
    obtain ⟨t1, t2, t3⟩ := tl_after p qt hn d k ks hks (p.length + 2) pp pl cp 0 numsX
      (if k.numeric then idx + 1 else idx) oob h hpl hfuel
    have e : afterMatch p c hn d rec ⟨pp, pl, cp, 0, brOf k, numsX, if k.numeric then idx + 1 else idx, oob⟩ =
        ((trailingLoop p hn d (p.length + 2) ⟨pp, pl, cp, 0, brOf k, numsX,
            if k.numeric then idx + 1 else idx, oob⟩).pl == 0,
          trailingLoop p hn d (p.length + 2) ⟨pp, pl, cp, 0, brOf k, numsX,
            if k.numeric then idx + 1 else idx, oob⟩) := by
      rw [afterMatch_end]
      by_cases h0 : pl = 0
      · rw [if_pos h0, trailingLoop_zero_pl _ _ _ _ _ (by simpa using h0)]; simp [h0]
      · rw [if_neg h0]
    rw [e]
    refine ⟨?_, t1, ?_⟩
    · simp only [t2, hg]; simp
    · intro sol hsol
      rw [hg] at hsol
      simp only [Option.map_eq_some_iff] at hsol
      obtain ⟨sol', hs', rfl⟩ := hsol
      exact hnum _ sol' hs' (t3 sol' hs')
  | m' :: ms', hm, hc, hcl, hg, hnum, hsm' =>
    have hc' : c.drop cp = 58 :: (m' ++ hdrRest ms' ++ ct) := by simpa [hdrRest] using hc
    have hc0 : rd c cp = 58 := rd_head c cp 58 _ hc'
    have hclpos : 0 < cl := by rw [hcl]; simp [hdrRest]
    rw [afterMatch_colon p qt c hq hn d rec k ks hks pp pl cp cl _ _ oob h hpl hc0 hclpos]
    match ks, hks, hrec, hg, hnum, hsm' with
    | [], _, _, hg, _, _ => simp [Good, hkm, greedy]
    | k' :: ks', hks, hrec, hg, hnum, hsm' =>
      obtain ⟨h1, h2⟩ := sep_next p qt k k' ks' pp pl h hpl
      have := hrec k' ks' m' ms' (pp + sepLen k k') (pl - sepLen k k') (cp + 1) (cl - 1) numsX
        (if k.numeric then idx + 1 else idx) rfl (fun x hx => hm x (List.mem_cons_of_mem _ hx)) h1 h2
        (drop_tail c cp 58 _ hc') (by rw [hcl]; simp [hdrRest]) hsm'
      obtain ⟨g1, g2, g3⟩ := this
      refine ⟨?_, g2, ?_⟩
      · rw [g1, hg]; simp
      · intro sol hsol
        rw [hg] at hsol
        simp only [Option.map_eq_some_iff] at hsol
        obtain ⟨sol', hs', rfl⟩ := hsol
        exact hnum _ sol' hs' (g3 sol' hs')

/-- what `cmdSeparatorPos` cuts off the header: the mnemonic `m`, or its part before a '?' -/
theorem hdr_split (c ct : Bytes) (hct : ct = [] ∨ ct = [63]) (m : Bytes) (ms : List Bytes)
    (hm : MnOK m) (cp cl : Nat)
    (hc : c.drop cp = m ++ hdrRest ms ++ ct) (hcl : cl = (m ++ hdrRest ms).length) :
    ∃ m1 crest, c.drop cp = m1 ++ crest ∧ cmdSeparatorPos c cp cl = m1.length ∧
      (∀ b ∈ m1, isDigit b = false → nonNumStart b = true) ∧ nonNumStart (crest.headD 0) = true ∧
      ((m1 = m ∧ crest = hdrRest ms ++ ct) ∨ (63 ∈ m ∧ rd c (cp + m1.length) = 63 ∧ m1.length < cl)) := by
  let m1 := m.takeWhile (fun b => b != 63)
  let m2 := m.dropWhile (fun b => b != 63)
  have hmm : m = m1 ++ m2 := (List.takeWhile_append_dropWhile).symm
  have hc1 : c.drop cp = m1 ++ (m2 ++ hdrRest ms ++ ct) := by
    rw [hc, hmm]; simp [List.append_assoc]
  have hsub : ∀ b ∈ m1, b ∈ m := fun b hb => (List.takeWhile_sublist _).subset hb
  have hclean : ∀ b ∈ m1, b ≠ 0 ∧ [58, 63].contains b = false := by
    intro b hb
    have h63 : b ≠ 63 := by
      have := List.all_eq_true.mp (takeWhile_all (fun b => b != 63) m) b hb; simpa using this
    have := hm b (hsub b hb)
    simp [this.1, this.2.1, h63]
  have hlenm : m.length = m1.length + m2.length := by
    have := congrArg List.length (List.takeWhile_append_dropWhile (p := fun b => b != 63) (l := m))
    simp only [List.length_append] at this; exact this.symm
  refine ⟨m1, m2 ++ hdrRest ms ++ ct, hc1, ?_, fun b hb => (hm b (hsub b hb)).2.2, ?_, ?_⟩
  · unfold cmdSeparatorPos
    apply sepPos_drop c cp cl _ m1 _ hc1 hclean
    by_cases h2 : m2 = []
    · cases ms with
      | nil => left; rw [hcl, List.length_append, hlenm, h2]; simp [hdrRest]
      | cons m' ms' =>
        right; rw [hcl, List.length_append, hlenm, h2]; simp [hdrRest]
    · right
      have hh := dropWhile_head (fun b => b != 63) m h2
      have hpos : 0 < m2.length := List.length_pos_iff.mpr h2
      refine ⟨by rw [hcl, List.length_append, hlenm]; omega, ?_, ?_⟩ <;>
      · cases hm2 : m2 with
        | nil => exact absurd hm2 h2
        | cons b t =>
          have : b = 63 := by simpa [m2, hm2] using hh
          simp [this]
  · by_cases h2 : m2 = []
    · rw [h2]
      cases ms with
      | nil => rcases hct with rfl | rfl <;> simp [hdrRest] <;> decide
      | cons m' ms' => simp [hdrRest]; decide
    · have hh := dropWhile_head (fun b => b != 63) m h2
      cases hm2 : m2 with
      | nil => exact absurd hm2 h2
      | cons b t =>
        have : b = 63 := by simpa [m2, hm2] using hh
        simp [this]; decide
  · by_cases h2 : m2 = []
    · left; rw [h2] at hmm ⊢; simp at hmm ⊢; exact hmm.symm
    · right
      have hh := dropWhile_head (fun b => b != 63) m h2
      have hmem := dropWhile_head_mem (fun b => b != 63) m h2
      have h63 : (m.dropWhile (fun b => b != 63)).headD 0 = 63 := by simpa using hh
      refine ⟨h63 ▸ hmem, ?_, ?_⟩
      · have := rd_after c cp m1 _ hc1 0
        rw [Nat.add_zero] at this; rw [this, rd_zero]
        cases hm2 : m2 with
        | nil => exact absurd hm2 h2
        | cons b t =>
          have : b = 63 := by simpa [m2, hm2] using hh
          simp [this]
      · have hpos : 0 < m2.length := List.length_pos_iff.mpr h2
        rw [hcl, List.length_append, hlenm]; omega

/-- a mnemonic containing '?' spells no keyword -/
theorem kwMatch_no63 (k : Kw) (hk : KwW k) (m : Bytes) (h63 : (63 : UInt8) ∈ m) : kwMatch k m = none := by
  cases hx : kwMatch k m with
  | none => rfl
  | some r =>
    exfalso
    have hform : ∀ form : Bytes, (∀ c ∈ form, c ∈ k.long) → Spells k.numeric form m → False := by
      intro form hsub ⟨dd, h1, h2, _⟩
      have hm : lower 63 ∈ m.map lower := List.mem_map_of_mem h63
      rw [h1] at hm
      rcases List.mem_append.mp hm with hm | hm
      · obtain ⟨c, hc, hlc⟩ := List.mem_map.mp hm
        have := (hk.long_all c (hsub c hc)).2.2.2.1
        exact this hlc
      · have := List.all_eq_true.mp h2 _ hm
        exact absurd this (by decide)
    rcases spells_of_kwMatch k m r hx with h | h
    · exact hform k.long (fun c hc => hc) h
    · exact hform k.short hk.short_mem h

theorem after_head (k : Kw) (ks : List Kw) (qt : Bytes) :
    closeB k ++ renderRest ks = [] ∨
    (0 < (closeB k ++ renderRest ks).length ∧
      ((closeB k ++ renderRest ks ++ qt).headD 0 = 58 ∨ (closeB k ++ renderRest ks ++ qt).headD 0 = 91 ∨
       (closeB k ++ renderRest ks ++ qt).headD 0 = 93)) := by
  cases hopt : k.optional with
  | true => right; simp [closeB, hopt]
  | false =>
    cases ks with
    | nil => left; simp [closeB, hopt, renderRest]
    | cons k' ks' => right; cases hopt' : k'.optional <;> simp [closeB, hopt, renderRest, item, hopt']

theorem st1_eval (hn : Bool) (flag : Prop) [Decidable flag] (idx : Nat) (v : Option Int)
    (pp : Nat) (pl : Int) (cp cl : Nat) (br : Int) (nums1 : List Int) (idx1 : Nat) (oob : Bool) :
    applyNum hn ⟨pp, pl, cp, cl, br, nums1, idx1, oob⟩ (if flag then some idx else none) v =
    ⟨pp, pl, cp, cl, br,
      (if flag then (match v with | some x => if hn then nums1.set idx x else nums1 | none => nums1) else nums1),
      idx1, oob⟩ := by
  by_cases hf : flag <;> cases v <;> simp [hf, setNum_eq, applyNum]

/-- one iteration of the main loop at the start of keyword `k` with current mnemonic `m` -/
theorem main_step (p qt c ct : Bytes) (hq : qt = [] ∨ qt = [63]) (hct : ct = [] ∨ ct = [63])
    (hn : Bool) (d : Int) (fuel : Nat) (k : Kw) (ks : List Kw) (hk : KwW k) (hks : ∀ k ∈ ks, KwW k)
    (m : Bytes) (ms : List Bytes) (hm : ∀ x ∈ m :: ms, MnOK x)
    (pp : Nat) (pl : Int) (cp cl : Nat) (nums : List Int) (idx : Nat) (oob : Bool)
    (hp : p.drop pp = kwText k ks ++ qt) (hpl : pl = ((kwText k ks).length : Int))
    (hc : c.drop cp = m ++ hdrRest ms ++ ct) (hcl : cl = (m ++ hdrRest ms).length)
    (hsmall : Small hn (k :: ks) (m :: ms))
    (hrec : RecOK p qt c ct hn d (mainLoop p c hn d fuel) ks oob) :
    Good hn d (mainLoop p c hn d (fuel + 1) ⟨pp, pl, cp, cl, brOf k, nums, idx, oob⟩)
      (k :: ks) (m :: ms) nums idx oob := by
  have hp' : p.drop pp = keyText k ++ (closeB k ++ renderRest ks ++ qt) := by
    rw [hp, kwText]; simp [List.append_assoc]
  have hpos := keyText_pos hk
  have hlen : (kwText k ks).length = (keyText k).length + (closeB k ++ renderRest ks).length := by
    simp [kwText, List.append_assoc]
  -- pattern separator
  have hpsp : patternSeparatorPos p pp pl.toNat = (keyText k).length := by
    apply psp_key hk p pp pl.toNat _ hp'
    rcases after_head k ks qt with h0 | ⟨h1, h2⟩
    · left; rw [hpl, hlen, h0]; simp
    · right; exact ⟨by rw [hpl, hlen, Int.toNat_natCast]; omega, h2⟩
  have hisnum : ((keyText k).length > 0 ∧ (rd p (pp + (keyText k).length - 1) == 35) = true) ↔
      k.numeric = true := by
    rw [keyText_isNum hk p pp _ hp']; simp [hpos]
  -- pattern after the keyword
  have hafter : p.drop (pp + (keyText k).length) = closeB k ++ renderRest ks ++ qt :=
    drop_add_of_drop p pp _ _ hp'
  have hplafter : pl - ((keyText k).length : Int) = ((closeB k ++ renderRest ks).length : Int) := by
    rw [hpl, hlen]; omega
  -- header
  obtain ⟨m1, crest, hc1, hcsp, hm1, hcr, hcase⟩ :=
    hdr_split c ct hct m ms (hm m (by simp)) cp cl hc hcl
  have hnn : ¬ pl < 0 := by rw [hpl]; omega
  have hmp := matchPattern_spec p pp k _ c cp m1 crest
    (decide (k.numeric = true ∧ hn = true ∧ idx < nums.length)) hk hp' hc1 hm1 hcr
  have hallk : ∀ k' ∈ k :: ks, KwW k' := by
    intro k' hk'; rcases List.mem_cons.mp hk' with rfl | h
    · exact hk
    · exact hks k' h
  rw [mainLoop_succ _ _ _ _ _ _ hnn]
  dsimp only
  rw [hpsp, hcsp, numStep_eval hn d _ k.numeric hisnum]
  dsimp only
  have hflag : (if k.numeric = true ∧ hn = true ∧ idx < nums.length then some idx else none : Option Nat).isSome
      = decide (k.numeric = true ∧ hn = true ∧ idx < nums.length) := by
    by_cases hf : (k.numeric = true ∧ hn = true ∧ idx < nums.length) <;> simp [hf]
  rw [hflag, st1_eval]
  dsimp only
  -- does the cut-off piece spell the keyword?
  cases hR : kwMatch k m1 with
  | none =>
    rw [hR] at hmp
    have hmv : ¬ ((matchPattern p pp (keyText k).length c cp m1.length
        (decide (k.numeric = true ∧ hn = true ∧ idx < nums.length))).1 = true) := by
      rw [hmp.1]; simp
    rw [if_neg hmv]
    have hkm : kwMatch k m = none := by
      rcases hcase with ⟨h1, _⟩ | ⟨h63, _, _⟩
      · rw [← h1]; exact hR
      · exact kwMatch_no63 k hk m h63
    exact step_nomatch p qt c ct hq hn d _ k ks hks m ms hm (pp + (keyText k).length)
      (pl - ((keyText k).length : Int)) cp cl nums idx oob hafter hplafter hc hcl hkm hsmall hrec
  | some n' =>
    rw [hR] at hmp
    have hmv : (matchPattern p pp (keyText k).length c cp m1.length
        (decide (k.numeric = true ∧ hn = true ∧ idx < nums.length))).1 = true := by
      rw [hmp.1]; simp
    rw [if_pos hmv]
    rcases hcase with ⟨h1, h2⟩ | ⟨h63, hq63, hlt⟩
    · -- a whole mnemonic
      subst h1
      have hc' : c.drop (cp + m1.length) = hdrRest ms ++ ct := by
        rw [h2] at hc1; exact drop_add_of_drop c cp m1 _ hc1
      have hcl' : cl - m1.length = (hdrRest ms).length := by rw [hcl]; simp
      refine step_match p qt c ct hq hn d _ k ks hks m1 ms hm (pp + (keyText k).length)
        (pl - ((keyText k).length : Int)) (cp + m1.length) (cl - m1.length) nums _ idx oob hafter hplafter
        hc' hcl' n' hR ?_ hsmall hrec
      intro hsm
      have hfull := hmp.2 (fun hfl v hv => hsm (by simpa using (of_decide_eq_true hfl).2.1) v (by simpa using hv))
      rw [hfull]
      by_cases hf : (k.numeric = true ∧ hn = true ∧ idx < nums.length)
      · obtain ⟨f1, f2, f3⟩ := hf
        cases n' <;> simp [mpRes, f1, f2, f3, wantOne]
      · simp only [hf, if_false]
        cases hnum : k.numeric <;> cases hhn : hn <;> simp
        have : nums.length ≤ idx := by simpa [hnum, hhn] using hf
        simp [List.set_eq_of_length_le this]
    · -- a '?' inside the mnemonic: nothing can spell it
      have hclpos : 0 < cl - m1.length := by omega
      rw [afterMatch_q p c hn d _ _ _ _ _ _ _ _ _ hq63 hclpos]
      have hbad : ∀ k' ∈ k :: ks, kwMatch k' m = none := by
        intro k' hk'
        exact kwMatch_no63 k' (hallk k' hk') m h63
      have hg := greedy_none_of_unmatchable (k :: ks) (m :: ms) m (by simp) hbad
      simp [Good, hg]

/-- the main loop computes the list-level walker -/
theorem mainLoop_spec (p qt c ct : Bytes) (hq : qt = [] ∨ qt = [63]) (hct : ct = [] ∨ ct = [63])
    (hn : Bool) (d : Int) :
    ∀ (ks : List Kw) (k : Kw) (fuel : Nat), ks.length < fuel → KwW k → (∀ k ∈ ks, KwW k) →
    ∀ (m : Bytes) (ms : List Bytes), (∀ x ∈ m :: ms, MnOK x) →
    ∀ (pp : Nat) (pl : Int) (cp cl : Nat) (nums : List Int) (idx : Nat) (oob : Bool),
      p.drop pp = kwText k ks ++ qt → pl = ((kwText k ks).length : Int) →
      c.drop cp = m ++ hdrRest ms ++ ct → cl = (m ++ hdrRest ms).length →
      Small hn (k :: ks) (m :: ms) →
      Good hn d (mainLoop p c hn d fuel ⟨pp, pl, cp, cl, brOf k, nums, idx, oob⟩)
        (k :: ks) (m :: ms) nums idx oob := by
  intro ks
  induction ks with
  | nil =>
    intro k fuel hf hk hks m ms hm pp pl cp cl nums idx oob hp hpl hc hcl hsm
    obtain ⟨f, rfl⟩ : ∃ f, fuel = f + 1 := ⟨fuel - 1, by omega⟩
    apply main_step p qt c ct hq hct hn d f k [] hk hks m ms hm pp pl cp cl nums idx oob hp hpl hc hcl hsm
    intro k' ks' m' ms' pp' pl' cp' cl' nums' idx' h
    cases h
  | cons k1 ks1 ih =>
    intro k fuel hf hk hks m ms hm pp pl cp cl nums idx oob hp hpl hc hcl hsm
    obtain ⟨f, rfl⟩ : ∃ f, fuel = f + 1 := ⟨fuel - 1, by omega⟩
    apply main_step p qt c ct hq hct hn d f k (k1 :: ks1) hk hks m ms hm pp pl cp cl nums idx oob hp hpl hc hcl hsm
    intro k' ks' m' ms' pp' pl' cp' cl' nums' idx' h hm' hp' hpl' hc' hcl' hsm'
    injection h with h1 h2
    subst h1; subst h2
    exact ih k1 f (by simp at hf; omega) (hks k1 (by simp)) (fun x hx => hks x (by simp [hx]))
      m' ms' hm' pp' pl' cp' cl' nums' idx' oob hp' hpl' hc' hcl' hsm'

end ScpiVerif.Lemmas.Match
