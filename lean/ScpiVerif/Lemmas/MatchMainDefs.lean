/-
The main loop of `matchCommand` on a rendered pattern and a header split at ':' computes the
list-level walker `greedy` (C03 proof, text level).
-/
import ScpiVerif.Lemmas.MatchLoop

namespace ScpiVerif.Lemmas.Match
open ScpiVerif ScpiVerif.Match ScpiVerif.Spec.Pattern
open ScpiVerif.Lexer (Bytes isDigit isLower isUpper isAlpha)

/-- the numbers[] bookkeeping at the head of an iteration -/
def numStep (hn : Bool) (d : Int) (isNum : Prop) [Decidable isNum] (st : MState) : MState × Option Nat :=
  if isNum then
    if hn ∧ st.idx < st.numbers.length then
      ({ (setNum st hn st.idx d) with idx := st.idx + 1 }, some st.idx)
    else ({ st with idx := st.idx + 1 }, none)
  else (st, none)

/-- store the parsed suffix of a matched numeric keyword -/
def applyNum (hn : Bool) (st : MState) (numPtr : Option Nat) (v : Option Int) : MState :=
  match numPtr, v with
  | some i, some x => setNum st hn i x
  | _, _ => st

/-- what the loop does after a keyword matched (state already advanced) -/
def afterMatch (p c : Bytes) (hn : Bool) (d : Int) (rec : MState → Bool × MState) (st : MState) : Bool × MState :=
  if st.pl == 0 ∧ st.cl == 0 then (true, st)
  else if st.pl == 0 ∧ st.cl > 0 then (false, st)
  else if st.cl == 0 then
    let st : MState := trailingLoop p hn d (p.length + 2) st
    (st.pl == 0, st)
  else
    let p0 := rd p st.pp; let p1 := rd p (st.pp + 1); let p2 := rd p (st.pp + 2); let c0 := rd c st.cp
    if st.pl > 0 ∧ p0 == c0 ∧ p0 == 58 then
      rec { st with pp := st.pp + 1, pl := st.pl - 1, cp := st.cp + 1, cl := st.cl - 1 }
    else if st.pl > 1 ∧ p1 == c0 ∧ p0 == 91 ∧ p1 == 58 then
      rec { st with pp := st.pp + 2, pl := st.pl - 2, cp := st.cp + 1, cl := st.cl - 1, brackets := st.brackets + 1 }
    else if st.pl > 1 ∧ p1 == c0 ∧ p0 == 93 ∧ p1 == 58 then
      rec { st with pp := st.pp + 2, pl := st.pl - 2, cp := st.cp + 1, cl := st.cl - 1, brackets := st.brackets - 1 }
    else if st.pl > 2 ∧ p2 == c0 ∧ p0 == 93 ∧ p1 == 91 ∧ p2 == 58 then
      rec { st with pp := st.pp + 3, pl := st.pl - 3, cp := st.cp + 1, cl := st.cl - 1 }
    else (false, st)

/-- what the loop does after a keyword did not match (pattern pointer already advanced) -/
def afterNoMatch (p : Bytes) (rec : MState → Bool × MState) (st : MState) : Bool × MState :=
  let p0 := rd p st.pp; let p1 := rd p (st.pp + 1); let p2 := rd p (st.pp + 2)
  if p0 == 93 ∧ p1 == 58 then
    rec { st with pp := st.pp + 2, pl := st.pl - 2, brackets := st.brackets - 1 }
  else if st.pl > 2 ∧ p0 == 93 ∧ p1 == 91 ∧ p2 == 58 then
    rec { st with pp := st.pp + 3, pl := st.pl - 3 }
  else (false, st)

theorem mainLoop_succ (p c : Bytes) (hn : Bool) (d : Int) (fuel : Nat) (st : MState) (hpl : ¬ st.pl < 0) :
    mainLoop p c hn d (fuel + 1) st =
      let psp := patternSeparatorPos p st.pp st.pl.toNat
      let csp := cmdSeparatorPos c st.cp st.cl
      let sn := numStep hn d (psp > 0 ∧ rd p (st.pp + psp - 1) == 35) st
      let mv := matchPattern p sn.1.pp psp c sn.1.cp csp sn.2.isSome
      if mv.1 then
        let st1 : MState := applyNum hn sn.1 sn.2 mv.2
        afterMatch p c hn d (mainLoop p c hn d fuel)
          { st1 with pp := st1.pp + psp, pl := st1.pl - psp, cp := st1.cp + csp, cl := st1.cl - csp }
      else afterNoMatch p (mainLoop p c hn d fuel) { sn.1 with pp := sn.1.pp + psp, pl := sn.1.pl - psp } := by
  rw [mainLoop, if_neg hpl]; rfl

end ScpiVerif.Lemmas.Match
