/-
C02 helper lemmas, part 4: the in-place composition of compound headers computes the effective
header of the statement (`Spec.Message.effective`) from the bytes of the previous effective header
and of the current header, and only overwrites bytes in front of the current header.
-/
import ScpiVerif.Lemmas.DispatchUnit
import ScpiVerif.Spec.Message

namespace ScpiVerif.Lemmas.Dispatch
open ScpiVerif ScpiVerif.Lexer ScpiVerif.Match ScpiVerif.Spec.Message ScpiVerif.Lemmas.Bounds
open ScpiVerif.Lemmas.Match (hdrAlpha)

/-! ### the memmove idiom in closed form -/

theorem store_aux (src : Bytes) : ∀ (b : Bytes) (start k0 : Nat), start + k0 + src.length ≤ b.length →
    (src.zipIdx k0).foldl (fun b (x, k) => b.set (start + k) x) b =
      b.take (start + k0) ++ src ++ b.drop (start + k0 + src.length) := by
  induction src with
  | nil => intro b start k0 _; simp
  | cons a l ih =>
    intro b start k0 h
    simp only [List.length_cons] at h
    rw [List.zipIdx_cons, List.foldl_cons]
    dsimp only
    rw [ih (b.set (start + k0) a) start (k0 + 1) (by rw [List.length_set]; omega)]
    have e1 : (b.set (start + k0) a).take (start + (k0 + 1)) = b.take (start + k0) ++ [a] := by
      rw [← Nat.add_assoc, List.take_succ_eq_append_getElem (by rw [List.length_set]; omega)]
      rw [List.take_set_of_le (Nat.le_refl _)]
      simp
    have e2 : (b.set (start + k0) a).drop (start + (k0 + 1) + l.length) = b.drop (start + k0 + (l.length + 1)) := by
      rw [List.drop_set_of_lt (by omega)]
      congr 1; omega
    rw [e1, e2]
    simp

theorem store_eq (src b : Bytes) (start : Nat) (h : start + src.length ≤ b.length) :
    (src.zipIdx).foldl (fun b (x, k) => b.set (start + k) x) b =
      b.take start ++ src ++ b.drop (start + src.length) := by
  have := store_aux src b start 0 (by omega)
  simpa using this

theorem map_rd_range (buf : Bytes) (pp i : Nat) (h : pp + i ≤ buf.length) :
    (List.range i).map (fun k => rd buf (pp + k)) = (buf.drop pp).take i := by
  apply List.ext_getElem
  · simp; omega
  · intro n h1 h2
    simp only [List.length_map, List.length_range] at h1
    simp [rd, List.getD_eq_getElem?_getD, List.getElem?_eq_getElem (show pp + n < buf.length by omega)]

/-! ### composition = `effective` -/

/-- length of the path of a header: position after its last ':' (0 if there is none) -/
def pathLen (e : Bytes) : Nat :=
  ((List.range e.length).reverse.find? (fun i => e.getD i 0 == 58)).map (· + 1) |>.getD 0

theorem pathOf_eq (e : Bytes) : pathOf e = e.take (pathLen e) := rfl

theorem pathLen_le (e : Bytes) : pathLen e ≤ e.length := by
  unfold pathLen
  cases hf : (List.range e.length).reverse.find? (fun i => e.getD i 0 == 58) with
  | none => simp
  | some k =>
    have hk := List.mem_of_find?_eq_some hf
    simp only [List.mem_reverse, List.mem_range] at hk
    simp only [Option.map_some, Option.getD_some]
    omega

/-- `prev` points at the bytes `pe` of the previous effective header, which lie in `[B, lim)` -/
def PrevOK (buf : Bytes) (B lim : Nat) : Option (Nat × Nat) → Option Bytes → Prop
  | none, none => True
  | some (pp, pl), some e =>
    B ≤ pp ∧ pp + pl ≤ lim ∧ (buf.drop pp).take pl = e ∧ 0 < pl ∧ ∀ b ∈ e, hdrAlpha b = true
  | _, _ => False

theorem head_take_drop (buf : Bytes) (o n : Nat) (hn : 0 < n) (ho : o < buf.length) :
    ((buf.drop o).take n).head? = some (rd buf o) := by
  rw [List.head?_take, if_neg (by omega), List.head?_drop]
  simp [rd, List.getD_eq_getElem?_getD, List.getElem?_eq_getElem ho]

theorem find?_congr' {α : Type} {p q : α → Bool} : ∀ (l : List α), (∀ x ∈ l, p x = q x) → l.find? p = l.find? q := by
  intro l
  induction l with
  | nil => intro _; rfl
  | cons a l ih =>
    intro h
    rw [List.find?_cons, List.find?_cons, h a (by simp), ih (fun x hx => h x (by simp [hx]))]

theorem effective_some (e h : Bytes) : effective (some e) h =
    if (h.head? == some 58 ∨ h.head? == some 42) then h else if e.head? == some 42 then h else pathOf e ++ h := rfl

theorem compose_spec (buf : Bytes) (prev : Option (Nat × Nat)) (pe : Option Bytes) (cur : Nat × Nat) (B : Nat)
    (hcur : 0 < cur.2) (hlen : cur.1 + cur.2 ≤ buf.length) (hlim : cur.1 ≤ buf.length)
    (hprev : PrevOK buf B cur.1 prev pe) :
    ((composeCompound buf prev cur).1.drop (composeCompound buf prev cur).2.1.1).take (composeCompound buf prev cur).2.1.2 =
      effective pe ((buf.drop cur.1).take cur.2) ∧
    ∀ b0, b0 ≤ cur.1 → (∀ x ∈ (buf.drop b0).take (cur.1 - b0), x ≠ 0) →
      ∀ x ∈ ((composeCompound buf prev cur).1.drop b0).take (cur.1 - b0), x ≠ 0 := by
  have hh := head_take_drop buf cur.1 cur.2 hcur (by omega)
  have hc0 : (cur.2 == 0) = false := by simp; omega
  unfold composeCompound
  rw [hc0]
  simp only [Bool.false_eq_true, if_false]
  match prev, pe, hprev with
  | none, none, _ => exact ⟨rfl, fun b0 _ h => h⟩
  | some (pp, pl), some e, ⟨p1, p2, p3, p4, p5⟩ =>
    have hel : e.length = pl := by rw [← p3]; simp; omega
    have he0 : e.head? = some (rd buf pp) := by rw [← p3]; exact head_take_drop buf pp pl p4 (by omega)
    have hrd : ∀ k, k < pl → rd buf (pp + k) = e.getD k 0 := by
      intro k hk
      rw [← p3]
      simp [rd, List.getD_eq_getElem?_getD, hk]
    have hpl0 : (pl == 0) = false := by simp; omega
    dsimp only
    rw [hpl0]
    simp only [Bool.false_eq_true, if_false]
    by_cases c1 : (rd buf cur.1 == 42 ∨ rd buf cur.1 == 58)
    · rw [if_pos c1]
      refine ⟨?_, fun b0 _ h => h⟩
      rw [effective_some, hh]
      have : (some (rd buf cur.1) == some 58 ∨ some (rd buf cur.1) == some 42) := by
        rcases c1 with c | c
        · right; simpa using c
        · left; simpa using c
      rw [if_pos this]
    · rw [if_neg c1]
      have n1 : ¬ (some (rd buf cur.1) == some 58 ∨ some (rd buf cur.1) == some 42) := by
        intro h; apply c1
        rcases h with c | c
        · right; simpa using c
        · left; simpa using c
      by_cases c2 : (rd buf pp == 42) = true
      · rw [if_pos c2]
        refine ⟨?_, fun b0 _ h => h⟩
        rw [effective_some, hh, if_neg n1, he0]
        rw [if_pos (by simpa using c2)]
      · rw [if_neg c2]
        have n2 : ¬ ((some (rd buf pp) == some 42) = true) := by simpa using c2
        have hi : (((List.range pl).reverse.find? (fun k => rd buf (pp + k) == 58)).map (· + 1) |>.getD 0) = pathLen e := by
          unfold pathLen
          rw [hel]
          congr 2
          apply find?_congr'
          intro k hk
          simp only [List.mem_reverse, List.mem_range] at hk
          rw [hrd k hk]
        rw [hi]
        have hple := pathLen_le e
        have heff : effective (some e) ((buf.drop cur.1).take cur.2) = pathOf e ++ (buf.drop cur.1).take cur.2 := by
          rw [effective_some, hh, if_neg n1, he0, if_neg n2]
        by_cases c3 : (pathLen e == 0) = true
        · rw [if_pos c3]
          refine ⟨?_, fun b0 _ h => h⟩
          rw [heff, pathOf_eq]
          have : pathLen e = 0 := by simpa using c3
          rw [this]; simp
        · rw [if_neg c3]
          have hlt : ¬ cur.1 < pathLen e := by omega
          rw [if_neg hlt]
          dsimp only
          rw [map_rd_range buf pp (pathLen e) (by omega)]
          rw [store_eq _ buf (cur.1 - pathLen e) (by simp; omega)]
          have hPl : ((buf.drop pp).take (pathLen e)).length = pathLen e := by simp; omega
          have hP : (buf.drop pp).take (pathLen e) = pathOf e := by
            have : e.take (pathLen e) = ((buf.drop pp).take pl).take (pathLen e) := by rw [p3]
            rw [pathOf_eq, this, List.take_take, Nat.min_eq_left (by omega)]
          rw [hPl, Nat.sub_add_cancel (by omega)]
          have hAl : (buf.take (cur.1 - pathLen e)).length = cur.1 - pathLen e := by simp; omega
          constructor
          · rw [heff, List.append_assoc, List.drop_left' hAl, List.take_append, hPl]
            rw [List.take_of_length_le (by rw [hPl]; omega)]
            rw [hP]
            congr 2; omega
          · intro b0 hb0 hnz x hx
            rw [List.mem_iff_getElem?] at hx
            obtain ⟨j, hj⟩ := hx
            rw [List.getElem?_take] at hj
            split at hj
            · rename_i hjlt
              rw [List.getElem?_drop, List.append_assoc] at hj
              by_cases hjA : b0 + j < cur.1 - pathLen e
              · rw [List.getElem?_append_left (by rw [hAl]; exact hjA), List.getElem?_take_of_lt hjA] at hj
                apply hnz x
                rw [List.mem_iff_getElem?]
                refine ⟨j, ?_⟩
                rw [List.getElem?_take_of_lt hjlt, List.getElem?_drop]
                exact hj
              · rw [List.getElem?_append_right (by rw [hAl]; omega), hAl,
                  List.getElem?_append_left (by rw [hPl]; omega)] at hj
                have hm : x ∈ (buf.drop pp).take (pathLen e) := List.mem_of_getElem? hj
                rw [hP, pathOf_eq] at hm
                exact alpha_ne_zero x (p5 x (List.mem_of_mem_take hm))
            · cases hj
end ScpiVerif.Lemmas.Dispatch
