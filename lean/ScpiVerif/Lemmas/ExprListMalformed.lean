/-
Lemmas for C19, malformed channel lists: the converse direction of `channelRange_spec` /
`chanLoop_spec` of Lemmas/ExprList.lean.  A channel walker that ends with NO_MORE has walked a
well-formed channel list, so a body the grammar rejects is never answered with a silent NO_MORE.
-/
import ScpiVerif.Lemmas.ExprList

namespace ScpiVerif.Lemmas.ExprList
open ScpiVerif ScpiVerif.Lexer ScpiVerif.Expr ScpiVerif.Spec ScpiVerif.Spec.ExprList
open ScpiVerif.Lemmas.Lexer

/-! ## one channel spec: OK only on `num(!num)*` -/

theorem channelSpec_ok_inv (win : Bytes) (cap : Nat) : ∀ (cf pos i : Nat) (vals : List Int) (fuel : Nat),
    (channelSpec win cap cf pos i vals).2.1 = .ok → (win.drop pos).length + 1 ≤ fuel →
    ∃ q, chanSpec fuel (win.drop pos) [] 0 = some q := by
  intro cf
  induction cf with
  | zero => intro pos i vals fuel h; simp [channelSpec] at h
  | succ cf ih =>
    intro pos i vals fuel h hf
    cases fuel with
    | zero => omega
    | succ fuel =>
      unfold channelSpec at h
      simp only [decimal_lexDecimal_eq] at h
      unfold chanSpec
      rw [numLen_eq]
      by_cases hD : 0 < D (win.drop pos)
      · have hr : ((D (win.drop pos) : Int) != 0) = true := by simp; omega
        simp only [hr, if_true] at h
        simp only [hD, if_true, head_beq_iff, List.nil_append, List.drop_drop, Nat.zero_add]
        by_cases hb : hd (win.drop (pos + D (win.drop pos))) (· == 33) = true
        · rw [lexSpecific_ok hb] at h
          have h10 : ((1 : Int) != 0) = true := by decide
          simp only [h10, if_true] at h
          simp only [hb, if_true]
          have hlt := hd_drop_length hb
          obtain ⟨q, hq⟩ := ih (pos + D (win.drop pos) + 1) (i + 1) _ fuel h (by
            simp only [List.length_drop] at hf ⊢; omega)
          rw [chanSpec_acc, ← Nat.add_assoc, hq]
          exact ⟨_, rfl⟩
        · simp only [hb, Bool.false_eq_true, if_false]
          exact ⟨_, rfl⟩
      · exfalso
        have h0 : D (win.drop pos) = 0 := by omega
        simp only [h0] at h
        simp only [Int.cast_ofNat_Int, bne_self_eq_false, Bool.false_eq_true, if_false] at h
        split at h <;> cases h

/-! ## one channel entry: OK only on `spec` / `spec:spec` with equal dimensions -/

theorem channelRange_res (win : Bytes) (pos cap : Nat) :
    (channelRange win pos cap).2.1 = .ok ∨ (channelRange win pos cap).2.1 = .error := by
  unfold channelRange
  generalize channelSpec win cap (win.length + 2) pos 0 [] = q1
  obtain ⟨p1, r1, vf, d1⟩ := q1
  simp only
  cases r1
  · have hok : (Res.ok == Res.ok) = true := by decide
    simp only [hok, if_true]
    generalize lexColon win p1 = c
    obtain ⟨p2, ct, rc⟩ := c
    simp only
    split
    · generalize channelSpec win cap (win.length + 2) p2 0 [] = q2
      obtain ⟨p3, r2, vt, d2⟩ := q2
      simp only
      split
      · exact Or.inr rfl
      · split
        · exact Or.inr rfl
        · exact Or.inl rfl
    · exact Or.inl rfl
  · have h1 : (Res.error == Res.ok) = false := by decide
    have h2 : (Res.error == Res.noMore) = false := by decide
    simp only [h1, h2, Bool.false_eq_true, if_false]
    exact Or.inr trivial
  · have h1 : (Res.noMore == Res.ok) = false := by decide
    have h2 : (Res.noMore == Res.noMore) = true := by decide
    simp only [h1, h2, Bool.false_eq_true, if_false, if_true]
    exact Or.inr trivial

/-- channelRange is not OK when its first channel spec is not -/
theorem channelRange_first_fail {win : Bytes} {pos cap : Nat}
    (h : (channelSpec win cap (win.length + 2) pos 0 []).2.1 ≠ .ok) : (channelRange win pos cap).2.1 ≠ .ok := by
  unfold channelRange
  generalize channelSpec win cap (win.length + 2) pos 0 [] = q1 at h
  obtain ⟨p1, r1, vf, d1⟩ := q1
  simp only at h ⊢
  cases r1
  · exact absurd rfl h
  · have h1 : (Res.error == Res.ok) = false := by decide
    have h2 : (Res.error == Res.noMore) = false := by decide
    simp only [h1, h2, Bool.false_eq_true, if_false]
    decide
  · have h1 : (Res.noMore == Res.ok) = false := by decide
    have h2 : (Res.noMore == Res.noMore) = true := by decide
    simp only [h1, h2, Bool.false_eq_true, if_false, if_true]
    decide

theorem channelRange_none {win : Bytes} {pos : Nat} (cap : Nat) (h : chanEntry (win.drop pos) = none) :
    (channelRange win pos cap).2.1 ≠ .ok := by
  unfold chanEntry at h
  cases h1 : chanSpec ((win.drop pos).length + 1) (win.drop pos) [] 0 with
  | none =>
    apply channelRange_first_fail
    intro hok
    obtain ⟨q, hq⟩ := channelSpec_ok_inv win cap _ pos 0 [] ((win.drop pos).length + 1) hok (Nat.le_refl _)
    rw [h1] at hq; cases hq
  | some q1 =>
    obtain ⟨fs, k⟩ := q1
    rw [h1] at h
    simp only [head_beq_iff, List.drop_drop] at h
    obtain ⟨l1, l2, l3⟩ := chanSpec_len _ _ _ _ h1
    have c1 := channelSpec_spec win cap _ fs k pos (win.length + 2) 0 [] h1 (by
      simp only [List.length_drop] at l3; omega)
    simp only [Nat.sub_zero, List.nil_append, Nat.zero_add] at c1
    unfold channelRange
    rw [c1]
    have hok : (Res.ok == Res.ok) = true := by decide
    simp only [hok, if_true]
    by_cases hc : hd (win.drop (pos + k)) (· == 58) = true
    · simp only [hc, if_true] at h
      rw [lexColon_ok hc]
      have h10 : ((1 : Int) != 0) = true := by decide
      simp only [h10, if_true]
      cases h2 : chanSpec ((win.drop pos).length + 1) (win.drop (pos + (k + 1))) [] 0 with
      | none =>
        have hbad : (channelSpec win cap (win.length + 2) (pos + k + 1) 0 []).2.1 ≠ .ok := by
          intro hok2
          obtain ⟨q, hq⟩ := channelSpec_ok_inv win cap _ (pos + k + 1) 0 [] ((win.drop pos).length + 1) hok2 (by
            simp only [List.length_drop]; omega)
          rw [Nat.add_assoc, h2] at hq; cases hq
        generalize channelSpec win cap (win.length + 2) (pos + k + 1) 0 [] = q2 at hbad
        obtain ⟨p3, r2, vt, d2⟩ := q2
        simp only at hbad ⊢
        have : (r2 != Res.ok) = true := by simpa using hbad
        simp only [this, if_true]
        decide
      | some q2 =>
        obtain ⟨ts, m⟩ := q2
        rw [h2] at h
        simp only at h
        by_cases hlen : (ts.length == fs.length) = true
        · simp only [hlen, if_true] at h
          cases h
        · obtain ⟨m1, m2, m3⟩ := chanSpec_len _ _ _ _ h2
          have c2 := channelSpec_spec win cap _ ts m (pos + k + 1) (win.length + 2) 0 []
            (by rw [Nat.add_assoc]; exact h2) (by simp only [List.length_drop] at m3; omega)
          simp only [Nat.sub_zero, List.nil_append, Nat.zero_add] at c2
          rw [c2]
          have hne : (Res.ok != Res.ok) = false := by decide
          have hlen' : ¬ fs.length = ts.length := by
            intro he; apply hlen; simp [he]
          have hd12 : (some fs.length != some ts.length) = true := by simp [hlen']
          simp only [hne, Bool.false_eq_true, if_false, hd12, if_true]
          decide
    · simp only [hc, Bool.false_eq_true, if_false] at h
      cases h

/-! ## the channel entry loop: NO_MORE only at the end of a well-formed list -/

theorem chanLoop_noMore_inv (win : Bytes) (index cap : Nat) : ∀ (lf i pos : Nat) (rng : Option Bool) (dims : Option Nat)
    (fuel : Nat), (chanLoop win index cap lf i pos rng dims).2.1 = .noMore → (win.drop pos).length + 1 ≤ fuel →
    ∃ es, chanList fuel (win.drop pos) [] = some es := by
  intro lf
  induction lf with
  | zero => intro i pos rng dims fuel h; simp [chanLoop] at h
  | succ lf ih =>
    intro i pos rng dims fuel h hf
    cases fuel with
    | zero => omega
    | succ fuel =>
      unfold chanLoop at h
      unfold chanList
      cases hne : chanEntry (win.drop pos) with
      | none =>
        exfalso
        have hno := channelRange_none (if i == index then cap else 0) hne
        have hres := channelRange_res win pos (if i == index then cap else 0)
        generalize channelRange win pos (if i == index then cap else 0) = q at h hno hres
        obtain ⟨p, res, rng', vf, vt, d⟩ := q
        simp only at h hno hres
        have : (res != Res.ok) = true := by simpa using hno
        simp only [this, if_true] at h
        rcases hres with hres | hres
        · exact hno hres
        · rw [hres] at h; cases h
      | some en =>
        obtain ⟨e, n⟩ := en
        obtain ⟨hcr, hn0, hnle⟩ := channelRange_spec (if i == index then cap else 0) hne
        rw [hcr] at h
        have hok : (Res.ok != Res.ok) = false := by decide
        simp only [hok, Bool.false_eq_true, if_false] at h
        simp only [List.nil_append, List.drop_drop]
        by_cases hidx : i = index
        · exfalso
          subst hidx
          have hne' : (i != i) = false := by simp
          simp only [hne', Bool.false_eq_true, if_false] at h
          cases h
        · have hne' : (i != index) = true := by simp [hidx]
          simp only [hne', if_true] at h
          by_cases hcomma : (win.drop (pos + n)).head? = some 44
          · rw [lexComma_cons hcomma] at h
            have h10 : ((1 : Int) == 0) = false := by decide
            simp only [h10, Bool.false_eq_true, if_false] at h
            have hnemp : (win.drop (pos + n)).isEmpty = false := by
              cases hw : win.drop (pos + n) with
              | nil => rw [hw] at hcomma; cases hcomma
              | cons b t => rfl
            have hc' : ((win.drop (pos + n)).head? == some 44) = true := by simp [hcomma]
            simp only [hnemp, Bool.false_eq_true, if_false, hc', if_true]
            obtain ⟨es, hes⟩ := ih (i + 1) (pos + n + 1) _ _ fuel h (by
              simp only [List.length_drop] at hf hnle ⊢; omega)
            rw [chanList_acc, hes]
            exact ⟨_, rfl⟩
          · rw [lexComma_fail hcomma] at h
            simp only [BEq.rfl, if_true] at h
            by_cases heos : iseos win (pos + n) = true
            · rw [iseos_eq] at heos
              have hnil : win.drop (pos + n) = [] := by
                have : (win.drop (pos + n)).length = 0 := by simpa using heos
                exact List.eq_nil_of_length_eq_zero this
              simp only [hnil, List.isEmpty_nil, if_true]
              exact ⟨_, rfl⟩
            · exfalso
              simp only [heos, Bool.false_eq_true, if_false] at h
              cases h

/-! ## the property -/

theorem channel_no_more_wf (body : Bytes) (i cap : Nat) (h : (channelListEntry body i cap).res = .noMore) :
    ∃ l, parseChanList body = some l := by
  rw [channelListEntry_eq] at h
  by_cases h64 : hd body (· == 64) = true
  · simp only [h64, if_true] at h
    have hb := hd_eq_cons h64
    have hloop : (chanLoop body i cap (i + 2) 0 1 none none).2.1 = .noMore := by
      generalize chanLoop body i cap (i + 2) 0 1 none none = r at h
      obtain ⟨p, res, rng, vf, vt, dims⟩ := r
      simp only at h ⊢
      cases res
      · have e1 : (Res.ok == Res.error) = false := by decide
        have e2 : (Res.ok == Res.noMore) = false := by decide
        simp only [e1, e2, Bool.false_eq_true, if_false] at h
        cases h
      · have e1 : (Res.error == Res.error) = true := by decide
        simp only [e1, if_true] at h
        cases h
      · rfl
    obtain ⟨es, hes⟩ := chanLoop_noMore_inv body i cap (i + 2) 0 1 none none ((body.drop 1).length + 1) hloop (Nat.le_refl _)
    refine ⟨es, ?_⟩
    rw [hb]
    unfold parseChanList
    simpa using hes
  · exfalso
    simp only [h64, Bool.false_eq_true, if_false] at h
    cases h

theorem channel_malformed_never_no_more (body : Bytes) (i cap : Nat) (h : parseChanList body = none) :
    (channelListEntry body i cap).res ≠ .noMore := by
  intro hres
  obtain ⟨l, hl⟩ := channel_no_more_wf body i cap hres
  rw [h] at hl; cases hl

/-- exact judge clause: NO_MORE ⇔ the body is a well-formed channel list with at most `i` entries -/
theorem channel_no_more_iff (body : Bytes) (i cap : Nat) :
    (channelListEntry body i cap).res = .noMore ↔ ∃ l, parseChanList body = some l ∧ l.length ≤ i := by
  constructor
  · intro h
    obtain ⟨l, hl⟩ := channel_no_more_wf body i cap h
    refine ⟨l, hl, ?_⟩
    have he := channel_entry body l hl i cap
    simp only at he
    cases hli : l[i]? with
    | none => exact List.getElem?_eq_none_iff.1 hli
    | some e =>
      rw [hli] at he
      rw [he.1] at h; cases h
  · rintro ⟨l, hl, hlen⟩
    have he := channel_entry body l hl i cap
    simp only at he
    rw [List.getElem?_eq_none_iff.2 hlen] at he
    exact he.1

end ScpiVerif.Lemmas.ExprList
