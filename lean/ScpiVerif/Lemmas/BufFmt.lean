/-
Helper lemmas for C15 (nothing is written past the caller's buffer), about the model in
Model/BufFmt.lean.

Structure:
  * `Clean b n`      an `n`-byte object, no store outside it and no read of unwritten memory so far;
  * `store_spec`, `storeAll_spec`   cell-by-cell description of stores that stay inside the object;
  * `strlen_spec`, `strnlen_spec`   the scan stops at the first NUL (or the bound) without flagging;
  * `Holds b n s`    the object holds the NUL-free text `s` followed by a NUL, `|s| < n`;
                     under it `strlen` returns `|s|` and `cstring` returns `s`;
  * `snprintf_holds`, `strncat_holds` (given room), `strncpy_spec`, `copy_holds` (strncpy then NUL);
  * the generated tables contain no NUL (`decide +kernel` over the tables);
  * `doubleToStr_bounded`, `dtostreCopy_bounded`, `numberToStr_bounded` as used by Props/C15.lean.
-/
import ScpiVerif.Model.BufFmt
namespace ScpiVerif.Lemmas.BufFmt
open ScpiVerif ScpiVerif.Lexer ScpiVerif.BufFmt

/-! ### stores -/

theorem store_in (b : Buf) (i : Nat) (v : UInt8) (h : i < b.len) :
    b.store i v = { b with cells := b.cells.set i (some v) } := by
  simp [Buf.store, h]

theorem foldl_store (at_ : Nat) (d : Bytes) : ∀ (k : Nat) (b : Buf), b.cells.length = b.len →
    at_ + k + d.length ≤ b.len →
    ∃ cells', (d.zipIdx k).foldl (fun b (x : UInt8 × Nat) => b.store (at_ + x.2) x.1) b =
        { b with cells := cells' } ∧ cells'.length = b.len ∧
      ∀ j, cells'[j]? = if at_ + k ≤ j ∧ j < at_ + k + d.length then some (d[j - (at_ + k)]?)
        else b.cells[j]? := by
  induction d with
  | nil =>
    intro k b hs _
    refine ⟨b.cells, rfl, hs, fun j => ?_⟩
    have : ¬ (at_ + k ≤ j ∧ j < at_ + k + ([] : Bytes).length) := by simp
    rw [if_neg this]
  | cons x d ih =>
    intro k b hs h
    simp only [List.length_cons] at h
    rw [List.zipIdx_cons, List.foldl_cons]
    simp only
    rw [store_in b (at_ + k) x (by omega)]
    obtain ⟨cells', e, hl, hc⟩ := ih (k+1) { b with cells := b.cells.set (at_ + k) (some x) }
      (by simp [hs]) (by simp; omega)
    dsimp only at e hl hc
    refine ⟨cells', e, hl, fun j => ?_⟩
    rw [hc j]
    simp only [List.length_cons]
    by_cases h1 : at_ + (k + 1) ≤ j ∧ j < at_ + (k + 1) + d.length
    · have h2 : at_ + k ≤ j ∧ j < at_ + k + (d.length + 1) := by omega
      have e2 : j - (at_ + k) = (j - (at_ + (k + 1))) + 1 := by omega
      rw [if_pos h1, if_pos h2, e2, List.getElem?_cons_succ]
    · rw [if_neg h1]
      by_cases h3 : j = at_ + k
      · have h2 : at_ + k ≤ j ∧ j < at_ + k + (d.length + 1) := by omega
        rw [if_pos h2, h3, Nat.sub_self]
        rw [List.getElem?_set_self (by omega)]; rfl
      · have h2 : ¬ (at_ + k ≤ j ∧ j < at_ + k + (d.length + 1)) := by omega
        rw [if_neg h2]
        rw [List.getElem?_set_ne (Ne.symm h3)]

/-- a buffer object of `n` bytes on which nothing went wrong so far -/
structure Clean (b : Buf) (n : Nat) : Prop where
  len_eq : b.len = n
  size : b.cells.length = n
  oob : b.oob = false
  uninit : b.uninit = false

theorem fresh_clean (n : Nat) : Clean (Buf.fresh n) n :=
  ⟨rfl, by simp [Buf.fresh], rfl, rfl⟩

theorem store_spec {b : Buf} {n : Nat} (hc : Clean b n) (i : Nat) (v : UInt8) (h : i < n) :
    Clean (b.store i v) n ∧
      ∀ j, (b.store i v).cells[j]? = if j = i then some (some v) else b.cells[j]? := by
  rw [store_in b i v (by rw [hc.len_eq]; exact h)]
  refine ⟨⟨hc.len_eq, by simp [hc.size], hc.oob, hc.uninit⟩, fun j => ?_⟩
  dsimp only
  by_cases hj : j = i
  · rw [if_pos hj, hj, List.getElem?_set_self (by rw [hc.size]; exact h)]
  · rw [if_neg hj, List.getElem?_set_ne (Ne.symm hj)]

theorem storeAll_spec {b : Buf} {n : Nat} (hc : Clean b n) (at_ : Nat) (d : Bytes)
    (h : at_ + d.length ≤ n) :
    Clean (b.storeAll at_ d) n ∧
      ∀ j, (b.storeAll at_ d).cells[j]? =
        if at_ ≤ j ∧ j < at_ + d.length then some (d[j - at_]?) else b.cells[j]? := by
  obtain ⟨cells', e, hl, hcj⟩ := foldl_store at_ d 0 b (by rw [hc.size, hc.len_eq])
    (by rw [hc.len_eq]; omega)
  have e' : b.storeAll at_ d = { b with cells := cells' } := e
  rw [e']
  refine ⟨⟨hc.len_eq, by rw [← hc.len_eq]; exact hl, hc.oob, hc.uninit⟩, fun j => ?_⟩
  have := hcj j
  simp only [Nat.add_zero] at this
  exact this

/-! ### strlen, strnlen -/

theorem strlen_go_spec (b : Buf) (r : Nat)
    (hpre : ∀ j, j < r → ∃ v, b.cells[j]? = some (some v) ∧ v ≠ 0)
    (hend : b.cells[r]? = some (some 0)) :
    ∀ f i, i ≤ r → r < i + f → Buf.strlen.go b f i = (b, r) := by
  intro f
  induction f with
  | zero => intro i h1 h2; omega
  | succ f ih =>
    intro i h1 h2
    rw [Buf.strlen.go]
    by_cases hi : i = r
    · subst hi; rw [hend]; simp
    · obtain ⟨v, hv, hv0⟩ := hpre i (by omega)
      rw [hv]
      simp only [beq_iff_eq, hv0, if_false]
      exact ih (i+1) (by omega) (by omega)

theorem strlen_spec (b : Buf) (r : Nat) (hs : b.cells.length = b.len)
    (hpre : ∀ j, j < r → ∃ v, b.cells[j]? = some (some v) ∧ v ≠ 0)
    (hend : b.cells[r]? = some (some 0)) : b.strlen = (b, r) := by
  have hr : r < b.cells.length := by
    rcases Nat.lt_or_ge r b.cells.length with h | h
    · exact h
    · rw [List.getElem?_eq_none h] at hend; cases hend
  exact strlen_go_spec b r hpre hend (b.len + 1) 0 (by omega) (by omega)

theorem strnlen_go_spec (b : Buf) (n r : Nat)
    (hpre : ∀ j, j < r → ∃ v, b.cells[j]? = some (some v) ∧ v ≠ 0)
    (hend : r = n ∨ b.cells[r]? = some (some 0)) :
    ∀ f i, i ≤ r → r < i + f → r ≤ n → Buf.strnlen.go b n f i = (b, r) := by
  intro f
  induction f with
  | zero => intro i h1 h2; omega
  | succ f ih =>
    intro i h1 h2 h3
    rw [Buf.strnlen.go]
    by_cases hn : i ≥ n
    · rw [if_pos hn]; congr 1; omega
    · rw [if_neg hn]
      by_cases hi : i = r
      · subst hi
        rcases hend with h | h
        · omega
        · rw [h]; simp
      · obtain ⟨v, hv, hv0⟩ := hpre i (by omega)
        rw [hv]
        simp only [beq_iff_eq, hv0, if_false]
        exact ih (i+1) (by omega) (by omega) h3

theorem strnlen_spec (b : Buf) (n r : Nat) (hr : r ≤ n)
    (hpre : ∀ j, j < r → ∃ v, b.cells[j]? = some (some v) ∧ v ≠ 0)
    (hend : r = n ∨ b.cells[r]? = some (some 0)) : b.strnlen n = (b, r) :=
  strnlen_go_spec b n r hpre hend (n + 1) 0 (by omega) (by omega) hr

/-! ### NUL-free texts -/

theorem nz_of_all {s : Bytes} (h : s.all (· ≠ 0) = true) : ∀ x ∈ s, x ≠ 0 := by
  intro x hx
  have := List.all_eq_true.1 h x hx
  simpa using this

theorem takeWhile_self {s : Bytes} (h : ∀ x ∈ s, x ≠ 0) : s.takeWhile (· ≠ 0) = s := by
  induction s with
  | nil => rfl
  | cons a s ih =>
    have ha : a ≠ 0 := h a (by simp)
    rw [List.takeWhile_cons_of_pos (by simpa using ha), ih (fun x hx => h x (by simp [hx]))]

theorem nz_take {s : Bytes} (h : ∀ x ∈ s, x ≠ 0) (k : Nat) : ∀ x ∈ s.take k, x ≠ 0 :=
  fun x hx => h x (List.mem_of_mem_take hx)

/-- a list that agrees with `s` on its first |s| places and then has a NUL: the C string is `s` -/
theorem takeWhile_of_get (s : Bytes) : ∀ (l : Bytes), (∀ j, j < s.length → l[j]? = s[j]?) →
    (∀ x ∈ s, x ≠ 0) → l[s.length]? = some 0 → l.takeWhile (· ≠ 0) = s := by
  induction s with
  | nil =>
    intro l _ _ h0
    cases l with
    | nil => rfl
    | cons a t =>
      have : a = 0 := by simpa using h0
      subst this; rfl
  | cons a s ih =>
    intro l h1 h2 h0
    cases l with
    | nil => have := h1 0 (by simp); simp at this
    | cons c t =>
      have hc : c = a := by have := h1 0 (by simp); simpa using this
      subst hc
      have ha : c ≠ 0 := h2 c (by simp)
      rw [List.takeWhile_cons_of_pos (by simpa using ha)]
      congr 1
      refine ih t (fun j hj => ?_) (fun x hx => h2 x (by simp [hx])) ?_
      · have := h1 (j+1) (by simp; omega)
        simpa using this
      · simpa using h0

/-! ### the buffer holds the C string `s` -/

structure Holds (b : Buf) (n : Nat) (s : Bytes) : Prop where
  clean : Clean b n
  lt : s.length < n
  nz : ∀ x ∈ s, x ≠ 0
  pre : ∀ j, j < s.length → b.cells[j]? = some (s[j]?)
  nul : b.cells[s.length]? = some (some 0)

theorem Holds.pre' {b : Buf} {n : Nat} {s : Bytes} (H : Holds b n s) (j : Nat) (hj : j < s.length) :
    ∃ v, b.cells[j]? = some (some v) ∧ v ≠ 0 := by
  refine ⟨s[j], ?_, H.nz _ (List.getElem_mem hj)⟩
  rw [H.pre j hj, List.getElem?_eq_getElem hj]

theorem Holds.strlen {b : Buf} {n : Nat} {s : Bytes} (H : Holds b n s) : b.strlen = (b, s.length) :=
  strlen_spec b s.length (by rw [H.clean.size, H.clean.len_eq]) H.pre' H.nul

theorem Holds.cstring {b : Buf} {n : Nat} {s : Bytes} (H : Holds b n s) : b.cstring = some s := by
  have hn : (b.cells.map (fun c => c.getD 170))[s.length]? = some 0 := by
    rw [List.getElem?_map, H.nul]; rfl
  have hmem : (b.cells.map (fun c => c.getD 170)).contains 0 = true :=
    List.contains_iff_mem.2 (List.mem_of_getElem? hn)
  unfold Buf.cstring
  simp only [hmem, if_true]
  congr 1
  refine takeWhile_of_get s _ (fun j hj => ?_) H.nz hn
  rw [List.getElem?_map, H.pre j hj, List.getElem?_eq_getElem hj]; rfl

/-! ### snprintf, strncat, strncpy -/

theorem snprintf_holds {b : Buf} {n : Nat} (hc : Clean b n) (hn : 0 < n) (text : Bytes)
    (ht : ∀ x ∈ text, x ≠ 0) : Holds (snprintf b n text) n (text.take (n - 1)) := by
  have hlen : (text.take (n - 1)).length = min text.length (n - 1) := by
    rw [List.length_take, Nat.min_comm]
  have hn0 : (n == 0) = false := by simp; omega
  unfold snprintf
  rw [hn0]
  simp only [Bool.false_eq_true, if_false]
  rw [← hlen]
  obtain ⟨c1, g1⟩ := storeAll_spec hc 0 (text.take (n - 1)) (by omega)
  obtain ⟨c2, g2⟩ := store_spec c1 (text.take (n - 1)).length 0 (by omega)
  refine ⟨c2, by omega, nz_take ht _, fun j hj => ?_, ?_⟩
  · rw [g2, if_neg (by omega), g1, if_pos (by omega), Nat.sub_zero]
  · rw [g2, if_pos rfl]

theorem strncat_holds {b : Buf} {n : Nat} {s : Bytes} (H : Holds b n s) (src : Bytes) (k : Nat)
    (hsrc : ∀ x ∈ src, x ≠ 0) (hroom : s.length + (src.take k).length < n) :
    Holds (strncat b src k) n (s ++ src.take k) := by
  unfold strncat
  rw [H.strlen]
  simp only [takeWhile_self hsrc]
  obtain ⟨c1, g1⟩ := storeAll_spec H.clean s.length (src.take k) (by omega)
  obtain ⟨c2, g2⟩ := store_spec c1 (s.length + (src.take k).length) 0 hroom
  refine ⟨c2, by rw [List.length_append]; exact hroom, ?_, fun j hj => ?_, ?_⟩
  · intro x hx
    rcases List.mem_append.1 hx with h | h
    · exact H.nz x h
    · exact nz_take hsrc k x h
  · rw [List.length_append] at hj
    rw [g2, if_neg (by omega), g1]
    by_cases h1 : j < s.length
    · rw [if_neg (by omega), H.pre j h1, List.getElem?_append_left h1]
    · rw [if_pos (by omega), List.getElem?_append_right (by omega)]
  · rw [List.length_append, g2, if_pos rfl]

theorem padded_get (text : Bytes) (k j : Nat) (hj : j < k) :
    (text.take k ++ List.replicate (k - text.length) 0)[j]? =
      if j < text.length then text[j]? else some 0 := by
  by_cases h : j < text.length
  · rw [if_pos h, List.getElem?_append_left (by rw [List.length_take]; omega),
      List.getElem?_take_of_lt hj]
  · rw [if_neg h, List.getElem?_append_right (by rw [List.length_take]; omega),
      List.getElem?_replicate, if_pos (by rw [List.length_take]; omega)]

theorem strncpy_spec {b : Buf} {n : Nat} (hc : Clean b n) (src : Bytes) (k : Nat) (hk : k ≤ n)
    (hsrc : ∀ x ∈ src, x ≠ 0) :
    Clean (strncpy b src k) n ∧
      ∀ j, (strncpy b src k).cells[j]? =
        if j < k then some (if j < src.length then src[j]? else some 0) else b.cells[j]? := by
  unfold strncpy
  simp only [takeWhile_self hsrc]
  have hl : (src.take k ++ List.replicate (k - src.length) 0).length = k := by
    rw [List.length_append, List.length_take, List.length_replicate]; omega
  obtain ⟨c1, g1⟩ := storeAll_spec hc 0 (src.take k ++ List.replicate (k - src.length) 0)
    (by omega)
  refine ⟨c1, fun j => ?_⟩
  rw [g1, hl, Nat.zero_add, Nat.sub_zero]
  by_cases hj : j < k
  · rw [if_pos ⟨Nat.zero_le _, hj⟩, if_pos hj, padded_get src k j hj]
  · rw [if_neg (by omega), if_neg hj]

/-- strncpy of `n` bytes into an `n`-byte object followed by a NUL at `n-1` or at the length of the
copied prefix: the object holds the leading `n-1` characters -/
theorem copy_holds {b : Buf} {n : Nat} (hc : Clean b n) (hn : 0 < n) (text : Bytes)
    (ht : ∀ x ∈ text, x ≠ 0) (i : Nat) (hi : i = n - 1 ∨ i = (text.take (n - 1)).length) :
    Holds ((strncpy b text n).store i 0) n (text.take (n - 1)) := by
  have hlen : (text.take (n - 1)).length = min (n - 1) text.length := List.length_take
  obtain ⟨c1, g1⟩ := strncpy_spec hc text n (Nat.le_refl _) ht
  obtain ⟨c2, g2⟩ := store_spec c1 i 0 (by omega)
  refine ⟨c2, by omega, nz_take ht _, fun j hj => ?_, ?_⟩
  · rw [g2, if_neg (by omega), g1, if_pos (by omega), if_pos (by omega),
      List.getElem?_take_of_lt (by omega)]
  · rw [g2]
    by_cases h : (text.take (n - 1)).length = i
    · rw [if_pos h]
    · rw [if_neg h, g1, if_pos (by omega), if_neg (by omega)]

/-! ### the generated tables -/

theorem table_names_are_c_strings :
    (∀ u ∈ Gen.unitsDef, u.1.toUTF8.toList.all (· ≠ 0) = true) ∧
    (∀ p ∈ Gen.specialNumbersDef, p.1.toUTF8.toList.all (· ≠ 0) = true) := by
  constructor <;> decide +kernel

theorem unitName_nz {unit : Nat} {u : Bytes} (h : unitName unit = some u) : ∀ x ∈ u, x ≠ 0 := by
  unfold unitName at h
  rcases hf : Gen.unitsDef.find? (fun u => u.2.1 == unit ∧ u.2.2.1 == 1 ∧ u.2.2.2 == 1) with _ | row
  · rw [hf] at h; cases h
  · rw [hf] at h
    simp only [Option.map_some, Option.some.injEq] at h
    rw [← h]
    exact nz_of_all (table_names_are_c_strings.1 row (List.mem_of_find?_eq_some hf))

theorem specialName_nz {tag : Int} {name : Bytes} (h : specialName tag = some name) :
    ∀ x ∈ name, x ≠ 0 := by
  unfold specialName at h
  rcases hf : Gen.specialNumbersDef.find? (fun p => p.2 == tag) with _ | row
  · rw [hf] at h; cases h
  · rw [hf] at h
    simp only [Option.map_some, Option.some.injEq] at h
    rw [← h]
    exact nz_of_all (table_names_are_c_strings.2 row (List.mem_of_find?_eq_some hf))

/-! ### SCPI_DoubleToStr -/

theorem doubleToStr_holds {b : Buf} {n : Nat} (hc : Clean b n) (hn : 0 < n) (text : Bytes)
    (ht : ∀ x ∈ text, x ≠ 0) :
    ∃ b', doubleToStr b n text = (b', (text.take (n - 1)).length) ∧
      Holds b' n (text.take (n - 1)) := by
  have H := snprintf_holds hc hn text ht
  have hn0 : (n == 0) = false := by simp; omega
  refine ⟨snprintf b n text, ?_, H⟩
  unfold doubleToStr
  rw [hn0]
  simp only [Bool.false_eq_true, if_false]
  exact H.strlen

theorem take_length_take (l : Bytes) (k : Nat) : l.take (l.take k).length = l.take k := by
  rw [List.length_take, ← List.take_take, List.take_length]

theorem doubleToStr_bounded (len : Nat) (text : Bytes) (ht : text.all (· ≠ 0) = true) :
    let (b, r) := doubleToStr (Buf.fresh len) len text
    b.oob = false ∧ b.uninit = false ∧ b.len = len ∧ r = min text.length (len - 1) ∧
    (len > 0 → b.cstring = some (text.take (len - 1))) ∧ (len = 0 → b = Buf.fresh 0) := by
  by_cases hl : len = 0
  · subst hl
    have e : doubleToStr (Buf.fresh 0) 0 text = (Buf.fresh 0, 0) := rfl
    rw [e]
    exact ⟨rfl, rfl, rfl, by simp, fun h => absurd h (by decide), fun _ => rfl⟩
  · obtain ⟨b', e, H⟩ := doubleToStr_holds (fresh_clean len) (by omega) text (nz_of_all ht)
    rw [e]
    exact ⟨H.clean.oob, H.clean.uninit, H.clean.len_eq, by rw [List.length_take, Nat.min_comm],
      fun _ => H.cstring, fun h => absurd h hl⟩

/-! ### the final copy of SCPI_dtostre -/

theorem dtostreCopy_bounded (ssize : Nat) (text : Bytes) (ht : text.all (· ≠ 0) = true) :
    let b := dtostreCopy (Buf.fresh ssize) ssize text
    b.oob = false ∧ b.uninit = false ∧ (ssize > 0 → b.cstring = some (text.take (ssize - 1))) ∧
      (ssize = 0 → b = Buf.fresh 0) := by
  by_cases hl : ssize = 0
  · subst hl
    exact ⟨rfl, rfl, fun h => absurd h (by decide), fun _ => rfl⟩
  · have hn0 : (ssize == 0) = false := by simp; omega
    have H := copy_holds (fresh_clean ssize) (by omega) text (nz_of_all ht) (ssize - 1) (Or.inl rfl)
    have e : dtostreCopy (Buf.fresh ssize) ssize text =
        (strncpy (Buf.fresh ssize) text ssize).store (ssize - 1) 0 := by
      unfold dtostreCopy; rw [hn0]; rfl
    simp only [e]
    exact ⟨H.clean.oob, H.clean.uninit, fun _ => H.cstring, fun h => absurd h hl⟩

/-! ### SCPI_NumberToStr -/

/-- the complete text: the special name, or "<number> <unit>" / "<number>" -/
def fullText (special : Bool) (tag : Int) (numText : Bytes) (unit : Nat) : Bytes :=
  if special then (specialName tag).getD [] else
    (match unitName unit with | some u => numText ++ [32] ++ u | none => numText)

theorem numberToStr_special_none (len : Nat) (hl : 0 < len) :
    Holds ((Buf.fresh len).store 0 0) len [] := by
  obtain ⟨c, g⟩ := store_spec (fresh_clean len) 0 0 hl
  exact ⟨c, hl, by simp, fun j hj => absurd hj (by simp), by rw [g]; rfl⟩

theorem numberToStr_special_some (len : Nat) (hl : 0 < len) (name : Bytes)
    (hn : ∀ x ∈ name, x ≠ 0) :
    (strncpy (Buf.fresh len) name len).strnlen (len - 1) =
        (strncpy (Buf.fresh len) name len, (name.take (len - 1)).length) ∧
      Holds ((strncpy (Buf.fresh len) name len).store (name.take (len - 1)).length 0) len
        (name.take (len - 1)) := by
  refine ⟨?_, copy_holds (fresh_clean len) hl name hn _ (Or.inr rfl)⟩
  obtain ⟨c1, g1⟩ := strncpy_spec (fresh_clean len) name len (Nat.le_refl _) hn
  have hlen : (name.take (len - 1)).length = min (len - 1) name.length := List.length_take
  refine strnlen_spec _ _ _ (by omega) (fun j hj => ?_) ?_
  · refine ⟨name[j]'(by omega), ?_, hn _ (List.getElem_mem _)⟩
    rw [g1, if_pos (by omega), if_pos (by omega), List.getElem?_eq_getElem (by omega)]
  · by_cases h : (name.take (len - 1)).length = len - 1
    · exact Or.inl h
    · refine Or.inr ?_
      rw [g1, if_pos (by omega), if_neg (by omega)]

theorem numberToStr_holds (len : Nat) (hl : 0 < len) (special : Bool) (tag : Int) (numText : Bytes)
    (unit : Nat) (ht : ∀ x ∈ numText, x ≠ 0) :
    ∃ b s, numberToStr (Buf.fresh len) len special tag numText unit = (b, s.length) ∧
      Holds b len s ∧ s = (fullText special tag numText unit).take s.length := by
  have hn0 : (len == 0) = false := by simp; omega
  unfold numberToStr fullText
  rw [hn0]
  simp only [Bool.false_eq_true, if_false]
  cases special with
  | true =>
    simp only [if_true]
    cases hsn : specialName tag with
    | none =>
      exact ⟨_, [], rfl, numberToStr_special_none len hl, rfl⟩
    | some name =>
      obtain ⟨e, H⟩ := numberToStr_special_some len hl name (specialName_nz hsn)
      refine ⟨_, name.take (len - 1), ?_, H, ?_⟩
      · simp only [e]
      · simp only [Option.getD_some]; exact (take_length_take name (len - 1)).symm
  | false =>
    simp only [Bool.false_eq_true, if_false]
    obtain ⟨b1, e, H1⟩ := doubleToStr_holds (fresh_clean len) hl numText ht
    have hlen : (numText.take (len - 1)).length = min (len - 1) numText.length := List.length_take
    rw [e]
    simp only
    by_cases hroom : (numText.take (len - 1)).length + 1 < len
    · rw [if_pos hroom]
      cases hun : unitName unit with
      | none =>
        exact ⟨b1, _, rfl, H1, (take_length_take numText (len - 1)).symm⟩
      | some u =>
        have hu := unitName_nz hun
        have htn : numText.take (len - 1) = numText := List.take_of_length_le (by omega)
        rw [htn] at H1 hroom ⊢
        have hsp : ([32] : Bytes).take (len - numText.length) = [32] :=
          List.take_of_length_le (by simp; omega)
        have H2 := strncat_holds H1 [32] (len - numText.length) (by simp)
          (by rw [hsp]; simpa using hroom)
        rw [hsp] at H2
        have hk : (u.take (len - numText.length - 2)).length ≤ len - numText.length - 2 := by
          rw [List.length_take]; omega
        have H3 : Holds (if numText.length + 2 < len
              then strncat (strncat b1 [32] (len - numText.length)) u (len - numText.length - 2)
              else strncat b1 [32] (len - numText.length)) len
            (numText ++ [32] ++ u.take (len - numText.length - 2)) := by
          by_cases h2 : numText.length + 2 < len
          · rw [if_pos h2]
            exact strncat_holds H2 u _ hu (by simp; omega)
          · rw [if_neg h2]
            have : len - numText.length - 2 = 0 := by omega
            rw [this, List.take_zero, List.append_nil]; exact H2
        refine ⟨_, _, H3.strlen, H3, ?_⟩
        rw [List.length_append (as := numText ++ [32]), List.take_length_add_append,
          take_length_take]
    · rw [if_neg hroom]
      refine ⟨b1, _, rfl, H1, ?_⟩
      cases hun : unitName unit with
      | none => exact (take_length_take numText (len - 1)).symm
      | some u =>
        simp only
        rw [List.take_append_of_le_length (by simp [List.length_append]; omega),
          List.take_append_of_le_length (by omega), take_length_take]

theorem numberToStr_bounded (len : Nat) (special : Bool) (tag : Int) (numText : Bytes) (unit : Nat)
    (ht : numText.all (· ≠ 0) = true) :
    let (b, r) := numberToStr (Buf.fresh len) len special tag numText unit
    let full : Bytes := if special then (specialName tag).getD [] else
      (match unitName unit with | some u => numText ++ [32] ++ u | none => numText)
    b.oob = false ∧ b.uninit = false ∧
    (len = 0 → r = 0 ∧ b = Buf.fresh 0) ∧
    (len > 0 → ∃ s, b.cstring = some s ∧ r = s.length ∧ s.length < len ∧ s = full.take s.length) := by
  by_cases hl : len = 0
  · subst hl
    have e : numberToStr (Buf.fresh 0) 0 special tag numText unit = (Buf.fresh 0, 0) := rfl
    rw [e]
    exact ⟨rfl, rfl, fun _ => ⟨rfl, rfl⟩, fun h => absurd h (by decide)⟩
  · obtain ⟨b, s, e, H, hs⟩ :=
      numberToStr_holds len (by omega) special tag numText unit (nz_of_all ht)
    rw [e]
    exact ⟨H.clean.oob, H.clean.uninit, fun h => absurd h hl,
      fun _ => ⟨s, H.cstring, rfl, H.lt, hs⟩⟩

end ScpiVerif.Lemmas.BufFmt
