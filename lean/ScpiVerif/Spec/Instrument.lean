/-
Vocabulary of the whole-instrument theorems (Props/Instrument.lean): the invariant of every reachable
instrument state, "table entry `cmd` — bound to handler `b` of the library — is being executed", and
"the unit answered with this item".
-/
import ScpiVerif.Model.Ctx

namespace ScpiVerif.Props.Instrument
open ScpiVerif ScpiVerif.Ctx ScpiVerif.Lexer

/-- the status side counts what the queue holds: SCPI_ErrorCount is the fifo's count, the capacity is its size -/
def QSync (r : Regs.St) (q : Fifo.EQ) : Prop := Fifo.Inv q.fifo ∧ r.qn = q.fifo.count ∧ r.cap = q.fifo.size

/-- registers well formed and coherent (C11: the five equivalences of the status byte), queue ring invariant,
queue count and capacity in step with the status side -/
def StatusOK (r : Regs.St) (q : Fifo.EQ) : Prop := Regs.WF r ∧ Regs.Coherent r ∧ QSync r q

/-- the unit loop of SCPI_Parse has matched table entry `cmd`, whose script is exactly the library's handler `b`, and calls
`processCommand`; `noData`: no program data is left for the handler to leave unread (for a handler that reads nothing:
the unit has no program data) -/
structure Bound (c : Ctx) (cmd : Cmd) (b : Builtin) : Prop where
  cur : c.cur = some cmd
  script : cmd.script = [.builtin b]
  noData : ¬ c.ppos < c.pbase + c.plen

/-- the separator before the first result item of this unit: nothing if no earlier unit of the message has
responded, ';' otherwise -/
def unitSep (c : Ctx) : Bytes := if c.out.firstOutput then [] else [59]

/-- the unit wrote exactly `unitSep ++ item` -/
def Answered (c c' : Ctx) (item : Bytes) : Prop := c'.out.written = c.out.written ++ unitSep c ++ item

/-- the program data of the unit about to be processed is exactly the digit string `ds` (no white space, nothing else),
the parameter cursor stands at its start as the unit loop leaves it, and the byte behind it in the input buffer — the
message terminator, a ';', the NUL SCPI_Input appends — is not a further digit (strtol reads on from the token's start) -/
structure DigitsData (c : Ctx) (ds : Bytes) : Prop where
  nonempty : ds ≠ []
  digits : ds.all ScpiVerif.Lexer.isDigit = true
  atStart : c.ppos = c.pbase
  len : c.plen = ds.length
  window : (c.buf.drop c.pbase).take c.plen = ds
  inBuf : c.pbase + c.plen ≤ c.buf.length
  next : ∀ b, (c.buf.drop (c.pbase + c.plen)).head? = some b → ¬ (48 ≤ b ∧ b ≤ 57)

/-- the register a query of the library reads -/
def queryReg : Builtin → Option Nat
  | .eseQ => some Regs.ESE | .esrQ => some Regs.ESR | .sreQ => some Regs.SRE | .stbQ => some Regs.STB
  | .quesCondQ => some Regs.QUESC | .quesEvenQ => some Regs.QUES | .quesEnabQ => some Regs.QUESE
  | .operCondQ => some Regs.OPERC | .operEvenQ => some Regs.OPER | .operEnabQ => some Regs.OPERE
  | _ => none

/-- the enable register a command of the library writes, and the query that reads it back -/
def enableReg : Builtin → Option (Nat × Builtin)
  | .ese => some (Regs.ESE, .eseQ) | .sre => some (Regs.SRE, .sreQ)
  | .quesEnab => some (Regs.QUESE, .quesEnabQ) | .operEnab => some (Regs.OPERE, .operEnabQ)
  | _ => none

end ScpiVerif.Props.Instrument
