/-
Specification of parameter delivery (C05): the items of a program data list, and what each typed
reader must report for the next item — in the property's own terms (error codes by situation),
independent of parser.c's control flow.
-/
import ScpiVerif.Spec.Unit
import ScpiVerif.Spec.Pattern
import ScpiVerif.Gen.Tables

namespace ScpiVerif.Spec.Params
open ScpiVerif.Lexer (Bytes TokType)
open ScpiVerif.Spec

structure Item where
  type : TokType
  off : Nat          -- offset of the token text in the data
  len : Nat          -- length of the token text (whole literal, quotes / suffix included; payload for blocks and #H/#Q/#B)
deriving Repr, DecidableEq

/-- the items of a well-formed data list (`none` if it is not well formed) -/
def dataItems : Nat → Bytes → Nat → List Item → Option (List Item)
  | 0, _, _, acc => some acc.reverse
  | fuel+1, s, off, acc =>
    let w0 := wsLen (s.drop off)
    match specData (s.drop (off + w0)) with
    | .item n t po pl =>
      let p := off + w0 + n
      let w1 := wsLen (s.drop p)
      let acc := ⟨t, off + w0 + po, pl⟩ :: acc
      if (s.drop (p + w1)).head? == some 44 then dataItems fuel s (p + w1 + 1) acc
      else if p + w1 == s.length then some acc.reverse else none
    | _ => if acc.isEmpty ∧ off + w0 == s.length then some [] else none

def itemsOf (data : Bytes) : Option (List Item) := dataItems (data.length + 1) data 0 []

inductive Reader where
  | int (w : Nat) (signed : Bool)
  | float (dbl : Bool)
  | bool
  | choice (opts : List (Bytes × Int))
  | number
  | chars
  | block
  | text
deriving Repr, DecidableEq

/-- what a reader reports: success, or failure with the error it must queue (`none` = nothing queued,
allowed only for an absent optional parameter) -/
inductive Outcome where
  | ok
  | fail (err : Option Int)
deriving Repr, DecidableEq

def isNumeric (t : TokType) : Bool := t == .decimal || t == .hexnum || t == .octnum || t == .binnum

def nameMatches (name : Bytes) (s : Bytes) : Bool :=
  -- short or long form, case-insensitive
  let short := name.takeWhile (fun b => !ScpiVerif.Lexer.isLower b)
  Pattern.ciEq s name || Pattern.ciEq s short

def unitKnown (s : Bytes) : Bool := Gen.unitsDef.any (fun u => Pattern.ciEq s u.1.toUTF8.toList)

/-- the suffix part of a decimal-with-suffix literal: after the number and optional blanks -/
def suffixOf (lit : Bytes) : Bytes :=
  match specToken .decimal lit with
  | some e => (lit.drop e.consumed).dropWhile ScpiVerif.Lexer.isWs
  | none => []

/-- the property's table: missing mandatory -109; absent optional: nothing, reports absence;
wrong data type -104; suffix where none is allowed -138; unknown suffix -131; unknown choice -224 -/
def expect (r : Reader) (mand : Bool) (item : Option (TokType × Bytes)) : Outcome :=
  match item with
  | none => if mand then .fail (some (-109)) else .fail none
  | some (t, txt) =>
    match r with
    | .int _ _ =>
      -- a decimal literal without integer digits (".5") denotes no integer: wrong data type
      if t == .decimal ∧ !(ScpiVerif.Lexer.isDigit ((match txt with | 45 :: r => r | 43 :: r => r | _ => txt).headD 0)) then .fail (some (-104))
      else if isNumeric t then .ok else if t == .decimalWithSuffix then .fail (some (-138)) else .fail (some (-104))
    | .float _ =>
      if isNumeric t then .ok else if t == .decimalWithSuffix then .fail (some (-138)) else .fail (some (-104))
    | .bool =>
      if t == .decimal then .ok
      else if t == .programMnemonic then
        (if nameMatches "ON".toUTF8.toList txt ∨ nameMatches "OFF".toUTF8.toList txt then .ok else .fail (some (-224)))
      else .fail (some (-104))
    | .choice opts =>
      if t == .programMnemonic then (if opts.any (fun o => nameMatches o.1 txt) then .ok else .fail (some (-224)))
      else .fail (some (-104))
    | .number =>
      if isNumeric t then .ok
      else if t == .decimalWithSuffix then (if unitKnown (suffixOf txt) then .ok else .fail (some (-131)))
      else if t == .programMnemonic then
        (if Gen.specialNumbersDef.any (fun o => nameMatches o.1.toUTF8.toList txt) then .ok else .fail (some (-224)))
      else .fail (some (-104))
    | .chars => .ok
    | .block => if t == .block then .ok else .fail (some (-104))
    | .text => if t == .singleQuote ∨ t == .doubleQuote then .ok else .fail (some (-104))

end ScpiVerif.Spec.Params

namespace ScpiVerif.Spec.Params
open ScpiVerif.Lexer (Bytes TokType)
open ScpiVerif.Spec

/-- (offset, length) of the program data of the unit at the start of `s` (after header and white space) -/
def dataRegion (s : Bytes) : Nat × Nat :=
  let w0 := wsLen s
  let hl := match specToken .header (s.drop w0) with | some e => e.consumed | none => 0
  let p1 := w0 + hl
  let w1 := wsLen (s.drop p1)
  if w1 = 0 then (p1, 0)
  else match specList (s.length + 1) s (p1 + w1) 0 with
    | .ok c _ => (p1 + w1, c - (p1 + w1))
    | .bad c => (p1 + w1, c - (p1 + w1))

/-- exact value of an integer literal: optional sign and digits only -/
def intLiteral (txt : Bytes) : Option Int :=
  let (neg, ds) := match txt with | 45 :: r => (true, r) | 43 :: r => (false, r) | _ => (false, txt)
  if ds.isEmpty ∨ !(ds.all ScpiVerif.Lexer.isDigit) then none
  else
    let v : Int := ds.foldl (fun a b => a * 10 + (b.toNat - 48)) 0
    some (if neg then -v else v)

/-- value of the digits of a #H / #Q / #B literal -/
def nondecimalValue (t : TokType) (digits : Bytes) : Nat :=
  let base := if t == .hexnum then 16 else if t == .octnum then 8 else 2
  digits.foldl (fun a b =>
    let d := if 48 ≤ b ∧ b ≤ 57 then b.toNat - 48 else if 97 ≤ b ∧ b ≤ 102 then b.toNat - 87 else if 65 ≤ b ∧ b ≤ 70 then b.toNat - 55 else 0
    a * base + d) 0

end ScpiVerif.Spec.Params
