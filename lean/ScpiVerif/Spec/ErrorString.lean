/-
Specification of the error query response (C18):  <code>,"<description>[;<text>]"  with every double
quote inside the string doubled, the quoted content at most 255 characters and cut as late as that
limit allows.
-/
import ScpiVerif.Spec.Message

namespace ScpiVerif.Spec.ErrorString
open ScpiVerif.Lexer (Bytes)

def escape (d : Bytes) : Bytes := d.flatMap (fun b => if b == 34 then [34, 34] else [b])

/-- longest prefix of `full` whose escaped form has at most `limit` characters -/
def cut (full : Bytes) (limit : Nat) : Bytes :=
  let rec go : List UInt8 → Nat → Bytes → Bytes
    | [], _, acc => acc.reverse
    | b :: rest, room, acc =>
      let cost := if b == 34 then 2 else 1
      if cost ≤ room then go rest (room - cost) (b :: acc) else acc.reverse
  go full limit []

def signedDecimal (code : Int) : Bytes :=
  (if code < 0 then [45] else []) ++ Message.decimal code.natAbs

/-- the response: `text = none` when the error carries no device-dependent text -/
def response (code : Int) (desc : Bytes) (text : Option Bytes) (limit : Nat := 255) : Bytes :=
  let full := desc ++ (match text with | some t => [59] ++ t | none => [])
  signedDecimal code ++ [44, 34] ++ escape (cut full limit) ++ [34]

end ScpiVerif.Spec.ErrorString
