/-
Specification of program data items and of a well-formed program message unit, written over the
token specification (Spec/Tokens.lean), independent of parser.c's control flow.
-/
import ScpiVerif.Spec.Tokens

namespace ScpiVerif.Spec
open ScpiVerif.Lexer (Bytes TokType)

def wsLen (s : Bytes) : Nat := ((specToken .ws s).map (·.consumed)).getD 0

inductive DataSpec where
  | item (consumed : Nat) (type : TokType) (payloadOff payloadLen : Nat)   -- one <PROGRAM DATA> element
  | swallow                 -- a definite-length block whose bytes have not all arrived: takes the rest
  | none
deriving Repr, DecidableEq

/-- one program data element at the start of `s` (no surrounding white space).  The alternatives
are told apart by their first character(s). -/
def specData (s : Bytes) : DataSpec :=
  let tok := fun (k : Kind) => match specToken k s with
    | some e => DataSpec.item e.consumed e.type e.payloadOff e.payloadLen
    | none => DataSpec.none
  match tok .nondecimal with
  | .item a b c d => .item a b c d
  | _ =>
  match tok .chr with
  | .item a b c d => .item a b c d
  | _ =>
  match specToken .decimal s with
  | some e =>
    -- optional suffix, after optional white space; the token then covers number, blank and suffix
    let w := wsLen (s.drop e.consumed)
    match specToken .suffix (s.drop (e.consumed + w)) with
    | some sf => .item (e.consumed + w + sf.consumed) .decimalWithSuffix 0 (e.consumed + w + sf.consumed)
    | none => .item e.consumed .decimal 0 e.consumed
  | none =>
  match tok .string with
  | .item a b c d => .item a b c d
  | _ =>
  match specBlock s with
  | .valid h n => .item (h + n) .block h n
  | .incomplete => .swallow
  | .invalid => tok .expression

inductive ListSpec where
  | ok (consumed : Nat) (count : Nat)       -- `count` items (0 = no data at all), `consumed` bytes incl. inner/trailing blanks
  | bad (consumed : Nat)                    -- a separator without a following element, or a swallowed block
deriving Repr, DecidableEq

/-- comma separated data with the white space 488.2 allows around the separators.
fuel bounds the number of items (each consumes at least one byte). -/
def specList : Nat → Bytes → Nat → Nat → ListSpec
  | 0, _, off, cnt => .ok off cnt
  | fuel+1, s, off, cnt =>
    let w0 := wsLen (s.drop off)
    match specData (s.drop (off + w0)) with
    | .item n _ _ _ =>
      let p := off + w0 + n
      let w1 := wsLen (s.drop p)
      if (s.drop (p + w1)).head? == some 44 then specList fuel s (p + w1 + 1) (cnt + 1)
      else .ok (p + w1) (cnt + 1)
    | .swallow => .bad s.length
    | .none => if cnt == 0 then .ok (off + w0) 0 else .bad (off + w0)

inductive TermSpec where | none | nl | semicolon
deriving Repr, DecidableEq

structure UnitSpec where
  consumed : Nat
  term : TermSpec
  wellFormed : Bool          -- header (possibly empty or incomplete) + data list + terminator/end
  headerOff : Nat
  headerLen : Nat
  headerType : TokType
  nParams : Int              -- -1: data list ends in a separator / swallowed block
deriving Repr, DecidableEq

def specUnit (s : Bytes) : UnitSpec :=
  let w0 := wsLen s
  let (hl, ht) := match specToken .header (s.drop w0) with
    | some e => (e.consumed, e.type)
    | none => (0, TokType.unknown)
  let p1 := w0 + hl
  let w1 := wsLen (s.drop p1)
  let (p2, n) : Nat × Int :=
    if w1 > 0 then
      match specList (s.length + 1) s (p1 + w1) 0 with
      | .ok c k => (c, k)
      | .bad c => (c, -1)
    else (p1, 0)
  let rest := s.drop p2
  match specToken .nl rest with
  | some e => ⟨p2 + e.consumed, .nl, true, w0, hl, ht, n⟩
  | none =>
    if rest.head? == some 59 then ⟨p2 + 1, .semicolon, true, w0, hl, ht, n⟩
    else if rest.isEmpty then ⟨p2, .none, true, w0, hl, ht, n⟩
    else ⟨p2 + 1, .none, false, w0, 1, .invalid, n⟩      -- a character that cannot continue the unit

end ScpiVerif.Spec
