/-
IEEE 754 binary interchange formats: the correctly rounded (round-to-nearest, ties-to-even) encoding
of a non-negative rational, and the value denoted by a decimal numeric literal.  This is the
specification side of "decodes to the correctly rounded value of that literal" (C04) and is also
used by the driver to turn the text the model hands to strtod/strtof into the bit pattern the
C library must produce (glibc's strtod/strtof are correctly rounded — trusted base).
-/
import ScpiVerif.Model.Lexer

namespace ScpiVerif.Spec.Float
open ScpiVerif.Lexer (Bytes isDigit isWs)

/-- bit pattern (without sign) of num/den rounded to a format with `p` significand bits (hidden bit
included) and `w` exponent bits -/
def roundRat (num den : Nat) (p w : Nat) : Nat :=
  if num = 0 ∨ den = 0 then 0 else
  let bias := 2^(w-1) - 1
  let emin : Int := 1 - (bias : Int)
  let emax : Int := bias
  -- e with 2^e ≤ num/den < 2^(e+1)
  let e0 : Int := (num.log2 : Int) - (den.log2 : Int)
  let ge := fun (e : Int) => if e ≥ 0 then num ≥ den * 2^e.toNat else num * 2^(-e).toNat ≥ den
  let e : Int := if ge e0 then (if ge (e0 + 1) then e0 + 1 else e0) else e0 - 1
  let q : Int := (if e < emin then emin else e) - ((p : Int) - 1)       -- exponent of the last place
  let (n, d) : Nat × Nat := if q ≥ 0 then (num, den * 2^q.toNat) else (num * 2^(-q).toNat, den)
  let m := n / d
  let r := n % d
  let m := if 2 * r > d ∨ (2 * r = d ∧ m % 2 = 1) then m + 1 else m
  -- m < 2^(p-1): subnormal;  m = 2^p: carried into the next binade
  let (m, e) : Nat × Int := if m = 2^p then (2^(p-1), (if e < emin then emin else e) + 1) else (m, if e < emin then emin else e)
  if m < 2^(p-1) then m                                                     -- subnormal (or zero)
  else if e > emax then (2^w - 1) * 2^(p-1)                                 -- infinity
  else ((e + bias).toNat) * 2^(p-1) + (m - 2^(p-1))

def doubleBits (neg : Bool) (num den : Nat) : Nat := (if neg then 2^63 else 0) + roundRat num den 53 11
def floatBits (neg : Bool) (num den : Nat) : Nat := (if neg then 2^31 else 0) + roundRat num den 24 8

/-- value of a decimal literal `sign? digits? (. digits?)? (ws* E ws* sign? digits)?` with the
white space 488.2 allows before the exponent and after its 'E'; (negative, numerator, denominator).
`none` when the text is not such a literal (no digit in the mantissa, trailing garbage). -/
def litValue (s : Bytes) : Option (Bool × Nat × Nat) :=
  let (neg, s) := match s with | 45 :: r => (true, r) | 43 :: r => (false, r) | _ => (false, s)
  let ip := s.takeWhile isDigit
  let s := s.drop ip.length
  let (fp, s) := match s with | 46 :: r => (r.takeWhile isDigit, r.drop (r.takeWhile isDigit).length) | _ => ([], s)
  if ip.isEmpty ∧ fp.isEmpty then none else
  let mant := (ip ++ fp).foldl (fun a b => a * 10 + (b.toNat - 48)) 0
  let s' := s.dropWhile isWs
  let (ex, rest) : Int × Bytes :=
    match s' with
    | c :: r =>
      if c == 101 ∨ c == 69 then
        let r := r.dropWhile isWs
        let (eneg, r) := match r with | 45 :: t => (true, t) | 43 :: t => (false, t) | _ => (false, r)
        let ds := r.takeWhile isDigit
        if ds.isEmpty then (0, s) else
          let v : Int := ds.foldl (fun a b => a * 10 + (b.toNat - 48)) 0
          (if eneg then -v else v, r.drop ds.length)
      else (0, s)
    | [] => (0, s)
  if !rest.isEmpty then none else
  let e10 : Int := ex - fp.length
  -- clamp astronomically large exponents: beyond these the result is 0 or infinity anyway
  let e10 : Int := if e10 > 400 + 1100 then 1500 else if e10 < -1500 - (ip.length + fp.length : Nat) then -1500 - (ip.length + fp.length : Nat) else e10
  if e10 ≥ 0 then some (neg, mant * 10^e10.toNat, 1) else some (neg, mant, 10^(-e10).toNat)

end ScpiVerif.Spec.Float
