/-
Message-level specifications, independent of parser.c's control flow:
 * units of a message (from Spec/Unit.lean), effective headers and dispatch (C02),
 * response framing (C06) with an independent encoder of every result item (also C17's block and
   array encoding, C18's error string is in Spec/ErrorString.lean).
-/
import ScpiVerif.Spec.Unit
import ScpiVerif.Spec.Pattern
import ScpiVerif.Model.IntFmt
import ScpiVerif.Gen.Tables

namespace ScpiVerif.Spec.Message
open ScpiVerif.Lexer (Bytes TokType)
open ScpiVerif.Spec

structure UnitInfo where
  start : Nat                -- offset of the unit in the message
  consumed : Nat
  wellFormed : Bool
  header : Bytes             -- header as written ([] for an empty unit)
  headerType : TokType
  nParams : Int
deriving Repr, DecidableEq

/-- the units of a message, in order -/
def units : Nat → Bytes → Nat → List UnitInfo
  | 0, _, _ => []
  | fuel+1, msg, off =>
    let s := msg.drop off
    let u := specUnit s
    let info : UnitInfo := ⟨off, u.consumed, u.wellFormed, (s.drop u.headerOff).take (if u.wellFormed then u.headerLen else 0),
                            u.headerType, u.nParams⟩
    if u.consumed = 0 ∨ off + u.consumed ≥ msg.length then [info] else info :: units fuel msg (off + u.consumed)

def unitsOf (msg : Bytes) : List UnitInfo := units (msg.length + 1) msg 0

/-- path of a header: everything up to and including its last colon -/
def pathOf (h : Bytes) : Bytes :=
  let n := ((List.range h.length).reverse.find? (fun i => h.getD i 0 == 58)).map (· + 1) |>.getD 0
  h.take n

/-- effective header of a unit given the effective header of the preceding unit that had one -/
def effective (prev : Option Bytes) (hdr : Bytes) : Bytes :=
  match prev with
  | none => hdr
  | some p =>
    if hdr.head? == some 58 ∨ hdr.head? == some 42 then hdr
    else if p.head? == some 42 then hdr
    else pathOf p ++ hdr

/-- first table entry (index) whose pattern accepts the header -/
def dispatch (patterns : List Pattern.Pat) (hdr : Bytes) : Option Nat :=
  (List.range patterns.length).find? (fun i => match patterns[i]? with
    | some p => !(Pattern.accepts p hdr).isEmpty
    | none => false)

inductive Expect where
  | run (entry : Nat) (effHdr : Bytes)      -- handler of table entry `entry` invoked with this effective header
  | undefined (effHdr : Bytes)              -- no handler, one -113
deriving Repr, DecidableEq

/-- what each unit with a header must do, in message order -/
def expectDispatch (patterns : List Pattern.Pat) (us : List UnitInfo) : List Expect :=
  let rec go : List UnitInfo → Option Bytes → List Expect → List Expect
    | [], _, acc => acc.reverse
    | u :: rest, prev, acc =>
      if u.header.isEmpty then go rest prev acc
      else
        let eff := effective prev u.header
        match dispatch patterns eff with
        | some i => go rest (some eff) (.run i eff :: acc)
        | none => go rest (some eff) (.undefined eff :: acc)
  go us none []

/-! ### result items and framing -/

def bytesOf (s : String) : Bytes := s.toUTF8.toList
def decimal (n : Nat) : Bytes := (IntFmt.specDigits 10 n).map (fun c => UInt8.ofNat c.toNat)

/-- definite-length block: '#', number of length digits, decimal length, data -/
def encodeBlock (d : Bytes) : Bytes :=
  let l := decimal d.length
  [35, UInt8.ofNat (48 + l.length)] ++ l ++ d

def quote (d : Bytes) : Bytes := [34] ++ d.flatMap (fun b => if b == 34 then [34, 34] else [b]) ++ [34]

def intText (w : Nat) (val : Nat) (base : Int) (signed : Bool) : Bytes :=
  let pre := if base = 2 then bytesOf "#B" else if base = 8 then bytesOf "#Q" else if base = 16 then bytesOf "#H" else []
  pre ++ (IntFmt.canon w val base signed).map (fun c => UInt8.ofNat c.toNat)

/-- response of a message: units that responded (non-empty item lists) separated by ';', items by ',',
one line terminator iff something responded -/
def frame (respUnits : List (List Bytes)) : Bytes :=
  let resp := respUnits.filter (fun u => !u.isEmpty)
  if resp.isEmpty then []
  else
    let sep := fun (s : UInt8) (l : List Bytes) => match l with
      | [] => []
      | x :: xs => xs.foldl (fun acc y => acc ++ [s] ++ y) x
    sep 59 (resp.map (sep 44)) ++ bytesOf Gen.LINE_ENDING

end ScpiVerif.Spec.Message
