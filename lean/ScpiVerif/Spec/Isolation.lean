/-
Vocabulary of C09 (isolation of messages and units): when two contexts agree on everything that is
meant to persist, and what one call makes observable.
-/
import ScpiVerif.Model.Ctx

namespace ScpiVerif.Props.C09
open ScpiVerif ScpiVerif.Ctx ScpiVerif.Lexer

def SameQueue (q1 q2 : Fifo.EQ) : Prop :=
  Fifo.Inv q1.fifo ∧ Fifo.Inv q2.fifo ∧ q1.fifo.size = q2.fifo.size ∧ Fifo.EQ.abs q1 = Fifo.EQ.abs q2

/-- same register file and queue bookkeeping (the callback logs kept in the model for other properties are history, not state) -/
def SameRegs (r1 r2 : Regs.St) : Prop := r1.regs = r2.regs ∧ r1.qn = r2.qn ∧ r1.cap = r2.cap

def Rel (c1 c2 : Ctx) : Prop :=
  c1.cmds = c2.cmds ∧ c1.choices = c2.choices ∧ c1.withInfo = c2.withInfo ∧
  c1.bufLen = c2.bufLen ∧ c1.buf.length = c1.bufLen ∧ c2.buf.length = c2.bufLen ∧
  c1.position = c2.position ∧ c1.position < c1.bufLen ∧ c1.buf.take c1.position = c2.buf.take c2.position ∧
  SameRegs c1.regs c2.regs ∧ SameQueue c1.eq c2.eq

/-- what one call makes observable: new events (handler invocations with effective headers, every
parameter delivered, every error queued, the message parsed, the call's return value), new output
bytes, new flushes -/
def newObs (c c' : Ctx) : List Ev × Bytes × Nat :=
  (c'.events.drop c.events.length, c'.out.written.drop c.out.written.length, c'.out.flushes - c.out.flushes)

end ScpiVerif.Props.C09
