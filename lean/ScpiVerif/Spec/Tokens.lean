/-
Specification of the IEEE 488.2 section 7 token syntax, independent of the recognisers:
token languages as regular expressions over bytes (matched with Brzozowski derivatives), the
definite-length block and the "not followed by the same quote" rule for strings stated directly.
`longest re s` is the length of the longest prefix of `s` in the language of `re`.

Leniencies the source documents (DESIGN.md section 9/C13): white space = space / tab; relaxed
suffix syntax; definite-length blocks only; flat expressions; INCOMPLETE header tokens for a lone
'*' and a dangling ':'; terminator = CR? LF | CR.
-/
import ScpiVerif.Model.Lexer

namespace ScpiVerif.Spec
open ScpiVerif.Lexer (Bytes TokType isWs isDigit isAlpha isAlnum isXDigit isQDigit isBDigit isPlusMn isE isAscii7 isProgramExpression)

inductive Re where
  | empty                     -- empty language
  | eps
  | chr (p : UInt8 → Bool)
  | seq (a b : Re)
  | alt (a b : Re)
  | star (a : Re)

namespace Re
def nullable : Re → Bool
  | empty => false | eps => true | chr _ => false
  | seq a b => a.nullable && b.nullable
  | alt a b => a.nullable || b.nullable
  | star _ => true

def deriv (c : UInt8) : Re → Re
  | empty => empty | eps => empty
  | chr p => if p c then eps else empty
  | seq a b => if a.nullable then alt (seq (a.deriv c) b) (b.deriv c) else seq (a.deriv c) b
  | alt a b => alt (a.deriv c) (b.deriv c)
  | star a => seq (a.deriv c) (star a)

/-- cheap emptiness test used to stop early (sound: `isNone r = true → L(r) = ∅`) -/
def isNone : Re → Bool
  | empty => true | eps => false | chr _ => false
  | seq a b => a.isNone || b.isNone
  | alt a b => a.isNone && b.isNone
  | star _ => false

def opt (a : Re) : Re := alt eps a
def plus (a : Re) : Re := seq a (star a)
def c (b : UInt8) : Re := chr (· == b)

/-- whole-string membership -/
def accepts (r : Re) : Bytes → Bool
  | [] => r.nullable
  | b :: bs => (r.deriv b).accepts bs

/-- length of the longest prefix of `s` in L(r); `best` = longest found so far, `n` = consumed -/
def longestAux : Re → Bytes → Nat → Option Nat → Option Nat
  | r, [], n, best => if r.nullable then some n else best
  | r, b :: bs, n, best =>
    let best := if r.nullable then some n else best
    if r.isNone then best else longestAux (r.deriv b) bs (n + 1) best

def longest (r : Re) (s : Bytes) : Option Nat := longestAux r s 0 Option.none
end Re

open Re

/-! ### token languages -/
def mnemonic : Re := seq (chr isAlpha) (star (chr (fun b => isAlnum b || b == 95)))
def wsRe : Re := plus (chr isWs)
def digits : Re := plus (chr isDigit)

/-- complete program header: common `*m?` or compound `:?m(:m)*?` -/
def headerComplete : Re :=
  alt (seq (c 42) (seq mnemonic (opt (c 63))))
      (seq (opt (c 58)) (seq mnemonic (seq (star (seq (c 58) mnemonic)) (opt (c 63)))))
/-- incomplete header: a lone `*`, or a compound header path ending in a dangling `:` -/
def headerIncompleteCommon : Re := c 42
def headerIncompleteCompound : Re :=
  alt (c 58) (seq (opt (c 58)) (seq mnemonic (seq (star (seq (c 58) mnemonic)) (c 58))))

/-- NRf: sign? (d+ (. d*)? | . d+) (ws* E ws* sign? d+)? -/
def mantissa : Re :=
  seq (opt (chr isPlusMn)) (alt (seq digits (opt (seq (c 46) (star (chr isDigit))))) (seq (c 46) digits))
def exponent : Re := seq (star (chr isWs)) (seq (chr isE) (seq (star (chr isWs)) (seq (opt (chr isPlusMn)) digits)))
def decimal : Re := seq mantissa (opt exponent)

/-- relaxed suffix: /? (a+ -? d? ([/.] a* -? d?)*)?  and not empty -/
def suffixTail : Re := seq (opt (c 45)) (opt (chr isDigit))
def suffix : Re :=
  seq (opt (c 47)) (opt (seq (plus (chr isAlpha)) (seq suffixTail (star (seq (chr (fun b => b == 47 || b == 46)) (seq (star (chr isAlpha)) suffixTail))))))

def hexnum : Re := seq (c 35) (seq (chr (fun b => b == 104 || b == 72)) (plus (chr isXDigit)))
def octnum : Re := seq (c 35) (seq (chr (fun b => b == 113 || b == 81)) (plus (chr isQDigit)))
def binnum : Re := seq (c 35) (seq (chr (fun b => b == 98 || b == 66)) (plus (chr isBDigit)))

def quoted (q : UInt8) : Re :=
  seq (c q) (seq (star (alt (chr (fun b => isAscii7 b && b != q)) (seq (c q) (c q)))) (c q))

def expression : Re := seq (c 40) (seq (star (chr isProgramExpression)) (c 41))
def newline : Re := alt (seq (c 13) (c 10)) (alt (c 10) (c 13))

/-- longest prefix in `quoted q` that is NOT followed by another `q` (a quote followed by the same
quote is always an embedded quote) -/
def longestString (q : UInt8) (s : Bytes) : Option Nat :=
  let cands := (List.range (s.length + 1)).filter (fun n => (quoted q).accepts (s.take n) && s[n]? != some q)
  cands.getLast?

/-- definite-length block: '#', a non-zero digit k, k digits giving n, n bytes.
`some (headerLen, n)` when the whole block is present; `incomplete` when the input ends inside it. -/
inductive BlockSpec where
  | valid (headerLen dataLen : Nat)
  | incomplete
  | invalid
deriving Repr, DecidableEq

def natOfDigits (ds : Bytes) : Nat := ds.foldl (fun a b => a * 10 + (b.toNat - 48)) 0

def specBlock (s : Bytes) : BlockSpec :=
  match s with
  | 35 :: rest =>
    match rest with
    | [] => .incomplete
    | d :: rest2 =>
      if isDigit d && d != 48 then
        let k := d.toNat - 48
        let ds := rest2.take k
        if ds.all isDigit then
          if ds.length = k then
            let n := natOfDigits ds
            if rest2.length - k ≥ n then .valid (2 + k) n else .incomplete
          else .incomplete                      -- input ends inside the length digits
        else
          -- a non-digit inside the length field: invalid, unless the input ended first
          .invalid
      else .invalid
  | _ => .invalid

inductive Kind where
  | ws | header | chr | decimal | suffix | nondecimal | string | block | expression
  | comma | semicolon | colon | nl | specific (ch : UInt8)
deriving Repr, DecidableEq

/-- what a recogniser must do at the start of `s`: (bytes consumed, token type, payload offset, payload length)
or nothing.  For the incomplete block the documented behaviour is to swallow the rest and report nothing. -/
structure Expect where
  consumed : Nat
  type : TokType
  payloadOff : Nat
  payloadLen : Nat
deriving Repr, DecidableEq

def single (s : Bytes) (ch : UInt8) (ty : TokType) : Option Expect :=
  if s.head? == some ch then some ⟨1, ty, 0, 1⟩ else none

def specToken (k : Kind) (s : Bytes) : Option Expect :=
  let plain := fun (r : Re) (ty : TokType) =>
    match r.longest s with
    | some n => if n > 0 then some (Expect.mk n ty 0 n) else none
    | none => none
  match k with
  | .ws => plain wsRe .ws
  | .chr => plain mnemonic .programMnemonic
  | .decimal => plain decimal .decimal
  | .suffix => plain suffix .suffix
  | .expression => plain expression .expression
  | .nl => plain newline .nl
  | .comma => single s 44 .comma
  | .semicolon => single s 59 .semicolon
  | .colon => single s 58 .colon
  | .specific ch => single s ch .specificCharacter
  | .nondecimal =>
    let pick := fun (r : Re) (ty : TokType) => match r.longest s with
      | some n => some (Expect.mk n ty 2 (n - 2))
      | none => none
    (pick hexnum .hexnum).orElse fun _ => (pick octnum .octnum).orElse fun _ => pick binnum .binnum
  | .string =>
    match longestString 34 s with
    | some n => some ⟨n, .doubleQuote, 0, n⟩
    | none => match longestString 39 s with
      | some n => some ⟨n, .singleQuote, 0, n⟩
      | none => none
  | .block =>
    match specBlock s with
    | .valid h n => some ⟨h + n, .block, h, n⟩
    | _ => none
  | .header =>
    -- the longest prefix that is a complete or an incomplete header; the two languages are disjoint
    let comp := headerComplete.longest s
    let incC := headerIncompleteCommon.longest s
    let incP := headerIncompleteCompound.longest s
    let best := [comp, incC, incP].filterMap id |>.foldl max 0
    if best = 0 then none
    else if comp == some best then
      let isCommon := s.head? == some 42
      let isQuery := s[best - 1]? == some 63
      some ⟨best, if isCommon then (if isQuery then .commonQueryHeader else .commonHeader)
                  else (if isQuery then .compoundQueryHeader else .compoundHeader), 0, best⟩
    else if incC == some best then some ⟨best, .incompleteCommonHeader, 0, best⟩
    else some ⟨best, .incompleteCompoundHeader, 0, best⟩

end ScpiVerif.Spec

namespace ScpiVerif.Spec
open ScpiVerif.Lexer (Bytes TokType Token)

/-- declarative meaning of a regular expression -/
inductive Matches : Re → Bytes → Prop where
  | eps : Matches .eps []
  | chr (p : UInt8 → Bool) (b : UInt8) : p b = true → Matches (.chr p) [b]
  | seq {a b : Re} {s t : Bytes} : Matches a s → Matches b t → Matches (.seq a b) (s ++ t)
  | altL {a b : Re} {s : Bytes} : Matches a s → Matches (.alt a b) s
  | altR {a b : Re} {s : Bytes} : Matches b s → Matches (.alt a b) s
  | starNil {a : Re} : Matches (.star a) []
  | starCons {a : Re} {s t : Bytes} : Matches a s → Matches (.star a) t → Matches (.star a) (s ++ t)

/-- `n` is the length of the longest prefix of `s` that is in the language `L` -/
def IsLongest (L : Bytes → Prop) (s : Bytes) (n : Nat) : Prop :=
  n ≤ s.length ∧ L (s.take n) ∧ ∀ m, n < m → m ≤ s.length → ¬ L (s.take m)

/-- What it means for a recogniser result `(new position, token, return value)` obtained at
position `pos` of `buf` to agree with the token specification of kind `k`:
* if the specification finds a token at `buf[pos..]`: exactly its bytes are consumed, the return
  value is their number, and type / extent / length describe it (payload for #H/#Q/#B and blocks);
* otherwise nothing is reported (return 0, type UNKNOWN, length 0) and the cursor is where it was —
  except for a definite-length block whose bytes have not all arrived, which swallows the input. -/
def Agrees (k : Kind) (buf : Bytes) (pos : Nat) (r : Nat × Token × Int) : Prop :=
  match specToken k (buf.drop pos) with
  | some e => r.1 = pos + e.consumed ∧ r.2.2 = e.consumed ∧ r.2.1 = ⟨e.type, pos + e.payloadOff, e.payloadLen⟩ ∧
              pos + e.consumed ≤ buf.length
  | none => r.2.2 = 0 ∧ r.2.1.type = .unknown ∧ r.2.1.len = 0 ∧
            r.1 = (if k = .block ∧ specBlock (buf.drop pos) = .incomplete then buf.length else pos)

end ScpiVerif.Spec
