/-
Vocabulary of C08 (behaviour depends on the byte stream, not on how it is cut into input calls):
what is compared, and the hypotheses on the stream under which the statement is proved.
The theorems about the vocabulary (`NoQuotes s → QuotesLineLocal s`, `quotesLineLocalB s = true ↔ QuotesLineLocal s`,
the `Decidable` instance) are in Lemmas/ChunkingQuote.lean.
-/
import ScpiVerif.Model.Ctx
import ScpiVerif.Spec.Tokens

namespace ScpiVerif.Props.C08
open ScpiVerif ScpiVerif.Ctx ScpiVerif.Lexer

/-- what the property compares: handler invocations with their parameters, errors, messages parsed (all in
`events`, without the per-call return-value markers), output bytes, flushes, registers, error queue,
and the unconsumed remainder -/
def Observable (c : Ctx) : List Ev × Bytes × Nat × List Regs.Reg × Fifo.SpecQ × Bytes :=
  (c.events.filter (fun e => match e with | .input _ => false | _ => true),
   c.out.written, c.out.flushes, c.regs.regs, Fifo.EQ.abs c.eq, c.buf.take c.position)

def NoQuotes (s : Bytes) : Prop := ∀ b ∈ s, b ≠ 34 ∧ b ≠ 39

/-- a blank or a comma: the byte directly in front of a program data element
(`<header> <blank> <data> , <data> …`), the only places where the library looks for a string -/
def isSep (b : UInt8) : Bool := isWs b || b == 44

/-- position `p` of `s` comes directly after a blank or a comma -/
def SepBefore (s : Bytes) (p : Nat) : Prop := 0 < p ∧ ∃ b, s[p - 1]? = some b ∧ isSep b = true

/-- no quoted string contains a line terminator: no word of the string language `"…"` / `'…'` of the token
specification (`Spec.quoted`: quote, then 7-bit characters other than the quote or doubled quotes, then the
quote) that occurs in `s` directly after a blank or a comma contains LF or CR.  Quote characters elsewhere
(in a header, directly behind other data) are not restricted, and an unterminated quote is allowed.
Implied by `NoQuotes`; decidable (`quotesLineLocalB`); `TXT "a;b",'c'<LF>` satisfies it, the stream of
`chunking_counterexample` (`TXT "a<LF>b"<LF>`) does not.

(Why not simply "every quote is followed by the same quote before the next line terminator": the last quote
of a line never is, so that predicate only holds of streams without quotes.  Why "after a blank or a comma"
and not a left-to-right pairing of quotes: the message scan of `SCPI_Input` resynchronises bytewise after an
invalid byte, so a quote character in a header position shifts what the scan takes for a string
(`A"B "x<LF>y" "<LF>` pairs up line by line, yet `"x<LF>y"` is a string token).) -/
def QuotesLineLocal (s : Bytes) : Prop :=
  ∀ p n q, (q = 34 ∨ q = 39) → SepBefore s p → (Spec.quoted q).accepts ((s.drop p).take n) = true →
    ∀ b ∈ (s.drop p).take n, b ≠ 10 ∧ b ≠ 13

def sepBeforeB (s : Bytes) (p : Nat) : Bool :=
  decide (0 < p) && (match s[p - 1]? with | some b => isSep b | none => false)

/-- `QuotesLineLocal` as a computation (`Lemmas.Chunking.quotesLineLocalB_iff`) -/
def quotesLineLocalB (s : Bytes) : Bool :=
  (List.range (s.length + 1)).all fun p => !sepBeforeB s p ||
    (List.range (s.length + 1)).all fun n => [34, 39].all fun q =>
      !(Spec.quoted q).accepts ((s.drop p).take n) || ((s.drop p).take n).all (fun b => b != 10 && b != 13)

/-- the stream never leaves more unterminated data pending than the input buffer holds -/
def Fits (c : Ctx) (n : Nat) : Prop := c.position + n + 1 ≤ c.bufLen

/-- no carriage return in the stream.  CR alone is a terminator and CR LF is one terminator, so a
chunk boundary between the CR and the LF of a CR LF turns one message `… CR LF` into the message
`… CR` followed by the empty message `LF` (`chunking_crlf_difference`): the same handlers run with
the same parameters, but the messages parsed (`parseMsg` events) differ. -/
def NoCR (s : Bytes) : Prop := ∀ b ∈ s, b ≠ 13

/-- what a user of the library can observe: `Observable` without the `parseMsg` events.  Those are a
verification hook (the message as it is handed to SCPI_Parse); a user sees handlers, parameters, errors,
output, flushes, registers, the error queue and the unconsumed remainder, not message boundaries. -/
def UserObservable (c : Ctx) : List Ev × Bytes × Nat × List Regs.Reg × Fifo.SpecQ × Bytes :=
  (c.events.filter (fun e => match e with | .input _ => false | .parseMsg _ => false | _ => true),
   c.out.written, c.out.flushes, c.regs.regs, Fifo.EQ.abs c.eq, c.buf.take c.position)

end ScpiVerif.Props.C08
