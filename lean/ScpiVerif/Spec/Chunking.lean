/-
Vocabulary of C08 (behaviour depends on the byte stream, not on how it is cut into input calls):
what is compared, and the hypotheses on the stream under which the statement is proved.
-/
import ScpiVerif.Model.Ctx

namespace ScpiVerif.Props.C08
open ScpiVerif ScpiVerif.Ctx ScpiVerif.Lexer

/-- what the property compares: handler invocations with their parameters, errors, messages parsed (all in
`events`, without the per-call return-value markers), output bytes, flushes, registers, error queue,
and the unconsumed remainder -/
def Observable (c : Ctx) : List Ev × Bytes × Nat × List Regs.Reg × Fifo.SpecQ × Bytes :=
  (c.events.filter (fun e => match e with | .input _ => false | _ => true),
   c.out.written, c.out.flushes, c.regs.regs, Fifo.EQ.abs c.eq, c.buf.take c.position)

def NoQuotes (s : Bytes) : Prop := ∀ b ∈ s, b ≠ 34 ∧ b ≠ 39

/-- the stream never leaves more unterminated data pending than the input buffer holds -/
def Fits (c : Ctx) (n : Nat) : Prop := c.position + n + 1 ≤ c.bufLen

/-- no carriage return in the stream.  CR alone is a terminator and CR LF is one terminator, so a
chunk boundary between the CR and the LF of a CR LF turns one message `… CR LF` into the message
`… CR` followed by the empty message `LF` (`chunking_crlf_difference`): the same handlers run with
the same parameters, but the messages parsed (`parseMsg` events) differ. -/
def NoCR (s : Bytes) : Prop := ∀ b ∈ s, b ≠ 13

/-- what a user of the library can observe: `Observable` without the `parseMsg` events.  Those are a
verification hook (the message as it is handed to SCPI_Parse); a user sees handlers, parameters, errors,
output, flushes, registers, the error queue and the unconsumed remainder, not message boundaries. -/
def UserObservable (c : Ctx) : List Ev × Bytes × Nat × List Regs.Reg × Fifo.SpecQ × Bytes :=
  (c.events.filter (fun e => match e with | .input _ => false | .parseMsg _ => false | _ => true),
   c.out.written, c.out.flushes, c.regs.regs, Fifo.EQ.abs c.eq, c.buf.take c.position)

end ScpiVerif.Props.C08
