/-
Specification of numeric lists `a,b:c,…` and channel lists `@a!b:c!d,…` (C19), over the decimal
token specification: a list is well formed when it is entries separated by single commas with no
other characters; a numeric entry is `num` or `num:num`, a channel entry `spec` or `spec:spec` with
`spec = num(!num)*` and equal dimension counts in a range.
-/
import ScpiVerif.Spec.Tokens

namespace ScpiVerif.Spec.ExprList
open ScpiVerif.Lexer (Bytes)
open ScpiVerif.Spec

/-- a decimal literal at the start of `s`: its length -/
def numLen (s : Bytes) : Option Nat := (specToken .decimal s).map (·.consumed)

structure NumEntry where
  from_ : Bytes
  to_ : Option Bytes
deriving Repr, DecidableEq

/-- one numeric entry at the start of `s`: (entry, bytes consumed) -/
def numEntry (s : Bytes) : Option (NumEntry × Nat) :=
  match numLen s with
  | none => none
  | some n =>
    if (s.drop n).head? == some 58 then
      match numLen (s.drop (n + 1)) with
      | some m => some (⟨s.take n, some ((s.drop (n + 1)).take m)⟩, n + 1 + m)
      | none => none
    else some (⟨s.take n, none⟩, n)

/-- the whole body as a numeric list -/
def numList : Nat → Bytes → List NumEntry → Option (List NumEntry)
  | 0, _, _ => none
  | fuel+1, s, acc =>
    match numEntry s with
    | none => none
    | some (e, n) =>
      let rest := s.drop n
      if rest.isEmpty then some (acc ++ [e])
      else if rest.head? == some 44 then numList fuel (rest.drop 1) (acc ++ [e])
      else none

def parseNumList (body : Bytes) : Option (List NumEntry) := numList (body.length + 1) body []

/-- channel spec `num(!num)*` at the start of `s`: (numbers, consumed) -/
def chanSpec : Nat → Bytes → List Bytes → Nat → Option (List Bytes × Nat)
  | 0, _, _, _ => none
  | fuel+1, s, acc, used =>
    match numLen s with
    | none => none
    | some n =>
      let acc := acc ++ [s.take n]
      if (s.drop n).head? == some 33 then chanSpec fuel (s.drop (n + 1)) acc (used + n + 1)
      else some (acc, used + n)

structure ChanEntry where
  from_ : List Bytes
  to_ : Option (List Bytes)
deriving Repr, DecidableEq

def chanEntry (s : Bytes) : Option (ChanEntry × Nat) :=
  match chanSpec (s.length + 1) s [] 0 with
  | none => none
  | some (f, n) =>
    if (s.drop n).head? == some 58 then
      match chanSpec (s.length + 1) (s.drop (n + 1)) [] 0 with
      | some (t, m) => if t.length == f.length then some (⟨f, some t⟩, n + 1 + m) else none
      | none => none
    else some (⟨f, none⟩, n)

def chanList : Nat → Bytes → List ChanEntry → Option (List ChanEntry)
  | 0, _, _ => none
  | fuel+1, s, acc =>
    match chanEntry s with
    | none => none
    | some (e, n) =>
      let rest := s.drop n
      if rest.isEmpty then some (acc ++ [e])
      else if rest.head? == some 44 then chanList fuel (rest.drop 1) (acc ++ [e])
      else none

/-- the whole body as a channel list: '@' then entries -/
def parseChanList (body : Bytes) : Option (List ChanEntry) :=
  match body with
  | 64 :: rest => chanList (rest.length + 1) rest []
  | _ => none

/-- entries 0..i of a body that may be malformed further on: the longest well-formed prefix of entries -/
def numPrefix : Nat → Bytes → List NumEntry → List NumEntry
  | 0, _, acc => acc
  | fuel+1, s, acc =>
    match numEntry s with
    | none => acc
    | some (e, n) =>
      let rest := s.drop n
      if rest.head? == some 44 then numPrefix fuel (rest.drop 1) (acc ++ [e]) else acc ++ [e]

end ScpiVerif.Spec.ExprList
