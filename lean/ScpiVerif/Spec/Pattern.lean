/-
Specification of command patterns (C03): the pattern grammar of the property, the language a
pattern accepts, and the well-formedness side condition.  Independent of matchCommand's walker.
-/
import ScpiVerif.Model.Lexer

namespace ScpiVerif.Spec.Pattern
open ScpiVerif.Lexer (Bytes isDigit isLower isUpper isAlpha)

structure Kw where
  short : Bytes        -- the part of the keyword before its first lower-case letter
  long : Bytes         -- the whole keyword
  optional : Bool
  numeric : Bool       -- written KEY#
deriving Repr, DecidableEq

structure Pat where
  common : Bool        -- a common command pattern "*XXX"
  query : Bool
  kws : List Kw
deriving Repr, DecidableEq

def lower (b : UInt8) : UInt8 := if isUpper b then b + 32 else b
def ciEq (a b : Bytes) : Bool := a.map lower == b.map lower

def isKwChar (b : UInt8) : Bool := isAlpha b || isDigit b || b == 95

/-- KEY or KEY# at the start of `s`: returns the keyword and the rest.
KEY := an upper-case letter followed by letters, digits, '_' (the part before the first lower-case
letter is the short form, hence never empty). -/
def parseKey (s : Bytes) (optional : Bool) : Option (Kw × Bytes) :=
  let name := s.takeWhile isKwChar
  let rest := s.drop name.length
  if name.isEmpty ∨ !(isUpper (name.headD 0)) then none
  else
    let short := name.takeWhile (fun b => !isLower b)
    let (numeric, rest) := if rest.head? == some 35 then (true, rest.drop 1) else (false, rest)
    some (⟨short, name, optional, numeric⟩, rest)

/-- items after the first: ':'KEY or '[:'KEY']' ; fuel = remaining length -/
def parseItems : Nat → Bytes → List Kw → Option (List Kw × Bytes)
  | 0, s, acc => some (acc.reverse, s)
  | fuel+1, s, acc =>
    match s with
    | 58 :: rest =>                                   -- ':'
      match parseKey rest false with
      | some (k, r) => parseItems fuel r (k :: acc)
      | none => none
    | 91 :: 58 :: rest =>                             -- "[:"
      match parseKey rest true with
      | some (k, 93 :: r) => parseItems fuel r (k :: acc)
      | _ => none
    | _ => some (acc.reverse, s)

/-- pattern := '*'MNEMONIC '?'?  |  (':'?KEY | '[:'KEY']') (':'KEY | '[:'KEY']')* '?'?
KEY := an upper-case letter followed by letters, digits, '_' (the part before the first lower-case
letter is the short form, hence never empty); common mnemonics contain no lower-case letter. -/
def parsePattern (p : Bytes) : Option Pat :=
  match p with
  | 42 :: rest =>
    let name := rest.takeWhile isKwChar
    let tail := rest.drop name.length
    if name.isEmpty then none
    else if name.any isLower then none      -- the short form of a common mnemonic is the mnemonic itself
    else if tail == [] then some ⟨true, false, [⟨42 :: name, 42 :: name, false, false⟩]⟩
    else if tail == [63] then some ⟨true, true, [⟨42 :: name, 42 :: name, false, false⟩]⟩
    else none
  | _ =>
    let first : Option (Kw × Bytes) :=
      match p with
      | 91 :: 58 :: rest => match parseKey rest true with
        | some (k, 93 :: r) => some (k, r)
        | _ => none
      | 58 :: rest => parseKey rest false
      | _ => parseKey p false
    match first with
    | none => none
    | some (k, r) =>
      match parseItems (r.length + 1) r [k] with
      | some (kws, []) => some ⟨false, false, kws⟩
      | some (kws, [63]) => some ⟨false, true, kws⟩
      | _ => none

/-- split a header at ':' -/
def splitColon (s : Bytes) : List Bytes :=
  let rec go : List UInt8 → Bytes → List Bytes → List Bytes
    | [], cur, acc => (cur.reverse :: acc).reverse
    | b :: bs, cur, acc => if b == 58 then go bs [] (cur.reverse :: acc) else go bs (b :: cur) acc
  go s [] []

def natOfDigits (ds : Bytes) : Nat := ds.foldl (fun a b => a * 10 + (b.toNat - 48)) 0

/-- does mnemonic `m` spell keyword `k`?  `some none`: yes, no numeric suffix; `some (some n)`: yes with suffix n -/
def kwMatch (k : Kw) (m : Bytes) : Option (Option Nat) :=
  let tryForm := fun (form : Bytes) =>
    if ciEq m form then some none
    else if k.numeric ∧ m.length > form.length ∧ ciEq (m.take form.length) form ∧ (m.drop form.length).all isDigit
    then some (some (natOfDigits (m.drop form.length)))
    else none
  match tryForm k.long with
  | some r => some r
  | none => tryForm k.short

/-- all ways to spell the keyword list with the mnemonics: every mandatory keyword and a subset of
the optional ones, in order.  A solution lists, per numeric keyword in pattern order, the suffix
(`none` = left out or keyword skipped). -/
def solutions : List Kw → List Bytes → List (List (Option Nat))
  | [], [] => [[]]
  | [], _ :: _ => []
  | k :: ks, ms =>
    let skip := if k.optional then (solutions ks ms).map (fun sol => if k.numeric then none :: sol else sol) else []
    let take := match ms with
      | [] => []
      | m :: ms' =>
        match kwMatch k m with
        | some n => (solutions ks ms').map (fun sol => if k.numeric then n :: sol else sol)
        | none => []
    take ++ skip

/-- the language of a pattern: `some sols` lists the readings of an accepted header -/
def accepts (pat : Pat) (hdr : Bytes) : List (List (Option Nat)) :=
  let (body, q) := if hdr.getLast? == some 63 then (hdr.dropLast, true) else (hdr, false)
  if q != pat.query then []
  else if pat.common then
    match pat.kws with
    | [k] => if ciEq body k.long then [[]] else []
    | _ => []
  else
    let body := if body.head? == some 58 then body.drop 1 else body
    if body.isEmpty then [] else solutions pat.kws (splitColon body)

/-- forms of two keywords can be confused: some mnemonic spells both -/
def confusable (a b : Kw) : Bool :=
  let forms := fun (k : Kw) => [k.short, k.long]
  (forms a).any (fun fa => (forms b).any (fun fb =>
    ciEq fa fb ||
    -- a numeric keyword also accepts its form followed by digits
    (a.numeric && fb.length > fa.length && ciEq (fb.take fa.length) fa && (fb.drop fa.length).all isDigit) ||
    (b.numeric && fa.length > fb.length && ciEq (fa.take fb.length) fb && (fa.drop fb.length).all isDigit)))

/-- keywords that may directly follow position i when keyword i is skipped: the following optional
ones up to and including the first mandatory one -/
def followers : List Kw → List Kw
  | [] => []
  | k :: ks => if k.optional then k :: followers ks else [k]

/-- the side condition of the property: no optional keyword can be mistaken for a keyword that may follow it -/
def wellFormed : List Kw → Bool
  | [] => true
  | k :: ks => (!k.optional || (followers ks).all (fun f => !confusable k f)) && wellFormed ks

end ScpiVerif.Spec.Pattern
