import ScpiVerif.Drv.Util
import ScpiVerif.Gen.Tables
import ScpiVerif.Model.IntFmt
namespace ScpiVerif.Drv
open ScpiVerif.IntFmt

def tblOf (w : Nat) : DivTable :=
  let t := if w == 32 then Gen.div32 else Gen.div64
  ⟨t.1, t.2.1, t.2.2.1, t.2.2.2⟩

def charsHex (cs : List Char) : String := hexOfBytes (cs.map (fun c => UInt8.ofNat c.toNat))

/-- I <w> <val> <signed> <base> <buflen> => <ret> <hex> <nul> <canary> -/
def runIntFmt (inp : List String) (obs : List String) : Option Verdict := do
  let [_, w, v, sg, b, l] := inp | none
  let w ← w.toNat?; let v ← v.toNat?; let sg ← sg.toNat?; let b ← parseInt b; let l ← l.toNat?
  -- the C prototype takes int8_t base: the harness passes the value through (int8_t)
  let (o, nul) := toStrBaseSign w (tblOf w) v l b (sg != 0)
  let nulS := if o.pos < l then (if nul then "1" else "0") else "-"
  let modelObs := s!"{o.pos} {charsHex o.chars} {nulS} 1"
  -- judge: the property in its own words, evaluated on what the implementation produced
  let c := canon w v b (sg != 0)
  let want := c.take l
  let wantNul := if want.length < l then "1" else "-"
  let rej : List String :=
    match obs with
    | [ret, hx, n, canary] =>
      (if ret.toNat? == some want.length then [] else ["C14.return_value"]) ++
      (if hx == charsHex want then [] else ["C14.canonical_digits"]) ++
      (if n == wantNul then [] else ["C14.nul_terminator"]) ++
      (if canary == "1" then [] else ["C14.write_beyond_buffer"])
    | _ => ["C14.malformed_observation"]
  let tags := [s!"w{w}", s!"base{effBase b}", if l < c.length then "truncated" else if l == c.length then "exact" else "fits",
               if c.head? == some '-' then "negative" else "nonneg"] ++ (if o.ub then ["model_ub"] else [])
  let rej := if o.ub then rej ++ ["C14.model_undefined_step"] else rej
  pure { modelObs, rejects := rej, nontrivial := v != 0, tags }

/-- IFULL <lo> <hi> => <evaluations> <mismatches> <first>: summary of the exhaustive C-side comparison of all
2^32 values with an independent formatter (thorough tier) -/
def runIntFull (inp : List String) (obs : List String) : Option Verdict := do
  let [_, lo, hi] := inp | none
  let [ev, bad, first] := obs | none
  let lo ← lo.toNat?; let hi ← hi.toNat?; let ev ← ev.toNat?
  pure { modelObs := s!"{(hi - lo) * 8} 0 -", rejects := if bad == "0" then [] else [s!"C14.exhaustive_mismatch.{first}"],
         nontrivial := ev > 0, tags := ["exhaustive_2^32_slice"] }

end ScpiVerif.Drv
