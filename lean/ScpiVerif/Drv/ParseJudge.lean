import ScpiVerif.Drv.Parse
import ScpiVerif.Spec.Message
import ScpiVerif.Spec.Chunking
namespace ScpiVerif.Drv
open ScpiVerif.Ctx ScpiVerif.Lexer ScpiVerif.Spec ScpiVerif.Spec.Message

def parseTags (obs : List String) : List String :=
  let has := fun (p : String) => obs.any (·.startsWith p)
  (if has "H" then ["handler"] else []) ++ (if has "E-113" then ["undefined_header"] else []) ++
  (if has "W" then ["output"] else ["no_output"]) ++ (if has "E-1" then ["command_error"] else []) ++
  (if has "E-2" then ["execution_error"] else []) ++ (if has "E-363" then ["overrun"] else [])

/-- one SCPI_Parse call as seen in the observation: the message and the event tokens that follow it -/
structure MsgObs where
  msg : Bytes
  events : List String

/-- one SCPI_Input call: messages parsed during it, bytes written, flush count, result -/
structure CallObs where
  pre : List String := []         -- events before the first P token (e.g. E-363)
  msgs : List MsgObs := []
  written : Bytes := []
  flushes : Nat := 0
  result : Bool := true

/-- group the event tokens of one run into calls (ended by R) and messages (started by P) -/
def groupCalls (toks : List String) : List CallObs × List String :=
  let step := fun (acc : List CallObs × CallObs × List String) (t : String) =>
    let (done, cur, tail) := acc
    if !tail.isEmpty ∨ t.startsWith "M" then (done, cur, tail ++ [t])
    else if t.startsWith "P" then
      (done, { cur with msgs := cur.msgs ++ [⟨(unhex (t.drop 1).toString).getD [], []⟩] }, tail)
    else if t.startsWith "W" then (done, { cur with written := (unhex (t.drop 1).toString).getD [] }, tail)
    else if t.startsWith "F" then (done, { cur with flushes := (t.drop 1).toString.toNat?.getD 0 }, tail)
    else if t.startsWith "Q" then acc          -- service requests: compared with the model, not judged here
    else if t.startsWith "g" ∨ t.startsWith "s" then acc          -- register writes of the firmware / status snapshots: judged by judgeStatus
    else if t.startsWith "T" then acc          -- direct line parse: "the terminating NUL is still there", compared with the model
    else if t.startsWith "R" then (done ++ [{ cur with result := t == "R1" }], {}, tail)
    else match cur.msgs.reverse with
      | [] => (done, { cur with pre := cur.pre ++ [t] }, tail)
      | m :: ms => (done, { cur with msgs := (⟨m.msg, m.events ++ [t]⟩ :: ms).reverse }, tail)
  let (done, _, tail) := toks.foldl step ([], {}, [])
  (done, tail)

/-- the items a library handler emits when they do not depend on the instrument state (`none` = they do) -/
def builtinItems : Builtin → Option (List Bytes)
  | .eseQ | .esrQ | .sreQ | .stbQ | .errNextQ | .errCountQ | .quesCondQ | .quesEvenQ | .quesEnabQ
  | .operCondQ | .operEvenQ | .operEnabQ => none
  | .opcQ => some [[49]]
  | .tstQ | .stubQ => some [[48]]
  | .versQ => some [bytesOf Gen.STD_VERSION]
  | .idnQ f => some ((List.range 4).map (fun i => match f.getD i none with | some s => s.takeWhile (· ≠ 0) | none => [48]))
  | _ => some []

/-- the framing judge needs the items from the script alone: not possible when a handler of the library answers from the
instrument state, or when `*ESE` / `*SRE` (which end the script on a bad parameter) come before result writers -/
def stateDependent (s : List SOp) : Bool :=
  s.any (fun o => match o with | .builtin b => (builtinItems b).isNone | _ => false) ||
  (s.any (fun o => o == .builtin .ese || o == .builtin .sre) &&
   s.any (fun o => match o with | .rInt .. | .rIntN .. | .rFloatText _ | .rBool _ | .rText _ | .rChars _ | .rBlock _ | .rBlockHeader _ | .rBlockData _ | .rArrBin .. => true
                                | .builtin b => builtinItems b != some [] | _ => false))

/-- items a script emits when it runs to its `ret` (readers never stop it): independent encoders -/
def scriptItems (s : List SOp) : List Bytes :=
  let rec go : List SOp → Option (Bytes × Nat) → List Bytes → List Bytes
    | [], _, acc => acc.reverse
    | op :: rest, blk, acc =>
      match op with
      | .ret _ => acc.reverse
      | .rInt w sg v b => go rest blk (intText w v b sg :: acc)
      | .rIntN n sg v b => go rest blk (intText 32 (if sg then Result.signExtend n 32 v else v) b sg :: acc)
      | .rFloatText t => go rest blk (t :: acc)
      | .rBool b => go rest blk ((if b then [49] else [48]) :: acc)
      | .rText d => go rest blk (quote (d.takeWhile (· ≠ 0)) :: acc)
      | .rChars d => go rest blk (d :: acc)
      | .rBlock d => go rest none (encodeBlock d :: acc)
      | .rBlockHeader n => go rest (some ([], n)) acc
      | .rBlockData d =>
        match blk with
        | some (sofar, n) =>
          if d.length > n - sofar.length then go rest blk acc            -- refused: nothing emitted
          else
            let sofar := sofar ++ d
            if sofar.length == n then go rest none (encodeBlock sofar :: acc) else go rest (some (sofar, n)) acc
        | none => if d.isEmpty then go rest none acc else go rest none acc
      | .rArrBin sz elems same =>
        -- elems are in host (little-endian) order; `same` = requested order is the host's, i.e. little-endian
        if sz == 1 ∨ sz == 2 ∨ sz == 4 ∨ sz == 8 then
          let wire := elems.flatMap (fun e => if same then e else e.reverse)
          go rest none (encodeBlock wire :: acc)
        else go rest blk acc
      | .builtin b => go rest blk (((builtinItems b).getD []).reverse ++ acc)
      | _ => go rest blk acc
  go s none []

def hasIncompleteBlock (s : List SOp) : Bool :=
  -- a header whose data calls do not add up (such scripts are outside C06's quantifier)
  let rec go : List SOp → Option (Nat × Nat) → Bool
    | [], blk => blk.isSome
    | op :: rest, blk =>
      match op with
      | .ret _ => blk.isSome
      | .rBlockHeader n => if blk.isSome then true else go rest (some (0, n))
      | .rBlockData d => match blk with
        | some (k, n) => if d.length > n - k then go rest blk else if k + d.length == n then go rest none else go rest (some (k + d.length, n))
        | none => go rest none
      | .rBlock _ => if blk.isSome then true else go rest none
      | .rArrBin .. => if blk.isSome then true else go rest none
      | _ => go rest blk
  go s none

/-- judge one run (list of event tokens of one context) for C02 and C06 -/
def judgeRun (cmds : List Cmd) (toks : List String) : List String :=
  let (calls, _) := groupCalls toks
  let pats := cmds.map (fun c => Pattern.parsePattern c.pattern)
  let allPats := pats.all (·.isSome) ∧ pats.all (fun p => match p with | some p => Pattern.wellFormed p.kws | none => false)
  let patList := pats.filterMap id
  calls.flatMap (fun call =>
    -- C02: dispatch, message by message
    let c02 := call.msgs.flatMap (fun m =>
      let us := unitsOf m.msg
      if !allPats ∨ us.any (fun u => !u.wellFormed ∨ u.nParams < 0) then [] else
      let want := (expectDispatch patList us).filterMap (fun e => match e with
        | .run i eff => let cmd := cmds.getD i ⟨[], 0, []⟩
                        if isNullCb cmd then none      -- an entry without a handler: nothing announces that it was selected
                        else some s!"H{cmd.tag}:{hexOfBytes eff}"
        | .undefined _ => some "E-113")
      let got := m.events.filter (fun t => t.startsWith "H" || t == "E-113")
      if got == want then []
      else if got.length != want.length then ["C02.handler_count"]
      else
        -- first deviation
        match (List.zip got want).find? (fun (g, w) => g != w) with
        | some (g, w) =>
          if g.startsWith "H" ∧ w.startsWith "H" then
            (if (g.splitOn ":").headD "" != (w.splitOn ":").headD "" then ["C02.wrong_entry"] else ["C02.effective_header"])
          else if w == "E-113" then ["C02.undefined_header_ran"] else ["C02.defined_header_rejected"]
        | none => [])
    -- C06: framing of everything written during this call
    let c06 :=
      let perMsg := call.msgs.map (fun m =>
        let tags := m.events.filterMap (fun t => if t.startsWith "H" then ((t.drop 1).toString.splitOn ":").headD "" |>.toInt? else none)
        let scripts := tags.map (fun t => (cmds.find? (fun c => c.tag == t)).map (·.script) |>.getD [])
        (scripts, m.events))
      let skip := perMsg.any (fun (ss, evs) => ss.any (fun s => hasIncompleteBlock s || stateDependent s ||
        (s.any (fun o => o == .onFail true) && evs.any (fun t => (t.startsWith "I0" || t.startsWith "L0" || t.startsWith "B0" || t.startsWith "C0" || t.startsWith "N0" || t.startsWith "Y0" || t.startsWith "X0" || t.startsWith "A0")))))
      if skip then [] else
      let want := perMsg.flatMap (fun (ss, _) => frame (ss.map scriptItems))
      let wantFlush := (perMsg.filter (fun (ss, _) => ss.any (fun s => !(scriptItems s).isEmpty))).length
      if call.written == want ∧ call.flushes == wantFlush then []
      else if want.isEmpty ∧ !call.written.isEmpty then ["C06.output_without_response"]
      else if call.written.filter (fun b => b != 59 && b != 44 && b != 13 && b != 10) == want.filter (fun b => b != 59 && b != 44 && b != 13 && b != 10) then
        -- same payload, separators / terminator differ: in number, or - same numbers - in where they stand
        -- (a separator inside an item has no complete item on both sides of it)
        let cl := (if call.written.count 59 != want.count 59 then ["C06.unit_separator"] else []) ++
          (if call.written.count 44 != want.count 44 then ["C06.item_separator"] else []) ++
          (if call.written.count 10 != want.count 10 ∨ call.flushes != wantFlush then ["C06.terminator"] else [])
        if cl.isEmpty then ["C06.separator_misplaced"] else cl
      else ["C06.response_content"]
    c02 ++ c06)

/-- C17: independent streaming encoder for one unit whose script emits blocks / binary arrays (possibly
unfinished or over-length): (bytes written, completed items, refused chunks) -/
def streamUnit (s : List SOp) : Bytes × Nat × Nat :=
  let rec go : List SOp → Bytes → Nat → Nat → Nat → Bytes × Nat × Nat
    | [], out, done, _, refused => (out, done, refused)
    | op :: rest, out, done, remaining, refused =>
      let sepB : Bytes := if done > 0 then [44] else []
      match op with
      | .ret _ => (out, done, refused)
      | .rBlock d => go rest (out ++ sepB ++ encodeBlock d) (done + 1) 0 refused
      | .rBlockHeader n =>
        let l := decimal n
        go rest (out ++ sepB ++ [35, UInt8.ofNat (48 + l.length)] ++ l) done n refused
      | .rBlockData d =>
        if d.length > remaining then go rest out done remaining (refused + 1)
        else go rest (out ++ d) (if remaining - d.length == 0 then done + 1 else done) (remaining - d.length) refused
      | .rArrBin sz elems same =>
        if sz == 1 ∨ sz == 2 ∨ sz == 4 ∨ sz == 8 then
          go rest (out ++ sepB ++ encodeBlock (elems.flatMap (fun e => if same then e else e.reverse))) (done + 1) 0 refused
        else go rest out done remaining (refused + 1)
      | .rInt w sg v b => go rest (out ++ sepB ++ intText w v b sg) (done + 1) remaining refused
      | .rChars d => go rest (out ++ sepB ++ d) (done + 1) remaining refused
      | _ => go rest out done remaining refused
  go s [] 0 0 0

def isBlockScript (s : List SOp) : Bool :=
  s.any (fun o => match o with | .rBlock _ | .rBlockHeader _ | .rBlockData _ | .rArrBin .. => true | _ => false) &&
  s.all (fun o => match o with | .rBlock _ | .rBlockHeader _ | .rBlockData _ | .rArrBin .. | .rInt .. | .rChars _ | .ret _ | .iTag => true | _ => false)

/-- several units: the block accounting starts afresh in every unit, so the number of chunks refused with -310 in a unit is
what its own script gives when started with nothing announced — whatever an earlier unit of the message left open -/
def judgeRefusals (cmds : List Cmd) (events : List String) : List String :=
  -- split the events at the handler tokens
  let segs : List (String × List String) := events.foldl (fun (acc : List (String × List String)) e =>
    if e.startsWith "H" then acc ++ [(e, [])]
    else match acc.reverse with
      | [] => acc
      | (h, es) :: rest => rest.reverse ++ [(h, es ++ [e])]) []
  (segs.flatMap (fun (h, es) =>
    let tag := (((h.drop 1).toString.splitOn ":").headD "").toInt?.getD 0
    let script := (cmds.find? (fun c => c.tag == tag)).map (·.script) |>.getD []
    if !isBlockScript script then [] else
    let (_, _, refused) := streamUnit script
    if (es.filter (· == "E-310")).length != refused then ["C17.overlength_not_refused"] else [])).eraseDups

/-- judge calls that executed exactly one message with exactly one handler whose script is a block script (bytes, item
count and refusals), and the refusals of every unit of every other call -/
def judgeBlocks (cmds : List Cmd) (toks : List String) : List String :=
  let (calls, _) := groupCalls toks
  calls.flatMap (fun call =>
    match call.msgs with
    | [m] =>
      let hs := m.events.filter (·.startsWith "H")
      match hs with
      | [h] =>
        let tag := (((h.drop 1).toString.splitOn ":").headD "").toInt?.getD 0
        let script := (cmds.find? (fun c => c.tag == tag)).map (·.script) |>.getD []
        if !isBlockScript script then [] else
        let (bytes, done, refused) := streamUnit script
        let want := bytes ++ (if done > 0 then bytesOf Gen.LINE_ENDING else [])
        let gotRefused := (m.events.filter (· == "E-310")).length
        (if gotRefused != refused then ["C17.overlength_not_refused"] else []) ++
        (if call.written == want then []
         else if call.written.filter (fun b => b != 44 && b != 13 && b != 10) == want.filter (fun b => b != 44 && b != 13 && b != 10) then ["C17.item_count"]
         else ["C17.block_encoding"])
      | _ => judgeRefusals cmds m.events
    | ms => ms.flatMap (fun m => judgeRefusals cmds m.events))

/-- normalised trace for the relational judges: handler / parameter / error events, all output bytes,
final queue, remainder and registers — without the per-call R / F bookkeeping -/
def normalise (toks : List String) : List String × Bytes × List String :=
  let (calls, tail) := groupCalls toks
  let evs := calls.flatMap (fun c => c.pre ++ c.msgs.flatMap (fun m => m.events))
  (evs, calls.flatMap (·.written), tail)

/-- does the stream contain a line terminator inside a quoted string (an opening quote whose closing
quote, if any, comes after a CR or LF)?  Quote state is tracked from the start of the stream and reset
at every terminator outside quotes and at every ';' ',' outside quotes. -/
def terminatorInsideQuotes (s : Bytes) : Bool :=
  let rec go : List UInt8 → Option UInt8 → Bool
    | [], _ => false
    | b :: rest, none => if b == 34 ∨ b == 39 then go rest (some b) else go rest none
    | b :: rest, some q =>
      if b == 10 ∨ b == 13 then true
      else if b == q then go rest none        -- closing quote (a doubled quote re-opens at once)
      else go rest (some q)
  go s none

/-- does a run execute a handler whose script uses the streaming block calls (header / data)?  Such a unit may leave a
block unfinished, which makes the framing of a joint message a case of its own -/
def hasOpenBlock (cmds : List Cmd) (run : List String) : Bool :=
  run.any (fun t => t.startsWith "H" &&
    (let tag := (((t.drop 1).toString.splitOn ":").headD "").toInt?.getD 0
     ((cmds.find? (fun c => c.tag == tag)).map (·.script) |>.getD []).any (fun o => match o with | .rBlockHeader _ | .rBlockData _ => true | _ => false)))

/-- PU case: is the experiment conclusive on syntactic grounds?  Unit 1 is a unit of its own in the joint message (no open
quote / unfinished block swallowing the ';'), unit 2 has a well-formed absolute or common header and ends at the line feed -/
def puConclusive (inp : List String) : Bool :=
  let u1 := (unhex ((splitBar (inp.drop 4)).1.headD "-")).getD []
  let u2 := (unhex ((splitBar (inp.drop 4)).2.headD "-")).getD []
  let du := Parser.detectUnit (u1 ++ [59] ++ u2 ++ [10])
  let du2 := Parser.detectUnit (u2 ++ [10])
  let hdrOk := du2.header.type == .compoundHeader ∨ du2.header.type == .compoundQueryHeader ∨
               du2.header.type == .commonHeader ∨ du2.header.type == .commonQueryHeader
  du.consumed == u1.length + 1 && du.term == .semicolon && hdrOk && (u2.head? == some 58 || u2.head? == some 42) &&
  du2.header.ptr == 0 && du2.term == .nl && du2.consumed == u2.length + 1

def judgeParse (mode : String) (cmds : List Cmd) (inp : List String) (obs : List String) : List String :=
  let (a, b) := splitBar (obs.map (fun t => if t == "||" then "|" else t))
  let base := (judgeRun cmds a ++ judgeBlocks cmds a ++ (if mode == "P" ∨ mode == "PU" then [] else judgeRun cmds b)).eraseDups
  let rel :=
    if mode == "P8" then
      let (e1, w1, t1) := normalise a; let (e2, w2, t2) := normalise b
      let stream := ((splitBar (inp.drop 4)).1.filterMap (fun c => if c == "-" then none else unhex c)).flatten
      let r := (if e1 != e2 then ["C08.events_depend_on_segmentation"] else []) ++
               (if w1 != w2 then ["C08.output_depends_on_segmentation"] else []) ++
               (if t1 != t2 then ["C08.final_state_depends_on_segmentation"] else [])
      -- known design limitation: the scan for a message terminator does not know about quoted strings.
      -- Never an excuse on a stream that satisfies the hypothesis of the C08 theorems (`QuotesLineLocal`: no quoted
      -- string contains a line terminator): there the model is proved independent of the segmentation.
      if !r.isEmpty ∧ terminatorInsideQuotes stream ∧ !Props.C08.quotesLineLocalB stream then ["C08.terminator_inside_quotes"] else r
    else if mode == "PU" then
      -- three runs: u1;u2 in one message | u1 alone | u2 alone on a fresh context with run 2's registers and queue
      let runs := (obs.foldl (fun (acc : List (List String)) t => if t == "||" then acc ++ [[]] else
                      match acc.reverse with | [] => [[t]] | l :: r => (r.reverse ++ [l ++ [t]])) [[]])
      match runs with
      | [r1, r2, r3] =>
        let isEv := fun (t : String) => !(t.startsWith "P" || t.startsWith "W" || t.startsWith "F" || t.startsWith "R")
        let (e1, w1, t1) := normalise r1; let (e2, w2, _) := normalise r2; let (e3, w3, t3) := normalise r3
        let e1 := e1.filter isEv; let e2 := e2.filter isEv; let e3 := e3.filter isEv
        -- conclusive only when both units stand on their own syntactically and unit 1 did in the joint message what it does alone
        if !puConclusive inp then [] else
        if e1.take e2.length != e2 then [] else
        let codes := fun (t : List String) => t.map (fun x => if x.startsWith "D" then
            "D" ++ ",".intercalate (((x.drop 1).toString.splitOn ",").map (fun e => (e.splitOn ":").headD "")) else x)
        -- offsets inside the message (Y tokens) are positions, not behaviour
        let noOff := fun (l : List String) => l.map (fun x => if x.startsWith "Y" then
            (match x.splitOn ":" with | [a, _, c] => a ++ ":" ++ c | _ => x) else x)
        let e1 := noOff e1; let e2 := noOff e2; let e3 := noOff e3
        if e1.take e2.length != e2 then [] else
        let codes := fun (t : List String) => t.map (fun x => if x.startsWith "D" then
            "D" ++ ",".intercalate (((x.drop 1).toString.splitOn ",").map (fun e => (e.splitOn ":").headD "")) else x)
        let nl := bytesOf Gen.LINE_ENDING
        let strip := fun (w : Bytes) => if w.length ≥ nl.length ∧ w.drop (w.length - nl.length) == nl then w.take (w.length - nl.length) else w
        let o1 := strip w2; let o2 := strip w3
        let wantW := if o1.isEmpty ∧ o2.isEmpty then (if w2.isEmpty ∧ w3.isEmpty then [] else nl)
                     else o1 ++ (if !o1.isEmpty ∧ !o2.isEmpty then [59] else []) ++ o2 ++ nl
        (if e1.drop e2.length != e3 then ["C09.unit_events_leak"] else []) ++
        -- output only when both units completed their items (an unfinished block makes the framing of the joint message its own case)
        (if w1 != wantW ∧ !(hasOpenBlock cmds r2) ∧ !(hasOpenBlock cmds r3) then ["C09.unit_output_leak"] else []) ++
        -- final registers, remainder and queue (codes: the text of a -113 is the unit as written, separator included)
        (if codes t1 != codes t3 then ["C09.unit_final_state_leak"] else [])
      | _ => ["C09.malformed_observation"]
    else if mode == "P9" then
      let (e1, w1, t1) := normalise a; let (e2, w2, t2) := normalise b
      (if e1 != e2 then ["C09.events_leak"] else []) ++ (if w1 != w2 then ["C09.output_leaks"] else []) ++
      (if t1 != t2 then ["C09.final_state_leaks"] else [])
    else []
  base ++ rel

end ScpiVerif.Drv
