import ScpiVerif.Drv.Parse
import ScpiVerif.Drv.Regs
namespace ScpiVerif.Drv
open ScpiVerif.Ctx ScpiVerif.Regs

/-- which event registers a script may clear (conservatively: whether or not the operation is reached) -/
def scriptClears (s : List SOp) (ev : Nat) : Bool :=
  s.any (fun o => match o with
    | .builtin .cls => true
    | .builtin .esrQ => ev == ESR
    | .builtin .operEvenQ => ev == OPER
    | .builtin .quesEvenQ => ev == QUES
    | .builtin .pres => ev == QUES
    | _ => false)

structure StatusWalk where
  snap : St
  cleared : List Nat := []          -- event registers a clearing operation may have touched since the snapshot
  errs : List Int := []             -- error codes pushed since the snapshot (or since the last possible clearing of ESR)
  inClearing : Bool := false        -- inside a unit whose script may clear ESR: its errors may be cleared again by the script itself
  rej : List String := []

def parseSnap (cap : Nat) (t : String) : Option St :=
  match (t.drop 1).toString.splitOn "," with
  | [rs, qn] => do
    let regs ← (rs.splitOn ".").mapM (fun h => (parseHexNat h).map (BitVec.ofNat 16))
    some { regs, qn := ← qn.toNat?, cap, srq := [], errcb := [] }
  | _ => none

/-- C11 / C12 on a session of program messages (domain p21): at every status snapshot (token `s…`, taken between input
calls) the status byte is the summary of the registers behind it, no event bit was lost since the previous snapshot
unless an operation defined to clear that register ran in between (`*CLS`, the register's own event query, STATus:PRESet
for the questionable event, a direct write by the firmware), and every error reported since then has its class bit latched
in the standard event status register. -/
def judgeStatus (cmds : List Cmd) (cap : Nat) (toks : List String) : List String :=
  let step := fun (w : StatusWalk) (t : String) =>
    if t.startsWith "H" then
      match (((t.drop 1).toString.splitOn ":").headD "").toInt? with
      | some tag =>
        match cmds.find? (fun c => c.tag == tag) with
        | some c =>
          let cl := [ESR, OPER, QUES].filter (scriptClears c.script)
          { w with cleared := (w.cleared ++ cl).eraseDups, errs := if cl.contains ESR then [] else w.errs, inClearing := cl.contains ESR }
        | none => { w with inClearing := false }
      | none => { w with inClearing := false }
    else if t.startsWith "P" ∨ t.startsWith "R" then { w with inClearing := false }
    else if t.startsWith "g" then
      match (((t.drop 1).toString.splitOn ":").headD "").toNat? with
      | some r => if r == ESR ∨ r == OPER ∨ r == QUES then { w with cleared := (r :: w.cleared).eraseDups, errs := if r == ESR then [] else w.errs } else w
      | none => w
    else if t.startsWith "E" then
      match (t.drop 1).toString.toInt? with
      | some code => if code == 0 ∨ code == Fifo.overflowCode ∨ w.inClearing then w else { w with errs := w.errs ++ [code] }
      | none => w
    else if t.startsWith "s" then
      match parseSnap cap t with
      | none => { w with rej := w.rej ++ ["C11.malformed_observation"] }
      | some after =>
        let before := w.snap
        let stb := get after STB
        let c11 :=
          (if (decide (stb &&& bit Gen.STB_ESR ≠ 0)) != decide (get after ESR &&& get after ESE ≠ 0) then ["C11.esb_summary"] else []) ++
          (if (decide (stb &&& bit Gen.STB_OPS ≠ 0)) != decide (get after OPER &&& get after OPERE ≠ 0) then ["C11.oper_summary"] else []) ++
          (if (decide (stb &&& bit Gen.STB_QES ≠ 0)) != decide (get after QUES &&& get after QUESE ≠ 0) then ["C11.ques_summary"] else []) ++
          (if (decide (stb &&& bit Gen.STB_QMA ≠ 0)) != decide (after.qn ≠ 0) then ["C11.error_available"] else []) ++
          (if (decide (stb &&& bit Gen.STB_SRQ ≠ 0)) != decide ((stb &&& ~~~bit Gen.STB_SRQ) &&& (get after SRE &&& ~~~bit Gen.STB_SRQ) ≠ 0) then ["C11.mss"] else [])
        let lost := [ESR, OPER, QUES].flatMap (fun ev =>
          if !w.cleared.contains ev && (get before ev &&& ~~~(get after ev)) != 0 then ["C12.event_lost"] else [])
        let cls := w.errs.flatMap (fun code =>
          if (get after ESR &&& specClassBit code) == specClassBit code then [] else [if code > 0 then "C12.class_bit_positive" else "C12.class_bit"])
        { snap := after, cleared := [], errs := [], rej := w.rej ++ c11 ++ lost ++ cls }
    else w
  (toks.foldl step { snap := St.init cap }).rej.eraseDups

end ScpiVerif.Drv
