import ScpiVerif.Drv.Parse
import ScpiVerif.Drv.ParseJudge
import ScpiVerif.Drv.ParamJudge
import ScpiVerif.Drv.StatusJudge
import ScpiVerif.Drv.TestJudge
namespace ScpiVerif.Drv
open ScpiVerif.Ctx

/-- P / P8 / P9 cases -/
def runParse (cfg : String) (inp : List String) (obs : List String) : Option Verdict := do
  let (mo, cmds) ← modelParse cfg inp
  let mode := inp.headD "P"
  let obsK := obs
  let obs := obs.filter (fun t => !t.startsWith "K")      -- K<hex> (P9: what A left unconsumed) is judged on its own below
  let (ra, rb) := splitBar (obs.map (fun t => if t == "||" then "|" else t))
  -- P9: what A leaves unconsumed in the input buffer is decided by the (proved) input model; anything else is residue of
  -- consumed messages that the next message would be glued to
  let residue := if mode == "P9" ∧ (obsK.find? (·.startsWith "K")) != (mo.find? (·.startsWith "K")) then ["C09.input_residue"] else []
  -- sessions with status snapshots (domain p21): C11 / C12 judged on the registers between the messages
  let status := if mode == "P" ∧ obs.any (·.startsWith "s") then judgeStatus cmds ((inp.getD 2 "").toNat?.getD 0) obs else []
  -- every message handed to the line parser is a contiguous piece of the input stream, and the pieces come in stream order
  -- (bytes dropped by an overrun or still pending are never glued to later ones)
  let integrity :=
    if mode != "P" then [] else
    -- bytes given to SCPI_Input (in order) and lines handed straight to SCPI_Parse (in order) are two separate sources
    let stream := (inp.drop 4).foldl (fun (acc : Lexer.Bytes) ch =>
      if ch == "-" ∨ ch.startsWith "=" then acc else acc ++ ((unhex ch).getD [])) []
    let lines := (inp.drop 4).filterMap (fun ch => if ch.startsWith "=L" then some ((unhex (let h := (ch.drop 2).toString; if h.isEmpty then "-" else h)).getD []) else none)
    let lines := lines.filter (!·.isEmpty)
    let msgs := (obs.filterMap (fun t => if t.startsWith "P" then unhex (t.drop 1).toString else none)).filter (!·.isEmpty)
    let findFrom := fun (m : Lexer.Bytes) (start : Nat) =>
      if start + m.length > stream.length then none else
      (List.range (stream.length - start - m.length + 1)).find? (fun k => ((stream.drop (start + k)).take m.length) == m)
    -- every message is the next direct line, or a contiguous piece of the stream behind the previous piece (either reading may apply)
    let rec ok : Nat → List Lexer.Bytes → Nat → List Lexer.Bytes → Bool
      | 0, _, _, _ => true
      | _, [], _, _ => true
      | fuel+1, m :: ms, cur, ls =>
        (match ls with | l :: lt => l == m && ok fuel ms cur lt | [] => false) ||
        (match findFrom m cur with | some k => ok fuel ms (cur + k + m.length) ls | none => false)
    if ok (msgs.length + 1) msgs 0 lines then [] else
      ["C01.stream_integrity", "C02.stream_integrity", "C05.stream_integrity", "C06.stream_integrity", "C09.stream_integrity"]
  let tests := if obs.any (fun t => t == "V0" || t == "V1") then judgeTests cmds ra else []
  let rej := (residue ++ judgeParse mode cmds inp obs ++ judgeParams cmds ra ++ (if mode == "P" then [] else judgeParams cmds rb) ++ status ++ tests ++ integrity).eraseDups
  let tags := [mode] ++ parseTags obs ++ (if mode == "PU" then [if puConclusive inp then "unit_isolation_conclusive" else "unit_isolation_inconclusive"] else [])
  -- static-heap build: whether a text is stored depends on the heap (C20, domain H); the context model keeps every
  -- text, so the drained queue is compared by codes only in that configuration
  let strip := fun (t : String) => if cfg == "B" ∧ t.startsWith "D" then ",".intercalate ((t.splitOn ",").map (fun e => (e.splitOn ":").headD "")) else t
  pure { modelObs := " ".intercalate (mo.map strip), implObs := some (" ".intercalate (obsK.map strip)), rejects := rej, nontrivial := obs.any (fun t => t.startsWith "H" || t.startsWith "E"), tags }

end ScpiVerif.Drv
