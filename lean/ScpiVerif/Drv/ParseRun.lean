import ScpiVerif.Drv.Parse
import ScpiVerif.Drv.ParseJudge
namespace ScpiVerif.Drv
open ScpiVerif.Ctx

/-- P / P8 / P9 cases -/
def runParse (cfg : String) (inp : List String) (obs : List String) : Option Verdict := do
  let (mo, cmds) ← modelParse cfg inp
  let mode := inp.headD "P"
  let rej := judgeParse mode cmds inp obs
  let tags := [mode] ++ parseTags obs
  pure { modelObs := " ".intercalate mo, rejects := rej, nontrivial := obs.any (fun t => t.startsWith "H" || t.startsWith "E"), tags }

end ScpiVerif.Drv
