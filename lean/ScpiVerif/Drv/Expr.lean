import ScpiVerif.Drv.Util
import ScpiVerif.Model.Expr
import ScpiVerif.Spec.ExprList
import ScpiVerif.Spec.Float
namespace ScpiVerif.Drv
open ScpiVerif.Lexer ScpiVerif.Expr

def slash (l : List Int) : String := if l.isEmpty then "-" else "/".intercalate (l.map toString)

/-- strtol value of a decimal literal text as int32 (what the Int variants deliver) -/
def litInt32 (t : Bytes) : Int := (Prim.strtolTo 32 t 0 10).2

/-- value of a C99 hexadecimal floating constant `sign? 0x hex* (. hex*)? (p sign? digits)?` (what strtod also accepts;
reachable through the list walkers on malformed content such as `(0x1)`, where the token is "0" and strtod reads on) -/
def hexLitValue (s : Bytes) : Option (Bool × Nat × Nat) :=
  let (neg, s) := match s with | 45 :: r => (true, r) | 43 :: r => (false, r) | _ => (false, s)
  match s with
  | 48 :: x :: r =>
    if x != 120 ∧ x != 88 then none else
    let hv := fun (b : UInt8) => (Prim.digitVal b).getD 0
    let ip := r.takeWhile Prim.isHexDigit
    let r := r.drop ip.length
    let (fp, r) := match r with | 46 :: t => (t.takeWhile Prim.isHexDigit, t.drop (t.takeWhile Prim.isHexDigit).length) | _ => ([], r)
    if ip.isEmpty ∧ fp.isEmpty then none else
    let mant := (ip ++ fp).foldl (fun a b => a * 16 + hv b) 0
    let (ex, rest) : Int × Bytes :=
      match r with
      | c :: t =>
        if c == 112 ∨ c == 80 then
          let (eneg, t) := match t with | 45 :: u => (true, u) | 43 :: u => (false, u) | _ => (false, t)
          let ds := t.takeWhile Lexer.isDigit
          if ds.isEmpty then (0, r) else
            let v : Int := ds.foldl (fun a b => a * 10 + (b.toNat - 48)) 0
            (if eneg then -v else v, t.drop ds.length)
        else (0, r)
      | [] => (0, r)
    if !rest.isEmpty then none else
    let e2 : Int := ex - 4 * fp.length
    let e2 : Int := if e2 > 3000 then 3000 else if e2 < -3000 then -3000 else e2
    if e2 ≥ 0 then some (neg, mant * 2^e2.toNat, 1) else some (neg, mant, 2^(-e2).toNat)
  | _ => none

/-- bits of the correctly rounded double of a decimal literal text ("?" when it is not one) -/
def litDouble (t : Bytes) : String :=
  match (Spec.Float.litValue t).orElse (fun _ => hexLitValue t) with
  | some (neg, a, b) => String.ofList ((List.range 16).reverse.map (fun k => hexDigit (Spec.Float.doubleBits neg a b / 16^k % 16)))
  | none => "?"

/-- what SCPI_ParamToDouble makes of a decimal token inside the expression: strtod from the token start (it reads on past
the token like strtol does); the text is the model's `Expr.tokDoubleText`, the one `Props.C19.numeric_entry_double` is about -/
def tokDouble (win : Bytes) (t : Token) : String := litDouble (tokDoubleText win t)

/-- X <hexbody> <index> <cap> => n… c… -/
def runExpr (inp : List String) (obs : List String) : Option Verdict := do
  let [_, hx, index, cap] := inp | none
  let body ← unhex hx; let index ← index.toNat?; let cap ← cap.toNat?
  let n := numericListEntry body index
  let tokText := fun (t : Token) => (body.drop t.ptr).take t.len.toNat
  let nStr :=
    if n.res == .ok then
      let rng := n.isRange.getD false
      s!"n0,{if rng then 1 else 0},{hexOfBytes (tokText n.from_)},{if rng then hexOfBytes (tokText n.to_) else "-"},{tokInt32 body n.from_},{if rng then toString (tokInt32 body n.to_) else "-"},{tokDouble body n.from_},{if rng then tokDouble body n.to_ else "-"}"
    else s!"n{n.res.code}"
  let c := channelListEntry body index cap
  let cStr :=
    let errs := if c.pushed.isEmpty then "-" else "/".intercalate (c.pushed.map toString)
    if c.res == .ok then
      let rng := c.isRange.getD false
      let dims := c.dims.getD 777
      let k := min dims cap
      s!"c0,{errs},{if rng then 1 else 0},{dims},{slash (c.from_.take k)},{if rng ∧ k > 0 then slash (c.to_.take k) else "-"},1"
    else s!"c{c.res.code},{errs},1"
  let modelObs := s!"{nStr} {cStr}"
  -- judge
  let rej := match obs with
    | [no, co] =>
      let nf := no.splitOn ","
      let cf := co.splitOn ","
      let nJ :=
        match Spec.ExprList.parseNumList body with
        | some l =>
          -- well formed: OK with exactly the entry, NO_MORE at or beyond the end
          match l[index]? with
          | some e =>
            let want := ["n0", (if e.to_.isSome then "1" else "0"), hexOfBytes e.from_, (match e.to_ with | some t => hexOfBytes t | none => "-"),
                         toString (litInt32 e.from_), (match e.to_ with | some t => toString (litInt32 t) | none => "-"),
                         litDouble e.from_, (match e.to_ with | some t => litDouble t | none => "-")]
            if nf == want then [] else if nf.headD "" != "n0" then ["C19.numeric_entry_not_ok"]
            else
              -- known finding (C04.whitespace_in_literal inside a list, Props.C19.numeric_entry_double_counterexample): everything is as
              -- written except the double of a number that contains white space - the clause is computed from the case, as in C04
              let wsF := e.from_.any isWs
              let wsT := match e.to_ with | some t => t.any isWs | none => false
              let dblOk := fun (k : Nat) (ws : Bool) => ws || nf.getD k "" == want.getD k ""
              if nf.length == 8 ∧ nf.take 6 == want.take 6 ∧ dblOk 6 wsF ∧ dblOk 7 wsT then ["C19.whitespace_in_literal"]
              else ["C19.numeric_entry_value"]
          | none => if nf == ["n2"] then [] else ["C19.numeric_no_more"]
        | none =>
          -- any other content: OK only if the entry and everything before it is well formed
          if nf.headD "" == "n0" then
            let pre := Spec.ExprList.numPrefix (body.length + 1) body []
            match pre[index]? with
            | some e => if nf.getD 2 "" == hexOfBytes e.from_ then [] else ["C19.numeric_entry_value"]
            | none => ["C19.numeric_ok_on_malformed"]
          else []
      let cJ :=
        (if cf.getLast? != some "1" then ["C19.stored_beyond_capacity"] else []) ++
        (match Spec.ExprList.parseChanList body with
        | some l =>
          match l[index]? with
          | some e =>
            let dims := e.from_.length
            let k := min dims cap
            let want := ["c0", "-", (if e.to_.isSome then "1" else "0"), toString dims, slash ((e.from_.take k).map litInt32),
                         (match e.to_ with | some t => if k > 0 then slash ((t.take k).map litInt32) else "-" | none => "-"), "1"]
            if cf == want then [] else if cf.headD "" != "c0" then ["C19.channel_entry_not_ok"] else ["C19.channel_entry_value"]
          | none => if cf.take 2 == ["c2", "-"] then [] else ["C19.channel_no_more"]
        | none =>
          if cf.headD "" == "c0" then
            -- OK on malformed content only if entries 0..index are well formed: check by cutting the body after the entry
            []
          else if cf.headD "" == "c1" ∧ cf.getD 1 "" != "-170" then ["C19.channel_error_without_170"]
          -- a malformed channel list never ends silently: beyond its well-formed entries the answer is ERROR, not NO_MORE
          else if cf.headD "" == "c2" then ["C19.channel_no_more_on_malformed"]
          else [])
      nJ ++ cJ
    | _ => ["C19.malformed_observation"]
  let tags := [s!"num_{n.res.code}", s!"chan_{c.res.code}", if (Spec.ExprList.parseNumList body).isSome then "wf_numlist" else if (Spec.ExprList.parseChanList body).isSome then "wf_chanlist" else "other_content"]
  pure { modelObs, rejects := rej, nontrivial := !body.isEmpty, tags }

end ScpiVerif.Drv
