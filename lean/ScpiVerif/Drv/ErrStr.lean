import ScpiVerif.Drv.Util
import ScpiVerif.Model.Result
import ScpiVerif.Model.Heap
import ScpiVerif.Spec.ErrorString
namespace ScpiVerif.Drv
open ScpiVerif.Lexer

/-- an independent reader of one IEEE 488.2 string: returns the unescaped content if `s` is exactly one string -/
def readString (s : Bytes) : Option Bytes :=
  match s with
  | 34 :: rest =>
    let rec go : List UInt8 → Bytes → Option Bytes
      | [], _ => none
      | 34 :: 34 :: r, acc => go r (34 :: acc)
      | [34], acc => some acc.reverse
      | 34 :: _, _ => none
      | b :: r, acc => go r (b :: acc)
    go rest []
  | _ => none

/-- E <heapsize> <rot> <code> <hextext|N> => <hex output> <count> -/
def runErrStr (cfg : String) (inp : List String) (obs : List String) : Option Verdict := do
  let (hs, rot, code, hx, xl) ← (match inp with
    | [_, hs, rot, code, hx] => some (hs, rot, code, hx, "")
    | [_, hs, rot, code, hx, xl] => some (hs, rot, code, hx, xl)
    | _ => none)
  let hs ← hs.toNat?; let rot ← rot.toNat?; let code ← parseInt code
  -- explicit length argument of SCPI_ErrorPushEx ("x<n>"); 0 / absent = automatic (at most 255)
  let explicit : Nat := if xl.startsWith "x" then (xl.drop 1).toString.toNat?.getD 0 else 0
  let text : Option Bytes ← if hx == "N" then some none else (unhex hx).map some
  let desc := Result.errorTranslate code
  -- what the queue stored: at most 255 bytes of the text, cut at a NUL
  let stored := text.map (fun t => (t.takeWhile (· ≠ 0)).take (if explicit == 0 then 255 else explicit))
  let parts : List (Option Bytes) :=
    if cfg == "C" then []
    else if cfg == "B" then
      -- replay on the heap model to find how the text is laid out (one or two parts, or not stored)
      let h0 := Heap.init hs
      let (h1, pk) := if rot == 0 then (h0, none) else
        let (ha, pa) := Heap.strndup h0 (List.replicate rot 114) (min rot 255)
        let (hb, pb) := Heap.strndup ha [107] 1
        (Heap.free hb pa false, pb)
      match stored with
      | none => [none, none]
      | some t =>
        let (h2, p) := Heap.strndup h1 t t.length
        let h3 := Heap.free h2 pk false
        match p with
        | none => [none, none]
        | some off =>
          match Heap.getParts h3 off with
          | some (l1, two, l2) => [some ((h3.data.drop off).take l1), if two then some (h3.data.take l2) else none]
          | none => [none, none]
    else [stored]
  let out := Result.resultError {} code desc parts
  let modelObs := s!"{hexOfBytes out.written} 0"
  -- judge: the specification and an independent reading of the response
  let effText : Option Bytes := if cfg == "C" then none else match parts with
    | [some a, some b] => some (a ++ b)
    | some a :: _ => some a
    | _ => none
  let rej := match obs with
    | [h, cnt] =>
      match unhex h with
      | none => ["C18.malformed_observation"]
      | some w =>
        let codeTxt := Spec.ErrorString.signedDecimal code
        let body := w.drop (codeTxt.length + 1)
        let shape :=
          if w.take codeTxt.length != codeTxt ∨ w.getD codeTxt.length 0 != 44 then ["C18.code_field"]
          else match readString body with
            | none => ["C18.not_a_single_string"]
            | some content =>
              let full := desc ++ (match effText with | some t => [59] ++ t | none => [])
              (if content != full.take content.length then ["C18.content_not_a_prefix"] else []) ++
              (if body.length - 2 > 255 then ["C18.longer_than_255"] else []) ++
              (if w != Spec.ErrorString.response code desc effText then
                 (if content == full.take content.length ∧ body.length - 2 ≤ 255 then ["C18.not_cut_as_late_as_possible"] else []) else [])
        shape ++ (if cnt != "0" then ["C18.entry_not_consumed"] else []) ++
        -- in the static-heap build a text may be absent, never different (C20); here: the description is right
        (if Gen.errorList.any (fun p => p.1 == code) ∨ desc == Result.bytesOf Gen.errFallback then [] else ["C18.description"])
    | _ => ["C18.malformed_observation"]
  let tl := (text.getD []).length
  let tags := [if text.isNone then "no_text" else if tl + desc.length + 1 > 255 then "over_limit" else "fits",
               if (text.getD []).contains 34 then "quotes" else "no_quotes",
               match parts with | [some _, some _] => "wrapped" | _ => "contiguous"]
  pure { modelObs, rejects := rej, nontrivial := text.isSome, tags }

end ScpiVerif.Drv
