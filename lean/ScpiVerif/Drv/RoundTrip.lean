import ScpiVerif.Drv.Util
import ScpiVerif.Drv.Parse
import ScpiVerif.Drv.BufFmt
namespace ScpiVerif.Drv
open ScpiVerif.Ctx ScpiVerif.Lexer

def chunkBE (d : Bytes) (sz : Nat) : List Nat :=
  if sz == 0 then [] else (List.range (d.length / sz)).map (fun k => ((d.drop (k * sz)).take sz).foldl (fun a b => a * 256 + b.toNat) 0)

def wrapSigned' (w : Nat) (x : Nat) : Int := if x ≥ 2^(w-1) then (x : Int) - 2^w else x

/-- |a/b − c/d| ≤ unit of the prec-th significant digit of a/b (a ≠ 0) -/
def closeRat (a b c d : Nat) (prec : Nat) : Bool :=
  if a == 0 then c == 0 else
  let e := decExp a b
  let k : Int := e - prec + 1
  if k ≥ 0 then ratDistLe c d a b (10^k.toNat) 1 else ratDistLe c d a b 1 (10^(-k).toNat)

/-- Y … => <hex response> <ok> <value> <errors> -/
def runRoundTrip (cfg : String) (inp : List String) (obs : List String) : Option Verdict := do
  let _ :: kind :: args := inp | none
  let [resp, ok, val, errs] := obs | none
  -- scripts of the emitting query and of the reading command
  let (emitS, readS) : List SOp × List SOp ← match kind, args with
    | "i", [bits, sg, base, v] => do
      let bits ← bits.toNat?; let base ← parseInt base; let v ← parseHexNat v; let sg := sg != "0"
      let v := v % 2^bits
      let w := if bits ≤ 32 then 32 else 64
      let e := if bits ≥ 32 then SOp.rInt bits sg v (if sg then 10 else base) else SOp.rIntN bits sg v (if sg then 10 else base)
      some ([e], [SOp.pInt w sg true])
    | "t", [h] => do some ([SOp.rText (← unhex h)], [SOp.pText true (2 * (← unhex h).length + 8)])
    | "k", [h] => do some ([SOp.rBlock (← unhex h)], [SOp.pBlock true])
    | "b", [v] => some ([SOp.rBool (v != "0")], [SOp.pBool true])
    | "d", [_] | "f", [_] => some ([SOp.rFloatText ((unhex resp).getD [])], [SOp.pFloat (kind == "d") true])   -- the float text is libc's: taken from the response
    | "a", [bits, sg, h] => do
      let bits ← bits.toNat?; let d ← unhex h; let sg := sg != "0"
      let vals := chunkBE d (bits / 8)
      some (vals.map (fun v => SOp.rInt bits sg v 10), [SOp.pArrInt bits sg 320 true])
    | _, _ => none
  let cmds : List Cmd := [⟨Result.bytesOf "Q?", 1, emitS⟩, ⟨Result.bytesOf "S", 2, readS⟩]
  let c0 := Ctx.init cmds [] 8000 8 (cfg != "C")
  let c1 := Ctx.input c0 (Result.bytesOf "Q?\n")
  let out := c1.out.written
  -- exactly one message terminator (CR LF) is removed: the data itself may end in LF / CR bytes
  let r := out.reverse
  let r := if r.head? == some 10 then r.tail else r
  let r := if r.head? == some 13 then r.tail else r
  let data := r.reverse
  let c2 := Ctx.input { c1 with events := [], out := { c1.out with written := [] } } (Result.bytesOf "S " ++ data ++ [10])
  let nerr := (c2.events.filter (fun e => match e with | .error .. => true | _ => false)).length
  let (mok, mval) : Bool × String := match c2.events.find? (fun e => match e with | .pInt .. | .pLit .. | .pBool .. | .pBytes .. | .pText .. | .pArr .. => true | _ => false) with
    | some (.pInt ok v) => (ok, toString v)
    | some (.pLit ok l) => (ok, litBits (kind == "d") l)
    | some (.pBool ok v) => (ok, if v then "1" else "0")
    | some (.pBytes ok _ d) => (ok, hexOfBytes d)
    | some (.pText ok d _) => (ok, hexOfBytes d)
    | some (.pArr ok vs) => (ok, if vs.isEmpty then "-" else ",".intercalate (vs.map toString))
    | _ => (false, "-")
  let modelObs := s!"{hexOfBytes data} {if mok then 1 else 0} {mval} {nerr}"
  -- judge: the value read back is the value that was emitted
  let rej : List String := match kind, args with
    | "i", [bits, sg, _, v] =>
      let bits := bits.toNat?.getD 32; let v := (parseHexNat v).getD 0 % 2^bits
      let want : Int := if sg != "0" then wrapSigned' bits v else v
      if ok == "1" ∧ val.toInt? == some want ∧ errs == "0" then [] else ["C07.integer_roundtrip"]
    | "t", [h] => if ok == "1" ∧ val == h ∧ errs == "0" then [] else ["C07.text_roundtrip"]
    | "k", [h] => if ok == "1" ∧ val == h ∧ errs == "0" then [] else ["C07.block_roundtrip"]
    | "b", [v] => if ok == "1" ∧ val == (if v != "0" then "1" else "0") ∧ errs == "0" then [] else ["C07.bool_roundtrip"]
    | "d", [b] | "f", [b] =>
      let dbl := kind == "d"
      match parseHexNat b, parseHexNat val with
      | some ob, some rb =>
        let eo := if dbl then exactOfBits ob 53 11 else exactOfBits ob 24 8
        let er := if dbl then exactOfBits rb 53 11 else exactOfBits rb 24 8
        match eo, er with
        | some (n1, a, bb), some (n2, c, d) =>
          if ok == "1" ∧ errs == "0" ∧ (n1 == n2 ∨ a == 0 ∨ c == 0) ∧ closeRat a bb c d (if dbl then 15 else 6) then [] else ["C07.float_roundtrip"]
        | _, _ => ["C07.float_roundtrip"]
      | _, _ => ["C07.malformed_observation"]
    | "a", [bits, sg, h] =>
      let bits := bits.toNat?.getD 32
      let vals := chunkBE ((unhex h).getD []) (bits / 8)
      let want := ",".intercalate (vals.map (fun v => if sg != "0" then toString (wrapSigned' bits v) else toString v))
      if ok == "1" ∧ val == want ∧ errs == "0" then [] else ["C07.array_roundtrip"]
    | _, _ => ["C07.malformed_observation"]
  pure { modelObs, rejects := rej, nontrivial := true, tags := [kind] }

end ScpiVerif.Drv
