import ScpiVerif.Drv.Util
import ScpiVerif.Model.Ctx
import ScpiVerif.Spec.Float
namespace ScpiVerif.Drv
open ScpiVerif.Ctx ScpiVerif.Lexer

def choice0 : List (Bytes × Int) := [(Result.bytesOf "BUS", 5), (Result.bytesOf "IMMediate", 6), (Result.bytesOf "EXTernal", 7)]
def choice1 : List (Bytes × Int) := [(Result.bytesOf "ON", 1), (Result.bytesOf "OFF", 0), (Result.bytesOf "AUTO", 2)]

def optHex (s : String) : Option (Option Bytes) := if s == "N" then some none else (unhex s).map some

/-- split a big-endian element string into elements of `sz` bytes, each in HOST (little-endian) order -/
def hostElems (d : Bytes) (sz : Nat) : List Bytes :=
  if sz == 0 then [] else (List.range (d.length / sz)).map (fun k => ((d.drop (k * sz)).take sz).reverse)

def parseOp (t : String) : Option SOp :=
  match t.splitOn "," with
  | ["pI", w, s, m] => do some (.pInt (← w.toNat?) (s != "0") (m != "0"))
  | ["pF", d, m] => some (.pFloat (d != "0") (m != "0"))
  | ["pB", m] => some (.pBool (m != "0"))
  | ["pC", m, k] => do some (.pChoice (m != "0") (← k.toNat?))
  | ["pN", m] => some (.pNumber (m != "0"))
  | ["pH", m] => some (.pChars (m != "0"))
  | ["pK", m] => some (.pBlock (m != "0"))
  | ["pT", m, cap] => do some (.pText (m != "0") (← cap.toNat?))
  | ["pA", w, s, cap, m] => do some (.pArrInt (← w.toNat?) (s != "0") (← cap.toNat?) (m != "0"))
  | ["rI", n, s, v, b] => do
    let n ← n.toNat?; let v ← parseHexNat v; let b ← parseInt b
    let v := v % 2^n
    if n == 64 then some (.rInt 64 (s != "0") v (if s != "0" then 10 else b))
    else if n == 32 then some (.rInt 32 (s != "0") v (if s != "0" then 10 else b))
    else some (.rIntN n (s != "0") v (if s != "0" then 10 else b))
  | ["rF", _, _, txt] => do some (.rFloatText (← unhex txt))
  | ["rB", v] => some (.rBool (v != "0"))
  | ["rT", h] => do some (.rText (← unhex h))
  | ["rC", h] => do some (.rChars (← unhex h))
  | ["rK", h] => do some (.rBlock (← unhex (if h == "N" then "-" else h)))      -- "N": empty data held by a NULL pointer
  | ["rKH", n] => do some (.rBlockHeader (← n.toNat?))
  | ["rKD", h] => do some (.rBlockData (← unhex (if h == "N" then "-" else h)))
  | ["rA", sz, fmt, h] => do
    let sz ← sz.toNat?; let d ← unhex (if h == "N" then "-" else h)
    -- fmt 0 = NORMAL = big endian, 1 = SWAPPED = little endian; the host of the harness is little endian
    some (.rArrBin sz (hostElems d sz) (fmt != "0"))
  | ["eP", c, h] => do some (.ePush (← parseInt c) (← optHex h))
  | ["iT"] => some .iTag
  | ["iN", n, d] => do some (.iNums (← n.toNat?) (← parseInt d))
  | ["iC", h] => do some (.iIsCmd (← unhex h))
  | ["iM", p, h] => do some (.iMatch (← unhex p) (← unhex h))
  | ["oF", s] => some (.onFail (s != "0"))
  | ["ret", v] => some (.ret (v != "0"))
  | ["bI", name] => (Builtin.ofName name).map SOp.builtin
  | _ => none

/-- big-endian bytes -> value -/
def beNat (d : Bytes) : Nat := d.foldl (fun a b => a * 256 + b.toNat) 0

/-- one script token -> operations.  An ASCII-formatted integer array (`rA,<size>,2,<hex>,<kind>`) IS the sequence of scalar
result calls the RESULT_ARRAY macro of parser.c makes (SCPI_ResultInt8/16/32/64 or SCPI_ResultUInt8/16/32/64 per element);
binary arrays of signed / floating-point elements are byte strings like the unsigned ones. -/
def parseOps (t : String) : Option (List SOp) :=
  match t.splitOn "," with
  | ["rA", sz, fmt, h, kind] => do
    let szn ← sz.toNat?
    if fmt == "2" then
      if kind == "2" ∨ szn == 0 then none else
      let d ← unhex (if h == "N" then "-" else h)
      let signed := kind == "1"
      let elems := (List.range (d.length / szn)).map (fun k => beNat ((d.drop (k * szn)).take szn))
      some (elems.map (fun v =>
        if szn == 8 then SOp.rInt 64 signed v 10 else if szn == 4 then SOp.rInt 32 signed v 10 else SOp.rIntN (8 * szn) signed v 10))
    else (parseOp (",".intercalate ["rA", sz, fmt, h])).map (fun o => [o])
  -- rN,<count>: a loop of <count> calls SCPI_ResultInt32(context, k % 10) (units answering tens of thousands of items)
  | ["rN", n] => do
    let n ← n.toNat?
    some ((List.range n).map (fun k => SOp.rInt 32 true (k % 10) 10))
  | _ => (parseOp t).map (fun o => [o])

def parseTable (t : String) : Option (List Cmd) :=
  (t.splitOn ";").mapM (fun e =>
    match e.splitOn ":" with
    | [p, tag, ops] => do
      let p ← unhex p; let tag ← parseInt tag
      -- "null": an entry without a handler (callback == NULL).  The model runs it as a handler that does nothing; the marker
      -- script `[.onFail false]` (a no-op) lets the driver leave out the handler-entered token, which nothing prints then
      let ops ← if ops == "null" then some [SOp.onFail false] else ((ops.splitOn "/").mapM parseOps).map List.flatten
      some { pattern := p, tag := tag, script := ops }
    | _ => none)

def hexN (n : Nat) (digits : Nat) : String :=
  String.ofList ((List.range digits).reverse.map (fun k => hexDigit (n / 16^k % 16)))

def litBits (dbl : Bool) (lit : Bytes) : String :=
  match Spec.Float.litValue lit with
  | some (neg, a, b) => if dbl then hexN (Spec.Float.doubleBits neg a b) 16 else hexN (Spec.Float.floatBits neg a b) 8
  | none => "?"

/-- value of `lit * num/den` as a double: the C code multiplies two doubles, so round the literal and
the multiplier separately and multiply with Lean's (IEEE) Float -/
def numberBits (lit : Bytes) (num den : Nat) : String :=
  match Spec.Float.litValue lit with
  | some (neg, a, b) =>
    let v := Float.ofBits (UInt64.ofNat (Spec.Float.doubleBits neg a b))
    if num == 1 ∧ den == 1 then hexN v.toBits.toNat 16
    else
      let m := Float.ofBits (UInt64.ofNat (Spec.Float.doubleBits false num den))
      hexN (v * m).toBits.toNat 16
  | none => "?"

def b01 (b : Bool) : String := if b then "1" else "0"

def evStr (pFloatDbl : Bool) : Ev → String
  | .handler t h => s!"H{t}:{hexOfBytes h}"
  | .pInt ok v => s!"I{b01 ok}:" ++ (if ok then toString v else "-")
  | .pLit ok l => s!"L{b01 ok}:" ++ (if ok then litBits pFloatDbl l else "-")
  | .pBool ok v => s!"B{b01 ok}:" ++ (if ok then b01 v else "-")
  | .pChoice ok t => s!"C{b01 ok}:" ++ (if ok then toString t else "-")
  | .pNumber ok sp tag lit u a b base =>
    if ok then s!"N1:{b01 sp}:{if sp then tag else 0}:{if sp then "0000000000000000" else numberBits lit a b}:{u}:{base}" else "N0"
  | .pBytes ok off d => s!"Y{b01 ok}:" ++ (if ok then s!"{off}:{hexOfBytes d}" else "-")
  | .pText ok d n => s!"X{b01 ok}:" ++ (if ok then s!"{hexOfBytes d}:{b01 n}" else "-")
  | .pArr ok vs => s!"A{b01 ok}:" ++ (if vs.isEmpty then "-" else ",".intercalate (vs.map toString))
  | .tag t => s!"G{t}"
  | .nums ok l => s!"U{b01 ok}:" ++ (if l.isEmpty then "-" else ",".intercalate (l.map toString))
  | .test ok => s!"V{b01 ok}"
  | .error c _ => s!"E{c}"
  | .input r => s!"R{b01 r}"
  | .parseMsg m => s!"P{hexOfBytes m}"
  | .noError => "E0"
  | .reset => "Z"

/-- which float reader produced each pLit event is needed to pick 32/64 bits: recover it from the script -/
def floatWidths (cmds : List Cmd) (evs : List Ev) : List Bool :=
  -- walk events; at each handler event load that command's float-reader widths in order
  let rec go : List Ev → List Bool → List Bool → List Bool
    | [], _, acc => acc.reverse
    | .handler t _ :: es, _, acc =>
      let ws := match cmds.find? (fun c => c.tag == t) with
        | some c => c.script.filterMap (fun o => match o with | .pFloat d _ => some d | _ => none)
        | none => []
      go es ws acc
    | .pLit .. :: es, w :: ws, acc => go es ws (w :: acc)
    | .pLit .. :: es, [], acc => go es [] (true :: acc)
    | _ :: es, ws, acc => go es ws acc
  go evs [] []

/-- entry without a handler (see parseTable) -/
def isNullCb (c : Cmd) : Bool := c.script == [SOp.onFail false]

def renderEvents (cmds : List Cmd) (evs : List Ev) : List String :=
  -- no handler-entered token for entries without a handler
  let evs := evs.filter (fun e => match e with
    | .handler t _ => !(cmds.any (fun c => c.tag == t && isNullCb c))
    | _ => true)
  let ws := floatWidths cmds evs
  let rec go : List Ev → List Bool → List String → List String
    | [], _, acc => acc.reverse
    | (.pLit ok l) :: es, w :: ws, acc => go es ws (evStr w (.pLit ok l) :: acc)
    | e :: es, ws, acc => go es ws (evStr true e :: acc)
  go evs ws []

/-- run the chunks through the model; after each call append W/F/R like the harness does -/
def runChunks (c : Ctx) (chunks : List String) : Option (Ctx × List String) :=
  chunks.foldlM (fun (acc : Ctx × List String) ch => do
    if ch.startsWith "=G" then
      -- the instrument itself changes a register between messages: SCPI_RegSet(reg, value)
      match (ch.drop 2).toString.splitOn ":" with
      | [r, v] =>
        let r ← r.toNat?; let v ← parseHexNat v
        if r < Regs.regCount then
          let c1 := regStep acc.1 (.set r (BitVec.ofNat 16 v))
          pure (c1, acc.2 ++ [s!"g{r}:{hex4 (v % 65536)}"] ++ (c1.regs.srq.drop acc.1.regs.srq.length).map (fun q => "Q" ++ hex4 q.toNat))
        else pure acc
      | _ => none
    else if ch == "=S" then
      -- snapshot of the status registers and the error count
      pure (acc.1, acc.2 ++ ["s" ++ ".".intercalate (acc.1.regs.regs.map (fun r => hex4 r.toNat)) ++ s!",{acc.1.eq.count}"])
    else if ch.startsWith "=L" then
      -- a complete NUL-terminated line handed straight to SCPI_Parse (in an object of its own)
      let line ← unhex (let h := (ch.drop 2).toString; if h.isEmpty then "-" else h)
      let c0 := { acc.1 with events := [], out := { acc.1.out with written := [], flushes := 0 } }
      let (c1, obj, r) := Ctx.parseLine c0 line
      let evs := renderEvents c1.cmds c1.events
      let t := [s!"T{b01 (obj.getD line.length 1 == 0)}"]
      let w := if c1.out.written.isEmpty then [] else ["W" ++ hexOfBytes c1.out.written]
      let f := if c1.out.flushes == 0 then [] else [s!"F{c1.out.flushes}"]
      let q := (c1.regs.srq.drop c0.regs.srq.length).map (fun q => "Q" ++ hex4 q.toNat)
      pure (c1, acc.2 ++ evs ++ t ++ w ++ f ++ q ++ [s!"R{b01 r}"])
    else
    let data ← if ch == "-" then some [] else unhex ch
    let c0 := { acc.1 with events := [], out := { acc.1.out with written := [], flushes := 0 } }
    let c1 := Ctx.input c0 data
    -- the overflow callback: the model's queue reports it; render E-350 right after the push that overflowed
    let evs := renderEvents c1.cmds (c1.events.filter (fun e => match e with | .input _ => false | _ => true))
    let r := match c1.events.getLast? with | some (.input r) => r | _ => true
    let w := if c1.out.written.isEmpty then [] else ["W" ++ hexOfBytes c1.out.written]
    let f := if c1.out.flushes == 0 then [] else [s!"F{c1.out.flushes}"]
    let q := (c1.regs.srq.drop c0.regs.srq.length).map (fun q => "Q" ++ hex4 q.toNat)
    some (c1, acc.2 ++ evs ++ w ++ f ++ q ++ [s!"R{b01 r}"])) (c, [])

def finishStr (c : Ctx) : List String :=
  let q := Fifo.EQ.abs c.eq
  ["M" ++ hexOfBytes (c.buf.take c.position),
   "S" ++ ".".intercalate (c.regs.regs.map (fun r => hex4 r.toNat)),
   "D" ++ (if q.isEmpty then "-" else ",".intercalate (q.map (fun e => s!"{e.1}:" ++ (match e.2 with | some t => hexOfBytes t | none => "N"))))]

end ScpiVerif.Drv

namespace ScpiVerif.Drv
open ScpiVerif.Ctx ScpiVerif.Lexer

/-- split the chunk tokens of a P8 / P9 case at "|" -/
def splitBar (l : List String) : List String × List String :=
  (l.takeWhile (· != "|"), (l.dropWhile (· != "|")).drop 1)

/-- drain the queue of a model context like the harness does before re-seeding (P9) -/
def drainQueue (c : Ctx) : Ctx × List (Int × Option Bytes) :=
  let rec go : Nat → Ctx → List (Int × Option Bytes) → Ctx × List (Int × Option Bytes)
    | 0, c, acc => (c, acc)
    | n+1, c, acc =>
      if c.eq.count == 0 then (c, acc) else
      let (eq, e) := c.eq.sysErrNext
      go n { c with eq := eq, regs := Regs.errPop c.regs } (acc ++ [(e.code, e.info.map (·.2))])
  go (c.eq.count + 1) c []

def seed (c : Ctx) (q : List (Int × Option Bytes)) (regs : List Regs.Reg) : Ctx :=
  let c := q.foldl (fun c e => pushError c e.1 e.2) c
  { c with regs := { c.regs with regs := regs }, events := [] }

/-- model observation of a P / P8 / P9 case -/
def modelParse (cfg : String) (inp : List String) : Option (List String × List Cmd) := do
  let mode :: bs :: qc :: tbl :: chunks := inp | none
  let bs ← bs.toNat?; let qc ← qc.toNat?
  let cmds ← parseTable tbl
  let fresh := Ctx.init cmds [choice0, choice1] bs qc (cfg != "C")
  if mode == "P" then
    let (c, evs) ← runChunks fresh chunks
    pure (evs ++ finishStr c, cmds)
  else if mode == "P8" then
    let (a, b) := splitBar chunks
    let (c1, e1) ← runChunks fresh a
    let (c2, e2) ← runChunks fresh b
    pure (e1 ++ finishStr c1 ++ ["||"] ++ e2 ++ finishStr c2, cmds)
  else if mode == "PU" then
    -- unit isolation: "u1;u2<NL>" as one message || "u1<NL>" || "u2<NL>" on a fresh context with run 2's registers and queue
    let (a, b) := splitBar chunks
    let u1 := a.headD "-"; let u2 := b.headD "-"
    let hx := fun (x : String) => if x == "-" then "" else x
    let (d1, e1) ← runChunks fresh [hx u1 ++ "3b" ++ hx u2 ++ "0a"]
    let (d3, e3) ← runChunks fresh [hx u1 ++ "0a"]
    let (_, q) := drainQueue d3
    let c2 := seed fresh q d3.regs.regs
    let c2 := { c2 with cmdError := fresh.cmdError }
    let (d2, e2) ← runChunks c2 [hx u2 ++ "0a"]
    pure (e1 ++ finishStr d1 ++ ["||"] ++ e3 ++ finishStr d3 ++ ["||"] ++ e2 ++ finishStr d2, cmds)
  else
    let (a, b) := splitBar chunks
    let (c1, _) ← runChunks fresh a
    let regs := c1.regs.regs
    -- context 1 is left as A left it (pending tail dropped); context 2 is fresh with A's registers and queue content only
    let (_, q) := drainQueue c1
    let pendingA := c1.buf.take c1.position
    -- pending input of A is part of the stream: context 1 keeps it as A's calls left it, the fresh context receives the
    -- same bytes in a call of its own
    let c1 := { c1 with events := [] }
    let c2 := seed fresh q regs
    let c2 := { c2 with cmdError := fresh.cmdError }
    let c2 := if pendingA.isEmpty then c2 else { Ctx.input c2 pendingA with events := [] }
    let (d1, e1) ← runChunks c1 b
    let (d2, e2) ← runChunks c2 b
    pure (["K" ++ hexOfBytes pendingA] ++ e1 ++ finishStr d1 ++ ["||"] ++ e2 ++ finishStr d2, cmds)

end ScpiVerif.Drv
