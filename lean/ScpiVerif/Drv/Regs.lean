import ScpiVerif.Drv.Util
import ScpiVerif.Model.Regs
namespace ScpiVerif.Drv
open ScpiVerif.Regs

def parseROp (t : String) : Option Op :=
  match t.splitOn "," with
  | ["s", r, v] => do some (.set (← r.toNat?) (BitVec.ofNat 16 (← parseHexNat v)))
  | ["b", r, v] => do some (.setBits (← r.toNat?) (BitVec.ofNat 16 (← parseHexNat v)))
  | ["c", r, v] => do some (.clearBits (← r.toNat?) (BitVec.ofNat 16 (← parseHexNat v)))
  | ["e", c] => do some (.errPush (← parseInt c))
  | ["o"] => some .errPop
  | ["k"] => some .errClear
  | ["L"] => some .cls
  | ["q0"] => some .esrQ
  | ["q1"] => some .operQ
  | ["q2"] => some .quesQ
  | ["r"] => some .preset
  | _ => none

/-- an operation of a case: a model operation, or "the application stores its own status-byte bits", which becomes a write
of the status byte whose value depends on the state it is applied to: summary bits (2, 3, 5, 7) as they are, bits 0, 1, 4 as
given, bit 6 kept or cleared -/
inductive ROp where
  | plain (o : Op)
  | app (bits : Reg) (keep6 : Bool)

def ROp.resolve (s : St) : ROp → Op
  | .plain o => o
  | .app bits keep6 =>
    let cur := get s STB
    .set STB ((cur &&& 0xAC#16) ||| (bits &&& 0x13#16) ||| (if keep6 then cur &&& 0x40#16 else 0#16))

def parseROp' (t : String) : Option ROp :=
  match t.splitOn "," with
  | ["a", b, k] => do some (.app (BitVec.ofNat 16 (← parseHexNat b)) (k != "0"))
  | _ => (parseROp t).map .plain

def regsStr (s : St) (srq : List Reg) (cb : List Int) : String :=
  ".".intercalate (s.regs.map (fun r => hex4 r.toNat)) ++ s!",{s.qn}," ++
  (if srq.isEmpty then "-" else "/".intercalate (srq.map (fun r => hex4 r.toNat))) ++ "," ++
  (if cb.isEmpty then "-" else "/".intercalate (cb.map toString))

/-- parse an implementation observation token back into (registers, count, srq values) -/
def parseRObs (cap : Nat) (t : String) : Option (St × List Reg × Bool) :=
  match t.splitOn "," with
  | [rs, qn, srq, _] => do
    let regs ← (rs.splitOn ".").mapM (fun h => (parseHexNat h).map (BitVec.ofNat 16))
    let qn ← qn.toNat?
    -- an entry "vvvv!ssss" means the callback value vvvv differed from the status byte ssss at that moment
    let items := if srq == "-" then [] else srq.splitOn "/"
    let srqv ← items.mapM (fun h => (parseHexNat ((h.splitOn "!").headD "")).map (BitVec.ofNat 16))
    some ({ regs, qn, cap, srq := [], errcb := [] }, srqv, items.any (fun h => (h.splitOn "!").length > 1))
  | _ => none

def isClearing (ev : Nat) : Op → Bool
  | .set n _ => n == ev
  | .clearBits n _ => n == ev
  | .cls => true
  | .esrQ => ev == ESR
  | .operQ => ev == OPER
  | .quesQ => ev == QUES
  | .preset => ev == QUES
  | _ => false

/-- judge one transition of the implementation: before, op, after, srq values emitted -/
def judgeR (before : St) (op : Op) (after : St) (srq : List Reg) (srqStale : Bool := false) (appWrite : Bool := false) : List String :=
  -- operations of the property's histories: everything but writes to the status byte, plus the application's handling of
  -- its own status-byte bits (0, 1, 4) - bit 6 may be passed either way, the library recomputes it
  let ok := op.ok || appWrite || (match op with
    | .setBits n v => n == STB && (v &&& 0xFFAC#16) == 0
    | .clearBits n v => n == STB && (v &&& 0xFFAC#16) == 0
    | _ => false)
  let c11 := if ok && decide (Coherent before) && !decide (Coherent after) then
      -- name the equivalence that broke
      let stb := get after STB
      (if (decide (stb &&& bit Gen.STB_ESR ≠ 0)) != decide (get after ESR &&& get after ESE ≠ 0) then ["C11.esb_summary"] else []) ++
      (if (decide (stb &&& bit Gen.STB_OPS ≠ 0)) != decide (get after OPER &&& get after OPERE ≠ 0) then ["C11.oper_summary"] else []) ++
      (if (decide (stb &&& bit Gen.STB_QES ≠ 0)) != decide (get after QUES &&& get after QUESE ≠ 0) then ["C11.ques_summary"] else []) ++
      (if (decide (stb &&& bit Gen.STB_QMA ≠ 0)) != decide (after.qn ≠ 0) then ["C11.error_available"] else []) ++
      (if (decide (stb &&& bit Gen.STB_SRQ ≠ 0)) != decide ((stb &&& ~~~bit Gen.STB_SRQ) &&& (get after SRE &&& ~~~bit Gen.STB_SRQ) ≠ 0) then ["C11.mss"] else [])
    else []
  let c12class := match op with
    | .errPush code =>
      if get after ESR == (get before ESR ||| specClassBit code) then []
      else if code > 0 then ["C12.class_bit_positive"] else ["C12.class_bit"]
    | _ => []
  let c12latch := match op with
    | .set n v =>
      if n == OPERC ∧ get after OPER != (get before OPER ||| (v &&& ~~~(get before OPERC))) then ["C12.cond_latch"]
      else if n == QUESC ∧ get after QUES != (get before QUES ||| (v &&& ~~~(get before QUESC))) then ["C12.cond_latch"]
      else []
    | _ => []
  let c12mono := [ESR, OPER, QUES].flatMap (fun ev =>
      if ok && !isClearing ev op && (get before ev &&& ~~~(get after ev)) != 0 then ["C12.event_lost"] else [])
  let c12srq :=
    (if srq.any (fun v => v &&& stbSRQ == 0) then ["C12.srq_without_mss"] else []) ++
    (if srqStale then ["C12.srq_value_not_status_byte"] else []) ++
    (if ok && decide (Coherent before) && !mss before && mss after && srq.isEmpty then ["C12.srq_missing_on_rise"] else []) ++
    (if ok && !mss after && !srq.isEmpty && !(match op with | .errPush _ => true | .cls => true | _ => false) then ["C12.srq_while_mss_clear"] else [])
  c11 ++ c12class ++ c12latch ++ c12mono ++ c12srq

/-- R <cap> <op>... => <obs>... -/
def runRegs (inp : List String) (obs : List String) : Option Verdict := do
  let _ :: cap :: ops := inp | none
  let cap ← cap.toNat?
  let ops ← ops.mapM parseROp'
  let (_, mo) := ops.foldl (fun (acc : St × List String) rop =>
      let s0 := { acc.1 with srq := [], errcb := [] }
      let s1 := step s0 (rop.resolve s0)
      (s1, acc.2 ++ [regsStr s1 s1.srq s1.errcb])) (St.init cap, [])
  let rej :=
    if obs.length != ops.length then ["C11.malformed_observation"]
    else
      let (_, r) := (List.zip ops obs).foldl (fun (acc : Option St × List String) x =>
        match acc.1, parseRObs cap x.2 with
        | some before, some (after, srq, stale) => (some after, acc.2 ++ judgeR before (x.1.resolve before) after srq stale (match x.1 with | .app .. => true | _ => false))
        | _, _ => (none, acc.2 ++ ["C11.malformed_observation"])) (some (St.init cap), [])
      r.eraseDups
  let kinds := ops.map (fun ro => match ro with
    | .app .. => "appStb"
    | .plain o => match o with
    | .set n _ => s!"set{n}" | .setBits .. => "setBits" | .clearBits .. => "clearBits" | .errPush _ => "errPush"
    | .errPop => "errPop" | .errClear => "errClear" | .cls => "cls" | .esrQ => "esrQ" | .operQ => "operQ" | .quesQ => "quesQ" | .preset => "preset")
  pure { modelObs := " ".intercalate mo, rejects := rej, nontrivial := ops.length ≥ 1, tags := kinds.eraseDups }

end ScpiVerif.Drv
