import ScpiVerif.Drv.Util
import ScpiVerif.Drv.Parse
import ScpiVerif.Spec.Float
import ScpiVerif.Gen.Tables
import ScpiVerif.Model.Dtostre
import ScpiVerif.Model.BufFmt
namespace ScpiVerif.Drv
open ScpiVerif.Lexer

/-- exact value of a finite IEEE double / float bit pattern as (negative, numerator, denominator); none for NaN / infinity -/
def exactOfBits (bits : Nat) (p w : Nat) : Option (Bool × Nat × Nat) :=
  let neg := bits / 2^(p - 1 + w) % 2 == 1
  let e := bits / 2^(p-1) % 2^w
  let f := bits % 2^(p-1)
  let bias := 2^(w-1) - 1
  if e == 2^w - 1 then none
  else
    let (m, ex) : Nat × Int := if e == 0 then (f, (1 : Int) - bias - (p - 1)) else (f + 2^(p-1), (e : Int) - bias - (p - 1))
    if ex ≥ 0 then some (neg, m * 2^ex.toNat, 1) else some (neg, m, 2^(-ex).toNat)

/-- |a/b − c/d| ≤ n/m, all non-negative rationals -/
def ratDistLe (a b c d n m : Nat) : Bool :=
  let x := a * d; let y := c * b
  let diff := if x ≥ y then x - y else y - x
  diff * m ≤ n * (b * d)

/-- decimal exponent E with 10^E ≤ a/b < 10^(E+1) (a > 0) -/
def decExp (a b : Nat) : Int :=
  let rec up : Nat → Nat → Int → Int
    | 0, _, e => e
    | f+1, pw, e => if a ≥ b * pw * 10 then up f (pw * 10) (e + 1) else e
  let rec down : Nat → Nat → Int → Int
    | 0, _, e => e
    | f+1, pw, e => if a * pw < b then down f (pw * 10) (e - 1) else e
  if a ≥ b then up 400 1 0 else down 400 10 (-1)

/-- is `text` within `num/den` units of the `prec`-th significant digit of the exact value? -/
def withinDigits (text : Bytes) (exact : Bool × Nat × Nat) (prec : Nat) (num den : Nat) : Bool :=
  match Spec.Float.litValue text with
  | none => false
  | some (tneg, ta, tb) =>
    let (neg, a, b) := exact
    if a == 0 then ta == 0
    else if tneg != neg ∧ ta != 0 then false
    else
      let e := decExp a b
      -- unit of the last requested digit: 10^(e - prec + 1)
      let k : Int := e - prec + 1
      if k ≥ 0 then ratDistLe ta tb a b (num * 10^k.toNat) den else ratDistLe ta tb a b num (den * 10^(-k).toNat)

def lowerBytes (b : Bytes) : Bytes := b.map (fun c => if 65 ≤ c ∧ c ≤ 90 then c + 32 else c)

/-- F d|f|e|n … => <ret> <hex text> <nul> <ok> -/
def runBufFmt (cfg : String) (inp : List String) (obs : List String) : Option Verdict := do
  let _ :: kind :: args := inp | none
  let ret :: hx :: nul :: okp :: extra := obs | none
  let ret ← ret.toNat?; let text ← unhex hx
  let common := fun (buflen : Nat) =>
    (if ret != text.length then ["C15.return_value"] else []) ++
    (if buflen > 0 ∧ nul != "1" then ["C15.not_terminated"] else []) ++
    (if buflen > 0 ∧ text.length ≥ buflen then ["C15.write_beyond_buffer"] else []) ++
    (if okp != "1" then ["C15.returned_pointer"] else [])
  let custom := cfg == "D"
  match kind, args with
  | "d", [bits, buflen, oracle] | "f", [bits, buflen, oracle] => do
    let dbl := kind == "d"
    let bits ← parseHexNat bits; let buflen ← buflen.toNat?; let oracle ← unhex oracle
    let prec := if dbl then 15 else 6
    let exact := if dbl then exactOfBits bits 53 11 else exactOfBits bits 24 8
    let want := oracle.take (buflen - 1)
    let c15 := common buflen ++ (if !custom ∧ buflen > 0 ∧ text != want then ["C15.text_truncation"] else [])
    let c16 :=
      if text.length + 1 ≥ buflen then []      -- the caller's buffer is full: truncated text, not a statement about digits
      else match exact with
        | none =>
          let t := lowerBytes text
          if t == Result.bytesOf "nan" ∨ t == Result.bytesOf "-nan" ∨ t == Result.bytesOf "inf" ∨ t == Result.bytesOf "-inf" then [] else ["C16.nonfinite_spelling"]
        | some ex =>
          -- printf build: half a unit of the last emitted digit; own formatter: one unit
          if withinDigits text ex prec (if custom then 1 else 1) (if custom then 1 else 2) then [] else
            [if !custom then "C16.printf_digits"
             else if withinDigits text ex prec 3 1 ∧ prec ≥ 14 then "C16.custom_formatter_accumulated_error" else "C16.custom_formatter_digits"]
    -- printf build: the bounded-writer model on the text snprintf produces; own-formatter build: see kind 'e'
    let modelObs :=
      if custom then " ".intercalate obs else
      let (b, r) := BufFmt.doubleToStr (BufFmt.Buf.fresh buflen) buflen oracle
      let t := (b.cstring.getD [])
      s!"{r} {hexOfBytes t} {if buflen == 0 then 0 else 1} {if b.oob || b.uninit then 0 else 1}"
    pure { modelObs, rejects := c15 ++ c16, nontrivial := true,
           tags := [kind, if buflen == 0 then "len0" else if text.length + 1 == buflen then "truncated" else "fits", if exact.isNone then "nonfinite" else "finite"] }
  | "R", [bits, oracle] | "r", [bits, oracle] => do
    -- SCPI_ResultDouble / SCPI_ResultFloat: the text passes through the library's own scratch buffer (size regenerated
    -- from parser.c), so a cut text is a violation here, not the caller's choice
    let dbl := kind == "R"
    let bits ← parseHexNat bits; let oracle ← unhex oracle
    let prec := if dbl then 15 else 6
    let exact := if dbl then exactOfBits bits 53 11 else exactOfBits bits 24 8
    let scratch := if dbl then Gen.bufDouble else Gen.bufFloat
    let c16 :=
      (if ret != text.length then ["C16.result_return_value"] else []) ++
      (match exact with
        | none =>
          let t := lowerBytes text
          if t == Result.bytesOf "nan" ∨ t == Result.bytesOf "-nan" ∨ t == Result.bytesOf "inf" ∨ t == Result.bytesOf "-inf" then [] else ["C16.nonfinite_spelling"]
        | some ex =>
          if withinDigits text ex prec 1 (if custom then 1 else 2) then [] else
            [if !custom then "C16.result_digits"
             else if withinDigits text ex prec 3 1 ∧ prec ≥ 14 then "C16.custom_formatter_accumulated_error" else "C16.custom_formatter_digits"])
    let modelObs :=
      if custom then " ".intercalate obs else
      let (b, r) := BufFmt.doubleToStr (BufFmt.Buf.fresh scratch) scratch oracle
      s!"{r} {hexOfBytes (b.cstring.getD [])} 1 1"
    pure { modelObs, rejects := c16, nontrivial := true, tags := [kind, if exact.isNone then "nonfinite" else "finite"] }
  | "e", [bits, buflen, prec, flags] => do
    let bits ← parseHexNat bits; let buflen ← buflen.toNat?; let prec ← prec.toNat?; let flags ← flags.toNat?
    let exact := exactOfBits bits 53 11
    let c16 :=
      if buflen < 32 ∧ text.length + 1 ≥ buflen then []
      else match exact with
        | none => let t := lowerBytes (text.dropWhile (fun b => b == 43 || b == 32 || b == 45))
                  if t == Result.bytesOf "nan" ∨ t == Result.bytesOf "inf" then [] else ["C16.nonfinite_spelling"]
        | some ex =>
          let t := text.dropWhile (fun b => b == 43 || b == 32)      -- PLUS_SIGN / ALWAYS_SIGN flags
          if withinDigits t ex prec 1 1 then []
          else if withinDigits t ex prec 3 1 ∧ prec ≥ 14 then ["C16.custom_formatter_accumulated_error"] else ["C16.custom_formatter_digits"]
    -- model of the string assembly on the digits / exponent the digit generator produced
    let modelObs := match exact, extra with
      | some _, [dg, dp] =>
        match unhex dg, parseInt dp with
        | some digits, some decpt =>
          let neg := bits / 2^63 == 1
          let full := Dtostre.signPrefix neg false flags ++ Dtostre.assemble prec digits decpt
          let t := if buflen == 0 then [] else full.take (buflen - 1)
          s!"{t.length} {hexOfBytes t} {if buflen == 0 then 0 else 1} 1 {dg} {dp}"
        | _, _ => " ".intercalate obs
      | _, _ => " ".intercalate obs
    pure { modelObs, rejects := common buflen ++ c16, nontrivial := true,
           tags := ["e", s!"prec{prec}", if flags == 0 then "noflags" else "flags", if exact.isNone then "nonfinite" else "finite"] }
  | "n", [special, tag, _bits, unit, buflen, oracle] => do
    let special := special != "0"; let tag ← parseInt tag; let unit ← unit.toNat?; let buflen ← buflen.toNat?; let _ ← unhex oracle
    let oracle ← unhex (extra.headD "-")       -- this build's own number text with ample room
    -- the full text: special name, or number followed by a blank and the base unit's name
    let full : Bytes :=
      if special then
        match Gen.specialNumbersDef.find? (fun p => p.2 == tag) with
        | some p => p.1.toUTF8.toList
        | none => []
      else
        match Gen.unitsDef.find? (fun u => u.2.1 == unit ∧ u.2.2.1 == 1 ∧ u.2.2.2 == 1) with
        | some u => oracle ++ [32] ++ u.1.toUTF8.toList
        | none => oracle
    let c15 := (if buflen == 0 then (if ret != 0 then ["C15.return_value"] else []) else common buflen) ++
      (if buflen > 0 ∧ text != full.take text.length then ["C15.text_not_a_prefix"] else [])
    let (b, r) := BufFmt.numberToStr (BufFmt.Buf.fresh buflen) buflen special tag oracle unit
    let modelObs := s!"{r} {hexOfBytes (b.cstring.getD [])} {if buflen == 0 then 0 else 1} {if b.oob || b.uninit then 0 else 1} {extra.headD "-"}"
    pure { modelObs, rejects := c15, nontrivial := true,
           tags := ["n", if special then "special" else "number", if buflen == 0 then "len0" else if text.length + 1 == buflen then "truncated" else "fits"] }
  | _, _ => none

end ScpiVerif.Drv
