import ScpiVerif.Drv.Util
import ScpiVerif.Drv.Queue
import ScpiVerif.Model.Heap
namespace ScpiVerif.Drv
open ScpiVerif.Heap

def parseHOp (t : String) : Option Op :=
  match t.splitOn "," with
  | ["p", c, h, l] => do
    let c ← parseInt c; let l ← l.toNat?
    let info ← if h == "N" then some none else (unhex h).map some
    some (.push c info l)
  | ["s"] => some .sysErr
  | ["k"] => some .clear
  | ["c"] => some .count
  | _ => none

def hObsStr (h : Heap) : Obs → String
  | .pushed cbs => "P" ++ "/".intercalate (cbs.map toString) ++ s!",U{h.size - h.count}/{h.wr}"
  | .popped c t => s!"O{c},{textHex t},U{h.size - h.count}/{h.wr}"
  | .cleared => s!"K,U{h.size - h.count}/{h.wr}"
  | .counted n => s!"C{n}"

/-- strip the ",U<used>/<wr>" suffix -/
def visible (t : String) : String := (t.splitOn ",U").headD ""

/-- H <cap> <heapsize> <op>... => <obs>... Z<heap> -/
def runHeap (inp : List String) (obs : List String) : Option Verdict := do
  let _ :: cap :: hs :: ops := inp | none
  let cap ← cap.toNat?; let hs ← hs.toNat?
  let ops ← ops.mapM parseHOp
  let (qf, mo) := ops.foldl (fun (acc : EQH × List String) op =>
      let (q', o) := EQH.step acc.1 op
      (q', acc.2 ++ [hObsStr q'.heap o])) (EQH.init cap hs, [])
  let mo := mo ++ ["Z" ++ hexOfBytes qf.heap.data]
  -- judge: abstract queue with full texts; a reported text may be absent, never different
  let (sq, so) := ops.foldl (fun (acc : Fifo.SpecQ × List Obs) op =>
      let (q', o) := specStep cap acc.1 op
      (q', acc.2 ++ [o])) ([], [])
  let implObs := obs.dropLast
  let zTok := obs.getLast?.getD ""
  let rej :=
    if implObs.length != so.length then ["C20.malformed_observation"]
    else
      let bad := (List.zip implObs so).filterMap (fun (o, s) =>
        match s with
        | .popped c t =>
          let full := visible (hObsStr qf.heap (.popped c t))
          let absent := visible (hObsStr qf.heap (.popped c none))
          let emptyT := visible (hObsStr qf.heap (.popped c (some [])))
          if visible o == full || visible o == absent || (t == some [] && visible o == emptyT) then none
          else if (visible o).startsWith s!"O{c}," then some "C20.text_not_intact" else some "C20.fifo_order"
        | other => if visible o == visible (hObsStr qf.heap other) then none else some "C20.queue_behaviour")
      let reuse := if sq.isEmpty && zTok != "Z" ++ hexOfBytes (List.replicate hs 0) then ["C20.heap_not_reusable"] else []
      (bad ++ reuse).eraseDups
  let rej := if qf.heap.oob then rej ++ ["C20.model_out_of_bounds"] else rej
  let nPush := (ops.filter (fun o => match o with | .push .. => true | _ => false)).length
  let refused := mo.any (fun t => t.startsWith "O" && (t.splitOn ",").getD 1 "" == "N") && nPush > 0
  let tags := [s!"cap{min cap 5}", if hs < 4 then "heap<4" else if hs ≤ 12 then "heap4-12" else "heap>12",
               if nPush > cap then "overflow" else "no_overflow", if refused then "some_text_absent" else "all_texts_or_none_pushed"]
  pure { modelObs := " ".intercalate mo, rejects := rej, nontrivial := ops.length ≥ 2, tags }

end ScpiVerif.Drv
