import ScpiVerif.Drv.Util
import ScpiVerif.Model.Fifo
import ScpiVerif.Gen.Tables
namespace ScpiVerif.Drv
open ScpiVerif.Fifo

def parseQOp (t : String) : Option Op :=
  match t.splitOn "," with
  | ["p", c, h, l, ok] => do
    let c ← parseInt c; let l ← l.toNat?
    let info ← if h == "N" then some none else (unhex h).map some
    some (.push c info l (ok != "0"))
  | ["o"] => some .pop
  | ["s"] => some .sysErr
  | ["k"] => some .clear
  | ["c"] => some .count
  | _ => none

def textHex : Option Bytes → String
  | none => "N"
  | some b => hexOfBytes b

def obsStr (live : Nat) : Obs → String
  | .pushed cbs => "P" ++ "/".intercalate (cbs.map toString) ++ s!",L{live}"
  | .popped c t => s!"O{c},{textHex t},L{live}"
  | .cleared => s!"K,L{live}"
  | .counted n => s!"C{n}"

def specLive (q : SpecQ) : Nat := (q.filter (fun e => e.2.isSome)).length

/-- Q <cap> <op>... => <obs>...   (withInfo from the configuration the harness was built with, VERIF_CFG) -/
def runQueue (cfg : String) (inp : List String) (obs : List String) : Option Verdict := do
  let _ :: cap :: ops := inp | none
  let cap ← cap.toNat?
  let ops ← ops.mapM parseQOp
  let withInfo := cfg != "C"
  -- model, step by step
  let (_, mo) := ops.foldl (fun (acc : EQ × List String) op =>
      let (q', o) := EQ.step withInfo acc.1 op
      (q', acc.2 ++ [obsStr q'.alloc.live.length o])) (EQ.init cap, [])
  -- judge: the abstract bounded FIFO, independent of the ring model
  let (_, so) := ops.foldl (fun (acc : SpecQ × List String) op =>
      let (q', o) := specStep cap withInfo acc.1 op
      (q', acc.2 ++ [obsStr (specLive q') o])) ([], [])
  let rej :=
    if obs.length != so.length then ["C10.malformed_observation"]
    else
      let bad := (List.zip (List.zip ops obs) so).filter (fun x => x.1.2 != x.2)
      match bad.head? with
      | none => []
      | some ((op, o), s) =>
        -- classify the first deviation
        let strip := fun (x : String) => (x.splitOn ",L").headD ""
        if strip o == strip s then ["C10.text_ownership"]       -- same visible result, live-allocation count differs
        else match op with
          | .push .. => ["C10.push_callbacks"]
          | .count => ["C10.count"]
          | .clear => ["C10.clear"]
          | _ => if (o.splitOn ",").headD "" == (s.splitOn ",").headD "" then ["C10.text_returned"] else ["C10.fifo_order"]
  let nPush := (ops.filter (fun o => match o with | .push .. => true | _ => false)).length
  let tags := [s!"cap{min cap 5}", if nPush > cap then "overflow" else "no_overflow",
               if ops.any (fun o => match o with | .push _ (some _) _ false => true | _ => false) then "alloc_fail" else "alloc_ok"]
  pure { modelObs := " ".intercalate mo, rejects := rej, nontrivial := ops.length ≥ 2, tags }

end ScpiVerif.Drv
