import ScpiVerif.Drv.Parse
import ScpiVerif.Drv.ParseJudge
import ScpiVerif.Spec.Params
import ScpiVerif.Spec.Float
namespace ScpiVerif.Drv
open ScpiVerif.Ctx ScpiVerif.Lexer ScpiVerif.Spec ScpiVerif.Spec.Message ScpiVerif.Spec.Params

/-- expectation for one token of the observation -/
inductive Want where
  | handler
  | err (code : Int) (why : String)
  | reader (letter : String) (ok : Bool) (why : String) (check : String → List String)   -- value check on the token text
  | other (letter : String)

def readerLetter : SOp → Option String
  | .pInt .. => some "I" | .pFloat .. => some "L" | .pBool _ => some "B" | .pChoice .. => some "C" | .pNumber _ => some "N"
  | .pChars _ => some "Y" | .pBlock _ => some "Y" | .pText .. => some "X" | .pArrInt .. => some "A" | _ => none

def wrapS (w : Nat) (x : Int) : Int := let m := x % (2^w : Int); if m ≥ 2^(w-1) then m - 2^w else m

/-- value clauses (C04 / C05 "delivered whole") for a successfully read item -/
def valueCheck (op : SOp) (it : Item) (data : Bytes) (dataAbs : Nat) : String → List String :=
  let txt := (data.drop it.off).take it.len
  fun tok =>
    let fields := (tok.drop 3).toString.splitOn ":"
    match op with
    | .pInt w signed _ =>
      let got := (fields.headD "").toInt?
      if it.type == .decimal then
        match intLiteral txt with
        | some v =>
          let inRange := if signed then (-(2^(w-1) : Int) ≤ v ∧ v < 2^(w-1)) else (0 ≤ v ∧ v < 2^w)
          if inRange ∧ got != some v then ["C04.integer_value"] else []
        | none => []
      else if isNumeric it.type then
        let v := nondecimalValue it.type txt
        if v < 2^w ∧ got != some (if signed then wrapS w v else (v : Int)) then ["C04.nondecimal_value"] else []
      else []
    | .pFloat dbl _ =>
      if it.type == .decimal then
        match Spec.Float.litValue txt with
        | some (neg, a, b) =>
          let want := if dbl then hexN (Spec.Float.doubleBits neg a b) 16 else hexN (Spec.Float.floatBits neg a b) 8
          if fields.headD "" == want then []
          else if txt.any isWs then ["C04.whitespace_in_literal"] else ["C04.decimal_value"]
        | none => []
      else if isNumeric it.type then
        let v := nondecimalValue it.type txt
        let lim := if dbl then 2^64 else 2^32
        let want := if dbl then hexN (Spec.Float.doubleBits false v 1) 16 else hexN (Spec.Float.floatBits false v 1) 8
        if v < lim ∧ fields.headD "" != want then ["C04.nondecimal_as_float"] else []
      else []
    | .pNumber _ =>
      -- N1:<special>:<tag>:<bits>:<unit>:<base>
      match fields with
      | [sp, tag, bits, unit, base] =>
        if it.type == .programMnemonic then
          match Gen.specialNumbersDef.find? (fun o => nameMatches o.1.toUTF8.toList txt) with
          | some o => if sp == "1" ∧ tag == toString o.2 then [] else ["C04.special_mnemonic"]
          | none => []
        else if it.type == .decimal ∨ it.type == .decimalWithSuffix then
          let numPart := match specToken .decimal txt with | some e => txt.take e.consumed | none => txt
          let suffix := suffixOf txt
          let u := if it.type == .decimal then some (0, 1, 1) else
            (Gen.unitsDef.find? (fun u => Pattern.ciEq suffix u.1.toUTF8.toList)).map (fun u => (u.2.1, u.2.2.1, u.2.2.2))
          match u, Spec.Float.litValue numPart with
          | some (ut, a, b), some (neg, x, y) =>
            let v := Float.ofBits (UInt64.ofNat (Spec.Float.doubleBits neg x y))
            let m := Float.ofBits (UInt64.ofNat (Spec.Float.doubleBits false a b))
            let want := if a == 1 ∧ b == 1 then hexN v.toBits.toNat 16 else hexN (v * m).toBits.toNat 16
            (if sp != "0" ∨ base != "10" then ["C04.number_fields"] else []) ++
            (if unit != toString ut then ["C04.unit_tag"] else []) ++
            (if bits != want then (if numPart.any isWs then ["C04.whitespace_in_literal"] else ["C04.unit_multiplier_or_value"]) else [])
          | _, _ => []
        else if isNumeric it.type then
          let v := nondecimalValue it.type txt
          let wantBase := if it.type == .hexnum then "16" else if it.type == .octnum then "8" else "2"
          (if base != wantBase then ["C04.number_base"] else []) ++
          (if v < 2^64 ∧ bits != hexN (Spec.Float.doubleBits false v 1) 16 then ["C04.nondecimal_as_float"] else [])
        else []
      | _ => []
    | .pChars _ =>
      let (o, l) := if it.type == .singleQuote ∨ it.type == .doubleQuote then (it.off + 1, it.len - 2) else (it.off, it.len)
      if fields == [toString (dataAbs + o), hexOfBytes ((data.drop o).take l)] then [] else ["C05.item_not_delivered_whole"]
    | .pBlock _ =>
      if fields == [toString (dataAbs + it.off), hexOfBytes txt] then [] else ["C05.item_not_delivered_whole"]
    | _ => []

/-- expected tokens of one handler invocation over the unit's items -/
def wantUnit (script : List SOp) (items : List Item) (data : Bytes) (dataAbs : Nat) : List Want :=
  let itemOf := fun (it : Item) =>
    -- the text a reader classifies: whole literal (for #H… the digits, the type tells the rest)
    (it.type, (data.drop it.off).take it.len)
  let rec go : List SOp → List Item → Bool → Bool → Nat → List Want → List Want
    -- (script, remaining items, stopOnFail, anyError, bytes still announced for the open block) accumulating
    | [], rest, _, anyErr, _, acc =>
      let acc := if !rest.isEmpty ∧ !anyErr then acc ++ [.err (-108) "unread_parameters"] else acc
      acc
    | op :: ops, rest, stop, anyErr, remaining, acc =>
      match op with
      | .ret ok =>
        let acc := if !ok ∧ !anyErr then acc ++ [.err (-200) "execution_error"] else acc
        let anyErr := anyErr || !ok
        if !rest.isEmpty ∧ !anyErr then acc ++ [.err (-108) "unread_parameters"] else acc
      | .onFail s => go ops rest s anyErr remaining acc
      | .ePush code _ => go ops rest stop true remaining (acc ++ [.err code "script_error"])
      | .iTag => go ops rest stop anyErr remaining (acc ++ [.other "G"])
      | .iNums .. => go ops rest stop anyErr remaining (acc ++ [.other "U"])
      | .rBlockHeader n => go ops rest stop anyErr n acc
      | .rBlock _ => go ops rest stop anyErr 0 acc
      | .rBlockData d =>
        -- a chunk beyond the announced length is refused with -310
        if d.length > remaining then go ops rest stop true remaining (acc ++ [.err (-310) "block_overlength"])
        else go ops rest stop anyErr (remaining - d.length) acc
      | .rArrBin sz _ _ =>
        if sz == 1 ∨ sz == 2 ∨ sz == 4 ∨ sz == 8 then go ops rest stop anyErr 0 acc
        else go ops rest stop true remaining (acc ++ [.err (-310) "array_item_size"])
      | .builtin b =>
        -- the library's handlers: *RST calls the reset callback; *ESE *SRE STAT:…:ENAB read one mandatory int32 (no reader
        -- token: the real handler is called), and *ESE / *SRE return an error when it fails
        match b with
        | .rst => go ops rest stop anyErr remaining (acc ++ [.other "Z"])
        | .ese | .sre | .quesEnab | .operEnab =>
          match expect (.int 32 true) true (rest.head?.map itemOf) with
          | .ok => go ops (rest.drop 1) stop anyErr remaining acc
          | .fail e =>
            let acc := acc ++ (match e with | some x => [Want.err x "reader_error"] | none => [])
            let anyErr' := anyErr || e.isSome
            if b == .ese || b == .sre then (if !anyErr' then acc ++ [.err (-200) "execution_error"] else acc)
            else go ops (rest.drop 1) stop anyErr' remaining acc
        | _ => go ops rest stop anyErr remaining acc
      | .pArrInt w s cap m =>
        -- up to cap integers; the first follows `m`, the others are optional
        let rd := Reader.int w s
        let rec arr : Nat → List Item → Bool → List Int → Bool × List Item × List Int
          | 0, rest, _, errs => (true, rest, errs)
          | n+1, rest, mand, errs =>
            match expect rd mand (rest.head?.map itemOf) with
            | .ok => arr n (rest.drop 1) false errs
            | .fail e => (!mand, if rest.isEmpty then rest else rest.drop 1, errs ++ (match e with | some x => [x] | none => []))
        let (ok, rest', errs) := arr cap rest m []
        let acc := acc ++ errs.map (fun e => Want.err e "array_element") ++ [.reader "A" ok "array" (fun _ => [])]
        if !ok ∧ stop then
          (if errs.isEmpty then acc ++ [.err (-200) "execution_error"] else acc)
        else go ops rest' stop (anyErr || !errs.isEmpty) remaining acc
      | _ =>
        match readerLetter op with
        | none => go ops rest stop anyErr remaining acc
        | some letter =>
          let (rd, mand) : Reader × Bool := match op with
            | .pInt w s m => (.int w s, m) | .pFloat d m => (.float d, m) | .pBool m => (.bool, m)
            | .pChoice m k => (.choice (if k == 0 then choice0 else choice1), m) | .pNumber m => (.number, m)
            | .pChars m => (.chars, m) | .pBlock m => (.block, m) | .pText m _ => (.text, m) | _ => (.chars, false)
          let it := rest.head?
          match expect rd mand (it.map itemOf) with
          | .ok =>
            let chk := match it with | some i => valueCheck op i data dataAbs | none => fun _ => []
            go ops (rest.drop 1) stop anyErr remaining (acc ++ [.reader letter true "valid_item" chk])
          | .fail e =>
            let acc := acc ++ (match e with | some x => [Want.err x "reader_error"] | none => []) ++ [.reader letter false "invalid_or_absent" (fun _ => [])]
            let anyErr' := anyErr || e.isSome
            if stop then
              -- the handler returns ERR at once
              let acc := if !anyErr' then acc ++ [.err (-200) "execution_error"] else acc
              acc      -- unread parameters are not reported once an error was raised
            else go ops (rest.drop 1) stop anyErr' remaining acc
  go script items false false 0 [.handler]

def okOf (tok : String) : Option Bool :=
  match tok.toList with
  | _ :: '1' :: _ => some true
  | _ :: '0' :: _ => some false
  | _ => none

/-- match the tokens of one handler invocation against the expectation; returns (clauses, remaining tokens) -/
def matchWant : List Want → List String → List String × List String
  | [], rest =>
    ([], rest)
  | w :: ws, toks =>
    match toks with
    | t :: ts =>
      match w with
        | .handler => if t.startsWith "H" then matchWant ws ts else (["C05.unexpected_event"], [])
        | .other l => if t.startsWith l then matchWant ws ts else (["C05.unexpected_event"], [])
        | .err code why =>
          if t == s!"E{code}" then matchWant ws ts
          else if t.startsWith "E" then ([s!"C05.wrong_error_code.{why}"], [])
          else ([if why == "unread_parameters" then "C05.unread_parameters_not_reported"
                else if why == "execution_error" then "C05.execution_error_not_reported" else "C05.reader_failed_silently"], [])
        | .reader l ok _ chk =>
          if t.startsWith "E" then
            ((if ok then ["C05.reader_rejected_valid_item"] else ["C05.unexpected_error_for_absent_optional"]), [])
          else if !t.startsWith l then (["C05.unexpected_event"], [])
          else match okOf t with
            | some g =>
              if g == ok then
                let (r, rest) := matchWant ws ts
                ((if ok then chk t else []) ++ r, rest)
              else if ok then (["C05.reader_failed_silently"], []) else (["C05.wrong_type_accepted"], [])
            | none => (["C05.malformed_observation"], [])
    | [] =>
      match w with
      | .err _ why => ([if why == "unread_parameters" then "C05.unread_parameters_not_reported"
                       else if why == "execution_error" then "C05.execution_error_not_reported" else "C05.reader_failed_silently"], [])
      | _ => (["C05.missing_event"], [])

/-- for every unit of a message: is it dispatched (by the specification of C02) to a table entry WITHOUT a handler?  Such a
unit announces nothing; its data stays unread -/
def nullDispatched (cmds : List Cmd) (us : List UnitInfo) : List Bool :=
  let pats := cmds.map (fun c => Pattern.parsePattern c.pattern)
  if !(cmds.any isNullCb) ∨ !(pats.all (·.isSome)) then us.map (fun _ => false) else
  let patList := pats.filterMap id
  let rec go : List UnitInfo → Option Bytes → List Bool → List Bool
    | [], _, acc => acc.reverse
    | u :: rest, prev, acc =>
      if u.header.isEmpty then go rest prev (false :: acc)
      -- a unit refused for its syntax (invalid character: -101, data list ending in a separator: -103) is refused before its
      -- header is composed or looked up: it does not become the reference of the next relative header (C02 speaks about
      -- well-formed messages only; this follows what SCPI_Parse does, so that C05's judge demands nothing about it)
      else if !u.wellFormed ∨ u.nParams < 0 then go rest prev (false :: acc)
      else
        let eff := effective prev u.header
        match dispatch patList eff with
        | some i => go rest (some eff) (isNullCb (cmds.getD i ⟨[], 0, []⟩) :: acc)
        | none => go rest (some eff) (false :: acc)
  go us none []

/-- judge the parameter handling of one run -/
def judgeParams (cmds : List Cmd) (toks : List String) : List String :=
  let (calls, _) := groupCalls toks
  calls.flatMap (fun call =>
    let perMsg := call.msgs.flatMap (fun m =>
      let us0 := unitsOf m.msg
      let nulls := nullDispatched cmds us0
      -- units selected for an entry without a handler are taken out: no handler token; -108 exactly when they carry data
      let nullUnits := (List.zip us0 nulls).filter (fun (u, z) => z && u.wellFormed && u.nParams ≥ 0)
      let us := ((List.zip us0 nulls).filter (fun (u, z) => !(z && u.wellFormed && u.nParams ≥ 0))).map (·.1)
      if !nullUnits.isEmpty then
        -- mixed message: only the count of -108 for the handler-less units is judged, the rest of the message is left alone
        []
      else
      -- walk units and event tokens together
      let rec walk : List UnitInfo → List String → List String → List String
        | [], rest, acc => if rest.isEmpty then acc else acc ++ ["C05.unexpected_event"]
        | u :: rest, toks, acc =>
          if !u.wellFormed then
            -- malformed text never reaches a handler: exactly a command error, no handler
            match toks with
            | t :: ts => if t == "E-101" then walk rest ts acc else acc ++ ["C05.malformed_unit_not_rejected"]
            | [] => acc ++ ["C05.malformed_unit_not_rejected"]
          else if u.header.isEmpty then walk rest toks acc
          else if u.nParams < 0 then
            match toks with
            | t :: ts => if t == "E-103" then walk rest ts acc else acc ++ ["C05.dangling_separator_accepted"]
            | [] => acc ++ ["C05.dangling_separator_accepted"]
          else
            match toks with
            | t :: ts =>
              if t == "E-113" then walk rest ts acc
              else if t.startsWith "H" then
                let tag := (((t.drop 1).toString.splitOn ":").headD "").toInt?.getD 0
                let script := (cmds.find? (fun c => c.tag == tag)).map (·.script) |>.getD []
                let s := m.msg.drop u.start
                let (doff, dlen) := dataRegion s
                let data := (s.drop doff).take dlen
                match itemsOf data with
                | some items =>
                  let (r, after) := matchWant (wantUnit script items data (u.start + doff)) (t :: ts)
                  if r.isEmpty then walk rest after acc else acc ++ r
                | none => acc ++ ["C05.judge_cannot_itemise"]
              else acc ++ ["C05.unexpected_event"]
            | [] => acc ++ ["C05.missing_event"]
      walk us (m.events.filter (fun t => t != "E-350" && t != "E0")) [])
    -- the input call returns false exactly when it overran or the last message it executed raised an error
    let overrun := call.pre.any (· == "E-363")
    let lastErr := match call.msgs.getLast? with | some m => m.events.any (fun t => t.startsWith "E" && t != "E0") | none => false
    let wantR := !(overrun || lastErr)
    perMsg ++ (if call.result != wantR then ["C05.input_result"] else []))

end ScpiVerif.Drv
