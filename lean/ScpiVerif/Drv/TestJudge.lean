import ScpiVerif.Drv.Parse
import ScpiVerif.Spec.Pattern
namespace ScpiVerif.Drv
open ScpiVerif.Ctx ScpiVerif.Spec.Pattern

/-- does the header text belong to the language of the pattern (`none`: pattern outside the grammar of C03, ambiguous, or
text outside the header alphabet - not judged) -/
def specAccepts (pattern text : Lexer.Bytes) : Option Bool :=
  match parsePattern pattern with
  | none => none
  | some p =>
    if !(text.all (fun b => isKwChar b || b == 58 || b == 63 || b == 42)) then none
    else if !wellFormed p.kws then none
    else some !(accepts p text).isEmpty

/-- SCPI_IsCmd / SCPI_Match called by handlers (tokens V<0|1> behind the handler token): the answer is membership of the text
in the language of the matched entry's pattern / of the given pattern (C03 through the public API, C02 "pattern test") -/
def judgeTests (cmds : List Cmd) (toks : List String) : List String :=
  let step := fun (acc : List (Option Bool) × List String) (t : String) =>
    let (pending, rej) := acc
    if t.startsWith "H" then
      match (((t.drop 1).toString.splitOn ":").headD "").toInt? with
      | some tag =>
        match cmds.find? (fun c => c.tag == tag) with
        | some c => (c.script.filterMap (fun o => match o with
            | .iIsCmd s => some (specAccepts c.pattern (s.takeWhile (· ≠ 0)))
            | .iMatch p s => some (specAccepts p s)
            | _ => none), rej)
        | none => ([], rej)
      | none => ([], rej)
    else if t == "V0" ∨ t == "V1" then
      match pending with
      | some want :: rest => (rest, if want == (t == "V1") then rej else rej ++ [if t == "V1" then "C03.api_accepts_outside_language" else "C03.api_rejects_member"])
      | none :: rest => (rest, rej)
      | [] => ([], rej ++ ["C03.api_unexpected_test"])
    else acc
  (toks.foldl step ([], [])).2.eraseDups

end ScpiVerif.Drv
