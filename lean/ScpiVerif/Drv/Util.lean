/- Line-protocol helpers shared by the driver's domains (no Mathlib). -/
namespace ScpiVerif.Drv

def hexDigit (n : Nat) : Char := "0123456789abcdef".toList.getD n '?'

def hexByte (b : UInt8) : String := String.ofList [hexDigit (b.toNat / 16), hexDigit (b.toNat % 16)]

def hexOfBytes (bs : List UInt8) : String :=
  if bs.isEmpty then "-" else String.join (bs.map hexByte)

def hexVal (c : Char) : Option Nat :=
  if '0' ≤ c ∧ c ≤ '9' then some (c.toNat - '0'.toNat)
  else if 'a' ≤ c ∧ c ≤ 'f' then some (c.toNat - 'a'.toNat + 10)
  else if 'A' ≤ c ∧ c ≤ 'F' then some (c.toNat - 'A'.toNat + 10)
  else none

def unhexAux : List Char → List UInt8 → Option (List UInt8)
  | [], acc => some acc.reverse
  | [_], _ => none
  | a :: b :: rest, acc =>
    match hexVal a, hexVal b with
    | some x, some y => unhexAux rest (UInt8.ofNat (x * 16 + y) :: acc)
    | _, _ => none

/-- "-" is the empty string; "N" (NULL) is handled by callers -/
def unhex (s : String) : Option (List UInt8) :=
  if s == "-" then some [] else unhexAux s.toList []

def parseHexNat (s : String) : Option Nat :=
  s.toList.foldlM (fun acc c => (hexVal c).map (fun d => acc * 16 + d)) 0

def hex4 (n : Nat) : String :=
  String.ofList [hexDigit (n / 4096 % 16), hexDigit (n / 256 % 16), hexDigit (n / 16 % 16), hexDigit (n % 16)]

def parseInt (s : String) : Option Int := s.toInt?

def words (s : String) : List String := (s.splitOn " ").filter (· ≠ "")

/-- split "input => obs" -/
def splitCase (line : String) : String × String :=
  match line.splitOn " => " with
  | [a, b] => (a, b)
  | [a] => if a.endsWith " =>" then ((a.dropEnd 3).toString, "") else (a, "")
  | a :: rest => (a, " => ".intercalate rest)
  | [] => ("", "")

/-- result of one case: model observation, and the judge's verdict on the IMPLEMENTATION's observation -/
structure Verdict where
  modelObs : String
  rejects : List String := []      -- judge clauses violated by the implementation's observation
  nontrivial : Bool := true
  tags : List String := []         -- branch / distribution tags for the evidence
  implObs : Option String := none  -- the implementation's observation after domain-specific canonicalisation (default: as printed)

end ScpiVerif.Drv
