import ScpiVerif.Drv.Util
import ScpiVerif.Model.Parser
import ScpiVerif.Spec.Unit
namespace ScpiVerif.Drv
open ScpiVerif.Lexer ScpiVerif.Parser ScpiVerif.Spec

def tokStr (r : Nat × Token × Int) : String := s!"{r.2.1.type.code},{r.2.1.ptr},{r.2.1.len},{r.1},{r.2.2}"

def kindsInOrder : List (String × Kind) :=
  [("ws", .ws), ("header", .header), ("chr", .chr), ("decimal", .decimal), ("suffix", .suffix), ("nondecimal", .nondecimal),
   ("string", .string), ("block", .block), ("expression", .expression), ("comma", .comma), ("semicolon", .semicolon),
   ("colon", .colon), ("nl", .nl), ("specific", .specific 33)]

def modelLex (buf : Bytes) (pos : Nat) : List (Nat × Token × Int) :=
  [lexWhiteSpace buf pos, lexProgramHeader buf pos, lexCharacterProgramData buf pos, lexDecimal buf pos, lexSuffix buf pos,
   lexNondecimal buf pos, lexString buf pos, lexBlock buf pos, lexExpression buf pos, lexComma buf pos, lexSemicolon buf pos,
   lexColon buf pos, lexNewLine buf pos, lexSpecific buf pos 33, parseProgramData buf pos]

def ints (s : String) : Option (List Int) := (s.splitOn ",").mapM parseInt

/-- judge one basic recogniser field of the implementation against the token specification -/
def judgeTok (name : String) (k : Kind) (buf : Bytes) (pos : Nat) (field : String) : List String :=
  match ints field with
  | some [ty, ptr, len, newpos, ret] =>
    let s := buf.drop pos
    -- bounds: never before the start or past the end
    let bounds := if newpos < pos ∨ newpos > buf.length ∨ ret < 0 then [s!"C13.{name}_out_of_bounds"] else []
    match specToken k s with
    | some e =>
      (if ret != e.consumed ∨ newpos != pos + e.consumed then [s!"C13.{name}_longest_match"] else []) ++
      (if ty != e.type.code ∨ ptr != pos + e.payloadOff ∨ len != e.payloadLen then [s!"C13.{name}_token_fields"] else []) ++ bounds
    | none =>
      let swallow := k == .block ∧ specBlock s == .incomplete
      (if ret != 0 then [s!"C13.{name}_accepts_non_token"] else []) ++
      (if ty != TokType.unknown.code ∨ len != 0 then [s!"C13.{name}_token_fields"] else []) ++
      (if swallow then (if newpos != buf.length then [s!"C13.{name}_incomplete_swallow"] else [])
       else if newpos != pos then [s!"C13.{name}_fail_restores"] else []) ++ bounds
  | _ => [s!"C13.{name}_malformed_observation"]

def termCode : TermSpec → Int | .none => 0 | .nl => 1 | .semicolon => 2

/-- L <hexbuf> <pos> => fields -/
def runLexer (inp : List String) (obs : List String) : Option Verdict := do
  let [_, hx, pos] := inp | none
  let buf ← unhex hx
  let pos ← pos.toNat?
  let pos := min pos buf.length
  let ms := modelLex buf pos
  let a := parseAllProgramData buf pos
  let u := detectUnit (buf.drop pos)
  let allStr := s!"{a.tok.type.code},{a.tok.ptr},{a.tok.len},{a.pos},{a.tok.len},{a.paramCount}"
  let unitStr := s!"{u.header.type.code},{u.header.ptr},{u.header.len},{u.data.type.code},{u.data.ptr},{u.data.len},{u.nParams},{u.term.code},{u.consumed}"
  let modelObs := "|".intercalate (ms.map tokStr ++ [allStr, unitStr])
  let fields := ("".intercalate obs).splitOn "|"
  let rej :=
    if fields.length != 17 then ["C13.malformed_observation"] else
    let basic := (List.zip kindsInOrder (fields.take 14)).flatMap (fun ((n, k), f) => judgeTok n k buf pos f)
    -- one data element with surrounding white space
    let s := buf.drop pos
    let dataJ := match ints (fields.getD 14 "") with
      | some [ty, ptr, len, newpos, ret] =>
        let w0 := wsLen s
        match specData (s.drop w0) with
        | .item n t po pl =>
          let w1 := wsLen (s.drop (w0 + n))
          (if ret != w0 + n + w1 ∨ newpos != pos + w0 + n + w1 then ["C13.data_extent"] else []) ++
          (if ty != t.code ∨ ptr != pos + w0 + po ∨ len != pl then ["C13.data_token_fields"] else [])
        | .swallow => if ty != TokType.unknown.code ∨ newpos != buf.length then ["C13.data_incomplete_block"] else []
        | .none => if ty != TokType.unknown.code ∨ len != 0 ∨ newpos != pos + w0 then ["C13.data_accepts_non_data"] else []
      | _ => ["C13.malformed_observation"]
    let unitJ := match ints (fields.getD 16 "") with
      | some [hty, hptr, hlen, _dty, _dptr, _dlen, n, term, cons] =>
        let e := specUnit s
        (if cons != e.consumed then ["C13.unit_extent"] else []) ++
        (if term != termCode e.term then ["C13.unit_termination"] else []) ++
        (if (hty == TokType.invalid.code) != (!e.wellFormed) then ["C13.unit_wellformedness"] else []) ++
        (if e.wellFormed ∧ (hty != e.headerType.code ∨ hlen != e.headerLen ∨ (e.headerLen > 0 ∧ hptr != e.headerOff)) then ["C13.unit_header"] else []) ++
        (if e.wellFormed ∧ (n < 0) != (e.nParams < 0) then ["C13.unit_dangling_separator"]
         else if e.wellFormed ∧ n != e.nParams then ["C13.unit_param_count"] else [])
      | _ => ["C13.malformed_observation"]
    (basic ++ dataJ ++ unitJ).eraseDups
  -- distribution tags: which recognisers produced a token in the model
  let names := kindsInOrder.map (·.1) ++ ["data"]
  let tags := (List.zip names ms).filterMap (fun (n, r) => if r.2.2 != 0 then some ("tok_" ++ n) else none) ++
              [if u.header.type == .invalid then "unit_invalid" else if u.nParams < 0 then "unit_dangling" else "unit_ok",
               s!"len{min buf.length 9}"]
  pure { modelObs, rejects := rej, nontrivial := buf.length > 0, tags }

end ScpiVerif.Drv
