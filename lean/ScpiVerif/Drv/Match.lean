import ScpiVerif.Drv.Util
import ScpiVerif.Model.Match
import ScpiVerif.Spec.Pattern
namespace ScpiVerif.Drv
open ScpiVerif.Match ScpiVerif.Spec.Pattern

def headerAlphabet (b : UInt8) : Bool := isKwChar b || b == 58 || b == 63 || b == 42

/-- M <hexpattern> <hexheader> <len> <n|-1> <default> => <0|1> <numbers|-> -/
def runMatch (inp : List String) (obs : List String) : Option Verdict := do
  let [_, hp, hh, len, nn, dflt] := inp | none
  let pat ← unhex hp; let hdr ← unhex hh
  let len ← len.toNat?; let nn ← parseInt nn; let dflt ← parseInt dflt
  let numbers : Option (List Int) := if nn < 0 then none else some (List.replicate (if nn == 0 then 0 else nn.toNat) (-777))
  let (r, nums, oob) := matchCommand pat hdr len numbers dflt
  let numStr := fun (l : List Int) => if nn ≤ 0 then "-" else ",".intercalate (l.map toString)
  let modelObs := s!"{if r then 1 else 0} {numStr nums}"
  -- judge
  let effHdr := hdr.take len
  let (rej, tag) : List String × String :=
    match parsePattern pat with
    | none => ([], "pattern_outside_grammar")
    | some p =>
      if !(effHdr.all headerAlphabet) then ([], "header_outside_alphabet")
      else if !wellFormed p.kws then ([], "pattern_ambiguous")
      else
        let sols := accepts p effHdr
        match obs with
        | [b, ns] =>
          let accepted := b == "1"
          if accepted != !sols.isEmpty then
            ([if accepted then "C03.accepts_outside_language" else "C03.rejects_member"], "judged")
          else if accepted ∧ nn > 0 then
            let implNums := if ns == "-" then some [] else (ns.splitOn ",").mapM parseInt
            match implNums with
            | none => (["C03.malformed_observation"], "judged")
            | some l =>
              let ok := sols.any (fun sol =>
                let want := sol.map (fun o => match o with | some v => (v : Int) | none => dflt)
                let k := min want.length nn.toNat
                l.take k == want.take k ∧ (l.drop k).all (· == -777))
              (if ok then [] else ["C03.numeric_suffix_report"], "judged")
          else ([], "judged")
        | _ => (["C03.malformed_observation"], "judged")
  let rej := if oob then rej ++ ["C03.model_out_of_bounds"] else rej
  let tags := [tag, if r then "accepted" else "rejected", if nn < 0 then "no_numbers" else "numbers"]
  pure { modelObs, rejects := rej, nontrivial := !hdr.isEmpty, tags }

end ScpiVerif.Drv
