/-
C10, generated tie — the Lean text translated from libscpi/src/fifo.c on every run (Gen/FifoC.lean, translate/c2lean.py)
refines the hand-written ring-buffer model, so that the theorems of Props/C10.lean hold of the C text as it is now.
Property theorems only; helper lemmas in ScpiVerif/Lemmas/FifoC.lean.

This module is an obligation of C10's check whenever the translator ACCEPTS the current fifo.c.  When the translator refuses
a function (a construct outside its subset, e.g. after a refactoring that introduces a helper with a local variable without
initialiser), the tie degrades to the differential correspondence of the hand model, which is recorded in the evidence
(`generated_tie`), and this module is not built.
-/
import ScpiVerif.Model.Fifo
import ScpiVerif.Lemmas.Fifo
import ScpiVerif.Lemmas.FifoC

namespace ScpiVerif.Props.C10
open ScpiVerif ScpiVerif.Fifo

/-! ### The C text of fifo.c refines the model

`ScpiVerif.Gen.FifoC` is GENERATED from libscpi/src/fifo.c by translate/c2lean.py on every run (clang's typed AST; int16_t
arithmetic as `Int` with `Int.tmod` for `%` and `wrap16` for stores).  On every well-formed state (`CWF`: non-negative indices,
capacity 1..32767, ring invariant) each generated function computes what the hand-written model computes, and well-formedness
is kept, so every theorem above holds for what the C source says now.  NULL pointers are `none`. -/

open ScpiVerif.Gen.FifoC ScpiVerif.Lemmas.FifoC

/-- fifo_init: for 1 ≤ size ≤ 32767 and an array of that length the result is well-formed, whatever the structure held before -/
theorem c_fifo_init {α} (f : CFifo α) (n : Nat) (d : α) :
    toModel (fifo_init f (List.replicate n d) (n : Int)) = Fifo.init n d := init_replicate f n d
theorem c_fifo_init_wf {α} (f : CFifo α) (data : List α) (size : Int) (h1 : 1 ≤ size) (h2 : size ≤ 32767)
    (hl : data.length = size.toNat) : CWF (fifo_init f data size) := cwf_init f data size h1 h2 hl
example : toModel (fifo_init (⟨7, -3, 9, 0, []⟩ : CFifo Nat) [0, 0, 0] 3) = Fifo.init 3 0 ∧
    CWF (fifo_init (⟨7, -3, 9, 0, []⟩ : CFifo Nat) [0, 0, 0] 3) := by
  unfold CWF Fifo.Inv; decide

theorem c_fifo_clear {α} (f : CFifo α) : toModel (fifo_clear f) = Fifo.clear (toModel f) := clear_refines f
theorem c_fifo_clear_wf {α} (f : CFifo α) (h : CWF f) : CWF (fifo_clear f) := cwf_clear f h
example : CWF (⟨0, 1, 2, 3, [10, 20, 30]⟩ : CFifo Nat) ∧
    fifo_clear (⟨0, 1, 2, 3, [10, 20, 30]⟩ : CFifo Nat) = ⟨0, 0, 0, 3, [10, 20, 30]⟩ := by
  unfold CWF Fifo.Inv; decide

theorem c_fifo_is_empty {α} (f : CFifo α) (h : CWF f) : fifo_is_empty f = isEmpty (toModel f) := is_empty_refines f h
theorem c_fifo_is_full {α} (f : CFifo α) (h : CWF f) : fifo_is_full f = isFull (toModel f) := is_full_refines f h
/-- fifo_count stores the count through its pointer (which it dereferences without a test: NULL is excluded by the C code) -/
theorem c_fifo_count {α} (f : CFifo α) (old : Int) (h : CWF f) :
    fifo_count f old = (Int.ofNat (cnt (toModel f)), true) := count_refines f old h
example : fifo_is_empty (⟨1, 1, 0, 3, [10, 20, 30]⟩ : CFifo Nat) = true ∧ fifo_is_full (⟨1, 1, 3, 3, [10, 20, 30]⟩ : CFifo Nat) = true ∧
    fifo_is_full (⟨0, 1, 2, 3, [10, 20, 30]⟩ : CFifo Nat) = false ∧ fifo_count (⟨0, 1, 2, 3, [10, 20, 30]⟩ : CFifo Nat) (-5) = (2, true) := by
  decide

/-- fifo_add with a non-NULL value is the model's add (state and return value) -/
theorem c_fifo_add {α} (f : CFifo α) (v : α) (h : CWF f) :
    toModel (fifo_add f (some v)).1 = (add (toModel f) v).1 ∧ (fifo_add f (some v)).2 = (add (toModel f) v).2 := add_refines f v h
/-- fifo_add with a NULL value returns FALSE and changes nothing -/
theorem c_fifo_add_null {α} (f : CFifo α) : fifo_add f none = (f, false) := add_null f
theorem c_fifo_add_wf {α} (f : CFifo α) (p : Option α) (h : CWF f) : CWF (fifo_add f p).1 := cwf_add f p h
-- the write index wraps from 2 to 0; a full queue refuses
example : fifo_add (⟨2, 1, 1, 3, [10, 20, 30]⟩ : CFifo Nat) (some 7) = (⟨0, 1, 2, 3, [10, 20, 7]⟩, true) ∧
    fifo_add (⟨1, 1, 3, 3, [10, 20, 30]⟩ : CFifo Nat) (some 7) = (⟨1, 1, 3, 3, [10, 20, 30]⟩, false) ∧
    CWF (⟨2, 1, 1, 3, [10, 20, 30]⟩ : CFifo Nat) := by
  unfold CWF Fifo.Inv; decide

/-- fifo_remove: state and return value as in the model; a non-NULL out pointer receives the oldest entry (and keeps its
content when the queue is empty), a NULL out pointer delivers nothing while the state changes in the same way -/
theorem c_fifo_remove {α} [Inhabited α] (f : CFifo α) (p : Option α) (h : CWF f) :
    toModel (fifo_remove f p).1 = (remove (toModel f)).1 ∧
    (fifo_remove f p).2.2 = (remove (toModel f)).2.isSome ∧
    (fifo_remove f p).2.1 = p.map (fun old => (remove (toModel f)).2.getD old) := remove_refines f p h
theorem c_fifo_remove_wf {α} [Inhabited α] (f : CFifo α) (p : Option α) (h : CWF f) : CWF (fifo_remove f p).1 := cwf_remove f p h
-- the read index wraps from 2 to 0; NULL out pointer; empty queue
example : fifo_remove (⟨1, 2, 2, 3, [10, 20, 30]⟩ : CFifo Nat) (some 99) = (⟨1, 0, 1, 3, [10, 20, 30]⟩, some 30, true) ∧
    fifo_remove (⟨1, 2, 2, 3, [10, 20, 30]⟩ : CFifo Nat) none = (⟨1, 0, 1, 3, [10, 20, 30]⟩, none, true) ∧
    fifo_remove (⟨1, 1, 0, 3, [10, 20, 30]⟩ : CFifo Nat) (some 99) = (⟨1, 1, 0, 3, [10, 20, 30]⟩, some 99, false) ∧
    CWF (⟨1, 2, 2, 3, [10, 20, 30]⟩ : CFifo Nat) := by
  unfold CWF Fifo.Inv; decide

/-- fifo_remove_last: the same for the newest entry -/
theorem c_fifo_remove_last {α} [Inhabited α] (f : CFifo α) (p : Option α) (h : CWF f) :
    toModel (fifo_remove_last f p).1 = (removeLast (toModel f)).1 ∧
    (fifo_remove_last f p).2.2 = (removeLast (toModel f)).2.isSome ∧
    (fifo_remove_last f p).2.1 = p.map (fun old => (removeLast (toModel f)).2.getD old) := remove_last_refines f p h
theorem c_fifo_remove_last_wf {α} [Inhabited α] (f : CFifo α) (p : Option α) (h : CWF f) :
    CWF (fifo_remove_last f p).1 := cwf_remove_last f p h
-- the write index steps back from 0 to 2
example : fifo_remove_last (⟨0, 1, 2, 3, [10, 20, 30]⟩ : CFifo Nat) (some 99) = (⟨2, 1, 1, 3, [10, 20, 30]⟩, some 30, true) ∧
    fifo_remove_last (⟨0, 1, 2, 3, [10, 20, 30]⟩ : CFifo Nat) none = (⟨2, 1, 1, 3, [10, 20, 30]⟩, none, true) ∧
    CWF (⟨0, 1, 2, 3, [10, 20, 30]⟩ : CFifo Nat) := by
  unfold CWF Fifo.Inv; decide

/-- every state that calls of the fifo.c functions can produce after fifo_init (capacity 1..32767, array of that length) is
well-formed: the hypothesis of the theorems above is never lost -/
theorem c_fifo_reachable_wf {α} [Inhabited α] {f : CFifo α} (h : Reachable f) : CWF f := reachable_cwf h
example : Reachable (fifo_remove (fifo_add (fifo_init (⟨7, -3, 9, 0, []⟩ : CFifo Nat) [0, 0] 2) (some 5)).1 none).1 :=
  .remove none (.add (some 5) (.init _ _ _ (by decide) (by decide) (by decide)))

/-- transfer: the abstract-queue theorems above, read for the C text: fifo_add appends unless full, fifo_remove takes the head,
fifo_remove_last the last entry -/
theorem c_fifo_abs_add {α} (f : CFifo α) (v : α) (h : CWF f) :
    (fifo_add f (some v)).2 = decide ((abs (toModel f)).length < (toModel f).size) ∧
    abs (toModel (fifo_add f (some v)).1) = if (abs (toModel f)).length < (toModel f).size then abs (toModel f) ++ [v] else abs (toModel f) := by
  rw [(add_refines f v h).1, (add_refines f v h).2]; exact Lemmas.Fifo.abs_add _ v h.2.2.2.2.2
theorem c_fifo_abs_remove {α} [Inhabited α] (f : CFifo α) (old : α) (h : CWF f) :
    (fifo_remove f (some old)).2.1 = some ((abs (toModel f)).head?.getD old) ∧
    abs (toModel (fifo_remove f (some old)).1) = (abs (toModel f)).tail := by
  rw [(remove_refines f _ h).1, (remove_refines f _ h).2.2, (Lemmas.Fifo.abs_remove _ h.2.2.2.2.2).1]
  exact ⟨rfl, (Lemmas.Fifo.abs_remove _ h.2.2.2.2.2).2⟩
theorem c_fifo_abs_remove_last {α} [Inhabited α] (f : CFifo α) (old : α) (h : CWF f) :
    (fifo_remove_last f (some old)).2.1 = some ((abs (toModel f)).getLast?.getD old) ∧
    abs (toModel (fifo_remove_last f (some old)).1) = (abs (toModel f)).dropLast := by
  rw [(remove_last_refines f _ h).1, (remove_last_refines f _ h).2.2, (Lemmas.Fifo.abs_removeLast _ h.2.2.2.2.2).1]
  exact ⟨rfl, (Lemmas.Fifo.abs_removeLast _ h.2.2.2.2.2).2⟩
example : abs (toModel (⟨0, 1, 2, 3, [10, 20, 30]⟩ : CFifo Nat)) = [20, 30] ∧
    abs (toModel (fifo_add (⟨0, 1, 2, 3, [10, 20, 30]⟩ : CFifo Nat) (some 7)).1) = [20, 30, 7] ∧
    abs (toModel (fifo_remove (⟨0, 1, 2, 3, [10, 20, 30]⟩ : CFifo Nat) (some 0)).1) = [30] := by
  decide

end ScpiVerif.Props.C10
