/-
C01 for the C text as it is now: "every character read in the lexer is preceded by an end-of-input check", as a THEOREM
about the Lean text generated from libscpi/src/lexer.c on every run (Gen/LexerC.lean), for the functions translated AND
proved so far (all 13 recognisers `scpiLex_*` and the `skip*` helpers; not: `scpiLex_ProgramData`, `scpiLex_IsEos` aside - see
notes/EXT_GEN_LEXER_REPORT.md).

Props/C01.lean says why the hand model cannot state this: it fuses `!iseos(state) && p(state->pos[0])` into `peekP`.  The
generated text keeps them apart: every `state->pos[k]` is `rd state k`, which raises `oob` when `pos + k` is outside
`[0, len)`, and `&&` / `||` evaluate their right operand only when C does.  `c_lex_no_oob` below therefore fails to build as
soon as an `!iseos(state)` test is dropped, the operands of such an `&&` are swapped, or a read is added behind the end.
-/
import ScpiVerif.Props.C13Gen
import ScpiVerif.Lemmas.Bounds

namespace ScpiVerif.Props.C01Gen
open ScpiVerif ScpiVerif.Lexer ScpiVerif.Gen.LexerC ScpiVerif.Lemmas.LexerC

/-- no recogniser proved so far, started anywhere in any buffer with any token content, evaluates `state->pos[k]` outside
the buffer or exhausts the fuel of a loop; the cursor it leaves is inside the buffer and not before its start -/
theorem c_lex_no_oob (buf : Bytes) (pos : Nat) (h : pos ≤ buf.length) (tok : CTok) (ch : UInt8) :
    ∀ r ∈ [scpiLex_WhiteSpace (st buf pos) tok, scpiLex_CharacterProgramData (st buf pos) tok,
           scpiLex_DecimalNumericProgramData (st buf pos) tok, scpiLex_NondecimalNumericData (st buf pos) tok,
           scpiLex_Comma (st buf pos) tok, scpiLex_Semicolon (st buf pos) tok, scpiLex_Colon (st buf pos) tok,
           scpiLex_SpecificCharacter (st buf pos) tok (sc ch), scpiLex_NewLine (st buf pos) tok,
           scpiLex_SuffixProgramData (st buf pos) tok, scpiLex_ProgramHeader (st buf pos) tok,
           scpiLex_StringProgramData (st buf pos) tok, scpiLex_ProgramExpression (st buf pos) tok,
           scpiLex_ArbitraryBlockProgramData (st buf pos) tok],
      r.1.oob = false ∧ r.1.ub = false ∧ r.1.buf = buf ∧ (pos : Int) ≤ r.1.pos ∧ r.1.pos ≤ buf.length := by
  have hb := Lemmas.Bounds.lex_bounds buf pos h
  simp only [List.mem_cons, List.mem_nil_iff, or_false, forall_eq_or_imp, forall_eq] at hb
  obtain ⟨h1, h2, h3, h4, h5, h6, h7, h8, h9, h10, h11, h12, h13, _⟩ := hb
  have hs := (Props.C13.specific_spec buf pos ch h)
  intro r hr
  simp only [List.mem_cons, List.mem_nil_iff, or_false] at hr
  rcases hr with rfl | rfl | rfl | rfl | rfl | rfl | rfl | rfl | rfl | rfl | rfl | rfl | rfl | rfl
  · rw [scpiLex_WhiteSpace_ref]; simp only [res, st_oob, st_ub, st_buf, st_pos, true_and]; omega
  · rw [scpiLex_CharacterProgramData_ref]; simp only [res, st_oob, st_ub, st_buf, st_pos, true_and]; omega
  · rw [scpiLex_DecimalNumericProgramData_ref]; simp only [res, st_oob, st_ub, st_buf, st_pos, true_and]; omega
  · rw [scpiLex_NondecimalNumericData_ref]; simp only [res, st_oob, st_ub, st_buf, st_pos, true_and]; omega
  · rw [scpiLex_Comma_ref]; simp only [res, st_oob, st_ub, st_buf, st_pos, true_and]; omega
  · rw [scpiLex_Semicolon_ref]; simp only [res, st_oob, st_ub, st_buf, st_pos, true_and]; omega
  · rw [scpiLex_Colon_ref]; simp only [res, st_oob, st_ub, st_buf, st_pos, true_and]; omega
  · rw [scpiLex_SpecificCharacter_ref]; simp only [res, st_oob, st_ub, st_buf, st_pos, true_and]
    have := Lemmas.Lexer.skipOne_eq buf pos (· == ch)
    simp only [Lexer.lexSpecific, Lexer.lexOneChar]
    split
    · next hp => have := peekP_lt hp; simp; omega
    · simp; omega
  · rw [scpiLex_NewLine_ref]; simp only [res, st_oob, st_ub, st_buf, st_pos, true_and]; omega
  · rw [scpiLex_SuffixProgramData_ref]; simp only [res, st_oob, st_ub, st_buf, st_pos, true_and]; omega
  · rw [scpiLex_ProgramHeader_ref]; simp only [res, st_oob, st_ub, st_buf, st_pos, true_and]; omega
  · rw [scpiLex_StringProgramData_ref]; simp only [res, st_oob, st_ub, st_buf, st_pos, true_and]; omega
  · rw [scpiLex_ProgramExpression_ref]; simp only [res, st_oob, st_ub, st_buf, st_pos, true_and]; omega
  · rw [scpiLex_ArbitraryBlockProgramData_ref]; simp only [res, st_oob, st_ub, st_buf, st_pos, true_and]; omega

/-- the skipping primitives: same statement (they are what the recognisers not yet proved are built from) -/
theorem c_skip_no_oob (buf : Bytes) (pos : Nat) :
    ∀ r ∈ [Gen.LexerC.skipWs (st buf pos), Gen.LexerC.skipNumbers (st buf pos), Gen.LexerC.skipAlpha (st buf pos), skipHexNum (st buf pos),
           skipOctNum (st buf pos), skipBinNum (st buf pos), skipDigit (st buf pos), skipPlusmn (st buf pos), skipSlashDot (st buf pos),
           skipStar (st buf pos), skipColon (st buf pos), Gen.LexerC.skipMantisa (st buf pos), Gen.LexerC.skipExponent (st buf pos)],
      r.1.oob = false ∧ r.1.ub = false := by
  intro r hr
  simp only [List.mem_cons, List.mem_nil_iff, or_false] at hr
  rcases hr with rfl | rfl | rfl | rfl | rfl | rfl | rfl | rfl | rfl | rfl | rfl | rfl | rfl <;>
    simp [lexc_ref, one]

-- a read that IS out of bounds raises the flag (the theorems above are not vacuous): `ischr` at the end of "1E"
example : (ischr (st [49, 69] 2) 69).1.oob = true ∧ (rd (st [] 0) 0).1.oob = true := by decide +kernel
-- and the exponent at the end of the buffer does not: "1E" from offset 1
example : Gen.LexerC.skipExponent (st [49, 69] 1) = (st [49, 69] 2, 0) := by decide +kernel

end ScpiVerif.Props.C01Gen
