/-
C08 — Behaviour depends on the byte stream, not on how it is cut into input calls.
Property theorems only; helper lemmas in ScpiVerif/Lemmas/Chunking*.lean, vocabulary
(`Observable`, `NoQuotes`, `NoCR`, `Fits`) in ScpiVerif/Spec/Chunking.lean (this namespace).

PARTIAL: the full statement is FALSE for the library as it is (known finding, DESIGN.md section 8 #10):
the scan of SCPI_Input for a message terminator knows about definite-length blocks but not about quoted
strings, so a line terminator inside a quoted string (or after an unterminated quote) ends the message
when the stream arrives in pieces and not when it arrives whole.  `chunking_counterexample` proves the
negation on a concrete stream.  A second, benign difference: a chunk boundary between the CR and the LF
of a CR LF terminator makes the LF an (empty) message of its own (`chunking_crlf_difference`).
-/
import ScpiVerif.Model.Ctx
import ScpiVerif.Spec.Chunking
import ScpiVerif.Lemmas.Chunking

namespace ScpiVerif.Props.C08
open ScpiVerif ScpiVerif.Ctx ScpiVerif.Lexer

-- `Observable`, `NoQuotes`, `NoCR`, `Fits` are defined in ScpiVerif/Spec/Chunking.lean (this namespace)

/-
NOT YET PROVED:

(1) the model lemma `Lemmas.Chunking.ParseLocal` (ScpiVerif/Lemmas/ChunkingDefs.lean): SCPI_Parse of a
    message that ends in a line feed does not depend on the buffer bytes BEHIND the message.  It is an
    explicit hypothesis `hloc` of the three `_partial` theorems below; everything else they need is proved.
    (It is a statement about the model, not about the stream.  Lemmas/Isolation.lean proves the analogous
    fact when a common NUL follows the message in both buffers; between two chunkings there is no such NUL:
    `input c (a ++ b)` parses the first message in `pending ++ a ++ b ++ [0] …`, `input (input c a) b` in
    `pending ++ a ++ [0] …`.)  A colleague proves it as `theorem parseLocal : ParseLocal` in
    Lemmas/ParseLocal.lean; the hypothesis is then discharged here.

(2) the unrestricted statement, which is FALSE without the hypotheses on quotes and CR
    (chunking_counterexample, chunking_crlf_difference):

theorem chunking_invariant (c : Ctx) (h : WF c) (cs cs' : List Bytes)
    (hne : (∀ x ∈ cs, x ≠ []) ∧ (∀ x ∈ cs', x ≠ [])) (hs : cs.flatten = cs'.flatten) (hfit : Fits c cs.flatten.length) :
    Observable (cs.foldl input c) = Observable (cs'.foldl input c)
-/

/-- splitting one chunk in two changes nothing observable, for streams (pending bytes included) without
quote characters and without CR — definite-length blocks, with any bytes other than those three in their
data, are covered.  `hloc`: open obligation (1) above. -/
theorem input_split_partial (hloc : Lemmas.Chunking.ParseLocal) (c : Ctx) (h : WF c) (a b : Bytes) (ha : a ≠ []) (hb : b ≠ [])
    (hfit : Fits c (a.length + b.length)) (hq : NoQuotes (c.buf.take c.position ++ a ++ b))
    (hcr : NoCR (c.buf.take c.position ++ a ++ b)) :
    Observable (input (input c a) b) = Observable (input c (a ++ b)) :=
  Lemmas.Chunking.input_split_partial hloc c h a b ha hb hfit hq hcr

/-- hence every partition of such a stream into non-empty chunks behaves like feeding it whole, and
therefore like feeding it one byte at a time.  `hloc`: open obligation (1) above. -/
theorem chunking_invariant_partial (hloc : Lemmas.Chunking.ParseLocal) (c : Ctx) (h : WF c) (cs : List Bytes)
    (hne : ∀ x ∈ cs, x ≠ []) (hcs : cs ≠ [])
    (hfit : Fits c cs.flatten.length) (hq : NoQuotes (c.buf.take c.position ++ cs.flatten))
    (hcr : NoCR (c.buf.take c.position ++ cs.flatten)) :
    Observable (cs.foldl input c) = Observable (input c cs.flatten) :=
  Lemmas.Chunking.chunking_invariant_partial hloc c h cs hne hcs hfit hq hcr

/-- the statement (2) itself, with the two hypotheses on the stream added.  `hloc`: open obligation (1) above. -/
theorem chunking_invariant_noquote_nocr (hloc : Lemmas.Chunking.ParseLocal) (c : Ctx) (h : WF c) (cs cs' : List Bytes)
    (hne : (∀ x ∈ cs, x ≠ []) ∧ (∀ x ∈ cs', x ≠ [])) (hs : cs.flatten = cs'.flatten) (hcs : cs ≠ [])
    (hfit : Fits c cs.flatten.length) (hq : NoQuotes (c.buf.take c.position ++ cs.flatten))
    (hcr : NoCR (c.buf.take c.position ++ cs.flatten)) :
    Observable (cs.foldl input c) = Observable (cs'.foldl input c) :=
  Lemmas.Chunking.chunking_invariant_clean hloc c h cs cs' hne hs hcs hfit hq hcr

/-- the part of the argument that does not depend on (1): when the scan of SCPI_Input finds a complete
message in the pending bytes `s`, it finds the same message when more bytes `y` follow — the decision was
taken by bytes that are present in `s` -/
theorem scan_prefix_stable (s y : Bytes) (k : Nat) (hq : NoQuotes (s ++ y)) (hcr : NoCR (s ++ y))
    (h : Lemmas.Chunking.scan s = some k) : Lemmas.Chunking.scan (s ++ y) = some k :=
  Lemmas.Chunking.good_clean.stable s y k ⟨hq, hcr⟩ h

/-- a zero-length call executes whatever is buffered as one complete message and empties the buffer -/
theorem flush_executes_pending (c : Ctx) (h : WF c) :
    let c' := input c []
    c'.position = 0 ∧
    (c'.events.drop c.events.length).head? = some (Ev.parseMsg (c.buf.take c.position)) ∧
    (∃ r, (c'.events.getLast? = some (Ev.input r))) :=
  Lemmas.Chunking.flush_executes_pending c h

/-- the full statement fails: `TXT "a<LF>b"<LF>` fed whole delivers the string to the handler, fed in two
pieces (cut after the embedded line feed) it raises errors instead -/
theorem chunking_counterexample :
    let cmds : List Cmd := [⟨[84, 88, 84], 1, [.pText true 16]⟩]                       -- pattern "TXT", reads one text parameter
    let c := Ctx.init cmds [] 64 4 true
    let s : Bytes := [84, 88, 84, 32, 34, 97, 10, 98, 34, 10]                          -- TXT "a\nb"\n
    Observable (input c s) ≠ Observable (input (input c (s.take 7)) (s.drop 7)) := by
  -- (the instance search does not find `DecidableEq` for the six-fold product: compare the event logs)
  intro cmds c s h
  have h1 := congrArg Prod.fst h
  revert h1
  simp only [Observable]
  decide +kernel +zetaReduce

/-- second difference, benign: `A 1<CR><LF>` fed whole is one message ending in CR LF; cut between CR
and LF, the CR ends the message and the LF is parsed as an empty message of its own.  The handler
runs once with the same parameter in both cases; only the `parseMsg` events differ. -/
theorem chunking_crlf_difference :
    let cmds : List Cmd := [⟨[65], 2, [.pInt 32 true false]⟩]                           -- pattern "A", reads one optional int
    let c := Ctx.init cmds [] 64 4 true
    let s : Bytes := [65, 32, 49, 13, 10]                                               -- A 1\r\n
    (input c s).events =
      [.parseMsg [65, 32, 49, 13, 10], .handler 2 [65], .pInt true 1, .input true] ∧
    (input (input c (s.take 4)) (s.drop 4)).events =
      [.parseMsg [65, 32, 49, 13], .handler 2 [65], .pInt true 1, .input true, .parseMsg [10], .input true] := by
  intro cmds c s
  decide +kernel +zetaReduce

end ScpiVerif.Props.C08
