/-
C08 — Behaviour depends on the byte stream, not on how it is cut into input calls.
Property theorems only; helper lemmas in ScpiVerif/Lemmas/Chunking.lean.

PARTIAL: the full statement is FALSE for the library as it is (known finding, DESIGN.md section 8 #10):
the scan of SCPI_Input for a message terminator knows about definite-length blocks but not about quoted
strings, so a line terminator inside a quoted string (or after an unterminated quote) ends the message
when the stream arrives in pieces and not when it arrives whole.  `chunking_counterexample` proves the
negation on a concrete stream; `input_split_partial` / `chunking_invariant_partial` prove the statement
for streams without quote characters.
-/
import ScpiVerif.Model.Ctx
import ScpiVerif.Lemmas.Chunking

namespace ScpiVerif.Props.C08
open ScpiVerif ScpiVerif.Ctx ScpiVerif.Lexer

/-- what the property compares: handler invocations with their parameters, errors, messages parsed (all in
`events`, without the per-call return-value markers), output bytes, flushes, registers, error queue,
and the unconsumed remainder -/
def Observable (c : Ctx) : List Ev × Bytes × Nat × List Regs.Reg × Fifo.SpecQ × Bytes :=
  (c.events.filter (fun e => match e with | .input _ => false | _ => true),
   c.out.written, c.out.flushes, c.regs.regs, Fifo.EQ.abs c.eq, c.buf.take c.position)

def NoQuotes (s : Bytes) : Prop := ∀ b ∈ s, b ≠ 34 ∧ b ≠ 39

/-- the stream never leaves more unterminated data pending than the input buffer holds -/
def Fits (c : Ctx) (n : Nat) : Prop := c.position + n + 1 ≤ c.bufLen

/-
NOT YET PROVED (and false without the hypothesis on quotes, see chunking_counterexample):

theorem chunking_invariant (c : Ctx) (h : WF c) (cs cs' : List Bytes)
    (hne : (∀ x ∈ cs, x ≠ []) ∧ (∀ x ∈ cs', x ≠ [])) (hs : cs.flatten = cs'.flatten) (hfit : Fits c cs.flatten.length) :
    Observable (cs.foldl input c) = Observable (cs'.foldl input c)
-/

/-- splitting one chunk in two changes nothing observable (streams without quote characters) -/
theorem input_split_partial (c : Ctx) (h : WF c) (a b : Bytes) (ha : a ≠ []) (hb : b ≠ [])
    (hfit : Fits c (a.length + b.length)) (hq : NoQuotes (c.buf.take c.position ++ a ++ b)) :
    Observable (input (input c a) b) = Observable (input c (a ++ b)) :=
  Lemmas.Chunking.input_split_partial c h a b ha hb hfit hq

/-- hence every partition of a stream into non-empty chunks behaves like feeding it whole, and
therefore like feeding it one byte at a time -/
theorem chunking_invariant_partial (c : Ctx) (h : WF c) (cs : List Bytes) (hne : ∀ x ∈ cs, x ≠ []) (hcs : cs ≠ [])
    (hfit : Fits c cs.flatten.length) (hq : NoQuotes (c.buf.take c.position ++ cs.flatten)) :
    Observable (cs.foldl input c) = Observable (input c cs.flatten) :=
  Lemmas.Chunking.chunking_invariant_partial c h cs hne hcs hfit hq

/-- a zero-length call executes whatever is buffered as one complete message and empties the buffer -/
theorem flush_executes_pending (c : Ctx) (h : WF c) :
    let c' := input c []
    c'.position = 0 ∧
    (c'.events.drop c.events.length).head? = some (Ev.parseMsg (c.buf.take c.position)) ∧
    (∃ r, (c'.events.getLast? = some (Ev.input r))) :=
  Lemmas.Chunking.flush_executes_pending c h

/-- the full statement fails: `TXT "a<LF>b"<LF>` fed whole delivers the string to the handler, fed in two
pieces (cut after the embedded line feed) it raises errors instead -/
theorem chunking_counterexample :
    let cmds : List Cmd := [⟨[84, 88, 84], 1, [.pText true 16]⟩]                       -- pattern "TXT", reads one text parameter
    let c := Ctx.init cmds [] 64 4 true
    let s : Bytes := [84, 88, 84, 32, 34, 97, 10, 98, 34, 10]                          -- TXT "a\nb"\n
    Observable (input c s) ≠ Observable (input (input c (s.take 7)) (s.drop 7)) := by
  decide +kernel

end ScpiVerif.Props.C08
