/-
C08 — Behaviour depends on the byte stream, not on how it is cut into input calls.
Property theorems only; helper lemmas in ScpiVerif/Lemmas/Chunking*.lean, vocabulary
(`Observable`, `UserObservable`, `NoQuotes`, `QuotesLineLocal`, `NoCR`, `Fits`) in ScpiVerif/Spec/Chunking.lean
(this namespace).

PARTIAL: the full statement is FALSE for the library as it is (known finding, DESIGN.md section 8 #10):
the scan of SCPI_Input for a message terminator knows about definite-length blocks but not about quoted
strings, so a line terminator inside a quoted string (or after an unterminated quote) ends the message
when the stream arrives in pieces and not when it arrives whole.  `chunking_counterexample` proves the
negation on a concrete stream.  A second, benign difference: a chunk boundary between the CR and the LF
of a CR LF terminator makes the LF an (empty) message of its own (`chunking_crlf_difference`).
What is proved:
* for what a USER of the library can observe (`UserObservable`: `Observable` without the `parseMsg` markers
  of the verification hook — handlers, parameters, errors, output, flushes, registers, error queue,
  remainder): streams without quote characters in ANY partition, cuts directly after a CR included
  (`chunking_invariant_noquote`, `chunking_bytewise_noquote`, `input_split_noquote`);
* for `Observable` itself (message boundaries included): streams without quote characters and without CR
  in any partition (`…_partial`, `…_noquote_nocr`, `…_bytewise_partial`), and streams without quote
  characters (CR LF and lone CR terminators allowed) in any partition that does not cut directly after a CR
  (`…_cr_partial`).
Definite-length blocks are covered throughout.
* EXTENSION (`…_quotes`): all of the above with `NoQuotes` weakened to `QuotesLineLocal` — quote characters are
  allowed as long as no quoted string (a word of the string language of the token specification that starts
  directly after a blank or a comma, the only places where the library looks for a string) contains LF or CR:
  `input_split_quotes`, `chunking_invariant_quotes`, `chunking_bytewise_quotes` (`UserObservable`, any
  partition), `input_split_cr_quotes`, `chunking_invariant_cr_quotes` (`Observable`, no cut directly after a CR),
  `input_split_nocr_quotes`, `chunking_invariant_nocr_quotes`, `chunking_bytewise_nocr_quotes` (`Observable`,
  streams without CR, any partition), `scan_prefix_stable_quotes`.  `NoQuotes s → QuotesLineLocal s`
  (`quotesLineLocal_of_noQuotes`), the predicate is a computation (`quotesLineLocal_iff`; `Decidable` instance in Lemmas/ChunkingQuote.lean), the stream
  `TXT "a;b",'c'<LF>` satisfies it (`quotes_example`) and the stream of `chunking_counterexample` does not
  (`counterexample_not_quotesLineLocal`).  The `…_noquote` / `…_partial` theorems are special cases.
-/
import ScpiVerif.Model.Ctx
import ScpiVerif.Spec.Chunking
import ScpiVerif.Lemmas.Chunking
import ScpiVerif.Lemmas.ParseLocal
import ScpiVerif.Lemmas.ChunkingCR
import ScpiVerif.Lemmas.ChunkingQuoteTop

namespace ScpiVerif.Props.C08
open ScpiVerif ScpiVerif.Ctx ScpiVerif.Lexer

-- `Observable`, `UserObservable`, `NoQuotes`, `NoCR`, `Fits` are defined in ScpiVerif/Spec/Chunking.lean (this namespace)

/-
NOT YET PROVED (FALSE as stated — chunking_counterexample, chunking_crlf_difference): the unrestricted statement

theorem chunking_invariant (c : Ctx) (h : WF c) (cs cs' : List Bytes)
    (hne : (∀ x ∈ cs, x ≠ []) ∧ (∀ x ∈ cs', x ≠ [])) (hs : cs.flatten = cs'.flatten) (hfit : Fits c cs.flatten.length) :
    Observable (cs.foldl input c) = Observable (cs'.foldl input c)

The model lemma the theorems below rest on — SCPI_Parse of a message that ends in LF or CR does not depend on the
buffer bytes BEHIND the message — is proved: `Lemmas.Chunking.parseLocalCR` / `parseLocal` (Lemmas/ParseLocal*.lean).
-/

/-- splitting one chunk in two changes nothing observable, for streams (pending bytes included) without
quote characters and without CR — definite-length blocks, with any bytes other than those three in their
data, are covered. -/
theorem input_split_partial (c : Ctx) (h : WF c) (a b : Bytes) (ha : a ≠ []) (hb : b ≠ [])
    (hfit : Fits c (a.length + b.length)) (hq : NoQuotes (c.buf.take c.position ++ a ++ b))
    (hcr : NoCR (c.buf.take c.position ++ a ++ b)) :
    Observable (input (input c a) b) = Observable (input c (a ++ b)) :=
  Lemmas.Chunking.input_split_partial Lemmas.Chunking.parseLocal c h a b ha hb hfit hq hcr

/-- hence every partition of such a stream into non-empty chunks behaves like feeding it whole, and
therefore like feeding it one byte at a time. -/
theorem chunking_invariant_partial (c : Ctx) (h : WF c) (cs : List Bytes)
    (hne : ∀ x ∈ cs, x ≠ []) (hcs : cs ≠ [])
    (hfit : Fits c cs.flatten.length) (hq : NoQuotes (c.buf.take c.position ++ cs.flatten))
    (hcr : NoCR (c.buf.take c.position ++ cs.flatten)) :
    Observable (cs.foldl input c) = Observable (input c cs.flatten) :=
  Lemmas.Chunking.chunking_invariant_partial Lemmas.Chunking.parseLocal c h cs hne hcs hfit hq hcr

/-- the statement (2) itself, with the two hypotheses on the stream added. -/
theorem chunking_invariant_noquote_nocr (c : Ctx) (h : WF c) (cs cs' : List Bytes)
    (hne : (∀ x ∈ cs, x ≠ []) ∧ (∀ x ∈ cs', x ≠ [])) (hs : cs.flatten = cs'.flatten) (hcs : cs ≠ [])
    (hfit : Fits c cs.flatten.length) (hq : NoQuotes (c.buf.take c.position ++ cs.flatten))
    (hcr : NoCR (c.buf.take c.position ++ cs.flatten)) :
    Observable (cs.foldl input c) = Observable (cs'.foldl input c) :=
  Lemmas.Chunking.chunking_invariant_clean Lemmas.Chunking.parseLocal c h cs cs' hne hs hcs hfit hq hcr

/-- in particular: any partition behaves like feeding the stream one byte at a time (the form in which the
property is stated). -/
theorem chunking_bytewise_partial (c : Ctx) (h : WF c) (cs : List Bytes)
    (hne : ∀ x ∈ cs, x ≠ []) (hcs : cs ≠ [])
    (hfit : Fits c cs.flatten.length) (hq : NoQuotes (c.buf.take c.position ++ cs.flatten))
    (hcr : NoCR (c.buf.take c.position ++ cs.flatten)) :
    Observable (cs.foldl input c) = Observable ((cs.flatten.map fun b => [b]).foldl input c) := by
  have hf : ∀ s : Bytes, (s.map fun b => [b]).flatten = s := by
    intro s; induction s with
    | nil => rfl
    | cons a t ih => simp [ih]
  refine chunking_invariant_noquote_nocr c h cs _ ⟨hne, ?_⟩ (hf _).symm hcs hfit hq hcr
  intro x hx
  obtain ⟨b, _, rfl⟩ := List.mem_map.1 hx
  simp

/-- when the scan of SCPI_Input finds a complete
message in the pending bytes `s`, it finds the same message when more bytes `y` follow — the decision was
taken by bytes that are present in `s` — unless `s` ends in a CR, which a following LF would extend
(no hypothesis on CR otherwise) -/
theorem scan_prefix_stable (s y : Bytes) (k : Nat) (hq : NoQuotes (s ++ y)) (hcut : s.getLast? ≠ some 13)
    (h : Lemmas.Chunking.scan s = some k) : Lemmas.Chunking.scan (s ++ y) = some k :=
  Lemmas.Chunking.scan_stable s y k (Lemmas.Chunking.noQuotes_qll hq) hcut h

/-- CR allowed: splitting one chunk in two changes nothing observable when the stream has no quote
characters and the cut is not directly after a CR. -/
theorem input_split_cr_partial (c : Ctx) (h : WF c) (a b : Bytes) (ha : a ≠ []) (hb : b ≠ [])
    (hfit : Fits c (a.length + b.length)) (hq : NoQuotes (c.buf.take c.position ++ a ++ b))
    (hcut : a.getLast? ≠ some 13) :
    Observable (input (input c a) b) = Observable (input c (a ++ b)) :=
  Lemmas.Chunking.input_split_cr Lemmas.Chunking.parseLocalCR c h a b ha hb hfit hq hcut

/-- CR allowed: two partitions of a stream without quote characters, neither of which cuts directly after
a CR, behave alike (and like feeding the stream whole: `Lemmas.Chunking.chunking_invariant_cr`). -/
theorem chunking_invariant_cr_partial (c : Ctx) (h : WF c) (cs cs' : List Bytes)
    (hne : (∀ x ∈ cs, x ≠ []) ∧ (∀ x ∈ cs', x ≠ [])) (hs : cs.flatten = cs'.flatten) (hcs : cs ≠ [])
    (hfit : Fits c cs.flatten.length) (hq : NoQuotes (c.buf.take c.position ++ cs.flatten))
    (hcut : (∀ x ∈ cs, x.getLast? ≠ some 13) ∧ (∀ x ∈ cs', x.getLast? ≠ some 13)) :
    Observable (cs.foldl input c) = Observable (cs'.foldl input c) :=
  Lemmas.Chunking.chunking_invariant_cr2 Lemmas.Chunking.parseLocalCR c h cs cs' hne hs hcs hfit hq hcut

/-- what a user can observe does not depend on the partition of a stream without quote characters at all:
ANY two partitions into non-empty chunks, cuts directly after a CR included.  (When a chunk ends in the CR
of a CR LF, the CR ends the message and the LF arriving with the next chunk is parsed as an empty message:
no handler, no output, no flush, no error; `Lemmas.Chunking.parse_crlf` shows that SCPI_Parse does the same
on `m CR LF` and on `m CR`.) -/
theorem chunking_invariant_noquote (c : Ctx) (h : WF c) (cs cs' : List Bytes)
    (hne : (∀ x ∈ cs, x ≠ []) ∧ (∀ x ∈ cs', x ≠ [])) (hs : cs.flatten = cs'.flatten) (hcs : cs ≠ [])
    (hfit : Fits c cs.flatten.length) (hq : NoQuotes (c.buf.take c.position ++ cs.flatten)) :
    UserObservable (cs.foldl input c) = UserObservable (cs'.foldl input c) :=
  Lemmas.Chunking.chunking_invariant_noquote c h cs cs' hne hs hcs hfit hq

/-- in particular any partition behaves, for the user, like feeding the stream one byte at a time -/
theorem chunking_bytewise_noquote (c : Ctx) (h : WF c) (cs : List Bytes)
    (hne : ∀ x ∈ cs, x ≠ []) (hcs : cs ≠ [])
    (hfit : Fits c cs.flatten.length) (hq : NoQuotes (c.buf.take c.position ++ cs.flatten)) :
    UserObservable (cs.foldl input c) = UserObservable ((cs.flatten.map fun b => [b]).foldl input c) := by
  have hf : ∀ s : Bytes, (s.map fun b => [b]).flatten = s := by
    intro s; induction s with
    | nil => rfl
    | cons a t ih => simp [ih]
  refine chunking_invariant_noquote c h cs _ ⟨hne, ?_⟩ (hf _).symm hcs hfit hq
  intro x hx
  obtain ⟨b, _, rfl⟩ := List.mem_map.1 hx
  simp

/-- and splitting one chunk in two, anywhere, changes nothing the user can observe -/
theorem input_split_noquote (c : Ctx) (h : WF c) (a b : Bytes) (ha : a ≠ []) (hb : b ≠ [])
    (hfit : Fits c (a.length + b.length)) (hq : NoQuotes (c.buf.take c.position ++ a ++ b)) :
    UserObservable (input (input c a) b) = UserObservable (input c (a ++ b)) :=
  (Lemmas.Chunking.inputU_split c h a b ha hb hfit (Lemmas.Chunking.noQuotes_qll hq)).obs

/-! ## streams with quoted strings: `NoQuotes` weakened to `QuotesLineLocal`

The hypothesis: no quoted string contains a line terminator (Spec/Chunking.lean).  A line terminator inside a
quoted string is exactly what `chunking_counterexample` uses, so the hypothesis cannot be dropped; it is stated
conservatively for every quote character that directly follows a blank or a comma, whether or not the scan of
SCPI_Input reaches it in a string position. -/

/-- the quote-free streams are a special case -/
theorem quotesLineLocal_of_noQuotes (s : Bytes) (h : NoQuotes s) : QuotesLineLocal s :=
  Lemmas.Chunking.noQuotes_qll h

/-- the hypothesis is a computation on the byte stream (the `Decidable` instance derived from this is in
Lemmas/ChunkingQuote.lean; the examples below evaluate it in the kernel) -/
theorem quotesLineLocal_iff (s : Bytes) : quotesLineLocalB s = true ↔ QuotesLineLocal s :=
  Lemmas.Chunking.quotesLineLocalB_iff s

/-- splitting one chunk in two, anywhere (inside a quoted string, directly after a CR), changes nothing the
user can observe -/
theorem input_split_quotes (c : Ctx) (h : WF c) (a b : Bytes) (ha : a ≠ []) (hb : b ≠ [])
    (hfit : Fits c (a.length + b.length)) (hq : QuotesLineLocal (c.buf.take c.position ++ a ++ b)) :
    UserObservable (input (input c a) b) = UserObservable (input c (a ++ b)) :=
  (Lemmas.Chunking.inputU_split c h a b ha hb hfit hq).obs

/-- ANY two partitions into non-empty chunks of a stream (pending bytes included) in which no quoted string
contains a line terminator: the user sees the same handlers, parameters, errors, output, flushes, registers,
error queue and remainder -/
theorem chunking_invariant_quotes (c : Ctx) (h : WF c) (cs cs' : List Bytes)
    (hne : (∀ x ∈ cs, x ≠ []) ∧ (∀ x ∈ cs', x ≠ [])) (hs : cs.flatten = cs'.flatten) (hcs : cs ≠ [])
    (hfit : Fits c cs.flatten.length) (hq : QuotesLineLocal (c.buf.take c.position ++ cs.flatten)) :
    UserObservable (cs.foldl input c) = UserObservable (cs'.foldl input c) :=
  Lemmas.Chunking.chunking_invariant_quotes c h cs cs' hne hs hcs hfit hq

theorem flatten_singletons (s : Bytes) : (s.map fun b => [b]).flatten = s := by
  induction s with
  | nil => rfl
  | cons a t ih => simp [ih]

theorem singletons_ne_nil (s : Bytes) : ∀ x ∈ s.map (fun b => [b]), x ≠ [] := by
  intro x hx
  obtain ⟨b, _, rfl⟩ := List.mem_map.1 hx
  simp

/-- in particular any partition behaves, for the user, like feeding the stream one byte at a time -/
theorem chunking_bytewise_quotes (c : Ctx) (h : WF c) (cs : List Bytes)
    (hne : ∀ x ∈ cs, x ≠ []) (hcs : cs ≠ [])
    (hfit : Fits c cs.flatten.length) (hq : QuotesLineLocal (c.buf.take c.position ++ cs.flatten)) :
    UserObservable (cs.foldl input c) = UserObservable ((cs.flatten.map fun b => [b]).foldl input c) :=
  chunking_invariant_quotes c h cs _ ⟨hne, singletons_ne_nil _⟩ (flatten_singletons _).symm hcs hfit hq

/-- `Observable` (message boundaries included): splitting one chunk in two, not directly after a CR -/
theorem input_split_cr_quotes (c : Ctx) (h : WF c) (a b : Bytes) (ha : a ≠ []) (hb : b ≠ [])
    (hfit : Fits c (a.length + b.length)) (hq : QuotesLineLocal (c.buf.take c.position ++ a ++ b))
    (hcut : a.getLast? ≠ some 13) :
    Observable (input (input c a) b) = Observable (input c (a ++ b)) :=
  Lemmas.Chunking.input_split_cr_quotes c h a b ha hb hfit hq hcut

/-- `Observable`: two partitions neither of which cuts directly after a CR -/
theorem chunking_invariant_cr_quotes (c : Ctx) (h : WF c) (cs cs' : List Bytes)
    (hne : (∀ x ∈ cs, x ≠ []) ∧ (∀ x ∈ cs', x ≠ [])) (hs : cs.flatten = cs'.flatten) (hcs : cs ≠ [])
    (hfit : Fits c cs.flatten.length) (hq : QuotesLineLocal (c.buf.take c.position ++ cs.flatten))
    (hcut : (∀ x ∈ cs, x.getLast? ≠ some 13) ∧ (∀ x ∈ cs', x.getLast? ≠ some 13)) :
    Observable (cs.foldl input c) = Observable (cs'.foldl input c) :=
  Lemmas.Chunking.chunking_invariant_cr_quotes c h cs cs' hne hs hcs hfit hq hcut

/-- `Observable`, streams without CR: splitting one chunk in two, anywhere -/
theorem input_split_nocr_quotes (c : Ctx) (h : WF c) (a b : Bytes) (ha : a ≠ []) (hb : b ≠ [])
    (hfit : Fits c (a.length + b.length)) (hq : QuotesLineLocal (c.buf.take c.position ++ a ++ b))
    (hcr : NoCR (c.buf.take c.position ++ a ++ b)) :
    Observable (input (input c a) b) = Observable (input c (a ++ b)) :=
  input_split_cr_quotes c h a b ha hb hfit hq
    (fun h13 => hcr 13 (List.mem_append_left _ (List.mem_append_right _ (List.mem_of_getLast? h13))) rfl)

/-- `Observable`, streams without CR: any two partitions -/
theorem chunking_invariant_nocr_quotes (c : Ctx) (h : WF c) (cs cs' : List Bytes)
    (hne : (∀ x ∈ cs, x ≠ []) ∧ (∀ x ∈ cs', x ≠ [])) (hs : cs.flatten = cs'.flatten) (hcs : cs ≠ [])
    (hfit : Fits c cs.flatten.length) (hq : QuotesLineLocal (c.buf.take c.position ++ cs.flatten))
    (hcr : NoCR (c.buf.take c.position ++ cs.flatten)) :
    Observable (cs.foldl input c) = Observable (cs'.foldl input c) :=
  chunking_invariant_cr_quotes c h cs cs' hne hs hcs hfit hq
    ⟨Lemmas.Chunking.noCR_chunks hcr, Lemmas.Chunking.noCR_chunks (by rw [← hs]; exact hcr)⟩

/-- `Observable`, streams without CR: any partition behaves like feeding the stream one byte at a time -/
theorem chunking_bytewise_nocr_quotes (c : Ctx) (h : WF c) (cs : List Bytes)
    (hne : ∀ x ∈ cs, x ≠ []) (hcs : cs ≠ [])
    (hfit : Fits c cs.flatten.length) (hq : QuotesLineLocal (c.buf.take c.position ++ cs.flatten))
    (hcr : NoCR (c.buf.take c.position ++ cs.flatten)) :
    Observable (cs.foldl input c) = Observable ((cs.flatten.map fun b => [b]).foldl input c) :=
  chunking_invariant_nocr_quotes c h cs _ ⟨hne, singletons_ne_nil _⟩ (flatten_singletons _).symm hcs hfit hq hcr

/-- when the scan of SCPI_Input finds a complete message in the pending bytes `s`, it finds the same message
when more bytes `y` follow — also when `s` ends inside a quoted string — unless `s` ends in a CR -/
theorem scan_prefix_stable_quotes (s y : Bytes) (k : Nat) (hq : QuotesLineLocal (s ++ y)) (hcut : s.getLast? ≠ some 13)
    (h : Lemmas.Chunking.scan s = some k) : Lemmas.Chunking.scan (s ++ y) = some k :=
  Lemmas.Chunking.scan_stable s y k hq hcut h

/-- a zero-length call executes whatever is buffered as one complete message and empties the buffer -/
theorem flush_executes_pending (c : Ctx) (h : WF c) :
    let c' := input c []
    c'.position = 0 ∧
    (c'.events.drop c.events.length).head? = some (Ev.parseMsg (c.buf.take c.position)) ∧
    (∃ r, (c'.events.getLast? = some (Ev.input r))) :=
  Lemmas.Chunking.flush_executes_pending c h

/-- the full statement fails: `TXT "a<LF>b"<LF>` fed whole delivers the string to the handler, fed in two
pieces (cut after the embedded line feed) it raises errors instead -/
theorem chunking_counterexample :
    let cmds : List Cmd := [⟨[84, 88, 84], 1, [.pText true 16]⟩]                       -- pattern "TXT", reads one text parameter
    let c := Ctx.init cmds [] 64 4 true
    let s : Bytes := [84, 88, 84, 32, 34, 97, 10, 98, 34, 10]                          -- TXT "a\nb"\n
    Observable (input c s) ≠ Observable (input (input c (s.take 7)) (s.drop 7)) := by
  -- (the instance search does not find `DecidableEq` for the six-fold product: compare the event logs)
  intro cmds c s h
  have h1 := congrArg Prod.fst h
  revert h1
  simp only [Observable]
  decide +kernel +zetaReduce

/-! ## the `…_quotes` theorems on a concrete stream with quoted strings

`TXT "a;b",'c'<LF>`, a command that reads two text parameters: the hypotheses hold, the stream cut inside the
first string (after the semicolon), cut after every byte, and fed whole gives the same events. -/

/-- the context, the stream and its first 7 bytes `TXT "a;` -/
def exCtx : Ctx := Ctx.init [⟨[84, 88, 84], 1, [.pText true 16, .pText true 16]⟩] [] 64 4 true
def exStream : Bytes := [84, 88, 84, 32, 34, 97, 59, 98, 34, 44, 39, 99, 39, 10]

theorem quotes_example :
    WF exCtx ∧ Fits exCtx exStream.length ∧ QuotesLineLocal (exCtx.buf.take exCtx.position ++ exStream) ∧
    ¬ NoQuotes (exCtx.buf.take exCtx.position ++ exStream) ∧
    -- the scan of the first piece finds no message, the scan of the whole stream finds the whole line
    Lemmas.Chunking.scan (exStream.take 7) = none ∧ Lemmas.Chunking.scan exStream = some 14 ∧
    (input exCtx exStream).events =
      [.parseMsg exStream, .handler 1 [84, 88, 84], .pText true [97, 59, 98] true, .pText true [99] true, .input true] ∧
    (input (input exCtx (exStream.take 7)) (exStream.drop 7)).events =
      [.input true, .parseMsg exStream, .handler 1 [84, 88, 84], .pText true [97, 59, 98] true, .pText true [99] true,
       .input true] ∧
    (((exStream.map fun b => [b]).foldl input exCtx).events.filter (fun e => match e with | .input _ => false | _ => true)) =
      [.parseMsg exStream, .handler 1 [84, 88, 84], .pText true [97, 59, 98] true, .pText true [99] true] := by
  refine ⟨by unfold WF; decide, by unfold Fits; decide, by decide +kernel, ?_, by decide +kernel, by decide +kernel, by decide +kernel,
    by decide +kernel, by decide +kernel⟩
  intro h
  exact (h 34 (by decide)).1 rfl

/-- `input_split_quotes` applies to the stream cut inside the first string -/
theorem input_split_quotes_example :
    UserObservable (input (input exCtx (exStream.take 7)) (exStream.drop 7)) = UserObservable (input exCtx exStream) :=
  input_split_quotes exCtx quotes_example.1 (exStream.take 7) (exStream.drop 7) (by decide) (by decide) (by unfold Fits; decide)
    (by decide +kernel)

/-- `input_split_cr_quotes` too: also the message boundaries are the same -/
theorem input_split_cr_quotes_example :
    Observable (input (input exCtx (exStream.take 7)) (exStream.drop 7)) = Observable (input exCtx exStream) :=
  input_split_cr_quotes exCtx quotes_example.1 (exStream.take 7) (exStream.drop 7) (by decide) (by decide) (by unfold Fits; decide)
    (by decide +kernel) (by decide)

/-- `chunking_invariant_quotes` / `chunking_invariant_cr_quotes` / `chunking_invariant_nocr_quotes`: the partition
`TXT "a;` `b",'` `c'<LF>` against the partition `TXT ` `"a;b",'c'<LF>` -/
theorem chunking_invariant_quotes_example :
    let cs : List Bytes := [exStream.take 7, (exStream.drop 7).take 4, exStream.drop 11]
    let cs' : List Bytes := [exStream.take 4, exStream.drop 4]
    UserObservable (cs.foldl input exCtx) = UserObservable (cs'.foldl input exCtx) ∧
    Observable (cs.foldl input exCtx) = Observable (cs'.foldl input exCtx) := by
  intro cs cs'
  have hne : (∀ x ∈ cs, x ≠ []) ∧ (∀ x ∈ cs', x ≠ []) := by decide
  have hs : cs.flatten = cs'.flatten := by decide
  have hq : QuotesLineLocal (exCtx.buf.take exCtx.position ++ cs.flatten) := by decide +kernel
  exact ⟨chunking_invariant_quotes exCtx quotes_example.1 cs cs' hne hs (by decide) (by unfold Fits; decide) hq,
    chunking_invariant_cr_quotes exCtx quotes_example.1 cs cs' hne hs (by decide) (by unfold Fits; decide) hq (by decide)⟩

/-- `chunking_bytewise_quotes` / `chunking_bytewise_nocr_quotes`: the stream in one piece against one byte at a time -/
theorem chunking_bytewise_quotes_example :
    UserObservable (input exCtx exStream) = UserObservable ((exStream.map fun b => [b]).foldl input exCtx) ∧
    Observable (input exCtx exStream) = Observable ((exStream.map fun b => [b]).foldl input exCtx) := by
  have hq : QuotesLineLocal (exCtx.buf.take exCtx.position ++ [exStream].flatten) := by decide +kernel
  exact ⟨chunking_bytewise_quotes exCtx quotes_example.1 [exStream] (by decide) (by decide) (by unfold Fits; decide) hq,
    chunking_bytewise_nocr_quotes exCtx quotes_example.1 [exStream] (by decide) (by decide) (by unfold Fits; decide) hq (by unfold NoCR; decide)⟩

/-- `scan_prefix_stable_quotes` on `TXT "a;b",'c'<LF>` followed by the start of a next line that ends inside a string -/
theorem scan_prefix_stable_quotes_example :
    Lemmas.Chunking.scan (exStream ++ [84, 88, 84, 32, 34, 97]) = some 14 :=
  scan_prefix_stable_quotes exStream [84, 88, 84, 32, 34, 97] 14 (by decide +kernel) (by decide) quotes_example.2.2.2.2.2.1

/-- the stream of `chunking_counterexample`, `TXT "a<LF>b"<LF>`, does not satisfy the hypothesis: the string
`"a<LF>b"` follows a blank and contains a line feed -/
theorem counterexample_not_quotesLineLocal : ¬ QuotesLineLocal [84, 88, 84, 32, 34, 97, 10, 98, 34, 10] := by
  decide +kernel

/-- and the hypothesis cannot be replaced by a pairing of the quotes line by line: in `A"B "x<LF>y" "<LF>` every
line has an even number of quotes, yet fed whole the scan takes `"x<LF>y"` for a string and finds one message of
14 bytes, and cut after the first line it finds the message `A"B "x<LF>` — the predicate rejects this stream -/
theorem pairing_is_not_enough :
    let s : Bytes := [65, 34, 66, 32, 34, 120, 10, 121, 34, 32, 34, 10]
    Lemmas.Chunking.scan s = some 12 ∧ Lemmas.Chunking.scan (s.take 7) = some 7 ∧ ¬ QuotesLineLocal s := by
  intro s
  exact ⟨by decide +kernel, by decide +kernel, by decide +kernel⟩

/-- second difference, benign: `A 1<CR><LF>` fed whole is one message ending in CR LF; cut between CR
and LF, the CR ends the message and the LF is parsed as an empty message of its own.  The handler
runs once with the same parameter in both cases; only the `parseMsg` events differ. -/
theorem chunking_crlf_difference :
    let cmds : List Cmd := [⟨[65], 2, [.pInt 32 true false]⟩]                           -- pattern "A", reads one optional int
    let c := Ctx.init cmds [] 64 4 true
    let s : Bytes := [65, 32, 49, 13, 10]                                               -- A 1\r\n
    (input c s).events =
      [.parseMsg [65, 32, 49, 13, 10], .handler 2 [65], .pInt true 1, .input true] ∧
    (input (input c (s.take 4)) (s.drop 4)).events =
      [.parseMsg [65, 32, 49, 13], .handler 2 [65], .pInt true 1, .input true, .parseMsg [10], .input true] := by
  intro cmds c s
  decide +kernel +zetaReduce

end ScpiVerif.Props.C08
