/-
C18 — The error query always yields one well-formed, bounded error response.
Property theorems only; helper lemmas in ScpiVerif/Lemmas/ErrorString.lean.
`Result.resultError` is the model of SCPI_ResultError; `Spec.ErrorString.response` the specification:
<code>,"<description>[;<text>]" with doubled quotes, content cut to the longest prefix whose
escaped form has at most 255 characters.
-/
import ScpiVerif.Model.Result
import ScpiVerif.Spec.ErrorString
import ScpiVerif.Lemmas.ErrorString

namespace ScpiVerif.Props.C18
open ScpiVerif ScpiVerif.Lexer ScpiVerif.Result ScpiVerif.Spec.ErrorString

/-- bytes the query writes, given what was written before -/
def emitted (o o' : Out) : Bytes := o'.written.drop o.written.length

/-- Full statement, malloc build (the text is one part or absent): for every 16-bit code, every
description and every device-dependent text of any length and content (no NUL: C strings), the model
writes exactly the specified response (after the item separator that the output state calls for).
`o.outputCount = 0` is the state in which the SYST:ERR? handler runs when it is the first responding unit. -/
theorem resultError_one_part (o : Out) (code : Int) (hc : -32768 ≤ code ∧ code ≤ 32767) (desc : Bytes) (text : Option Bytes)
    (hd : desc.all (· ≠ 0) = true) (hdne : desc ≠ []) (ht : ∀ t, text = some t → t.all (· ≠ 0) = true) (ho : o.outputCount = 0) :
    emitted o (resultError o code desc [text]) = response code desc text :=
  Lemmas.ErrorString.resultError_one_part o code hc desc text hd hdne ht ho

/-- static-heap build: the text may be stored in two parts (wrapped around the end of the heap) -/
theorem resultError_two_parts (o : Out) (code : Int) (hc : -32768 ≤ code ∧ code ≤ 32767) (desc a b : Bytes)
    (hd : desc.all (· ≠ 0) = true) (hdne : desc ≠ []) (ha : a.all (· ≠ 0) = true) (hane : a ≠ []) (hb : b.all (· ≠ 0) = true)
    (ho : o.outputCount = 0) :
    emitted o (resultError o code desc [some a, if b.isEmpty then none else some b]) = response code desc (some (a ++ b)) :=
  Lemmas.ErrorString.resultError_two_parts o code hc desc a b hd hdne ha hane hb ho

/-- the specified response is a single IEEE 488.2 string after the code: its unescaped content is a
prefix of description;text, the escaped content has at most 255 characters, and no longer prefix fits -/
theorem response_shape (code : Int) (desc : Bytes) (text : Option Bytes) :
    let full := desc ++ (match text with | some t => [59] ++ t | none => [])
    let c := cut full 255
    response code desc text = signedDecimal code ++ [44, 34] ++ escape c ++ [34] ∧
    c = full.take c.length ∧ (escape c).length ≤ 255 ∧
    (c.length < full.length → (escape (full.take (c.length + 1))).length > 255) :=
  Lemmas.ErrorString.response_shape code desc text

/-- un-escaping recovers the content: every quote inside is doubled and nothing else is changed -/
theorem escape_injective (a b : Bytes) (h : escape a = escape b) : a = b := Lemmas.ErrorString.escape_injective a b h

/-- codes without a table entry use the fallback description; every code has one (generated list) -/
theorem description_total (code : Int) :
    errorTranslate code = (match Gen.errorList.find? (fun p => p.1 == code) with
      | some p => bytesOf p.2 | none => bytesOf Gen.errFallback) ∧ errorTranslate code ≠ [] :=
  Lemmas.ErrorString.description_total code

-- non-vacuity
example : emitted {} (resultError {} (-113) (bytesOf "Undefined header") [some (bytesOf "a\"b")]) =
    bytesOf "-113,\"Undefined header;a\"\"b\"" := by decide +kernel

end ScpiVerif.Props.C18
