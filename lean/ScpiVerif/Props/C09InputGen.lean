/-
C09, generated tie — `input_noninterference` of Props/C09.lean for the Lean text translated from SCPI_Input of
libscpi/src/parser.c on every run (Gen/InputC.lean), its three library calls instantiated by the hand model's functions.
Transfer through `input_refines_inv` (Lemmas/InputC.lean).  Property theorems and examples only.

This module is an obligation of C09's check whenever the translator ACCEPTS the current SCPI_Input.
-/
import ScpiVerif.Props.C09
import ScpiVerif.Props.C01InputGen

namespace ScpiVerif.Props.C09InputGen
open ScpiVerif ScpiVerif.Ctx ScpiVerif.Gen.InputC ScpiVerif.Lemmas.InputC ScpiVerif.Props.C09
open ScpiVerif.Lexer (Bytes)

/-- one call of the generated SCPI_Input on two states whose hand-model views are related (same command table, buffer size,
pending input bytes, registers, error queue as an abstract FIFO; everything else arbitrary, parser_state included): the same
observations (new events incl. the return value, new output bytes, new flushes), the results are related again, and in neither
run a CHECK of the generated text fails -/
theorem c_input_noninterference (cc1 cc2 : CC) (h1 : Inv cc1) (h2 : Inv cc2) (h : Rel (toM cc1) (toM cc2)) (data : Bytes)
    (hlen : data.length ≤ 2147483647) :
    let r1 := SCPI_Input detectM parseM pushM cc1 (some data) data.length
    let r2 := SCPI_Input detectM parseM pushM cc2 (some data) data.length
    newObs (toM cc1) (emit (toM r1.1) (.input r1.2)) = newObs (toM cc2) (emit (toM r2.1) (.input r2.2)) ∧
    Rel (toM r1.1) (toM r2.1) ∧ r1.1.ub = false ∧ r2.1.ub = false := by
  intro r1 r2
  have e1 := input_refines_inv cc1 h1 data hlen
  have e2 := input_refines_inv cc2 h2 data hlen
  have hn := Props.C09.input_noninterference (toM cc1) (toM cc2) h data
  rw [e1.1, e2.1] at hn
  exact ⟨hn.1, hn.2, e1.2.1, e2.2.1⟩

/-- from two well-formed hand-model contexts, whatever parser_state holds in either -/
theorem c_input_noninterference_wf (c1 c2 : Ctx) (t1 ht1 t2 ht2 : Int) (h : Rel c1 c2) (ho1 : c1.oob = false) (ho2 : c2.oob = false)
    (hl : c1.bufLen ≤ 2147483647) (data : Bytes) (hlen : data.length ≤ 2147483647) :
    let r1 := SCPI_Input detectM parseM pushM (toC c1 t1 ht1) (some data) data.length
    let r2 := SCPI_Input detectM parseM pushM (toC c2 t2 ht2) (some data) data.length
    newObs c1 (emit (toM r1.1) (.input r1.2)) = newObs c2 (emit (toM r2.1) (.input r2.2)) ∧
    Rel (toM r1.1) (toM r2.1) ∧ r1.1.ub = false ∧ r2.1.ub = false := by
  obtain ⟨_, _, _, hb, hb1, hb2, hp, hp1, _, _, _⟩ := id h
  have w1 : WF c1 := ⟨hb1, hp1, ho1⟩
  have w2 : WF c2 := ⟨hb2, by omega, ho2⟩
  have := c_input_noninterference (toC c1 t1 ht1) (toC c2 t2 ht2) (inv_toC c1 t1 ht1 w1 hl) (inv_toC c2 t2 ht2 w2 (by omega))
    (by rw [toM_toC, toM_toC]; exact h) data hlen
  rw [toM_toC, toM_toC] at this
  exact this

/-- Props/C09.lean `stream_noninterference` for the generated function, called chunk by chunk (`cstep`: the caller appends the
return value to the ghost log): for ANY stream of chunks, two states with related views make the same observations and stay related -/
theorem c_stream_noninterference (cc1 cc2 : CC) (h1 : Inv cc1) (h2 : Inv cc2) (h : Rel (toM cc1) (toM cc2)) (chunks : List Bytes)
    (hl : ∀ d ∈ chunks, d.length ≤ 2147483647) :
    newObs (toM cc1) (toM (chunks.foldl cstep cc1)) = newObs (toM cc2) (toM (chunks.foldl cstep cc2)) ∧
    Rel (toM (chunks.foldl cstep cc1)) (toM (chunks.foldl cstep cc2)) ∧
    (chunks.foldl cstep cc1).ub = false ∧ (chunks.foldl cstep cc2).ub = false := by
  have e1 := csteps_refine chunks cc1 h1 hl
  have e2 := csteps_refine chunks cc2 h2 hl
  have hn := Props.C09.stream_noninterference (toM cc1) (toM cc2) h chunks
  rw [← e1.1, ← e2.1] at hn
  exact ⟨hn.1, hn.2, e1.2.ub, e2.2.ub⟩

-- two contexts with different histories (the second has executed a message and failed another, and holds stale bytes
-- behind the pending "A") but the same pending input: the generated SCPI_Input makes the same observations on "\nA\n"
example :
    let c1 := Ctx.input C01InputGen.ex0 [65]
    let c2 := Ctx.input (Ctx.input (Ctx.input C01InputGen.ex0 [65, 10, 66, 66, 66, 10]) []) [65]
    let r1 := SCPI_Input detectM parseM pushM (toC c1 0 0) (some [10, 65, 10]) 3
    let r2 := SCPI_Input detectM parseM pushM (toC c2 1 26) (some [10, 65, 10]) 3
    c1.buf ≠ c2.buf ∧ c1.position = c2.position ∧
    (newObs c1 (emit (toM r1.1) (.input r1.2))).1 = (newObs c2 (emit (toM r2.1) (.input r2.2))).1 ∧
    (newObs c1 (emit (toM r1.1) (.input r1.2))).1.length = 7 ∧
    r1.2 = r2.2 ∧ (toM r1.1).position = (toM r2.1).position ∧ r1.1.ub = false ∧ r2.1.ub = false := by
  decide +kernel

end ScpiVerif.Props.C09InputGen
