/-
C19 — Numeric and channel lists decode entry by entry exactly as written.
Property theorems only; helper lemmas in ScpiVerif/Lemmas/ExprList.lean, ExprListMalformed.lean and ExprListDouble.lean.
`Expr.numericListEntry` / `Expr.channelListEntry` model SCPI_ExprNumericListEntry /
SCPI_ExprChannelListEntry on the text between the parentheses; `Spec.ExprList` is the list grammar.

Double-valued variant (SCPI_ExprNumericListEntryDouble): `Expr.tokDoubleText` is the text SCPI_ParamToDouble hands to
strtod for a token of the list.  `numeric_entry_double` says it is the written number whenever that number has no
inner white space; C04's known finding (`C04.whitespace_in_literal`, white space before the exponent or after its E
ends the conversion) applies to list entries exactly as it does to parameters: `numeric_entry_double_counterexample`.
That strtod delivers the correctly rounded value of the text is trusted and compared bit-exactly (as in C04).
-/
import ScpiVerif.Model.Expr
import ScpiVerif.Spec.ExprList
import ScpiVerif.Lemmas.ExprList
import ScpiVerif.Lemmas.ExprListMalformed
import ScpiVerif.Lemmas.ExprListDouble
import ScpiVerif.Spec.Float
import ScpiVerif.Props.C04

namespace ScpiVerif.Props.C19
open ScpiVerif ScpiVerif.Lexer ScpiVerif.Spec.ExprList
-- `NumEntry` / `ChanEntry` below are the grammar's (Spec.ExprList); the model's result records of the same name stay qualified
open ScpiVerif.Expr hiding NumEntry ChanEntry

def tokText (body : Bytes) (t : Token) : Bytes := (body.drop t.ptr).take t.len.toNat

/-- the 32-bit integer a number of the list denotes for the integer variants (strtol of its text) -/
def litInt32 (t : Bytes) : Int := (Prim.strtolTo 32 t 0 10).2

/-- Full statement (numeric lists): for every well-formed list and every index, entry i is reported OK
with exactly the written number or range, and NO_MORE at or beyond the number of entries; no error is queued -/
theorem numeric_entry (body : Bytes) (l : List NumEntry) (h : parseNumList body = some l) (i : Nat) :
    let r := numericListEntry body i
    match l[i]? with
    | some e =>
      r.res = .ok ∧ r.isRange = some e.to_.isSome ∧ tokText body r.from_ = e.from_ ∧ tokInt32 body r.from_ = litInt32 e.from_ ∧
      (∀ t, e.to_ = some t → tokText body r.to_ = t ∧ tokInt32 body r.to_ = litInt32 t) ∧ r.pushed = []
    | none => r.res = .noMore ∧ r.pushed = [] :=
  Lemmas.ExprList.numeric_entry body l h i

/-- Full statement (channel lists): entry i is reported OK with its dimension count and its values as
written (as many as the caller's capacity allows), NO_MORE at or beyond the number of entries -/
theorem channel_entry (body : Bytes) (l : List ChanEntry) (h : parseChanList body = some l) (i cap : Nat) :
    let r := channelListEntry body i cap
    match l[i]? with
    | some e =>
      r.res = .ok ∧ r.isRange = some e.to_.isSome ∧ r.dims = some e.from_.length ∧
      r.from_ = (e.from_.take cap).map litInt32 ∧ (∀ t, e.to_ = some t → r.to_ = (t.take cap).map litInt32) ∧ r.pushed = []
    | none => r.res = .noMore ∧ r.pushed = [] :=
  Lemmas.ExprList.channel_entry body l h i cap

/-- for ANY expression content: values are never stored beyond the capacity the caller announced -/
theorem stores_bounded (body : Bytes) (i cap : Nat) :
    (channelListEntry body i cap).from_.length ≤ cap ∧ (channelListEntry body i cap).to_.length ≤ cap :=
  Lemmas.ExprList.stores_bounded body i cap

/-- for ANY expression content: a numeric entry is reported OK only if it and all entries before it are well formed -/
theorem numeric_ok_implies_prefix_wf (body : Bytes) (i : Nat) (h : (numericListEntry body i).res = .ok) :
    ∃ e, (numPrefix (body.length + 1) body [])[i]? = some e ∧ tokText body (numericListEntry body i).from_ = e.from_ :=
  Lemmas.ExprList.numeric_ok_implies_prefix_wf body i h

/-- for ANY expression content: ERROR from a channel list queues exactly one -170, OK and NO_MORE queue nothing -/
theorem channel_error_pushes (body : Bytes) (i cap : Nat) :
    let r := channelListEntry body i cap
    (r.res = .error → r.pushed = [-170]) ∧ (r.res ≠ .error → r.pushed = []) :=
  Lemmas.ExprList.channel_error_pushes body i cap

/-- a malformed channel list is never answered with a silent NO_MORE: for content that is not a well-formed channel
list, every index gets OK (an entry of the well-formed prefix) or ERROR — and ERROR comes with -170 (channel_error_pushes) -/
theorem channel_malformed_never_no_more (body : Bytes) (i cap : Nat) (h : parseChanList body = none) :
    (channelListEntry body i cap).res ≠ .noMore :=
  Lemmas.ExprList.channel_malformed_never_no_more body i cap h

/-- the NO_MORE clause made exact, for ANY expression content: NO_MORE is returned precisely when the content is a
well-formed channel list and the index is at or beyond its number of entries (`channel_entry` is the ← direction) -/
theorem channel_no_more_iff (body : Bytes) (i cap : Nat) :
    (channelListEntry body i cap).res = .noMore ↔ ∃ l, parseChanList body = some l ∧ l.length ≤ i :=
  Lemmas.ExprList.channel_no_more_iff body i cap

/-! ### the double-valued variant -/

/-- no blank (32) or tab (9) inside the number: the hypothesis under which strtod converts all of it -/
def noInnerWs (t : Bytes) : Bool := t.all (fun b => b != 32 && b != 9)

/-- Full statement for the values of SCPI_ExprNumericListEntryDouble: for every well-formed numeric list and every entry i
of it, at the position of each returned token the token specification delimits exactly the written number
(`C04.literalAt`), that number has a value in the sense of Spec/Float.lean (the correctly rounded double of which the
judge compares with), and - if the number contains no inner white space - the text handed to strtod is exactly the
written number.  Nothing else is assumed: the hexadecimal-constant side condition of `C04.conversion_sees_literal_partial`
(a literal "0" must not be followed by x / X) is discharged, because a well-formed list has no such byte
(`numeric_list_bytes`).  Leading white space plays no role: the walker does not skip any, the token starts at the first
byte of the number, and that byte is a sign, a digit or the point (`numeric_entry_starts_with_number`). -/
theorem numeric_entry_double (body : Bytes) (l : List NumEntry) (h : parseNumList body = some l) (i : Nat)
    (e : NumEntry) (he : l[i]? = some e) :
    let r := numericListEntry body i
    (C04.literalAt (body.drop r.from_.ptr) = some e.from_ ∧ (Spec.Float.litValue e.from_).isSome = true ∧
      (noInnerWs e.from_ = true → tokDoubleText body r.from_ = e.from_)) ∧
    (∀ t, e.to_ = some t →
      C04.literalAt (body.drop r.to_.ptr) = some t ∧ (Spec.Float.litValue t).isSome = true ∧
      (noInnerWs t = true → tokDoubleText body r.to_ = t)) :=
  Lemmas.ExprListDouble.numeric_entry_double body l h i e he

/-- the white-space hypothesis cannot be dropped: "1 e2" is a well-formed list of one number (value 100), entry 0 is reported
OK with the whole text as token, but the text handed to strtod is "1" (value 1) - C04's known finding inside a list -/
theorem numeric_entry_double_counterexample :
    parseNumList [49, 32, 101, 50] = some [⟨[49, 32, 101, 50], none⟩] ∧
    (numericListEntry [49, 32, 101, 50] 0).res = .ok ∧
    tokText [49, 32, 101, 50] (numericListEntry [49, 32, 101, 50] 0).from_ = [49, 32, 101, 50] ∧
    noInnerWs [49, 32, 101, 50] = false ∧
    tokDoubleText [49, 32, 101, 50] (numericListEntry [49, 32, 101, 50] 0).from_ = [49] ∧
    Spec.Float.litValue [49, 32, 101, 50] = some (false, 100, 1) ∧ Spec.Float.litValue [49] = some (false, 1, 1) := by
  decide +kernel

/-- well-formedness of the WHOLE list cannot be weakened to "entry i was reported OK" (`numeric_ok_implies_prefix_wf`): for
the content "0x1" (not a list) entry 0 is reported OK with the token "0" - the walker does not look beyond entry i -, the
integer variant delivers 0, but strtod is handed "0x1", a hexadecimal floating constant (value 1).  So the hexadecimal
side condition of C04, unobservable for parameters (the suffix is always rejected), is observable through
SCPI_ExprNumericListEntryDouble on malformed content; asking for entry 1 of the same content gives ERROR. -/
theorem numeric_entry_double_malformed_hexfloat :
    parseNumList [48, 120, 49] = none ∧ (numericListEntry [48, 120, 49] 0).res = .ok ∧
    tokText [48, 120, 49] (numericListEntry [48, 120, 49] 0).from_ = [48] ∧
    tokInt32 [48, 120, 49] (numericListEntry [48, 120, 49] 0).from_ = 0 ∧
    tokDoubleText [48, 120, 49] (numericListEntry [48, 120, 49] 0).from_ = [48, 120, 49] ∧
    (numericListEntry [48, 120, 49] 1).res = .error := by
  decide +kernel

/-- every byte of a well-formed numeric list is a sign, a digit, the point, e / E, blank / tab, ',' or ':' - in particular
never 'x' / 'X', so strtod cannot take a number of the list for a hexadecimal floating constant -/
theorem numeric_list_bytes (body : Bytes) (l : List NumEntry) (h : parseNumList body = some l) :
    ∀ b ∈ body, (isPlusMn b || isDigit b || b == 46 || isWs b || isE b || b == 44 || b == 58) = true :=
  fun b hb => Lemmas.ExprListDouble.numList_chars _ body l h b hb

/-- every number of a well-formed list starts with a sign, a digit or the point (never with white space, which strtod
would skip): the converted text starts where the written number starts -/
theorem numeric_entry_starts_with_number (body : Bytes) (l : List NumEntry) (h : parseNumList body = some l) (i : Nat)
    (e : NumEntry) (he : l[i]? = some e) :
    (∃ b, e.from_.head? = some b ∧ (isPlusMn b || isDigit b || b == 46) = true) ∧
    ∀ t, e.to_ = some t → ∃ b, t.head? = some b ∧ (isPlusMn b || isDigit b || b == 46) = true :=
  Lemmas.ExprListDouble.numeric_entry_head body l h i e he

-- non-vacuity: "1,2:5,7" and "@1!2:3!4,5!6"
example : (parseNumList [49,44,50,58,53,44,55]).map (·.length) = some 3 := by decide
example : (numericListEntry [49,44,50,58,53,44,55] 1).res = .ok := by decide
example : (channelListEntry [64,49,33,50,58,51,33,52,44,53,33,54] 0 2).from_ = [1, 2] := by decide
-- malformed: "@1,,2" (index 0 is the OK prefix entry, index 1 and beyond are ERROR), "@1!2:3" (dimension mismatch), "1,2" (no '@')
example : parseChanList [64,49,44,44,50] = none ∧ (channelListEntry [64,49,44,44,50] 0 2).res = .ok ∧
    (channelListEntry [64,49,44,44,50] 1 2).res = .error ∧ (channelListEntry [64,49,44,44,50] 3 2).res = .error := by decide
example : parseChanList [64,49,33,50,58,51] = none ∧ (channelListEntry [64,49,33,50,58,51] 0 2).res = .error := by decide
example : parseChanList [49,44,50] = none ∧ (channelListEntry [49,44,50] 0 2).res = .error := by decide

-- the double variant on "1.5,2e3:4": entry 0 hands "1.5" to strtod, entry 1 "2e3" and "4"; the hypotheses of numeric_entry_double hold
example : (parseNumList [49,46,53,44,50,101,51,58,52]).map (·.map (fun e => (e.from_, e.to_))) =
    some [([49,46,53], none), ([50,101,51], some [52])] := by decide +kernel
example : tokDoubleText [49,46,53,44,50,101,51,58,52] (numericListEntry [49,46,53,44,50,101,51,58,52] 0).from_ = [49,46,53] ∧
    tokDoubleText [49,46,53,44,50,101,51,58,52] (numericListEntry [49,46,53,44,50,101,51,58,52] 1).from_ = [50,101,51] ∧
    tokDoubleText [49,46,53,44,50,101,51,58,52] (numericListEntry [49,46,53,44,50,101,51,58,52] 1).to_ = [52] ∧
    noInnerWs [49,46,53] = true ∧ noInnerWs [50,101,51] = true ∧ noInnerWs [52] = true ∧
    Spec.Float.litValue [50,101,51] = some (false, 2000, 1) := by decide +kernel
-- leading white space is neither part of a token nor skipped: " 1" is not a well-formed list and the walker finds no entry
example : parseNumList [32,49] = none ∧ (numericListEntry [32,49] 0).res = .noMore := by decide +kernel

end ScpiVerif.Props.C19
