/-
C19 — Numeric and channel lists decode entry by entry exactly as written.
Property theorems only; helper lemmas in ScpiVerif/Lemmas/ExprList.lean.
`Expr.numericListEntry` / `Expr.channelListEntry` model SCPI_ExprNumericListEntry /
SCPI_ExprChannelListEntry on the text between the parentheses; `Spec.ExprList` is the list grammar.
-/
import ScpiVerif.Model.Expr
import ScpiVerif.Spec.ExprList
import ScpiVerif.Lemmas.ExprList

namespace ScpiVerif.Props.C19
open ScpiVerif ScpiVerif.Lexer ScpiVerif.Spec.ExprList
-- `NumEntry` / `ChanEntry` below are the grammar's (Spec.ExprList); the model's result records of the same name stay qualified
open ScpiVerif.Expr hiding NumEntry ChanEntry

def tokText (body : Bytes) (t : Token) : Bytes := (body.drop t.ptr).take t.len.toNat

/-- the 32-bit integer a number of the list denotes for the integer variants (strtol of its text) -/
def litInt32 (t : Bytes) : Int := (Prim.strtolTo 32 t 0 10).2

/-- Full statement (numeric lists): for every well-formed list and every index, entry i is reported OK
with exactly the written number or range, and NO_MORE at or beyond the number of entries; no error is queued -/
theorem numeric_entry (body : Bytes) (l : List NumEntry) (h : parseNumList body = some l) (i : Nat) :
    let r := numericListEntry body i
    match l[i]? with
    | some e =>
      r.res = .ok ∧ r.isRange = some e.to_.isSome ∧ tokText body r.from_ = e.from_ ∧ tokInt32 body r.from_ = litInt32 e.from_ ∧
      (∀ t, e.to_ = some t → tokText body r.to_ = t ∧ tokInt32 body r.to_ = litInt32 t) ∧ r.pushed = []
    | none => r.res = .noMore ∧ r.pushed = [] :=
  Lemmas.ExprList.numeric_entry body l h i

/-- Full statement (channel lists): entry i is reported OK with its dimension count and its values as
written (as many as the caller's capacity allows), NO_MORE at or beyond the number of entries -/
theorem channel_entry (body : Bytes) (l : List ChanEntry) (h : parseChanList body = some l) (i cap : Nat) :
    let r := channelListEntry body i cap
    match l[i]? with
    | some e =>
      r.res = .ok ∧ r.isRange = some e.to_.isSome ∧ r.dims = some e.from_.length ∧
      r.from_ = (e.from_.take cap).map litInt32 ∧ (∀ t, e.to_ = some t → r.to_ = (t.take cap).map litInt32) ∧ r.pushed = []
    | none => r.res = .noMore ∧ r.pushed = [] :=
  Lemmas.ExprList.channel_entry body l h i cap

/-- for ANY expression content: values are never stored beyond the capacity the caller announced -/
theorem stores_bounded (body : Bytes) (i cap : Nat) :
    (channelListEntry body i cap).from_.length ≤ cap ∧ (channelListEntry body i cap).to_.length ≤ cap :=
  Lemmas.ExprList.stores_bounded body i cap

/-- for ANY expression content: a numeric entry is reported OK only if it and all entries before it are well formed -/
theorem numeric_ok_implies_prefix_wf (body : Bytes) (i : Nat) (h : (numericListEntry body i).res = .ok) :
    ∃ e, (numPrefix (body.length + 1) body [])[i]? = some e ∧ tokText body (numericListEntry body i).from_ = e.from_ :=
  Lemmas.ExprList.numeric_ok_implies_prefix_wf body i h

/-- for ANY expression content: ERROR from a channel list queues exactly one -170, OK and NO_MORE queue nothing -/
theorem channel_error_pushes (body : Bytes) (i cap : Nat) :
    let r := channelListEntry body i cap
    (r.res = .error → r.pushed = [-170]) ∧ (r.res ≠ .error → r.pushed = []) :=
  Lemmas.ExprList.channel_error_pushes body i cap

-- non-vacuity: "1,2:5,7" and "@1!2:3!4,5!6"
example : (parseNumList [49,44,50,58,53,44,55]).map (·.length) = some 3 := by decide
example : (numericListEntry [49,44,50,58,53,44,55] 1).res = .ok := by decide
example : (channelListEntry [64,49,33,50,58,51,33,52,44,53,33,54] 0 2).from_ = [1, 2] := by decide

end ScpiVerif.Props.C19
