/-
C19 — Numeric and channel lists decode entry by entry exactly as written.
Property theorems only; helper lemmas in ScpiVerif/Lemmas/ExprList.lean.
`Expr.numericListEntry` / `Expr.channelListEntry` model SCPI_ExprNumericListEntry /
SCPI_ExprChannelListEntry on the text between the parentheses; `Spec.ExprList` is the list grammar.
-/
import ScpiVerif.Model.Expr
import ScpiVerif.Spec.ExprList
import ScpiVerif.Lemmas.ExprList
import ScpiVerif.Lemmas.ExprListMalformed

namespace ScpiVerif.Props.C19
open ScpiVerif ScpiVerif.Lexer ScpiVerif.Spec.ExprList
-- `NumEntry` / `ChanEntry` below are the grammar's (Spec.ExprList); the model's result records of the same name stay qualified
open ScpiVerif.Expr hiding NumEntry ChanEntry

def tokText (body : Bytes) (t : Token) : Bytes := (body.drop t.ptr).take t.len.toNat

/-- the 32-bit integer a number of the list denotes for the integer variants (strtol of its text) -/
def litInt32 (t : Bytes) : Int := (Prim.strtolTo 32 t 0 10).2

/-- Full statement (numeric lists): for every well-formed list and every index, entry i is reported OK
with exactly the written number or range, and NO_MORE at or beyond the number of entries; no error is queued -/
theorem numeric_entry (body : Bytes) (l : List NumEntry) (h : parseNumList body = some l) (i : Nat) :
    let r := numericListEntry body i
    match l[i]? with
    | some e =>
      r.res = .ok ∧ r.isRange = some e.to_.isSome ∧ tokText body r.from_ = e.from_ ∧ tokInt32 body r.from_ = litInt32 e.from_ ∧
      (∀ t, e.to_ = some t → tokText body r.to_ = t ∧ tokInt32 body r.to_ = litInt32 t) ∧ r.pushed = []
    | none => r.res = .noMore ∧ r.pushed = [] :=
  Lemmas.ExprList.numeric_entry body l h i

/-- Full statement (channel lists): entry i is reported OK with its dimension count and its values as
written (as many as the caller's capacity allows), NO_MORE at or beyond the number of entries -/
theorem channel_entry (body : Bytes) (l : List ChanEntry) (h : parseChanList body = some l) (i cap : Nat) :
    let r := channelListEntry body i cap
    match l[i]? with
    | some e =>
      r.res = .ok ∧ r.isRange = some e.to_.isSome ∧ r.dims = some e.from_.length ∧
      r.from_ = (e.from_.take cap).map litInt32 ∧ (∀ t, e.to_ = some t → r.to_ = (t.take cap).map litInt32) ∧ r.pushed = []
    | none => r.res = .noMore ∧ r.pushed = [] :=
  Lemmas.ExprList.channel_entry body l h i cap

/-- for ANY expression content: values are never stored beyond the capacity the caller announced -/
theorem stores_bounded (body : Bytes) (i cap : Nat) :
    (channelListEntry body i cap).from_.length ≤ cap ∧ (channelListEntry body i cap).to_.length ≤ cap :=
  Lemmas.ExprList.stores_bounded body i cap

/-- for ANY expression content: a numeric entry is reported OK only if it and all entries before it are well formed -/
theorem numeric_ok_implies_prefix_wf (body : Bytes) (i : Nat) (h : (numericListEntry body i).res = .ok) :
    ∃ e, (numPrefix (body.length + 1) body [])[i]? = some e ∧ tokText body (numericListEntry body i).from_ = e.from_ :=
  Lemmas.ExprList.numeric_ok_implies_prefix_wf body i h

/-- for ANY expression content: ERROR from a channel list queues exactly one -170, OK and NO_MORE queue nothing -/
theorem channel_error_pushes (body : Bytes) (i cap : Nat) :
    let r := channelListEntry body i cap
    (r.res = .error → r.pushed = [-170]) ∧ (r.res ≠ .error → r.pushed = []) :=
  Lemmas.ExprList.channel_error_pushes body i cap

/-- a malformed channel list is never answered with a silent NO_MORE: for content that is not a well-formed channel
list, every index gets OK (an entry of the well-formed prefix) or ERROR — and ERROR comes with -170 (channel_error_pushes) -/
theorem channel_malformed_never_no_more (body : Bytes) (i cap : Nat) (h : parseChanList body = none) :
    (channelListEntry body i cap).res ≠ .noMore :=
  Lemmas.ExprList.channel_malformed_never_no_more body i cap h

/-- the NO_MORE clause made exact, for ANY expression content: NO_MORE is returned precisely when the content is a
well-formed channel list and the index is at or beyond its number of entries (`channel_entry` is the ← direction) -/
theorem channel_no_more_iff (body : Bytes) (i cap : Nat) :
    (channelListEntry body i cap).res = .noMore ↔ ∃ l, parseChanList body = some l ∧ l.length ≤ i :=
  Lemmas.ExprList.channel_no_more_iff body i cap

-- non-vacuity: "1,2:5,7" and "@1!2:3!4,5!6"
example : (parseNumList [49,44,50,58,53,44,55]).map (·.length) = some 3 := by decide
example : (numericListEntry [49,44,50,58,53,44,55] 1).res = .ok := by decide
example : (channelListEntry [64,49,33,50,58,51,33,52,44,53,33,54] 0 2).from_ = [1, 2] := by decide
-- malformed: "@1,,2" (index 0 is the OK prefix entry, index 1 and beyond are ERROR), "@1!2:3" (dimension mismatch), "1,2" (no '@')
example : parseChanList [64,49,44,44,50] = none ∧ (channelListEntry [64,49,44,44,50] 0 2).res = .ok ∧
    (channelListEntry [64,49,44,44,50] 1 2).res = .error ∧ (channelListEntry [64,49,44,44,50] 3 2).res = .error := by decide
example : parseChanList [64,49,33,50,58,51] = none ∧ (channelListEntry [64,49,33,50,58,51] 0 2).res = .error := by decide
example : parseChanList [49,44,50] = none ∧ (channelListEntry [49,44,50] 0 2).res = .error := by decide

end ScpiVerif.Props.C19
