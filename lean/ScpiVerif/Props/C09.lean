/-
C09 — Messages and units are isolated: nothing but status and errors carries over.
Property theorems only; helper lemmas in ScpiVerif/Lemmas/Isolation.lean.

Two contexts are related (`Rel`) when they agree on everything that is MEANT to persist: command
table, input-buffer size and the bytes currently pending in it, status registers, and the error
queue as an abstract FIFO (ring positions and allocation identities may differ).  Every other field
of the context — output_count, first_output, arbitrary_remaining, cmd_error, input_count, the
parameter cursor, the matched entry, cmd_raw, stale bytes of the input buffer beyond the pending
data, the event history — is unconstrained.
-/
import ScpiVerif.Model.Ctx
import ScpiVerif.Lemmas.Isolation

namespace ScpiVerif.Props.C09
open ScpiVerif ScpiVerif.Ctx ScpiVerif.Lexer

def SameQueue (q1 q2 : Fifo.EQ) : Prop :=
  Fifo.Inv q1.fifo ∧ Fifo.Inv q2.fifo ∧ q1.fifo.size = q2.fifo.size ∧ Fifo.EQ.abs q1 = Fifo.EQ.abs q2

/-- same register file and queue bookkeeping (the callback logs kept in the model for other properties are history, not state) -/
def SameRegs (r1 r2 : Regs.St) : Prop := r1.regs = r2.regs ∧ r1.qn = r2.qn ∧ r1.cap = r2.cap

def Rel (c1 c2 : Ctx) : Prop :=
  c1.cmds = c2.cmds ∧ c1.choices = c2.choices ∧ c1.withInfo = c2.withInfo ∧
  c1.bufLen = c2.bufLen ∧ c1.buf.length = c1.bufLen ∧ c2.buf.length = c2.bufLen ∧
  c1.position = c2.position ∧ c1.position < c1.bufLen ∧ c1.buf.take c1.position = c2.buf.take c2.position ∧
  SameRegs c1.regs c2.regs ∧ SameQueue c1.eq c2.eq

/-- what one call makes observable: new events (handler invocations with effective headers, every
parameter delivered, every error queued, the message parsed, the call's return value), new output
bytes, new flushes -/
def newObs (c c' : Ctx) : List Ev × Bytes × Nat :=
  (c'.events.drop c.events.length, c'.out.written.drop c.out.written.length, c'.out.flushes - c.out.flushes)

/-- one input call on related contexts: same observations, and the results are related again -/
theorem input_noninterference (c1 c2 : Ctx) (h : Rel c1 c2) (data : Bytes) :
    newObs c1 (input c1 data) = newObs c2 (input c2 data) ∧ Rel (input c1 data) (input c2 data) :=
  Lemmas.Isolation.input_noninterference c1 c2 h data

/-- Full statement: for ANY stream of chunks (messages that fail midway, leave blocks unfinished or end
in an incomplete unit included), a context that has been through any history behaves exactly like a
fresh one that was given the same registers, error queue and pending input -/
theorem stream_noninterference (c1 c2 : Ctx) (h : Rel c1 c2) (chunks : List Bytes) :
    newObs c1 (chunks.foldl input c1) = newObs c2 (chunks.foldl input c2) ∧
    Rel (chunks.foldl input c1) (chunks.foldl input c2) :=
  Lemmas.Isolation.stream_noninterference c1 c2 h chunks

/-- inside a message, the only state a unit inherits from the units before it is whether one of them
has responded (first_output) and the reference header for compound commands: processCommand resets
the rest -/
theorem unit_reset (c : Ctx) :
    let c' := { c with cmdError := true, inputCount := 7, out := { c.out with outputCount := 5, arbRemaining := 9 } }
    newObs c (processCommand c).1 = newObs c' (processCommand c').1 ∧
    (processCommand c).2 = (processCommand c').2 :=
  Lemmas.Isolation.unit_reset c

end ScpiVerif.Props.C09
