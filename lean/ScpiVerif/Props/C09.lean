/- C09 — placeholder until the theorems are in; not claimed in MANIFEST.json while this comment stands. -/
import ScpiVerif.Model.Ctx
import ScpiVerif.Spec.Message
namespace ScpiVerif.Props.C09
end ScpiVerif.Props.C09
