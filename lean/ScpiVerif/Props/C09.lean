/-
C09 — Messages and units are isolated: nothing but status and errors carries over.
Property theorems only; helper lemmas in ScpiVerif/Lemmas/Isolation.lean.

Two contexts are related (`Rel`) when they agree on everything that is MEANT to persist: command
table, input-buffer size and the bytes currently pending in it, status registers, and the error
queue as an abstract FIFO (ring positions and allocation identities may differ).  Every other field
of the context — output_count, first_output, arbitrary_remaining, cmd_error, input_count, the
parameter cursor, the matched entry, cmd_raw, stale bytes of the input buffer beyond the pending
data, the event history — is unconstrained.
-/
import ScpiVerif.Model.Ctx
import ScpiVerif.Spec.Isolation
import ScpiVerif.Lemmas.Isolation

namespace ScpiVerif.Props.C09
open ScpiVerif ScpiVerif.Ctx ScpiVerif.Lexer

-- `SameQueue`, `SameRegs`, `Rel`, `newObs` are defined in ScpiVerif/Spec/Isolation.lean (this namespace)

/-- one input call on related contexts: same observations, and the results are related again -/
theorem input_noninterference (c1 c2 : Ctx) (h : Rel c1 c2) (data : Bytes) :
    newObs c1 (input c1 data) = newObs c2 (input c2 data) ∧ Rel (input c1 data) (input c2 data) :=
  Lemmas.Isolation.input_noninterference c1 c2 h data

/-- Full statement: for ANY stream of chunks (messages that fail midway, leave blocks unfinished or end
in an incomplete unit included), a context that has been through any history behaves exactly like a
fresh one that was given the same registers, error queue and pending input -/
theorem stream_noninterference (c1 c2 : Ctx) (h : Rel c1 c2) (chunks : List Bytes) :
    newObs c1 (chunks.foldl input c1) = newObs c2 (chunks.foldl input c2) ∧
    Rel (chunks.foldl input c1) (chunks.foldl input c2) :=
  Lemmas.Isolation.stream_noninterference c1 c2 h chunks

/-- inside a message, the only state a unit inherits from the units before it is whether one of them
has responded (first_output) and the reference header for compound commands: processCommand resets
the rest -/
theorem unit_reset (c : Ctx) :
    let c' := { c with cmdError := true, inputCount := 7, out := { c.out with outputCount := 5, arbRemaining := 9 } }
    newObs c (processCommand c).1 = newObs c' (processCommand c').1 ∧
    (processCommand c).2 = (processCommand c').2 :=
  Lemmas.Isolation.unit_reset c

end ScpiVerif.Props.C09
