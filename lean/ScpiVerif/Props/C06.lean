/-
C06 — Responses are framed: ';' between units, ',' between items, one terminator.
Property theorems only; helper lemmas in ScpiVerif/Lemmas/Framing.lean.

The model's output state carries ghost fields (Result.Out.gUnits / gItems / gCur / gPartial) that
record, independently of output_count / first_output, which payload bytes each result writer
produced and where units end; the theorems relate the bytes actually written to
`Spec.Message.frame` of those items.
-/
import ScpiVerif.Model.Ctx
import ScpiVerif.Spec.Message
import ScpiVerif.Lemmas.Framing

namespace ScpiVerif.Props.C06
open ScpiVerif ScpiVerif.Ctx ScpiVerif.Lexer

/-- Full statement: for every context (any table, any scripts, any state left by earlier messages),
every message position and length: the bytes written while the message is parsed are exactly
`frame` of the result items of its units — response units separated by single ';', items by single
',', one line terminator and one flush iff at least one unit responded, nothing otherwise —
provided no handler left a result item unfinished, started a new item inside an unfinished block, or
sent block data without a block header (gPartial = false; these are misuses of the streaming block
API, whose own behaviour is C17's subject). -/
theorem framing (c : Ctx) (base len : Nat) :
    let c' := (parse c base len).1
    c'.out.gPartial = false →
    c'.out.written = c.out.written ++ Spec.Message.frame c'.out.gUnits ∧
    c'.out.flushes = c.out.flushes + (if c'.out.gUnits.any (fun u => !u.isEmpty) then 1 else 0) :=
  Lemmas.Framing.framing c base len

/-- a message in which nothing responds writes nothing -/
theorem silent_message (c : Ctx) (base len : Nat) :
    let c' := (parse c base len).1
    c'.out.gPartial = false → c'.out.gUnits.all (fun u => u.isEmpty) = true →
    c'.out.written = c.out.written ∧ c'.out.flushes = c.out.flushes :=
  Lemmas.Framing.silent_message c base len

/-- the ghost item record is faithful: every completed item is the concatenation of the payload
bytes its writer produced, e.g. an integer result is its canonical text with base prefix -/
theorem item_of_int (o : Result.Out) (w : Nat) (hw : w = 32 ∨ w = 64) (v : Nat) (hv : v < 2^w) (base : Int) (sign : Bool)
    (hcur : o.gCur = []) :
    (Result.resultIntBaseSign o w v base sign).gItems = o.gItems ++ [Spec.Message.intText w v base sign] ∧
    (Result.resultIntBaseSign o w v base sign).gCur = [] :=
  Lemmas.Framing.item_of_int o w hw v hv base sign hcur

theorem item_of_text (o : Result.Out) (d : Bytes) (hcur : o.gCur = []) :
    (Result.resultText o d).gItems = o.gItems ++ [Spec.Message.quote (d.takeWhile (· ≠ 0))] :=
  Lemmas.Framing.item_of_text o d hcur

theorem item_of_block (o : Result.Out) (d : Bytes) (hcur : o.gCur = []) (hlen : d.length < 10^9) :
    (Result.resultBlock o d).gItems = o.gItems ++ [Spec.Message.encodeBlock d] :=
  Lemmas.Framing.item_of_block o d hcur hlen

end ScpiVerif.Props.C06
