/-
Whole-instrument theorems: the command handlers the library ships (libscpi/src/ieee488.c SCPI_Core*,
libscpi/src/minimal.c SCPI_Stub*, SCPI_System*, SCPI_Status*) as part of the context model.
Property theorems only; helper lemmas in ScpiVerif/Lemmas/Instrument.lean and ScpiVerif/Lemmas/Builtin.lean.

Level of the statements.  `status_invariant` / `coherent_reachable_messages` are about `input` of ARBITRARY bytes over
ARBITRARY tables (scripted handlers and library handlers mixed in any way).  The per-command theorems are stated on
`processCommand` for every context `c` in which the unit loop has matched a table entry `cmd` whose script is the library
handler (`Bound c cmd b`: `c.cur = some cmd`, `cmd.script = [.builtin b]`, no program data left unread), pattern and tag
arbitrary.  This is the interface at which C02 (`dispatch_correct`: which entry runs for which header bytes, for all
tables) and C05 / C04 (what `SCPI_ParamInt32` delivers for which program data) already speak; restating them over
the literal bytes "*ESE 32\n" would re-prove header matching and integer decoding for one spelling each.  The `example`s
below close that gap on concrete contexts: they run `input` on the literal message bytes (kernel evaluation).

`StatusOK r q` (Spec/Instrument.lean) is the invariant of every reachable state: registers well formed and Coherent
(the five C11 equivalences), ring invariant of the queue, SCPI_ErrorCount and the capacity seen by the status side equal
to those of the queue.
-/
import ScpiVerif.Model.Ctx
import ScpiVerif.Spec.Instrument
import ScpiVerif.Spec.ErrorString
import ScpiVerif.Lemmas.Instrument
import ScpiVerif.Lemmas.InstrumentData
import ScpiVerif.Spec.Params

namespace ScpiVerif.Props.Instrument
open ScpiVerif ScpiVerif.Ctx ScpiVerif.Lexer ScpiVerif.Result

/-! ### concrete instrument used by the examples -/

def demoTable : List Cmd :=
  [⟨bytesOf "*CLS", 1, [.builtin .cls]⟩, ⟨bytesOf "*ESE", 2, [.builtin .ese]⟩, ⟨bytesOf "*ESE?", 3, [.builtin .eseQ]⟩,
   ⟨bytesOf "*ESR?", 4, [.builtin .esrQ]⟩, ⟨bytesOf "*STB?", 5, [.builtin .stbQ]⟩,
   ⟨bytesOf "SYSTem:ERRor[:NEXT]?", 6, [.builtin .errNextQ]⟩, ⟨bytesOf "SYSTem:ERRor:COUNt?", 7, [.builtin .errCountQ]⟩,
   ⟨bytesOf "TEST:ERR", 8, [.ePush (-222) (some (bytesOf "x"))]⟩, ⟨bytesOf "*SRE", 9, [.builtin .sre]⟩,
   ⟨bytesOf "*SRE?", 10, [.builtin .sreQ]⟩, ⟨bytesOf "*OPC", 11, [.builtin .opc]⟩, ⟨bytesOf "*OPC?", 12, [.builtin .opcQ]⟩,
   ⟨bytesOf "*TST?", 13, [.builtin .tstQ]⟩, ⟨bytesOf "*IDN?", 14, [.builtin (.idnQ Builtin.harnessIdn)]⟩,
   ⟨bytesOf "STATus:QUEStionable:ENABle", 15, [.builtin .quesEnab]⟩, ⟨bytesOf "STATus:QUEStionable:ENABle?", 16, [.builtin .quesEnabQ]⟩,
   ⟨bytesOf "STATus:OPERation:ENABle", 17, [.builtin .operEnab]⟩, ⟨bytesOf "STATus:OPERation:ENABle?", 18, [.builtin .operEnabQ]⟩,
   ⟨bytesOf "STATus:OPERation[:EVENt]?", 19, [.builtin .operEvenQ]⟩, ⟨bytesOf "STATus:QUEStionable[:EVENt]?", 20, [.builtin .quesEvenQ]⟩,
   ⟨bytesOf "*RST", 21, [.builtin .rst]⟩]

/-- a fresh instrument: 64-byte input buffer, error queue of 4 entries -/
def demo : Ctx := Ctx.init demoTable [] 64 4 true

/-- the messages of a session fed one by one -/
def session (msgs : List String) : Ctx := msgs.foldl (fun c m => input c (bytesOf m)) demo

/-- `demo` at the moment the unit loop hands entry `cmd` with program data `data` to `processCommand` -/
def demoUnit (cmd : Cmd) (data : Bytes) : Ctx :=
  { demo with buf := data ++ List.replicate (64 - data.length) 10, cur := some cmd, pbase := 0, ppos := 0, plen := data.length }

theorem demo_ok : StatusOK demo.regs demo.eq := Lemmas.Instrument.statusOK_init demoTable [] 64 4 true (by decide)

/-! ### the invariant of every reachable state (whole-instrument version of C11) -/

/-- one input call — any bytes, any table, scripted and library handlers mixed in any way — keeps the invariant -/
theorem status_invariant (c : Ctx) (data : Bytes) (h : StatusOK c.regs c.eq) :
    StatusOK (input c data).regs (input c data).eq := Lemmas.Instrument.kc_input Lemmas.Instrument.statusOK_inv c data h

/-- Full statement: for any command table whose scripts are arbitrary (scripted operations and handlers of the library),
any buffer size, any queue capacity ≥ 1 and any list of messages (indeed any chunks of bytes), the state after `input` of
them all is Coherent: the status byte satisfies the five C11 equivalences — and the registers are well formed and the
error-available bit speaks about the real queue (`QSync`). -/
theorem coherent_reachable_messages (cmds : List Cmd) (choices : List (List (Bytes × Int))) (bufLen cap : Nat)
    (withInfo : Bool) (hcap : 1 ≤ cap) (msgs : List Bytes) :
    let c := msgs.foldl input (Ctx.init cmds choices bufLen cap withInfo)
    Regs.Coherent c.regs ∧ Regs.WF c.regs ∧ QSync c.regs c.eq := by
  have h := Lemmas.Instrument.statusOK_inputs _ msgs (Lemmas.Instrument.statusOK_init cmds choices bufLen cap withInfo hcap)
  exact ⟨h.2.1, h.1, h.2.2⟩

/-- every handler of the library preserves the invariant, whatever the context and the parameters it finds -/
theorem builtin_preserves_status (c : Ctx) (b : Builtin) (h : StatusOK c.regs c.eq) :
    StatusOK (runBuiltin c b).1.regs (runBuiltin c b).1.eq := Lemmas.Instrument.runBuiltin_keeps_status c b h

-- non-vacuity: a session that queues errors, overflows the 4-entry queue, enables summary bits, reads and clears
example : Regs.Coherent (session ["*ESE 60;*SRE 36\n", "TEST:ERR;TEST:ERR;FOO;TEST:ERR;TEST:ERR\n", "SYST:ERR?\n", "*CLS\n"]).regs := by
  decide +kernel
example : (session ["*ESE 60;*SRE 36\n", "TEST:ERR\n"]).regs.regs.getD Regs.STB 0 = 0x64#16 := by decide +kernel

/-! ### *CLS -/

/-- after `*CLS` the event registers ESR, OPER event and QUES event are 0, the error queue is empty, the
error-available bit is clear and the status byte is coherent; every other register but the status byte — in particular
the enables ESE, OPERE, QUESE and SRE — is unchanged; nothing is written -/
theorem cls_message (c : Ctx) (cmd : Cmd) (hb : Bound c cmd .cls) (hs : StatusOK c.regs c.eq) :
    let c' := (processCommand c).1
    Regs.get c'.regs Regs.ESR = 0 ∧ Regs.get c'.regs Regs.OPER = 0 ∧ Regs.get c'.regs Regs.QUES = 0 ∧
    Fifo.EQ.abs c'.eq = [] ∧ c'.eq.count = 0 ∧ c'.regs.qn = 0 ∧
    Regs.Coherent c'.regs ∧ Regs.get c'.regs Regs.STB &&& Regs.bit Gen.STB_QMA = 0 ∧
    (∀ m, m ≠ Regs.STB → m ≠ Regs.ESR → m ≠ Regs.OPER → m ≠ Regs.QUES → Regs.get c'.regs m = Regs.get c.regs m) ∧
    c'.out.written = c.out.written ∧ (processCommand c).2 = true :=
  Lemmas.Instrument.cls_unit c cmd hb hs

example : Bound (demoUnit ⟨bytesOf "*CLS", 1, [.builtin .cls]⟩ []) ⟨bytesOf "*CLS", 1, [.builtin .cls]⟩ .cls :=
  ⟨rfl, rfl, by decide⟩
example : let c := session ["*ESE 32\n", "TEST:ERR;TEST:ERR\n", "*CLS\n"]
    Fifo.EQ.abs c.eq = [] ∧ c.regs.regs.getD Regs.ESR 0 = 0 ∧ c.regs.regs.getD Regs.ESE 0 = 32 ∧ c.regs.regs.getD Regs.STB 0 = 0 := by
  decide +kernel

/-! ### *ESE, *SRE, STATus:QUEStionable:ENABle, STATus:OPERation:ENABle and their queries -/

/-- General form of the four round trips.  `b` is one of the four commands, `reg` its enable register, `qb` its query
(`enableReg b = some (reg, qb)`).  If SCPI_ParamInt32 delivers `n` with 0 ≤ n < 65536 (`hv`: the reader, run on the unit's
program data, succeeds with value n; C04 `integer_exact_signed` and C05 `reader_by_token` say for which data it does) and
no data is left over, then `X n` stores n — all other registers but the status byte unchanged, queue and output
untouched, state coherent, unit succeeds — and in any later state with these registers `X?` answers the decimal text of n. -/
theorem enable_roundtrip (c : Ctx) (cmd : Cmd) (b : Builtin) (reg : Nat) (qb : Builtin) (hcur : c.cur = some cmd)
    (hscr : cmd.script = [.builtin b]) (he : enableReg b = some (reg, qb)) (hs : StatusOK c.regs c.eq)
    (n : Nat) (hn : n < 65536) (cP : Ctx)
    (hv : paramInt (Lemmas.Instrument.unitStart c cmd) 32 true true = (cP, true, (n : Int)))
    (hend : ¬ cP.ppos < cP.pbase + cP.plen) :
    let c' := (processCommand c).1
    Regs.get c'.regs reg = BitVec.ofNat 16 n ∧
    (∀ m, m ≠ Regs.STB → m ≠ reg → Regs.get c'.regs m = Regs.get c.regs m) ∧
    Regs.Coherent c'.regs ∧ c'.eq = c.eq ∧ c'.out.written = c.out.written ∧ (processCommand c).2 = true ∧
    (∀ (d : Ctx) (cmdQ : Cmd), Bound d cmdQ qb → d.regs = c'.regs →
      Answered d (processCommand d).1 (Spec.Message.decimal n)) :=
  Lemmas.Instrument.enable_roundtrip c cmd b reg qb hcur hscr he hs n hn cP hv hend

/-- `*ESE n` / `*ESE?` -/
theorem ese_roundtrip (c : Ctx) (cmd : Cmd) (hcur : c.cur = some cmd) (hscr : cmd.script = [.builtin .ese])
    (hs : StatusOK c.regs c.eq) (n : Nat) (hn : n < 65536) (cP : Ctx)
    (hv : paramInt (Lemmas.Instrument.unitStart c cmd) 32 true true = (cP, true, (n : Int)))
    (hend : ¬ cP.ppos < cP.pbase + cP.plen) :
    Regs.get (processCommand c).1.regs Regs.ESE = BitVec.ofNat 16 n ∧
    (∀ (d : Ctx) (cmdQ : Cmd), Bound d cmdQ .eseQ → d.regs = (processCommand c).1.regs →
      Answered d (processCommand d).1 (Spec.Message.decimal n)) :=
  let h := enable_roundtrip c cmd .ese Regs.ESE .eseQ hcur hscr rfl hs n hn cP hv hend
  ⟨h.1, h.2.2.2.2.2.2⟩

/-- `*SRE n` / `*SRE?` -/
theorem sre_roundtrip (c : Ctx) (cmd : Cmd) (hcur : c.cur = some cmd) (hscr : cmd.script = [.builtin .sre])
    (hs : StatusOK c.regs c.eq) (n : Nat) (hn : n < 65536) (cP : Ctx)
    (hv : paramInt (Lemmas.Instrument.unitStart c cmd) 32 true true = (cP, true, (n : Int)))
    (hend : ¬ cP.ppos < cP.pbase + cP.plen) :
    Regs.get (processCommand c).1.regs Regs.SRE = BitVec.ofNat 16 n ∧
    (∀ (d : Ctx) (cmdQ : Cmd), Bound d cmdQ .sreQ → d.regs = (processCommand c).1.regs →
      Answered d (processCommand d).1 (Spec.Message.decimal n)) :=
  let h := enable_roundtrip c cmd .sre Regs.SRE .sreQ hcur hscr rfl hs n hn cP hv hend
  ⟨h.1, h.2.2.2.2.2.2⟩

/-- `STATus:QUEStionable:ENABle n` / `STATus:QUEStionable:ENABle?` -/
theorem ques_enab_roundtrip (c : Ctx) (cmd : Cmd) (hcur : c.cur = some cmd) (hscr : cmd.script = [.builtin .quesEnab])
    (hs : StatusOK c.regs c.eq) (n : Nat) (hn : n < 65536) (cP : Ctx)
    (hv : paramInt (Lemmas.Instrument.unitStart c cmd) 32 true true = (cP, true, (n : Int)))
    (hend : ¬ cP.ppos < cP.pbase + cP.plen) :
    Regs.get (processCommand c).1.regs Regs.QUESE = BitVec.ofNat 16 n ∧
    (∀ (d : Ctx) (cmdQ : Cmd), Bound d cmdQ .quesEnabQ → d.regs = (processCommand c).1.regs →
      Answered d (processCommand d).1 (Spec.Message.decimal n)) :=
  let h := enable_roundtrip c cmd .quesEnab Regs.QUESE .quesEnabQ hcur hscr rfl hs n hn cP hv hend
  ⟨h.1, h.2.2.2.2.2.2⟩

/-- `STATus:OPERation:ENABle n` / `STATus:OPERation:ENABle?` -/
theorem oper_enab_roundtrip (c : Ctx) (cmd : Cmd) (hcur : c.cur = some cmd) (hscr : cmd.script = [.builtin .operEnab])
    (hs : StatusOK c.regs c.eq) (n : Nat) (hn : n < 65536) (cP : Ctx)
    (hv : paramInt (Lemmas.Instrument.unitStart c cmd) 32 true true = (cP, true, (n : Int)))
    (hend : ¬ cP.ppos < cP.pbase + cP.plen) :
    Regs.get (processCommand c).1.regs Regs.OPERE = BitVec.ofNat 16 n ∧
    (∀ (d : Ctx) (cmdQ : Cmd), Bound d cmdQ .operEnabQ → d.regs = (processCommand c).1.regs →
      Answered d (processCommand d).1 (Spec.Message.decimal n)) :=
  let h := enable_roundtrip c cmd .operEnab Regs.OPERE .operEnabQ hcur hscr rfl hs n hn cP hv hend
  ⟨h.1, h.2.2.2.2.2.2⟩

/-- Out of range: EXACTLY what happens is that there is no range check.  Whatever 32-bit value `v` the reader delivers
(65536, -1, whatever the reader's 32-bit conversion makes of a longer literal, …) the handlers cast it to `scpi_reg_val_t`: the register receives the low
16 bits `BitVec.ofInt 16 v`, no error is queued, the unit succeeds.  (IEEE 488.2 10.10 / 10.34 ask for an execution
error when the *ESE / *SRE value is outside 0..255; none of the 20 properties covers this.) -/
theorem enable_out_of_range (c : Ctx) (cmd : Cmd) (b : Builtin) (reg : Nat) (qb : Builtin) (hcur : c.cur = some cmd)
    (hscr : cmd.script = [.builtin b]) (he : enableReg b = some (reg, qb)) (hs : StatusOK c.regs c.eq)
    (cP : Ctx) (v : Int) (hv : paramInt (Lemmas.Instrument.unitStart c cmd) 32 true true = (cP, true, v))
    (hend : ¬ cP.ppos < cP.pbase + cP.plen) :
    let c' := (processCommand c).1
    c'.regs = Regs.regSet c.regs reg (BitVec.ofInt 16 v) ∧ Regs.get c'.regs reg = BitVec.ofInt 16 v ∧
    (∀ m, m ≠ Regs.STB → m ≠ reg → Regs.get c'.regs m = Regs.get c.regs m) ∧
    Regs.Coherent c'.regs ∧ c'.eq = c.eq ∧ c'.out.written = c.out.written ∧ (processCommand c).2 = true :=
  Lemmas.Instrument.enable_write c cmd b reg qb hcur hscr he hs cP v hv hend

/-- Missing parameter: exactly -109 "Missing parameter" is queued (class bit and error-available bit follow by C12 / C11),
the enable register keeps its value, nothing is written and the unit fails.  `*ESE` and `*SRE` return SCPI_RES_ERR, the
two STATus commands return SCPI_RES_OK even then; since the reader has raised cmd_error no -200 is added and
`processCommand` reports failure in all four cases. -/
theorem enable_missing_parameter (c : Ctx) (cmd : Cmd) (b : Builtin) (reg : Nat) (qb : Builtin) (hcur : c.cur = some cmd)
    (hscr : cmd.script = [.builtin b]) (he : enableReg b = some (reg, qb)) (hs : StatusOK c.regs c.eq)
    (hend : c.ppos ≥ c.pbase + c.plen) :
    let c' := (processCommand c).1
    c'.regs = Regs.errPush c.regs (-109) ∧ c'.eq = (c.eq.push c.withInfo (-109) none 0 true).1 ∧
    Regs.get c'.regs reg = Regs.get c.regs reg ∧ errorsSince c c' = [-109] ∧
    c'.out.written = c.out.written ∧ (processCommand c).2 = false :=
  Lemmas.Instrument.enable_missing c cmd b reg qb hcur hscr he hs hend

/-- The round trip on the BYTES of the program data: the unit's program data is a string of decimal digits `ds`
(`DigitsData`) whose value is n < 65536 (`Spec.Params.intLiteral`, the exact-value function of C04; leading zeros allowed).
No hypothesis about the reader is left: C05 (`parameter_delivers_next_item`), C13 (the token specification) and C04
(`integer_exact_signed`) are composed in `Lemmas.Instrument.paramInt_digits`. -/
theorem enable_roundtrip_digits (c : Ctx) (cmd : Cmd) (b : Builtin) (reg : Nat) (qb : Builtin) (hcur : c.cur = some cmd)
    (hscr : cmd.script = [.builtin b]) (he : enableReg b = some (reg, qb)) (hs : StatusOK c.regs c.eq)
    (ds : Bytes) (n : Nat) (hd : DigitsData c ds) (hval : Spec.Params.intLiteral ds = some (n : Int)) (hn : n < 65536) :
    let c' := (processCommand c).1
    Regs.get c'.regs reg = BitVec.ofNat 16 n ∧
    (∀ m, m ≠ Regs.STB → m ≠ reg → Regs.get c'.regs m = Regs.get c.regs m) ∧
    Regs.Coherent c'.regs ∧ c'.eq = c.eq ∧ c'.out.written = c.out.written ∧ (processCommand c).2 = true ∧
    (∀ (d : Ctx) (cmdQ : Cmd), Bound d cmdQ qb → d.regs = c'.regs →
      Answered d (processCommand d).1 (Spec.Message.decimal n)) := by
  obtain ⟨cP, hv, hend⟩ := Lemmas.Instrument.unitStart_paramInt_digits c cmd ds (n : Int) hd.nonempty hd.digits hval
    (by omega) hd.atStart hd.len hd.window hd.inBuf hd.next
  exact enable_roundtrip c cmd b reg qb hcur hscr he hs n hn cP hv hend

/-- `*ESE <digits>` then `*ESE?`, `*SRE <digits>` then `*SRE?`, and the two STATus enable pairs, on the program data bytes -/
theorem ese_roundtrip_digits (c : Ctx) (cmd : Cmd) (hcur : c.cur = some cmd) (hscr : cmd.script = [.builtin .ese])
    (hs : StatusOK c.regs c.eq) (ds : Bytes) (n : Nat) (hd : DigitsData c ds)
    (hval : Spec.Params.intLiteral ds = some (n : Int)) (hn : n < 65536) :
    Regs.get (processCommand c).1.regs Regs.ESE = BitVec.ofNat 16 n ∧
    (∀ (d : Ctx) (cmdQ : Cmd), Bound d cmdQ .eseQ → d.regs = (processCommand c).1.regs →
      Answered d (processCommand d).1 (Spec.Message.decimal n)) :=
  let h := enable_roundtrip_digits c cmd .ese Regs.ESE .eseQ hcur hscr rfl hs ds n hd hval hn
  ⟨h.1, h.2.2.2.2.2.2⟩

theorem sre_roundtrip_digits (c : Ctx) (cmd : Cmd) (hcur : c.cur = some cmd) (hscr : cmd.script = [.builtin .sre])
    (hs : StatusOK c.regs c.eq) (ds : Bytes) (n : Nat) (hd : DigitsData c ds)
    (hval : Spec.Params.intLiteral ds = some (n : Int)) (hn : n < 65536) :
    Regs.get (processCommand c).1.regs Regs.SRE = BitVec.ofNat 16 n ∧
    (∀ (d : Ctx) (cmdQ : Cmd), Bound d cmdQ .sreQ → d.regs = (processCommand c).1.regs →
      Answered d (processCommand d).1 (Spec.Message.decimal n)) :=
  let h := enable_roundtrip_digits c cmd .sre Regs.SRE .sreQ hcur hscr rfl hs ds n hd hval hn
  ⟨h.1, h.2.2.2.2.2.2⟩

theorem ques_enab_roundtrip_digits (c : Ctx) (cmd : Cmd) (hcur : c.cur = some cmd) (hscr : cmd.script = [.builtin .quesEnab])
    (hs : StatusOK c.regs c.eq) (ds : Bytes) (n : Nat) (hd : DigitsData c ds)
    (hval : Spec.Params.intLiteral ds = some (n : Int)) (hn : n < 65536) :
    Regs.get (processCommand c).1.regs Regs.QUESE = BitVec.ofNat 16 n ∧
    (∀ (d : Ctx) (cmdQ : Cmd), Bound d cmdQ .quesEnabQ → d.regs = (processCommand c).1.regs →
      Answered d (processCommand d).1 (Spec.Message.decimal n)) :=
  let h := enable_roundtrip_digits c cmd .quesEnab Regs.QUESE .quesEnabQ hcur hscr rfl hs ds n hd hval hn
  ⟨h.1, h.2.2.2.2.2.2⟩

theorem oper_enab_roundtrip_digits (c : Ctx) (cmd : Cmd) (hcur : c.cur = some cmd) (hscr : cmd.script = [.builtin .operEnab])
    (hs : StatusOK c.regs c.eq) (ds : Bytes) (n : Nat) (hd : DigitsData c ds)
    (hval : Spec.Params.intLiteral ds = some (n : Int)) (hn : n < 65536) :
    Regs.get (processCommand c).1.regs Regs.OPERE = BitVec.ofNat 16 n ∧
    (∀ (d : Ctx) (cmdQ : Cmd), Bound d cmdQ .operEnabQ → d.regs = (processCommand c).1.regs →
      Answered d (processCommand d).1 (Spec.Message.decimal n)) :=
  let h := enable_roundtrip_digits c cmd .operEnab Regs.OPERE .operEnabQ hcur hscr rfl hs ds n hd hval hn
  ⟨h.1, h.2.2.2.2.2.2⟩

/-- out of range on the bytes: any digit string denoting v < 2^31 is accepted and its low 16 bits are stored -/
theorem enable_out_of_range_digits (c : Ctx) (cmd : Cmd) (b : Builtin) (reg : Nat) (qb : Builtin) (hcur : c.cur = some cmd)
    (hscr : cmd.script = [.builtin b]) (he : enableReg b = some (reg, qb)) (hs : StatusOK c.regs c.eq)
    (ds : Bytes) (v : Nat) (hd : DigitsData c ds) (hval : Spec.Params.intLiteral ds = some (v : Int)) (hv : v < 2^31) :
    let c' := (processCommand c).1
    Regs.get c'.regs reg = BitVec.ofNat 16 v ∧ c'.eq = c.eq ∧ (processCommand c).2 = true := by
  obtain ⟨cP, hp, hend⟩ := Lemmas.Instrument.unitStart_paramInt_digits c cmd ds (v : Int) hd.nonempty hd.digits hval
    (by omega) hd.atStart hd.len hd.window hd.inBuf hd.next
  have h := enable_out_of_range c cmd b reg qb hcur hscr he hs cP v hp hend
  exact ⟨by rw [h.2.1, BitVec.ofInt_natCast], h.2.2.2.2.1, h.2.2.2.2.2.2⟩

-- non-vacuity: the unit "*ESE 0032" of the demo instrument satisfies every hypothesis of the byte-level round trip
example :
    let cmd : Cmd := ⟨bytesOf "*ESE", 2, [.builtin .ese]⟩
    DigitsData (demoUnit cmd (bytesOf "0032")) (bytesOf "0032") ∧
    Spec.Params.intLiteral (bytesOf "0032") = some ((32 : Nat) : Int) ∧ (demoUnit cmd (bytesOf "0032")).cur = some cmd :=
  ⟨⟨by decide +kernel, by decide +kernel, rfl, rfl, by decide +kernel, by decide +kernel, by decide +kernel⟩,
    by decide +kernel, rfl⟩
-- 70000 = 65536 + 4464 is stored as 4464
example : (session ["*ESE 70000\n", "*ESE?\n"]).out.written = bytesOf "4464\r\n" := by decide +kernel

-- non-vacuity: the hypotheses of the round trip on a concrete unit with program data "32"
example :
    let cmd : Cmd := ⟨bytesOf "*ESE", 2, [.builtin .ese]⟩
    let c := demoUnit cmd (bytesOf "32")
    let r := paramInt (Lemmas.Instrument.unitStart c cmd) 32 true true
    r.2.1 = true ∧ r.2.2 = 32 ∧ ¬ r.1.ppos < r.1.pbase + r.1.plen ∧ c.cur = some cmd := by decide +kernel
-- ... and on literal message bytes, through `input`
example : (session ["*ESE 32\n", "*ESE?\n"]).out.written = bytesOf "32\r\n" := by decide +kernel
example : (session ["*SRE 255\n", "*SRE?\n"]).out.written = bytesOf "255\r\n" := by decide +kernel
example : (session ["STAT:QUES:ENAB 512;ENAB?\n"]).out.written = bytesOf "512\r\n" := by decide +kernel
example : (session ["STAT:OPER:ENAB #HFFFF\n", "stat:oper:enab?\n"]).out.written = bytesOf "65535\r\n" := by decide +kernel
-- out of range: 65536 is stored as 0, -1 as 65535, no error
example : let c := session ["*ESE 65536\n"]
    c.regs.regs.getD Regs.ESE 0 = 0 ∧ Fifo.EQ.abs c.eq = [] := by decide +kernel
example : (session ["*ESE -1\n", "*ESE?\n"]).out.written = bytesOf "65535\r\n" := by decide +kernel
-- missing / non-numeric parameter
example : Fifo.EQ.abs (session ["*ESE 7\n", "*ESE\n"]).eq = [(-109, none)] ∧
    (session ["*ESE 7\n", "*ESE\n"]).regs.regs.getD Regs.ESE 0 = 7 := by decide +kernel
example : Fifo.EQ.abs (session ["STAT:QUES:ENAB \"x\"\n"]).eq = [(-104, none)] := by decide +kernel

/-! ### the clearing queries -/

/-- `*ESR?` answers the standard event register and leaves it 0; all other registers but the status byte unchanged,
state coherent, queue untouched -/
theorem esr_query_clears (c : Ctx) (cmd : Cmd) (hb : Bound c cmd .esrQ) (hs : StatusOK c.regs c.eq) :
    Answered c (processCommand c).1 (Spec.Message.decimal (Regs.get c.regs Regs.ESR).toNat) ∧
    Regs.get (processCommand c).1.regs Regs.ESR = 0 ∧
    (∀ m, m ≠ Regs.STB → m ≠ Regs.ESR → Regs.get (processCommand c).1.regs m = Regs.get c.regs m) ∧
    Regs.Coherent (processCommand c).1.regs ∧ (processCommand c).1.eq = c.eq :=
  Lemmas.Instrument.event_query_clears c cmd .esrQ Regs.ESR hb (Or.inl ⟨rfl, rfl⟩) hs

/-- `STATus:OPERation[:EVENt]?` -/
theorem oper_event_query_clears (c : Ctx) (cmd : Cmd) (hb : Bound c cmd .operEvenQ) (hs : StatusOK c.regs c.eq) :
    Answered c (processCommand c).1 (Spec.Message.decimal (Regs.get c.regs Regs.OPER).toNat) ∧
    Regs.get (processCommand c).1.regs Regs.OPER = 0 ∧
    (∀ m, m ≠ Regs.STB → m ≠ Regs.OPER → Regs.get (processCommand c).1.regs m = Regs.get c.regs m) ∧
    Regs.Coherent (processCommand c).1.regs ∧ (processCommand c).1.eq = c.eq :=
  Lemmas.Instrument.event_query_clears c cmd .operEvenQ Regs.OPER hb (Or.inr (Or.inl ⟨rfl, rfl⟩)) hs

/-- `STATus:QUEStionable[:EVENt]?` -/
theorem ques_event_query_clears (c : Ctx) (cmd : Cmd) (hb : Bound c cmd .quesEvenQ) (hs : StatusOK c.regs c.eq) :
    Answered c (processCommand c).1 (Spec.Message.decimal (Regs.get c.regs Regs.QUES).toNat) ∧
    Regs.get (processCommand c).1.regs Regs.QUES = 0 ∧
    (∀ m, m ≠ Regs.STB → m ≠ Regs.QUES → Regs.get (processCommand c).1.regs m = Regs.get c.regs m) ∧
    Regs.Coherent (processCommand c).1.regs ∧ (processCommand c).1.eq = c.eq :=
  Lemmas.Instrument.event_query_clears c cmd .quesEvenQ Regs.QUES hb (Or.inr (Or.inr ⟨rfl, rfl⟩)) hs

-- non-vacuity: an execution error sets ESR bit 4; the query reports 16 and clears; the summary bit in STB follows
example : let c := session ["*ESE 16\n", "TEST:ERR\n", "*ESR?\n"]
    c.out.written = bytesOf "16\r\n" ∧ c.regs.regs.getD Regs.ESR 0 = 0 ∧ c.regs.regs.getD Regs.STB 0 = 4 := by decide +kernel
example : (session ["STAT:OPER?;:STAT:QUES?\n"]).out.written = bytesOf "0;0\r\n" := by decide +kernel

/-! ### *STB? -/

/-- `*STB?` answers the status byte of the state — which satisfies the five C11 equivalences (`Regs.Coherent`) — and
changes neither registers nor queue -/
theorem stb_query (c : Ctx) (cmd : Cmd) (hb : Bound c cmd .stbQ) (hs : StatusOK c.regs c.eq) :
    Answered c (processCommand c).1 (Spec.Message.decimal (Regs.get c.regs Regs.STB).toNat) ∧
    Regs.Coherent c.regs ∧ (processCommand c).1.regs = c.regs ∧ (processCommand c).1.eq = c.eq ∧
    (processCommand c).2 = true :=
  let h := Lemmas.Instrument.query_answers c cmd .stbQ Regs.STB hb rfl
  ⟨h.1, hs.2.1, h.2.2.2, h.2.2.1, h.2.1⟩

example : (session ["*ESE 16;*SRE 32\n", "TEST:ERR\n", "*STB?\n"]).out.written = bytesOf "100\r\n" := by decide +kernel

/-! ### SYSTem:ERRor[:NEXT]? and SYSTem:ERRor:COUNt? -/

/-- `SYST:ERR?` as the first response of its message.  `(code, text)` is the OLDEST entry of the queue, or `(0, none)`
when the queue is empty (`hq`).  The query answers exactly `Spec.ErrorString.response` of it (C18's specification:
`<code>,"<description>[;<text>]"`, quotes doubled, at most 255 characters), removes it (the queue afterwards is the tail),
and the error-available bit of the status byte is set afterwards iff entries remain; the state stays coherent.
Hypotheses `hc`, `ht`: the code is a 16-bit value and the text a C string (true of everything SCPI_ErrorPushEx stores). -/
theorem syst_err_next (c : Ctx) (cmd : Cmd) (hb : Bound c cmd .errNextQ) (hs : StatusOK c.regs c.eq)
    (hfirst : c.out.firstOutput = true) (code : Int) (text : Option Bytes)
    (hq : (Fifo.EQ.abs c.eq).head?.getD (0, none) = (code, text))
    (hc : -32768 ≤ code ∧ code ≤ 32767) (ht : ∀ t, text = some t → t.all (· ≠ 0) = true) :
    let c' := (processCommand c).1
    c'.out.written = c.out.written ++ Spec.ErrorString.response code (errorTranslate code) text ∧
    Fifo.EQ.abs c'.eq = (Fifo.EQ.abs c.eq).tail ∧
    (Regs.get c'.regs Regs.STB &&& Regs.bit Gen.STB_QMA ≠ 0 ↔ (Fifo.EQ.abs c.eq).tail ≠ []) ∧
    Regs.Coherent c'.regs ∧ (processCommand c).2 = true :=
  Lemmas.Instrument.err_next_unit c cmd hb hs hfirst code text hq hc ht

/-- with an empty queue the answer is `0,"No error"` and the queue stays empty -/
theorem syst_err_next_empty (c : Ctx) (cmd : Cmd) (hb : Bound c cmd .errNextQ) (hs : StatusOK c.regs c.eq)
    (hfirst : c.out.firstOutput = true) (hq : Fifo.EQ.abs c.eq = []) :
    (processCommand c).1.out.written = c.out.written ++ bytesOf "0,\"No error\"" ∧
    Fifo.EQ.abs (processCommand c).1.eq = [] := by
  have h := Lemmas.Instrument.err_next_unit c cmd hb hs hfirst 0 none (by rw [hq]; rfl) (by decide) (by intro t ht; cases ht)
  rw [hq] at h
  exact ⟨by rw [h.1, Lemmas.Instrument.no_error_text], h.2.1⟩

/-- `SYST:ERR:COUN?` answers the number of queued entries (the capacity is an int16_t in C) -/
theorem syst_err_count (c : Ctx) (cmd : Cmd) (hb : Bound c cmd .errCountQ) (hs : StatusOK c.regs c.eq)
    (hsz : c.eq.fifo.size < 2^31) :
    Answered c (processCommand c).1 (Spec.Message.decimal (Fifo.EQ.abs c.eq).length) ∧ (processCommand c).2 = true ∧
    (processCommand c).1.regs = c.regs ∧ (processCommand c).1.eq = c.eq :=
  Lemmas.Instrument.err_count c cmd hb hs hsz

-- non-vacuity: two errors queued, the oldest is reported first with its text; the available bit goes with the last one
example : let c := session ["FOO\n", "TEST:ERR\n", "SYST:ERR:COUN?\n", "SYST:ERR?\n"]
    c.out.written = bytesOf "2\r\n-113,\"Undefined header;FOO\"\r\n" ∧ Fifo.EQ.abs c.eq = [(-222, some (bytesOf "x"))] ∧
    c.regs.regs.getD Regs.STB 0 &&& 4 = 4 := by decide +kernel
example : let c := session ["TEST:ERR\n", "SYST:ERR?\n"]
    c.out.written = bytesOf "-222,\"Data out of range;x\"\r\n" ∧ Fifo.EQ.abs c.eq = [] ∧ c.regs.regs.getD Regs.STB 0 &&& 4 = 0 := by
  decide +kernel
example : (session ["SYST:ERR?\n"]).out.written = bytesOf "0,\"No error\"\r\n" := by decide +kernel
example : (session ["FOO;BAR\n", "SYST:ERR:COUN?\n"]).out.written = bytesOf "2\r\n" := by decide +kernel

/-! ### *OPC, *OPC?, *TST?, *IDN?, *RST -/

/-- `*OPC` sets bit 0 (operation complete) of the standard event register -/
theorem opc_sets_bit0 (c : Ctx) (cmd : Cmd) (hb : Bound c cmd .opc) (hs : StatusOK c.regs c.eq) :
    let c' := (processCommand c).1
    Regs.get c'.regs Regs.ESR = Regs.get c.regs Regs.ESR ||| Regs.bit Gen.ESR_OPC ∧
    Regs.Coherent c'.regs ∧ c'.eq = c.eq ∧ c'.out.written = c.out.written ∧ (processCommand c).2 = true :=
  Lemmas.Instrument.opc_unit c cmd hb hs

/-- `*OPC?` answers 1 and changes nothing -/
theorem opcq_answers_1 (c : Ctx) (cmd : Cmd) (hb : Bound c cmd .opcQ) :
    Answered c (processCommand c).1 (bytesOf "1") ∧ (processCommand c).2 = true ∧
    (processCommand c).1.regs = c.regs ∧ (processCommand c).1.eq = c.eq := by
  have h := Lemmas.Instrument.const_query c cmd .opcQ 1 hb (Or.inl ⟨rfl, rfl⟩)
  rwa [show Spec.Message.decimal 1 = bytesOf "1" from by decide +kernel] at h

/-- `*TST?` answers 0 and changes nothing -/
theorem tst_answers_0 (c : Ctx) (cmd : Cmd) (hb : Bound c cmd .tstQ) :
    Answered c (processCommand c).1 (bytesOf "0") ∧ (processCommand c).2 = true ∧
    (processCommand c).1.regs = c.regs ∧ (processCommand c).1.eq = c.eq := by
  have h := Lemmas.Instrument.const_query c cmd .tstQ 0 hb (Or.inr (Or.inl ⟨rfl, rfl⟩))
  rwa [show Spec.Message.decimal 0 = bytesOf "0" from by decide +kernel] at h

/-- `*IDN?` answers the four identification fields of the context (manufacturer, model, serial number, firmware
revision; a NULL field as "0"), separated by commas, as one response unit -/
theorem idn_fields (c : Ctx) (cmd : Cmd) (fields : List (Option Bytes)) (hb : Bound c cmd (.idnQ fields)) :
    Answered c (processCommand c).1
      (idnField fields 0 ++ [44] ++ idnField fields 1 ++ [44] ++ idnField fields 2 ++ [44] ++ idnField fields 3) ∧
    (processCommand c).2 = true ∧ (processCommand c).1.regs = c.regs ∧ (processCommand c).1.eq = c.eq :=
  Lemmas.Instrument.idn_answers c cmd fields hb

/-- `*RST` calls the interface's reset callback exactly once and touches neither registers, queue nor output -/
theorem rst_calls_reset (c : Ctx) (cmd : Cmd) (hb : Bound c cmd .rst) :
    let c' := (processCommand c).1
    c'.events = c.events ++ [.handler cmd.tag ((c.buf.drop c.rawOff).take c.rawLen), .reset] ∧
    c'.regs = c.regs ∧ c'.eq = c.eq ∧ c'.out.written = c.out.written ∧ (processCommand c).2 = true :=
  Lemmas.Instrument.rst_unit c cmd hb

example : (session ["*OPC\n"]).regs.regs.getD Regs.ESR 0 = 1 := by decide +kernel
example : (session ["*OPC?;*TST?\n"]).out.written = bytesOf "1;0\r\n" := by decide +kernel
example : (session ["*IDN?\n"]).out.written = bytesOf "MANU,MODEL,0,01-02\r\n" := by decide +kernel
example : (session ["*RST\n"]).events.count .reset = 1 := by decide +kernel
example : Bound (demoUnit ⟨bytesOf "*IDN?", 14, [.builtin (.idnQ Builtin.harnessIdn)]⟩ [])
    ⟨bytesOf "*IDN?", 14, [.builtin (.idnQ Builtin.harnessIdn)]⟩ (.idnQ Builtin.harnessIdn) := ⟨rfl, rfl, by decide⟩

end ScpiVerif.Props.Instrument
