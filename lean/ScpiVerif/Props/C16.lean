/-
C16 — Floating-point text keeps the promised number of significant digits.
Property theorems only; helper lemmas in ScpiVerif/Lemmas/Dtostre.lean.

PARTIAL (DESIGN.md section 7/C16): what is proved is the string-assembly stage of the library's own
formatter (SCPI_dtostre): whatever digits and decimal exponent the digit generator hands over, the
assembled text denotes exactly that value — the point and the exponent are placed correctly and only
trailing zeros are dropped — and fits the 32-byte scratch buffer.  The digit generator (scpi_ecvt,
C double arithmetic) and the printf build (snprintf of the C library) are not proved: they are judged
on every run against the exact rational value of the bit pattern (testing).  Known finding: the
digit generator accumulates rounding error over hundreds of multiplications by ten, so at 14-15
requested digits and extreme exponents the last digit can be off by more than one unit.
-/
import ScpiVerif.Model.Dtostre
import ScpiVerif.Spec.Float
import ScpiVerif.Gen.Tables
import ScpiVerif.Lemmas.Dtostre

namespace ScpiVerif.Props.C16
open ScpiVerif ScpiVerif.Lexer ScpiVerif.Dtostre

def isDigits (ds : Bytes) : Prop := ∀ b ∈ ds, 48 ≤ b ∧ b ≤ 57

/-- the assembled text is a decimal literal whose value is exactly 0.d1…dprec × 10^decpt, for every
precision 1..15, every digit string of that length with a non-zero first digit and every decimal
exponent in the double range -/
theorem assemble_value (prec : Nat) (hp : 1 ≤ prec ∧ prec ≤ 15) (ds : Bytes) (hl : ds.length = prec)
    (hd : isDigits ds) (hnz : ds.head? ≠ some 48) (decpt : Int) (hr : -330 ≤ decpt ∧ decpt ≤ 310) :
    ∃ num den, Spec.Float.litValue (assemble prec ds decpt) = some (false, num, den) ∧ den ≠ 0 ∧
      (if decpt ≥ prec then num = digitsValue ds * 10^(decpt - prec).toNat * den
       else num * 10^((prec : Int) - decpt).toNat = digitsValue ds * den) :=
  Lemmas.Dtostre.assemble_value prec hp ds hl hd hnz decpt hr

/-- zero: all digits '0' with decpt = 0 is printed as "0" -/
theorem assemble_zero (prec : Nat) (hp : 1 ≤ prec ∧ prec ≤ 15) :
    assemble prec (List.replicate prec 48) 0 = [48] := Lemmas.Dtostre.assemble_zero prec hp

/-- with any sign prefix the text fits the scratch buffer of SCPI_dtostre, NUL included -/
theorem assemble_fits (prec : Nat) (hp : 1 ≤ prec ∧ prec ≤ 15) (ds : Bytes) (hl : ds.length = prec)
    (decpt : Int) (hr : -330 ≤ decpt ∧ decpt ≤ 310) (neg nan : Bool) (flags : Nat) :
    (signPrefix neg nan flags ++ assemble prec ds decpt).length + 1 ≤ Gen.dtostreBuf :=
  Lemmas.Dtostre.assemble_fits prec hp ds hl decpt hr neg nan flags

-- non-vacuity: 0.000870507 with 7 digits (the case the unrepaired code printed as 0.00087), 1234.6, 1e+300
example : assemble 7 [56,55,48,53,48,55,48] (-3) = "0.000870507".toUTF8.toList := by decide +kernel
example : assemble 5 [49,50,51,52,54] 4 = "1234.6".toUTF8.toList := by decide +kernel
example : assemble 15 (49 :: List.replicate 14 48) 301 = "1e+300".toUTF8.toList := by decide +kernel

end ScpiVerif.Props.C16
