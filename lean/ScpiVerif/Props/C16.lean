/- C16 — placeholder until the theorems are in; not claimed in MANIFEST.json while this comment stands. -/
import ScpiVerif.Model.Result
namespace ScpiVerif.Props.C16
end ScpiVerif.Props.C16
