/- C02 — placeholder until the theorems are in; not claimed in MANIFEST.json while this comment stands. -/
import ScpiVerif.Model.Ctx
import ScpiVerif.Spec.Message
namespace ScpiVerif.Props.C02
end ScpiVerif.Props.C02
