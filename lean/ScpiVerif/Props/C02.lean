/-
C02 — Each message unit runs exactly the first command matching its effective header.
Property theorems only; helper lemmas in ScpiVerif/Lemmas/Dispatch.lean.

`Spec.Message.unitsOf` splits the raw message into units with the unit specification of C13,
`Spec.Message.effective` is the statement's rule for the effective header, `Spec.Message.dispatch`
the first table entry whose pattern LANGUAGE (Spec.Pattern.accepts, C03) contains it.
-/
import ScpiVerif.Model.Ctx
import ScpiVerif.Spec.Message
import ScpiVerif.Props.C03
import ScpiVerif.Props.C13
import ScpiVerif.Lemmas.Dispatch

namespace ScpiVerif.Props.C02
open ScpiVerif ScpiVerif.Ctx ScpiVerif.Lexer ScpiVerif.Spec ScpiVerif.Spec.Message

/-- the table's patterns belong to the property's grammar and satisfy C03's side condition -/
def TableOK (cmds : List Cmd) (pats : List Pattern.Pat) : Prop :=
  pats.length = cmds.length ∧
  ∀ i (h : i < cmds.length), ∃ p, pats[i]? = some p ∧ Pattern.parsePattern (cmds[i]).pattern = some p ∧ Pattern.wellFormed p.kws = true

/-- no handler script queues -113 itself (so that every -113 in the trace comes from the dispatcher) -/
def NoScript113 (cmds : List Cmd) : Prop :=
  ∀ cmd ∈ cmds, ∀ op ∈ cmd.script, ∀ code info, op = SOp.ePush code info → code ≠ -113

/-- dispatch-level projection of the events produced by one SCPI_Parse: handler entries and -113 errors -/
def dispatchTrace (evs : List Ev) : List Ev :=
  evs.filter (fun e => match e with | .handler .. => true | .error (-113) _ => true | _ => false)

/-- does the event realise the expectation?  A handler event must name the matched entry's tag and carry
exactly the effective header; an undefined header must give a -113 whose text contains the header as written -/
def realises (cmds : List Cmd) (hdrAsWritten : Bytes) : Expect → Ev → Prop
  | .run i eff, .handler tag h => (∃ cmd, cmds[i]? = some cmd ∧ tag = cmd.tag) ∧ h = eff
  | .undefined _, .error (-113) (some text) => ∃ pre post, text = pre ++ hdrAsWritten ++ post
  | _, _ => False

/-- Full statement: for every context, every command table of the grammar (overlapping and duplicate
patterns included), every script assignment and every well-formed message lying in the input buffer,
the handler invocations and -113 errors produced by SCPI_Parse are, in message order and one per unit
that has a header, exactly what the statement prescribes: the handler of the FIRST entry whose pattern
accepts the unit's effective header, entered with that effective header, or else one -113 carrying the
offending text. -/
theorem dispatch_correct (c : Ctx) (base len : Nat) (pats : List Pattern.Pat)
    (hb : base + len ≤ c.buf.length) (ht : TableOK c.cmds pats) (hs : NoScript113 c.cmds)
    (hwf : ∀ u ∈ unitsOf ((c.buf.drop base).take len), u.wellFormed = true ∧ 0 ≤ u.nParams) :
    let msg := (c.buf.drop base).take len
    let us := (unitsOf msg).filter (fun u => !u.header.isEmpty)
    let want := expectDispatch pats (unitsOf msg)
    let got := dispatchTrace ((parse c base len).1.events.drop c.events.length)
    got.length = want.length ∧ us.length = want.length ∧
    ∀ k (hk : k < want.length), ∃ e u, got[k]? = some e ∧ us[k]? = some u ∧ realises c.cmds u.header want[k] e :=
  Lemmas.Dispatch.dispatch_correct c base len pats hb ht hs hwf

/-- the effective-header rule in the statement's words -/
theorem effective_rule (prev : Option Bytes) (hdr : Bytes) :
    effective prev hdr =
      (match prev with
       | none => hdr
       | some p => if hdr.head? = some 58 ∨ hdr.head? = some 42 ∨ p.head? = some 42 then hdr else pathOf p ++ hdr) := by
  unfold effective
  cases prev with
  | none => rfl
  | some p => by_cases h1 : hdr.head? = some 58 ∨ hdr.head? = some 42 <;> by_cases h2 : p.head? = some 42 <;> simp [h1, h2] <;> (try (rcases h1 with h | h <;> simp [h]))

end ScpiVerif.Props.C02
