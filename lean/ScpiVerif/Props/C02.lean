/-
C02 — Each message unit runs exactly the first command matching its effective header.
Property theorems only; helper lemmas in ScpiVerif/Lemmas/Dispatch.lean.

`Spec.Message.unitsOf` splits the raw message into units with the unit specification of C13,
`Spec.Message.effective` is the statement's rule for the effective header, `Spec.Message.dispatch`
the first table entry whose pattern LANGUAGE (Spec.Pattern.accepts, C03) contains it.
-/
import ScpiVerif.Model.Ctx
import ScpiVerif.Spec.Message
import ScpiVerif.Props.C03
import ScpiVerif.Props.C13
import ScpiVerif.Lemmas.Dispatch

namespace ScpiVerif.Props.C02
open ScpiVerif ScpiVerif.Ctx ScpiVerif.Lexer ScpiVerif.Spec.Message
open ScpiVerif.Spec hiding Expect

-- `TableOK`, `NoScript113`, `dispatchTrace`, `realises` (namespace ScpiVerif.Props.C02) are defined in
-- ScpiVerif/Lemmas/DispatchDefs.lean, unchanged, so that the helper lemmas can speak about them.

/-- Full statement: for every context, every command table of the grammar (overlapping and duplicate
patterns included), every script assignment and every well-formed message lying in the input buffer,
the handler invocations and -113 errors produced by SCPI_Parse are, in message order and one per unit
that has a header, exactly what the statement prescribes: the handler of the FIRST entry whose pattern
accepts the unit's effective header, entered with that effective header, or else one -113 carrying the
offending text. -/
theorem dispatch_correct (c : Ctx) (base len : Nat) (pats : List Pattern.Pat)
    (hb : base + len ≤ c.buf.length) (ht : TableOK c.cmds pats) (hs : NoScript113 c.cmds)
    (hwf : ∀ u ∈ unitsOf ((c.buf.drop base).take len), u.wellFormed = true ∧ 0 ≤ u.nParams) :
    let msg := (c.buf.drop base).take len
    let us := (unitsOf msg).filter (fun u => !u.header.isEmpty)
    let want := expectDispatch pats (unitsOf msg)
    let got := dispatchTrace ((parse c base len).1.events.drop c.events.length)
    got.length = want.length ∧ us.length = want.length ∧
    ∀ k (hk : k < want.length), ∃ e u, got[k]? = some e ∧ us[k]? = some u ∧ realises c.cmds u.header want[k] e :=
  Lemmas.Dispatch.dispatch_correct c base len pats hb ht hs hwf

/-- the effective-header rule in the statement's words -/
theorem effective_rule (prev : Option Bytes) (hdr : Bytes) :
    effective prev hdr =
      (match prev with
       | none => hdr
       | some p => if hdr.head? = some 58 ∨ hdr.head? = some 42 ∨ p.head? = some 42 then hdr else pathOf p ++ hdr) := by
  unfold effective
  cases prev with
  | none => rfl
  | some p => by_cases h1 : hdr.head? = some 58 ∨ hdr.head? = some 42 <;> by_cases h2 : p.head? = some 42 <;> simp [h1, h2] <;> (try (rcases h1 with h | h <;> simp [h]))

/-! ### non-vacuity: the table ["A:B" -> 7, "A:C" -> 8] and the message "A:B;C;X\n" -/

/-- example table -/
def exTable : List Cmd := [⟨[65,58,66], 7, []⟩, ⟨[65,58,67], 8, [.ret true]⟩]
/-- its patterns as the specification reads them -/
def exPats : List Pattern.Pat :=
  [⟨false, false, [⟨[65], [65], false, false⟩, ⟨[66], [66], false, false⟩]⟩,
   ⟨false, false, [⟨[65], [65], false, false⟩, ⟨[67], [67], false, false⟩]⟩]
/-- a context whose input buffer starts with "A:B;C;X\n" -/
def exCtx : Ctx := { Ctx.init exTable [] 16 4 false with buf := [65,58,66,59,67,59,88,10,0,0,0,0,0,0,0,0] }

-- the hypotheses of `dispatch_correct` hold for the example
example : TableOK exCtx.cmds exPats := by
  refine ⟨rfl, ?_⟩
  intro i h
  match i, h with
  | 0, _ => exact ⟨_, rfl, (by show Pattern.parsePattern [65,58,66] = _; decide), by decide⟩
  | 1, _ => exact ⟨_, rfl, (by show Pattern.parsePattern [65,58,67] = _; decide), by decide⟩
example : NoScript113 exCtx.cmds := by
  intro cmd hc op ho code info he
  simp [exCtx, Ctx.init, exTable] at hc
  rcases hc with rfl | rfl <;> simp at ho
  subst ho; cases he
example : ∀ u ∈ unitsOf ((exCtx.buf.drop 0).take 8), u.wellFormed = true ∧ 0 ≤ u.nParams := by decide
-- what the specification expects and what the model does ("C" and "X" are completed to "A:C" and "A:X")
example : expectDispatch exPats (unitsOf ((exCtx.buf.drop 0).take 8)) =
    [.run 0 [65,58,66], .run 1 [65,58,67], .undefined [65,58,88]] := by decide
example : dispatchTrace ((parse exCtx 0 8).1.events.drop exCtx.events.length) =
    [.handler 7 [65,58,66], .handler 8 [65,58,67], .error (-113) (some [88])] := by decide +kernel

/-! ### the handler can recover the matched entry: tag and pattern test -/

/-- SCPI_CmdTag inside a handler: the tag of the matched entry -/
theorem handler_sees_tag (h : HState) (cmd : Cmd) (hd : h.done = false) (hc : h.c.cur = some cmd) :
    (runOp h .iTag).c.events = h.c.events ++ [Ev.tag cmd.tag] := by
  simp [runOp, hd, hc, emit]

/-- SCPI_IsCmd inside a handler (the "pattern test"): for a matched entry whose pattern belongs to the grammar of C03 and a
header text over the header alphabet, the answer is membership of the text in the language of THAT entry's pattern -/
theorem handler_pattern_test (h : HState) (cmd : Cmd) (hd : h.done = false) (hc : h.c.cur = some cmd)
    (p : Pattern.Pat) (hp : Pattern.parsePattern cmd.pattern = some p) (hwf : Pattern.wellFormed p.kws = true)
    (s : Bytes) (hs : (s.takeWhile (· ≠ 0)).all Props.C03.headerAlphabet = true) :
    (runOp h (.iIsCmd s)).c.events = h.c.events ++ [Ev.test (!(Pattern.accepts p (s.takeWhile (· ≠ 0))).isEmpty)] := by
  have hm := (Props.C03.match_iff_language cmd.pattern p hp hwf (s.takeWhile (· ≠ 0)) hs).1
  simp only [runOp, hd, hc, emit, Bool.false_eq_true, if_false, hm]

/-- SCPI_Match(pattern, text, len): membership of the text in the language of the given pattern, whatever the context -/
theorem api_match (h : HState) (hd : h.done = false) (pat : Bytes) (p : Pattern.Pat)
    (hp : Pattern.parsePattern pat = some p) (hwf : Pattern.wellFormed p.kws = true)
    (s : Bytes) (hs : s.all Props.C03.headerAlphabet = true) :
    (runOp h (.iMatch pat s)).c.events = h.c.events ++ [Ev.test (!(Pattern.accepts p s).isEmpty)] := by
  have hm := (Props.C03.match_iff_language pat p hp hwf s hs).1
  simp only [runOp, hd, emit, Bool.false_eq_true, if_false, hm]

-- on literal bytes: inside the handler of "A:B", the pattern test accepts "a:b" and refuses "A:C"
example : (runOp { c := { exCtx with cur := some ⟨[65,58,66], 7, []⟩ } } (.iIsCmd [97,58,98])).c.events = [Ev.test true] ∧
    (runOp { c := { exCtx with cur := some ⟨[65,58,66], 7, []⟩ } } (.iIsCmd [65,58,67])).c.events = [Ev.test false] := by
  decide +kernel

end ScpiVerif.Props.C02
