/-
C20 — The allocation-free build stores error texts intact or not at all.
Property theorems only; helper lemmas in ScpiVerif/Lemmas/Heap.lean.
-/
import ScpiVerif.Model.Heap
import ScpiVerif.Lemmas.Heap

namespace ScpiVerif.Props.C20
open ScpiVerif ScpiVerif.Heap

/-- Full statement: for every queue capacity >= 1, every heap size (including 0 and 1) and every
history of pushes (any code, any NUL-free text of any length, any declared length), SYST:ERR?
pops, clears and counts — overflows included — every observation equals that of the abstract
bounded FIFO which remembers the full text of every push, except that a reported text may be
absent: never truncated, merged or foreign.  No load or store touches an index outside the heap. -/
theorem text_intact_or_absent (cap heapSize : Nat) (hcap : 1 ≤ cap) (ops : List Op)
    (hwf : ∀ op ∈ ops, op.wf = true) :
    let impl := run EQH.step (EQH.init cap heapSize) ops
    let spec := run (specStep cap) [] ops
    impl.2.length = spec.2.length ∧
    (∀ p ∈ impl.2.zip spec.2, obsOK p.1 p.2 = true) ∧
    impl.1.heap.oob = false ∧ impl.1.heap.data.length = heapSize ∧ impl.1.heap.size = heapSize :=
  Lemmas.Heap.text_intact_or_absent cap heapSize hcap ops hwf

/-- heap space is completely reusable once the queue is empty -/
theorem empty_means_reusable (cap heapSize : Nat) (hcap : 1 ≤ cap) (ops : List Op)
    (hwf : ∀ op ∈ ops, op.wf = true) :
    let q := (run EQH.step (EQH.init cap heapSize) ops).1
    q.fifo.count = 0 → q.heap.count = heapSize ∧ q.heap.wr = 0 ∧ q.heap.data = List.replicate heapSize 0 :=
  Lemmas.Heap.empty_means_reusable cap heapSize hcap ops hwf

/-- a text that fits an empty heap is stored and comes back unmodified -/
theorem fits_means_stored (cap heapSize : Nat) (hcap : 1 ≤ cap) (c : Int) (s : Bytes)
    (hs : s.all (· ≠ 0) = true) (hne : s ≠ []) (hfit : s.length < heapSize) (h255 : s.length ≤ 255) :
    (run EQH.step (EQH.init cap heapSize) [.push c (some s) 0, .sysErr]).2 = [.pushed [c], .popped c (some s)] :=
  Lemmas.Heap.fits_means_stored cap heapSize hcap c s hs hne hfit h255

-- non-vacuity: wrap-around, overflow with rollback, refusal when full
example : (run EQH.step (EQH.init 2 8) [.push 1 (some [65,66,67]) 0, .push 2 (some [68,69]) 0, .sysErr,
    .push 3 (some [70,71,72,73]) 0, .push 4 (some [74]) 0, .sysErr, .sysErr, .count]).2 =
    [.pushed [1], .pushed [2], .popped 1 (some [65,66,67]), .pushed [3], .pushed [4, -350], .popped 2 (some [68,69]),
     .popped (-350) none, .counted 0] := by decide

end ScpiVerif.Props.C20
