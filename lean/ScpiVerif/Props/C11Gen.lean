/-
C11, generated tie — the Lean text translated from the status-register functions of libscpi/src/ieee488.c on every run
(Gen/RegsC.lean, translate/c2lean_regs.py: SCPI_RegGet, writeControl, SCPI_RegSet, SCPI_RegSetBits, SCPI_RegClearBits)
computes what the hand-written register model computes, so that the theorems of Props/C11.lean hold of the C text as it is
now.  Property theorems only; helper lemmas in ScpiVerif/Lemmas/RegsC.lean.

This module is an obligation of C11's check whenever the translator ACCEPTS the current ieee488.c.  When it refuses a function
(a construct outside its subset), the tie degrades to the differential correspondence of the hand model, which is recorded in
the evidence (`generated_tie`), and this module is not built.
-/
import ScpiVerif.Model.Regs
import ScpiVerif.Lemmas.Regs
import ScpiVerif.Lemmas.RegsC
import ScpiVerif.Props.C11

namespace ScpiVerif.Props.C11
open ScpiVerif ScpiVerif.Regs ScpiVerif.Gen.RegsC ScpiVerif.Lemmas.RegsC

/-! ### The C text of the register functions refines the model

`ScpiVerif.Gen.RegsC` is GENERATED from ieee488.c (clang's typed AST; `uint16_t` as `BitVec 16`, enum values as `Nat`, the
`do … while` of SCPI_RegSet as a recursion on fuel, the control callback as an append to `ctrlLog`).  `toSt c b` reads a context
as a state of the hand model: its registers, the service requests among its logged control calls, and the error-queue
counters of `b`, which these functions do not touch.  `CB c`: the control callback is installed, as the hand model assumes. -/

/-- SCPI_RegGet, for every context and every name (0 outside the register file) -/
theorem c_regGet (c : CCtx) (b : St) (name : Nat) : SCPI_RegGet c name = get (toSt c b) name := regGet_refines c b name

/-- SCPI_RegSet, for every context with the callback installed and a register file of SCPI_REG_COUNT entries (what the C
type of `registers` says), every name (out-of-range names included: nothing changes) and every 16-bit value: registers
and service-request log as in the model -/
theorem c_regSet (c : CCtx) (b : St) (name : Nat) (val : Reg) (hcb : CB c) (hlen : c.registers.length = regCount) :
    toSt (SCPI_RegSet c name val) b = regSet (toSt c b) name val := regSet_refines c b name val hcb hlen
theorem c_regSetBits (c : CCtx) (b : St) (name : Nat) (bits : Reg) (hcb : CB c) (hlen : c.registers.length = regCount) :
    toSt (SCPI_RegSetBits c name bits) b = regSetBits (toSt c b) name bits := regSetBits_refines c b name bits hcb hlen
theorem c_regClearBits (c : CCtx) (b : St) (name : Nat) (bits : Reg) (hcb : CB c) (hlen : c.registers.length = regCount) :
    toSt (SCPI_RegClearBits c name bits) b = regClearBits (toSt c b) name bits := regClearBits_refines c b name bits hcb hlen

/-- both hypotheses are kept by SCPI_RegSet, so the theorems apply call after call -/
theorem c_regSet_keeps (c : CCtx) (b : St) (name : Nat) (val : Reg) (hcb : CB c) (hlen : c.registers.length = regCount) :
    CB (SCPI_RegSet c name val) ∧ (SCPI_RegSet c name val).registers.length = regCount :=
  ⟨regSet_cb c name val hcb, regSet_length c b name val hcb hlen⟩

/-- without an installed callback (`context->interface` or `context->interface->control` NULL, which the hand model does
not cover): the registers are still those of the model and no control call is made -/
theorem c_regSet_nocb (c : CCtx) (b : St) (name : Nat) (val : Reg) (h : ¬ CB c) (hlen : c.registers.length = regCount) :
    (SCPI_RegSet c name val).registers = (regSet (toSt c b) name val).regs ∧
    (SCPI_RegSet c name val).ctrlLog = c.ctrlLog := regSet_nocb c b name val h hlen

/-- the fuel the translator gives the loop of SCPI_RegSet suffices for the generated tables: the out-of-fuel flag is never
set (any context, any name, any value), and the interface pointers / the callback's answer are left alone -/
theorem c_regSet_fuel (c : CCtx) (name : Nat) (val : Reg) :
    (SCPI_RegSet c name val).oof = c.oof ∧ flags (SCPI_RegSet c name val) = flags c :=
  ⟨regSet_oof c name val, regSet_flags c name val⟩

-- ESE = 0x20, then ESR |= 0x20: the summary bit 5 of the status byte is set, no service request; with SRE = 0x20 first:
-- one callback carrying 0x60 (ESB + MSS); an out-of-range name changes nothing; fuel never runs out
example : let c := SCPI_RegSetBits (SCPI_RegSet (ofSt (St.init 2)) 3 0x20#16) 2 0x20#16
    aget16 c.registers 0 = 0x20#16 ∧ c.ctrlLog = [] ∧ c.oof = false := by decide
example : let c := SCPI_RegSetBits (SCPI_RegSet (SCPI_RegSet (ofSt (St.init 2)) 1 0x20#16) 3 0x20#16) 2 0x20#16
    c.registers.take 4 = [0x60#16, 0x20#16, 0x20#16, 0x20#16] ∧ c.ctrlLog = [(SCPI_CTRL_SRQ, 0x60#16)] ∧ c.oof = false := by decide
example : SCPI_RegSet (ofSt (St.init 2)) 10 0xFFFF#16 = ofSt (St.init 2) ∧ SCPI_RegGet (ofSt (St.init 2)) 11 = 0#16 := by decide
-- no interface: same registers, empty log
example : let c := SCPI_RegSetBits (SCPI_RegSet (SCPI_RegSet { ofSt (St.init 2) with hasInterface := false } 1 0x20#16) 3 0x20#16) 2 0x20#16
    c.registers.take 4 = [0x60#16, 0x20#16, 0x20#16, 0x20#16] ∧ c.ctrlLog = [] := by decide
-- the three-level walk: a condition bit rises, is latched in the event register and summarised in the status byte
example : let c := SCPI_RegSet (SCPI_RegSet (ofSt (St.init 2)) 5 0x0100#16) 6 0x0100#16
    c.registers = [0x80#16, 0, 0, 0, 0x0100#16, 0x0100#16, 0x0100#16, 0, 0, 0] ∧ c.oof = false := by decide

/-! ### C11 for the generated functions -/

/-- the operations of `Regs.step` that are calls of the translated functions, run through the GENERATED text
(the others - error queue, *CLS - stay with the hand model) -/
def gstep (s : St) : Op → St
  | .set n v => toSt (SCPI_RegSet (ofSt s) n v) s
  | .setBits n v => toSt (SCPI_RegSetBits (ofSt s) n v) s
  | .clearBits n v => toSt (SCPI_RegClearBits (ofSt s) n v) s
  | .esrQ => toSt (SCPI_RegSet (ofSt s) ESR 0) s
  | .operQ => toSt (SCPI_RegSet (ofSt s) OPER 0) s
  | .quesQ => toSt (SCPI_RegSet (ofSt s) QUES 0) s
  | .preset => toSt (SCPI_RegSet (ofSt s) QUES 0) s
  | op => step s op

theorem c_gstep (s : St) (op : Op) (hwf : WF s) : gstep s op = step s op := by
  have hl : (ofSt s).registers.length = regCount := hwf.1
  cases op <;> simp only [gstep, step, c_regSet _ _ _ _ (cb_ofSt s) hl, c_regSetBits _ _ _ _ (cb_ofSt s) hl,
    c_regClearBits _ _ _ _ (cb_ofSt s) hl, toSt_ofSt]

/-- one call of a generated function keeps coherence (any well-formed context with the callback, all 16-bit values, any
register but the status byte itself) -/
theorem c_coherent_step (c : CCtx) (b : St) (name : Nat) (val : Reg) (hcb : CB c) (hwf : WF (toSt c b))
    (hc : Coherent (toSt c b)) (hn : name ≠ STB) :
    Coherent (toSt (SCPI_RegSet c name val) b) ∧ Coherent (toSt (SCPI_RegSetBits c name val) b) ∧
    Coherent (toSt (SCPI_RegClearBits c name val) b) := by
  rw [c_regSet _ _ _ _ hcb hwf.1, c_regSetBits _ _ _ _ hcb hwf.1, c_regClearBits _ _ _ _ hcb hwf.1]
  have h : ∀ op : Op, op.ok = true → Coherent (step (toSt c b) op) := fun op h => coherent_step _ op hwf hc h
  exact ⟨h (.set name val) (by simpa [Op.ok] using hn), h (.setBits name val) (by simpa [Op.ok] using hn),
    h (.clearBits name val) (by simpa [Op.ok] using hn)⟩

/-- application writes to the status byte through the generated functions, under the condition of `coherent_step_app` -/
theorem c_coherent_step_app (s : St) (op : Op) (hwf : WF s) (hc : Coherent s) (hop : op.okIn s = true) :
    Coherent (gstep s op) := by
  rw [c_gstep s op hwf]; exact coherent_step_app s op hwf hc hop

/-- a history run through the generated text is the history of the model -/
theorem c_gstep_foldl (ops : List Op) : ∀ (s : St), WF s → ops.foldl gstep s = ops.foldl step s := by
  induction ops with
  | nil => intros; rfl
  | cons op ops ih =>
    intro s hwf
    simp only [List.foldl_cons, c_gstep s op hwf]
    exact ih _ (wf_step s op hwf)

/-- Full statement with the register operations run through the generated text -/
theorem c_coherent_reachable (cap : Nat) (hcap : 1 ≤ cap) (ops : List Op) (hops : ∀ op ∈ ops, op.ok = true) :
    Coherent (ops.foldl gstep (St.init cap)) := by
  rw [c_gstep_foldl ops _ (wf_init cap hcap)]; exact coherent_reachable cap hcap ops hops

/-- what a direct SCPI_RegSet on the status byte leaves there (generated text) -/
theorem c_stb_after_set (c : CCtx) (b : St) (v : Reg) (hcb : CB c) (hwf : WF (toSt c b)) (hc : Coherent (toSt c b)) :
    SCPI_RegGet (SCPI_RegSet c STB v) STB =
      if (v &&& ~~~bit Gen.STB_SRQ) &&& (SCPI_RegGet c SRE &&& ~~~bit Gen.STB_SRQ) ≠ 0 then v ||| bit Gen.STB_SRQ
      else v &&& ~~~bit Gen.STB_SRQ := by
  rw [c_regGet _ b, c_regGet _ b, c_regSet _ _ _ _ hcb hwf.1]
  exact stb_after_set (toSt c b) v hwf hc

example : Coherent ([Op.set ESR 0x20, .set ESE 0x20, .errPush (-100), .set SRE 0x24, .errPop, .esrQ].foldl gstep (St.init 2)) := by
  decide
example : get ([Op.set ESR 0x20, .set ESE 0x20].foldl gstep (St.init 2)) STB = 0x20#16 := by decide

end ScpiVerif.Props.C11
