/-
C05 — Wrong, missing or surplus parameters raise the right error, never mis-delivered.
Property theorems only; helper lemmas in ScpiVerif/Lemmas/Params.lean.
`Spec.Params.expect` is the property's table (error code by situation); `Ctx.runReader` dispatches to
the model of every typed reader.
-/
import ScpiVerif.Model.Readers
import ScpiVerif.Spec.Params
import ScpiVerif.Props.C13
import ScpiVerif.Lemmas.Params
import ScpiVerif.Lemmas.FieldWidths

namespace ScpiVerif.Props.C05
open ScpiVerif ScpiVerif.Ctx ScpiVerif.Lexer ScpiVerif.Spec.Params

/-- no more data: a mandatory parameter queues exactly -109, an optional one queues nothing and
reports absence; the context is otherwise untouched -/
theorem missing_parameter (c : Ctx) (r : Reader) (mand : Bool) (h : atEnd c) :
    let (c', ok) := runReader c r mand
    ok = false ∧ errorsSince c c' = (if mand then [-109] else []) ∧ c'.ppos = c.ppos ∧ (mand = false → c' = c) :=
  Lemmas.Params.missing_parameter c r mand h

/-- "in no other case does a typed reader report failure without queuing an error": a reader that
returns FALSE has queued at least one error, unless the parameter is optional and absent -/
theorem reader_failure_has_error (c : Ctx) (r : Reader) (mand : Bool) :
    let (c', ok) := runReader c r mand
    ok = false → errorsSince c c' ≠ [] ∨ (mand = false ∧ atEnd c) :=
  Lemmas.Params.reader_failure_has_error c r mand

/-- a reader that succeeds queues nothing -/
theorem reader_success_is_silent (c : Ctx) (r : Reader) (mand : Bool) :
    let (c', ok) := runReader c r mand
    ok = true → errorsSince c c' = [] := Lemmas.Params.reader_success_is_silent c r mand

/-- the outcome of every reader on the next data element is the property's table: when
SCPI_Parameter delivers a token of type `t` with text `txt`, the reader succeeds iff `expect` says
ok, and otherwise queues exactly the code `expect` names (-104 wrong type, -138 suffix not allowed,
-131 unknown suffix, -224 unknown choice).
Hypothesis `hopts`: for the choice reader, the option names contain neither NUL nor '#' (a name ending in '#'
makes matchPattern accept a numeric suffix, which `nameMatches` does not describe; a NUL ends a C string) -/
theorem reader_by_token (c : Ctx) (r : Reader) (mand : Bool) (c1 : Ctx) (tok : Token)
    (hopts : ∀ opts, r = .choice opts → ∀ o ∈ opts, ∀ b ∈ o.1, b ≠ 0 ∧ b ≠ 35)
    (hp : parameter c mand = (c1, true, tok)) :
    let (c', ok) := runReader c r mand
    let txt := (c1.buf.drop tok.ptr).take tok.len.toNat
    match expect r mand (some (tok.type, txt)) with
    | .ok => ok = true ∧ errorsSince c c' = []
    | .fail (some e) => ok = false ∧ errorsSince c c' = [e]
    | .fail none => False :=
  Lemmas.Params.reader_by_token c r mand c1 tok hopts hp

/-- SCPI_Parameter against the data specification: at a cursor inside the program data it expects a
comma unless this is the first parameter (else -103), then delivers exactly the next data element of
Spec.specData with its type and extent, advancing past it and the white space around it; text that
is not a data element raises -151 and delivers nothing -/
theorem parameter_delivers_next_item (c : Ctx) (mand : Bool) (h : ¬ atEnd c) (hw : c.pbase + c.plen ≤ c.buf.length)
    (hpos : c.pbase ≤ c.ppos) :
    let win := (c.buf.drop c.pbase).take c.plen
    let rel := c.ppos - c.pbase
    let (c', ok, tok) := parameter c mand
    if c.inputCount ≠ 0 ∧ win[rel]? ≠ some 44 then ok = false ∧ errorsSince c c' = [-103]
    else
      let start := if c.inputCount ≠ 0 then rel + 1 else rel
      let w0 := Spec.wsLen (win.drop start)
      match Spec.specData (win.drop (start + w0)) with
      | .item n t po pl =>
        ok = true ∧ tok = ⟨t, c.pbase + start + w0 + po, pl⟩ ∧
        c'.ppos = c.pbase + start + w0 + n + Spec.wsLen (win.drop (start + w0 + n)) ∧ errorsSince c c' = []
      | _ => ok = false ∧ errorsSince c c' = [-151] :=
  Lemmas.Params.parameter_delivers_next_item c mand h hw hpos

/-- error accounting of a unit: after the handler, -200 is queued iff it returned ERR without any error
of its own, and -108 iff unread data remains and no error was queued during the unit.
`errorsSince` does not count events with the overflow code -350 (the marker that accompanies a push
onto a full queue), so the characterisation of the unit's result by "no error counted" needs the
script not to push -350 itself: with `ePush (-350)` the unit fails although nothing is counted. -/
theorem unit_accounting (c : Ctx) (cmd : Cmd) (hc : c.cur = some cmd) :
    let c0 := { c with cmdError := false, inputCount := 0,
                       out := { c.out with outputCount := if c.out.firstOutput then 0 else -1, arbRemaining := 0 } }
    let c1 := emit c0 (.handler cmd.tag ((c0.buf.drop c0.rawOff).take c0.rawLen))
    let (c2, ok) := runScript c1 cmd.script
    let (c', res) := processCommand c
    let own := errorsSince c1 c2
    errorsSince c c' = own ++ (if !ok ∧ c2.cmdError = false then [-200] else []) ++
      (if c2.ppos < c2.pbase + c2.plen ∧ (c2.cmdError = false ∧ ok) then [-108] else []) ∧
    ((∀ info, SOp.ePush Fifo.overflowCode info ∉ cmd.script) →
      (res = true ↔ errorsSince c c' = [] ∧ ok = true)) :=
  Lemmas.Params.unit_accounting c cmd hc

/-- the parameter ordinal `context->input_count` (first parameter: no comma expected) is, as compiled from the current source, signed and at
least 32 bits wide: the model's unbounded counter is exact for every unit with fewer than 2^31 parameters (widths regenerated by the translator on every run) -/
theorem parameter_counter_wide_enough :
    Lemmas.FieldWidths.SignedAtLeast Gen.fw_ctx_input_count 32 :=
  Lemmas.FieldWidths.input_count

end ScpiVerif.Props.C05
