/-
C07 — Every value the library formats as a result decodes back to the same value.
Property theorems only; helper lemmas in ScpiVerif/Lemmas/RoundTrip.lean.

Composition of the writer side (C14 canonical digits, C17 block encoding, the quoting of C18) with
the lexer (C13) and the readers.  PARTIAL for floating point: the text shape is proved to be accepted
whole by the decimal recogniser and converted whole by strtod; closeness to 6 / 15 digits then rests
on the C library's printf/strtod (trusted, compared on every run — C16 / C04).
-/
import ScpiVerif.Model.Ctx
import ScpiVerif.Spec.Message
import ScpiVerif.Props.C13
import ScpiVerif.Props.C14
import ScpiVerif.Lemmas.RoundTrip
import ScpiVerif.Lemmas.FieldWidths

namespace ScpiVerif.Props.C07
open ScpiVerif ScpiVerif.Lexer ScpiVerif.Spec ScpiVerif.Spec.Message

/-- token type a formatted integer must lex as -/
def intTokType (base : Int) : TokType :=
  if base = 2 then .binnum else if base = 8 then .octnum else if base = 16 then .hexnum else .decimal

/-- the radix the reader uses for a token of that kind -/
def baseNat (base : Int) : Nat := if base = 2 then 2 else if base = 8 then 8 else if base = 16 then 16 else 10

/-- unsigned integers of 32 / 64 bits in bases 2, 8, 10, 16: the emitted text (base prefix + canonical digits)
is one program data element of the right type covering the whole text, and the unsigned reader of that
width converts it back to exactly the value; smaller widths (8, 16 bit) are emitted through the 32-bit path -/
theorem unsigned_roundtrip (w : Nat) (hw : w = 32 ∨ w = 64) (v : Nat) (hv : v < 2^w) (base : Int)
    (hb : base = 2 ∨ base = 8 ∨ base = 10 ∨ base = 16) (tail : Bytes)
    (htail : tail = [] ∨ tail.head? = some 44 ∨ tail.head? = some 59 ∨ tail.head? = some 10 ∨ tail.head? = some 13) :
    let text := intText w v base false
    let mem := text ++ tail
    let (p, tok, _) := Parser.parseProgramData mem 0
    p = text.length ∧ tok.type = intTokType base ∧
    Prim.strtoulTo w mem tok.ptr (baseNat base) = (text.length - tok.ptr, v) :=
  Lemmas.RoundTrip.unsigned_roundtrip w hw v hv base hb tail htail

/-- signed integers (decimal, '-' for negative values including the most negative one): read back exactly
by the signed reader of the same width -/
theorem signed_roundtrip (w : Nat) (hw : w = 32 ∨ w = 64) (pat : Nat) (hv : pat < 2^w) (tail : Bytes)
    (htail : tail = [] ∨ tail.head? = some 44 ∨ tail.head? = some 59 ∨ tail.head? = some 10 ∨ tail.head? = some 13) :
    let text := intText w pat 10 true
    let mem := text ++ tail
    let (p, tok, _) := Parser.parseProgramData mem 0
    p = text.length ∧ tok.type = .decimal ∧ tok.ptr = 0 ∧
    Prim.strtolTo w mem 0 10 = (text.length, Prim.wrapSigned w pat) :=
  Lemmas.RoundTrip.signed_roundtrip w hw pat hv tail htail

/-- 8- and 16-bit values: emitted through the 32-bit writers after sign / zero extension, they read back
through the 32-bit readers as the same number -/
theorem narrow_roundtrip (n : Nat) (hn : n = 8 ∨ n = 16) (pat : Nat) (hv : pat < 2^n) :
    Prim.wrapSigned 32 (Result.signExtend n 32 pat) = Prim.wrapSigned n pat ∧ Result.signExtend n 32 pat < 2^32 :=
  Lemmas.RoundTrip.narrow_roundtrip n hn pat hv

/-- text with arbitrary 7-bit content (both quote characters included): the emitted string is one string
token covering the whole text, and SCPI_ParamCopyText with a large enough buffer recovers the content -/
theorem text_roundtrip (s : Bytes) (hs : ∀ b ∈ s, 1 ≤ b ∧ b ≤ 127) (cap : Nat) (hcap : (quote s).length < cap) (tail : Bytes)
    (htail : tail = [] ∨ tail.head? = some 44 ∨ tail.head? = some 59 ∨ tail.head? = some 10 ∨ tail.head? = some 13) :
    let text := quote s
    let (p, tok, _) := Lexer.lexString (text ++ tail) 0
    p = text.length ∧ tok = ⟨.doubleQuote, 0, text.length⟩ ∧ Ctx.copyText text 34 cap = (s, true) :=
  Lemmas.RoundTrip.text_roundtrip s hs cap hcap tail htail

/-- arbitrary blocks with arbitrary bytes: the emitted block is one block token whose payload is the data -/
theorem block_roundtrip (d : Bytes) (hd : d.length < 10^9) (tail : Bytes) :
    let text := encodeBlock d
    let (p, tok, _) := Lexer.lexBlock (text ++ tail) 0
    p = text.length ∧ tok.type = .block ∧ ((text ++ tail).drop tok.ptr).take tok.len.toNat = d :=
  Lemmas.RoundTrip.block_roundtrip d hd tail

/-- booleans are emitted as 0 / 1, which the boolean reader maps back -/
theorem bool_roundtrip (b : Bool) :
    intText 32 (if b then 1 else 0) 10 false = (if b then [49] else [48]) := Lemmas.RoundTrip.bool_roundtrip b

/-- floating point, shape only: every text of the %g output language  -?d(.d+)?(e[+-]dd+)?  is accepted whole
by the decimal recogniser and converted whole by strtod -/
theorem float_text_accepted (neg : Bool) (ip fp ex : Bytes) (eneg : Bool)
    (hip : ip ≠ [] ∧ ∀ b ∈ ip, 48 ≤ b ∧ b ≤ 57) (hfp : ∀ b ∈ fp, 48 ≤ b ∧ b ≤ 57) (hex : ∀ b ∈ ex, 48 ≤ b ∧ b ≤ 57) (tail : Bytes)
    (htail : tail = [] ∨ tail.head? = some 44 ∨ tail.head? = some 59 ∨ tail.head? = some 10 ∨ tail.head? = some 13) :
    let text : Bytes := (if neg then [45] else []) ++ ip ++ (if fp = [] then [] else [46] ++ fp) ++
                        (if ex = [] then [] else [101] ++ (if eneg then [45] else [43]) ++ ex)
    (Lexer.lexDecimal (text ++ tail) 0).2.2 = text.length ∧ Prim.strtodLen (text ++ tail) 0 = text.length :=
  Lemmas.RoundTrip.float_text_accepted neg ip fp ex eneg hip hfp hex tail htail

/-- ASCII arrays are written element by element through the scalar writers; the element separators depend on the item counter
`context->output_count`, which (as compiled from the current source) is signed and at least 32 bits wide: arrays of fewer than 2^31
elements are separated by commas throughout (widths regenerated by the translator on every run) -/
theorem item_counter_wide_enough :
    Lemmas.FieldWidths.SignedAtLeast Gen.fw_ctx_output_count 32 :=
  Lemmas.FieldWidths.output_count

end ScpiVerif.Props.C07
