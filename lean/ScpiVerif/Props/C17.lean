/-
C17 — Binary results are valid definite-length blocks in the requested byte order.
Property theorems only; helper lemmas in ScpiVerif/Lemmas/Blocks.lean.
-/
import ScpiVerif.Model.Result
import ScpiVerif.Spec.Message
import ScpiVerif.Lemmas.Blocks

namespace ScpiVerif.Props.C17
open ScpiVerif ScpiVerif.Lexer ScpiVerif.Result ScpiVerif.Spec.Message

def emitted (o o' : Out) : Bytes := o'.written.drop o.written.length

/-- the item separator the output state calls for -/
def sepOf (o : Out) : Bytes := if o.outputCount > 0 then [44] else if o.outputCount < 0 then [59] else []

/-- for every length below 10^9: '#', one digit giving the number of length digits (1..9), the decimal
byte count; the 12-byte scratch buffer is large enough; the announced length is remembered -/
theorem header_spec (o : Out) (n : Nat) (hn : n < 10^9) :
    let o' := resultBlockHeader o n
    emitted o o' = sepOf o ++ [35, UInt8.ofNat (48 + (decimal n).length)] ++ decimal n ∧
    1 ≤ (decimal n).length ∧ (decimal n).length ≤ 9 ∧ 2 + (decimal n).length + 1 ≤ Gen.bufBlockHeader ∧
    o'.arbRemaining = n ∧ o'.outputCount = (if o.outputCount < 0 then 0 else o.outputCount) :=
  Lemmas.Blocks.header_spec o n hn

/-- a whole block: header for the exact length, then the data unchanged, counted as one item -/
theorem block_spec (o : Out) (d : Bytes) (hd : d.length < 10^9) :
    let o' := resultBlock o d
    emitted o o' = sepOf o ++ encodeBlock d ∧ o'.arbRemaining = 0 ∧
    o'.outputCount = (if o.outputCount < 0 then 0 else o.outputCount) + 1 ∧ o'.pushed = o.pushed :=
  Lemmas.Blocks.block_spec o d hd

/-- streamed data: for every split of the data into chunks that sum to the announced length, the bytes
are the data unchanged and the block counts as one result item, at completion and not before -/
theorem block_stream (o : Out) (chunks : List Bytes) (n : Nat) (hn : n < 10^9) (hsum : chunks.flatten.length = n)
    (hne : ∀ c ∈ chunks, c ≠ []) :
    let o1 := resultBlockHeader o n
    let o' := chunks.foldl resultBlockData o1
    emitted o o' = sepOf o ++ encodeBlock chunks.flatten ∧ o'.arbRemaining = 0 ∧ o'.pushed = o.pushed ∧
    (n > 0 → o'.outputCount = o1.outputCount + 1) ∧
    (∀ k, k < chunks.length → (chunks.take k).flatten.length < n → ((chunks.take k).foldl resultBlockData o1).outputCount = o1.outputCount) :=
  Lemmas.Blocks.block_stream o chunks n hn hsum hne

/-- data beyond the announced length is refused: nothing is written, -310 is raised, the remaining
length and the item count are unchanged -/
theorem over_length_refused (o : Out) (d : Bytes) (h : o.arbRemaining < d.length) :
    let o' := resultBlockData o d
    o'.written = o.written ∧ o'.pushed = o.pushed ++ [-310] ∧ o'.arbRemaining = o.arbRemaining ∧ o'.outputCount = o.outputCount :=
  Lemmas.Blocks.over_length_refused o d h

/-- big-endian / little-endian encoding of an element given in host order -/
def wire (hostLittle : Bool) (wantLittle : Bool) (e : Bytes) : Bytes := if hostLittle == wantLittle then e else e.reverse

/-- binary arrays, for BOTH host byte orders: `elems` are the elements as stored in host memory,
`sameOrder` says whether the requested format is the host's; the block holds every element in the
requested order, and counts as one item (also when the array is empty) -/
theorem array_binary (o : Out) (elems : List Bytes) (sz : Nat) (hsz : sz = 1 ∨ sz = 2 ∨ sz = 4 ∨ sz = 8)
    (hel : ∀ e ∈ elems, e.length = sz) (hlen : elems.length * sz < 10^9) (hostLittle wantLittle : Bool) :
    let o' := resultArrayBinary o elems sz (hostLittle == wantLittle)
    emitted o o' = sepOf o ++ encodeBlock (elems.flatMap (wire hostLittle wantLittle)) ∧
    o'.outputCount = (if o.outputCount < 0 then 0 else o.outputCount) + 1 ∧ o'.arbRemaining = 0 ∧ o'.pushed = o.pushed :=
  Lemmas.Blocks.array_binary o elems sz hsz hel hlen hostLittle wantLittle

/-- an unsupported element size raises -310 and writes nothing -/
theorem array_bad_size (o : Out) (elems : List Bytes) (sz : Nat) (same : Bool) (h : ¬(sz = 1 ∨ sz = 2 ∨ sz = 4 ∨ sz = 8)) :
    (resultArrayBinary o elems sz same).written = o.written ∧ (resultArrayBinary o elems sz same).pushed = o.pushed ++ [-310] :=
  Lemmas.Blocks.array_bad_size o elems sz same h

-- non-vacuity: two 16-bit elements 0x0102, 0x0304 on a little-endian host, big-endian requested
example : emitted {} (resultArrayBinary {} [[2, 1], [4, 3]] 2 false) = [35, 49, 52, 1, 2, 3, 4] := by decide +kernel
example : emitted {} (resultArrayBinary {} [] 4 false) = [35, 49, 48] ∧ (resultArrayBinary {} [] 4 false).outputCount = 1 := by decide +kernel

end ScpiVerif.Props.C17
