/- C17 — placeholder until the theorems are in; not claimed in MANIFEST.json while this comment stands. -/
import ScpiVerif.Model.Result
import ScpiVerif.Spec.Message
namespace ScpiVerif.Props.C17
end ScpiVerif.Props.C17
