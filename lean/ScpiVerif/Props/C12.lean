/-
C12 — Events are classified, latched and announced as IEEE 488.2 / SCPI prescribe.
Property theorems only; helper lemmas in ScpiVerif/Lemmas/Regs.lean.
-/
import ScpiVerif.Model.Regs
import ScpiVerif.Lemmas.Regs
import ScpiVerif.Props.C11

namespace ScpiVerif.Props.C12
open ScpiVerif ScpiVerif.Regs ScpiVerif.Props.C11

/-- the GENERATED class table classifies every 16-bit code as the standard prescribes -/
theorem class_bit (code : Int) (h : -32768 ≤ code ∧ code ≤ 32767) :
    classBits Gen.errClassTable code = specClassBit code := Lemmas.Regs.class_bit code h

/-- a queued error sets exactly the bit of its class in the standard event register -/
theorem push_sets_exactly_class_bit (s : St) (code : Int) (hwf : WF s) (h : -32768 ≤ code ∧ code ≤ 32767) :
    get (errPush s code) ESR = get s ESR ||| specClassBit code := Lemmas.Regs.push_sets_class_bit s code hwf h

/-- a 0→1 change of a condition bit latches the same bit in the event register -/
theorem cond_latches_oper (s : St) (v : Reg) (hwf : WF s) :
    get (regSet s OPERC v) OPER = get s OPER ||| (v &&& ~~~(get s OPERC)) ∧ get (regSet s OPERC v) OPERC = v :=
  Lemmas.Regs.cond_latches_oper s v hwf
theorem cond_latches_ques (s : St) (v : Reg) (hwf : WF s) :
    get (regSet s QUESC v) QUES = get s QUES ||| (v &&& ~~~(get s QUESC)) ∧ get (regSet s QUESC v) QUESC = v :=
  Lemmas.Regs.cond_latches_ques s v hwf

/-- operations defined to clear (bits of) event register `ev` -/
def clears (ev : Nat) : Op → Bool
  | .set n _ => n == ev
  | .clearBits n _ => n == ev
  | .cls => true
  | .esrQ => ev == ESR
  | .operQ => ev == OPER
  | .quesQ => ev == QUES
  | .preset => ev == QUES
  | _ => false

/-- event bits stay set under every other operation -/
theorem event_monotone (s : St) (op : Op) (ev : Nat) (hev : ev = ESR ∨ ev = OPER ∨ ev = QUES)
    (hwf : WF s) (hop : op.ok = true) (hnc : clears ev op = false) :
    get s ev &&& ~~~(get (step s op) ev) = 0 := Lemmas.Regs.event_monotone s op ev hev hwf hop hnc

/-- single register write: the service-request callback fires at most once, only with MSS set in the
value passed, the value passed is the status byte after the write, and it fires whenever MSS rises -/
theorem srq_regset (s : St) (name : Nat) (v : Reg) (hwf : WF s) (hc : Coherent s) :
    let s' := regSet s name v
    (s'.srq = s.srq ∨ (s'.srq = s.srq ++ [get s' STB] ∧ mss s' = true)) ∧
    (mss s = false → mss s' = true → s'.srq = s.srq ++ [get s' STB]) :=
  Lemmas.Regs.srq_regset s name v hwf hc

/-- every operation: callbacks are appended only, each carries MSS, and a rise of MSS across the
operation implies at least one callback -/
theorem srq_step (s : St) (op : Op) (hwf : WF s) (hc : Coherent s) (hop : op.ok = true) :
    ∃ new, (step s op).srq = s.srq ++ new ∧ (∀ v ∈ new, v &&& stbSRQ ≠ 0) ∧
      (mss s = false → mss (step s op) = true → new ≠ []) :=
  Lemmas.Regs.srq_step s op hwf hc hop

-- non-vacuity
example : (([Op.set SRE 0x20, .set ESE 0x20, .errPush (-100)].foldl step (St.init 2)).srq) = [0x60#16, 0x64#16] ∨
          (([Op.set SRE 0x20, .set ESE 0x20, .errPush (-100)].foldl step (St.init 2)).srq) = [0x60#16] := by decide

end ScpiVerif.Props.C12
