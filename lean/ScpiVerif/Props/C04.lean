/- C04 — placeholder until the theorems are in; not claimed in MANIFEST.json while this comment stands. -/
import ScpiVerif.Model.Ctx
import ScpiVerif.Spec.Float
namespace ScpiVerif.Props.C04
end ScpiVerif.Props.C04
