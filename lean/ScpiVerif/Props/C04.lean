/-
C04 — Numeric parameters decode to the value their literal denotes.
Property theorems only; helper lemmas in ScpiVerif/Lemmas/Numeric.lean.

PARTIAL (DESIGN.md section 7/C04): proved are (a) which text the readers hand to the C library's
conversion functions, (b) the exact integer values (the strto* specification of Model/Prim.lean
computes them), (c) everything about the generated unit and special-number tables.  That the C
library's strtod / strtof round correctly is trusted (and compared bit-exactly against
Spec/Float.lean on every run).  Known finding: white space that 488.2 allows inside a literal (before
the exponent, after its E) ends the conversion early — `conversion_sees_literal` is therefore proved
only for literals without inner white space and `conversion_counterexample` shows the failure.
Second finding: strtod also recognises hexadecimal floating constants, so for the text "0x1" it converts
three bytes (value 1) although the lexer delimits the literal "0" (and the suffix "x1"); hence the
hypothesis `hx` of `conversion_sees_literal_partial` (witness: `Lemmas.Numeric.hexfloat_counterexample`).
In the parser this text is a DECIMAL_NUMERIC_PROGRAM_DATA_WITH_SUFFIX token whose suffix starts with
x/X; no row of the generated unit table starts with that letter, so the readers discard the mis-converted
value together with the error they report (-131 from SCPI_ParamNumber, -138 from the plain readers).
-/
import ScpiVerif.Model.Ctx
import ScpiVerif.Spec.Float
import ScpiVerif.Spec.Params
import ScpiVerif.Props.C13
import ScpiVerif.Lemmas.Numeric

namespace ScpiVerif.Props.C04
open ScpiVerif ScpiVerif.Lexer ScpiVerif.Spec

/-- the decimal literal at the start of `s` as the token specification delimits it -/
def literalAt (s : Bytes) : Option Bytes := (specToken .decimal s).map (fun e => s.take e.consumed)

/-
NOT YET PROVED (false, see conversion_counterexample): for EVERY decimal literal `t` delimited by the lexer
in `mem` at `off`, the prefix strtod converts is `t`:   Prim.strtodLen mem off = t.length

NOT YET PROVED (false as well, see Lemmas.Numeric.hexfloat_counterexample: mem = "0x1", off = 0, t = "0",
strtodLen = 3): the same for every literal WITHOUT inner white space and without the hypothesis `hx` below:
    theorem conversion_sees_literal_nows (mem : Bytes) (off : Nat) (t : Bytes)
        (h : literalAt (mem.drop off) = some t) (hws : ∀ b ∈ t, b ≠ 32 ∧ b ≠ 9) :
        Prim.strtodLen mem off = t.length
-/

/-- the conversion sees the whole literal: for a literal without inner white space, whatever follows it in
memory, strtod / strtof convert exactly the token the lexer delimited — with one exception that `hx` excludes:
strtod reads "0x<hex digit>" / "0x.<hex digit>" as a hexadecimal floating constant, so when the literal is a
(signed) single "0" the byte after it must not be 'x' / 'X'.  (After any other literal an 'x' is harmless.) -/
theorem conversion_sees_literal_partial (mem : Bytes) (off : Nat) (t : Bytes)
    (h : literalAt (mem.drop off) = some t) (hws : ∀ b ∈ t, b ≠ 32 ∧ b ≠ 9)
    (hx : (t = [48] ∨ t = [43, 48] ∨ t = [45, 48]) →
      ∀ b, (mem.drop (off + t.length)).head? = some b → b ≠ 120 ∧ b ≠ 88) :
    Prim.strtodLen mem off = t.length := Lemmas.Numeric.conversion_sees_literal_partial mem off t h hws hx

/-- …and the converted text denotes a number (so that Spec/Float.lean gives its correctly rounded value) -/
theorem literal_has_value (s t : Bytes) (h : literalAt s = some t) : (Spec.Float.litValue t).isSome = true :=
  Lemmas.Numeric.literal_has_value s t h

/-- the failure: "1 E3" is one literal for the lexer (value 1000) but strtod converts only "1" -/
theorem conversion_counterexample :
    literalAt [49, 32, 69, 51] = some [49, 32, 69, 51] ∧ Prim.strtodLen [49, 32, 69, 51] 0 = 1 ∧
    Spec.Float.litValue [49, 32, 69, 51] = some (false, 1000, 1) := by decide +kernel

/-- decimal integer literals (optional sign, digits) in range decode exactly, in all four widths -/
theorem integer_exact_signed (w : Nat) (hw : w = 32 ∨ w = 64) (mem : Bytes) (off : Nat) (t : Bytes) (v : Int)
    (ht : Params.intLiteral t = some v) (hin : (mem.drop off).take t.length = t)
    (hnext : ∀ b, (mem.drop (off + t.length)).head? = some b → ¬ (48 ≤ b ∧ b ≤ 57))
    (hr : -(2^(w-1) : Int) ≤ v ∧ v < 2^(w-1)) :
    Prim.strtolTo w mem off 10 = (t.length, v) := Lemmas.Numeric.integer_exact_signed w hw mem off t v ht hin hnext hr

theorem integer_exact_unsigned (w : Nat) (hw : w = 32 ∨ w = 64) (mem : Bytes) (off : Nat) (t : Bytes) (v : Int)
    (ht : Params.intLiteral t = some v) (hin : (mem.drop off).take t.length = t)
    (hnext : ∀ b, (mem.drop (off + t.length)).head? = some b → ¬ (48 ≤ b ∧ b ≤ 57))
    (hr : 0 ≤ v ∧ v < 2^w) :
    Prim.strtoulTo w mem off 10 = (t.length, v.toNat) := Lemmas.Numeric.integer_exact_unsigned w hw mem off t v ht hin hnext hr

/-- #H / #Q / #B digits up to the type width decode exactly -/
theorem nondecimal_exact (w : Nat) (hw : w = 32 ∨ w = 64) (ty : TokType) (base : Nat)
    (hb : (ty = .hexnum ∧ base = 16) ∨ (ty = .octnum ∧ base = 8) ∨ (ty = .binnum ∧ base = 2))
    (mem : Bytes) (off : Nat) (ds : Bytes) (hds : ds ≠ [])
    (hdig : ∀ b ∈ ds, match Prim.digitVal b with | some d => d < base | none => False)
    (hin : (mem.drop off).take ds.length = ds)
    (hnext : ∀ b, (mem.drop (off + ds.length)).head? = some b → (match Prim.digitVal b with | some d => ¬ d < base | none => True) ∧ b ≠ 120 ∧ b ≠ 88)
    (hr : Params.nondecimalValue ty ds < 2^w) :
    Prim.strtoulTo w mem off base = (ds.length, Params.nondecimalValue ty ds) :=
  Lemmas.Numeric.nondecimal_exact w hw ty base hb mem off ds hds hdig hin hnext hr

/-! ### the unit table (GENERATED from units.c) -/

/-- no two unit names are equal ignoring case -/
theorem unit_names_distinct :
    ∀ i j, i < Gen.unitsDef.length → j < Gen.unitsDef.length → i ≠ j →
      Pattern.ciEq (Gen.unitsDef[i]!).1.toUTF8.toList (Gen.unitsDef[j]!).1.toUTF8.toList = false :=
  Lemmas.Numeric.unit_names_distinct

/-- every unit name is consumed whole by the suffix recogniser (so `<number><name>` and `<number> <name>` lex as one token) -/
theorem unit_names_lex_whole :
    ∀ u ∈ Gen.unitsDef, (Lexer.lexSuffix u.1.toUTF8.toList 0).2.2 = u.1.toUTF8.toList.length :=
  Lemmas.Numeric.unit_names_lex_whole

/-- any casing of a unit name resolves to that row: unit tag and multiplier -/
theorem translateUnit_finds (s : Bytes) (u : String × Nat × Nat × Nat) (hu : u ∈ Gen.unitsDef)
    (hs : Pattern.ciEq s u.1.toUTF8.toList = true) :
    Ctx.translateUnit s = some (u.2.1, u.2.2.1, u.2.2.2) := Lemmas.Numeric.translateUnit_finds s u hu hs

/-- IEEE 488.2 table 7-2 prefixes: (name, power of ten) -/
def siPrefixes : List (String × Int) :=
  [("EX", 18), ("PE", 15), ("T", 12), ("G", 9), ("MA", 6), ("K", 3), ("M", -3), ("U", -6), ("N", -9), ("P", -12), ("F", -15), ("A", -18)]

/-- rows the prefix rule does not explain, with their physical multipliers (numerator, denominator) -/
def listedRows : List (String × Nat × Nat) :=
  [("MNT", 1, 60), ("SEC", 1, 3600), ("MG", 1, 1000000), ("G", 1, 1000), ("TNE", 1000, 1), ("PCT", 1, 100), ("PPM", 1, 1000000), ("MIN", 60, 1), ("HR", 3600, 1)]

/-- does the prefix rule explain row (name, unit, num/den)?  name = prefix ++ base name of a multiplier-1 row with the same
unit, multiplier = 10^power, where M means 10^6 before OHM and HZ -/
def explainedByPrefix (row : String × Nat × Nat × Nat) : Bool :=
  Gen.unitsDef.any (fun base =>
    base.2.2.1 == 1 && base.2.2.2 == 1 && base.2.1 == row.2.1 &&
    siPrefixes.any (fun p =>
      row.1 == p.1 ++ base.1 &&
      (let pw : Int := if p.1 == "M" ∧ (base.1 == "OHM" ∨ base.1 == "HZ") then 6 else p.2
       if pw ≥ 0 then row.2.2.1 == 10^pw.toNat && row.2.2.2 == 1 else row.2.2.1 == 1 && row.2.2.2 == 10^(-pw).toNat)))

/-- every row of the generated table has multiplier 1, or is explained by the prefix rule, or is one of the nine listed rows -/
theorem unit_prefix_rule :
    ∀ row ∈ Gen.unitsDef, (row.2.2.1 = 1 ∧ row.2.2.2 = 1) ∨ explainedByPrefix row = true ∨
      listedRows.contains (row.1, row.2.2.1, row.2.2.2) = true :=
  Lemmas.Numeric.unit_prefix_rule

/-- the special mnemonics: every name of the generated table, in short and long form and any case, maps to its tag -/
theorem special_mnemonics (s : Bytes) (p : String × Int) (hp : p ∈ Gen.specialNumbersDef)
    (hs : Params.nameMatches p.1.toUTF8.toList s = true) :
    (Ctx.specialDef.find? (fun o => Ctx.matchName o.1 s)).map (·.2) = some p.2 :=
  Lemmas.Numeric.special_mnemonics s p hp hs

end ScpiVerif.Props.C04
