/-
C11 — The status byte always equals the summary of the registers behind it.
Property theorems only; helper lemmas in ScpiVerif/Lemmas/Regs.lean.
All theorems are about the table-driven model instantiated with the GENERATED register tables.
-/
import ScpiVerif.Model.Regs
import ScpiVerif.Lemmas.Regs
import ScpiVerif.Lemmas.RegsStb

namespace ScpiVerif.Props.C11
open ScpiVerif ScpiVerif.Regs

-- `WF` (well-formed state) is defined in ScpiVerif/Model/Regs.lean (namespace ScpiVerif.Regs)

theorem wf_init (cap : Nat) (h : 1 ≤ cap) : WF (St.init cap) := Lemmas.Regs.wf_init cap h
theorem wf_step (s : St) (op : Op) (h : WF s) : WF (step s op) := Lemmas.Regs.wf_step s op h

theorem coherent_init (cap : Nat) : Coherent (St.init cap) := Lemmas.Regs.coherent_init cap

/-- one-step preservation for every operation of the property's histories, for all 16-bit values -/
theorem coherent_step (s : St) (op : Op) (hwf : WF s) (hc : Coherent s) (hop : op.ok = true) :
    Coherent (step s op) := Lemmas.Regs.coherent_step s op hwf hc hop

/-- Full statement: every state reachable from the initial state by any history of event,
condition, enable and SRE writes, error pushes / pops / clears, *CLS and the clearing queries
is coherent. -/
theorem coherent_reachable (cap : Nat) (hcap : 1 ≤ cap) (ops : List Op) (hops : ∀ op ∈ ops, op.ok = true) :
    Coherent (ops.foldl step (St.init cap)) := by
  suffices h : ∀ (s : St), WF s → Coherent s → Coherent (ops.foldl step s) from
    h _ (wf_init cap hcap) (coherent_init cap)
  induction ops with
  | nil => intro s _ hc; simpa using hc
  | cons op ops ih =>
    intro s hwf hc
    have hop := hops op (by simp)
    exact ih (fun o ho => hops o (by simp [ho])) (step s op) (wf_step s op hwf) (coherent_step s op hwf hc hop)

-- non-vacuity: a history exercising event-before-enable, the case the unrepaired code got wrong
example : Coherent ([Op.set ESR 0x20, .set ESE 0x20, .errPush (-100), .set SRE 0x24, .errPop, .esrQ].foldl step (St.init 2)) := by
  decide
example : get ([Op.set ESR 0x20, .set ESE 0x20].foldl step (St.init 2)) STB = 0x20#16 := by decide

/-! ### Application-owned status-byte bits

`Op.ok` excludes every write to the status byte itself.  The application owns bits 0, 1 and 4 (MAV) of it and
handles them with SCPI_RegSetBits / SCPI_RegClearBits / SCPI_RegSet on SCPI_REG_STB.  The theorems below extend the
histories to such writes: any value may be written as long as the four library-owned summary bits stay as they
are in the state the write is applied to.  Bits 0, 1, 4, bit 6 (MSS, recomputed by SCPI_RegSet) and bits 8..15 of
the 16-bit register are free. -/

/-- the library-owned summary bits of the status byte: QMA, QES, ESB, OPS (from the generated constants) -/
def summaryMask : Reg := bit Gen.STB_QMA ||| bit Gen.STB_QES ||| bit Gen.STB_ESR ||| bit Gen.STB_OPS

theorem summaryMask_eq : summaryMask = 0xAC#16 := by decide

/-- operations of the wider histories: everything `Op.ok` allows, plus writes to the status byte that leave the
summary bits as they are in the state `s` they are applied to:
`set` — the value has the summary bits of the current status byte;
`setBits` — the summary bits among the bits to set are already set;
`clearBits` — none of the summary bits among the bits to clear is set.
(For each of the three this is exactly "the write leaves the summary bits as they are", see `coherent_stb_write_iff`.) -/
def _root_.ScpiVerif.Regs.Op.okIn (s : St) : Op → Bool
  | .set n v => n != STB || (v &&& summaryMask) == (get s STB &&& summaryMask)
  | .setBits n v => n != STB || ((v &&& summaryMask) &&& ~~~(get s STB)) == 0
  | .clearBits n v => n != STB || ((v &&& summaryMask) &&& get s STB) == 0
  | _ => true

/-- every operation of the narrower histories is one of the wider ones, in any state -/
theorem okIn_of_ok (s : St) (op : Op) (h : op.ok = true) : op.okIn s = true := by
  cases op <;> simp_all [Op.ok, Op.okIn]

/-- one-step preservation for the wider histories, for all 16-bit values -/
theorem coherent_step_app (s : St) (op : Op) (hwf : WF s) (hc : Coherent s) (hop : op.okIn s = true) :
    Coherent (step s op) := by
  have L := Lemmas.Regs.wfLen hwf
  cases op with
  | set n v =>
    by_cases hn : n = STB
    · subst hn
      have h : v &&& summaryMask = get s STB &&& summaryMask := by simpa [Op.okIn] using hop
      rw [summaryMask_eq] at h
      exact Lemmas.RegsStb.coherent_set_stb s v L hc h
    · exact coherent_step s _ hwf hc (by simpa [Op.ok] using hn)
  | setBits n v =>
    by_cases hn : n = STB
    · subst hn
      have h : (v &&& summaryMask) &&& ~~~(get s STB) = 0 := by simpa [Op.okIn] using hop
      rw [summaryMask_eq] at h
      exact (Lemmas.RegsStb.coherent_setBits_stb_iff s v L hc).2 h
    · exact coherent_step s _ hwf hc (by simpa [Op.ok] using hn)
  | clearBits n v =>
    by_cases hn : n = STB
    · subst hn
      have h : (v &&& summaryMask) &&& get s STB = 0 := by simpa [Op.okIn] using hop
      rw [summaryMask_eq] at h
      exact (Lemmas.RegsStb.coherent_clearBits_stb_iff s v L hc).2 h
    · exact coherent_step s _ hwf hc (by simpa [Op.ok] using hn)
  | _ => exact coherent_step s _ hwf hc rfl

/-- the condition of `Op.okIn` on status-byte writes cannot be weakened: in a coherent state a write to the status
byte keeps the state coherent exactly when `Op.okIn` allows it -/
theorem coherent_stb_write_iff (s : St) (v : Reg) (hwf : WF s) (hc : Coherent s) :
    (Coherent (step s (.set STB v)) ↔ (Op.set STB v).okIn s = true) ∧
    (Coherent (step s (.setBits STB v)) ↔ (Op.setBits STB v).okIn s = true) ∧
    (Coherent (step s (.clearBits STB v)) ↔ (Op.clearBits STB v).okIn s = true) := by
  have L := Lemmas.Regs.wfLen hwf
  refine ⟨?_, ?_, ?_⟩
  · refine (Lemmas.RegsStb.coherent_regSet_stb_iff s v L hc).trans ?_
    simp [Op.okIn, summaryMask_eq]
  · refine (Lemmas.RegsStb.coherent_setBits_stb_iff s v L hc).trans ?_
    simp [Op.okIn, summaryMask_eq]
  · refine (Lemmas.RegsStb.coherent_clearBits_stb_iff s v L hc).trans ?_
    simp [Op.okIn, summaryMask_eq]

/-- what a direct SCPI_RegSet leaves in the status byte of a coherent state: the written value with bit 6 (MSS)
recomputed from the other bits and SRE, whatever bit 6 of the written value was -/
theorem stb_after_set (s : St) (v : Reg) (hwf : WF s) (hc : Coherent s) :
    get (step s (.set STB v)) STB =
      if (v &&& ~~~bit Gen.STB_SRQ) &&& (get s SRE &&& ~~~bit Gen.STB_SRQ) ≠ 0 then v ||| bit Gen.STB_SRQ
      else v &&& ~~~bit Gen.STB_SRQ :=
  (Lemmas.RegsStb.regSet_stb_value s v (Lemmas.Regs.wfLen hwf) hc).1

/-- every operation of the history is allowed by `Op.okIn` in the state it is applied to -/
def OkHist : St → List Op → Prop
  | _, [] => True
  | s, op :: ops => op.okIn s = true ∧ OkHist (step s op) ops

instance instDecidableOkHist : (s : St) → (ops : List Op) → Decidable (OkHist s ops)
  | _, [] => isTrue trivial
  | s, op :: ops =>
    have := instDecidableOkHist (step s op) ops
    inferInstanceAs (Decidable (op.okIn s = true ∧ OkHist (step s op) ops))

/-- the histories of `coherent_reachable` are histories of `coherent_reachable_app`, from any state -/
theorem okHist_of_ok (s : St) (ops : List Op) (h : ∀ op ∈ ops, op.ok = true) : OkHist s ops := by
  induction ops generalizing s with
  | nil => trivial
  | cons op ops ih =>
    exact ⟨okIn_of_ok s op (h op (by simp)), ih (step s op) (fun o ho => h o (by simp [ho]))⟩

/-- Full statement for the wider histories: every state reachable from the initial state by any history of the
operations of `coherent_reachable` and of application writes to the status byte that keep the summary bits is
coherent. -/
theorem coherent_reachable_app (cap : Nat) (hcap : 1 ≤ cap) (ops : List Op) (hops : OkHist (St.init cap) ops) :
    Coherent (ops.foldl step (St.init cap)) := by
  suffices h : ∀ (s : St), WF s → Coherent s → OkHist s ops → Coherent (ops.foldl step s) from
    h _ (wf_init cap hcap) (coherent_init cap) hops
  clear hops
  induction ops with
  | nil => intro s _ hc _; simpa using hc
  | cons op ops ih =>
    intro s hwf hc hh
    exact ih (step s op) (wf_step s op hwf) (coherent_step_app s op hwf hc hh.1) hh.2

-- non-vacuity: MAV enabled in SRE and set by the application, then the status byte rewritten with bit 6 cleared by
-- the caller: bit 6 comes back (0x50)
example : OkHist (St.init 2) [Op.set SRE 0x10, .setBits STB 0x10, .set STB 0x10] := by decide
example : get ([Op.set SRE 0x10, .setBits STB 0x10, .set STB 0x10].foldl step (St.init 2)) STB = 0x50#16 := by decide
example : Coherent ([Op.set SRE 0x10, .setBits STB 0x10, .set STB 0x10].foldl step (St.init 2)) := by decide
-- bit 6 passed as 1 while no enabled bit is set: it comes out 0
example : OkHist (St.init 2) [Op.set SRE 0x02, .set STB 0x51] ∧
    get ([Op.set SRE 0x02, .set STB 0x51].foldl step (St.init 2)) STB = 0x11#16 := by decide
-- summary bits next to application bits, SRE and the status byte with bits above 7, MAV cleared again
example : OkHist (St.init 2) [Op.errPush (-100), .set SRE 0x8110, .set STB 0x8115, .clearBits STB 0x8010, .setBits STB 0x0004,
      .clearBits STB 0x0100] ∧
    (([Op.errPush (-100), .set SRE 0x8110, .set STB 0x8115].foldl step (St.init 2)).regs.take 2 = [0x8155#16, 0x8110#16]) ∧
    get ([Op.errPush (-100), .set SRE 0x8110, .set STB 0x8115, .clearBits STB 0x8010, .setBits STB 0x0004,
      .clearBits STB 0x0100].foldl step (St.init 2)) STB = 0x0005#16 := by decide
-- writes that touch a summary bit are not allowed
example : ¬ OkHist (St.init 2) [Op.setBits STB 0x04] ∧ ¬ OkHist (St.init 2) [Op.errPush (-100), .clearBits STB 0x04] ∧
    ¬ OkHist (St.init 2) [Op.errPush (-100), .set STB 0x10] := by decide

end ScpiVerif.Props.C11
