/-
C11 — The status byte always equals the summary of the registers behind it.
Property theorems only; helper lemmas in ScpiVerif/Lemmas/Regs.lean.
All theorems are about the table-driven model instantiated with the GENERATED register tables.
-/
import ScpiVerif.Model.Regs
import ScpiVerif.Lemmas.Regs

namespace ScpiVerif.Props.C11
open ScpiVerif ScpiVerif.Regs

-- `WF` (well-formed state) is defined in ScpiVerif/Model/Regs.lean (namespace ScpiVerif.Regs)

theorem wf_init (cap : Nat) (h : 1 ≤ cap) : WF (St.init cap) := Lemmas.Regs.wf_init cap h
theorem wf_step (s : St) (op : Op) (h : WF s) : WF (step s op) := Lemmas.Regs.wf_step s op h

theorem coherent_init (cap : Nat) : Coherent (St.init cap) := Lemmas.Regs.coherent_init cap

/-- one-step preservation for every operation of the property's histories, for all 16-bit values -/
theorem coherent_step (s : St) (op : Op) (hwf : WF s) (hc : Coherent s) (hop : op.ok = true) :
    Coherent (step s op) := Lemmas.Regs.coherent_step s op hwf hc hop

/-- Full statement: every state reachable from the initial state by any history of event,
condition, enable and SRE writes, error pushes / pops / clears, *CLS and the clearing queries
is coherent. -/
theorem coherent_reachable (cap : Nat) (hcap : 1 ≤ cap) (ops : List Op) (hops : ∀ op ∈ ops, op.ok = true) :
    Coherent (ops.foldl step (St.init cap)) := by
  suffices h : ∀ (s : St), WF s → Coherent s → Coherent (ops.foldl step s) from
    h _ (wf_init cap hcap) (coherent_init cap)
  induction ops with
  | nil => intro s _ hc; simpa using hc
  | cons op ops ih =>
    intro s hwf hc
    have hop := hops op (by simp)
    exact ih (fun o ho => hops o (by simp [ho])) (step s op) (wf_step s op hwf) (coherent_step s op hwf hc hop)

-- non-vacuity: a history exercising event-before-enable, the case the unrepaired code got wrong
example : Coherent ([Op.set ESR 0x20, .set ESE 0x20, .errPush (-100), .set SRE 0x24, .errPop, .esrQ].foldl step (St.init 2)) := by
  decide
example : get ([Op.set ESR 0x20, .set ESE 0x20].foldl step (St.init 2)) STB = 0x20#16 := by decide

end ScpiVerif.Props.C11
