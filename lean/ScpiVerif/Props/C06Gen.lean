/-
C06, generated tie — the Lean text translated from the response framing functions of libscpi/src/parser.c on every run
(Gen/ResultC.lean, translate/c2lean_parser.py: writeData, flushData, writeDelimiter, writeNewLine, writeSemicolon,
SCPI_ResultCharacters) refines the hand-written model of Model/Result.lean on its non-ghost projection, and satisfies the
per-call facts the framing theorem (Props/C06.lean `framing`, Lemmas/Framing.lean) rests on.
Property theorems only; helper lemmas in ScpiVerif/Lemmas/ResultC.lean.

This module is an obligation of C06's check whenever the translator ACCEPTS the current parser.c.  When it refuses a function
the tie degrades to the differential correspondence of the hand model (recorded in the evidence, `generated_tie`).

Model of the application (Gen/ResultC.lean, prelude): `interface->write` appends the bytes it is handed to `written` and returns
their number, `interface->flush` increments `flushes`.  `IfaceOK`: the callback table and both callbacks are present.
`cview` / `oview`: (output_count, first_output, written, flushes) of the generated state / of the hand model's `Result.Out`.
-/
import ScpiVerif.Model.Result
import ScpiVerif.Lemmas.ResultC

namespace ScpiVerif.Props.C06Gen
open ScpiVerif ScpiVerif.Gen.ResultC ScpiVerif.Lemmas.ResultC
open ScpiVerif.Lexer (Bytes)

variable {ρ : Type}

/-- a concrete state for the examples: callbacks present, `n` items written so far in this unit, some output already produced -/
def ex (n : Int) (first : Bool) : CCtx Unit :=
  { interface_nonnull := true, interface_write_nonnull := true, interface_flush_nonnull := true, output_count := n,
    first_output := first, written := [49], flushes := 0, ub := false, outOfFuel := false, rest := () }

/-! ### writeData -/

/-- writeData hands exactly the first `len` bytes to the write callback (the hand model's writeData / writeSep), returns `len`,
and adds no undefined behaviour -/
theorem c_writeData (c : CCtx ρ) (o : Result.Out) (d : Bytes) (len : Int) (hv : cview c = oview o) (hi : IfaceOK c)
    (h0 : 0 ≤ len) (h1 : len ≤ d.length) :
    cview (writeData c (some d) len).1 = oview (Result.writeData o (d.take len.toNat)) ∧
    cview (writeData c (some d) len).1 = oview (Result.writeSep o (d.take len.toNat)) ∧
    (writeData c (some d) len).1.ub = c.ub ∧ (writeData c (some d) len).2 = len := writeData_refines c o d len hv hi h0 h1
/-- a NULL pointer or a zero length: the callback is not called -/
theorem c_writeData_nothing (c : CCtx ρ) (p : Option (List UInt8)) (len : Int) (h : p = none ∨ len ≤ 0) :
    writeData c p len = (c, 0) := writeData_nothing c p len h
example : (writeData (ex 0 true) (some [65, 66, 67, 0]) 3).1.written = [49, 65, 66, 67] ∧ (writeData (ex 0 true) (some [65, 66, 67, 0]) 3).2 = 3 ∧
    writeData (ex 0 true) none 3 = (ex 0 true, 0) ∧ writeData (ex 0 true) (some [65]) 0 = (ex 0 true, 0) ∧
    -- more bytes than the object holds: undefined behaviour is flagged
    (writeData (ex 0 true) (some [65]) 2).1.ub = true := by decide

/-! ### writeDelimiter -/

/-- writeDelimiter is the hand model's writeDelimiter -/
theorem c_writeDelimiter (c : CCtx ρ) (o : Result.Out) (hv : cview c = oview o) (hi : IfaceOK c) :
    cview (writeDelimiter c).1 = oview (Result.writeDelimiter o) ∧ (writeDelimiter c).1.ub = c.ub := writeDelimiter_refines c o hv hi
/-- writeDelimiter writes "," iff output_count > 0; ";" and resets the count iff output_count < 0 (separator pending); nothing
iff output_count = 0; it never flushes and never touches first_output -/
theorem c_writeDelimiter_cases (c : CCtx ρ) (hi : IfaceOK c) :
    (0 < c.output_count → (writeDelimiter c).1.written = c.written ++ [44] ∧ (writeDelimiter c).1.output_count = c.output_count) ∧
    (c.output_count < 0 → (writeDelimiter c).1.written = c.written ++ [59] ∧ (writeDelimiter c).1.output_count = 0) ∧
    (c.output_count = 0 → (writeDelimiter c).1.written = c.written ∧ (writeDelimiter c).1.output_count = 0) ∧
    (writeDelimiter c).1.flushes = c.flushes ∧ (writeDelimiter c).1.first_output = c.first_output ∧
    (writeDelimiter c).1.ub = c.ub ∧
    (writeDelimiter c).2 = (if c.output_count = 0 then 0 else 1) := writeDelimiter_cases c hi
example : cview (writeDelimiter (ex 2 false)).1 = (2, false, [49, 44], 0) ∧ cview (writeDelimiter (ex (-1) false)).1 = (0, false, [49, 59], 0) ∧
    cview (writeDelimiter (ex 0 true)).1 = (0, true, [49], 0) ∧ (writeDelimiter (ex 2 false)).2 = 1 ∧ (writeDelimiter (ex 0 true)).2 = 0 ∧
    (writeDelimiter (ex (-1) false)).1.ub = false := by decide

/-! ### writeNewLine, flushData, writeSemicolon -/

/-- writeNewLine is the hand model's writeNewLine -/
theorem c_writeNewLine (c : CCtx ρ) (o : Result.Out) (hv : cview c = oview o) (hi : IfaceOK c) :
    cview (writeNewLine c).1 = oview (Result.writeNewLine o) ∧ (writeNewLine c).1.ub = c.ub := writeNewLine_refines c o hv hi
/-- writeNewLine writes the line ending (the generated constant of Gen/Tables.lean) and flushes exactly once iff first_output
is false; otherwise it does nothing -/
theorem c_writeNewLine_cases (c : CCtx ρ) (hi : IfaceOK c) :
    (c.first_output = false → (writeNewLine c).1.written = c.written ++ Result.bytesOf Gen.LINE_ENDING ∧
      (writeNewLine c).1.flushes = c.flushes + 1) ∧
    (c.first_output = true → (writeNewLine c).1.written = c.written ∧ (writeNewLine c).1.flushes = c.flushes) ∧
    (writeNewLine c).1.output_count = c.output_count ∧ (writeNewLine c).1.first_output = c.first_output ∧
    (writeNewLine c).1.ub = c.ub := writeNewLine_cases c hi
/-- flushData calls the flush callback once when there is one, and is a successful no-op otherwise -/
theorem c_flushData (c : CCtx ρ) (hi : IfaceOK c) :
    (flushData c).1.flushes = c.flushes + 1 ∧ (flushData c).1.written = c.written ∧ (flushData c).1.ub = c.ub ∧
    (flushData c).2 = SCPI_RES_OK := flushData_present c hi
theorem c_flushData_absent (c : CCtx ρ) (h : c.interface_nonnull = false ∨ c.interface_flush_nonnull = false) :
    flushData c = (c, SCPI_RES_OK) := flushData_absent c h
/-- writeSemicolon: ';' iff output_count > 0 -/
theorem c_writeSemicolon (c : CCtx ρ) (hi : IfaceOK c) :
    (writeSemicolon c).1.written = (if 0 < c.output_count then c.written ++ [59] else c.written) ∧
    (writeSemicolon c).1.output_count = c.output_count ∧ (writeSemicolon c).1.flushes = c.flushes ∧
    (writeSemicolon c).1.ub = c.ub := writeSemicolon_cases c hi
example : cview (writeNewLine (ex 1 false)).1 = (1, false, [49, 13, 10], 1) ∧ (writeNewLine (ex 1 false)).2 = 2 ∧
    writeNewLine (ex 0 true) = (ex 0 true, 0) ∧
    -- no flush callback: the line ending is written, nothing is flushed
    cview (writeNewLine { ex 1 false with interface_flush_nonnull := false }).1 = (1, false, [49, 13, 10], 0) ∧
    (writeSemicolon (ex 1 false)).1.written = [49, 59] ∧ (writeSemicolon (ex 0 false)).1.written = [49] := by decide

/-! ### SCPI_ResultCharacters -/

/-- SCPI_ResultCharacters(context, data, len) is the hand model's resultCharacters of the first `len` bytes, as long as the item
counter is below the maximum of its C type -/
theorem c_resultCharacters (c : CCtx ρ) (o : Result.Out) (d : Bytes) (len : Int) (hv : cview c = oview o) (hi : IfaceOK c)
    (hc : CountOK c) (h0 : 0 ≤ len) (h1 : len ≤ d.length) :
    cview (SCPI_ResultCharacters c (some d) len).1 = oview (Result.resultCharacters o (d.take len.toNat)) ∧
    (SCPI_ResultCharacters c (some d) len).1.ub = c.ub := resultCharacters_refines c o d len hv hi hc h0 h1
theorem c_resultCharacters_null (c : CCtx ρ) (o : Result.Out) (len : Int) (hv : cview c = oview o) (hi : IfaceOK c) (hc : CountOK c) :
    cview (SCPI_ResultCharacters c none len).1 = oview (Result.resultCharacters o []) ∧
    (SCPI_ResultCharacters c none len).1.ub = c.ub := resultCharacters_null c o len hv hi hc
/-- the only undefined case of the function itself: the increment of a counter that is at the maximum of its type -/
theorem c_resultCharacters_overflow (c : CCtx ρ) (p : Option (List UInt8)) (len : Int) (h : c.output_count = 9223372036854775807) :
    (SCPI_ResultCharacters c p len).1.ub = true := resultCharacters_overflow c p len h
/-- hence along a unit: three items after a pending separator come out as ";A,BC,D" with the counter at 3 -/
example :
    let c1 := (SCPI_ResultCharacters (ex (-1) false) (some [65, 0]) 1).1
    let c2 := (SCPI_ResultCharacters c1 (some [66, 67, 0]) 2).1
    let c3 := (SCPI_ResultCharacters c2 (some [68, 0]) 1)
    cview c3.1 = (3, false, [49, 59, 65, 44, 66, 67, 44, 68], 0) ∧ c3.2 = 2 ∧ c3.1.ub = false := by decide

end ScpiVerif.Props.C06Gen
