/-
C01 — No out-of-bounds access, undefined behaviour or hang on any input stream.
Property theorems only; helper lemmas in ScpiVerif/Lemmas/Bounds.lean.

PARTIAL BY NATURE (DESIGN.md section 7/C01): the theorems below show that the algorithm as modelled
keeps every cursor, token extent, copy and loop inside its bounds and terminates, for all inputs.
A C-level out-of-bounds read caused by a broken check-then-read pair (the model fuses
`!iseos && p(pos[0])` into one primitive), signed overflow, or libc reading past a token cannot be
exhibited by the model; those are the sanitizer's business (ASan + UBSan + the buffer-tail
poisoning hook under the correspondence generators), which is testing and labelled so.
-/
import ScpiVerif.Model.Ctx
import ScpiVerif.Props.C13
import ScpiVerif.Lemmas.Bounds
import ScpiVerif.Lemmas.FieldWidths

namespace ScpiVerif.Props.C01
open ScpiVerif ScpiVerif.Lexer ScpiVerif.Parser ScpiVerif.Ctx

/-- every recogniser leaves the cursor inside its input and never moves it backwards
(corollary of the C13 theorems; the block recogniser included, whose C cursor transiently runs past
the end) -/
theorem lex_bounds (buf : Bytes) (pos : Nat) (h : pos ≤ buf.length) :
    ∀ r ∈ [lexWhiteSpace buf pos, lexProgramHeader buf pos, lexCharacterProgramData buf pos, lexDecimal buf pos,
           lexSuffix buf pos, lexNondecimal buf pos, lexString buf pos, lexBlock buf pos, lexExpression buf pos,
           lexComma buf pos, lexSemicolon buf pos, lexColon buf pos, lexNewLine buf pos, parseProgramData buf pos],
      pos ≤ r.1 ∧ r.1 ≤ buf.length ∧ 0 ≤ r.2.2 ∧ r.2.1.ptr + r.2.1.len.toNat ≤ buf.length :=
  Lemmas.Bounds.lex_bounds buf pos h

/-- the unit detector always makes progress on non-empty input and never leaves it: the unit loop of
SCPI_Parse and the scan loop of SCPI_Input terminate for every buffer content -/
theorem detect_progress (s : Bytes) :
    (detectUnit s).consumed ≤ s.length ∧ (s ≠ [] → 1 ≤ (detectUnit s).consumed) :=
  ⟨(Props.C13.unit_spec s).2.2.2.2.1, (Props.C13.unit_spec s).2.2.2.2.2⟩

-- `WF` (well-formed context: the buffer object has its declared length, the write position is inside,
-- no modelled out-of-bounds access so far) is defined in Model/Ctx.lean: `ScpiVerif.Ctx.WF`.

/-- SCPI_Parse on a message inside the buffer terminates without exhausting its step budget, never
composes a header before the start of the buffer, and modifies no byte outside the message -/
theorem parse_inside (c : Ctx) (base len : Nat) (hb : base + len ≤ c.buf.length) (ho : c.oob = false) :
    let c' := (parse c base len).1
    c'.oob = false ∧ c'.buf.length = c.buf.length ∧
    c'.buf.take base = c.buf.take base ∧ c'.buf.drop (base + len) = c.buf.drop (base + len) :=
  Lemmas.Bounds.parse_inside c base len hb ho

/-- "The same holds when a complete NUL-terminated line is handed straight to the line parser": SCPI_Parse on a line in an
object of its own (len + 1 bytes) terminates within its step budget, composes no header before the start of the object,
keeps the object's size, leaves the terminating NUL (and whatever follows the line) alone, and does not touch the
context's input buffer -/
theorem parse_line_inside (c : Ctx) (line : Bytes) (ho : c.oob = false) :
    let r := parseLine c line
    r.1.oob = false ∧ r.2.1.length = line.length + 1 ∧ r.2.1.drop line.length = [0] ∧
    r.1.buf = c.buf ∧ r.1.bufLen = c.bufLen ∧ r.1.position = c.position := by
  have h := parse_inside { c with buf := line ++ [0], bufLen := line.length + 1, position := 0 } 0 line.length
    (by simp) (by simpa using ho)
  simp only [parseLine]
  refine ⟨h.1, by simpa using h.2.1, by simpa using h.2.2.2, ?_⟩
  simp

/-- and along every sequence of lines on one context -/
theorem parse_lines_inside (c : Ctx) (lines : List Bytes) (ho : c.oob = false) :
    (lines.foldl (fun c l => (parseLine c l).1) c).oob = false ∧
    (lines.foldl (fun c l => (parseLine c l).1) c).buf = c.buf := by
  induction lines generalizing c with
  | nil => exact ⟨ho, rfl⟩
  | cons l ls ih =>
    have h := parse_line_inside c l ho
    have := ih (parseLine c l).1 h.1
    exact ⟨this.1, this.2.trans h.2.2.2.1⟩

-- on literal bytes: "TEST:A;B" handed to the line parser runs both handlers; the second header is composed in place
-- ("TETEST:B" + NUL), inside the 9-byte object
example :
    let c0 := Ctx.init [⟨[84, 69, 83, 84, 58, 65], 1, [.iTag]⟩, ⟨[84, 69, 83, 84, 58, 66], 2, [.iTag]⟩] [] 16 4 true
    let r := parseLine c0 [84, 69, 83, 84, 58, 65, 59, 66]
    r.2.1 = [84, 69, 84, 69, 83, 84, 58, 66, 0] ∧ r.2.2 = true ∧ r.1.oob = false ∧
    r.1.events = [Ev.parseMsg [84, 69, 83, 84, 58, 65, 59, 66], Ev.handler 1 [84, 69, 83, 84, 58, 65], Ev.tag 1,
                  Ev.handler 2 [84, 69, 83, 84, 58, 66], Ev.tag 2] := by decide +kernel

/-- SCPI_Input keeps the context well formed for every chunk, including zero-length and over-long ones -/
theorem input_wf (c : Ctx) (data : Bytes) (h : WF c) : WF (input c data) := Lemmas.Bounds.input_wf c data h

/-- hence along every history of input calls -/
theorem inputs_wf (c : Ctx) (chunks : List Bytes) (h : WF c) : WF (chunks.foldl input c) := by
  induction chunks generalizing c with
  | nil => simpa using h
  | cons d ds ih => exact ih (input c d) (input_wf c d h)

/-- an over-long chunk copies nothing: the buffer is invalidated and -363 is queued -/
theorem overrun_copies_nothing (c : Ctx) (data : Bytes) (h : WF c) (hd : data ≠ [])
    (hover : data.length + 1 > c.bufLen - c.position) :
    (input c data).position = 0 ∧ (input c data).buf = c.buf.set 0 0 ∧
    (input c data).events = c.events ++ [Ev.error (-363) none] ++
      (if c.eq.fifo.count = c.eq.fifo.size then [Ev.error (-350) none] else []) ++ [Ev.input false] :=
  Lemmas.Bounds.overrun_copies_nothing c data h hd hover

/-- SCPI_ParamCopyText never stores more than the caller's buffer holds, and the NUL only if a byte remains -/
theorem copyText_bound (tok : Bytes) (q : UInt8) (cap : Nat) :
    (copyText tok q cap).1.length ≤ cap ∧ ((copyText tok q cap).2 = true ↔ (copyText tok q cap).1.length < cap) :=
  Lemmas.Bounds.copyText_bound tok q cap

/-- the array readers store at most the announced number of values -/
theorem paramArr_bound (c : Ctx) (w : Nat) (signed : Bool) (cap : Nat) (mand : Bool) :
    (paramArrInt c w signed cap mand).2.2.length ≤ cap := Lemmas.Bounds.paramArr_bound c w signed cap mand

/-- the bounds theorems above are about unbounded positions and lengths; the C fields holding them (input buffer length / position, token
length, lexer window length, parameter count), as compiled from the current source, are at least 32 bits wide (widths regenerated by the translator on every run) -/
theorem index_fields_wide_enough :
    (Lemmas.FieldWidths.UnsignedAtLeast Gen.fw_ctx_buffer_length 32 ∧ Lemmas.FieldWidths.UnsignedAtLeast Gen.fw_ctx_buffer_position 32) ∧
    (Lemmas.FieldWidths.SignedAtLeast Gen.fw_token_len 32 ∧ Lemmas.FieldWidths.SignedAtLeast Gen.fw_lex_state_len 32 ∧
     Lemmas.FieldWidths.SignedAtLeast Gen.fw_parser_state_numberOfParameters 32) :=
  ⟨Lemmas.FieldWidths.buffer_fields, Lemmas.FieldWidths.lexer_fields⟩

end ScpiVerif.Props.C01
