/-
C13 for the C text as it is now: the theorems of Props/C13.lean restated for the Lean definitions GENERATED from
libscpi/src/lexer.c on every run (Gen/LexerC.lean, translate/c2lean_lexer.py), transferred through the refinement theorems
of Lemmas/LexerC.lean, Lemmas/LexerCTok.lean and Lemmas/LexerCTok2.lean.  Only theorems and examples here.

Reading guide.  `st buf pos` is the C state `{buffer, pos = buffer + pos, len = buf.length}` with both flags clear; the
generated function returns the new state, the token structure (`tk t`: enum value, offset, length) and the C return value.
`c_lex_<name>`: for every buffer, every cursor and any previous content of `*token`, the generated function delivers
exactly what the hand model delivers (`res buf m`: CLEAN state at the model's cursor, the model's token, the model's return
value) and that result is what the token specification prescribes (`Spec.Agrees`, Props/C13.lean).
`c_lex_<name>_no_oob`: on the way, no `state->pos[k]` was evaluated outside `[0, len)` and no loop ran out of fuel.
Because the generated text keeps `!iseos(state)` and the read apart and evaluates `&&` by C's short-circuit rule, the second
family is a theorem about the check-then-read pairs of the C source, which the hand model cannot express (Props/C01.lean).
-/
import ScpiVerif.Props.C13
import ScpiVerif.Lemmas.LexerCTok2

namespace ScpiVerif.Props.C13Gen
open ScpiVerif ScpiVerif.Lexer ScpiVerif.Spec ScpiVerif.Gen.LexerC ScpiVerif.Lemmas.LexerC

/-! ### primitives: end-of-input test, character classes, the `skip*` helpers -/

/-- `iseos` / `scpiLex_IsEos` -/
theorem c_lex_iseos (buf : Bytes) (pos : Nat) :
    (Gen.LexerC.iseos (st buf pos) != 0) = Lexer.iseos buf pos ∧ (scpiLex_IsEos (st buf pos) != 0) = Lexer.iseos buf pos :=
  ⟨iseos_ref buf pos, scpiLex_IsEos_ref buf pos⟩

/-- every character predicate of the generated text, applied to a byte read as a plain `char` (the `<ctype.h>` ones with the
`(uint8_t)` cast the source writes), is the hand model's class - all 256 byte values -/
theorem c_lex_classes (b : UInt8) :
    (isws (sc b) != 0) = isWs b ∧ (isbdigit (sc b) != 0) = isBDigit b ∧ (isqdigit (sc b) != 0) = isQDigit b ∧
    (isplusmn (sc b) != 0) = isPlusMn b ∧ (Gen.LexerC.isE (sc b) != 0) = Lexer.isE b ∧ (isascii7bit (sc b) != 0) = isAscii7 b ∧
    (Gen.LexerC.isProgramExpression (sc b) != 0) = Lexer.isProgramExpression b ∧
    ctype Gen.cc_isdigit (u8 (sc b)) = isDigit b ∧ ctype Gen.cc_isalpha (u8 (sc b)) = isAlpha b ∧
    ctype Gen.cc_isalnum (u8 (sc b)) = isAlnum b ∧ ctype Gen.cc_isxdigit (u8 (sc b)) = isXDigit b :=
  ⟨isws_sc b, isbdigit_sc b, isqdigit_sc b, isplusmn_sc b, isE_sc b, isascii7bit_sc b, isProgramExpression_sc b,
   isdigit_sc b, isalpha_sc b, isalnum_sc b, isxdigit_sc b⟩

/-- the skipping loops: new cursor and counter of the hand model, state clean -/
theorem c_lex_skip_loops (buf : Bytes) (pos : Nat) :
    Gen.LexerC.skipWs (st buf pos) = (st buf (Lexer.skipWs buf pos), (Lexer.skipWs buf pos : Int) - pos) ∧
    Gen.LexerC.skipNumbers (st buf pos) = (st buf (Lexer.skipNumbers buf pos), (Lexer.skipNumbers buf pos : Int) - pos) ∧
    Gen.LexerC.skipAlpha (st buf pos) = (st buf (Lexer.skipAlpha buf pos), (Lexer.skipAlpha buf pos : Int) - pos) ∧
    skipHexNum (st buf pos) = (st buf (skipMany buf pos isXDigit), (skipMany buf pos isXDigit : Int) - pos) ∧
    skipOctNum (st buf pos) = (st buf (skipMany buf pos isQDigit), (skipMany buf pos isQDigit : Int) - pos) ∧
    skipBinNum (st buf pos) = (st buf (skipMany buf pos isBDigit), (skipMany buf pos isBDigit : Int) - pos) ∧
    skipProgramExpression (st buf pos) = st buf (skipMany buf pos Lexer.isProgramExpression) :=
  ⟨skipWs_ref buf pos, skipNumbers_ref buf pos, skipAlpha_ref buf pos, skipHexNum_ref buf pos, skipOctNum_ref buf pos,
   skipBinNum_ref buf pos, skipProgramExpression_ref buf pos⟩

/-- the one-character skips (`one buf pos p`: cursor of `skipOne`, value 1 or 0) -/
theorem c_lex_skip_one (buf : Bytes) (pos : Nat) (ch : UInt8) :
    skipDigit (st buf pos) = one buf pos isDigit ∧ skipPlusmn (st buf pos) = one buf pos isPlusMn ∧
    Gen.LexerC.skipChr (st buf pos) (sc ch) = one buf pos (· == ch) ∧
    skipSlashDot (st buf pos) = one buf pos (fun b => b == 47 || b == 46) ∧
    skipStar (st buf pos) = one buf pos (· == 42) ∧ skipColon (st buf pos) = one buf pos (· == 58) := by
  have h1 : -128 ≤ sc ch := by simp only [sc]; split <;> omega
  have h2 : sc ch ≤ 127 := by simp only [sc]; have := UInt8.toNat_lt ch; split <;> omega
  refine ⟨skipDigit_ref buf pos, skipPlusmn_ref buf pos, ?_, skipSlashDot_ref buf pos, skipStar_ref buf pos, skipColon_ref buf pos⟩
  rw [skipChr_ref buf pos (sc ch) h1 h2, uc_sc]

/-- mantissa and exponent -/
theorem c_lex_mantisa_exponent (buf : Bytes) (pos : Nat) :
    Gen.LexerC.skipMantisa (st buf pos) = (st buf (Lexer.skipMantisa buf pos).1, ((Lexer.skipMantisa buf pos).2 : Int)) ∧
    Gen.LexerC.skipExponent (st buf pos) = (st buf (Lexer.skipExponent buf pos).1, ((Lexer.skipExponent buf pos).2 : Int)) :=
  ⟨skipMantisa_ref buf pos, skipExponent_ref buf pos⟩

/-! ### the recognisers -/

theorem c_lex_whiteSpace (buf : Bytes) (pos : Nat) (h : pos ≤ buf.length) (tok : CTok) :
    scpiLex_WhiteSpace (st buf pos) tok = res buf (lexWhiteSpace buf pos) ∧ Agrees .ws buf pos (lexWhiteSpace buf pos) :=
  ⟨scpiLex_WhiteSpace_ref buf pos tok, Props.C13.whiteSpace_spec buf pos h⟩
theorem c_lex_whiteSpace_no_oob (buf : Bytes) (pos : Nat) (tok : CTok) :
    (scpiLex_WhiteSpace (st buf pos) tok).1.oob = false ∧ (scpiLex_WhiteSpace (st buf pos) tok).1.ub = false := by
  rw [scpiLex_WhiteSpace_ref]; exact ⟨rfl, rfl⟩

theorem c_lex_comma (buf : Bytes) (pos : Nat) (h : pos ≤ buf.length) (tok : CTok) :
    scpiLex_Comma (st buf pos) tok = res buf (lexComma buf pos) ∧ Agrees .comma buf pos (lexComma buf pos) :=
  ⟨scpiLex_Comma_ref buf pos tok, Props.C13.comma_spec buf pos h⟩
theorem c_lex_comma_no_oob (buf : Bytes) (pos : Nat) (tok : CTok) :
    (scpiLex_Comma (st buf pos) tok).1.oob = false ∧ (scpiLex_Comma (st buf pos) tok).1.ub = false := by
  rw [scpiLex_Comma_ref]; exact ⟨rfl, rfl⟩

theorem c_lex_semicolon (buf : Bytes) (pos : Nat) (h : pos ≤ buf.length) (tok : CTok) :
    scpiLex_Semicolon (st buf pos) tok = res buf (lexSemicolon buf pos) ∧ Agrees .semicolon buf pos (lexSemicolon buf pos) :=
  ⟨scpiLex_Semicolon_ref buf pos tok, Props.C13.semicolon_spec buf pos h⟩
theorem c_lex_semicolon_no_oob (buf : Bytes) (pos : Nat) (tok : CTok) :
    (scpiLex_Semicolon (st buf pos) tok).1.oob = false ∧ (scpiLex_Semicolon (st buf pos) tok).1.ub = false := by
  rw [scpiLex_Semicolon_ref]; exact ⟨rfl, rfl⟩

theorem c_lex_colon (buf : Bytes) (pos : Nat) (h : pos ≤ buf.length) (tok : CTok) :
    scpiLex_Colon (st buf pos) tok = res buf (lexColon buf pos) ∧ Agrees .colon buf pos (lexColon buf pos) :=
  ⟨scpiLex_Colon_ref buf pos tok, Props.C13.colon_spec buf pos h⟩
theorem c_lex_colon_no_oob (buf : Bytes) (pos : Nat) (tok : CTok) :
    (scpiLex_Colon (st buf pos) tok).1.oob = false ∧ (scpiLex_Colon (st buf pos) tok).1.ub = false := by
  rw [scpiLex_Colon_ref]; exact ⟨rfl, rfl⟩

theorem c_lex_specific (buf : Bytes) (pos : Nat) (ch : UInt8) (h : pos ≤ buf.length) (tok : CTok) :
    scpiLex_SpecificCharacter (st buf pos) tok (sc ch) = res buf (lexSpecific buf pos ch) ∧
    Agrees (.specific ch) buf pos (lexSpecific buf pos ch) :=
  ⟨scpiLex_SpecificCharacter_ref buf pos tok ch, Props.C13.specific_spec buf pos ch h⟩
theorem c_lex_specific_no_oob (buf : Bytes) (pos : Nat) (ch : UInt8) (tok : CTok) :
    (scpiLex_SpecificCharacter (st buf pos) tok (sc ch)).1.oob = false ∧ (scpiLex_SpecificCharacter (st buf pos) tok (sc ch)).1.ub = false := by
  rw [scpiLex_SpecificCharacter_ref]; exact ⟨rfl, rfl⟩

theorem c_lex_newLine (buf : Bytes) (pos : Nat) (h : pos ≤ buf.length) (tok : CTok) :
    scpiLex_NewLine (st buf pos) tok = res buf (lexNewLine buf pos) ∧ Agrees .nl buf pos (lexNewLine buf pos) :=
  ⟨scpiLex_NewLine_ref buf pos tok, Props.C13.newLine_spec buf pos h⟩
theorem c_lex_newLine_no_oob (buf : Bytes) (pos : Nat) (tok : CTok) :
    (scpiLex_NewLine (st buf pos) tok).1.oob = false ∧ (scpiLex_NewLine (st buf pos) tok).1.ub = false := by
  rw [scpiLex_NewLine_ref]; exact ⟨rfl, rfl⟩

theorem c_lex_decimal (buf : Bytes) (pos : Nat) (h : pos ≤ buf.length) (tok : CTok) :
    scpiLex_DecimalNumericProgramData (st buf pos) tok = res buf (lexDecimal buf pos) ∧ Agrees .decimal buf pos (lexDecimal buf pos) :=
  ⟨scpiLex_DecimalNumericProgramData_ref buf pos tok, Props.C13.decimal_spec buf pos h⟩
theorem c_lex_decimal_no_oob (buf : Bytes) (pos : Nat) (tok : CTok) :
    (scpiLex_DecimalNumericProgramData (st buf pos) tok).1.oob = false ∧ (scpiLex_DecimalNumericProgramData (st buf pos) tok).1.ub = false := by
  rw [scpiLex_DecimalNumericProgramData_ref]; exact ⟨rfl, rfl⟩

theorem c_lex_characterData (buf : Bytes) (pos : Nat) (h : pos ≤ buf.length) (tok : CTok) :
    scpiLex_CharacterProgramData (st buf pos) tok = res buf (lexCharacterProgramData buf pos) ∧
    Agrees .chr buf pos (lexCharacterProgramData buf pos) :=
  ⟨scpiLex_CharacterProgramData_ref buf pos tok, Props.C13.characterData_spec buf pos h⟩
theorem c_lex_characterData_no_oob (buf : Bytes) (pos : Nat) (tok : CTok) :
    (scpiLex_CharacterProgramData (st buf pos) tok).1.oob = false ∧ (scpiLex_CharacterProgramData (st buf pos) tok).1.ub = false := by
  rw [scpiLex_CharacterProgramData_ref]; exact ⟨rfl, rfl⟩

theorem c_lex_nondecimal (buf : Bytes) (pos : Nat) (h : pos ≤ buf.length) (tok : CTok) :
    scpiLex_NondecimalNumericData (st buf pos) tok = res buf (lexNondecimal buf pos) ∧
    Agrees .nondecimal buf pos (lexNondecimal buf pos) :=
  ⟨scpiLex_NondecimalNumericData_ref buf pos tok, Props.C13.nondecimal_spec buf pos h⟩
theorem c_lex_nondecimal_no_oob (buf : Bytes) (pos : Nat) (tok : CTok) :
    (scpiLex_NondecimalNumericData (st buf pos) tok).1.oob = false ∧ (scpiLex_NondecimalNumericData (st buf pos) tok).1.ub = false := by
  rw [scpiLex_NondecimalNumericData_ref]; exact ⟨rfl, rfl⟩

theorem c_lex_suffix (buf : Bytes) (pos : Nat) (h : pos ≤ buf.length) (tok : CTok) :
    scpiLex_SuffixProgramData (st buf pos) tok = res buf (lexSuffix buf pos) ∧ Agrees .suffix buf pos (lexSuffix buf pos) :=
  ⟨scpiLex_SuffixProgramData_ref buf pos tok, Props.C13.suffix_spec buf pos h⟩
theorem c_lex_suffix_no_oob (buf : Bytes) (pos : Nat) (tok : CTok) :
    (scpiLex_SuffixProgramData (st buf pos) tok).1.oob = false ∧ (scpiLex_SuffixProgramData (st buf pos) tok).1.ub = false := by
  rw [scpiLex_SuffixProgramData_ref]; exact ⟨rfl, rfl⟩

/-- the helpers of the header recogniser: mnemonic (value > 0 complete, < 0 ended at the end of the input, 0 none), common and
compound header (1 / -1 / 0) -/
theorem c_lex_header_skips (buf : Bytes) (pos : Nat) :
    Gen.LexerC.skipProgramMnemonic (st buf pos) = (st buf (Lexer.skipProgramMnemonic buf pos).1, (Lexer.skipProgramMnemonic buf pos).2) ∧
    Gen.LexerC.skipCommonProgramHeader (st buf pos) =
      (st buf (Lexer.skipCommonProgramHeader buf pos).1, (Lexer.skipCommonProgramHeader buf pos).2) ∧
    Gen.LexerC.skipCompoundProgramHeader (st buf pos) =
      (st buf (Lexer.skipCompoundProgramHeader buf pos).1, (Lexer.skipCompoundProgramHeader buf pos).2) :=
  ⟨skipProgramMnemonic_ref buf pos, skipCommonProgramHeader_ref buf pos, skipCompoundProgramHeader_ref buf pos⟩

theorem c_lex_programHeader (buf : Bytes) (pos : Nat) (h : pos ≤ buf.length) (tok : CTok) :
    scpiLex_ProgramHeader (st buf pos) tok = res buf (lexProgramHeader buf pos) ∧ Agrees .header buf pos (lexProgramHeader buf pos) :=
  ⟨scpiLex_ProgramHeader_ref buf pos tok, Props.C13.programHeader_spec buf pos h⟩
theorem c_lex_programHeader_no_oob (buf : Bytes) (pos : Nat) (tok : CTok) :
    (scpiLex_ProgramHeader (st buf pos) tok).1.oob = false ∧ (scpiLex_ProgramHeader (st buf pos) tok).1.ub = false := by
  rw [scpiLex_ProgramHeader_ref]; exact ⟨rfl, rfl⟩

/-- the quote loop: stops at a lone quote, at a byte >= 0x80 or at the end of the input (`q` as the plain char `sc q`) -/
theorem c_lex_skipQuote (buf : Bytes) (pos : Nat) (q : UInt8) :
    skipQuoteProgramData (st buf pos) (sc q) = st buf (skipQuote buf q (buf.length - pos + 1) pos) := by
  have h1 : -128 ≤ sc q := by simp only [sc]; split <;> omega
  have h2 : sc q ≤ 127 := by simp only [sc]; have := UInt8.toNat_lt q; split <;> omega
  rw [skipQuoteProgramData_ref buf pos (sc q) h1 h2, uc_sc]

theorem c_lex_string (buf : Bytes) (pos : Nat) (h : pos ≤ buf.length) (tok : CTok) :
    scpiLex_StringProgramData (st buf pos) tok = res buf (lexString buf pos) ∧ Agrees .string buf pos (lexString buf pos) :=
  ⟨scpiLex_StringProgramData_ref buf pos tok, Props.C13.string_spec buf pos h⟩
theorem c_lex_string_no_oob (buf : Bytes) (pos : Nat) (tok : CTok) :
    (scpiLex_StringProgramData (st buf pos) tok).1.oob = false ∧ (scpiLex_StringProgramData (st buf pos) tok).1.ub = false := by
  rw [scpiLex_StringProgramData_ref]; exact ⟨rfl, rfl⟩

theorem c_lex_expression (buf : Bytes) (pos : Nat) (h : pos ≤ buf.length) (tok : CTok) :
    scpiLex_ProgramExpression (st buf pos) tok = res buf (lexExpression buf pos) ∧ Agrees .expression buf pos (lexExpression buf pos) :=
  ⟨scpiLex_ProgramExpression_ref buf pos tok, Props.C13.expression_spec buf pos h⟩
theorem c_lex_expression_no_oob (buf : Bytes) (pos : Nat) (tok : CTok) :
    (scpiLex_ProgramExpression (st buf pos) tok).1.oob = false ∧ (scpiLex_ProgramExpression (st buf pos) tok).1.ub = false := by
  rw [scpiLex_ProgramExpression_ref]; exact ⟨rfl, rfl⟩

/-- the block recogniser.  `state->pos += arbitraryBlockLength` may leave the buffer before the comparison with its end is
made (the offset is an `Int`, nothing is read there): the generated text and the model carry the same out-of-range value -/
theorem c_lex_block (buf : Bytes) (pos : Nat) (h : pos ≤ buf.length) (tok : CTok) :
    scpiLex_ArbitraryBlockProgramData (st buf pos) tok = res buf (lexBlock buf pos) ∧ Agrees .block buf pos (lexBlock buf pos) :=
  ⟨scpiLex_ArbitraryBlockProgramData_ref buf pos tok, Props.C13.block_spec buf pos h⟩
theorem c_lex_block_no_oob (buf : Bytes) (pos : Nat) (tok : CTok) :
    (scpiLex_ArbitraryBlockProgramData (st buf pos) tok).1.oob = false ∧
    (scpiLex_ArbitraryBlockProgramData (st buf pos) tok).1.ub = false := by
  rw [scpiLex_ArbitraryBlockProgramData_ref]; exact ⟨rfl, rfl⟩

/-! ### kernel-evaluated examples on the generated text -/

-- "1.5E+3 V;" (9 bytes) at offset 0: the number is 6 bytes long, the cursor stops before the space, nothing read outside
example : scpiLex_DecimalNumericProgramData (st [49, 46, 53, 69, 43, 51, 32, 86, 59] 0) ⟨0, 0, 0⟩ =
    (st [49, 46, 53, 69, 43, 51, 32, 86, 59] 6, ⟨10, 0, 6⟩, 6) := by decide +kernel
-- "1E": the buffer ends in the middle of the exponent; the exponent fails, the cursor is rolled back to after the mantissa,
-- and the end-of-input test stopped every read at offset 2
example : scpiLex_DecimalNumericProgramData (st [49, 69] 0) ⟨0, 0, 0⟩ = (st [49, 69] 1, ⟨10, 0, 1⟩, 1) := by decide +kernel
-- the empty buffer: nothing is read at all
example : scpiLex_DecimalNumericProgramData (st [] 0) ⟨7, 7, 7⟩ = (st [] 0, ⟨26, 0, 0⟩, 0) := by decide +kernel
-- what the flag looks like when a read does happen at the end: `ischr` alone, without the test in front of it
example : (ischr (st [49, 69] 2) 69).1.oob = true := by decide +kernel
-- "#HfF," : token ptr / len describe the digits, the return value the whole literal
example : scpiLex_NondecimalNumericData (st [35, 72, 102, 70, 44] 0) ⟨0, 0, 0⟩ = (st [35, 72, 102, 70, 44] 4, ⟨6, 2, 2⟩, 4) := by decide +kernel
-- "x \t" at offset 1 and "\r\n" and "ab_1 "
example : scpiLex_WhiteSpace (st [120, 32, 9] 1) ⟨0, 0, 0⟩ = (st [120, 32, 9] 3, ⟨23, 1, 2⟩, 2) := by decide +kernel
example : scpiLex_NewLine (st [13, 10] 0) ⟨0, 0, 0⟩ = (st [13, 10] 2, ⟨5, 0, 2⟩, 2) := by decide +kernel
example : scpiLex_CharacterProgramData (st [97, 98, 95, 49, 32] 0) ⟨0, 0, 0⟩ = (st [97, 98, 95, 49, 32] 4, ⟨9, 0, 4⟩, 4) := by decide +kernel
-- a byte >= 0x80 is a negative plain char: not white space, not a digit, and `(uint8_t)` maps it to 128..255 for <ctype.h>
example : scpiLex_CharacterProgramData (st [200, 97] 0) ⟨0, 0, 0⟩ = (st [200, 97] 0, ⟨26, 0, 0⟩, 0) := by decide +kernel
-- "1.5 V/" at offset 4: the buffer ends right after the '/', inside the suffix; the loop `while (skipSlashDot(state))` takes the
-- '/', the three skips after it stop at the end of the input without reading, the next `skipSlashDot` too
example : scpiLex_SuffixProgramData (st [49, 46, 53, 32, 86, 47] 4) ⟨0, 0, 0⟩ = (st [49, 46, 53, 32, 86, 47] 6, ⟨12, 4, 2⟩, 2) := by decide +kernel
-- "SYST:" ends in a colon: the mnemonic behind it is empty AT the end of the input, the loop body returns SKIP_INCOMPLETE, the
-- token is an INCOMPLETE compound header of all 5 bytes; nothing was read at offset 5
example : scpiLex_ProgramHeader (st [83, 89, 83, 84, 58] 0) ⟨0, 0, 0⟩ = (st [83, 89, 83, 84, 58] 5, ⟨18, 0, 5⟩, 5) := by decide +kernel
-- "*IDN" ends inside the mnemonic: (negative length) * counts as complete; "*" alone is an incomplete common header
example : scpiLex_ProgramHeader (st [42, 73, 68, 78] 0) ⟨0, 0, 0⟩ = (st [42, 73, 68, 78] 4, ⟨19, 0, 4⟩, 4) := by decide +kernel
example : scpiLex_ProgramHeader (st [42] 0) ⟨0, 0, 0⟩ = (st [42] 1, ⟨20, 0, 1⟩, 1) := by decide +kernel
-- ":A:b? " : compound query header of 5 bytes
example : scpiLex_ProgramHeader (st [58, 65, 58, 98, 63, 32] 0) ⟨0, 0, 0⟩ = (st [58, 65, 58, 98, 63, 32] 5, ⟨21, 0, 5⟩, 5) := by decide +kernel
-- `"abc` without the closing quote: the loop runs to the end of the input, the test for the closing quote is not reached
-- (`!iseos(state) &&`), cursor restored, no token, nothing read at offset 4
example : scpiLex_StringProgramData (st [34, 97, 98, 99] 0) ⟨0, 0, 0⟩ = (st [34, 97, 98, 99] 0, ⟨26, 0, 0⟩, 0) := by decide +kernel
-- `"a""b"c`: the doubled quote is skipped as a pair (pos++ ... pos++), the lone one ends the string (pos++ ... pos--)
example : scpiLex_StringProgramData (st [34, 97, 34, 34, 98, 34, 99] 0) ⟨0, 0, 0⟩ = (st [34, 97, 34, 34, 98, 34, 99] 6, ⟨15, 0, 6⟩, 6) := by
  decide +kernel
-- `'a'` ending in the closing quote: the look-ahead for a doubled quote stops at the end of the input
example : scpiLex_StringProgramData (st [39, 97, 39] 0) ⟨0, 0, 0⟩ = (st [39, 97, 39] 3, ⟨14, 0, 3⟩, 3) := by decide +kernel
-- `(@1` without ')' and `(@1)`
example : scpiLex_ProgramExpression (st [40, 64, 49] 0) ⟨0, 0, 0⟩ = (st [40, 64, 49] 0, ⟨26, 0, 0⟩, 0) := by decide +kernel
example : scpiLex_ProgramExpression (st [40, 64, 49, 41] 0) ⟨0, 0, 0⟩ = (st [40, 64, 49, 41] 4, ⟨16, 0, 4⟩, 4) := by decide +kernel
-- "#13abc;" : the token describes the 3 payload bytes at offset 3, the return value the whole block
example : scpiLex_ArbitraryBlockProgramData (st [35, 49, 51, 97, 98, 99, 59] 0) ⟨0, 0, 0⟩ =
    (st [35, 49, 51, 97, 98, 99, 59] 6, ⟨13, 3, 3⟩, 6) := by decide +kernel
-- "#210ab": 10 bytes announced, 2 present - the cursor would be at offset 14 of 6; incomplete: the rest is swallowed, no read there
example : scpiLex_ArbitraryBlockProgramData (st [35, 50, 49, 48, 97, 98] 0) ⟨0, 0, 0⟩ = (st [35, 50, 49, 48, 97, 98] 6, ⟨26, 0, 0⟩, 0) := by
  decide +kernel
-- "#2" and "#": the buffer ends inside the length digits / right after '#'
example : scpiLex_ArbitraryBlockProgramData (st [35, 50] 0) ⟨0, 0, 0⟩ = (st [35, 50] 2, ⟨26, 0, 0⟩, 0) := by decide +kernel
example : scpiLex_ArbitraryBlockProgramData (st [35] 0) ⟨0, 0, 0⟩ = (st [35] 1, ⟨26, 0, 0⟩, 0) := by decide +kernel

end ScpiVerif.Props.C13Gen
