/-
C10 — The error queue is a bounded FIFO that marks overflow and owns its texts.
Property theorems only; helper lemmas in ScpiVerif/Lemmas/Fifo.lean.
-/
import ScpiVerif.Model.Fifo
import ScpiVerif.Lemmas.Fifo

namespace ScpiVerif.Props.C10
open ScpiVerif ScpiVerif.Fifo

/-- the ring buffer invariant is established by fifo_init and kept by every fifo operation -/
theorem fifo_inv_init {α} (n : Nat) (d : α) (hn : 1 ≤ n) : Inv (Fifo.init n d) := Lemmas.Fifo.inv_init n d hn
theorem fifo_inv_add {α} (f : Fifo α) (v : α) (h : Inv f) : Inv (add f v).1 := Lemmas.Fifo.inv_add f v h
theorem fifo_inv_remove {α} (f : Fifo α) (h : Inv f) : Inv (remove f).1 := Lemmas.Fifo.inv_remove f h
theorem fifo_inv_removeLast {α} (f : Fifo α) (h : Inv f) : Inv (removeLast f).1 := Lemmas.Fifo.inv_removeLast f h
theorem fifo_inv_clear {α} (f : Fifo α) (h : Inv f) : Inv (Fifo.clear f) := Lemmas.Fifo.inv_clear f h

/-- each ring operation is the corresponding list operation on the abstraction -/
theorem fifo_abs_init {α} (n : Nat) (d : α) : abs (Fifo.init n d) = [] := Lemmas.Fifo.abs_init n d
theorem fifo_abs_add {α} (f : Fifo α) (v : α) (h : Inv f) :
    (add f v).2 = decide ((abs f).length < f.size) ∧
    abs (add f v).1 = if (abs f).length < f.size then abs f ++ [v] else abs f := Lemmas.Fifo.abs_add f v h
theorem fifo_abs_remove {α} (f : Fifo α) (h : Inv f) :
    (remove f).2 = (abs f).head? ∧ abs (remove f).1 = (abs f).tail := Lemmas.Fifo.abs_remove f h
theorem fifo_abs_removeLast {α} (f : Fifo α) (h : Inv f) :
    (removeLast f).2 = (abs f).getLast? ∧ abs (removeLast f).1 = (abs f).dropLast := Lemmas.Fifo.abs_removeLast f h
theorem fifo_abs_clear {α} (f : Fifo α) : abs (Fifo.clear f) = [] := Lemmas.Fifo.abs_clear f
theorem fifo_abs_count {α} (f : Fifo α) (h : Inv f) : cnt f = (abs f).length := Lemmas.Fifo.abs_count f h

/-- Full statement: for every capacity n ≥ 1, every configuration (with/without device-dependent
text), every history of pushes (any code, any text, any declared length, allocation succeeding or
failing), pops, clears, counts and SYST:ERR? queries, the observable results are exactly those of
the abstract bounded FIFO with overflow marker. -/
theorem queue_refines (n : Nat) (hn : 1 ≤ n) (withInfo : Bool) (ops : List Op) :
    (run (EQ.step withInfo) (EQ.init n) ops).2 = (run (specStep n withInfo) [] ops).2 ∧
    EQ.abs (run (EQ.step withInfo) (EQ.init n) ops).1 = (run (specStep n withInfo) [] ops).1 :=
  Lemmas.Fifo.queue_refines n hn withInfo ops

/-- Ownership: in every reachable state every live allocation is referenced by exactly one queue
entry (no leak), nothing was freed twice, and an empty queue holds no allocation. -/
theorem queue_owns_texts (n : Nat) (hn : 1 ≤ n) (withInfo : Bool) (ops : List Op) :
    let q := (run (EQ.step withInfo) (EQ.init n) ops).1
    EQ.Owned q ∧ (EQ.abs q = [] → q.alloc.live = []) :=
  Lemmas.Fifo.queue_owned n hn withInfo ops

/-- if storing the text fails the error is still queued, without text -/
theorem alloc_failure_still_queues (n : Nat) (q : SpecQ) (c : Int) (s : Bytes) (l : Nat) (h : q.length < n) :
    (specStep n true q (.push c (some s) l false)).1 = q ++ [(c, none)] := by
  simp [specStep, specPush, specText, h]

/-- overflow replaces the newest entry by -350 and keeps everything older -/
theorem overflow_marks_newest (n : Nat) (q : SpecQ) (e : Int × Option Bytes) (h : ¬ q.length < n) :
    specPush n q e = q.dropLast ++ [(-350, none)] := by
  simp [specPush, h, overflowCode]

-- non-vacuity
example : (run (EQ.step true) (EQ.init 2) [.push (-100) (some [65,66]) 0 true, .push 5 none 0 true,
    .push 7 none 0 true, .pop, .pop, .pop]).2 =
    [.pushed [-100], .pushed [5], .pushed [7, -350], .popped (-100) (some [65,66]), .popped (-350) none, .popped 0 none] := by
  decide

end ScpiVerif.Props.C10
