/-
C13 — The tokenizer recognises exactly the IEEE 488.2 program-data token syntax.
Property theorems only; helper lemmas in ScpiVerif/Lemmas/Regex.lean and ScpiVerif/Lemmas/Lexer.lean.

Reading guide: Spec/Tokens.lean gives each token language as a regular expression (`Matches` is
its declarative meaning, `Re.longest` the executable longest-prefix matcher), the block and the
string rule directly; `Spec.Agrees k buf pos r` says that the recogniser result `r` obtained at
`pos` is exactly what the specification of kind `k` prescribes there (longest match or nothing,
cursor inside the input, type / extent / length of what was consumed).
-/
import ScpiVerif.Model.Parser
import ScpiVerif.Spec.Unit
import ScpiVerif.Lemmas.Regex
import ScpiVerif.Lemmas.Lexer
import ScpiVerif.Lemmas.CharClass

namespace ScpiVerif.Props.C13
open ScpiVerif ScpiVerif.Lexer ScpiVerif.Parser ScpiVerif.Spec

/-! ### the executable matcher computes the declarative longest match -/

theorem accepts_iff_matches (r : Re) (s : Bytes) : r.accepts s = true ↔ Matches r s :=
  Lemmas.Regex.accepts_iff_matches r s

theorem longest_is_longest (r : Re) (s : Bytes) (n : Nat) :
    r.longest s = some n ↔ IsLongest (Matches r) s n := Lemmas.Regex.longest_is_longest r s n

theorem longest_none (r : Re) (s : Bytes) :
    r.longest s = none ↔ ∀ m, m ≤ s.length → ¬ Matches r (s.take m) := Lemmas.Regex.longest_none r s

/-! ### every recogniser, at every position of every buffer -/

theorem whiteSpace_spec (buf : Bytes) (pos : Nat) (h : pos ≤ buf.length) :
    Agrees .ws buf pos (lexWhiteSpace buf pos) := Lemmas.Lexer.whiteSpace_spec buf pos h
theorem programHeader_spec (buf : Bytes) (pos : Nat) (h : pos ≤ buf.length) :
    Agrees .header buf pos (lexProgramHeader buf pos) := Lemmas.Lexer.programHeader_spec buf pos h
theorem characterData_spec (buf : Bytes) (pos : Nat) (h : pos ≤ buf.length) :
    Agrees .chr buf pos (lexCharacterProgramData buf pos) := Lemmas.Lexer.characterData_spec buf pos h
theorem decimal_spec (buf : Bytes) (pos : Nat) (h : pos ≤ buf.length) :
    Agrees .decimal buf pos (lexDecimal buf pos) := Lemmas.Lexer.decimal_spec buf pos h
theorem suffix_spec (buf : Bytes) (pos : Nat) (h : pos ≤ buf.length) :
    Agrees .suffix buf pos (lexSuffix buf pos) := Lemmas.Lexer.suffix_spec buf pos h
theorem nondecimal_spec (buf : Bytes) (pos : Nat) (h : pos ≤ buf.length) :
    Agrees .nondecimal buf pos (lexNondecimal buf pos) := Lemmas.Lexer.nondecimal_spec buf pos h
theorem string_spec (buf : Bytes) (pos : Nat) (h : pos ≤ buf.length) :
    Agrees .string buf pos (lexString buf pos) := Lemmas.Lexer.string_spec buf pos h
theorem block_spec (buf : Bytes) (pos : Nat) (h : pos ≤ buf.length) :
    Agrees .block buf pos (lexBlock buf pos) := Lemmas.Lexer.block_spec buf pos h
theorem expression_spec (buf : Bytes) (pos : Nat) (h : pos ≤ buf.length) :
    Agrees .expression buf pos (lexExpression buf pos) := Lemmas.Lexer.expression_spec buf pos h
theorem comma_spec (buf : Bytes) (pos : Nat) (h : pos ≤ buf.length) :
    Agrees .comma buf pos (lexComma buf pos) := Lemmas.Lexer.comma_spec buf pos h
theorem semicolon_spec (buf : Bytes) (pos : Nat) (h : pos ≤ buf.length) :
    Agrees .semicolon buf pos (lexSemicolon buf pos) := Lemmas.Lexer.semicolon_spec buf pos h
theorem colon_spec (buf : Bytes) (pos : Nat) (h : pos ≤ buf.length) :
    Agrees .colon buf pos (lexColon buf pos) := Lemmas.Lexer.colon_spec buf pos h
theorem newLine_spec (buf : Bytes) (pos : Nat) (h : pos ≤ buf.length) :
    Agrees .nl buf pos (lexNewLine buf pos) := Lemmas.Lexer.newLine_spec buf pos h
theorem specific_spec (buf : Bytes) (pos : Nat) (ch : UInt8) (h : pos ≤ buf.length) :
    Agrees (.specific ch) buf pos (lexSpecific buf pos ch) := Lemmas.Lexer.specific_spec buf pos ch h

/-- a definite-length block announces at most 999 999 999 bytes: the `int` accumulation in the C
code cannot overflow -/
theorem block_length_bounded (buf : Bytes) (pos : Nat) :
    (lexBlock buf pos).2.1.len ≤ 999999999 := Lemmas.Lexer.block_length_bounded buf pos

/-! ### program data element, data list, message unit -/

/-- one data element with the white space around it -/
theorem programData_spec (buf : Bytes) (pos : Nat) (h : pos ≤ buf.length) :
    let r := parseProgramData buf pos
    let s := buf.drop pos
    let w0 := wsLen s
    match specData (s.drop w0) with
    | .item n t po pl =>
      let w1 := wsLen (s.drop (w0 + n))
      r.1 = pos + w0 + n + w1 ∧ r.2.2 = w0 + n + w1 ∧ r.2.1 = ⟨t, pos + w0 + po, pl⟩ ∧ pos + w0 + n + w1 ≤ buf.length
    | .swallow => r.2.1.type = .unknown ∧ r.1 = buf.length
    | .none => r.2.1.type = .unknown ∧ r.2.1.len = 0 ∧ r.1 = pos + w0 ∧ r.2.2 = w0 :=
  Lemmas.Lexer.programData_spec buf pos h

/-- the unit detector accepts exactly the well-formed units, with the specified extent, terminator,
header and parameter-count flag; it always makes progress on a non-empty input and never leaves it -/
theorem unit_spec (s : Bytes) :
    let u := detectUnit s
    let e := specUnit s
    (u.consumed = e.consumed) ∧
    (u.term.code = match e.term with | .none => 0 | .nl => 1 | .semicolon => 2) ∧
    ((u.header.type = .invalid) ↔ e.wellFormed = false) ∧
    (e.wellFormed = true → u.header.type = e.headerType ∧ u.header.len = e.headerLen ∧ (e.headerLen > 0 → u.header.ptr = e.headerOff) ∧
                           u.nParams = e.nParams) ∧
    u.consumed ≤ s.length ∧ (s ≠ [] → 1 ≤ u.consumed) :=
  Lemmas.Lexer.unit_spec s

/-! ### the character classes are those of the current source

`Gen.cc_*` are regenerated on every run by the translator from the COMPILED predicates of lexer.c (file-static functions,
called with a plain `char` argument for each of the 256 byte values); `inClass t b` reads bit `b` of such a table. -/


/-- every character-class predicate of the lexer model equals, for every byte value, the predicate of the same name in
the current lexer.c (exhaustive, kernel-evaluated on all 256 values of each) -/
theorem character_classes (b : UInt8) :
    Lemmas.CharClass.inClass Gen.cc_isws b = isWs b ∧ Lemmas.CharClass.inClass Gen.cc_isbdigit b = isBDigit b ∧ Lemmas.CharClass.inClass Gen.cc_isqdigit b = isQDigit b ∧
    Lemmas.CharClass.inClass Gen.cc_isplusmn b = isPlusMn b ∧ Lemmas.CharClass.inClass Gen.cc_isE b = isE b ∧
    Lemmas.CharClass.inClass Gen.cc_isH b = (b == 104 || b == 72) ∧ Lemmas.CharClass.inClass Gen.cc_isB b = (b == 98 || b == 66) ∧
    Lemmas.CharClass.inClass Gen.cc_isQ b = (b == 113 || b == 81) ∧ Lemmas.CharClass.inClass Gen.cc_isascii7bit b = isAscii7 b ∧
    Lemmas.CharClass.inClass Gen.cc_isNonzeroDigit b = (isDigit b && b != 48) ∧
    Lemmas.CharClass.inClass Gen.cc_isProgramExpression b = isProgramExpression b :=
  ⟨Lemmas.CharClass.isws b, Lemmas.CharClass.isbdigit b, Lemmas.CharClass.isqdigit b, Lemmas.CharClass.isplusmn b,
   Lemmas.CharClass.isE b, Lemmas.CharClass.isH b, Lemmas.CharClass.isB b, Lemmas.CharClass.isQ b,
   Lemmas.CharClass.isascii7bit b, Lemmas.CharClass.isNonzeroDigit b, Lemmas.CharClass.isProgramExpression b⟩

/-- and the <ctype.h> classes the model assumes are the ones of the C library the harness links ("C" locale) -/
theorem ctype_classes (b : UInt8) :
    Lemmas.CharClass.inClass Gen.cc_isdigit b = isDigit b ∧ Lemmas.CharClass.inClass Gen.cc_isalpha b = isAlpha b ∧ Lemmas.CharClass.inClass Gen.cc_isalnum b = isAlnum b ∧
    Lemmas.CharClass.inClass Gen.cc_isxdigit b = isXDigit b ∧ Lemmas.CharClass.inClass Gen.cc_isupper b = isUpper b ∧ Lemmas.CharClass.inClass Gen.cc_islower b = isLower b ∧
    Lemmas.CharClass.inClass Gen.cc_isspace b = Prim.isSpace b :=
  ⟨Lemmas.CharClass.isdigit b, Lemmas.CharClass.isalpha b, Lemmas.CharClass.isalnum b, Lemmas.CharClass.isxdigit b,
   Lemmas.CharClass.isupper b, Lemmas.CharClass.islower b, Lemmas.CharClass.isspace b⟩

-- non-vacuity (byte lists written out: `decide` cannot reduce `String.toUTF8`)
-- "x-1.5 e+3V"
example : Agrees .decimal [120, 45, 49, 46, 53, 32, 101, 43, 51, 86] 1
      (lexDecimal [120, 45, 49, 46, 53, 32, 101, 43, 51, 86] 1) ∧
    (lexDecimal [120, 45, 49, 46, 53, 32, 101, 43, 51, 86] 1).2.2 = 8 := by decide
-- "\"a\"\"b\"c"
example : (specToken .string [34, 97, 34, 34, 98, 34, 99]).map (·.consumed) = some 6 := by decide
-- "\"\"\""
example : specToken .string [34, 34, 34] = none := by decide
-- "A:b 1,2;"
example : (detectUnit [65, 58, 98, 32, 49, 44, 50, 59]).nParams = 2 := by decide

end ScpiVerif.Props.C13
