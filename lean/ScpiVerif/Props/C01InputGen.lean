/-
C01 / C08, generated tie — the Lean text translated from SCPI_Input of libscpi/src/parser.c on every run (Gen/InputC.lean,
translate/c2lean_parser.py), with its three library calls (scpiParser_detectProgramMessageUnit, SCPI_Parse, SCPI_ErrorPush)
instantiated by the hand model's functions.  Property theorems only; helper lemmas in ScpiVerif/Lemmas/InputC.lean.

PROVED here for the generated text: the scan loop (`c_input_loop`: equal to the hand model's `inputLoop` for every state
the loop can be in, every CHECK of the generated code passes - memmove inside the buffer, no conversion wraps -, the emitted
fuel suffices, position < length afterwards) and the overrun path (`c_overrun_copies_nothing`).  The two remaining paths of
SCPI_Input (flush; copy + terminate + loop entry) are evaluated on concrete contexts below (kernel-checked examples) and tied
by the differential correspondence; their general refinement proof is unfinished (notes/EXT_GEN_INPUT_REPORT.md).

This module is an obligation of C01's and C08's check whenever the translator ACCEPTS the current SCPI_Input.
-/
import ScpiVerif.Model.Ctx
import ScpiVerif.Lemmas.InputC

namespace ScpiVerif.Props.C01InputGen
open ScpiVerif ScpiVerif.Ctx ScpiVerif.Gen.InputC ScpiVerif.Lemmas.InputC
open ScpiVerif.Lexer (Bytes)

/-- the scan loop of the generated SCPI_Input, from every state `Inv` describes (no failed CHECK so far, 0 ≤ position,
length ≤ INT_MAX, well-formed hand-model view) and every scan offset inside the pending bytes, with fuel above the number
of pending bytes: it computes what the hand model's `inputLoop` computes (context, return value), and `Inv` holds
afterwards - in particular `ub = false` (every memmove inside the buffer, no wrapping conversion), `outOfFuel = false`, and
position < buffer length (`input_wf` of Props/C01.lean for the loop of the C text) -/
theorem c_input_loop (fuel : Nat) (cc : CC) (res : Bool) (tot cmdlen : Int) (hi : Inv cc) (h0 : 0 ≤ tot)
    (h1 : tot ≤ cc.buffer_position) (hf : (cc.buffer_position - tot).toNat < fuel) :
    (toM (SCPI_Input_loop1 detectM parseM pushM fuel cc res tot cmdlen).1,
      (SCPI_Input_loop1 detectM parseM pushM fuel cc res tot cmdlen).2.1) = inputLoop fuel (toM cc) tot.toNat res ∧
    Inv (SCPI_Input_loop1 detectM parseM pushM fuel cc res tot cmdlen).1 :=
  loop_refines fuel cc res tot cmdlen hi h0 h1 hf

/-- hence: after the loop the context is well formed, nothing undefined happened and fuel was left -/
theorem c_input_loop_wf (fuel : Nat) (cc : CC) (res : Bool) (tot cmdlen : Int) (hi : Inv cc) (h0 : 0 ≤ tot)
    (h1 : tot ≤ cc.buffer_position) (hf : (cc.buffer_position - tot).toNat < fuel) :
    WF (toM (SCPI_Input_loop1 detectM parseM pushM fuel cc res tot cmdlen).1) ∧
    (SCPI_Input_loop1 detectM parseM pushM fuel cc res tot cmdlen).1.ub = false ∧
    (SCPI_Input_loop1 detectM parseM pushM fuel cc res tot cmdlen).1.outOfFuel = false :=
  let h := (loop_refines fuel cc res tot cmdlen hi h0 h1 hf).2
  ⟨h.wf, h.ub, h.oof⟩

/-- an over-long chunk (Props/C01.lean `overrun_copies_nothing`, for the generated function): the generated SCPI_Input is the
hand model's `input` (buffer invalidated, -363 pushed, nothing copied), returns FALSE, and no CHECK fails; `hlen`: the chunk length is a C `int` -/
theorem c_overrun_copies_nothing (cc : CC) (hi : Inv cc) (data : Bytes) (hd : data ≠ [])
    (hlen : data.length ≤ 2147483647) (hov : data.length + 1 > (toM cc).bufLen - (toM cc).position) :
    Ctx.input (toM cc) data = emit (toM (SCPI_Input detectM parseM pushM cc (some data) data.length).1)
        (.input (SCPI_Input detectM parseM pushM cc (some data) data.length).2) ∧
    (SCPI_Input detectM parseM pushM cc (some data) data.length).1.ub = false ∧
    (SCPI_Input detectM parseM pushM cc (some data) data.length).1.outOfFuel = false ∧
    (SCPI_Input detectM parseM pushM cc (some data) data.length).2 = false :=
  input_overrun_refines cc hi data hd hlen hov

/-- every well-formed hand-model context with a buffer of at most INT_MAX bytes is such a state -/
theorem c_inv_of_wf (c : Ctx) (t ht : Int) (h : WF c) (hl : c.bufLen ≤ 2147483647) : Inv (toC c t ht) ∧ toM (toC c t ht) = c :=
  ⟨inv_toC c t ht h hl, toM_toC c t ht⟩

/-! ### concrete runs of the generated SCPI_Input (kernel-evaluated) against the hand model -/

/-- 8-byte buffer, one command "A" with a tag-reporting handler, 3 bytes "A\n" + … pending -/
def ex0 : Ctx := Ctx.init [⟨[65], 1, [.iTag]⟩] [] 8 4 true

/-- what the comparison looks at: buffer, position, return value, events, flags -/
def obs (r : CC × Bool) : Bytes × Nat × Bool × List Ev × Bool × Bool :=
  ((toM r.1).buf, (toM r.1).position, r.2, (toM r.1).events, r.1.ub, r.1.outOfFuel)
def obsM (c : Ctx) : Bytes × Nat × List Ev := (c.buf, c.position, c.events)

-- a chunk that fits exactly, leaving one byte for the NUL: 7 bytes "A\nA\nAAA" into the empty 8-byte buffer; two messages
-- are executed, "AAA" stays pending at the front
example :
    let r := SCPI_Input detectM parseM pushM (toC ex0 0 0) (some [65, 10, 65, 10, 65, 65, 65]) 7
    obsM (Ctx.input ex0 [65, 10, 65, 10, 65, 65, 65]) = obsM (emit (toM r.1) (.input r.2)) ∧
    (toM r.1).position = 3 ∧ (toM r.1).buf.take 3 = [65, 65, 65] ∧ r.2 = true ∧ r.1.ub = false ∧ r.1.outOfFuel = false := by
  decide +kernel

-- an overrun: 8 bytes do not fit (the NUL needs the eighth); nothing is copied, -363 is queued, FALSE
example :
    let r := SCPI_Input detectM parseM pushM (toC ex0 0 0) (some [65, 65, 65, 65, 65, 65, 65, 65]) 8
    obsM (Ctx.input ex0 [65, 65, 65, 65, 65, 65, 65, 65]) = obsM (emit (toM r.1) (.input r.2)) ∧
    (toM r.1).position = 0 ∧ r.2 = false ∧ (toM r.1).events = [Ev.error (-363) none] ∧ r.1.ub = false := by
  decide +kernel

-- a flush: after "A\nAA" the message is executed and "AA" is moved to the front, where the byte behind it (buf[2]) is a stale
-- 'A'; the zero-length call has to store the NUL there, executes "AA" (no such command: -113) and empties the buffer
example :
    let c1 := Ctx.input ex0 [65, 10, 65, 65]
    let r := SCPI_Input detectM parseM pushM (toC c1 0 26) (some []) 0
    c1.position = 2 ∧ c1.buf.take 3 = [65, 65, 65] ∧
    obsM (Ctx.input c1 []) = obsM (emit (toM r.1) (.input r.2)) ∧
    (toM r.1).position = 0 ∧ (toM r.1).buf.take 3 = [65, 65, 0] ∧ r.2 = false ∧ r.1.ub = false := by
  decide +kernel

end ScpiVerif.Props.C01InputGen
