/-
C01 / C08, generated tie — the Lean text translated from SCPI_Input of libscpi/src/parser.c on every run (Gen/InputC.lean,
translate/c2lean_parser.py), with its three library calls (scpiParser_detectProgramMessageUnit, SCPI_Parse, SCPI_ErrorPush)
instantiated by the hand model's functions.  Property theorems only; helper lemmas in ScpiVerif/Lemmas/InputC.lean.

PROVED here for the generated text: the whole function (`c_input_refines`: for every well-formed context whose buffer length
fits an `int`, every chunk whose length fits an `int` - the empty one, i.e. the flush, and over-long ones included - and
whatever parser_state holds, the generated SCPI_Input computes what the hand model's `Ctx.input` computes: buffer bytes,
position, return value, event log and everything the instantiated library functions changed; no CHECK of the generated code
fails - NUL stores, memcpy and memmove inside the buffer, no signed overflow, no wrapping conversion -, the emitted fuel
suffices), hence `c_input_wf` (position < length afterwards, C01 `input_wf`) and `c_flush_executes_pending` (C08); the
pieces it is assembled from: the scan loop (`c_input_loop`) and the overrun path (`c_overrun_copies_nothing`).

This module is an obligation of C01's and C08's check whenever the translator ACCEPTS the current SCPI_Input.
-/
import ScpiVerif.Model.Ctx
import ScpiVerif.Lemmas.InputC
import ScpiVerif.Lemmas.Chunking

namespace ScpiVerif.Props.C01InputGen
open ScpiVerif ScpiVerif.Ctx ScpiVerif.Gen.InputC ScpiVerif.Lemmas.InputC
open ScpiVerif.Lexer (Bytes)

/-- the scan loop of the generated SCPI_Input, from every state `Inv` describes (no failed CHECK so far, 0 ≤ position,
length ≤ INT_MAX, well-formed hand-model view) and every scan offset inside the pending bytes, with fuel above the number
of pending bytes: it computes what the hand model's `inputLoop` computes (context, return value), and `Inv` holds
afterwards - in particular `ub = false` (every memmove inside the buffer, no wrapping conversion), `outOfFuel = false`, and
position < buffer length (`input_wf` of Props/C01.lean for the loop of the C text) -/
theorem c_input_loop (fuel : Nat) (cc : CC) (res : Bool) (tot cmdlen : Int) (hi : Inv cc) (h0 : 0 ≤ tot)
    (h1 : tot ≤ cc.buffer_position) (hf : (cc.buffer_position - tot).toNat < fuel) :
    (toM (SCPI_Input_loop1 detectM parseM pushM fuel cc res tot cmdlen).1,
      (SCPI_Input_loop1 detectM parseM pushM fuel cc res tot cmdlen).2.1) = inputLoop fuel (toM cc) tot.toNat res ∧
    Inv (SCPI_Input_loop1 detectM parseM pushM fuel cc res tot cmdlen).1 :=
  loop_refines fuel cc res tot cmdlen hi h0 h1 hf

/-- hence: after the loop the context is well formed, nothing undefined happened and fuel was left -/
theorem c_input_loop_wf (fuel : Nat) (cc : CC) (res : Bool) (tot cmdlen : Int) (hi : Inv cc) (h0 : 0 ≤ tot)
    (h1 : tot ≤ cc.buffer_position) (hf : (cc.buffer_position - tot).toNat < fuel) :
    WF (toM (SCPI_Input_loop1 detectM parseM pushM fuel cc res tot cmdlen).1) ∧
    (SCPI_Input_loop1 detectM parseM pushM fuel cc res tot cmdlen).1.ub = false ∧
    (SCPI_Input_loop1 detectM parseM pushM fuel cc res tot cmdlen).1.outOfFuel = false :=
  let h := (loop_refines fuel cc res tot cmdlen hi h0 h1 hf).2
  ⟨h.wf, h.ub, h.oof⟩

/-- an over-long chunk (Props/C01.lean `overrun_copies_nothing`, for the generated function): the generated SCPI_Input is the
hand model's `input` (buffer invalidated, -363 pushed, nothing copied), returns FALSE, and no CHECK fails; `hlen`: the chunk length is a C `int` -/
theorem c_overrun_copies_nothing (cc : CC) (hi : Inv cc) (data : Bytes) (hd : data ≠ [])
    (hlen : data.length ≤ 2147483647) (hov : data.length + 1 > (toM cc).bufLen - (toM cc).position) :
    Ctx.input (toM cc) data = emit (toM (SCPI_Input detectM parseM pushM cc (some data) data.length).1)
        (.input (SCPI_Input detectM parseM pushM cc (some data) data.length).2) ∧
    (SCPI_Input detectM parseM pushM cc (some data) data.length).1.ub = false ∧
    (SCPI_Input detectM parseM pushM cc (some data) data.length).1.outOfFuel = false ∧
    (SCPI_Input detectM parseM pushM cc (some data) data.length).2 = false :=
  input_overrun_refines cc hi data hd hlen hov

/-- every well-formed hand-model context with a buffer of at most INT_MAX bytes is such a state -/
theorem c_inv_of_wf (c : Ctx) (t ht : Int) (h : WF c) (hl : c.bufLen ≤ 2147483647) : Inv (toC c t ht) ∧ toM (toC c t ht) = c :=
  ⟨inv_toC c t ht h hl, toM_toC c t ht⟩

/-- generated SCPI_Input = hand model `Ctx.input` (the hand model logs the return value as an event): for every well-formed
context whose buffer length fits an `int`, every chunk whose length fits an `int` (the `len` parameter of the C function) - the
empty one (flush) and over-long ones included - and whatever parser_state holds; no CHECK fails, the loop does not run out of fuel -/
theorem c_input_refines (c : Ctx) (data : Bytes) (t ht : Int) (h : WF c) (hl : c.bufLen ≤ 2147483647)
    (hlen : data.length ≤ 2147483647) :
    Ctx.input c data = emit (toM (SCPI_Input detectM parseM pushM (toC c t ht) (some data) data.length).1)
        (.input (SCPI_Input detectM parseM pushM (toC c t ht) (some data) data.length).2) ∧
    (SCPI_Input detectM parseM pushM (toC c t ht) (some data) data.length).1.ub = false ∧
    (SCPI_Input detectM parseM pushM (toC c t ht) (some data) data.length).1.outOfFuel = false :=
  input_refines c data t ht h hl hlen

/-- the same from every state `Inv` describes (what a sequence of calls leaves behind) -/
theorem c_input_refines_inv (cc : CC) (hi : Inv cc) (data : Bytes) (hlen : data.length ≤ 2147483647) :
    Ctx.input (toM cc) data = emit (toM (SCPI_Input detectM parseM pushM cc (some data) data.length).1)
        (.input (SCPI_Input detectM parseM pushM cc (some data) data.length).2) ∧
    (SCPI_Input detectM parseM pushM cc (some data) data.length).1.ub = false ∧
    (SCPI_Input detectM parseM pushM cc (some data) data.length).1.outOfFuel = false :=
  input_refines_inv cc hi data hlen

/-- Props/C01.lean `input_wf` for the generated function: after SCPI_Input on ANY chunk (zero-length and over-long ones
included) the buffer object has its declared length, position < length, no out-of-bounds access was recorded by the
instantiated library functions, and no CHECK of the generated text failed -/
theorem c_input_wf (c : Ctx) (data : Bytes) (t ht : Int) (h : WF c) (hl : c.bufLen ≤ 2147483647)
    (hlen : data.length ≤ 2147483647) :
    WF (toM (SCPI_Input detectM parseM pushM (toC c t ht) (some data) data.length).1) ∧
    (toM (SCPI_Input detectM parseM pushM (toC c t ht) (some data) data.length).1).position <
      (toM (SCPI_Input detectM parseM pushM (toC c t ht) (some data) data.length).1).bufLen ∧
    (SCPI_Input detectM parseM pushM (toC c t ht) (some data) data.length).1.ub = false := by
  have hr := input_refines c data t ht h hl hlen
  have hw : WF (Ctx.input c data) := Lemmas.Bounds.input_wf c data h
  rw [hr.1] at hw
  exact ⟨hw, hw.2.1, hr.2.1⟩

/-- Props/C08.lean `flush_executes_pending` for the generated function: the zero-length call hands exactly the pending
bytes to SCPI_Parse as one message (which requires the NUL store behind them), empties the buffer and returns its verdict -/
theorem c_flush_executes_pending (c : Ctx) (t ht : Int) (h : WF c) (hl : c.bufLen ≤ 2147483647) :
    let r := SCPI_Input detectM parseM pushM (toC c t ht) (some []) 0
    (toM r.1).position = 0 ∧
    ((toM r.1).events.drop c.events.length).head? = some (Ev.parseMsg (c.buf.take c.position)) ∧
    r.1.ub = false := by
  intro r
  have hr : Ctx.input c [] = emit (toM r.1) (.input r.2) ∧ r.1.ub = false ∧ r.1.outOfFuel = false :=
    input_refines c [] t ht h hl (by decide)
  have hf := Lemmas.Chunking.flush_executes_pending c h
  simp only at hf
  rw [hr.1] at hf
  refine ⟨hf.1, ?_, hr.2.1⟩
  have h2 := hf.2.1
  show ((toM r.1).events.drop c.events.length).head? = _
  have he : (emit (toM r.1) (Ev.input r.2)).events = (toM r.1).events ++ [Ev.input r.2] := rfl
  rw [he, List.drop_append, List.head?_append] at h2
  cases hc : ((toM r.1).events.drop c.events.length).head? with
  | some x => rw [hc] at h2; exact h2
  | none =>
    rw [hc] at h2
    cases hk : (c.events.length - (toM r.1).events.length) with
    | zero => rw [hk] at h2; simp at h2
    | succ k => rw [hk] at h2; simp at h2

/-! ### concrete runs of the generated SCPI_Input (kernel-evaluated) against the hand model: one per path of `c_input_refines`
(fits + scan loop: also `c_input_wf`; overrun; flush: also `c_flush_executes_pending`) -/

/-- 8-byte buffer, one command "A" with a tag-reporting handler, 3 bytes "A\n" + … pending -/
def ex0 : Ctx := Ctx.init [⟨[65], 1, [.iTag]⟩] [] 8 4 true

/-- what the comparison looks at: buffer, position, return value, events, flags -/
def obs (r : CC × Bool) : Bytes × Nat × Bool × List Ev × Bool × Bool :=
  ((toM r.1).buf, (toM r.1).position, r.2, (toM r.1).events, r.1.ub, r.1.outOfFuel)
def obsM (c : Ctx) : Bytes × Nat × List Ev := (c.buf, c.position, c.events)

-- a chunk that fits exactly, leaving one byte for the NUL: 7 bytes "A\nA\nAAA" into the empty 8-byte buffer; two messages
-- are executed, "AAA" stays pending at the front
example :
    let r := SCPI_Input detectM parseM pushM (toC ex0 0 0) (some [65, 10, 65, 10, 65, 65, 65]) 7
    obsM (Ctx.input ex0 [65, 10, 65, 10, 65, 65, 65]) = obsM (emit (toM r.1) (.input r.2)) ∧
    (toM r.1).position = 3 ∧ (toM r.1).buf.take 3 = [65, 65, 65] ∧ r.2 = true ∧ r.1.ub = false ∧ r.1.outOfFuel = false := by
  decide +kernel

-- an overrun: 8 bytes do not fit (the NUL needs the eighth); nothing is copied, -363 is queued, FALSE
example :
    let r := SCPI_Input detectM parseM pushM (toC ex0 0 0) (some [65, 65, 65, 65, 65, 65, 65, 65]) 8
    obsM (Ctx.input ex0 [65, 65, 65, 65, 65, 65, 65, 65]) = obsM (emit (toM r.1) (.input r.2)) ∧
    (toM r.1).position = 0 ∧ r.2 = false ∧ (toM r.1).events = [Ev.error (-363) none] ∧ r.1.ub = false := by
  decide +kernel

-- a flush: after "A\nAA" the message is executed and "AA" is moved to the front, where the byte behind it (buf[2]) is a stale
-- 'A'; the zero-length call has to store the NUL there, executes "AA" (no such command: -113) and empties the buffer
example :
    let c1 := Ctx.input ex0 [65, 10, 65, 65]
    let r := SCPI_Input detectM parseM pushM (toC c1 0 26) (some []) 0
    c1.position = 2 ∧ c1.buf.take 3 = [65, 65, 65] ∧
    obsM (Ctx.input c1 []) = obsM (emit (toM r.1) (.input r.2)) ∧
    (toM r.1).position = 0 ∧ (toM r.1).buf.take 3 = [65, 65, 0] ∧ r.2 = false ∧ r.1.ub = false := by
  decide +kernel

/-- a sequence of calls (`cstep`: the generated SCPI_Input, the caller appending the return value to the ghost log as the hand
model does): chunk by chunk the generated function computes the hand model's fold, and `Inv` is kept - in every call no CHECK
fails and fuel is left -/
theorem c_inputs_refine (cc : CC) (hi : Inv cc) (chunks : List Bytes) (hl : ∀ d ∈ chunks, d.length ≤ 2147483647) :
    toM (chunks.foldl cstep cc) = chunks.foldl Ctx.input (toM cc) ∧ Inv (chunks.foldl cstep cc) :=
  csteps_refine chunks cc hi hl

/-- Props/C01.lean `inputs_wf` for the generated function: along every history of calls the context stays well formed
(position < length) and nothing undefined happens -/
theorem c_inputs_wf (c : Ctx) (t ht : Int) (h : WF c) (hb : c.bufLen ≤ 2147483647) (chunks : List Bytes)
    (hl : ∀ d ∈ chunks, d.length ≤ 2147483647) :
    WF (toM (chunks.foldl cstep (toC c t ht))) ∧ (chunks.foldl cstep (toC c t ht)).ub = false ∧
    (chunks.foldl cstep (toC c t ht)).outOfFuel = false :=
  let h := (csteps_refine chunks (toC c t ht) (inv_toC c t ht h hb) hl).2
  ⟨h.wf, h.ub, h.oof⟩

-- three calls in a row (a chunk ending inside a message, its completion, a flush): the fold of the generated function against
-- the hand model's
example :
    let chunks : List Bytes := [[65, 10, 65], [10, 65, 65], []]
    let cc := chunks.foldl cstep (toC ex0 0 0)
    obsM (toM cc) = obsM (chunks.foldl Ctx.input ex0) ∧ (toM cc).position = 0 ∧ cc.ub = false ∧ cc.outOfFuel = false ∧
    (toM cc).events.length = 11 := by
  decide +kernel

end ScpiVerif.Props.C01InputGen
