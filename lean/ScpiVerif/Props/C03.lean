/- C03 — placeholder until the matcher theorems are in; not claimed in MANIFEST.json while this comment stands. -/
import ScpiVerif.Model.Match
import ScpiVerif.Spec.Pattern
namespace ScpiVerif.Props.C03
end ScpiVerif.Props.C03
