/-
C03 — A pattern accepts exactly the headers of its short/long-form language.
Property theorems only; helper lemmas in ScpiVerif/Lemmas/Match.lean.

`Spec.Pattern.parsePattern` reads a pattern text of the property's grammar (KEY := an upper-case
letter followed by letters, digits, '_'; common mnemonics contain no lower-case letter; mandatory keywords,
individually optional keywords `[:KEY]`, numeric-suffix keywords `KEY#`, optional trailing `?`,
common `*XXX` patterns); `Spec.Pattern.accepts` lists every reading of a header in the pattern's
language; `Spec.Pattern.wellFormed` is the side condition "no optional keyword can be mistaken for
a keyword that may follow it".  `Match.matchCommand` is the model of the C walker.
-/
import ScpiVerif.Model.Match
import ScpiVerif.Spec.Pattern
import ScpiVerif.Lemmas.Match

namespace ScpiVerif.Props.C03
open ScpiVerif ScpiVerif.Match ScpiVerif.Spec.Pattern
open ScpiVerif.Lexer (Bytes)

/-- the header alphabet of the lexer: letters, digits, '_', ':', '?', '*' -/
def headerAlphabet (b : UInt8) : Bool := isKwChar b || b == 58 || b == 63 || b == 42

/-- numbers[] after an accepted match, for the reading `sol`: the first `min |sol| |nums|` entries
hold the suffix or the default, the rest of the caller's array is untouched -/
def expectedNumbers (nums : List Int) (sol : List (Option Nat)) (dflt : Int) : List Int :=
  let want := sol.map (fun o => match o with | some v => (v : Int) | none => dflt)
  (want.take nums.length) ++ nums.drop want.length

/-- Full statement (acceptance): for every pattern text of the grammar satisfying the side
condition and every header over the header alphabet, the walker accepts iff the header is in the
language; no read outside the strings happens. -/
theorem match_iff_language (pat : Bytes) (p : Pat) (hp : parsePattern pat = some p)
    (hwf : wellFormed p.kws = true) (hdr : Bytes) (hh : hdr.all headerAlphabet = true) :
    (matchCommand pat hdr hdr.length none 0).1 = !(accepts p hdr).isEmpty ∧
    (matchCommand pat hdr hdr.length none 0).2.2 = false :=
  Lemmas.Match.match_iff_language pat p hp hwf hdr hh

/-- Full statement (numeric suffixes): with a numbers array the result is the same, and on
acceptance the array holds, in keyword order, the suffix of every numeric keyword or the caller's
default when the suffix or the keyword was left out (suffix values below 2^31). -/
theorem numbers_spec (pat : Bytes) (p : Pat) (hp : parsePattern pat = some p)
    (hwf : wellFormed p.kws = true) (hdr : Bytes) (hh : hdr.all headerAlphabet = true)
    (nums : List Int) (dflt : Int)
    (hsmall : ∀ sol ∈ accepts p hdr, ∀ o ∈ sol, ∀ v, o = some v → v < 2^31) :
    let r := matchCommand pat hdr hdr.length (some nums) dflt
    r.1 = !(accepts p hdr).isEmpty ∧
    (r.1 = true → ∃ sol ∈ accepts p hdr, r.2.1 = expectedNumbers nums sol dflt) ∧
    r.2.2 = false :=
  Lemmas.Match.numbers_spec pat p hp hwf hdr hh nums dflt hsmall expectedNumbers
    (fun nums sol d => Lemmas.Match.fill_zero_map nums sol d _ (fun o => by cases o <;> rfl))

/-- under the side condition a header has at most one reading -/
theorem reading_unique (p : Pat) (hwf : wellFormed p.kws = true) (hdr : Bytes) :
    (accepts p hdr).length ≤ 1 := Lemmas.Match.reading_unique p hwf hdr

-- non-vacuity (byte lists: "[:MEASure]:VOLTage#:DC?" / "volt12:dc?")
example : parsePattern [91,58,77,69,65,83,117,114,101,93,58,86,79,76,84,97,103,101,35,58,68,67,63] ≠ none := by decide
example : (matchCommand [91,58,77,69,65,83,117,114,101,93,58,86,79,76,84,97,103,101,35,58,68,67,63]
    [118,111,108,116,49,50,58,100,99,63] 10 (some [-777, -777]) 1).1 = true := by decide

-- the reading of the header above, as the spec sees it
example : ∃ p, parsePattern [91,58,77,69,65,83,117,114,101,93,58,86,79,76,84,97,103,101,35,58,68,67,63] = some p ∧
    wellFormed p.kws = true ∧ accepts p [118,111,108,116,49,50,58,100,99,63] = [[some 12]] :=
  ⟨_, rfl, by decide, by decide⟩

/- Patterns the grammar excludes.  The library's convention is that the part of a keyword before
its first lower-case letter is its short form, so a keyword must start with an upper-case letter
and a common (`*`) mnemonic must contain no lower-case letter.  For a pattern breaking the
convention the short form degenerates and matchCommand accepts a header that spells nothing:
"*" for the pattern "*idn" (short form "*"), the empty header for the pattern "a" (empty short
form).  Such patterns are outside the grammar of the property. -/
example : parsePattern [42, 105, 100, 110] = none := by decide      -- "*idn"
example : parsePattern [97] = none := by decide                     -- "a"
example : (matchCommand [42, 105, 100, 110] [42] 1 none 0).1 = true := by decide   -- "*idn" accepts "*"
example : (matchCommand [97] [] 0 none 0).1 = true := by decide                    -- "a" accepts ""

end ScpiVerif.Props.C03
