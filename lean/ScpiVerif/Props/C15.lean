/-
C15 — No formatting or copying API writes past the buffer the caller gave it.
Property theorems only; helper lemmas in ScpiVerif/Lemmas/BufFmt.lean.
`BufFmt.Buf` is a caller buffer of `len` cells with flags for a store outside the object (`oob`) and
a read of a never-written cell (`uninit`).  The integer formatters are covered by C14
(`toStr32_spec` / `toStr64_spec`: nothing at index >= len, NUL iff a byte remains), the quoted-text
copy by `Props.C01.copyText_bound`.
-/
import ScpiVerif.Model.BufFmt
import ScpiVerif.Lemmas.BufFmt

namespace ScpiVerif.Props.C15
open ScpiVerif ScpiVerif.Lexer ScpiVerif.BufFmt

/-- a fresh caller buffer of `len` bytes -/
abbrev fresh := Buf.fresh

/-- SCPI_FloatToStr / SCPI_DoubleToStr, for every text the formatter produces (NUL-free) and every
buffer length including 0 and 1: no store outside the buffer, no read of unwritten memory, the
buffer holds the leading `len - 1` characters NUL-terminated (nothing at all for len = 0) and the
return value is the length of what was written -/
theorem doubleToStr_bounded (len : Nat) (text : Bytes) (ht : text.all (· ≠ 0) = true) :
    let (b, r) := doubleToStr (fresh len) len text
    b.oob = false ∧ b.uninit = false ∧ b.len = len ∧ r = min text.length (len - 1) ∧
    (len > 0 → b.cstring = some (text.take (len - 1))) ∧ (len = 0 → b = fresh 0) :=
  Lemmas.BufFmt.doubleToStr_bounded len text ht

/-- the final copy of SCPI_dtostre (also used for nan / inf): never outside the buffer, always
NUL-terminated when the buffer has room for anything -/
theorem dtostreCopy_bounded (ssize : Nat) (text : Bytes) (ht : text.all (· ≠ 0) = true) :
    let b := dtostreCopy (fresh ssize) ssize text
    b.oob = false ∧ b.uninit = false ∧ (ssize > 0 → b.cstring = some (text.take (ssize - 1))) ∧ (ssize = 0 → b = fresh 0) :=
  Lemmas.BufFmt.dtostreCopy_bounded ssize text ht

/-- SCPI_NumberToStr, for every number text, every unit of the generated table, every special tag and
every buffer length: no store outside the buffer, no read of unwritten memory, the result is a
NUL-terminated prefix of the full text "<number> <unit>" (or of the special name) strictly shorter
than the buffer, and the return value is its length -/
theorem numberToStr_bounded (len : Nat) (special : Bool) (tag : Int) (numText : Bytes) (unit : Nat)
    (ht : numText.all (· ≠ 0) = true) :
    let (b, r) := numberToStr (fresh len) len special tag numText unit
    let full : Bytes := if special then (specialName tag).getD [] else
      (match unitName unit with | some u => numText ++ [32] ++ u | none => numText)
    b.oob = false ∧ b.uninit = false ∧
    (len = 0 → r = 0 ∧ b = fresh 0) ∧
    (len > 0 → ∃ s, b.cstring = some s ∧ r = s.length ∧ s.length < len ∧ s = full.take s.length) :=
  Lemmas.BufFmt.numberToStr_bounded len special tag numText unit ht

/-- names in the generated tables contain no NUL (so they are C strings as the model assumes) -/
theorem table_names_are_c_strings :
    (∀ u ∈ Gen.unitsDef, u.1.toUTF8.toList.all (· ≠ 0) = true) ∧
    (∀ p ∈ Gen.specialNumbersDef, p.1.toUTF8.toList.all (· ≠ 0) = true) :=
  Lemmas.BufFmt.table_names_are_c_strings

-- non-vacuity: the case the unrepaired code overflowed on (4219 OHM into 7 bytes)
example : (numberToStr (fresh 7) 7 false 0 "4219".toUTF8.toList 3).1.oob = false := by decide +kernel

end ScpiVerif.Props.C15
