/-
C14, generated tie — the Lean text translated from the integer formatters of libscpi/src/utils.c on every run
(Gen/IntFmtC.lean, translate/c2lean_intfmt.py) computes what the hand-written model Model/IntFmt.lean computes, so that the
theorems of Props/C14.lean hold of the C text as it is now.  Property theorems only; helper lemmas in Lemmas/IntFmtC.lean.

A written buffer is its STORE LOG: the list of (index, character) pairs in the order of the stores `str[i] = c`.
`expected r` is the hand model's result `r` in that vocabulary: the characters at consecutive indices from 0, then the NUL
at index `pos` iff the model says it is stored, the return value `pos`, the flag `ub`.

This module is an obligation of C14's check whenever the translator ACCEPTS the current utils.c; when it refuses a function
the tie degrades to the differential correspondence of the hand model (recorded in the evidence, `generated_tie`).
-/
import ScpiVerif.Props.C14
import ScpiVerif.Lemmas.IntFmtC

namespace ScpiVerif.Props.C14
open ScpiVerif ScpiVerif.IntFmt ScpiVerif.Gen.IntFmtC ScpiVerif.Lemmas.IntFmtC

/-! ### The C text refines the model (every value, buffer length, base argument, signedness) -/

/-- UInt32ToStrBaseSign as generated from the C text = the hand model instantiated with the generated divisor table -/
theorem c_toStr32_refines (val len : Nat) (base : Int) (sign : Bool) (hv : val < 2 ^ 32) (hl : len < 2 ^ 64) :
    UInt32ToStrBaseSign val len base sign = expected (toStrBaseSign 32 tbl32 val len base sign) :=
  toStr32_refines tbl32 (by decide) val len base sign hv hl

theorem c_toStr64_refines (val len : Nat) (base : Int) (sign : Bool) (hv : val < 2 ^ 64) (hl : len < 2 ^ 64) :
    UInt64ToStrBaseSign val len base sign = expected (toStrBaseSign 64 tbl64 val len base sign) :=
  toStr64_refines tbl64 (by decide) val len base sign hv hl

example : UInt32ToStrBaseSign 0x80000000 40 10 true = expected (toStrBaseSign 32 tbl32 0x80000000 40 10 true) := by decide
example : UInt32ToStrBaseSign 255 3 2 false = expected (toStrBaseSign 32 tbl32 255 3 2 false) := by decide
example : UInt64ToStrBaseSign (2 ^ 64 - 1) 70 16 false = expected (toStrBaseSign 64 tbl64 (2 ^ 64 - 1) 70 16 false) := by decide

/-! ### C14's statement, for the generated functions

The stores are exactly the leading `len` characters of the canonical text at indices 0, 1, ..., then the NUL directly behind
them iff a byte remains; the return value is the number of characters stored; nothing is undefined (no division by zero, no
digit index outside `digits[]`, no loop out of fuel). -/

theorem c_toStr32_spec (val len : Nat) (base : Int) (sign : Bool) (hv : val < 2 ^ 32) (hl : len < 2 ^ 64) :
    UInt32ToStrBaseSign val len base sign = written (canon 32 val base sign) len :=
  gen32_written val len base sign hv hl

theorem c_toStr64_spec (val len : Nat) (base : Int) (sign : Bool) (hv : val < 2 ^ 64) (hl : len < 2 ^ 64) :
    UInt64ToStrBaseSign val len base sign = written (canon 64 val base sign) len :=
  gen64_written val len base sign hv hl

/-- nothing is stored at or beyond `len`, and no index is stored twice (each index below the return value once, in order,
then possibly the NUL at the return value) -/
theorem c_written_inside (cs : List Char) (len : Nat) : ∀ e ∈ (written cs len).1, e.1 < len := by
  have hlog : ∀ (s : Nat) (l : List Char) (e : Nat × Char), e ∈ logOf s l → s ≤ e.1 ∧ e.1 < s + l.length := by
    intro s l
    induction l generalizing s with
    | nil => simp [logOf]
    | cons c t ih =>
      intro e he
      simp only [logOf, List.mem_cons] at he
      rcases he with rfl | he
      · simp
      · have := ih (s + 1) e he
        simp only [List.length_cons]; omega
  intro e he
  simp only [written, List.mem_append] at he
  rcases he with he | he
  · have := hlog 0 _ e he
    simp only [List.length_take] at this; omega
  · split at he
    · simp only [List.mem_singleton] at he; subst he; assumption
    · simp at he

theorem c_toStr32_inside (val len : Nat) (base : Int) (sign : Bool) (hv : val < 2 ^ 32) (hl : len < 2 ^ 64) :
    (∀ e ∈ (UInt32ToStrBaseSign val len base sign).1, e.1 < len) ∧ (UInt32ToStrBaseSign val len base sign).2.2 = false := by
  rw [c_toStr32_spec val len base sign hv hl]; exact ⟨c_written_inside _ _, rfl⟩

theorem c_toStr64_inside (val len : Nat) (base : Int) (sign : Bool) (hv : val < 2 ^ 64) (hl : len < 2 ^ 64) :
    (∀ e ∈ (UInt64ToStrBaseSign val len base sign).1, e.1 < len) ∧ (UInt64ToStrBaseSign val len base sign).2.2 = false := by
  rw [c_toStr64_spec val len base sign hv hl]; exact ⟨c_written_inside _ _, rfl⟩

example : UInt32ToStrBaseSign 0x80000000 40 10 true = written "-2147483648".toList 40 := by decide
example : (UInt32ToStrBaseSign 255 3 2 false).1 = [(0, '1'), (1, '1'), (2, '1')] ∧ (UInt32ToStrBaseSign 255 3 2 false).2.1 = 3 := by decide
example : UInt64ToStrBaseSign (2 ^ 64 - 1) 70 16 false = written "FFFFFFFFFFFFFFFF".toList 70 := by decide
example : UInt64ToStrBaseSign (2 ^ 63) 5 10 true = ([(0, '-'), (1, '9'), (2, '2'), (3, '2'), (4, '3')], 5, false) := by decide

/-! ### The four public wrappers -/

/-- two's complement reading of a signed argument: the value the wrapper hands to the unsigned worker -/
theorem c_int32ToStr (val : Int) (len : Nat) (hl : len < 2 ^ 64) :
    SCPI_Int32ToStr val len = written (canon 32 (toU 32 val) 10 true) len := by
  rw [int32ToStr_eq]; exact gen32_written _ len 10 true (toU_lt 32 val) hl

theorem c_uint32ToStrBase (val len : Nat) (base : Int) (hv : val < 2 ^ 32) (hl : len < 2 ^ 64) :
    SCPI_UInt32ToStrBase val len base = written (canon 32 val base false) len := by
  rw [uint32ToStrBase_eq]; exact gen32_written val len base false hv hl

theorem c_int64ToStr (val : Int) (len : Nat) (hl : len < 2 ^ 64) :
    SCPI_Int64ToStr val len = written (canon 64 (toU 64 val) 10 true) len := by
  rw [int64ToStr_eq]; exact gen64_written _ len 10 true (toU_lt 64 val) hl

theorem c_uint64ToStrBase (val len : Nat) (base : Int) (hv : val < 2 ^ 64) (hl : len < 2 ^ 64) :
    SCPI_UInt64ToStrBase val len base = written (canon 64 val base false) len := by
  rw [uint64ToStrBase_eq]; exact gen64_written val len base false hv hl

/-- the canonical text the wrappers write is canonical (C14's `canon_value`) and fits the scratch buffers of the result
writers with its NUL (C14's `scratch_large_enough`): restated for what the generated wrappers store -/
theorem c_int32ToStr_canonical (val : Int) : CanonOK 32 (toU 32 val) 10 true ∧ (canon 32 (toU 32 val) 10 true).length < Gen.bufU32 :=
  ⟨canon_value32 _ 10 true (toU_lt 32 val), scratch_large_enough32 _ 10 true (toU_lt 32 val)⟩
theorem c_int64ToStr_canonical (val : Int) : CanonOK 64 (toU 64 val) 10 true ∧ (canon 64 (toU 64 val) 10 true).length < Gen.bufU64 :=
  ⟨canon_value64 _ 10 true (toU_lt 64 val), scratch_large_enough64 _ 10 true (toU_lt 64 val)⟩

example : SCPI_Int32ToStr (-2147483648) 40 = written "-2147483648".toList 40 := by decide
example : SCPI_Int32ToStr (-1) 2 = ([(0, '-'), (1, '1')], 2, false) := by decide
example : SCPI_UInt32ToStrBase 255 3 2 = ([(0, '1'), (1, '1'), (2, '1')], 3, false) := by decide
example : SCPI_Int64ToStr (-9223372036854775808) 21 = written "-9223372036854775808".toList 21 := by decide
example : SCPI_UInt64ToStrBase (2 ^ 64 - 1) 70 16 = written "FFFFFFFFFFFFFFFF".toList 70 := by decide
example : SCPI_UInt64ToStrBase 8 0 8 = ([], 0, false) := by decide

end ScpiVerif.Props.C14
