/-
C20, generated tie — the Lean text translated from the string heap of libscpi/src/utils.c on every run (Gen/HeapC.lean,
translate/c2lean_heap.py, configuration B: -DUSE_MEMORY_ALLOCATION_FREE=0) refines the hand-written heap model.
Property theorems only; helper lemmas in ScpiVerif/Lemmas/HeapC.lean.

Proved for ALL inputs: scpiheap_init, scpiheap_strndup, scpiheap_get_parts, scpiheap_free (state, out-parameters, return
value, and the undefined-behaviour flag `ub = false`: no load, store, memcpy, memset, strnlen or pointer computation leaves
the heap buffer or the source string), and the transfer of the heap invariant `HInv` through the generated scpiheap_free
(oldest entry without rollback, newest entry with rollback: the two ways error.c calls it) and through the generated
scpiheap_strndup (a stored text is appended to the invariant's list, a refusal leaves the heap untouched).
The kernel-evaluated equalities on concrete states (text that wraps around the end of the buffer, exact fit to the end, heap
too full, NULL arguments) are kept as non-vacuity checks.

This module is an obligation of C20's check whenever the translator ACCEPTS the current utils.c.
-/
import ScpiVerif.Model.Heap
import ScpiVerif.Lemmas.Heap
import ScpiVerif.Lemmas.HeapC
import ScpiVerif.Lemmas.HeapC2

namespace ScpiVerif.Props.C20
open ScpiVerif ScpiVerif.Heap
open ScpiVerif.Gen.HeapC ScpiVerif.Lemmas.HeapC

/-- scpiheap_init on a buffer of `n` bytes: the hand model's initial heap whatever the structure and the buffer held before;
the memset stays inside the buffer -/
theorem c_heap_init (c : CHeap) (buf : List UInt8) (n : Nat) (hbuf : buf.length = n) :
    scpiheap_init c buf n = (ofModel (Heap.init n), false) := init_refines c buf n hbuf
theorem c_heap_init_wf (n : Nat) (hn : n < 18446744073709551616) : CWF (ofModel (Heap.init n)) := cwf_init n hn
example : scpiheap_init ⟨7, 9, 2, [1]⟩ [65, 66, 67, 68] 4 = (⟨0, 4, 4, [0, 0, 0, 0]⟩, false) := by decide
-- a buffer shorter than the declared length: the memset leaves it, the flag says so
example : (scpiheap_init ⟨0, 0, 0, []⟩ [1, 2] 3).2 = true := by decide

/-- scpiheap_get_parts on a pointer into the heap: lengths, second-part pointer (`heap->data` = offset 0, or NULL) and return
value as in the hand model; nothing is read outside the buffer.  `size_t` subtraction never wraps here (`*len1 - 1` is only
evaluated with `*len1 ≥ 1` because `*s != 0`). -/
theorem c_heap_get_parts (c : CHeap) (s a b : Nat) (p : Option Nat) (hlen : c.data.length = c.size)
    (hsz : c.size < 18446744073709551616) (hs : s < c.size) :
    scpiheap_get_parts (some c) (some s) (some a) (some p) (some b) =
      ((partsResult a p b (getParts (toModel c) s)).1, (partsResult a p b (getParts (toModel c) s)).2.1,
       (partsResult a p b (getParts (toModel c) s)).2.2.1, (partsResult a p b (getParts (toModel c) s)).2.2.2, false) :=
  get_parts_refines c s a b p hlen hsz hs
/-- any NULL argument: FALSE, nothing written, nothing read -/
theorem c_heap_get_parts_null (c : Option CHeap) (s : Option Nat) (a b : Option Nat) (p : Option (Option Nat))
    (h : c = none ∨ s = none ∨ a = none ∨ p = none ∨ b = none) :
    scpiheap_get_parts c s a p b = (a, p, b, false, false) := get_parts_null c s a b p h
-- "CD" wraps: 'C' in the last byte, 'D' at offset 0; "AB" does not
example : scpiheap_get_parts (some ⟨2, 1, 6, [68, 0, 0, 65, 66, 67]⟩) (some 5) (some 9) (some none) (some 9) =
    (some 1, some (some 0), some 1, true, false) := by decide
example : scpiheap_get_parts (some ⟨2, 1, 6, [68, 0, 0, 65, 66, 0]⟩) (some 3) (some 9) (some (some 4)) (some 9) =
    (some 2, some none, some 0, true, false) := by decide
example : scpiheap_get_parts (some ⟨2, 1, 6, [68, 0, 0, 65, 66, 0]⟩) (some 1) (some 9) (some (some 4)) (some 7) =
    (some 9, some (some 4), some 7, false, false) := by decide

/-- scpiheap_free on a pointer to a stored text (hypotheses of the hand model's `free_spec`, plus: the bytes being released were
counted as used): the hand model's state, nothing written outside the buffer, no `size_t` operation wraps except the pair
`wr += size; wr -= rb` whose final value is exact -/
theorem c_heap_free (c : CHeap) (s : Nat) (t : Bytes) (rb : Bool) (hlen : c.data.length = c.size)
    (hsz : c.size < 18446744073709551616) (hs : s < c.size) (hfit : t.length + 1 ≤ c.size) (hg : Lemmas.Heap.Good t)
    (hh : Lemmas.Heap.Holds (toModel c) s t) (hcnt : c.count + (t.length + 1) ≤ c.size) (hwr : c.wr < c.size) :
    scpiheap_free c (some s) rb = (ofModel (free (toModel c) (some s) rb), false) :=
  free_refines c s t rb hlen hsz hs hfit hg hh hcnt hwr
theorem c_heap_free_null (c : CHeap) (rb : Bool) : scpiheap_free c none rb = (ofModel (free (toModel c) none rb), false) :=
  free_null c rb
theorem c_heap_free_at_nul (c : CHeap) (s : Nat) (rb : Bool) (hlen : c.data.length = c.size)
    (hsz : c.size < 18446744073709551616) (hs : s < c.size) (h0 : c.data.getD s 0 = 0) :
    scpiheap_free c (some s) rb = (ofModel (free (toModel c) (some s) rb), false) := free_at_nul c s rb hlen hsz hs h0

/-- the heap invariant of the hand model, transferred: releasing the OLDEST text through the generated scpiheap_free (as
SCPI_ErrorPop / SCPI_ErrorClear do) keeps `HInv` for the remaining texts -/
theorem c_heap_free_oldest (c : CHeap) (st : Nat) (t : Bytes) (ts : List Bytes) (hsz : c.size < 18446744073709551616)
    (hi : Lemmas.Heap.HInv (toModel c) st (t :: ts)) :
    (scpiheap_free c (some st) false).2 = false ∧
    ∃ st', Lemmas.Heap.HInv (toModel (scpiheap_free c (some st) false).1) st' ts := by
  obtain ⟨hh, hoff, hfit, hg⟩ := Lemmas.Heap.hinv_holds (ts1 := []) hi
  have hst : st < c.size := by have := hi.st_lt; have := hfit; simp only [toModel_size] at *; omega
  simp only [Lemmas.Heap.enc, List.length_nil, Nat.add_zero, toModel_size, Nat.mod_eq_of_lt hst] at hh hoff hfit
  have hcnt : c.count + (t.length + 1) ≤ c.size := by
    have := hi.cnt; simp [Lemmas.Heap.enc, toModel_size, toModel_count] at this; omega
  have hwr : c.wr < c.size := Lemmas.Heap.hinv_wr_lt hi (by simp only [toModel_size]; omega)
  rw [free_refines c st t false hi.len hsz hst hfit hg hh hcnt hwr]
  obtain ⟨st', h1, _, _⟩ := Lemmas.Heap.hinv_free_oldest hi
  exact ⟨rfl, st', by
    show Lemmas.Heap.HInv (toModel (ofModel _)) st' ts
    rw [toModel_ofModel _ h1.oob]; exact h1⟩

/-- releasing the NEWEST text with rollback (the overflow path of SCPI_ErrorPushEx) keeps `HInv` for the texts before it -/
theorem c_heap_free_newest (c : CHeap) (st : Nat) (t : Bytes) (ts : List Bytes) (hsz : c.size < 18446744073709551616)
    (hi : Lemmas.Heap.HInv (toModel c) st (ts ++ [t])) :
    (scpiheap_free c (some ((st + (Lemmas.Heap.enc ts).length) % c.size)) true).2 = false ∧
    ∃ st', Lemmas.Heap.HInv (toModel (scpiheap_free c (some ((st + (Lemmas.Heap.enc ts).length) % c.size)) true).1) st' ts := by
  obtain ⟨hh, hoff, hfit, hg⟩ := Lemmas.Heap.hinv_holds (ts2 := []) hi
  simp only [toModel_size] at hh hoff hfit
  have hcnt : c.count + (t.length + 1) ≤ c.size := by
    have := hi.cnt; simp [Lemmas.Heap.enc_append, Lemmas.Heap.enc, toModel_size, toModel_count] at this; omega
  have hwr : c.wr < c.size := Lemmas.Heap.hinv_wr_lt hi (by simp only [toModel_size]; omega)
  rw [free_refines c _ t true hi.len hsz hoff hfit hg hh hcnt hwr]
  obtain ⟨st', h1, _, _⟩ := Lemmas.Heap.hinv_free_newest hi
  simp only [toModel_size] at h1
  exact ⟨rfl, st', by
    show Lemmas.Heap.HInv (toModel (ofModel _)) st' ts
    rw [toModel_ofModel _ h1.oob]; exact h1⟩

-- free of the wrapped text "CD" at offset 5 of a full 6-byte heap, with rollback (it is the newest: wr = 2 goes back to 5),
-- and without rollback; free of the only text empties the heap and rewinds wr
example : scpiheap_free ⟨2, 0, 6, [68, 0, 65, 66, 0, 67]⟩ (some 5) true = (⟨5, 3, 6, [0, 0, 65, 66, 0, 0]⟩, false) := by decide
example : scpiheap_free ⟨2, 0, 6, [68, 0, 65, 66, 0, 67]⟩ (some 5) false = (⟨2, 3, 6, [0, 0, 65, 66, 0, 0]⟩, false) := by decide
example : scpiheap_free ⟨4, 3, 6, [0, 65, 66, 0, 0, 0]⟩ (some 1) false = (⟨0, 6, 6, [0, 0, 0, 0, 0, 0]⟩, false) := by decide
example : scpiheap_free ⟨2, 0, 6, [68, 0, 65, 66, 0, 67]⟩ (some 5) true =
    (ofModel (free (toModel ⟨2, 0, 6, [68, 0, 65, 66, 0, 67]⟩) (some 5) true), false) := by decide

/-! ### scpiheap_strndup -/

/-- scpiheap_strndup on a well-formed heap (`CWF`) and a source that is NUL-terminated within `n` bytes or has at least `n + 1`
readable bytes (`SrcOK`; the memcpy reads `strnlen(s, n) + 1` bytes): new state (`wr`, `count`, `size`, every byte of the
buffer) and returned pointer as in the hand model - the four refusals, the copy in one piece, the copy in two pieces around
the end of the buffer and the copy that ends exactly at the end; no `size_t` operation wraps; nothing is read outside the source
or written outside the buffer -/
theorem c_heap_strndup (c : CHeap) (src : Bytes) (n : Nat) (hc : CWF c) (hs : SrcOK src n) :
    scpiheap_strndup (some c) (some src) n =
      (some (ofModel (strndup (toModel c) src n).1), (strndup (toModel c) src n).2, false) :=
  strndup_refines c src n hc hs

/-- NULL source, NULL heap, heap of size 0: NULL, nothing touched; and whenever the hand model refuses (write position
occupied, empty text, text longer than the free space) the generated function returns NULL and the same heap -/
theorem c_heap_strndup_refused :
    (∀ (c : Option CHeap) (n : Nat), scpiheap_strndup c none n = (c, none, false)) ∧
    (∀ (s : Option (List UInt8)) (n : Nat), scpiheap_strndup none s n = (none, none, false)) ∧
    (∀ (c : CHeap) (src : Bytes) (n : Nat), c.size = 0 → scpiheap_strndup (some c) (some src) n = (some c, none, false)) ∧
    (∀ (c : CHeap) (src : Bytes) (n : Nat), CWF c → SrcOK src n → strndup (toModel c) src n = (toModel c, none) →
      scpiheap_strndup (some c) (some src) n = (some c, none, false)) :=
  ⟨strndup_null_src, strndup_null_heap, strndup_size_zero, fun c src n hc hs hm => by
    rw [strndup_refines c src n hc hs, hm]; rfl⟩

/-- the heap invariant of the hand model, transferred through the GENERATED scpiheap_strndup (the call of SCPI_ErrorPushEx):
either NULL and the heap unchanged, or the returned pointer is the invariant's write position and `HInv` holds with the
stored text `(cstr src).take n` appended -/
theorem c_heap_strndup_inv (c : CHeap) (st : Nat) (ts : List Bytes) (src : Bytes) (n : Nat)
    (hsz : c.size < 18446744073709551616) (hi : Lemmas.Heap.HInv (toModel c) st ts) (hs : SrcOK src n) (hn : 1 ≤ n) :
    (scpiheap_strndup (some c) (some src) n).2.2 = false ∧
    (scpiheap_strndup (some c) (some src) n = (some c, none, false) ∨
     ∃ c', scpiheap_strndup (some c) (some src) n = (some c', some ((st + (Lemmas.Heap.enc ts).length) % c.size), false) ∧
       c'.size = c.size ∧ Lemmas.Heap.HInv (toModel c') st (ts ++ [(cstr src).take n])) := by
  have hc : CWF c := by
    refine ⟨hi.len, hsz, ?_, ?_⟩
    · have := hi.cnt; simp only [toModel_count, toModel_size] at this; omega
    · by_cases h0 : c.size = 0
      · exact Or.inr h0
      · exact Or.inl (Lemmas.Heap.hinv_wr_lt hi h0)
  rw [strndup_refines c src n hc hs]
  refine ⟨rfl, ?_⟩
  rcases Lemmas.Heap.hinv_strndup hi src n hn with hm | ⟨h', hm, _, hsize, hi'⟩
  · left; rw [hm]; rfl
  · right
    refine ⟨ofModel h', by rw [hm]; rfl, hsize, ?_⟩
    rw [toModel_ofModel _ hi'.oob]; exact hi'

/-- a text stored by the GENERATED scpiheap_strndup is read back unmodified: under the heap invariant, when the call returns a
pointer, the text that pointer denotes (what the generated scpiheap_get_parts delimits, `c_heap_get_parts`, and
SCPI_ResultError emits) is exactly `(cstr src).take n` -/
theorem c_heap_strndup_readable (c : CHeap) (st : Nat) (ts : List Bytes) (src : Bytes) (n : Nat)
    (hsz : c.size < 18446744073709551616) (hi : Lemmas.Heap.HInv (toModel c) st ts) (hs : SrcOK src n) (hn : 1 ≤ n)
    (c' : CHeap) (p : Nat) (h : scpiheap_strndup (some c) (some src) n = (some c', some p, false)) :
    textAt (toModel c') p = some ((cstr src).take n) := by
  obtain ⟨_, hr⟩ := c_heap_strndup_inv c st ts src n hsz hi hs hn
  rcases hr with hr | ⟨c'', hr, hsize, hi'⟩
  · rw [h] at hr; simp at hr
  · rw [h] at hr
    simp only [Prod.mk.injEq, Option.some.injEq, and_true] at hr
    obtain ⟨rfl, rfl⟩ := hr
    obtain ⟨hh, hoff, hfit, hg⟩ := Lemmas.Heap.hinv_holds (ts1 := ts) (ts2 := []) hi'
    rw [toModel_size, hsize] at hh hoff
    exact (Lemmas.Heap.getParts_of_holds (toModel c') _ _ hi'.len (by rw [toModel_size, hsize]; exact hoff) hfit hg hh).2

/-- `fits_means_stored` at the level of the generated heap functions: a non-empty NUL-free text shorter than an EMPTY heap
(the state scpiheap_init leaves, `c_heap_init`) is stored by the generated scpiheap_strndup at offset 0 and read back
unmodified -/
theorem c_heap_fits_means_stored (N : Nat) (hN : N < 18446744073709551616) (s : Bytes) (hs : s.all (· ≠ 0) = true)
    (hne : s ≠ []) (hfit : s.length < N) (n : Nat) (hn : s.length ≤ n) :
    ∃ c', scpiheap_strndup (some (ofModel (Heap.init N))) (some (s ++ [0])) n = (some c', some 0, false) ∧
      textAt (toModel c') 0 = some s := by
  have hnz : ∀ b ∈ s, b ≠ 0 := by simpa using hs
  have hcs : cstr (s ++ [0]) = s := Lemmas.Heap.takeWhile_text s [] hnz
  have hT : (cstr (s ++ [0])).take n = s := by rw [hcs]; exact List.take_of_length_le hn
  have hpos : 0 < s.length := List.length_pos_iff.mpr hne
  have hso : SrcOK (s ++ [0]) n := ⟨by simp; omega, by rw [hT]; simp⟩
  have hi : Lemmas.Heap.HInv (toModel (ofModel (Heap.init N))) 0 [] := by
    rw [toModel_ofModel _ rfl]; exact Lemmas.Heap.hinv_init N
  have hsz : (ofModel (Heap.init N)).size < 18446744073709551616 := hN
  obtain ⟨h', hm, _⟩ := Lemmas.Heap.strndup_ok (Heap.init N) (s ++ [0]) n (by simp [Heap.init]) (by simp [Heap.init]; omega)
    (by cases N with
        | zero => omega
        | succ k => simp [Heap.init, List.replicate_succ]) (by rw [hcs]; exact hne) (by rw [hT]; simp [Heap.init]; omega) (by simp [Heap.init])
  have hg := c_heap_strndup (ofModel (Heap.init N)) (s ++ [0]) n (c_heap_init_wf N hN) hso
  rw [toModel_ofModel _ rfl, hm] at hg
  refine ⟨ofModel h', hg, ?_⟩
  have := c_heap_strndup_readable (ofModel (Heap.init N)) 0 [] (s ++ [0]) n hsz hi hso (by omega) (ofModel h') 0 hg
  rw [hT] at this; exact this
-- "AB" into an empty 6-byte heap: stored at offset 0, and what get_parts delimits there is "AB"
example : scpiheap_strndup (some (ofModel (Heap.init 6))) (some [65, 66, 0]) 255 =
    (some ⟨3, 3, 6, [65, 66, 0, 0, 0, 0]⟩, some 0, false) := by decide
example : textAt (toModel ⟨3, 3, 6, [65, 66, 0, 0, 0, 0]⟩) 0 = some [65, 66] := by decide

/-- the refinement statement as a decidable check on one input (non-vacuity of `c_heap_strndup` on concrete states) -/
def strndupAgrees (c : CHeap) (src : List UInt8) (n : Nat) : Bool :=
  decide (scpiheap_strndup (some c) (some src) n =
    (some (ofModel (strndup (toModel c) src n).1), (strndup (toModel c) src n).2, false))

-- a text that wraps around the end of the buffer ("ABCD" at offset 4 of 6: 'A','B' at the end, 'C','D',NUL at the start)
example : scpiheap_strndup (some ⟨4, 5, 6, [0, 0, 0, 88, 0, 0]⟩) (some [65, 66, 67, 68, 0]) 255 =
    (some ⟨3, 0, 6, [67, 68, 0, 88, 65, 66]⟩, some 4, false) := by decide
example : strndupAgrees ⟨4, 5, 6, [0, 0, 0, 88, 0, 0]⟩ [65, 66, 67, 68, 0] 255 = true := by decide
-- exact fit to the end of the buffer: the NUL lands in the last byte, wr wraps to 0 (`len >= rem` with equality)
example : scpiheap_strndup (some ⟨3, 6, 6, [0, 0, 0, 0, 0, 0]⟩) (some [65, 66, 0]) 255 =
    (some ⟨0, 3, 6, [0, 0, 0, 65, 66, 0]⟩, some 3, false) := by decide
example : strndupAgrees ⟨3, 6, 6, [0, 0, 0, 0, 0, 0]⟩ [65, 66, 0] 255 = true := by decide
-- truncation by n (the byte after the copied text is not NUL in the source: the forced NUL replaces it), plain case
example : scpiheap_strndup (some ⟨1, 5, 6, [88, 0, 0, 0, 0, 0]⟩) (some [65, 66, 67, 68, 0]) 2 =
    (some ⟨4, 2, 6, [88, 65, 66, 0, 0, 0]⟩, some 1, false) := by decide
example : strndupAgrees ⟨1, 5, 6, [88, 0, 0, 0, 0, 0]⟩ [65, 66, 67, 68, 0] 2 = true := by decide
-- too long for the free space, write position occupied, empty text, NULL arguments, heap of size 0: NULL, heap untouched
example : strndupAgrees ⟨1, 2, 6, [88, 0, 0, 0, 89, 90]⟩ [65, 66, 67, 0] 255 = true := by decide
example : (scpiheap_strndup (some ⟨1, 2, 6, [88, 0, 0, 0, 89, 90]⟩) (some [65, 66, 67, 0]) 255).2.1 = none := by decide
example : strndupAgrees ⟨0, 2, 6, [88, 0, 0, 0, 89, 90]⟩ [65, 0] 255 = true := by decide
example : strndupAgrees ⟨1, 5, 6, [88, 0, 0, 0, 0, 0]⟩ [0] 255 = true := by decide
example : strndupAgrees ⟨0, 0, 0, []⟩ [65, 0] 255 = true := by decide
example : scpiheap_strndup none (some [65, 0]) 255 = (none, none, false) := by decide
example : scpiheap_strndup (some ⟨1, 5, 6, [88, 0, 0, 0, 0, 0]⟩) none 255 = (some ⟨1, 5, 6, [88, 0, 0, 0, 0, 0]⟩, none, false) := by decide
-- a source that is neither NUL-terminated nor longer than n: the C function reads one byte past it (flag set)
example : (scpiheap_strndup (some ⟨1, 5, 6, [88, 0, 0, 0, 0, 0]⟩) (some [65, 66]) 2).2.2 = true := by decide

end ScpiVerif.Props.C20
