/-
C12, generated tie — latching of condition changes and the service-request callback, restated for the Lean text translated
from SCPI_RegSet (libscpi/src/ieee488.c) on every run (Gen/RegsC.lean, translate/c2lean_regs.py).
Property theorems only; helper lemmas in ScpiVerif/Lemmas/RegsC.lean.  Built and audited by C12's check whenever the
translator accepts the current ieee488.c (see Props/C11Gen.lean).
-/
import ScpiVerif.Model.Regs
import ScpiVerif.Lemmas.Regs
import ScpiVerif.Lemmas.RegsC
import ScpiVerif.Props.C12
import ScpiVerif.Props.C11Gen

namespace ScpiVerif.Props.C12
open ScpiVerif ScpiVerif.Regs ScpiVerif.Gen.RegsC ScpiVerif.Lemmas.RegsC ScpiVerif.Props.C11

/-- a 0→1 change of a condition bit latches the same bit in the event register (generated SCPI_RegSet / SCPI_RegGet) -/
theorem c_cond_latches_oper (c : CCtx) (b : St) (v : Reg) (hcb : CB c) (hwf : WF (toSt c b)) :
    SCPI_RegGet (SCPI_RegSet c OPERC v) OPER = SCPI_RegGet c OPER ||| (v &&& ~~~(SCPI_RegGet c OPERC)) ∧
    SCPI_RegGet (SCPI_RegSet c OPERC v) OPERC = v := by
  simp only [c_regGet _ b, c_regSet _ _ _ _ hcb hwf.1]
  exact cond_latches_oper (toSt c b) v hwf
theorem c_cond_latches_ques (c : CCtx) (b : St) (v : Reg) (hcb : CB c) (hwf : WF (toSt c b)) :
    SCPI_RegGet (SCPI_RegSet c QUESC v) QUES = SCPI_RegGet c QUES ||| (v &&& ~~~(SCPI_RegGet c QUESC)) ∧
    SCPI_RegGet (SCPI_RegSet c QUESC v) QUESC = v := by
  simp only [c_regGet _ b, c_regSet _ _ _ _ hcb hwf.1]
  exact cond_latches_ques (toSt c b) v hwf
-- bit 8 was set and stays, bit 9 rises and is latched, bit 10 falls and is not
example : let c := SCPI_RegSet (SCPI_RegSet (ofSt (St.init 2)) 6 0x0500#16) 6 0x0300#16
    SCPI_RegGet c 4 = 0x0700#16 ∧ SCPI_RegGet c 6 = 0x0300#16 := by decide

/-- event bits stay set under every operation that is not defined to clear them (register operations through the
generated text) -/
theorem c_event_monotone (s : St) (op : Op) (ev : Nat) (hev : ev = ESR ∨ ev = OPER ∨ ev = QUES)
    (hwf : WF s) (hop : op.ok = true) (hnc : clears ev op = false) :
    get s ev &&& ~~~(get (gstep s op) ev) = 0 := by
  rw [c_gstep s op hwf]; exact event_monotone s op ev hev hwf hop hnc

/-- single register write through the generated SCPI_RegSet: the control callback is called at most once, only with MSS
set in the value passed, the value passed is the status byte after the write, and it is called whenever MSS rises -/
theorem c_srq_regset (c : CCtx) (b : St) (name : Nat) (v : Reg) (hcb : CB c) (hwf : WF (toSt c b)) (hc : Coherent (toSt c b)) :
    let c' := SCPI_RegSet c name v
    (srqOf c'.ctrlLog = srqOf c.ctrlLog ∨
      (srqOf c'.ctrlLog = srqOf c.ctrlLog ++ [SCPI_RegGet c' STB] ∧ SCPI_RegGet c' STB &&& stbSRQ ≠ 0)) ∧
    (SCPI_RegGet c STB &&& stbSRQ = 0 → SCPI_RegGet c' STB &&& stbSRQ ≠ 0 →
      srqOf c'.ctrlLog = srqOf c.ctrlLog ++ [SCPI_RegGet c' STB]) := by
  have h := srq_regset (toSt c b) name v hwf hc
  simp only [← c_regSet _ _ _ _ hcb hwf.1, mss, ← c_regGet, decide_eq_true_eq, decide_eq_false_iff_not, Decidable.not_not] at h
  exact h

/-- every operation (register operations through the generated text): callbacks are appended only, each carries MSS, a
rise of MSS implies at least one -/
theorem c_srq_step (s : St) (op : Op) (hwf : WF s) (hc : Coherent s) (hop : op.ok = true) :
    ∃ new, (gstep s op).srq = s.srq ++ new ∧ (∀ v ∈ new, v &&& stbSRQ ≠ 0) ∧
      (mss s = false → mss (gstep s op) = true → new ≠ []) := by
  rw [c_gstep s op hwf]; exact srq_step s op hwf hc hop

example : (([Op.set SRE 0x20, .set ESE 0x20, .errPush (-100)].foldl gstep (St.init 2)).srq) = [0x60#16, 0x64#16] ∨
          (([Op.set SRE 0x20, .set ESE 0x20, .errPush (-100)].foldl gstep (St.init 2)).srq) = [0x60#16] := by decide

end ScpiVerif.Props.C12
