/-
C14 — Integer-to-text conversion is exact for every value, base and buffer size.

Property theorems only (helper lemmas live in ScpiVerif/Lemmas/IntFmt.lean).
The divisor tables and digit alphabets are the GENERATED ones (Gen/Tables.lean), so a change
of a constant in utils.c re-states these theorems about the new constant.
-/
import ScpiVerif.Gen.Tables
import ScpiVerif.Model.IntFmt
import ScpiVerif.Lemmas.IntFmt

namespace ScpiVerif.Props.C14
open ScpiVerif ScpiVerif.IntFmt

def tbl32 : DivTable := ⟨Gen.div32.1, Gen.div32.2.1, Gen.div32.2.2.1, Gen.div32.2.2.2⟩
def tbl64 : DivTable := ⟨Gen.div64.1, Gen.div64.2.1, Gen.div64.2.2.1, Gen.div64.2.2.2⟩

/-- the digit alphabets in the source are the model's -/
theorem digits_alphabet : Gen.digits32.toList = digitsTable ∧ Gen.digits64.toList = digitsTable := by
  decide

/-- Full statement, 32 bit: for every value, buffer length, base argument and signedness the
function stores exactly the leading `len` characters of the canonical text, returns how many it
stored, writes the NUL iff a byte remains, and no step is undefined (no division by zero, digit
index < 16, no wrap of `digit * x`). -/
theorem toStr32_spec (val len : Nat) (base : Int) (sign : Bool) (hv : val < 2^32) :
    let r := toStrBaseSign 32 tbl32 val len base sign
    r.1.chars = (canon 32 val base sign).take len ∧
    r.1.pos = min len (canon 32 val base sign).length ∧
    r.1.ub = false ∧
    r.2 = decide (min len (canon 32 val base sign).length < len) :=
  Lemmas.IntFmt.toStr_spec 32 tbl32 (by decide) (by decide) val len base sign hv

theorem toStr64_spec (val len : Nat) (base : Int) (sign : Bool) (hv : val < 2^64) :
    let r := toStrBaseSign 64 tbl64 val len base sign
    r.1.chars = (canon 64 val base sign).take len ∧
    r.1.pos = min len (canon 64 val base sign).length ∧
    r.1.ub = false ∧
    r.2 = decide (min len (canon 64 val base sign).length < len) :=
  Lemmas.IntFmt.toStr_spec 64 tbl64 (by decide) (by decide) val len base sign hv

/-- the canonical text has no leading zero (except "0" itself), only upper-case digits of the
base, and its value is `val` (signed reading when a '-' is present) -/
theorem canon_value32 (val : Nat) (base : Int) (sign : Bool) (hv : val < 2^32) :
    CanonOK 32 val base sign := Lemmas.IntFmt.canon_ok 32 (by decide) val base sign hv

theorem canon_value64 (val : Nat) (base : Int) (sign : Bool) (hv : val < 2^64) :
    CanonOK 64 val base sign := Lemmas.IntFmt.canon_ok 64 (by decide) val base sign hv

/-- the scratch buffers of the result writers (33 / 65 bytes) hold every text with its NUL -/
theorem scratch_large_enough32 (val : Nat) (base : Int) (sign : Bool) (hv : val < 2^32) :
    (canon 32 val base sign).length < Gen.bufU32 := Lemmas.IntFmt.canon_len 32 (by decide) val base sign hv |> fun h => by
  have : Gen.bufU32 = 33 := by decide
  omega

theorem scratch_large_enough64 (val : Nat) (base : Int) (sign : Bool) (hv : val < 2^64) :
    (canon 64 val base sign).length < Gen.bufU64 := Lemmas.IntFmt.canon_len 64 (by decide) val base sign hv |> fun h => by
  have : Gen.bufU64 = 65 := by decide
  omega

-- non-vacuity: concrete instances computed by the kernel
example : (toStrBaseSign 32 tbl32 0x80000000 40 10 true).1.chars = "-2147483648".toList := by decide
example : (toStrBaseSign 32 tbl32 255 3 2 false).1.chars = "111".toList := by decide
example : (toStrBaseSign 64 tbl64 (2^64-1) 70 16 false).1.chars = "FFFFFFFFFFFFFFFF".toList := by decide

end ScpiVerif.Props.C14
