import ScpiVerif.Model.IntFmt
