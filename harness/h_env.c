#include "h_env.h"
#include <sanitizer/asan_interface.h>

/* ---- hooks called by the library when built with -DSCPI_PARSER_VERIF ---- */
void (*h_parse_hook_fn)(scpi_t *, const char *, int) = NULL;
unsigned long h_poison_calls = 0;
void scpi_verif_parse_hook(scpi_t *context, const char *data, int len) { if (h_parse_hook_fn) h_parse_hook_fn(context, data, len); }
void scpi_verif_input_hook(scpi_t *context, int stored) {
    char *d = context->buffer.data; size_t n = context->buffer.length, p = context->buffer.position;
    if (!d || !n) return;
    if (!stored) ASAN_UNPOISON_MEMORY_REGION(d, n);
    else if (p + 1 < n) { ASAN_POISON_MEMORY_REGION(d + p + 1, n - p - 1); h_poison_calls++; }
}

static h_env_t *env_of(scpi_t *ctx) { return (h_env_t *) ctx->user_context; }

static size_t cb_write(scpi_t *ctx, const char *data, size_t len) {
    h_env_t *e = env_of(ctx);
    if (e->out_len + len + 1 > e->out_cap) {
        e->out_cap = (e->out_len + len + 1) * 2;
        e->out = (char *) realloc(e->out, e->out_cap);
    }
    memcpy(e->out + e->out_len, data, len);
    e->out_len += len;
    e->out[e->out_len] = 0;
    return len;
}
static scpi_result_t cb_flush(scpi_t *ctx) { env_of(ctx)->flushes++; return SCPI_RES_OK; }
static int cb_error(scpi_t *ctx, int_fast16_t err) {
    h_env_t *e = env_of(ctx);
    if (e->n_errcb < 256) e->errcb[e->n_errcb++] = (int) err;
    return 0;
}
static scpi_result_t cb_control(scpi_t *ctx, scpi_ctrl_name_t ctrl, scpi_reg_val_t val) {
    h_env_t *e = env_of(ctx);
    if (ctrl == SCPI_CTRL_SRQ && e->n_srq < 256) { e->srq_stb[e->n_srq] = ctx->registers[SCPI_REG_STB]; e->srq[e->n_srq++] = val; }
    return SCPI_RES_OK;
}
static scpi_result_t cb_reset(scpi_t *ctx) { env_of(ctx)->resets++; return SCPI_RES_OK; }

void h_env_init(h_env_t *e, const scpi_command_t *cmds, size_t inbuf_len, int queue_len, size_t heap_len) {
    memset(e, 0, sizeof *e);
    e->iface.write = cb_write; e->iface.flush = cb_flush; e->iface.error = cb_error;
    e->iface.control = cb_control; e->iface.reset = cb_reset;
    e->inbuf_len = inbuf_len; e->inbuf = (char *) malloc(inbuf_len ? inbuf_len : 1);
    memset(e->inbuf, 0x55, inbuf_len ? inbuf_len : 1);
    e->queue_len = queue_len; e->queue = (scpi_error_t *) malloc(sizeof(scpi_error_t) * (queue_len > 0 ? queue_len : 1));
    memset(e->queue, 0x55, sizeof(scpi_error_t) * (queue_len > 0 ? queue_len : 1));
    e->heap_len = heap_len; e->heap = (char *) malloc(heap_len ? heap_len : 1);
    memset(e->heap, 0x55, heap_len ? heap_len : 1);
    e->out_cap = 256; e->out = (char *) malloc(e->out_cap); e->out[0] = 0;
    SCPI_Init(&e->ctx, cmds, &e->iface, scpi_units_def, "MANU", "MODEL", NULL, "01-02", e->inbuf, inbuf_len, e->queue, (int16_t) queue_len);
#if USE_DEVICE_DEPENDENT_ERROR_INFORMATION && !USE_MEMORY_ALLOCATION_FREE
    SCPI_InitHeap(&e->ctx, e->heap, heap_len);
#endif
    e->ctx.user_context = e;
}
void h_env_clear_capture(h_env_t *e) {
    e->out_len = 0; e->out[0] = 0; e->flushes = 0; e->n_errcb = 0; e->n_srq = 0; e->resets = 0;
}
void h_env_free(h_env_t *e) {
    ASAN_UNPOISON_MEMORY_REGION(e->inbuf, e->inbuf_len ? e->inbuf_len : 1);
    free(e->inbuf); free(e->queue); free(e->heap); free(e->out);
}

/* ---- allocation tracking: -Wl,--wrap=strndup,--wrap=free ---- */
char *__real_strndup(const char *s, size_t n);
void __real_free(void *p);
int h_fail_strndup = 0;
static void *live[4096]; static int n_live = 0;
char *__wrap_strndup(const char *s, size_t n) {
    char *p;
    if (h_fail_strndup) { h_fail_strndup = 0; return NULL; }
    p = __real_strndup(s, n);
    if (p && n_live < 4096) live[n_live++] = p;
    return p;
}
void __wrap_free(void *p) {
    int i;
    for (i = 0; i < n_live; i++) if (live[i] == p) { live[i] = live[--n_live]; break; }
    __real_free(p);
}
int h_live_allocs(void) { return n_live; }
void h_alloc_reset(void) { n_live = 0; }
