#include <stdarg.h>
#include "h_common.h"

uint64_t h_rng_state = 88172645463325252ULL;
unsigned h_shard = 0, h_nshards = 1;
uint64_t h_case_no = 0;
int h_thorough = 0;
int h_exhaustive = 0;     /* thorough tier proper (not the widened search of a quick run): complete enumerations that take minutes */
uint64_t h_seed = 0;
char h_current_case[8192];

void h_hex(FILE *f, const void *data, size_t len) {
    const unsigned char *p = (const unsigned char *) data;
    size_t i;
    if (len == 0) { fputc('-', f); return; }
    for (i = 0; i < len; i++) fprintf(f, "%02x", p[i]);
}
void h_hexs(FILE *f, const char *s) {
    if (!s) { fputc('N', f); return; }
    h_hex(f, s, strlen(s));
}
size_t h_unhex(const char *hex, unsigned char *out, size_t cap) {
    size_t n = 0;
    if (hex[0] == '-' || hex[0] == 'N') return 0;
    while (hex[0] && hex[1] && n < cap) {
        unsigned v;
        if (sscanf(hex, "%2x", &v) != 1) break;
        out[n++] = (unsigned char) v;
        hex += 2;
    }
    return n;
}
void h_set_case(const char *fmt, ...) {
    va_list ap;
    va_start(ap, fmt);
    vsnprintf(h_current_case, sizeof h_current_case, fmt, ap);
    va_end(ap);
}

/* A sanitizer report ends in abort(): report the case that was running as an observation. */
static void on_fault(int sig) {
    static const char pfx[] = "X FAULT ";
    const char *kind = sig == SIGALRM ? "watchdog " : sig == SIGABRT ? "abort " : "signal ";
    fflush(stdout);                 /* complete lines produced so far; a partial one is dropped by the driver */
    (void) !write(1, "\n", 1);
    (void) !write(1, pfx, sizeof pfx - 1);
    (void) !write(1, kind, strlen(kind));
    (void) !write(1, h_current_case, strlen(h_current_case));
    (void) !write(1, "\n", 1);
    _exit(97);
}
void h_watchdog(unsigned seconds) { alarm(seconds); }

int main(int argc, char **argv) {
    const char *dom;
    const char *seed = getenv("VERIF_SEED");
    setvbuf(stdout, NULL, _IOFBF, 1 << 16);
    if (argc < 2) { fprintf(stderr, "usage: %s <domain> [quick|thorough] [shard nshards] | replay <line>\n", argv[0]); return 2; }
    dom = argv[1];
    if (argc > 2 && strcmp(argv[2], "thorough") == 0) h_thorough = h_exhaustive = 1;
    if (argc > 2 && strcmp(argv[2], "widened") == 0) h_thorough = 1;
    if (argc > 4) { h_shard = (unsigned) atoi(argv[3]); h_nshards = (unsigned) atoi(argv[4]); if (!h_nshards) h_nshards = 1; }
    h_seed = seed ? strtoull(seed, NULL, 10) : 1;
    h_rng_state = (h_seed + 1) * 0x9E3779B97F4A7C15ULL ^ 0xD1B54A32D192ED03ULL;
    if (!h_rng_state) h_rng_state = 1;
    { int i; for (i = 0; i < 8; i++) h_rand(); }
    signal(SIGABRT, on_fault); signal(SIGALRM, on_fault); signal(SIGSEGV, on_fault); signal(SIGFPE, on_fault);
    signal(SIGBUS, on_fault); signal(SIGILL, on_fault);
    if (strcmp(dom, "replay") == 0) {
        char *line = NULL; size_t cap = 0;
        if (argc > 2) { dom_replay(argv[2]); }
        else while (getline(&line, &cap, stdin) > 0) { line[strcspn(line, "\n")] = 0; dom_replay(line); }
        free(line);
    }
    else if (strcmp(dom, "intfmt") == 0) dom_intfmt();
    else if (strcmp(dom, "queue") == 0) dom_queue();
    else if (strcmp(dom, "regs") == 0) dom_regs();
    else if (strcmp(dom, "heap") == 0) dom_heap();
    else if (strcmp(dom, "lexer") == 0) dom_lexer();
    else if (strcmp(dom, "match") == 0) dom_match();
    else if (strcmp(dom, "errstr") == 0) dom_errstr();
    else if (strcmp(dom, "expr") == 0) dom_expr();
    else if (strcmp(dom, "buffmt") == 0) dom_buffmt();
    else if (strcmp(dom, "roundtrip") == 0) dom_roundtrip();
    else if (strcmp(dom, "p01") == 0) dom_p01();
    else if (strcmp(dom, "p02") == 0) { dom_p02(); dir_p02(); dir_p02b(); dir_p02c(); }
    else if (strcmp(dom, "p04") == 0) dom_p04();
    else if (strcmp(dom, "p17") == 0) dom_p17();
    else if (strcmp(dom, "p05") == 0) { dom_p05(); dir_p05(); }
    else if (strcmp(dom, "p06") == 0) { dom_p06(); dir_p06(); }
    else if (strcmp(dom, "p08") == 0) dom_p08();
    else if (strcmp(dom, "p09") == 0) { dom_p09(); dir_p09(); dir_p09b(); dir_p09c(); }
    else if (strcmp(dom, "p09u") == 0) dom_p09u();
    else if (strcmp(dom, "p09ubig") == 0) dom_p09ubig();
    else if (strcmp(dom, "p06big") == 0) dir_p06big();
    else if (strcmp(dom, "p21") == 0) dom_p21();
    else if (strcmp(dom, "pline") == 0) dom_pline();
    else { fprintf(stderr, "unknown domain %s\n", dom); return 2; }
    fflush(stdout);
    return 0;
}
