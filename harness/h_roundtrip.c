/* Domain Y: a value is emitted as a result, the response data is sent back as the parameter of the matching reader.
 * Case:  Y i <bits 8|16|32|64> <signed> <base> <valhex>     integers
 *        Y t <hextext>                                      SCPI_ResultText -> SCPI_ParamCopyText
 *        Y k <hexbytes>                                     SCPI_ResultArbitraryBlock -> SCPI_ParamArbitraryBlock
 *        Y b <0|1>                                          SCPI_ResultBool -> SCPI_ParamBool
 *        Y d <bits16hex> / Y f <bits8hex>                   SCPI_ResultDouble/Float -> SCPI_ParamDouble/Float
 *        Y a <bits> <signed> <hex of big-endian elements>   ASCII array result -> SCPI_ParamArray…
 * Observation: <hex of the response data> <ok> <value read back: integer | hex bytes | float bits | v,v,..> <errors queued> */
#include "h_env.h"

static struct { char kind; int bits, sgn, base; uint64_t val; unsigned char data[2600]; size_t dlen; } cur;
static char rd_out[9000]; static int rd_ok;

static scpi_result_t emit_cb(scpi_t *ctx) {
    switch (cur.kind) {
        case 'i':
            if (cur.sgn) { if (cur.bits == 8) SCPI_ResultInt8(ctx, (int8_t) cur.val); else if (cur.bits == 16) SCPI_ResultInt16(ctx, (int16_t) cur.val); else if (cur.bits == 32) SCPI_ResultInt32(ctx, (int32_t) cur.val); else SCPI_ResultInt64(ctx, (int64_t) cur.val); }
            else { if (cur.bits == 8) SCPI_ResultUInt8Base(ctx, (uint8_t) cur.val, cur.base); else if (cur.bits == 16) SCPI_ResultUInt16Base(ctx, (uint16_t) cur.val, cur.base); else if (cur.bits == 32) SCPI_ResultUInt32Base(ctx, (uint32_t) cur.val, (int8_t) cur.base); else SCPI_ResultUInt64Base(ctx, cur.val, (int8_t) cur.base); }
            break;
        case 't': cur.data[cur.dlen] = 0; SCPI_ResultText(ctx, (char *) cur.data); break;
        case 'k': SCPI_ResultArbitraryBlock(ctx, cur.data, cur.dlen); break;
        case 'b': SCPI_ResultBool(ctx, cur.val ? TRUE : FALSE); break;
        case 'd': { double d; memcpy(&d, &cur.val, 8); SCPI_ResultDouble(ctx, d); break; }
        case 'f': { float f; uint32_t b = (uint32_t) cur.val; memcpy(&f, &b, 4); SCPI_ResultFloat(ctx, f); break; }
        case 'a': { size_t n = cur.dlen / (size_t)(cur.bits / 8), k, j; 
            if (cur.bits == 32) { int32_t a[320]; for (k = 0; k < n && k < 320; k++) { uint32_t v = 0; for (j = 0; j < 4; j++) v = (v << 8) | cur.data[k * 4 + j]; a[k] = (int32_t) v; }
                if (cur.sgn) SCPI_ResultArrayInt32(ctx, a, n, SCPI_FORMAT_ASCII); else SCPI_ResultArrayUInt32(ctx, (uint32_t *) a, n, SCPI_FORMAT_ASCII); }
            else { int64_t a[320]; for (k = 0; k < n && k < 320; k++) { uint64_t v = 0; for (j = 0; j < 8; j++) v = (v << 8) | cur.data[k * 8 + j]; a[k] = (int64_t) v; }
                if (cur.sgn) SCPI_ResultArrayInt64(ctx, a, n, SCPI_FORMAT_ASCII); else SCPI_ResultArrayUInt64(ctx, (uint64_t *) a, n, SCPI_FORMAT_ASCII); }
            break; }
    }
    return SCPI_RES_OK;
}

static scpi_result_t read_cb(scpi_t *ctx) {
    rd_out[0] = 0; rd_ok = 0;
    switch (cur.kind) {
        case 'i':
            if (cur.bits <= 32) { if (cur.sgn) { int32_t v = 0; rd_ok = SCPI_ParamInt32(ctx, &v, TRUE); sprintf(rd_out, "%d", v); } else { uint32_t v = 0; rd_ok = SCPI_ParamUInt32(ctx, &v, TRUE); sprintf(rd_out, "%u", v); } }
            else { if (cur.sgn) { int64_t v = 0; rd_ok = SCPI_ParamInt64(ctx, &v, TRUE); sprintf(rd_out, "%" PRId64, v); } else { uint64_t v = 0; rd_ok = SCPI_ParamUInt64(ctx, &v, TRUE); sprintf(rd_out, "%" PRIu64, v); } }
            break;
        case 't': { size_t n = 0; char *b = (char *) malloc(2 * cur.dlen + 8); rd_ok = SCPI_ParamCopyText(ctx, b, 2 * cur.dlen + 8, &n, TRUE); { size_t i; char *o = rd_out; if (!n) strcpy(rd_out, "-"); for (i = 0; i < n; i++) o += sprintf(o, "%02x", (unsigned char) b[i]); } free(b); break; }
        case 'k': { const char *p = NULL; size_t n = 0, i; char *o = rd_out; rd_ok = SCPI_ParamArbitraryBlock(ctx, &p, &n, TRUE); if (!n) strcpy(rd_out, "-"); for (i = 0; i < n && rd_ok; i++) o += sprintf(o, "%02x", (unsigned char) p[i]); break; }
        case 'b': { scpi_bool_t v = FALSE; rd_ok = SCPI_ParamBool(ctx, &v, TRUE); sprintf(rd_out, "%d", v ? 1 : 0); break; }
        case 'd': { double v = 0; uint64_t b; rd_ok = SCPI_ParamDouble(ctx, &v, TRUE); memcpy(&b, &v, 8); sprintf(rd_out, "%016" PRIx64, b); break; }
        case 'f': { float v = 0; uint32_t b; rd_ok = SCPI_ParamFloat(ctx, &v, TRUE); memcpy(&b, &v, 4); sprintf(rd_out, "%08x", b); break; }
        case 'a': { size_t n = 0, k; char *o = rd_out;
            if (cur.bits == 32) { int32_t a[320]; rd_ok = cur.sgn ? SCPI_ParamArrayInt32(ctx, a, 320, &n, SCPI_FORMAT_ASCII, TRUE) : SCPI_ParamArrayUInt32(ctx, (uint32_t *) a, 320, &n, SCPI_FORMAT_ASCII, TRUE);
                if (!n) strcpy(rd_out, "-"); for (k = 0; k < n; k++) o += cur.sgn ? sprintf(o, "%s%d", k ? "," : "", a[k]) : sprintf(o, "%s%u", k ? "," : "", (uint32_t) a[k]); }
            else { int64_t a[320]; rd_ok = cur.sgn ? SCPI_ParamArrayInt64(ctx, a, 320, &n, SCPI_FORMAT_ASCII, TRUE) : SCPI_ParamArrayUInt64(ctx, (uint64_t *) a, 320, &n, SCPI_FORMAT_ASCII, TRUE);
                if (!n) strcpy(rd_out, "-"); for (k = 0; k < n; k++) o += cur.sgn ? sprintf(o, "%s%" PRId64, k ? "," : "", a[k]) : sprintf(o, "%s%" PRIu64, k ? "," : "", (uint64_t) a[k]); }
            break; }
    }
    return SCPI_RES_OK;
}

static const scpi_command_t cmds[] = { {"Q?", emit_cb, 1}, {"S", read_cb, 2}, SCPI_CMD_LIST_END };

void run_roundtrip(const char *input) {
    static char a1[4900]; char k; h_env_t e; size_t n; char *msg;
    memset(&cur, 0, sizeof cur);
    if (sscanf(input, "Y %c", &k) != 1) return;
    h_set_case("%s", input);
    cur.kind = k;
    if (k == 'i') { unsigned long long v; if (sscanf(input, "Y i %d %d %d %llx", &cur.bits, &cur.sgn, &cur.base, &v) != 4) return; cur.val = v; }
    else if (k == 't' || k == 'k') { if (sscanf(input, "Y %*c %4899s", a1) != 1) return; cur.dlen = h_unhex(a1, cur.data, sizeof cur.data - 1); }
    else if (k == 'b' || k == 'd' || k == 'f') { unsigned long long v; if (sscanf(input, "Y %*c %llx", &v) != 1) return; cur.val = v; }
    else if (k == 'a') { if (sscanf(input, "Y a %d %d %4899s", &cur.bits, &cur.sgn, a1) != 3) return; cur.dlen = h_unhex(a1, cur.data, sizeof cur.data - 1); }
    else return;
    h_env_init(&e, cmds, 8000, 8, 64);
    SCPI_Input(&e.ctx, "Q?\n", 3);
    n = e.out_len;
    if (n && e.out[n - 1] == '\n') n--; if (n && e.out[n - 1] == '\r') n--;                                        /* response data without the (one) message terminator */
    printf("%s => ", input); h_hex(stdout, e.out, n);
    msg = (char *) malloc(n + 4); memcpy(msg, "S ", 2); memcpy(msg + 2, e.out, n); msg[n + 2] = '\n';
    h_env_clear_capture(&e);
    SCPI_Input(&e.ctx, msg, (int)(n + 3));
    free(msg);
    printf(" %d %s %d\n", rd_ok, rd_out[0] ? rd_out : "-", e.n_errcb);
    SCPI_ErrorClear(&e.ctx);
    h_env_free(&e);
}

static void emit_case(const char *in) { if (h_mine_str(in)) run_roundtrip(in); }

void dom_roundtrip(void) {
    static const int bases[] = {2, 8, 10, 16}; static char in[5200]; unsigned long n; unsigned v; int b, s;
    /* every 8-bit and 16-bit value, signed decimal and unsigned in the four bases */
    for (v = 0; v < 256; v++) { for (b = 0; b < 4; b++) { sprintf(in, "Y i 8 0 %d %x", bases[b], v); emit_case(in); } sprintf(in, "Y i 8 1 10 %x", v); emit_case(in); }
    for (v = 0; v < 65536; v += (h_thorough ? 1 : 7)) { for (b = 0; b < 4; b++) { sprintf(in, "Y i 16 0 %d %x", bases[b], v); emit_case(in); } sprintf(in, "Y i 16 1 10 %x", v); emit_case(in); }
    /* boundary-biased 32 and 64 bit values */
    n = h_thorough ? 2000000 : 150000;
    for (; n; n--) {
        int bits = h_chance(50) ? 32 : 64; uint64_t x = h_rand(); unsigned sh = h_below(64);
        if (h_chance(30)) x = (h_chance(50) ? (1ull << sh) : (0 - (1ull << sh))) + (uint64_t) h_below(3) - 1; else if (sh < 63) x >>= sh;
        if (bits == 32) x &= 0xffffffffu;
        s = h_chance(35);
        sprintf(in, "Y i %d %d %d %llx", bits, s, s ? 10 : bases[h_below(4)], (unsigned long long) x); emit_case(in);
    }
    emit_case("Y b 0"); emit_case("Y b 1");
    /* strings: every string up to length 3 (quick) / 4 (thorough) over an alphabet with both quotes, random longer ones */
    { static const unsigned char al[] = { 'a', '"', '\'', ' ', ',', ';', '\n', 0x01, 0x7f, '#' }; int len, i; unsigned long idx, total; int L = h_thorough ? 4 : 3;
      for (len = 0; len <= L; len++) { total = 1; for (i = 0; i < len; i++) total *= 10;
        for (idx = 0; idx < total; idx++) { unsigned long r = idx; size_t k = (size_t) sprintf(in, "Y t "); if (!len) in[k++] = '-';
            for (i = 0; i < len; i++) { k += (size_t) sprintf(in + k, "%02x", al[r % 10]); r /= 10; } in[k] = 0; emit_case(in); } }
      n = h_thorough ? 100000 : 10000;
      for (; n; n--) { size_t k = (size_t) sprintf(in, "Y t "); unsigned l = 1 + h_below(h_chance(90) ? 40 : 600), j; for (j = 0; j < l; j++) k += (size_t) sprintf(in + k, "%02x", h_chance(15) ? '"' : h_chance(10) ? '\'' : 1 + h_below(127)); emit_case(in); } }
    /* blocks of every length 0..1100 with random bytes */
    { unsigned l; for (l = 0; l <= 1100; l += (h_thorough ? 1 : 1 + (l > 40 ? 13 : 0))) { size_t k = (size_t) sprintf(in, "Y k "); unsigned j; if (!l) in[k++] = '-'; for (j = 0; j < l; j++) k += (size_t) sprintf(in + k, "%02x", h_below(256)); in[k] = 0; emit_case(in); } }
    /* floats and doubles: random bit patterns of finite values, powers of ten, integers */
    n = h_thorough ? 500000 : 50000;
    for (; n; n--) {
        double d; uint64_t bt = h_rand(); unsigned kind = h_below(4);
        if (kind == 0) { memcpy(&d, &bt, 8); if (d != d || d - d != 0) continue; }
        else if (kind == 1) d = (double)((long long) h_below(2000001) - 1000000) / (h_chance(50) ? 1.0 : 1000.0);
        else if (kind == 2) { int e10 = (int) h_below(600) - 300; d = 1.0; while (e10 > 0) { d *= 10; e10--; } while (e10 < 0) { d /= 10; e10++; } }
        else d = (double)(bt >> 12) / 4096.0;
        if (h_chance(50)) { memcpy(&bt, &d, 8); sprintf(in, "Y d %016llx", (unsigned long long) bt); }
        else { float f = (float) d; uint32_t fb; if (f - f != 0) continue; memcpy(&fb, &f, 4); sprintf(in, "Y f %08x", fb); }
        emit_case(in);
    }
    /* ASCII arrays */
    n = h_thorough ? 50000 : 5000;
    for (; n; n--) { int bits = h_chance(50) ? 32 : 64; unsigned cnt = 1 + h_below(8), j;
        /* now and then a long array: item and parameter counters of any width must carry it */
        if (h_chance(1)) { static const unsigned big[] = {100, 127, 128, 129, 130, 200, 255, 256, 257, 258, 300}; cnt = big[h_below(11)]; } size_t k = (size_t) sprintf(in, "Y a %d %d ", bits, (int) h_below(2));
        for (j = 0; j < cnt * (unsigned)(bits / 8); j++) k += (size_t) sprintf(in + k, "%02x", h_chance(30) ? (h_chance(50) ? 0xff : 0) : h_below(256)); emit_case(in); }
}
