/* Domain P: whole-context behaviour through SCPI_Input with scripted handlers.
 *
 * Case:   P  <bufsize> <qcap> <table> <chunk> <chunk> ...            one context, chunks fed in order
 *         P8 <bufsize> <qcap> <table> <chunk> ... | <chunk> ...      the same stream in two segmentations
 *         P9 <bufsize> <qcap> <table> <chunkA> ... | <chunkB> ...    B after A  versus  B on a fresh context that
 *                                                                     was given A's registers and error queue
 *         PU <bufsize> <qcap> <table> <unit1> | <unit2>              unit isolation, three runs (see run_parse)
 *   chunk = hex bytes, "-" = zero-length call (flush)
 *   table = entry;entry;...   entry = <hexpattern>:<tag>:<op>/<op>/...   op = name,arg,arg (see run_op)
 * Observation: event tokens in order; for P8 / P9 the two runs separated by "||" (P9 starts with K<hex>: the input A left unconsumed).
 *   H<tag>:<hexhdr> handler entered        I<ok>:<v|-> int reader        L<ok>:<bits|-> float/double reader
 *   B<ok>:<v|-> bool   C<ok>:<tag|-> choice   N<ok>:<special>:<tag>:<bits>:<unit>:<base> number
 *   Y<ok>:<off>:<hex> characters / block     X<ok>:<hex>:<nul> copied text     A<ok>:<v,v..> array
 *   G<tag>   V<0|1> SCPI_IsCmd / SCPI_Match   U<ok>:<n,n..> command numbers   E<code> error callback   Z reset callback (*RST)
 *   Q<hex4> service request (control callback SCPI_CTRL_SRQ with this value), after W / F of the call
 *   W<hex> bytes written during the call   F<n> flushes   R<0|1> return value of the call
 *   at the end: D<code>:<hextext|N>,... queue drained with SCPI_ErrorPop   M<hex> unconsumed remainder
 *               S<regs> registers
 *   pseudo-chunks: =G<reg>:<hex> the firmware writes a register (token g<reg>:<hex4>), =S snapshot (token s<regs>,<error count>),
 *               =L<hex> a NUL-terminated line handed straight to SCPI_Parse (token T<1|0>: the NUL is still there) */
#include "h_env.h"
#include <math.h>

#define MAXOPS 200
#define MAXCMDS 40
typedef struct { char name[4]; long long a[4]; unsigned long long u; unsigned char data[1300]; size_t dlen; int isnull; unsigned char data2[200]; size_t dlen2; } op_t;
typedef struct { char pattern[96]; int tag; op_t ops[MAXOPS]; int nops; } hcmd_t;
typedef struct { hcmd_t cmds[MAXCMDS]; int n; scpi_command_t table[MAXCMDS + 1]; } table_t;

static table_t *cur_table;
static const char *cur_line;             /* the line handed straight to SCPI_Parse (pseudo-chunk =L), NULL inside SCPI_Input */
static FILE *EV;                       /* event sink (memory stream) */
static char *ev_buf; static size_t ev_len;

static const scpi_choice_def_t choice0[] = { {"BUS", 5}, {"IMMediate", 6}, {"EXTernal", 7}, SCPI_CHOICE_LIST_END };
static const scpi_choice_def_t choice1[] = { {"ON", 1}, {"OFF", 0}, {"AUTO", 2}, SCPI_CHOICE_LIST_END };

static void ev_hex(const void *p, size_t n) { h_hex(EV, p, n); }

/* the library's own handlers, script op bI,<name> */
static const struct { const char *name; scpi_result_t (*fn)(scpi_t *); } builtins[] = {
    {"CLS", SCPI_CoreCls}, {"ESE", SCPI_CoreEse}, {"ESEQ", SCPI_CoreEseQ}, {"ESRQ", SCPI_CoreEsrQ}, {"IDNQ", SCPI_CoreIdnQ},
    {"OPC", SCPI_CoreOpc}, {"OPCQ", SCPI_CoreOpcQ}, {"RST", SCPI_CoreRst}, {"SRE", SCPI_CoreSre}, {"SREQ", SCPI_CoreSreQ},
    {"STBQ", SCPI_CoreStbQ}, {"TSTQ", SCPI_CoreTstQ}, {"WAI", SCPI_CoreWai}, {"STUB", SCPI_Stub}, {"STUBQ", SCPI_StubQ},
    {"VERSQ", SCPI_SystemVersionQ}, {"ERRNEXTQ", SCPI_SystemErrorNextQ}, {"ERRCOUNTQ", SCPI_SystemErrorCountQ},
    {"QCONDQ", SCPI_StatusQuestionableConditionQ}, {"QEVENQ", SCPI_StatusQuestionableEventQ},
    {"QENABQ", SCPI_StatusQuestionableEnableQ}, {"QENAB", SCPI_StatusQuestionableEnable},
    {"OCONDQ", SCPI_StatusOperationConditionQ}, {"OEVENQ", SCPI_StatusOperationEventQ},
    {"OENABQ", SCPI_StatusOperationEnableQ}, {"OENAB", SCPI_StatusOperationEnable}, {"PRES", SCPI_StatusPreset},
    {NULL, NULL} };

static scpi_result_t generic_handler(scpi_t *ctx) {
    int32_t tag = SCPI_CmdTag(ctx);
    hcmd_t *hc = NULL; int i, stop = 0;
    for (i = 0; i < cur_table->n; i++) if (cur_table->cmds[i].tag == tag) { hc = &cur_table->cmds[i]; break; }
    fprintf(EV, " H%d:", (int) tag); ev_hex(ctx->param_list.cmd_raw.data, ctx->param_list.cmd_raw.length);
    if (!hc) return SCPI_RES_OK;
    for (i = 0; i < hc->nops; i++) {
        op_t *o = &hc->ops[i]; scpi_bool_t ok = TRUE; int isreader = 0;
        if (!strcmp(o->name, "pI")) {
            int w = (int) o->a[0], s = (int) o->a[1], m = (int) o->a[2]; isreader = 1;
            if (w == 32 && s) { int32_t v = -777; ok = SCPI_ParamInt32(ctx, &v, m); fprintf(EV, " I%d:", ok); if (ok) fprintf(EV, "%d", v); else fprintf(EV, "-"); }
            else if (w == 32) { uint32_t v = 777; ok = SCPI_ParamUInt32(ctx, &v, m); fprintf(EV, " I%d:", ok); if (ok) fprintf(EV, "%u", v); else fprintf(EV, "-"); }
            else if (s) { int64_t v = -777; ok = SCPI_ParamInt64(ctx, &v, m); fprintf(EV, " I%d:", ok); if (ok) fprintf(EV, "%" PRId64, v); else fprintf(EV, "-"); }
            else { uint64_t v = 777; ok = SCPI_ParamUInt64(ctx, &v, m); fprintf(EV, " I%d:", ok); if (ok) fprintf(EV, "%" PRIu64, v); else fprintf(EV, "-"); }
        } else if (!strcmp(o->name, "pF")) {
            isreader = 1;
            if (o->a[0]) { double v = -7.0; uint64_t b; ok = SCPI_ParamDouble(ctx, &v, (int) o->a[1]); memcpy(&b, &v, 8); fprintf(EV, " L%d:", ok); if (ok) fprintf(EV, "%016" PRIx64, b); else fprintf(EV, "-"); }
            else { float v = -7.0f; uint32_t b; ok = SCPI_ParamFloat(ctx, &v, (int) o->a[1]); memcpy(&b, &v, 4); fprintf(EV, " L%d:", ok); if (ok) fprintf(EV, "%08x", b); else fprintf(EV, "-"); }
        } else if (!strcmp(o->name, "pB")) {
            scpi_bool_t v = FALSE; isreader = 1; ok = SCPI_ParamBool(ctx, &v, (int) o->a[0]); fprintf(EV, " B%d:", ok); if (ok) fprintf(EV, "%d", v ? 1 : 0); else fprintf(EV, "-");
        } else if (!strcmp(o->name, "pC")) {
            int32_t v = -777; isreader = 1; ok = SCPI_ParamChoice(ctx, o->a[1] ? choice1 : choice0, &v, (int) o->a[0]); fprintf(EV, " C%d:", ok); if (ok) fprintf(EV, "%d", v); else fprintf(EV, "-");
        } else if (!strcmp(o->name, "pN")) {
            scpi_number_t v; uint64_t b = 0; isreader = 1; memset(&v, 0, sizeof v);
            ok = SCPI_ParamNumber(ctx, scpi_special_numbers_def, &v, (int) o->a[0]);
            if (ok && !v.special) memcpy(&b, &v.content.value, 8);
            if (ok) fprintf(EV, " N1:%d:%d:%016" PRIx64 ":%d:%d", v.special ? 1 : 0, v.special ? (int) v.content.tag : 0, b, (int) v.unit, (int) v.base);
            else fprintf(EV, " N0");
        } else if (!strcmp(o->name, "pH") || !strcmp(o->name, "pK")) {
            const char *p = NULL; size_t n = 0; isreader = 1;
            ok = o->name[1] == 'H' ? SCPI_ParamCharacters(ctx, &p, &n, (int) o->a[0]) : SCPI_ParamArbitraryBlock(ctx, &p, &n, (int) o->a[0]);
            fprintf(EV, " Y%d:", ok); if (ok) { fprintf(EV, "%ld:", (long)(p - (cur_line ? cur_line : ctx->buffer.data))); ev_hex(p, n); } else fprintf(EV, "-");
        } else if (!strcmp(o->name, "pT")) {
            size_t cap = (size_t) o->a[1], n = 777; char *b = (char *) malloc(cap ? cap : 1); isreader = 1;
            memset(b, 0xAA, cap ? cap : 1);
            ok = SCPI_ParamCopyText(ctx, cap ? b : b + 1, cap, &n, (int) o->a[0]);
            fprintf(EV, " X%d:", ok); if (ok) { ev_hex(b, n <= cap ? n : cap); fprintf(EV, ":%d", (n < cap && b[n] == 0) ? 1 : 0); if (n > cap) fprintf(EV, ":OVER%zu", n); } else fprintf(EV, "-");
            free(b);
        } else if (!strcmp(o->name, "pA")) {
            int w = (int) o->a[0], s = (int) o->a[1]; size_t cap = (size_t) o->a[2], n = 777, k; isreader = 1;
            void *arr = malloc((cap ? cap : 1) * 8);
            if (w == 32 && s) ok = SCPI_ParamArrayInt32(ctx, (int32_t *) arr, cap, &n, SCPI_FORMAT_ASCII, (int) o->a[3]);
            else if (w == 32) ok = SCPI_ParamArrayUInt32(ctx, (uint32_t *) arr, cap, &n, SCPI_FORMAT_ASCII, (int) o->a[3]);
            else if (s) ok = SCPI_ParamArrayInt64(ctx, (int64_t *) arr, cap, &n, SCPI_FORMAT_ASCII, (int) o->a[3]);
            else ok = SCPI_ParamArrayUInt64(ctx, (uint64_t *) arr, cap, &n, SCPI_FORMAT_ASCII, (int) o->a[3]);
            fprintf(EV, " A%d:", ok);
            if (!n) fprintf(EV, "-");
            for (k = 0; k < n && k < cap; k++) {
                if (w == 32 && s) fprintf(EV, "%s%d", k ? "," : "", ((int32_t *) arr)[k]);
                else if (w == 32) fprintf(EV, "%s%u", k ? "," : "", ((uint32_t *) arr)[k]);
                else if (s) fprintf(EV, "%s%" PRId64, k ? "," : "", ((int64_t *) arr)[k]);
                else fprintf(EV, "%s%" PRIu64, k ? "," : "", ((uint64_t *) arr)[k]);
            }
            free(arr);
        } else if (!strcmp(o->name, "rI")) {
            int n = (int) o->a[0], s = (int) o->a[1], base = (int) o->a[3]; uint64_t v = o->u;
            if (s) { if (n == 8) SCPI_ResultInt8(ctx, (int8_t) v); else if (n == 16) SCPI_ResultInt16(ctx, (int16_t) v); else if (n == 32) SCPI_ResultInt32(ctx, (int32_t) v); else SCPI_ResultInt64(ctx, (int64_t) v); }
            else { if (n == 8) SCPI_ResultUInt8Base(ctx, (uint8_t) v, base); else if (n == 16) SCPI_ResultUInt16Base(ctx, (uint16_t) v, base); else if (n == 32) SCPI_ResultUInt32Base(ctx, (uint32_t) v, (int8_t) base); else SCPI_ResultUInt64Base(ctx, v, (int8_t) base); }
        } else if (!strcmp(o->name, "rF")) {
            if (o->a[0]) { double d; memcpy(&d, &o->u, 8); SCPI_ResultDouble(ctx, d); } else { float f; uint32_t b = (uint32_t) o->u; memcpy(&f, &b, 4); SCPI_ResultFloat(ctx, f); }
        } else if (!strcmp(o->name, "rN")) { long long kk; for (kk = 0; kk < o->a[0]; kk++) SCPI_ResultInt32(ctx, (int32_t) (kk % 10)); }   /* a loop of result calls */
        else if (!strcmp(o->name, "rB")) SCPI_ResultBool(ctx, o->a[0] ? TRUE : FALSE);
        else if (!strcmp(o->name, "rT")) { o->data[o->dlen] = 0; SCPI_ResultText(ctx, (char *) o->data); }
        else if (!strcmp(o->name, "rC")) SCPI_ResultCharacters(ctx, (char *) o->data, o->dlen);
        else if (!strcmp(o->name, "rK")) SCPI_ResultArbitraryBlock(ctx, o->isnull ? NULL : o->data, o->isnull ? 0 : o->dlen);   /* "N": an empty block held by a NULL pointer */
        else if (!strcmp(o->name, "rKH")) SCPI_ResultArbitraryBlockHeader(ctx, (size_t) o->a[0]);
        else if (!strcmp(o->name, "rKD")) SCPI_ResultArbitraryBlockData(ctx, o->isnull ? NULL : o->data, o->isnull ? 0 : o->dlen);
        else if (!strcmp(o->name, "rA")) {
            /* rA,<size>,<format 0 NORMAL 1 SWAPPED 2 ASCII>,<hex elements>[,<kind 0 unsigned 1 signed 2 float/double>]
             * elements given big-endian; build the native array */
            size_t sz = (size_t) o->a[0], cnt = sz ? o->dlen / sz : 0, k, j; int kind = (int) o->a[3];
            scpi_array_format_t fmt = o->a[1] == 2 ? SCPI_FORMAT_ASCII : o->a[1] ? SCPI_FORMAT_SWAPPED : SCPI_FORMAT_NORMAL;
            unsigned char *arr = o->isnull ? NULL : (unsigned char *) malloc(o->dlen ? o->dlen : 1);     /* "N": an empty array held by a NULL pointer */
            if (o->isnull) cnt = 0;
            for (k = 0; k < cnt; k++) { uint64_t v = 0; for (j = 0; j < sz; j++) v = (v << 8) | o->data[k * sz + j]; memcpy(arr + k * sz, &v, sz); /* little-endian host */ }
            if (kind == 2) { if (sz == 4) SCPI_ResultArrayFloat(ctx, (float *) arr, cnt, fmt); else SCPI_ResultArrayDouble(ctx, (double *) arr, cnt, fmt); }
            else if (kind == 1) {
                if (sz == 1) SCPI_ResultArrayInt8(ctx, (int8_t *) arr, cnt, fmt); else if (sz == 2) SCPI_ResultArrayInt16(ctx, (int16_t *) arr, cnt, fmt);
                else if (sz == 4) SCPI_ResultArrayInt32(ctx, (int32_t *) arr, cnt, fmt); else SCPI_ResultArrayInt64(ctx, (int64_t *) arr, cnt, fmt);
            } else {
                if (sz == 1) SCPI_ResultArrayUInt8(ctx, arr, cnt, fmt); else if (sz == 2) SCPI_ResultArrayUInt16(ctx, (uint16_t *) arr, cnt, fmt);
                else if (sz == 4) SCPI_ResultArrayUInt32(ctx, (uint32_t *) arr, cnt, fmt); else SCPI_ResultArrayUInt64(ctx, (uint64_t *) arr, cnt, fmt);
            }
            free(arr);
        } else if (!strcmp(o->name, "eP")) { o->data[o->dlen] = 0; SCPI_ErrorPushEx(ctx, (int16_t) o->a[0], o->isnull ? NULL : (char *) o->data, 0); }
        else if (!strcmp(o->name, "iT")) fprintf(EV, " G%d", (int) SCPI_CmdTag(ctx));
        else if (!strcmp(o->name, "iN")) {
            int n = (int) o->a[0], k; int32_t nums[8]; scpi_bool_t r;
            for (k = 0; k < 8; k++) nums[k] = -777;
            r = SCPI_CommandNumbers(ctx, nums, (size_t) n, (int32_t) o->a[1]);
            fprintf(EV, " U%d:", r ? 1 : 0); if (!n) fprintf(EV, "-"); for (k = 0; k < n; k++) fprintf(EV, "%s%d", k ? "," : "", nums[k]);
        } else if (!strcmp(o->name, "iC")) {            /* the pattern test of the matched entry on a header text */
            o->data[o->dlen] = 0; fprintf(EV, " V%d", SCPI_IsCmd(ctx, (char *) o->data) ? 1 : 0);
        } else if (!strcmp(o->name, "iM")) {            /* SCPI_Match(pattern, value, len): the value in an exact-size object, not NUL-terminated */
            char *v = (char *) malloc(o->dlen2 ? o->dlen2 : 1); memcpy(v, o->data2, o->dlen2);
            o->data[o->dlen] = 0; fprintf(EV, " V%d", SCPI_Match((char *) o->data, v, o->dlen2) ? 1 : 0);
            free(v);
        } else if (!strcmp(o->name, "bI")) {
            /* the real handler; SCPI_RES_ERR ends the script with that result */
            int k;
            for (k = 0; builtins[k].name; k++) if (!strcmp(builtins[k].name, (char *) o->data)) break;
            if (builtins[k].fn && builtins[k].fn(ctx) != SCPI_RES_OK) return SCPI_RES_ERR;
        } else if (!strcmp(o->name, "oF")) stop = (int) o->a[0];
        else if (!strcmp(o->name, "ret")) return o->a[0] ? SCPI_RES_OK : SCPI_RES_ERR;
        if (isreader && !ok && stop) return SCPI_RES_ERR;
    }
    return SCPI_RES_OK;
}

static int parse_table(const char *txt, table_t *t) {
    char *copy = strdup(txt), *e, *se = NULL;
    t->n = 0;
    for (e = strtok_r(copy, ";", &se); e && t->n < MAXCMDS; e = strtok_r(NULL, ";", &se)) {
        hcmd_t *c = &t->cmds[t->n]; char *p1 = strchr(e, ':'), *p2, *o, *so = NULL; size_t pl;
        if (!p1) continue; *p1 = 0; p2 = strchr(p1 + 1, ':'); if (!p2) continue; *p2 = 0;
        pl = h_unhex(e, (unsigned char *) c->pattern, sizeof c->pattern - 1); c->pattern[pl] = 0;
        c->tag = atoi(p1 + 1); c->nops = 0;
        if (!strcmp(p2 + 1, "null")) {          /* an entry without a handler (callback == NULL), which the library permits */
            t->table[t->n].pattern = c->pattern; t->table[t->n].callback = NULL; t->table[t->n].tag = c->tag; t->n++; continue;
        }
        for (o = strtok_r(p2 + 1, "/", &so); o && c->nops < MAXOPS; o = strtok_r(NULL, "/", &so)) {
            op_t *op = &c->ops[c->nops++]; char *f, *sf = NULL; int k = 0;
            memset(op, 0, sizeof *op);
            f = strtok_r(o, ",", &sf); snprintf(op->name, sizeof op->name, "%s", f ? f : "");
            while ((f = strtok_r(NULL, ",", &sf))) {
                int hexarg = (!strcmp(op->name, "rT") || !strcmp(op->name, "rC") || !strcmp(op->name, "rK") || !strcmp(op->name, "rKD")) ||
                             (!strcmp(op->name, "rA") && k == 2) || (!strcmp(op->name, "eP") && k == 1);
                if (!strcmp(op->name, "iC") && k == 0) op->dlen = h_unhex(f, op->data, sizeof op->data - 1);
                else if (!strcmp(op->name, "iM") && k == 0) op->dlen = h_unhex(f, op->data, sizeof op->data - 1);
                else if (!strcmp(op->name, "iM") && k == 1) op->dlen2 = h_unhex(f, op->data2, sizeof op->data2);
                else if (!strcmp(op->name, "bI") && k == 0) { snprintf((char *) op->data, sizeof op->data, "%s", f); op->dlen = strlen(f); }
                else if (hexarg) { if (f[0] == 'N') op->isnull = 1; op->dlen = h_unhex(f, op->data, sizeof op->data - 1); }
                else if ((!strcmp(op->name, "rI") && k == 2) || (!strcmp(op->name, "rF") && k == 1)) op->u = strtoull(f, NULL, 16);
                else if (k < 4) op->a[k] = atoll(f);
                k++;
            }
            if (!strcmp(op->name, "rI")) { long long b = op->a[2]; (void) b; }
        }
        t->table[t->n].pattern = c->pattern; t->table[t->n].callback = generic_handler; t->table[t->n].tag = c->tag;
        t->n++;
    }
    t->table[t->n].pattern = NULL; t->table[t->n].callback = NULL; t->table[t->n].tag = 0;
    free(copy);
    return t->n;
}

static void parse_hook(scpi_t *ctx, const char *data, int len) { (void) ctx; if (EV) { fprintf(EV, " P"); ev_hex(data, (size_t)(len > 0 ? len : 0)); } }
static int cb_error_ev(scpi_t *ctx, int_fast16_t err) { (void) ctx; fprintf(EV, " E%d", (int) err); return 0; }
static scpi_result_t cb_reset_ev(scpi_t *ctx) { (void) ctx; fprintf(EV, " Z"); return SCPI_RES_OK; }

static void feed(h_env_t *e, const char *chunk) {
    unsigned char data[4096]; size_t n; scpi_bool_t r; char *exact;
    if (chunk[0] == '=' && chunk[1] == 'G') {
        /* the instrument itself changes a register between messages: SCPI_RegSet(reg, value) */
        unsigned reg = 0, val = 0; int i;
        if (sscanf(chunk + 2, "%u:%x", &reg, &val) == 2 && reg < SCPI_REG_COUNT) {
            h_env_clear_capture(e);
            SCPI_RegSet(&e->ctx, (scpi_reg_name_t) reg, (scpi_reg_val_t) val);
            fprintf(EV, " g%u:%04x", reg, val & 0xffffu);
            for (i = 0; i < e->n_srq; i++) fprintf(EV, " Q%04x", e->srq[i]);
        }
        return;
    }
    if (chunk[0] == '=' && chunk[1] == 'S') {
        /* snapshot of the status registers and the error count between messages (judged: C11 summary bits, C12 latching) */
        int i;
        fprintf(EV, " s");
        for (i = 0; i < SCPI_REG_COUNT; i++) fprintf(EV, "%s%04x", i ? "." : "", (unsigned) SCPI_RegGet(&e->ctx, (scpi_reg_name_t) i));
        fprintf(EV, ",%d", (int) SCPI_ErrorCount(&e->ctx));
        return;
    }
    if (chunk[0] == '=' && chunk[1] == 'L') {
        /* a complete NUL-terminated line handed straight to the line parser: SCPI_Parse(context, line, strlen(line)).
         * The line lives in an exact-size object of its own (len + 1 bytes); the parser composes compound headers in place */
        n = h_unhex(chunk + 2, data, sizeof data - 1);
        exact = (char *) malloc(n + 1); memcpy(exact, data, n); exact[n] = 0;
        h_env_clear_capture(e);
        cur_line = exact;
        r = SCPI_Parse(&e->ctx, exact, (int) n);
        cur_line = NULL;
        fprintf(EV, " T%d", exact[n] == 0 ? 1 : 0);      /* the terminating NUL is still there */
        free(exact);
        if (e->out_len) { fprintf(EV, " W"); ev_hex(e->out, e->out_len); }
        if (e->flushes) fprintf(EV, " F%d", e->flushes);
        { int i; for (i = 0; i < e->n_srq; i++) fprintf(EV, " Q%04x", e->srq[i]); }
        fprintf(EV, " R%d", r ? 1 : 0);
        return;
    }
    n = h_unhex(chunk, data, sizeof data);
    exact = (char *) malloc(n ? n : 1);            /* exact-size source: over-reads of the caller's data trap */
    memcpy(exact, data, n);
    h_env_clear_capture(e);
    r = SCPI_Input(&e->ctx, exact, (int) n);
    free(exact);
    if (e->out_len) { fprintf(EV, " W"); ev_hex(e->out, e->out_len); }
    if (e->flushes) fprintf(EV, " F%d", e->flushes);
    { int i; for (i = 0; i < e->n_srq; i++) fprintf(EV, " Q%04x", e->srq[i]); }
    fprintf(EV, " R%d", r ? 1 : 0);
}

typedef struct { int code; char *text; } qent_t;

static void finish(h_env_t *e) {
    int first = 1, i; scpi_error_t err;
    fprintf(EV, " M"); ev_hex(e->ctx.buffer.data, e->ctx.buffer.position);
    fprintf(EV, " S");
    for (i = 0; i < SCPI_REG_COUNT; i++) fprintf(EV, "%s%04x", i ? "." : "", (unsigned) SCPI_RegGet(&e->ctx, (scpi_reg_name_t) i));
    fprintf(EV, " D");
    e->iface.error = NULL;
    while (SCPI_ErrorCount(&e->ctx) > 0) {
        SCPI_ErrorPop(&e->ctx, &err);
        fprintf(EV, "%s%d:", first ? "" : ",", (int) err.error_code);
#if USE_DEVICE_DEPENDENT_ERROR_INFORMATION && USE_MEMORY_ALLOCATION_FREE
        h_hexs(EV, err.device_dependent_info); free(err.device_dependent_info);
#elif USE_DEVICE_DEPENDENT_ERROR_INFORMATION
        { size_t l1 = 0, l2 = 0; const char *s2 = NULL;
          if (err.device_dependent_info && scpiheap_get_parts(&e->ctx.error_info_heap, err.device_dependent_info, &l1, &s2, &l2)) {
              char tmp[1024]; memcpy(tmp, err.device_dependent_info, l1); if (s2) memcpy(tmp + l1, s2, l2); ev_hex(tmp, l1 + l2);
              scpiheap_free(&e->ctx.error_info_heap, err.device_dependent_info, FALSE);
          } else fprintf(EV, "N"); }
#else
        fprintf(EV, "N");
#endif
        first = 0;
    }
    if (first) fprintf(EV, "-");
}

/* dst := a fresh context that is given src's registers and src's queue content and nothing else: every other field keeps
 * the value SCPI_Init gave it (the pushes that rebuild the queue are undone for everything but the queue); src is not touched */
static void seed_fresh(h_env_t *dst, h_env_t *src, table_t *t, int bufsize, int qcap) {
    int k; scpi_t snap;
    h_env_init(dst, t->table, (size_t) bufsize, qcap, 64); dst->iface.error = NULL; dst->iface.reset = cb_reset_ev;
    snap = dst->ctx;
    for (k = 0; k < src->ctx.error_queue.count; k++) {
        scpi_error_t *qe = &src->ctx.error_queue.data[(src->ctx.error_queue.rd + k) % src->ctx.error_queue.size];
        char *txt = NULL;
#if USE_DEVICE_DEPENDENT_ERROR_INFORMATION
        txt = qe->device_dependent_info;
#endif
        SCPI_ErrorPushEx(&dst->ctx, qe->error_code, txt, 0);
    }
    { scpi_fifo_t qkeep = dst->ctx.error_queue;
#if USE_DEVICE_DEPENDENT_ERROR_INFORMATION && !USE_MEMORY_ALLOCATION_FREE
      scpi_error_info_heap_t hkeep = dst->ctx.error_info_heap;
#endif
      dst->ctx = snap; dst->ctx.error_queue = qkeep;
#if USE_DEVICE_DEPENDENT_ERROR_INFORMATION && !USE_MEMORY_ALLOCATION_FREE
      dst->ctx.error_info_heap = hkeep;
#endif
    }
    for (k = 0; k < SCPI_REG_COUNT; k++) dst->ctx.registers[k] = src->ctx.registers[k];
}

void run_parse(const char *input) {
    char *copy = strdup(input), *tok, *save = NULL; int mode = 0, bufsize, qcap; table_t *t = (table_t *) calloc(1, sizeof *t);
    h_env_t e1, e2; static char *chunksA[8192], *chunksB[8192]; int na = 0, nb = 0, second = 0, i;
    h_set_case("%s", input);
    tok = strtok_r(copy, " ", &save);
    if (!strcmp(tok, "P8")) mode = 8; else if (!strcmp(tok, "P9")) mode = 9; else if (!strcmp(tok, "PU")) mode = 10;
    tok = strtok_r(NULL, " ", &save); bufsize = tok ? atoi(tok) : 64;
    tok = strtok_r(NULL, " ", &save); qcap = tok ? atoi(tok) : 4;
    tok = strtok_r(NULL, " ", &save); parse_table(tok ? tok : "", t);
    while ((tok = strtok_r(NULL, " ", &save))) {
        if (!strcmp(tok, "|")) { second = 1; continue; }
        if (!second && na < 8192) chunksA[na++] = tok; else if (second && nb < 8192) chunksB[nb++] = tok;
    }
    cur_table = t; h_parse_hook_fn = parse_hook;
    EV = open_memstream(&ev_buf, &ev_len);
    h_watchdog(20);
    h_env_init(&e1, t->table, (size_t) bufsize, qcap, 64); e1.iface.error = cb_error_ev; e1.iface.reset = cb_reset_ev;
    if (mode == 0) {
        for (i = 0; i < na; i++) feed(&e1, chunksA[i]);
        finish(&e1);
    } else if (mode == 8) {
        for (i = 0; i < na; i++) feed(&e1, chunksA[i]);
        finish(&e1);
        fprintf(EV, " ||");
        h_env_init(&e2, t->table, (size_t) bufsize, qcap, 64); e2.iface.error = cb_error_ev; e2.iface.reset = cb_reset_ev;
        for (i = 0; i < nb; i++) feed(&e2, chunksB[i]);
        finish(&e2);
        h_env_free(&e2);
    } else if (mode == 10) {
        /* unit isolation.  PU <buf> <qcap> <table> <unit1 hex> | <unit2 hex>   (unit 2 has an absolute or common header)
         *   run 1: "unit1;unit2<NL>" as ONE message on a fresh context
         *   run 2: "unit1<NL>" on a fresh context
         *   run 3: "unit2<NL>" on a fresh context that was given the registers and queue content run 2 ended with
         * what unit 2 does in run 1 must be what it does in run 3 */
        h_env_t e3; static char m[40000];
        if (na >= 1 && nb >= 1 && strlen(chunksA[0]) + strlen(chunksB[0]) + 8 < sizeof m) {
            sprintf(m, "%s3b%s0a", strcmp(chunksA[0], "-") ? chunksA[0] : "", strcmp(chunksB[0], "-") ? chunksB[0] : "");
            feed(&e1, m); finish(&e1);
            fprintf(EV, " ||");
            h_env_init(&e3, t->table, (size_t) bufsize, qcap, 64); e3.iface.error = cb_error_ev; e3.iface.reset = cb_reset_ev;
            sprintf(m, "%s0a", strcmp(chunksA[0], "-") ? chunksA[0] : "");
            feed(&e3, m);
            seed_fresh(&e2, &e3, t, bufsize, qcap);
            finish(&e3); h_env_free(&e3);
            fprintf(EV, " ||");
            e2.iface.error = cb_error_ev;
            sprintf(m, "%s0a", strcmp(chunksB[0], "-") ? chunksB[0] : "");
            feed(&e2, m); finish(&e2);
            h_env_free(&e2);
        }
    } else {
        /* A on context 1, which is then left exactly as A left it (only its unterminated input tail is dropped);
         * context 2 is a fresh context given A's registers and A's queue content and nothing else: every other field
         * keeps the value SCPI_Init gave it (the pushes that rebuild the queue are undone for everything but the queue) */
        FILE *keep; char *junk; size_t junklen;
        keep = EV; EV = open_memstream(&junk, &junklen);          /* A's own events are not part of the comparison */
        for (i = 0; i < na; i++) feed(&e1, chunksA[i]);
        fclose(EV); free(junk); EV = keep;
        seed_fresh(&e2, &e1, t, bufsize, qcap);
        fprintf(EV, " K"); ev_hex(e1.ctx.buffer.data, e1.ctx.buffer.position);     /* what A left unconsumed in the input buffer */
        /* pending input of A (an unterminated tail) is part of the stream: context 1 keeps it exactly as A's calls left it
         * (with whatever stale bytes lie behind it), the fresh context receives the same bytes in a call of its own */
        if (e1.ctx.buffer.position > 0) {
            char *pend = (char *) malloc(e1.ctx.buffer.position);
            memcpy(pend, e1.ctx.buffer.data, e1.ctx.buffer.position);
            keep = EV; EV = open_memstream(&junk, &junklen);
            SCPI_Input(&e2.ctx, pend, (int) e1.ctx.buffer.position);
            fclose(EV); free(junk); EV = keep;
            free(pend);
        }
        e1.iface.error = cb_error_ev; e2.iface.error = cb_error_ev;
        for (i = 0; i < nb; i++) feed(&e1, chunksB[i]);
        finish(&e1);
        fprintf(EV, " ||");
        for (i = 0; i < nb; i++) feed(&e2, chunksB[i]);
        finish(&e2);
        h_env_free(&e2);
    }
    h_watchdog(0);
    fclose(EV);
    printf("%s =>%s\n", input, ev_buf);
    free(ev_buf);
    h_env_free(&e1);
    free(t); free(copy);
}
