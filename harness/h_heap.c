/* Domain H: error-queue histories over the static info heap (configuration B only).
 * Case:  H <cap> <heapsize> <op>...   ops:  p,<code>,<hexinfo|N>,<len>   s (SYST:ERR? handler)   k   c
 * Observation per op:  P<cb>/<cb>,U<used>/<wr>   O<code>,<hextext|N>,U<used>/<wr>   K,U<used>/<wr>   C<n>
 * plus a final token  Z<hex of the whole heap>  and canary check of the bytes around the heap. */
#include "h_env.h"

#if USE_DEVICE_DEPENDENT_ERROR_INFORMATION && !USE_MEMORY_ALLOCATION_FREE
static const scpi_command_t no_cmds[] = { SCPI_CMD_LIST_END };

/* independent reader of <code>,"<desc>[;<text>]" */
static int parse_syserr(const char *out, size_t len, int *code, char *text, size_t cap, int *has_text) {
    size_t i, n = 0; char raw[2048]; const char *desc; size_t dl; char *end;
    long c = strtol(out, &end, 10);
    *code = (int) c; *has_text = 0;
    i = (size_t)(end - out);
    if (i + 1 >= len || out[i] != ',' || out[i + 1] != '"') return 0;
    i += 2;
    while (i < len) {
        if (out[i] == '"') { if (i + 1 < len && out[i + 1] == '"') { raw[n++] = '"'; i += 2; continue; } break; }
        if (n + 1 >= sizeof raw) return 0;
        raw[n++] = out[i++];
    }
    if (i >= len || out[i] != '"' || i + 1 != len) return 0;
    raw[n] = 0;
    desc = SCPI_ErrorTranslate((int16_t) c); dl = strlen(desc);
    if (strncmp(raw, desc, dl) != 0) return 0;
    if (raw[dl] == 0) return 1;
    if (raw[dl] != ';') return 0;
    *has_text = 1;
    snprintf(text, cap, "%s", raw + dl + 1);
    return 1;
}

void run_heap(const char *input) {
    h_env_t e; char *copy = strdup(input), *tok, *save = NULL; int cap; unsigned hs;
    h_set_case("%s", input);
    tok = strtok_r(copy, " ", &save);
    tok = strtok_r(NULL, " ", &save); cap = tok ? atoi(tok) : 1;
    tok = strtok_r(NULL, " ", &save); hs = tok ? (unsigned) atoi(tok) : 8;
    h_env_init(&e, no_cmds, 16, cap, hs);
    printf("%s =>", input);
#define USED (unsigned)(e.ctx.error_info_heap.size - e.ctx.error_info_heap.count), (unsigned) e.ctx.error_info_heap.wr
    while ((tok = strtok_r(NULL, " ", &save))) {
        h_env_clear_capture(&e);
        if (tok[0] == 'p') {
            int code, k; unsigned len; char hex[1024]; unsigned char *info; size_t il;
            if (sscanf(tok, "p,%d,%1023[^,],%u", &code, hex, &len) != 3) continue;
            info = (unsigned char *) malloc(strlen(hex) / 2 + 1);         /* exact size: text + NUL */
            il = h_unhex(hex, info, strlen(hex) / 2); info[il] = 0;
            SCPI_ErrorPushEx(&e.ctx, (int16_t) code, hex[0] == 'N' ? NULL : (char *) info, len);
            free(info);
            printf(" P");
            for (k = 0; k < e.n_errcb; k++) printf("%s%d", k ? "/" : "", e.errcb[k]);
            printf(",U%u/%u", USED);
        } else if (tok[0] == 's') {
            int code = 0, has = 0; char text[2048];
            e.ctx.output_count = 0;
            SCPI_SystemErrorNextQ(&e.ctx);
            if (!parse_syserr(e.out, e.out_len, &code, text, sizeof text, &has)) { printf(" O?"); h_hex(stdout, e.out, e.out_len); }
            else { printf(" O%d,", code); if (has) h_hexs(stdout, text); else printf("N"); }
            printf(",U%u/%u", USED);
        } else if (tok[0] == 'k') {
            SCPI_ErrorClear(&e.ctx);
            printf(" K,U%u/%u", USED);
        } else if (tok[0] == 'c') {
            printf(" C%d", (int) SCPI_ErrorCount(&e.ctx));
        }
    }
    printf(" Z"); h_hex(stdout, e.heap, hs);
    printf("\n");
    h_env_free(&e);
    free(copy);
}

static const char *texts[] = {"N", "41", "4142", "414243", "41424344", "4142434445", "414243444546", "2241223b22", "-",
                              "61626364656667686970", "4a4b4c4d4e4f505152535455", "58"};
void dom_heap(void) {
    static const char *alpha[] = {" p,1,N,0", " p,2,41,0", " p,3,4243,0", " p,4,444546,0", " p,5,4748494a4b,0", " p,6,4c4d4e4f5051,2",
                                  " s", " k", " c"};
    int L = h_thorough ? 6 : 5, cap, len; unsigned hs; unsigned long idx, total; char in[8192];
    /* exhaustive: all sequences over a 9-letter alphabet for a grid of capacities and heap sizes */
    for (cap = 1; cap <= (h_thorough ? 4 : 3); cap++)
        for (hs = 2; hs <= 12; hs += (h_thorough ? 1 : 3))
            for (len = 1; len <= L; len++) {
                total = 1; { int i; for (i = 0; i < len; i++) total *= 9; }
                for (idx = 0; idx < total; idx++) {
                    unsigned long r = idx; int i; size_t n;
                    n = (size_t) snprintf(in, sizeof in, "H %d %u", cap, hs);
                    for (i = 0; i < len; i++) { n += (size_t) snprintf(in + n, sizeof in - n, "%s", alpha[r % 9]); r /= 9; }
                    if (h_mine_str(in)) run_heap(in);
                }
            }
    /* random long histories on larger heaps, heap sizes 0 and 1 included */
    { unsigned long n = h_thorough ? 60000 : 8000;
      for (; n; n--) {
          size_t k; unsigned ops = 1 + h_below(h_thorough ? 150 : 50), i;
          cap = 1 + (int) h_below(6);
          hs = h_chance(10) ? h_below(3) : 2 + h_below(h_chance(70) ? 20 : 60);
          k = (size_t) snprintf(in, sizeof in, "H %d %u", cap, hs);
          for (i = 0; i < ops && k + 80 < sizeof in; i++) {
              unsigned kind = h_below(10);
              if (kind < 6) k += (size_t) snprintf(in + k, sizeof in - k, " p,%d,%s,%u", (int) h_below(200) - 100, texts[h_below(12)], h_chance(75) ? 0 : h_below(8));
              else if (kind < 8) k += (size_t) snprintf(in + k, sizeof in - k, " s");
              else if (kind < 9) k += (size_t) snprintf(in + k, sizeof in - k, " c");
              else k += (size_t) snprintf(in + k, sizeof in - k, " k");
          }
          if (h_mine_str(in)) run_heap(in);
      } }
}
#else
void run_heap(const char *input) { (void) input; }
void dom_heap(void) { }
#endif
