/* Domain F: functions that fill a caller-supplied buffer with formatted floating-point text.
 * Case:  F d <bits16hex> <buflen> <hex of snprintf("%.15lg")>     SCPI_DoubleToStr
 *        F f <bits8hex>  <buflen> <hex of snprintf("%g")>         SCPI_FloatToStr
 *        F e <bits16hex> <buflen> <prec> <flags>                  SCPI_dtostre (the library's own formatter)
 *        F n <special> <tag> <bits16hex> <unit> <buflen> <hex of snprintf("%.15lg")>   SCPI_NumberToStr
 *        F R <bits16hex> <hex of snprintf("%.15lg")>              SCPI_ResultDouble through a context (the library's own scratch buffer)
 *        F r <bits8hex>  <hex of snprintf("%g")>                  SCPI_ResultFloat  through a context
 * The buffer is an exact-size heap block filled with 0xAA.  Observation:
 *        <ret> <hex of buf up to the first NUL or buflen> <nul: 1 if a NUL was found inside the buffer> <canary: 1 if every byte after the NUL is still 0xAA or was zero-filled by strncpy> */
#include "h_env.h"
#include <math.h>

static const scpi_command_t no_cmds[] = { SCPI_CMD_LIST_END };
extern char *scpi_ecvt(double arg, int ndigits, int *decpt, int *sign, char *buf, size_t bufsize);   /* utils.c, built with -Dstatic= */

static void report(const char *input, size_t ret, const char *buf, size_t buflen, int ptr_ok) {
    size_t n = 0; int nul = 0;
    while (n < buflen) { if (buf[n] == 0) { nul = 1; break; } n++; }
    printf("%s => %zu ", input, ret); h_hex(stdout, buf, n); printf(" %d %d\n", nul, ptr_ok);
}

void run_buffmt(const char *input) {
    char kind; static char rest[4096]; char *buf; unsigned buflen;
    if (sscanf(input, "F %c %4095[^\n]", &kind, rest) != 2) return;
    h_set_case("%s", input);
    if (kind == 'd' || kind == 'f') {
        unsigned long long bits; size_t ret;
        if (sscanf(rest, "%llx %u", &bits, &buflen) != 2) return;
        buf = (char *) malloc(buflen ? buflen : 1); memset(buf, 0xAA, buflen ? buflen : 1);
        if (kind == 'd') { double d; uint64_t b = bits; memcpy(&d, &b, 8); ret = SCPI_DoubleToStr(d, buflen ? buf : buf + 1, buflen); }
        else { float f; uint32_t b = (uint32_t) bits; memcpy(&f, &b, 4); ret = SCPI_FloatToStr(f, buflen ? buf : buf + 1, buflen); }
        report(input, ret, buf, buflen, 1); free(buf);
    } else if (kind == 'R' || kind == 'r') {
        unsigned long long bits; h_env_t e; size_t ret;
        if (sscanf(rest, "%llx", &bits) != 1) return;
        h_env_init(&e, no_cmds, 16, 2, 16);
        if (kind == 'R') { double d; uint64_t b = bits; memcpy(&d, &b, 8); ret = SCPI_ResultDouble(&e.ctx, d); }
        else { float f; uint32_t b = (uint32_t) bits; memcpy(&f, &b, 4); ret = SCPI_ResultFloat(&e.ctx, f); }
        printf("%s => %zu ", input, ret); h_hex(stdout, e.out, e.out_len); printf(" 1 1\n");
        h_env_free(&e);
    } else if (kind == 'e') {
        unsigned long long bits; unsigned prec, flags; double d; uint64_t b; char *r;
        if (sscanf(rest, "%llx %u %u %u", &bits, &buflen, &prec, &flags) != 4) return;
        b = bits; memcpy(&d, &b, 8);
        buf = (char *) malloc(buflen ? buflen : 1); memset(buf, 0xAA, buflen ? buflen : 1);
        r = SCPI_dtostre(d, buflen ? buf : buf + 1, buflen, (unsigned char) prec, (unsigned char) flags);
        {   /* digits and decimal exponent produced by the digit generator, for the assembly model */
            char dg[40]; int decpt = 0, sg = 0; size_t n = 0; int nul = 0; double a = signbit(d) ? -d : d;
            memset(dg, 0, sizeof dg);
            if (isfinite(d)) scpi_ecvt(a, (int) prec, &decpt, &sg, dg, 31);
            while (n < buflen) { if (buf[n] == 0) { nul = 1; break; } n++; }
            printf("%s => %zu ", input, buflen ? strnlen(buf, buflen) : 0); h_hex(stdout, buf, n);
            printf(" %d %d ", nul, r == (buflen ? buf : buf + 1)); h_hexs(stdout, dg); printf(" %d\n", decpt);
        }
        free(buf);
    } else if (kind == 'n') {
        unsigned special, unit; int tag; unsigned long long bits; scpi_number_t num; h_env_t e; size_t ret; uint64_t b;
        if (sscanf(rest, "%u %d %llx %u %u", &special, &tag, &bits, &unit, &buflen) != 5) return;
        memset(&num, 0, sizeof num);
        num.special = special ? TRUE : FALSE; num.unit = (scpi_unit_t) unit; num.base = 10;
        if (special) num.content.tag = tag; else { b = bits; memcpy(&num.content.value, &b, 8); }
        h_env_init(&e, no_cmds, 16, 2, 16);
        buf = (char *) malloc(buflen ? buflen : 1); memset(buf, 0xAA, buflen ? buflen : 1);
        ret = SCPI_NumberToStr(&e.ctx, scpi_special_numbers_def, &num, buflen ? buf : buf + 1, buflen);
        {   /* the number text of this build's own formatter with ample room, for the judge */
            char big[64]; size_t n = 0; int nul = 0; big[0] = 0;
            if (!special) SCPI_DoubleToStr(num.content.value, big, sizeof big);
            while (n < buflen) { if (buf[n] == 0) { nul = 1; break; } n++; }
            printf("%s => %zu ", input, ret); h_hex(stdout, buf, n); printf(" %d 1 ", nul); h_hexs(stdout, big); printf("\n");
        }
        free(buf); h_env_free(&e);
    }
}

static void emit_case(const char *in) { if (h_mine_str(in)) run_buffmt(in); }

static void hexstr(char *out, const char *s) { size_t i; if (!*s) { strcpy(out, "-"); return; } for (i = 0; s[i]; i++) sprintf(out + 2 * i, "%02x", (unsigned char) s[i]); }

static double interesting_double(void) {
    unsigned k = h_below(12); double d; uint64_t b;
    switch (k) {
        case 0: return (double)(int)(h_below(2001)) - 1000.0;
        case 1: return pow(10.0, (int) h_below(640) - 320);
        case 2: { b = h_rand(); memcpy(&d, &b, 8); return d; }                               /* any bit pattern (NaN / inf / subnormal included) */
        case 3: return ((double) h_below(1000000) + 0.5) * pow(10.0, (int) h_below(40) - 25);  /* d.ddd5 rounding boundaries */
        case 4: return (double) h_below(100000) * pow(10.0, -(int) h_below(12));              /* zero digits in the middle / leading zeros */
        case 5: { b = h_below(1000); memcpy(&d, &b, 8); return d; }                            /* subnormals */
        case 6: return h_chance(50) ? INFINITY : (h_chance(50) ? -INFINITY : NAN);
        case 7: return (h_chance(50) ? 1 : -1) * (1.0 + (double) h_below(1000) / 1000.0) * pow(10.0, (int) h_below(12) - 6);
        case 8: return 0.000870507 * (1 + h_below(9));
        case 9: return h_chance(50) ? 0.0 : -0.0;
        case 10: return 9.9999999999999995 * pow(10.0, (int) h_below(30) - 15);
        default: return (double)(h_rand() >> 11) * pow(2.0, (int) h_below(200) - 120);
    }
}

void dom_buffmt(void) {
    unsigned long n = h_thorough ? 1500000 : 120000; char in[512], txt[128], hx[300];
    for (; n; n--) {
        unsigned kind = h_below(11); double d = interesting_double(); uint64_t b; unsigned buflen;
        memcpy(&b, &d, 8);
        if (kind == 10) {
            /* the same values as results: the text goes through the library's own scratch buffer */
            if (h_chance(60)) { if (h_chance(50)) d = -d; if (h_chance(40)) d *= h_chance(50) ? 1e150 : 1e-150; memcpy(&b, &d, 8);
                snprintf(txt, sizeof txt, "%.15lg", d); hexstr(hx, txt); snprintf(in, sizeof in, "F R %016llx %s", (unsigned long long) b, hx); }
            else { float f = (float) d; uint32_t fb; if (h_chance(50)) f = -f; memcpy(&fb, &f, 4);
                snprintf(txt, sizeof txt, "%g", f); hexstr(hx, txt); snprintf(in, sizeof in, "F r %08x %s", fb, hx); }
            emit_case(in);
        } else if (kind < 3) {
            snprintf(txt, sizeof txt, "%.15lg", d); hexstr(hx, txt);
            buflen = h_chance(60) ? 32 : h_below(41);
            if (h_chance(30)) { size_t tl = strlen(txt); buflen = (unsigned)(tl + h_below(4)) - (h_chance(50) && tl ? 1 : 0); }
            snprintf(in, sizeof in, "F d %016llx %u %s", (unsigned long long) b, buflen, hx); emit_case(in);
        } else if (kind < 5) {
            float f = (float) d; uint32_t fb; memcpy(&fb, &f, 4);
            snprintf(txt, sizeof txt, "%g", f); hexstr(hx, txt);
            buflen = h_chance(60) ? 32 : h_below(41);
            snprintf(in, sizeof in, "F f %08x %u %s", fb, buflen, hx); emit_case(in);
        } else if (kind < 8) {
            unsigned prec = 1 + h_below(15);
            buflen = h_chance(70) ? 32 : h_below(41);
            snprintf(in, sizeof in, "F e %016llx %u %u %u", (unsigned long long) b, buflen, prec, h_chance(85) ? 0 : (1u << h_below(5))); emit_case(in);
        } else {
            /* SCPI_NumberToStr: every unit and every special name, buffer lengths around the text length */
            int special = h_chance(30); int u;
            static int nunits = 0; if (!nunits) while (scpi_units_def[nunits].name) nunits++;
            u = (int) h_below((unsigned) nunits);
            if (h_chance(40)) d = (double)((int) h_below(20000) - 10000) / (h_chance(50) ? 1.0 : 8.0);
            memcpy(&b, &d, 8);
            snprintf(txt, sizeof txt, "%.15lg", d); hexstr(hx, txt);
            buflen = h_below(41);
            if (h_chance(50)) { size_t tl = strlen(txt) + 1 + strlen(scpi_units_def[u].name); buflen = (unsigned)(tl + h_below(4)) - (tl >= 2 ? h_below(3) : 0); }
            snprintf(in, sizeof in, "F n %d %d %016llx %d %u %s", special, special ? (int) h_below(11) : 0, (unsigned long long) b,
                     h_chance(10) ? 0 : (int) scpi_units_def[u].unit, buflen, hx); emit_case(in);
        }
    }
}
