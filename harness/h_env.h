#ifndef H_ENV_H
#define H_ENV_H
#include "h_common.h"

/* a context with exact-size heap-allocated input buffer / error queue / info heap and an
 * interface that records everything */
typedef struct {
    scpi_t ctx;
    scpi_interface_t iface;
    char *inbuf; size_t inbuf_len;
    scpi_error_t *queue; int queue_len;
    char *heap; size_t heap_len;
    /* captured */
    char *out; size_t out_len, out_cap;
    int flushes;
    int errcb[256]; int n_errcb;
    unsigned srq[256]; unsigned srq_stb[256]; int n_srq;   /* srq_stb: the status byte register at the moment of the callback */
    int resets;
} h_env_t;

void h_env_init(h_env_t *e, const scpi_command_t *cmds, size_t inbuf_len, int queue_len, size_t heap_len);
void h_env_free(h_env_t *e);
void h_env_clear_capture(h_env_t *e);

/* allocation tracking / failure injection (strndup and free are wrapped at link time) */
extern void (*h_parse_hook_fn)(scpi_t *, const char *, int);
extern int h_fail_strndup;          /* next strndup returns NULL */
int h_live_allocs(void);
void h_alloc_reset(void);
#endif
