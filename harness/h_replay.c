#include "h_common.h"
void run_intfmt(const char *input);
void run_queue(const char *input);
void run_regs(const char *input);
void run_heap(const char *input);
void run_lexer(const char *input);
void run_match(const char *input);
void run_errstr(const char *input);
void run_expr(const char *input);
void run_buffmt(const char *input);
void run_roundtrip(const char *input);
void run_parse(const char *input);

void dom_replay(const char *line) {
    char *copy = strdup(line), *arrow;
    if ((arrow = strstr(copy, " => "))) *arrow = 0;
    switch (copy[0]) {
        case 'I': run_intfmt(copy); break;
        case 'Q': run_queue(copy); break;
        case 'R': run_regs(copy); break;
        case 'H': run_heap(copy); break;
        case 'L': run_lexer(copy); break;
        case 'M': run_match(copy); break;
        case 'E': run_errstr(copy); break;
        case 'X': run_expr(copy); break;
        case 'F': run_buffmt(copy); break;
        case 'Y': run_roundtrip(copy); break;
        case 'P': run_parse(copy); break;
        default: break;
    }
    free(copy);
}
