/* Domain R: status-register histories through the public API.
 * Case:  R <cap> <op>...   ops: s,<reg>,<hexval>  SCPI_RegSet     b,<reg>,<hexval> SCPI_RegSetBits
 *                               c,<reg>,<hexval>  SCPI_RegClearBits
 *                               e,<code> SCPI_ErrorPush   o SCPI_ErrorPop   k SCPI_ErrorClear   L *CLS handler
 *                               q0 *ESR? handler  q1 STAT:OPER:EVEN? handler  q2 STAT:QUES:EVEN? handler  r STAT:PRES handler
 *                               a,<hexbits>,<0|1>   the application stores its own status-byte bits (0, 1, 4 = MAV):
 *                                    SCPI_RegSet(STB, (STB & summary bits 2,3,5,7) | bits | (bit 6 kept if 1, cleared if 0))
 * Observation, one token per op:  <regs 0..9 as 4 hex digits joined by '.'>,<queue count>,<srq values /-joined or ->,<error callbacks /-joined or -> */
#include "h_env.h"

static const scpi_command_t no_cmds[] = { SCPI_CMD_LIST_END };

void run_regs(const char *input) {
    h_env_t e; char *copy = strdup(input), *tok, *save = NULL; int cap, i;
    h_set_case("%s", input);
    tok = strtok_r(copy, " ", &save);
    tok = strtok_r(NULL, " ", &save); cap = tok ? atoi(tok) : 1;
    h_env_init(&e, no_cmds, 16, cap, 64);
    printf("%s =>", input);
    while ((tok = strtok_r(NULL, " ", &save))) {
        unsigned reg, val; int code;
        h_env_clear_capture(&e);
        e.ctx.output_count = 0;
        if (sscanf(tok, "s,%u,%x", &reg, &val) == 2) SCPI_RegSet(&e.ctx, (scpi_reg_name_t) reg, (scpi_reg_val_t) val);
        else if (sscanf(tok, "b,%u,%x", &reg, &val) == 2) SCPI_RegSetBits(&e.ctx, (scpi_reg_name_t) reg, (scpi_reg_val_t) val);
        else if (sscanf(tok, "c,%u,%x", &reg, &val) == 2) SCPI_RegClearBits(&e.ctx, (scpi_reg_name_t) reg, (scpi_reg_val_t) val);
        else if (sscanf(tok, "a,%x,%u", &val, &reg) == 2) {
            unsigned cur = (unsigned) SCPI_RegGet(&e.ctx, SCPI_REG_STB);
            SCPI_RegSet(&e.ctx, SCPI_REG_STB, (scpi_reg_val_t) ((cur & 0xAC) | (val & 0x13) | (reg ? (cur & 0x40) : 0)));
        }
        else if (sscanf(tok, "e,%d", &code) == 1) SCPI_ErrorPush(&e.ctx, (int16_t) code);
        else if (tok[0] == 'o') { scpi_error_t err; SCPI_ErrorPop(&e.ctx, &err);
#if USE_DEVICE_DEPENDENT_ERROR_INFORMATION && USE_MEMORY_ALLOCATION_FREE
            free(err.device_dependent_info);
#endif
        }
        else if (tok[0] == 'k') SCPI_ErrorClear(&e.ctx);
        else if (tok[0] == 'L') SCPI_CoreCls(&e.ctx);
        else if (strcmp(tok, "q0") == 0) SCPI_CoreEsrQ(&e.ctx);
        else if (strcmp(tok, "q1") == 0) SCPI_StatusOperationEventQ(&e.ctx);
        else if (strcmp(tok, "q2") == 0) SCPI_StatusQuestionableEventQ(&e.ctx);
        else if (tok[0] == 'r') SCPI_StatusPreset(&e.ctx);
        else continue;
        printf(" ");
        for (i = 0; i < SCPI_REG_COUNT; i++) printf("%s%04x", i ? "." : "", (unsigned) SCPI_RegGet(&e.ctx, (scpi_reg_name_t) i));
        printf(",%d,", (int) SCPI_ErrorCount(&e.ctx));
        if (!e.n_srq) printf("-"); for (i = 0; i < e.n_srq; i++) { printf("%s%04x", i ? "/" : "", e.srq[i]); if (e.srq[i] != e.srq_stb[i]) printf("!%04x", e.srq_stb[i]); }   /* value!status byte when the two differ */
        printf(",");
        if (!e.n_errcb) printf("-"); for (i = 0; i < e.n_errcb; i++) printf("%s%d", i ? "/" : "", e.errcb[i]);
    }
    printf("\n");
    SCPI_ErrorClear(&e.ctx);
    h_env_free(&e);
    free(copy);
}

/* representative values: combinations of bit 5, bit 6 and bit 9 (a bit above 8) */
static const unsigned repr[] = {0x0000, 0x0020, 0x0040, 0x0200, 0x0060, 0x0220, 0x0240, 0x0260};
static const int codes[] = {-100, -200, -300, -410, -500, -600, -700, -800, 5, 0, 32767, -99, -900, 1, -350, -32768, -199, -299, -399};

#define MAXA 160
static char alpha[MAXA][24]; static int n_alpha;

static void build_alphabet(void) {
    int r, v;
    n_alpha = 0;
    /* writes to every register but STB itself: three representative single bits and two combinations */
    for (r = 1; r < 10; r++)
        for (v = 0; v < 8; v++) {
            if (v == 4 || v == 6) continue;
            snprintf(alpha[n_alpha++], 24, " s,%d,%x", r, repr[v]);
        }
    snprintf(alpha[n_alpha++], 24, " b,2,20"); snprintf(alpha[n_alpha++], 24, " c,2,20");
    snprintf(alpha[n_alpha++], 24, " b,6,200"); snprintf(alpha[n_alpha++], 24, " c,9,200");
    snprintf(alpha[n_alpha++], 24, " e,-100"); snprintf(alpha[n_alpha++], 24, " e,5"); snprintf(alpha[n_alpha++], 24, " e,-410");
    snprintf(alpha[n_alpha++], 24, " o"); snprintf(alpha[n_alpha++], 24, " k"); snprintf(alpha[n_alpha++], 24, " L");
    snprintf(alpha[n_alpha++], 24, " q0"); snprintf(alpha[n_alpha++], 24, " q1"); snprintf(alpha[n_alpha++], 24, " q2"); snprintf(alpha[n_alpha++], 24, " r");
}

void dom_regs(void) {
    char in[8192]; int len, L = h_thorough ? 4 : 3; unsigned long idx, total; int i;
    build_alphabet();
    /* every error code class boundary, one push each (C12 classification) */
    for (i = -32768; i <= 32767; i++) {
        if (!h_thorough && !(i % 100 == 0 || (i + 1) % 100 == 0 || (i - 1) % 100 == 0 || (i > -1000 && i < 1000 && i % 7 == 0) || i == 32767 || i == -32768)) continue;
        snprintf(in, sizeof in, "R 2 e,%d", i);
        if (h_mine_str(in)) run_regs(in);
    }
    /* exhaustive sequences over the alphabet (lock-step comparison with the model's step) */
    for (len = 1; len <= L; len++) {
        total = 1; for (i = 0; i < len; i++) total *= (unsigned long) n_alpha;
        for (idx = 0; idx < total; idx++) {
            unsigned long r = idx; size_t n;
            if (len == L && !h_thorough && (idx % 5) != (h_seed % 5)) { continue; }
            n = (size_t) snprintf(in, sizeof in, "R %d", 1 + (int)(idx % 2));
            for (i = 0; i < len; i++) { n += (size_t) snprintf(in + n, sizeof in - n, "%s", alpha[r % (unsigned long) n_alpha]); r /= (unsigned long) n_alpha; }
            if (h_mine_str(in)) run_regs(in);
        }
    }
    /* the application's own status-byte bits (0, 1, 4 = MAV) with service request enabled for them: exhaustive short
     * histories over a small alphabet of their own */
    { static const char *al[] = { " s,1,10", " s,1,11", " s,1,30", " s,1,0", " s,1,44", " a,10,0", " a,10,1", " a,0,0", " a,0,1", " a,1,0", " a,13,1",
          " b,0,10", " c,0,10", " b,0,1", " c,0,1", " b,0,40", " c,0,40", " s,2,20", " s,3,20", " e,-100", " o", " q0", " L" };
      int na = (int)(sizeof al / sizeof al[0]), l2 = h_thorough ? 4 : 3;
      for (len = 1; len <= l2; len++) {
          total = 1; for (i = 0; i < len; i++) total *= (unsigned long) na;
          for (idx = 0; idx < total; idx++) {
              unsigned long r = idx; size_t n = (size_t) snprintf(in, sizeof in, "R 2");
              for (i = 0; i < len; i++) { n += (size_t) snprintf(in + n, sizeof in - n, "%s", al[r % (unsigned long) na]); r /= (unsigned long) na; }
              if (h_mine_str(in)) run_regs(in);
          }
      } }
    /* random walks over full 16-bit values */
    { unsigned long n = h_thorough ? 60000 : 6000;
      for (; n; n--) {
          size_t k = (size_t) snprintf(in, sizeof in, "R %d", 1 + (int) h_below(3));
          unsigned ops = 1 + h_below(40), j;
          for (j = 0; j < ops && k + 32 < sizeof in; j++) {
              unsigned kind = h_below(16), reg = 1 + h_below(9);
              unsigned val = h_chance(50) ? (unsigned)(h_rand() & 0xFFFF) : repr[h_below(8)] | (h_chance(30) ? 1u << h_below(16) : 0);
              if (h_chance(5)) reg = 10 + h_below(3);          /* out-of-range names are ignored */
              switch (kind) {
                  case 0: case 1: case 2: case 3: case 4: k += (size_t) snprintf(in + k, sizeof in - k, " s,%u,%x", reg, val); break;
                  case 5: k += (size_t) snprintf(in + k, sizeof in - k, " b,%u,%x", reg, val); break;
                  case 6: k += (size_t) snprintf(in + k, sizeof in - k, " c,%u,%x", reg, val); break;
                  case 7: case 8: k += (size_t) snprintf(in + k, sizeof in - k, " e,%d", codes[h_below(19)]); break;
                  case 9: k += (size_t) snprintf(in + k, sizeof in - k, " o"); break;
                  case 10: k += (size_t) snprintf(in + k, sizeof in - k, " k"); break;
                  case 11: k += (size_t) snprintf(in + k, sizeof in - k, " L"); break;
                  case 12: if (h_chance(40)) { k += (size_t) snprintf(in + k, sizeof in - k, " a,%x,%u", h_below(0x14) & 0x13, h_below(2)); break; }
                           k += (size_t) snprintf(in + k, sizeof in - k, " q0"); break;
                  case 13: k += (size_t) snprintf(in + k, sizeof in - k, " q1"); break;
                  case 14: k += (size_t) snprintf(in + k, sizeof in - k, " q2"); break;
                  default: k += (size_t) snprintf(in + k, sizeof in - k, " r"); break;
              }
          }
          if (h_mine_str(in)) run_regs(in);
      } }
    /* large queues filled to one below / exactly / one beyond their capacity, then drained partly, cleared and reused:
     * capacities around 2^8 (an index or count field narrower than the capacity; error-available bit and MSS at every step) */
    { static const int caps[] = {255, 256, 257, 300}; int ci, extra;
      for (ci = 0; ci < 4; ci++)
          for (extra = -1; extra <= 1; extra++) {
              size_t k = (size_t) snprintf(in, sizeof in, "R %d s,1,4", caps[ci]);
              for (i = 0; i < caps[ci] + extra && k + 64 < sizeof in; i++) k += (size_t) snprintf(in + k, sizeof in - k, " e,%d", codes[i % 5]);
              k += (size_t) snprintf(in + k, sizeof in - k, " o o q0 o e,-200 o k e,-100 o o");
              if (h_mine_str(in)) run_regs(in);
          } }
}
