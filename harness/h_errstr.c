/* Domain E: the error query.  Case:  E <heapsize> <rot> <code> <hextext|N> [x<explicit length>]
 * (without the last token the text is pushed with automatic length, with it through the explicit-length argument)
 * A text of `rot` bytes and a one-letter text are pushed, the first is queried (freed: the front of a
 * static heap becomes free while its write position stays), then (code, text) is pushed, the one-letter text queried and then
 * SYSTem:ERRor[:NEXT]? is run for (code, text), which in the static-heap build may wrap around the heap end.
 * Observation: <hex of everything the query wrote> <queue count afterwards> */
#include "h_env.h"

static const scpi_command_t no_cmds[] = { SCPI_CMD_LIST_END };

void run_errstr(const char *input) {
    unsigned hs, rot; int code; static char hex[4096]; static unsigned char text[2048]; size_t tl; h_env_t e; char *info; unsigned long xl = 0;
    if (sscanf(input, "E %u %u %d %4095s x%lu", &hs, &rot, &code, hex, &xl) < 4) return;
    h_set_case("%s", input);
    h_env_init(&e, no_cmds, 16, 4, hs);
    if (rot) {
        char *r = (char *) malloc(rot + 1); char k[2] = "k"; memset(r, 'r', rot); r[rot] = 0;
        SCPI_ErrorPushEx(&e.ctx, 1, r, 0); free(r);
        SCPI_ErrorPushEx(&e.ctx, 2, k, 0);
        e.ctx.output_count = 0; SCPI_SystemErrorNextQ(&e.ctx);              /* frees the first text; the write position stays */
    }
    tl = h_unhex(hex, text, sizeof text - 1);
    info = (char *) malloc(tl + 1); memcpy(info, text, tl); info[tl] = 0;       /* exact size */
    SCPI_ErrorPushEx(&e.ctx, (int16_t) code, hex[0] == 'N' ? NULL : info, (size_t) xl);
    free(info);
    if (rot) { e.ctx.output_count = 0; SCPI_SystemErrorNextQ(&e.ctx); }        /* the one-letter text */
    h_env_clear_capture(&e);
    e.ctx.output_count = 0;
    SCPI_SystemErrorNextQ(&e.ctx);
    printf("%s => ", input); h_hex(stdout, e.out, e.out_len); printf(" %d\n", (int) SCPI_ErrorCount(&e.ctx));
    SCPI_ErrorClear(&e.ctx);
    h_env_free(&e);
}

static void emit(unsigned hs, unsigned rot, int code, const unsigned char *t, size_t n, int isnull) {
    static char in[4400]; size_t k, i;
    k = (size_t) sprintf(in, "E %u %u %d ", hs, rot, code);
    if (isnull) in[k++] = 'N'; else if (!n) in[k++] = '-';
    else for (i = 0; i < n; i++) k += (size_t) sprintf(in + k, "%02x", t[i]);
    in[k] = 0;
    /* a quarter of the texts go through the explicit-length argument: the exact length, one less, or a length around and
     * beyond 255 / 256 / 512 / 65536 (the text ends at its NUL whatever the length says) */
    if (!isnull && n && h_chance(25)) {
        static const unsigned long xs[] = {255, 256, 257, 300, 511, 512, 513, 1000, 65535, 65536, 65537, 100000};
        unsigned long xl = h_chance(40) ? (unsigned long) n : h_chance(30) ? (unsigned long) n - 1 + (n == 1) : h_chance(50) ? (unsigned long) n + 1 + h_below(300) : xs[h_below(12)];
        sprintf(in + k, " x%lu", xl);
    }
    if (h_mine_str(in)) run_errstr(in);
}

void dom_errstr(void) {
    static const int codes[] = {-113, 0, -100, -350, -222, -410, 5, 12345, -32768, 32767, -363, -1, -101, -108};
    static unsigned char t[1024]; unsigned len, q, ci; unsigned long n;
    /* every code of the list once, with and without text */
    { int c; for (c = -1000; c <= 1000; c++) { if (!h_thorough && (c % 3)) continue; emit(64, 0, c, (const unsigned char *) "abc", 3, c & 1); } }
    /* lengths around the 255 limit with up to three quotes at every position near the cut */
    for (ci = 0; ci < 14; ci++) {
        size_t dl = strlen(SCPI_ErrorTranslate((int16_t) codes[ci]));
        for (len = 0; len <= 300; len++) {
            if (!h_thorough && len > 8 && (len + dl + 1 < 240 || len + dl + 1 > 275) && (len % 37)) continue;
            for (q = 0; q < 40; q++) {
                unsigned i, nq = q == 0 ? 0 : 1 + q % 3; int cut = 255 - (int) dl - 1;
                for (i = 0; i < len; i++) t[i] = (unsigned char)('a' + i % 26);
                for (i = 0; i < nq; i++) { int pos = cut - 6 + (int)(q / 3) + (int) i * (1 + (int)(q % 2)); if (pos >= 0 && pos < (int) len) t[pos] = '"'; }
                if (q > 30 && len) t[h_below(len)] = '"';
                /* static heap large enough, sometimes rotated so that the text wraps */
                emit(h_chance(50) ? 400 : 300 + h_below(200), (q % 4 == 0) ? 0 : 1 + h_below(290), codes[ci], t, len, 0);
            }
        }
    }
    /* random */
    n = h_thorough ? 400000 : 30000;
    for (; n; n--) {
        unsigned i; len = h_chance(60) ? h_below(40) : h_below(420);
        for (i = 0; i < len; i++) t[i] = h_chance(8) ? '"' : h_chance(3) ? ';' : (unsigned char)(32 + h_below(95));
        emit(h_chance(30) ? 8 + h_below(64) : 300 + h_below(300), h_chance(50) ? 0 : h_below(300), h_chance(80) ? codes[h_below(14)] : (int) h_below(65536) - 32768, t, len, h_chance(5));
    }
}
