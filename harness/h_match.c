/* Domain M: matchCommand(pattern, header, len, numbers, numbers_len, default).
 * Case:  M <hexpattern> <hexheader> <len> <n_numbers|-1> <default>
 * The header is copied into an exact-size heap block with one terminating NUL (inside the parser a
 * header is always followed by another byte of the input buffer); numbers[] is an exact-size block
 * pre-filled with -777.  Observation:  <0|1> <numbers comma separated | ->  */
#include "h_common.h"

void run_match(const char *input) {
    char hp[1024], hh[1024]; unsigned len; int nn, dflt, i; unsigned char pat[512], hdr[512]; size_t pl, hl;
    char *pbuf, *hbuf; int32_t *nums = NULL; scpi_bool_t r;
    if (sscanf(input, "M %1023s %1023s %u %d %d", hp, hh, &len, &nn, &dflt) != 5) return;
    h_set_case("%s", input);
    pl = h_unhex(hp, pat, sizeof pat); hl = h_unhex(hh, hdr, sizeof hdr);
    pbuf = (char *) malloc(pl + 1); memcpy(pbuf, pat, pl); pbuf[pl] = 0;
    hbuf = (char *) malloc(hl + 1); memcpy(hbuf, hdr, hl); hbuf[hl] = 0;
    if (nn >= 0) { nums = (int32_t *) malloc(sizeof(int32_t) * (nn ? nn : 1)); for (i = 0; i < (nn ? nn : 1); i++) nums[i] = -777; }
    r = matchCommand(pbuf, hbuf, len, nn >= 0 ? nums : NULL, nn >= 0 ? (size_t) nn : 0, dflt);
    printf("%s => %d ", input, r ? 1 : 0);
    if (nn <= 0) printf("-");
    for (i = 0; i < nn; i++) printf("%s%d", i ? "," : "", (int) nums[i]);
    printf("\n");
    free(pbuf); free(hbuf); free(nums);
}

typedef struct { const char *longf; int shortlen; } kw_t;
static const kw_t pool[] = { {"ABc", 2}, {"TEST", 4}, {"VOLTage", 4}, {"DC", 2}, {"MEASure", 4}, {"Q", 1}, {"AB", 2}, {"ABcd", 2},
                             {"CHANnel", 4}, {"OUTPut", 4}, {"FREQuency", 4}, {"Xy", 1}, {"ABC", 3}, {"VOLT", 4}, {"SYSTem", 4}, {"ERRor", 3}, {"NEXT", 4} };
#define NPOOL (sizeof pool / sizeof pool[0])

/* the caller's default for suffixes left out: small values and values that need all 32 bits */
static int gen_default(void) { static const int big[] = {32767, 32768, -32768, -32769, 65535, 65536, 100000, -100000, 2147483647, (-2147483647 - 1)}; return h_chance(75) ? (int) h_below(5) - 1 : big[h_below(10)]; }

static void emit(const char *pat, const char *hdr, size_t hl, unsigned len, int nn, int dflt) {
    char in[2300]; size_t k = 2, i;
    in[0] = 'M'; in[1] = ' ';
    for (i = 0; pat[i]; i++) k += (size_t) sprintf(in + k, "%02x", (unsigned char) pat[i]);
    in[k++] = ' ';
    if (!hl) in[k++] = '-';
    for (i = 0; i < hl; i++) k += (size_t) sprintf(in + k, "%02x", (unsigned char) hdr[i]);
    sprintf(in + k, " %u %d %d", len, nn, dflt);
    if (h_mine_str(in)) run_match(in);
}

static void spell(char *out, const char *form, size_t n, int mode) {
    size_t i;
    for (i = 0; i < n; i++) {
        char c = form[i];
        if (mode == 1) c = (char) tolower((unsigned char) c);
        else if (mode == 2) c = (char) toupper((unsigned char) c);
        else if (mode == 3) c = (i & 1) ? (char) tolower((unsigned char) c) : (char) toupper((unsigned char) c);
        out[i] = c;
    }
    out[n] = 0;
}

#include <ctype.h>
/* a numeric suffix as a user may write it: mostly small, sometimes large, sometimes with leading zeros ("08", "010", "0017", "00")
 * - the matcher must read it as a decimal number whatever its spelling */
static void numsuffix(char *out, unsigned big) {
    unsigned k = h_below(10);
    if (k < 6) sprintf(out, "%u", h_below(30));
    else if (k < 8) { unsigned z = 1 + h_below(3), i; for (i = 0; i < z; i++) out[i] = '0'; sprintf(out + z, "%u", h_chance(50) ? h_below(10) : h_below(100)); if (h_chance(15)) out[z] = 0; }
    else sprintf(out, "%u", h_below(big));
}

/* one header mnemonic derived from keyword k: short, long, near misses, digits, other keyword */
static size_t mnemonic(char *out, const kw_t *k, int numeric) {
    char tmp[64]; size_t n; unsigned v = h_below(12);
    size_t ll = strlen(k->longf);
    switch (v) {
        case 0: case 1: case 2: spell(tmp, k->longf, (size_t) k->shortlen, (int) h_below(4)); break;          /* short */
        case 3: case 4: case 5: spell(tmp, k->longf, ll, (int) h_below(4)); break;                              /* long */
        case 6: spell(tmp, k->longf, ll > 1 ? ll - 1 : ll, (int) h_below(4)); break;                            /* one letter less */
        case 7: spell(tmp, k->longf, ll, (int) h_below(4)); strcat(tmp, "x"); break;                            /* one letter more */
        case 8: spell(tmp, k->longf, (size_t) k->shortlen + (k->shortlen < (int) ll ? 1 : 0), 0); break;        /* between short and long */
        case 9: { const kw_t *o = &pool[h_below(NPOOL)]; spell(tmp, o->longf, h_chance(50) ? strlen(o->longf) : (size_t) o->shortlen, 0); break; }
        case 10: spell(tmp, k->longf, (size_t) k->shortlen, 0); numsuffix(tmp + strlen(tmp), 100000); break; /* digits */
        default: spell(tmp, k->longf, ll, 0); numsuffix(tmp + strlen(tmp), 20); break;
    }
    if (numeric && h_chance(50) && v < 6) numsuffix(tmp + strlen(tmp), 2000000000u);
    n = strlen(tmp); memcpy(out, tmp, n); return n;
}

void dom_match(void) {
    unsigned long n = h_thorough ? 3000000 : 250000;
    char pat[256], hdr[256]; const char *pf = getenv("VERIF_PATTERNS");
    /* shipped patterns (tests and examples) against directed headers */
    static char shipped[400][96]; int nship = 0;
    if (pf) { FILE *f = fopen(pf, "r"); if (f) { while (nship < 400 && fgets(shipped[nship], 96, f)) { shipped[nship][strcspn(shipped[nship], "\r\n")] = 0; if (shipped[nship][0]) nship++; } fclose(f); } }
    for (; n; n--) {
        int nk = 1 + (int) h_below(4), i; const kw_t *ks[4]; int opt[4], num[4]; size_t k = 0, hl = 0; int query = h_chance(40);
        int common = h_chance(6); int use_shipped = nship && h_chance(15);
        if (use_shipped) {
            /* derive the keyword list from the shipped pattern text */
            const char *sp = shipped[h_below((unsigned) nship)]; strcpy(pat, sp);
            /* header: the pattern text with brackets removed / optional parts dropped, case-folded, lower-case tails cut at random */
            { const char *p = sp; int depth = 0, skip = 0;
              while (*p) {
                  if (*p == '[') { depth = 1; skip = h_chance(50); p++; continue; }
                  if (*p == ']') { depth = 0; skip = 0; p++; continue; }
                  if (*p == '#') { if (h_chance(50)) { numsuffix(hdr + hl, 40); hl += strlen(hdr + hl); } p++; continue; }
                  if (depth && skip) { p++; continue; }
                  if (islower((unsigned char) *p) && h_chance(40)) { while (islower((unsigned char) *p)) p++; continue; }
                  hdr[hl++] = h_chance(50) ? (char) tolower((unsigned char) *p) : *p; p++;
              } }
            if (h_chance(10) && hl) hl--;
            emit(pat, hdr, hl, (unsigned) hl, h_chance(50) ? -1 : (int) h_below(4), gen_default());
            continue;
        }
        if (common) {
            static const char *cc[] = {"*IDN?", "*RST", "*CLS", "*ESE", "*ESE?", "*OPC?"};
            static const char *ch[] = {"*IDN?", "*idn?", "*IDN", ":*IDN?", "*RST", "*rst", "*RS", "*RSTT", "*ESE", "*ESE?", "*ese?", "*", "*?", "IDN?", "*OPC?"};
            const char *h = ch[h_below(15)];
            emit(cc[h_below(6)], h, strlen(h), (unsigned) strlen(h), -1, 0);
            continue;
        }
        for (i = 0; i < nk; i++) { ks[i] = &pool[h_below(NPOOL)]; opt[i] = h_chance(35); num[i] = h_chance(25); }
        for (i = 0; i < nk; i++) {
            if (opt[i]) k += (size_t) sprintf(pat + k, "[:%s%s]", ks[i]->longf, num[i] ? "#" : "");
            else k += (size_t) sprintf(pat + k, "%s%s%s", (i || h_chance(30)) ? ":" : "", ks[i]->longf, num[i] ? "#" : "");
        }
        if (query) k += (size_t) sprintf(pat + k, "?");
        /* header: walk the keywords, dropping optional ones at random, sometimes inserting / dropping one */
        if (h_chance(50)) hdr[hl++] = ':';
        { int first = 1;
          for (i = 0; i < nk; i++) {
              if (opt[i] && h_chance(50)) continue;
              if (!opt[i] && h_chance(4)) continue;                     /* missing mandatory keyword */
              if (!first) hdr[hl++] = ':';
              hl += mnemonic(hdr + hl, ks[i], num[i]);
              first = 0;
          }
          if (h_chance(6)) { hdr[hl++] = ':'; hl += mnemonic(hdr + hl, &pool[h_below(NPOOL)], 0); }   /* surplus mnemonic */
          if (h_chance(3)) hdr[hl++] = ':';
        }
        if (h_chance(query ? 85 : 12)) hdr[hl++] = '?';
        if (hl == 0 && h_chance(80)) continue;
        { int nn = h_chance(45) ? -1 : (int) h_below(5); unsigned len = (unsigned) hl;
          if (nn < 0 && h_chance(5) && hl > 1) len = 1 + h_below((unsigned) hl);                            /* caller's length shorter than the text */
          else if (h_chance(35)) {
              /* what follows a header inside the parser's input buffer: white space or a terminator, then program data.  The
               * header ends at `len`; nothing behind it may influence acceptance or the reported suffixes (a digit run behind
               * a blank is where a conversion routine that skips leading white space would read on) */
              static const char *tails[] = { " 1000", " 1", "\n7", " -2", " +5", ";3", "\t12", " 1.5", "\r\n", "  42,7", " #H10", "\n" };
              const char *tl = tails[h_below(12)]; size_t tn = strlen(tl);
              if (hl + tn < sizeof hdr) { memcpy(hdr + hl, tl, tn); hl += tn; }
          }
          emit(pat, hdr, hl, len, nn, gen_default()); }
    }
}
